import AcraModel.AuditLog.JsonLemmas
/-!
Decoding what the encoder wrote (C20, JSON format): `parseStr ∘ encStr`, number literals, scalar values,
the members of a flat object, and `decodeTop (marshal (.obj o)) = o` for key-sorted maps whose keys are valid
UTF-8 and whose values are strings (valid UTF-8), numbers (any literal of the JSON grammar the model's scanner
delimits), booleans and `null`.
-/
set_option linter.unusedSimpArgs false
namespace AcraModel.AuditLog
open AcraModel Generated.AuditLog

/-! ### valid UTF-8 as a list of segments -/

/-- one rune as `unicode/utf8` decodes it: an ASCII byte or a well-formed multi-byte sequence -/
inductive Seg where
  | ascii (b : UInt8)
  | m2 (b c1 : UInt8)
  | m3 (b c1 c2 : UInt8)
  | m4 (b c1 c2 c3 : UInt8)

def Seg.bytes : Seg → Bytes
  | .ascii b => [b]
  | .m2 b c1 => [b, c1]
  | .m3 b c1 c2 => [b, c1, c2]
  | .m4 b c1 c2 c3 => [b, c1, c2, c3]

/-- well-formed per `utf8.DecodeRune` (no overlong forms, no surrogates, nothing above U+10FFFF) -/
def Seg.Wf : Seg → Prop
  | .ascii b => b.toNat < 0x80
  | .m2 b c1 => mbLen b [c1] = 2
  | .m3 b c1 c2 => mbLen b [c1, c2] = 3
  | .m4 b c1 c2 c3 => mbLen b [c1, c2, c3] = 4

/-- `utf8.Valid`: the byte string is a sequence of well-formed runes -/
def ValidUtf8 (s : Bytes) : Prop := ∃ gs : List Seg, (∀ g ∈ gs, g.Wf) ∧ s = gs.flatMap Seg.bytes

theorem mbLen_two {b c1 : UInt8} (h : mbLen b [c1] = 2) : 0xC2 ≤ b.toNat ∧ b.toNat ≤ 0xDF ∧ isCont c1 = true := by
  unfold mbLen at h
  simp only [] at h
  split at h
  · split at h <;> simp_all
  · split at h
    · simp at h
    · split at h <;> simp at h

theorem mbLen_two_ext {b c1 : UInt8} (h : mbLen b [c1] = 2) (x : Bytes) : mbLen b (c1 :: x) = 2 := by
  obtain ⟨h1, h2, h3⟩ := mbLen_two h
  unfold mbLen
  simp [h1, h2, h3]

theorem mbLen_three_ext {b c1 c2 : UInt8} (h : mbLen b [c1, c2] = 3) (x : Bytes) :
    mbLen b (c1 :: c2 :: x) = 3 ∧ 0xE0 ≤ b.toNat ∧ b.toNat ≤ 0xEF := by
  unfold mbLen at h ⊢
  simp only [] at h ⊢
  split at h
  · split at h <;> simp at h
  · next hn2 =>
    rw [if_neg hn2]
    split at h
    · next h3 =>
      rw [if_pos h3]
      exact ⟨h, h3.1, h3.2⟩
    · split at h <;> simp at h

theorem ite_3_0_ne_4 (p : Prop) [Decidable p] : (if p then 3 else 0) ≠ 4 := by
  by_cases h : p <;> simp [h]

theorem mbLen_four_ext {b c1 c2 c3 : UInt8} (h : mbLen b [c1, c2, c3] = 4) (x : Bytes) :
    mbLen b (c1 :: c2 :: c3 :: x) = 4 ∧ 0xF0 ≤ b.toNat := by
  unfold mbLen at h ⊢
  simp only [] at h ⊢
  split at h
  · split at h <;> simp at h
  · next hn2 =>
    rw [if_neg hn2]
    split at h
    · exact absurd h (ite_3_0_ne_4 _)
    · next hn3 =>
      rw [if_neg hn3]
      split at h
      · next h4 =>
        rw [if_pos h4]
        exact ⟨h, h4.1⟩
      · simp at h

/-! ### the decoder on single steps -/

theorem push_push (p q : Bytes) (x : Option (Bytes × Bytes)) : push p (push q x) = push (p ++ q) x := by
  cases x with
  | none => rfl
  | some y => obtain ⟨a, b⟩ := y; simp [push]

theorem parseStr_high (b : UInt8) (r : Bytes) (m : Nat) (hb : 0x80 ≤ b.toNat) (hm : mbLen b r = m + 1) :
    parseStr 0 (b :: r) = push [b] (parseStr m r) := by
  rw [parseStr.eq_def]
  simp only []
  rw [if_neg (by omega), if_neg (by omega), if_neg (by omega), if_neg (by omega), hm]

theorem parseStr_skip (k : Nat) (b : UInt8) (r : Bytes) : parseStr (k + 1) (b :: r) = push [b] (parseStr k r) := by
  rw [parseStr.eq_def]

theorem parseStr_quote (r : Bytes) : parseStr 0 (0x22 :: r) = some ([], r) := by
  rw [parseStr.eq_def]
  simp

theorem parseStr_plain (b : UInt8) (r : Bytes) (h1 : 0x20 ≤ b.toNat) (h2 : b.toNat < 0x80) (h3 : b.toNat ≠ 0x22)
    (h4 : b.toNat ≠ 0x5C) : parseStr 0 (b :: r) = push [b] (parseStr 0 r) := by
  rw [parseStr.eq_def]
  simp only []
  rw [if_neg h3, if_neg h4, if_neg (by omega), if_pos h2]

theorem parseStr_esc_simple (e x : UInt8) (r : Bytes) (hne : e.toNat ≠ 0x75) (hs : simpleEsc e = some x) :
    parseStr 0 (0x5C :: e :: r) = push [x] (parseStr 0 r) := by
  rw [parseStr.eq_def]
  simp only []
  rw [if_neg (by decide), if_pos (by decide), if_neg hne, hs]

theorem parseStr_esc_u (h1 h2 h3 h4 : UInt8) (r : Bytes) (u : Nat) (hh : hex4 h1 h2 h3 h4 = some u) (hu : u < 0xD800) :
    parseStr 0 (0x5C :: 0x75 :: h1 :: h2 :: h3 :: h4 :: r) = push (encRune u) (parseStr 0 r) := by
  rw [parseStr.eq_def]
  simp only []
  rw [if_neg (by decide), if_pos (by decide), if_pos (by decide), hh]
  simp only []
  rw [if_neg (by omega), if_neg (by omega)]

theorem nibVal_zero : nibVal 0x30 = some 0 := by decide

theorem hex4_00 (n : Nat) (h : n < 256) : hex4 0x30 0x30 (hexNib (n / 16)) (hexNib (n % 16)) = some n := by
  unfold hex4
  rw [nibVal_zero, nibVal_hexNib _ (by omega), nibVal_hexNib _ (by omega)]
  simp only []
  congr 1
  omega

theorem encRune_ascii (b : UInt8) (h : b.toNat < 0x80) : encRune b.toNat = [b] := by
  unfold encRune
  rw [if_pos h]
  simp

/-- the decoder undoes the encoder's treatment of one ASCII byte -/
theorem parseStr_escAscii (b : UInt8) (r : Bytes) (h : b.toNat < 0x80) :
    parseStr 0 (escAscii b ++ r) = push [b] (parseStr 0 r) := by
  unfold escAscii
  simp only []
  split
  · next hc =>
    show parseStr 0 (0x5C :: b :: r) = _
    refine parseStr_esc_simple b b r (by omega) ?_
    unfold simpleEsc
    simp only []
    rw [if_pos (by omega)]
  · split
    · next hc =>
      have hb : b = 8 := UInt8.toNat_inj.mp hc
      subst hb
      exact parseStr_esc_simple 0x62 8 r (by decide) (by decide)
    · split
      · next hc =>
        have hb : b = 12 := UInt8.toNat_inj.mp hc
        subst hb
        exact parseStr_esc_simple 0x66 12 r (by decide) (by decide)
      · split
        · next hc =>
          have hb : b = 10 := UInt8.toNat_inj.mp hc
          subst hb
          exact parseStr_esc_simple 0x6E 10 r (by decide) (by decide)
        · split
          · next hc =>
            have hb : b = 13 := UInt8.toNat_inj.mp hc
            subst hb
            exact parseStr_esc_simple 0x72 13 r (by decide) (by decide)
          · split
            · next hc =>
              have hb : b = 9 := UInt8.toNat_inj.mp hc
              subst hb
              exact parseStr_esc_simple 0x74 9 r (by decide) (by decide)
            · split
              · next hc =>
                show parseStr 0 (0x5C :: 0x75 :: 0x30 :: 0x30 :: hexNib (b.toNat / 16) :: hexNib (b.toNat % 16) :: r) = _
                rw [parseStr_esc_u _ _ _ _ r b.toNat (hex4_00 _ (by omega)) (by omega), encRune_ascii b h]
              · next h1 h2 h3 h4 h5 h6 h7 =>
                show parseStr 0 (b :: r) = _
                exact parseStr_plain b r (by omega) h (by omega) (by omega)

/-! ### the encoder on single segments -/

theorem lineSep_none (b : UInt8) (r : Bytes) (h : b.toNat ≠ 0xE2) : lineSep b r = none := by
  unfold lineSep
  split
  · rw [if_neg (by omega), if_neg (by omega)]
  · rfl

theorem encBody_emit (s : Bytes) : encBody 0 false s = encBody 0 true s := by
  cases s with
  | nil => rfl
  | cons b r => rw [encBody, encBody]

theorem encBody_ascii (b : UInt8) (r : Bytes) (h : b.toNat < 0x80) :
    encBody 0 true (b :: r) = escAscii b ++ encBody 0 true r := by
  rw [encBody, if_pos h]

theorem encBody_multi (b : UInt8) (r : Bytes) (m : Nat) (hb : 0x80 ≤ b.toNat) (hs : lineSep b r = none)
    (hm : mbLen b r = m + 1) : encBody 0 true (b :: r) = b :: encBody m true r := by
  rw [encBody, if_neg (by omega), hs]
  simp only [hm]

theorem encBody_copy (k : Nat) (b : UInt8) (r : Bytes) : encBody (k + 1) true (b :: r) = b :: encBody k true r := by
  rw [encBody]
  simp

theorem encBody_drop (k : Nat) (b : UInt8) (r : Bytes) : encBody (k + 1) false (b :: r) = encBody k false r := by
  rw [encBody]
  simp

/-- decoding the encoded form of one well-formed rune gives its bytes back -/
theorem seg_round (g : Seg) (hg : g.Wf) (s tail : Bytes) (res : Option (Bytes × Bytes))
    (ih : parseStr 0 (encBody 0 true s ++ tail) = res) :
    parseStr 0 (encBody 0 true (g.bytes ++ s) ++ tail) = push g.bytes res := by
  cases g with
  | ascii b =>
    simp only [Seg.bytes, List.cons_append, List.nil_append]
    rw [encBody_ascii b s hg, List.append_assoc, parseStr_escAscii b _ hg, ih]
  | m2 b c1 =>
    obtain ⟨h1, h2, h3⟩ := mbLen_two hg
    simp only [Seg.bytes, List.cons_append, List.nil_append]
    rw [encBody_multi b (c1 :: s) 1 (by omega) (lineSep_none _ _ (by omega)) (mbLen_two_ext hg s), encBody_copy]
    simp only [List.cons_append]
    rw [parseStr_high b _ 1 (by omega) (mbLen_two_ext hg _), parseStr_skip, ih, push_push]
    rfl
  | m3 b c1 c2 =>
    obtain ⟨hm, h1, h2⟩ := mbLen_three_ext hg s
    simp only [Seg.bytes, List.cons_append, List.nil_append]
    cases hs : lineSep b (c1 :: c2 :: s) with
    | none =>
      rw [encBody_multi b (c1 :: c2 :: s) 2 (by omega) hs hm, encBody_copy, encBody_copy]
      simp only [List.cons_append]
      rw [parseStr_high b _ 2 (by omega) (mbLen_three_ext hg _).1, parseStr_skip, parseStr_skip, ih, push_push, push_push]
      rfl
    | some d =>
      have hsep : (b = 0xE2 ∧ c1 = 0x80 ∧ c2 = 0xA8 ∧ d = 0x38) ∨ (b = 0xE2 ∧ c1 = 0x80 ∧ c2 = 0xA9 ∧ d = 0x39) := by
        unfold lineSep at hs
        simp only [] at hs
        split at hs
        · next hc =>
          left
          exact ⟨UInt8.toNat_inj.mp hc.1, UInt8.toNat_inj.mp hc.2.1, UInt8.toNat_inj.mp hc.2.2, by cases hs; rfl⟩
        · split at hs
          · next hc =>
            right
            exact ⟨UInt8.toNat_inj.mp hc.1, UInt8.toNat_inj.mp hc.2.1, UInt8.toNat_inj.mp hc.2.2, by cases hs; rfl⟩
          · cases hs
      have henc : encBody 0 true (b :: c1 :: c2 :: s) = [0x5C, 0x75, 0x32, 0x30, 0x32, d] ++ encBody 0 true s := by
        rw [encBody, if_neg (by omega), hs]
        simp only []
        rw [encBody_drop, encBody_drop, encBody_emit]
      rw [henc]
      rcases hsep with ⟨rfl, rfl, rfl, rfl⟩ | ⟨rfl, rfl, rfl, rfl⟩
      · show parseStr 0 (0x5C :: 0x75 :: 0x32 :: 0x30 :: 0x32 :: 0x38 :: (encBody 0 true s ++ tail)) = _
        rw [parseStr_esc_u _ _ _ _ _ 0x2028 (by decide) (by decide), ih]
        rfl
      · show parseStr 0 (0x5C :: 0x75 :: 0x32 :: 0x30 :: 0x32 :: 0x39 :: (encBody 0 true s ++ tail)) = _
        rw [parseStr_esc_u _ _ _ _ _ 0x2029 (by decide) (by decide), ih]
        rfl
  | m4 b c1 c2 c3 =>
    obtain ⟨hm, h1⟩ := mbLen_four_ext hg s
    simp only [Seg.bytes, List.cons_append, List.nil_append]
    rw [encBody_multi b (c1 :: c2 :: c3 :: s) 3 (by omega) (lineSep_none _ _ (by omega)) hm, encBody_copy, encBody_copy, encBody_copy]
    simp only [List.cons_append]
    rw [parseStr_high b _ 3 (by omega) (mbLen_four_ext hg _).1, parseStr_skip, parseStr_skip, parseStr_skip, ih,
      push_push, push_push, push_push]
    rfl

/-- **`unquote ∘ appendString` is the identity on valid UTF-8** (body of the literal, up to the closing quote) -/
theorem parseStr_encBody (gs : List Seg) (hw : ∀ g ∈ gs, g.Wf) (tail : Bytes) :
    parseStr 0 (encBody 0 true (gs.flatMap Seg.bytes) ++ 0x22 :: tail) = some (gs.flatMap Seg.bytes, tail) := by
  induction gs with
  | nil =>
    show parseStr 0 (encBody 0 true [] ++ 0x22 :: tail) = _
    rw [encBody]
    exact parseStr_quote tail
  | cons g r ih =>
    rw [List.flatMap_cons]
    rw [seg_round g (hw g List.mem_cons_self) _ _ _ (ih (fun x hx => hw x (List.mem_cons_of_mem _ hx)))]
    rfl

/-- a string literal written by the encoder is read back (after the opening quote) -/
theorem parseStr_encStr (s : Bytes) (hs : ValidUtf8 s) (tail : Bytes) :
    ∃ body, encStr s ++ tail = 0x22 :: body ∧ parseStr 0 body = some (s, tail) := by
  obtain ⟨gs, hw, rfl⟩ := hs
  refine ⟨encBody 0 true (gs.flatMap Seg.bytes) ++ 0x22 :: tail, ?_, parseStr_encBody gs hw tail⟩
  simp [encStr, List.append_assoc]

/-! ### number literals -/

theorem spanDigits_append (ds : Bytes) (d : UInt8) (tail : Bytes) (h : ∀ x ∈ ds, isDigit x = true) (hd : isDigit d = false) :
    spanDigits (ds ++ d :: tail) = (ds, d :: tail) := by
  induction ds with
  | nil => simp [spanDigits, hd]
  | cons x r ih =>
    have hx := h x List.mem_cons_self
    have := ih (fun y hy => h y (List.mem_cons_of_mem _ hy))
    simp [spanDigits, hx, this]

/-- a value delimiter as it follows a member value: `,` or `}` -/
def IsDelim (d : UInt8) : Prop := d.toNat = 0x2C ∨ d.toNat = 0x7D

/-- `lit` is a number literal the decoder reads back as such: it starts with `-` or a digit, and in front
of a delimiter the scanner takes exactly `lit` -/
def NumLit (lit : Bytes) : Prop :=
  (∃ c r, lit = c :: r ∧ (c.toNat = 0x2D ∨ isDigit c = true)) ∧
  ∀ d tail, IsDelim d → scanNum (lit ++ d :: tail) = some (lit, d :: tail)

theorem delim_facts {d : UInt8} (h : IsDelim d) :
    isDigit d = false ∧ d.toNat ≠ 0x2E ∧ d.toNat ≠ 0x65 ∧ d.toNat ≠ 0x45 ∧ d.toNat ≠ 0x2D ∧ isWs d = false := by
  unfold IsDelim at h
  unfold isDigit isWs
  rcases h with h | h <;> simp [h]

theorem scanTail_delim (d : UInt8) (tail : Bytes) (h : IsDelim d) :
    scanFrac (d :: tail) = some ([], d :: tail) ∧ scanExp (d :: tail) = some ([], d :: tail) := by
  obtain ⟨_, h2, h3, h4, _, _⟩ := delim_facts h
  constructor
  · simp [scanFrac, h2]
  · simp [scanExp, h3, h4]

theorem scanInt_digits' (ds : Bytes) (d : UInt8) (tail : Bytes) (hne : ds ≠ []) (hd : ∀ x ∈ ds, isDigit x = true)
    (hz : ds.head? = some 0x30 → ds.length = 1) (h : isDigit d = false) :
    scanInt (ds ++ d :: tail) = some (ds, d :: tail) := by
  unfold scanInt
  simp only []
  rw [spanDigits_append ds d tail hd h]
  simp only []
  have h1 : ds.isEmpty = false := by cases ds <;> simp_all
  rw [h1]
  simp only [Bool.false_eq_true, if_false]
  rw [if_neg]
  intro hc
  have := hz hc.1
  omega

theorem scanFrac_digits (fr : Bytes) (d : UInt8) (tail : Bytes) (hne : fr ≠ []) (hd : ∀ x ∈ fr, isDigit x = true)
    (h : isDigit d = false) : scanFrac (0x2E :: (fr ++ d :: tail)) = some (0x2E :: fr, d :: tail) := by
  unfold scanFrac
  have h1 : fr.isEmpty = false := by cases fr <;> simp_all
  simp [spanDigits_append fr d tail hd h, h1]

theorem scanInt_digits (ds : Bytes) (d : UInt8) (tail : Bytes) (hne : ds ≠ []) (hd : ∀ x ∈ ds, isDigit x = true)
    (hz : ds.head? = some 0x30 → ds.length = 1) (h : IsDelim d) :
    scanInt (ds ++ d :: tail) = some (ds, d :: tail) := by
  unfold scanInt
  simp only []
  rw [spanDigits_append ds d tail hd (delim_facts h).1]
  simp only []
  have h1 : ds.isEmpty = false := by cases ds <;> simp_all
  rw [h1]
  simp only [Bool.false_eq_true, if_false]
  rw [if_neg]
  intro hc
  have := hz hc.1
  omega

/-- every integer literal without superfluous leading zeros, with or without a sign -/
theorem numLit_int (ds : Bytes) (hne : ds ≠ []) (hd : ∀ x ∈ ds, isDigit x = true)
    (hz : ds.head? = some 0x30 → ds.length = 1) : NumLit ds ∧ NumLit (0x2D :: ds) := by
  obtain ⟨c, r, rfl⟩ := List.exists_cons_of_ne_nil hne
  have hc := hd c List.mem_cons_self
  have hcm : c.toNat ≠ 0x2D := by
    intro e
    unfold isDigit at hc
    simp [e] at hc
  constructor
  · refine ⟨⟨c, r, rfl, Or.inr hc⟩, ?_⟩
    intro d tail h
    unfold scanNum
    simp only [List.cons_append, if_neg hcm]
    have := scanInt_digits (c :: r) d tail hne hd hz h
    simp only [List.cons_append] at this
    rw [this]
    simp only []
    rw [(scanTail_delim d tail h).1]
    simp only []
    rw [(scanTail_delim d tail h).2]
    simp
  · refine ⟨⟨0x2D, c :: r, rfl, Or.inl (by decide)⟩, ?_⟩
    intro d tail h
    unfold scanNum
    have h2d : (0x2D : UInt8).toNat = 0x2D := by decide
    simp only [List.cons_append, h2d, if_true]
    have := scanInt_digits (c :: r) d tail hne hd hz h
    simp only [List.cons_append] at this
    rw [this]
    simp only []
    rw [(scanTail_delim d tail h).1]
    simp only []
    rw [(scanTail_delim d tail h).2]
    simp

/-- every decimal literal `digits.digits` without superfluous leading zeros, with or without a sign -/
theorem numLit_frac (ip fr : Bytes) (hne : ip ≠ []) (hd : ∀ x ∈ ip, isDigit x = true)
    (hz : ip.head? = some 0x30 → ip.length = 1) (hfne : fr ≠ []) (hfd : ∀ x ∈ fr, isDigit x = true) :
    NumLit (ip ++ 0x2E :: fr) ∧ NumLit (0x2D :: (ip ++ 0x2E :: fr)) := by
  obtain ⟨c, r, rfl⟩ := List.exists_cons_of_ne_nil hne
  have hc := hd c List.mem_cons_self
  have hcm : c.toNat ≠ 0x2D := by
    intro e
    unfold isDigit at hc
    simp [e] at hc
  have hdot : isDigit 0x2E = false := by decide
  have key : ∀ d tail, IsDelim d → scanInt ((c :: r) ++ 0x2E :: (fr ++ d :: tail)) = some (c :: r, 0x2E :: (fr ++ d :: tail)) :=
    fun d tail _ => scanInt_digits' (c :: r) 0x2E _ hne hd hz hdot
  constructor
  · refine ⟨⟨c, r ++ 0x2E :: fr, rfl, Or.inr hc⟩, ?_⟩
    intro d tail h
    have k := key d tail h
    unfold scanNum
    simp only [List.cons_append, List.append_assoc, if_neg hcm] at k ⊢
    rw [k]
    simp only []
    rw [scanFrac_digits fr d tail hfne hfd (delim_facts h).1]
    simp only []
    rw [(scanTail_delim d tail h).2]
    simp
  · refine ⟨⟨0x2D, c :: r ++ 0x2E :: fr, rfl, Or.inl (by decide)⟩, ?_⟩
    intro d tail h
    have k := key d tail h
    unfold scanNum
    have h2d : (0x2D : UInt8).toNat = 0x2D := by decide
    simp only [List.cons_append, List.append_assoc, h2d, if_true] at k ⊢
    rw [k]
    simp only []
    rw [scanFrac_digits fr d tail hfne hfd (delim_facts h).1]
    simp only []
    rw [(scanTail_delim d tail h).2]
    simp

/-! ### scalar values -/

/-- the values the proved round trip covers: `null`, booleans, number literals, valid UTF-8 strings -/
inductive ScalarV : JVal → Prop where
  | null : ScalarV .null
  | bool (b : Bool) : ScalarV (.bool b)
  | num (lit : Bytes) (h : NumLit lit) : ScalarV (.num lit)
  | str (s : Bytes) (h : ValidUtf8 s) : ScalarV (.str s)

theorem skipWs_cons (c : UInt8) (r : Bytes) (h : isWs c = false) : skipWs (c :: r) = c :: r := by
  simp [skipWs, h]

theorem strB_true : strB "true" = [0x74, 0x72, 0x75, 0x65] := by decide
theorem strB_false : strB "false" = [0x66, 0x61, 0x6C, 0x73, 0x65] := by decide
theorem strB_null : strB "null" = [0x6E, 0x75, 0x6C, 0x6C] := by decide

/-- a scalar written by the encoder in front of a delimiter is read back, and starts with no white space -/
theorem parseScalar_marshal (v : JVal) (hv : ScalarV v) (d : UInt8) (tail : Bytes) (hd : IsDelim d) :
    parseScalar (marshal v ++ d :: tail) = some (v, d :: tail) ∧
    ∃ c r, marshal v ++ d :: tail = c :: r ∧ isWs c = false ∧ c.toNat ≠ 0x7B ∧ c.toNat ≠ 0x5B := by
  cases hv with
  | null =>
    simp only [marshal, strB_null]
    refine ⟨?_, _, _, rfl, by decide, by decide, by decide⟩
    simp [parseScalar, strB_true, strB_false, strB_null, List.isPrefixOf]
  | bool b =>
    cases b with
    | true =>
      simp only [marshal, strB_true]
      refine ⟨?_, _, _, rfl, by decide, by decide, by decide⟩
      simp [parseScalar, strB_true, strB_false, strB_null, List.isPrefixOf]
    | false =>
      simp only [marshal, strB_false]
      refine ⟨?_, _, _, rfl, by decide, by decide, by decide⟩
      simp [parseScalar, strB_true, strB_false, strB_null, List.isPrefixOf]
  | num lit h =>
    obtain ⟨⟨c, r, rfl, hc⟩, hscan⟩ := h
    have hm : marshal (.num (c :: r)) = c :: r := by simp [marshal]
    rw [hm]
    have hfacts : c.toNat ≠ 0x22 ∧ c.toNat ≠ 0x74 ∧ c.toNat ≠ 0x66 ∧ c.toNat ≠ 0x6E ∧ isWs c = false ∧
        c.toNat ≠ 0x7B ∧ c.toNat ≠ 0x5B := by
      unfold isDigit at hc
      unfold isWs
      rcases hc with hc | hc
      · simp [hc]
      · simp only [Bool.and_eq_true, decide_eq_true_eq] at hc
        refine ⟨by omega, by omega, by omega, by omega, ?_, by omega, by omega⟩
        simp
        omega
    obtain ⟨f1, f2, f3, f4, f5, f6, f7⟩ := hfacts
    refine ⟨?_, c, _, rfl, f5, f6, f7⟩
    have := hscan d tail hd
    simp only [List.cons_append] at this ⊢
    unfold parseScalar
    simp only [if_neg f1, strB_true, strB_false, strB_null]
    have ne1 : (c == 0x74) = false := by
      simp only [beq_eq_false_iff_ne, ne_eq]
      intro e; exact f2 (by rw [e]; decide)
    have ne2 : (c == 0x66) = false := by
      simp only [beq_eq_false_iff_ne, ne_eq]
      intro e; exact f3 (by rw [e]; decide)
    have ne3 : (c == 0x6E) = false := by
      simp only [beq_eq_false_iff_ne, ne_eq]
      intro e; exact f4 (by rw [e]; decide)
    have e1 : ¬ ((116 : UInt8) = c) := fun e => f2 (by rw [← e]; decide)
    have e2 : ¬ ((102 : UInt8) = c) := fun e => f3 (by rw [← e]; decide)
    have e3 : ¬ ((110 : UInt8) = c) := fun e => f4 (by rw [← e]; decide)
    simp [List.isPrefixOf, ne1, ne2, ne3, e1, e2, e3, this]
  | str s h =>
    obtain ⟨body, hb, hp⟩ := parseStr_encStr s h (d :: tail)
    simp only [marshal]
    rw [hb]
    refine ⟨?_, _, _, rfl, by decide, by decide, by decide⟩
    unfold parseScalar
    simp only []
    rw [if_pos (by decide), hp]

theorem parseVal_scalar (f : Nat) (v : JVal) (hv : ScalarV v) (d : UInt8) (tail : Bytes) (hd : IsDelim d) :
    parseVal (f + 1) (marshal v ++ d :: tail) = some (v, d :: tail) := by
  obtain ⟨hp, c, r, hcr, _, h7b, h5b⟩ := parseScalar_marshal v hv d tail hd
  rw [hcr] at hp ⊢
  rw [parseVal]
  simp only [if_neg h7b, if_neg h5b]
  exact hp

/-! ### flat objects -/

/-- keys are valid UTF-8, values are scalars -/
def FlatObj (o : Obj) : Prop := ∀ kv ∈ o, ValidUtf8 kv.1 ∧ ScalarV kv.2

theorem isWs_quote : isWs 0x22 = false := by decide

theorem parseMembers_step (f : Nat) (k : Bytes) (v : JVal) (hk : ValidUtf8 k) (hv : ScalarV v) (d : UInt8) (hd : IsDelim d)
    (tail : Bytes) :
    parseMembers (f + 2) (encStr k ++ 0x3A :: (marshal v ++ d :: tail)) =
      if d.toNat = 0x2C then (parseMembers (f + 1) (skipWs tail)).map fun p => ((k, v) :: p.1, p.2)
      else some ([(k, v)], tail) := by
  obtain ⟨body, hb, hp⟩ := parseStr_encStr k hk (0x3A :: (marshal v ++ d :: tail))
  obtain ⟨_, c, r, hcr, hws, _, _⟩ := parseScalar_marshal v hv d tail hd
  have hval := parseVal_scalar f v hv d tail hd
  rw [hb, parseMembers]
  try simp only []
  rw [if_pos (by decide), hp]
  try simp only []
  rw [skipWs_cons _ _ (by decide)]
  try simp only []
  rw [if_pos (by decide)]
  have hsk : skipWs (marshal v ++ d :: tail) = marshal v ++ d :: tail := by
    rw [hcr]; exact skipWs_cons c r hws
  rw [hsk, hval]
  try simp only []
  rw [skipWs_cons _ _ (delim_facts hd).2.2.2.2.2]
  try simp only []
  rcases hd with h | h
  · rw [if_pos h, if_pos h]
    cases parseMembers (f + 1) (skipWs tail) with
    | none => rfl
    | some p => rfl
  · rw [if_neg (by omega), if_pos h, if_neg (by omega)]

theorem marshalMembers_head (k : Bytes) (v : JVal) (r : Obj) :
    ∃ x, marshalMembers ((k, v) :: r) = 0x22 :: x := by
  cases r with
  | nil => exact ⟨encBody 0 true k ++ 0x22 :: 0x3A :: marshal v, by simp [marshalMembers, encStr]⟩
  | cons m r' =>
    exact ⟨encBody 0 true k ++ 0x22 :: 0x3A :: (marshal v ++ 0x2C :: marshalMembers (m :: r')), by simp [marshalMembers, encStr]⟩

theorem parseMembers_marshal (o : Obj) (hf : FlatObj o) (hne : o ≠ []) :
    ∀ f, o.length ≤ f → ∀ tail, parseMembers (f + 1) (marshalMembers o ++ 0x7D :: tail) = some (o, tail) := by
  induction o with
  | nil => exact absurd rfl hne
  | cons kv r ih =>
    obtain ⟨k, v⟩ := kv
    obtain ⟨hk, hv⟩ := hf (k, v) List.mem_cons_self
    intro f hfl tail
    obtain ⟨f', rfl⟩ : ∃ f', f = f' + 1 := ⟨f - 1, by simp at hfl; omega⟩
    cases r with
    | nil =>
      have : marshalMembers [(k, v)] ++ 0x7D :: tail = encStr k ++ 0x3A :: (marshal v ++ 0x7D :: tail) := by
        simp [marshalMembers, List.append_assoc]
      rw [this, parseMembers_step f' k v hk hv 0x7D (Or.inr (by decide)) tail]
      rw [if_neg (by decide)]
    | cons m r' =>
      have : marshalMembers ((k, v) :: m :: r') ++ 0x7D :: tail =
          encStr k ++ 0x3A :: (marshal v ++ 0x2C :: (marshalMembers (m :: r') ++ 0x7D :: tail)) := by
        simp [marshalMembers, List.append_assoc]
      rw [this, parseMembers_step f' k v hk hv 0x2C (Or.inl (by decide)) _]
      rw [if_pos (by decide)]
      obtain ⟨x, hx⟩ := marshalMembers_head m.1 m.2 r'
      have hsk : skipWs (marshalMembers (m :: r') ++ 0x7D :: tail) = marshalMembers (m :: r') ++ 0x7D :: tail := by
        rw [hx]; exact skipWs_cons _ _ isWs_quote
      rw [hsk, ih (fun kv hkv => hf kv (List.mem_cons_of_mem _ hkv)) (by simp) f' (by simp at hfl ⊢; omega) tail]
      rfl

theorem marshalMembers_length (o : Obj) : o.length ≤ (marshalMembers o).length := by
  induction o with
  | nil => simp
  | cons kv r ih =>
    obtain ⟨k, v⟩ := kv
    cases r with
    | nil => simp [marshalMembers, encStr]
    | cons m r' =>
      simp only [marshalMembers, List.length_append, List.length_cons] at ih ⊢
      simp only [encStr, List.length_append, List.length_cons, List.length_nil]
      omega

theorem parseVal_obj (n : Nat) (o : Obj) (hc : Canonical o) (hf : FlatObj o) (hn : o.length ≤ n) :
    parseVal (n + 2) (0x7B :: (marshalMembers o ++ [0x7D])) = some (.obj o, []) := by
  rw [parseVal]
  try simp only []
  rw [if_pos (by decide)]
  cases o with
  | nil =>
    simp [marshalMembers, skipWs, isWs]
  | cons kv r =>
    obtain ⟨k, v⟩ := kv
    obtain ⟨x, hx⟩ := marshalMembers_head k v r
    have hsk : skipWs (marshalMembers ((k, v) :: r) ++ [0x7D]) = 0x22 :: (x ++ [0x7D]) := by
      rw [hx]; exact skipWs_cons _ _ isWs_quote
    rw [hsk]
    try simp only []
    rw [if_neg (by decide)]
    have hpm := parseMembers_marshal ((k, v) :: r) hf (by simp) n hn []
    rw [hx] at hpm
    simp only [List.cons_append] at hpm
    rw [hpm]
    simp [normalize_canonical _ hc]

/-- **`unmarshalLogEntry ∘ json.Marshal` is the identity** on key-sorted maps with valid UTF-8 keys and scalar
values (strings of valid UTF-8, number literals, booleans, `null`). -/
theorem decodeTop_marshal (o : Obj) (hc : Canonical o) (hf : FlatObj o) :
    decodeTop (marshal (.obj o)) = some (some o) := by
  unfold decodeTop
  have hm : marshal (.obj o) = 0x7B :: (marshalMembers o ++ [0x7D]) := by simp [marshal]
  rw [hm, skipWs_cons _ _ (by decide)]
  have hl : (0x7B :: (marshalMembers o ++ [0x7D])).length + 1 = ((marshalMembers o).length + 1) + 2 := by simp
  rw [hl, parseVal_obj _ o hc hf (Nat.le_succ_of_le (marshalMembers_length o))]
  simp [skipWs]

/-! ### the class is closed under the hook's assignments -/

theorem validUtf8_ascii (s : Bytes) (h : ∀ x ∈ s, x.toNat < 0x80) : ValidUtf8 s := by
  refine ⟨s.map Seg.ascii, ?_, ?_⟩
  · intro g hg
    obtain ⟨x, hx, rfl⟩ := List.mem_map.mp hg
    exact h x hx
  · induction s with
    | nil => rfl
    | cons x r ih =>
      simp only [List.map_cons, List.flatMap_cons, Seg.bytes, List.cons_append, List.nil_append]
      rw [← ih (fun y hy => h y (List.mem_cons_of_mem _ hy))]

theorem hexEnc_ascii (b : Bytes) : ∀ x ∈ hexEnc b, x.toNat < 0x80 := by
  intro x hx
  have := hexEnc_plain b x hx
  unfold plainByte at this
  simp only [Bool.and_eq_true, decide_eq_true_eq] at this
  exact this.2

theorem mem_setKey (k : Bytes) (v : JVal) (o : Obj) : ∀ kv ∈ setKey k v o, kv = (k, v) ∨ kv ∈ o := by
  induction o with
  | nil => intro kv h; simp [setKey] at h; exact Or.inl h
  | cons kv0 r ih =>
    obtain ⟨k', v'⟩ := kv0
    intro kv h
    simp only [setKey] at h
    split at h
    · rcases List.mem_cons.mp h with e | e
      · exact Or.inl e
      · exact Or.inr (List.mem_cons_of_mem _ e)
    · split at h
      · rcases List.mem_cons.mp h with e | e
        · exact Or.inl e
        · exact Or.inr e
      · rcases List.mem_cons.mp h with e | e
        · exact Or.inr (by rw [e]; exact List.mem_cons_self)
        · rcases ih kv e with e' | e'
          · exact Or.inl e'
          · exact Or.inr (List.mem_cons_of_mem _ e')

theorem flatObj_setKey (k : Bytes) (v : JVal) (o : Obj) (hk : ValidUtf8 k) (hv : ScalarV v) (ho : FlatObj o) :
    FlatObj (setKey k v o) := by
  intro kv h
  rcases mem_setKey k v o kv h with e | e
  · rw [e]; exact ⟨hk, hv⟩
  · exact ho kv e

theorem validUtf8_intKey : ValidUtf8 intKeyB := validUtf8_ascii _ (by decide)
theorem validUtf8_chainKey : ValidUtf8 chainKeyB := validUtf8_ascii _ (by decide)
theorem validUtf8_newVal : ValidUtf8 newValB := validUtf8_ascii _ (by decide)

/-- the map the hook marshals stays in the class -/
theorem hookMap_class (c : CryptoOps) (st : Calc) (o : Obj) (hc : Canonical o) (hf : FlatObj o) :
    Canonical (jsonHookMap c st o) ∧ FlatObj (jsonHookMap c st o) := by
  unfold jsonHookMap
  simp only []
  have h1 := canonical_setKey intKeyB (.str (hexEnc (st.step c (conv o)).2.1)) o hc
  have h2 := flatObj_setKey intKeyB (.str (hexEnc (st.step c (conv o)).2.1)) o validUtf8_intKey
    (.str _ (validUtf8_ascii _ (hexEnc_ascii _))) hf
  split
  · exact ⟨canonical_setKey _ _ _ h1, flatObj_setKey _ _ _ validUtf8_chainKey (.str _ validUtf8_newVal) h2⟩
  · exact ⟨h1, h2⟩

theorem marshal_obj_nonempty (o : Obj) : (marshal (.obj o)).isEmpty = false := by
  simp [marshal]

/-! ### one value of the authenticated bytes -/

/-- `convertMapToBytes` separates the maps that differ in the value of one key exactly when `getBytes`
separates the two values -/
theorem convWith_setKey_inj (fast : Bool) (k : Bytes) (o : Obj) (v v' : JVal) :
    convWith fast (setKey k v o) = convWith fast (setKey k v' o) ↔ getBytes fast v = getBytes fast v' := by
  obtain ⟨A, B, h⟩ := convWith_setKey_split fast k o
  rw [h v, h v']
  constructor
  · intro e
    rw [List.append_assoc, List.append_assoc] at e
    exact List.append_cancel_right (List.append_cancel_left e)
  · intro e; rw [e]

end AcraModel.AuditLog
