import AcraModel.AuditLog.Json
import AcraModel.AuditLog.ParseLemmas
/-!
Helper lemmas for the JSON render/parse theorems of C20: Go maps as sorted association lists
(`setKey`, `getKey`, `eraseKey`), the order on keys, and how `convertMapToBytes` depends on one value.
-/
set_option linter.unusedSimpArgs false
namespace AcraModel.AuditLog
open AcraModel Generated.AuditLog

/-! ### the order on keys -/

theorem bytesLt_irrefl (a : Bytes) : bytesLt a a = false := by
  induction a with
  | nil => rfl
  | cons x r ih => simp [bytesLt, ih]

theorem bytesLt_trans {a b c : Bytes} (h1 : bytesLt a b = true) (h2 : bytesLt b c = true) : bytesLt a c = true := by
  induction a generalizing b c with
  | nil =>
    cases b with
    | nil => simp [bytesLt] at h1
    | cons y b' =>
      cases c with
      | nil => simp [bytesLt] at h2
      | cons z c' => rfl
  | cons x a' ih =>
    cases b with
    | nil => simp [bytesLt] at h1
    | cons y b' =>
      cases c with
      | nil => simp [bytesLt] at h2
      | cons z c' =>
        simp only [bytesLt] at h1 h2 ⊢
        by_cases hxy : x.toNat < y.toNat
        · by_cases hyz : y.toNat < z.toNat
          · rw [if_pos (by omega)]
          · rw [if_neg hyz] at h2
            by_cases hzy : z.toNat < y.toNat
            · rw [if_pos hzy] at h2; cases h2
            · rw [if_pos (by omega)]
        · rw [if_neg hxy] at h1
          by_cases hyx : y.toNat < x.toNat
          · rw [if_pos hyx] at h1; cases h1
          · rw [if_neg hyx] at h1
            by_cases hyz : y.toNat < z.toNat
            · rw [if_pos (by omega)]
            · rw [if_neg hyz] at h2
              by_cases hzy : z.toNat < y.toNat
              · rw [if_pos hzy] at h2; cases h2
              · rw [if_neg hzy] at h2
                rw [if_neg (by omega), if_neg (by omega)]
                exact ih h1 h2

theorem bytesLt_total {a b : Bytes} (h1 : bytesLt a b = false) (h2 : a ≠ b) : bytesLt b a = true := by
  induction a generalizing b with
  | nil =>
    cases b with
    | nil => exact absurd rfl h2
    | cons y b' => simp [bytesLt] at h1
  | cons x a' ih =>
    cases b with
    | nil => rfl
    | cons y b' =>
      simp only [bytesLt] at h1 ⊢
      by_cases hxy : x.toNat < y.toNat
      · rw [if_pos hxy] at h1; cases h1
      · rw [if_neg hxy] at h1
        by_cases hyx : y.toNat < x.toNat
        · rw [if_pos hyx]
        · rw [if_neg hyx] at h1
          rw [if_neg hyx, if_neg hxy]
          have hx : x = y := UInt8.toNat_inj.mp (by omega)
          subst hx
          exact ih h1 (fun h => h2 (by rw [h]))

/-- a Go map as the model holds it: keys strictly increasing -/
def Canonical (o : Obj) : Prop := o.Pairwise fun a b => bytesLt a.1 b.1 = true

def keysOf (o : Obj) : List Bytes := o.map (·.1)

theorem getKey_none_iff (k : Bytes) (o : Obj) : getKey k o = none ↔ k ∉ keysOf o := by
  induction o with
  | nil => simp [getKey, keysOf]
  | cons kv r ih =>
    obtain ⟨k', v'⟩ := kv
    simp only [getKey, keysOf, List.map_cons, List.mem_cons, not_or]
    by_cases h : k' = k
    · simp [h]
    · rw [if_neg h]
      simp only [keysOf] at ih
      rw [ih]
      constructor
      · intro hm; exact ⟨fun e => h e.symm, hm⟩
      · intro hm; exact hm.2

theorem eraseKey_absent (k : Bytes) (o : Obj) (h : k ∉ keysOf o) : eraseKey k o = o := by
  unfold eraseKey
  rw [List.filter_eq_self]
  intro kv hkv
  have : kv.1 ≠ k := fun e => h (by rw [← e]; exact List.mem_map_of_mem hkv)
  simpa using this

theorem keysOf_setKey (k : Bytes) (v : JVal) (o : Obj) : ∀ x ∈ keysOf (setKey k v o), x = k ∨ x ∈ keysOf o := by
  induction o with
  | nil => intro x hx; simp [setKey, keysOf] at hx; exact Or.inl hx
  | cons kv r ih =>
    obtain ⟨k', v'⟩ := kv
    intro x hx
    simp only [setKey] at hx
    split at hx
    · simp [keysOf] at hx ⊢
      rcases hx with h | h
      · exact Or.inl h
      · exact Or.inr (Or.inr h)
    · split at hx
      · simp [keysOf] at hx ⊢
        rcases hx with h | h | h
        · exact Or.inl h
        · exact Or.inr (Or.inl h)
        · exact Or.inr (Or.inr h)
      · simp only [keysOf, List.map_cons, List.mem_cons] at hx ⊢
        rcases hx with h | h
        · exact Or.inr (Or.inl h)
        · rcases ih x h with h' | h'
          · exact Or.inl h'
          · exact Or.inr (Or.inr h')

theorem getKey_setKey_same (k : Bytes) (v : JVal) (o : Obj) : getKey k (setKey k v o) = some v := by
  induction o with
  | nil => simp [setKey, getKey]
  | cons kv r ih =>
    obtain ⟨k', v'⟩ := kv
    simp only [setKey]
    split
    · simp [getKey]
    · next hne =>
      split
      · simp [getKey]
      · simp only [getKey]
        rw [if_neg (fun e => hne e.symm)]
        exact ih

theorem getKey_setKey_other (k k' : Bytes) (v : JVal) (o : Obj) (h : k ≠ k') : getKey k' (setKey k v o) = getKey k' o := by
  induction o with
  | nil => simp [setKey, getKey, h]
  | cons kv r ih =>
    obtain ⟨k2, v2⟩ := kv
    simp only [setKey]
    split
    · next he => subst he; simp [getKey, h]
    · split
      · simp [getKey, h]
      · simp only [getKey]
        split
        · rfl
        · exact ih

/-- `delete(m, k)` after `m[k] = v` on a map without `k` gives the map back -/
theorem eraseKey_setKey (k : Bytes) (v : JVal) (o : Obj) (h : k ∉ keysOf o) : eraseKey k (setKey k v o) = o := by
  induction o with
  | nil => simp [setKey, eraseKey]
  | cons kv r ih =>
    obtain ⟨k', v'⟩ := kv
    have hk : k ≠ k' := fun e => h (by simp [keysOf, e])
    have hr : k ∉ keysOf r := fun e => h (by simp only [keysOf, List.map_cons, List.mem_cons]; exact Or.inr e)
    simp only [setKey, if_neg hk]
    have hr' := eraseKey_absent k r hr
    unfold eraseKey at hr' ih ⊢
    split
    · simp [List.filter_cons, hk.symm, hr']
    · simp [List.filter_cons, hk.symm, ih hr]

/-- the hook's two assignments followed by the parser's first deletion -/
theorem eraseKey_setKey_setKey (a b : Bytes) (v w : JVal) (o : Obj) (hab : a ≠ b) (h : a ∉ keysOf o) :
    eraseKey a (setKey b w (setKey a v o)) = setKey b w o := by
  have habs : ∀ X : Obj, a ∉ keysOf X → eraseKey a (setKey b w X) = setKey b w X := by
    intro X hX
    apply eraseKey_absent
    intro hm
    rcases keysOf_setKey b w X a hm with e | e
    · exact hab e
    · exact hX e
  induction o with
  | nil =>
    simp only [setKey, if_neg (Ne.symm hab)]
    split <;> simp [eraseKey, List.filter_cons, hab, Ne.symm hab]
  | cons kv r ih =>
    obtain ⟨k', v'⟩ := kv
    have hk : a ≠ k' := fun e => h (by simp [keysOf, e])
    have hr : a ∉ keysOf r := fun e => h (by simp only [keysOf, List.map_cons, List.mem_cons]; exact Or.inr e)
    have hor : eraseKey a ((k', v') :: r) = (k', v') :: r := eraseKey_absent a _ h
    simp only [setKey, if_neg hk]
    by_cases hlt : bytesLt a k' = true
    · rw [if_pos hlt]
      simp only [setKey, if_neg (Ne.symm hab)]
      by_cases hba : bytesLt b a = true
      · rw [if_pos hba]
        have hbk : bytesLt b k' = true := bytesLt_trans hba hlt
        have hbne : b ≠ k' := fun e => by rw [e, bytesLt_irrefl] at hbk; cases hbk
        rw [if_neg hbne, if_pos hbk]
        have := hor
        unfold eraseKey at this ⊢
        simp [List.filter_cons, hab, Ne.symm hab, this]
      · rw [if_neg hba]
        have h2 := habs ((k', v') :: r) h
        simp only [setKey] at h2
        unfold eraseKey at h2 ⊢
        rw [List.filter_cons]
        simp only [bne_self_eq_false, Bool.false_eq_true, if_false]
        exact h2
    · rw [if_neg hlt]
      simp only [setKey]
      by_cases hbk : b = k'
      · rw [if_pos hbk, if_pos hbk]
        have := eraseKey_setKey a v r hr
        unfold eraseKey at this ⊢
        simp [List.filter_cons, hab, Ne.symm hab, this]
      · rw [if_neg hbk, if_neg hbk]
        by_cases hbl : bytesLt b k' = true
        · rw [if_pos hbl, if_pos hbl]
          have := eraseKey_setKey a v r hr
          unfold eraseKey at this ⊢
          simp [List.filter_cons, hab, Ne.symm hab, Ne.symm hk, this]
        · rw [if_neg hbl, if_neg hbl]
          have := ih hr
          unfold eraseKey at this ⊢
          simp [List.filter_cons, Ne.symm hk, this]

/-- `m[k] = v` keeps the keys strictly increasing -/
theorem canonical_setKey (k : Bytes) (v : JVal) (o : Obj) (h : Canonical o) : Canonical (setKey k v o) := by
  induction o with
  | nil => simp [setKey, Canonical]
  | cons kv r ih =>
    obtain ⟨k', v'⟩ := kv
    unfold Canonical at h ih ⊢
    rw [List.pairwise_cons] at h
    simp only [setKey]
    split
    · next he =>
      subst he
      rw [List.pairwise_cons]
      exact ⟨h.1, h.2⟩
    · next hne =>
      split
      · next hlt =>
        rw [List.pairwise_cons]
        refine ⟨?_, List.pairwise_cons.mpr h⟩
        intro x hx
        rcases List.mem_cons.mp hx with e | e
        · rw [e]; exact hlt
        · exact bytesLt_trans hlt (h.1 x e)
      · next hnlt =>
        rw [List.pairwise_cons]
        refine ⟨?_, ih h.2⟩
        intro x hx
        have hxk : x.1 ∈ keysOf (setKey k v r) := List.mem_map_of_mem hx
        rcases keysOf_setKey k v r x.1 hxk with e | e
        · rw [e]
          exact bytesLt_total (by simpa using hnlt) hne
        · obtain ⟨y, hy, hye⟩ := List.mem_map.mp e
          rw [← hye]
          exact h.1 y hy

theorem canonical_head_notin (k : Bytes) (v : JVal) (r : Obj) (h : Canonical ((k, v) :: r)) : k ∉ keysOf r := by
  unfold Canonical at h
  rw [List.pairwise_cons] at h
  intro hm
  obtain ⟨y, hy, hye⟩ := List.mem_map.mp hm
  have := h.1 y hy
  simp only at this
  rw [hye, bytesLt_irrefl] at this
  cases this

/-- the members of an object literal written in key order without duplicates ARE the map -/
theorem normalize_canonical (o : Obj) (h : Canonical o) : normalize o = o := by
  induction o with
  | nil => rfl
  | cons kv r ih =>
    obtain ⟨k, v⟩ := kv
    have hr : Canonical r := by
      unfold Canonical at h ⊢
      exact (List.pairwise_cons.mp h).2
    have hk := canonical_head_notin k v r h
    simp only [normalize, ih hr]
    have hh : hasKey k r = false := by
      unfold hasKey
      rw [List.any_eq_false]
      intro x hx
      have : x.1 ≠ k := fun e => hk (by rw [← e]; exact List.mem_map_of_mem hx)
      simpa using this
    rw [hh]
    simp only [Bool.false_eq_true, if_false]
    cases r with
    | nil => rfl
    | cons kv2 r2 =>
      obtain ⟨k2, v2⟩ := kv2
      unfold Canonical at h
      have hlt := (List.pairwise_cons.mp h).1 (k2, v2) (by simp)
      have hne : k ≠ k2 := fun e => hk (by simp [keysOf, e])
      simp only [setKey, if_neg hne]
      rw [if_pos hlt]

/-! ### how the authenticated bytes depend on one value -/

/-- `convertMapToBytes` of a map with `k` set to `v` is `A ‖ getBytes(v) ‖ B` with `A`, `B` not depending on `v` -/
theorem convWith_setKey_split (fast : Bool) (k : Bytes) (o : Obj) :
    ∃ A B : Bytes, ∀ v, convWith fast (setKey k v o) = A ++ getBytes fast v ++ B := by
  induction o with
  | nil =>
    refine ⟨jDelim ++ k ++ jDelim, jDelim, ?_⟩
    intro v
    simp [convWith, setKey, List.append_assoc]
  | cons kv r ih =>
    obtain ⟨k', v'⟩ := kv
    obtain ⟨A, B, hAB⟩ := ih
    by_cases he : k = k'
    · refine ⟨jDelim ++ k ++ jDelim, jDelim ++ convWith fast r, ?_⟩
      intro v
      simp [convWith, setKey, he, List.append_assoc]
    · by_cases hlt : bytesLt k k' = true
      · refine ⟨jDelim ++ k ++ jDelim, jDelim ++ convWith fast ((k', v') :: r), ?_⟩
        intro v
        simp [convWith, setKey, he, hlt, List.append_assoc]
      · refine ⟨jDelim ++ k' ++ jDelim ++ getBytes fast v' ++ jDelim ++ A, B, ?_⟩
        intro v
        have := hAB v
        simp only [convWith, List.append_assoc] at this
        simp [convWith, setKey, he, hlt, List.append_assoc, this]

/-! ### the parser on the hook's map -/

theorem intKey_ne_chainKey : intKeyB ≠ chainKeyB := by decide

theorem jIsEnd_of_chain_none (o : Obj) (h : getKey chainKeyB o = none) : jIsEnd o = false := by
  simp [jIsEnd, h]

/-- **The parser inverts the hook at map level.** For a decoded formatter output `o` without a key
`integrity`, without a key `chain` when the entry opens a chain, and without `chain: "new"` otherwise, the
parser applied to the map the hook marshals recovers exactly the bytes the hook authenticated, the tag and
the chain markers. -/
theorem jsonParseObj_hookMap (c : CryptoOps) (st : Calc) (o : Obj)
    (hint : intKeyB ∉ keysOf o)
    (hchain : st.prev.isNone = true → chainKeyB ∉ keysOf o)
    (hnew : getKey chainKeyB o ≠ some (.str newValB)) :
    jsonParseObj false (jsonHookMap c st o) =
      .entry ⟨conv o, (st.step c (conv o)).2.1, (st.step c (conv o)).2.2, jIsEnd o⟩ := by
  have hnewflag : (st.step c (conv o)).2.2 = st.prev.isNone := rfl
  cases hp : st.prev.isNone with
  | false =>
    have hmap : jsonHookMap c st o = setKey intKeyB (.str (hexEnc (st.step c (conv o)).2.1)) o := by
      simp [jsonHookMap, hnewflag, hp]
    rw [hmap, hnewflag, hp]
    unfold jsonParseObj
    rw [getKey_setKey_same]
    simp only [hexDec_hexEnc, eraseKey_setKey _ _ _ hint]
    unfold jIsEnd
    cases hc : getKey chainKeyB o with
    | none => rfl
    | some cvv =>
      cases cvv with
      | str cv =>
        simp only []
        by_cases h1 : cv = newValB
        · exact absurd (by rw [hc, h1]) hnew
        · rw [if_neg h1]
          by_cases h2 : cv = endValB
          · rw [if_pos h2]; simp [conv, h2]
          · rw [if_neg h2]; simp [conv, h2]
      | null => rfl
      | bool _ => rfl
      | num _ => rfl
      | arr _ => rfl
      | obj _ => rfl
  | true =>
    have hch := hchain hp
    have hmap : jsonHookMap c st o =
        setKey chainKeyB (.str newValB) (setKey intKeyB (.str (hexEnc (st.step c (conv o)).2.1)) o) := by
      simp [jsonHookMap, hnewflag, hp]
    rw [hmap, hnewflag, hp]
    unfold jsonParseObj
    rw [getKey_setKey_other _ _ _ _ (Ne.symm intKey_ne_chainKey), getKey_setKey_same]
    simp only [hexDec_hexEnc, eraseKey_setKey_setKey _ _ _ _ _ intKey_ne_chainKey hint, getKey_setKey_same,
      if_true, eraseKey_setKey _ _ _ hch]
    rw [jIsEnd_of_chain_none o ((getKey_none_iff _ _).mpr hch)]
    rfl

end AcraModel.AuditLog
