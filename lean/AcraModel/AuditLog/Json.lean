import AcraModel.AuditLog.Parse
/-!
# JSON format of the audit log (C20) – `logging/logging.go` (`JSONFormatterHook.PostFormat`),
`logging/log_entry_parser.go` (`unmarshalLogEntry`, `JSONLogParser.ParseEntry`, `convertMapToBytes`, `getBytes`)

What is authenticated in the JSON format is NOT the line but a canonical byte string computed from the
*decoded* line: for every key in `sort.Strings` order `"delimiter" ‖ key ‖ "delimiter" ‖ json.Marshal(value) ‖
"delimiter"`. The hook decodes logrus' output (`unmarshalLogEntry`: `encoding/json` decoder with `UseNumber`),
authenticates that, adds `integrity` (and `chain: new`) to the decoded map and re-marshals the map; the
parser decodes the line again, removes `integrity` (and `chain` when it is `new`) and recomputes the bytes.

This file models, byte for byte,

* the value type a `map[string]interface{}` decoded with `UseNumber` can hold: `JVal` (numbers are kept as
  the literal that was written – `json.Number`);
* `encoding/json`'s encoder for such values (`marshal`): string escaping with `escapeHTML` on (`"`, `\`,
  control characters, `<`, `>`, `&`, U+2028/U+2029, invalid UTF-8 → `�`), numbers verbatim, map keys in
  byte order;
* `encoding/json`'s decoder as far as its result is concerned (`decodeTop`): the JSON grammar, white space,
  every escape incl. UTF-16 surrogate pairs and lone surrogates (→ U+FFFD), invalid UTF-8 in strings
  (→ U+FFFD), duplicate keys (the last one wins), a top-level `null` (→ nil map), rejection of anything else
  at top level and of data after the value. Not modelled: the nesting limit of 10000.
* `convertMapToBytes`/`getBytes` (`conv`), the hook (`jsonHook`) and the parser (`jsonParse`).

A Go map is represented by its key-sorted association list without duplicate keys (`normalize`, `setKey`).
-/
namespace AcraModel.AuditLog
open AcraModel Generated.AuditLog

/-- a value of a `map[string]interface{}` decoded by `encoding/json` with `UseNumber`:
`nil | bool | json.Number | string | []interface{} | map[string]interface{}` -/
inductive JVal where
  | null
  | bool (b : Bool)
  /-- `json.Number`: the number literal as written -/
  | num (lit : Bytes)
  | str (s : Bytes)
  | arr (xs : List JVal)
  /-- key-sorted, no duplicate keys -/
  | obj (kvs : List (Bytes × JVal))

abbrev Obj := List (Bytes × JVal)

/-! ### UTF-8 as `unicode/utf8` sees it -/

def isCont (c : UInt8) : Bool := 0x80 ≤ c.toNat && c.toNat ≤ 0xBF

/-- length of the well-formed multi-byte sequence that starts with lead byte `b` followed by `r`
(`utf8.DecodeRune`'s `first`/`acceptRanges` tables); `0`: `RuneError` of width 1 -/
def mbLen (b : UInt8) (r : Bytes) : Nat :=
  let n := b.toNat
  if 0xC2 ≤ n ∧ n ≤ 0xDF then
    match r with
    | c1 :: _ => if isCont c1 then 2 else 0
    | _ => 0
  else if 0xE0 ≤ n ∧ n ≤ 0xEF then
    match r with
    | c1 :: c2 :: _ =>
      if (if n = 0xE0 then 0xA0 else 0x80) ≤ c1.toNat ∧ c1.toNat ≤ (if n = 0xED then 0x9F else 0xBF) ∧ isCont c2 then 3 else 0
    | _ => 0
  else if 0xF0 ≤ n ∧ n ≤ 0xF4 then
    match r with
    | c1 :: c2 :: c3 :: _ =>
      if (if n = 0xF0 then 0x90 else 0x80) ≤ c1.toNat ∧ c1.toNat ≤ (if n = 0xF4 then 0x8F else 0xBF) ∧ isCont c2 ∧ isCont c3 then 4 else 0
    | _ => 0
  else 0

/-- `utf8.EncodeRune` for a scalar value -/
def encRune (u : Nat) : Bytes :=
  if u < 0x80 then [UInt8.ofNat u]
  else if u < 0x800 then [UInt8.ofNat (0xC0 + u / 64), UInt8.ofNat (0x80 + u % 64)]
  else if u < 0x10000 then [UInt8.ofNat (0xE0 + u / 4096), UInt8.ofNat (0x80 + u / 64 % 64), UInt8.ofNat (0x80 + u % 64)]
  else [UInt8.ofNat (0xF0 + u / 262144), UInt8.ofNat (0x80 + u / 4096 % 64), UInt8.ofNat (0x80 + u / 64 % 64), UInt8.ofNat (0x80 + u % 64)]

/-- U+FFFD -/
def fffd : Bytes := [0xEF, 0xBF, 0xBD]

/-! ### the encoder (`encoding/json/encode.go`, `escapeHTML = true`) -/

/-- `appendString` on one ASCII byte -/
def escAscii (b : UInt8) : Bytes :=
  let n := b.toNat
  if n = 0x22 ∨ n = 0x5C then [0x5C, b]
  else if n = 8 then [0x5C, 0x62]
  else if n = 12 then [0x5C, 0x66]
  else if n = 10 then [0x5C, 0x6E]
  else if n = 13 then [0x5C, 0x72]
  else if n = 9 then [0x5C, 0x74]
  else if n < 0x20 ∨ n = 0x3C ∨ n = 0x3E ∨ n = 0x26 then [0x5C, 0x75, 0x30, 0x30, hexNib (n / 16), hexNib (n % 16)]
  else [b]

/-- is `b :: r` the start of U+2028 / U+2029 (`E2 80 A8` / `E2 80 A9`)? the last hex digit of the escape -/
def lineSep (b : UInt8) (r : Bytes) : Option UInt8 :=
  match r with
  | c1 :: c2 :: _ =>
    if b.toNat = 0xE2 ∧ c1.toNat = 0x80 ∧ c2.toNat = 0xA8 then some 0x38
    else if b.toNat = 0xE2 ∧ c1.toNat = 0x80 ∧ c2.toNat = 0xA9 then some 0x39
    else none
  | _ => none

/-- body of `appendString`: `k` bytes of a multi-byte sequence still to pass (copied when `emit`) -/
def encBody : Nat → Bool → Bytes → Bytes
  | _, _, [] => []
  | k + 1, emit, b :: r => (if emit then [b] else []) ++ encBody k emit r
  | 0, _, b :: r =>
    if b.toNat < 0x80 then escAscii b ++ encBody 0 true r
    else match lineSep b r with
      | some d => [0x5C, 0x75, 0x32, 0x30, 0x32, d] ++ encBody 2 false r
      | none =>
        match mbLen b r with
        | 0 => [0x5C, 0x75, 0x66, 0x66, 0x66, 0x64] ++ encBody 0 true r
        | m + 1 => b :: encBody m true r

/-- `json.Marshal(string)` -/
def encStr (s : Bytes) : Bytes := [0x22] ++ encBody 0 true s ++ [0x22]

mutual
/-- `json.Marshal` of a decoded value -/
def marshal : JVal → Bytes
  | .null => strB "null"
  | .bool true => strB "true"
  | .bool false => strB "false"
  | .num l => if l.isEmpty then strB "0" else l
  | .str s => encStr s
  | .arr xs => [0x5B] ++ marshalElems xs ++ [0x5D]
  | .obj kvs => [0x7B] ++ marshalMembers kvs ++ [0x7D]
def marshalElems : List JVal → Bytes
  | [] => []
  | [x] => marshal x
  | x :: y :: r => marshal x ++ [0x2C] ++ marshalElems (y :: r)
def marshalMembers : List (Bytes × JVal) → Bytes
  | [] => []
  | [(k, v)] => encStr k ++ [0x3A] ++ marshal v
  | (k, v) :: m :: r => encStr k ++ [0x3A] ++ marshal v ++ [0x2C] ++ marshalMembers (m :: r)
end

/-! ### Go maps as sorted association lists -/

/-- Go's `<` on strings: lexicographic on bytes -/
def bytesLt : Bytes → Bytes → Bool
  | [], [] => false
  | [], _ :: _ => true
  | _ :: _, [] => false
  | a :: x, b :: y => if a.toNat < b.toNat then true else if b.toNat < a.toNat then false else bytesLt x y

/-- `m[k] = v` -/
def setKey (k : Bytes) (v : JVal) : Obj → Obj
  | [] => [(k, v)]
  | (k', v') :: r =>
    if k = k' then (k, v) :: r
    else if bytesLt k k' then (k, v) :: (k', v') :: r
    else (k', v') :: setKey k v r

def hasKey (k : Bytes) (o : Obj) : Bool := o.any fun kv => kv.1 == k

/-- `m[k]` -/
def getKey (k : Bytes) : Obj → Option JVal
  | [] => none
  | (k', v) :: r => if k' = k then some v else getKey k r

/-- `delete(m, k)` -/
def eraseKey (k : Bytes) (o : Obj) : Obj := o.filter fun kv => kv.1 != k

/-- the map built from the members of an object literal in textual order: a later duplicate wins -/
def normalize : List (Bytes × JVal) → Obj
  | [] => []
  | (k, v) :: r => if hasKey k (normalize r) then normalize r else setKey k v (normalize r)

/-! ### the decoder (`encoding/json/scanner.go`, `decode.go`) -/

def hex4 (a b c d : UInt8) : Option Nat :=
  match nibVal a, nibVal b, nibVal c, nibVal d with
  | some w, some x, some y, some z => some (4096 * w + 256 * x + 16 * y + z)
  | _, _, _, _ => none

def simpleEsc (e : UInt8) : Option UInt8 :=
  let n := e.toNat
  if n = 0x22 ∨ n = 0x5C ∨ n = 0x2F then some e
  else if n = 0x62 then some 8
  else if n = 0x66 then some 12
  else if n = 0x6E then some 10
  else if n = 0x72 then some 13
  else if n = 0x74 then some 9
  else none

def push (p : Bytes) : Option (Bytes × Bytes) → Option (Bytes × Bytes)
  | some (o, rest) => some (p ++ o, rest)
  | none => none

/-- a string literal after its opening quote: the decoded bytes (`unquote`) and the input after the
closing quote. `k`: bytes of a checked multi-byte sequence still to copy. -/
def parseStr : Nat → Bytes → Option (Bytes × Bytes)
  | _, [] => none
  | k + 1, b :: r => push [b] (parseStr k r)
  | 0, b :: r =>
    let n := b.toNat
    if n = 0x22 then some ([], r)
    else if n = 0x5C then
      match r with
      | [] => none
      | e :: r1 =>
        if e.toNat = 0x75 then
          match r1 with
          | h1 :: h2 :: h3 :: h4 :: r2 =>
            match hex4 h1 h2 h3 h4 with
            | none => none
            | some u =>
              if 0xD800 ≤ u ∧ u < 0xDC00 then
                match _hr2 : r2 with
                | p1 :: p2 :: g1 :: g2 :: g3 :: g4 :: r3 =>
                  match (if p1.toNat = 0x5C ∧ p2.toNat = 0x75 then hex4 g1 g2 g3 g4 else none) with
                  | some u2 =>
                    if 0xDC00 ≤ u2 ∧ u2 < 0xE000 then
                      push (encRune (0x10000 + (u - 0xD800) * 1024 + (u2 - 0xDC00))) (parseStr 0 r3)
                    else push fffd (parseStr 0 r2)
                  | none => push fffd (parseStr 0 r2)
                | _ => push fffd (parseStr 0 r2)
              else if 0xDC00 ≤ u ∧ u < 0xE000 then push fffd (parseStr 0 r2)
              else push (encRune u) (parseStr 0 r2)
          | _ => none
        else
          match simpleEsc e with
          | some x => push [x] (parseStr 0 r1)
          | none => none
    else if n < 0x20 then none
    else if n < 0x80 then push [b] (parseStr 0 r)
    else
      match mbLen b r with
      | 0 => push fffd (parseStr 0 r)
      | m + 1 => push [b] (parseStr m r)
termination_by _ s => s.length
decreasing_by all_goals (subst_vars; simp only [List.length_cons]; omega)

def isDigit (c : UInt8) : Bool := 0x30 ≤ c.toNat && c.toNat ≤ 0x39

/-- the leading digits and the rest -/
def spanDigits : Bytes → Bytes × Bytes
  | [] => ([], [])
  | c :: r => if isDigit c then ((c :: (spanDigits r).1), (spanDigits r).2) else ([], c :: r)

/-- optional fraction `.digits` -/
def scanFrac (s : Bytes) : Option (Bytes × Bytes) :=
  match s with
  | c :: r =>
    if c.toNat = 0x2E then
      let p := spanDigits r
      if p.1.isEmpty then none else some (c :: p.1, p.2)
    else some ([], s)
  | [] => some ([], s)

/-- optional exponent `[eE][+-]?digits` -/
def scanExp (s : Bytes) : Option (Bytes × Bytes) :=
  match s with
  | c :: r =>
    if c.toNat = 0x65 ∨ c.toNat = 0x45 then
      match r with
      | g :: r' =>
        if g.toNat = 0x2B ∨ g.toNat = 0x2D then
          let p := spanDigits r'
          if p.1.isEmpty then none else some (c :: g :: p.1, p.2)
        else
          let p := spanDigits r
          if p.1.isEmpty then none else some (c :: p.1, p.2)
      | [] => none
    else some ([], s)
  | [] => some ([], s)

/-- the digits of the integer part: `0` or a non-zero digit followed by digits -/
def scanInt (s : Bytes) : Option (Bytes × Bytes) :=
  let p := spanDigits s
  if p.1.isEmpty then none
  else if p.1.head? = some 0x30 ∧ 1 < p.1.length then none
  else some p

/-- a number literal at the head of the input: (literal, rest) -/
def scanNum (s : Bytes) : Option (Bytes × Bytes) :=
  let sg : Bytes × Bytes := match s with
    | c :: r => if c.toNat = 0x2D then ([c], r) else ([], s)
    | [] => ([], s)
  match scanInt sg.2 with
  | none => none
  | some (ip, s2) =>
    match scanFrac s2 with
    | none => none
    | some (fr, s3) =>
      match scanExp s3 with
      | none => none
      | some (ex, s4) => some (sg.1 ++ ip ++ fr ++ ex, s4)

def isWs (c : UInt8) : Bool := c.toNat = 0x20 || c.toNat = 0x09 || c.toNat = 0x0A || c.toNat = 0x0D

def skipWs : Bytes → Bytes
  | [] => []
  | c :: r => if isWs c then skipWs r else c :: r

/-- string, literal name or number at the head of the (white-space free) input -/
def parseScalar (s : Bytes) : Option (JVal × Bytes) :=
  match s with
  | [] => none
  | c :: r =>
    if c.toNat = 0x22 then
      match parseStr 0 r with
      | some (x, rest) => some (.str x, rest)
      | none => none
    else if (strB "true").isPrefixOf s then some (.bool true, s.drop 4)
    else if (strB "false").isPrefixOf s then some (.bool false, s.drop 5)
    else if (strB "null").isPrefixOf s then some (.null, s.drop 4)
    else
      match scanNum s with
      | some (l, rest) => some (.num l, rest)
      | none => none

mutual
/-- a value at the head of the (white-space free) input; `fuel` bounds the number of nested calls -/
def parseVal : Nat → Bytes → Option (JVal × Bytes)
  | 0, _ => none
  | f + 1, s =>
    match s with
    | [] => none
    | c :: r =>
      if c.toNat = 0x7B then
        match skipWs r with
        | [] => none
        | c2 :: r2 =>
          if c2.toNat = 0x7D then some (.obj [], r2)
          else
            match parseMembers f (c2 :: r2) with
            | some (kvs, rest) => some (.obj (normalize kvs), rest)
            | none => none
      else if c.toNat = 0x5B then
        match skipWs r with
        | [] => none
        | c2 :: r2 =>
          if c2.toNat = 0x5D then some (.arr [], r2)
          else
            match parseElems f (c2 :: r2) with
            | some (xs, rest) => some (.arr xs, rest)
            | none => none
      else parseScalar s
/-- `"key" : value` pairs up to and including the closing brace -/
def parseMembers : Nat → Bytes → Option (List (Bytes × JVal) × Bytes)
  | 0, _ => none
  | f + 1, s =>
    match s with
    | [] => none
    | c :: r =>
      if c.toNat = 0x22 then
        match parseStr 0 r with
        | none => none
        | some (k, r1) =>
          match skipWs r1 with
          | [] => none
          | c1 :: r2 =>
            if c1.toNat = 0x3A then
              match parseVal f (skipWs r2) with
              | none => none
              | some (v, r3) =>
                match skipWs r3 with
                | [] => none
                | c3 :: r4 =>
                  if c3.toNat = 0x2C then
                    match parseMembers f (skipWs r4) with
                    | some (kvs, rest) => some ((k, v) :: kvs, rest)
                    | none => none
                  else if c3.toNat = 0x7D then some ([(k, v)], r4)
                  else none
            else none
      else none
/-- array elements up to and including the closing bracket -/
def parseElems : Nat → Bytes → Option (List JVal × Bytes)
  | 0, _ => none
  | f + 1, s =>
    match parseVal f s with
    | none => none
    | some (v, r3) =>
      match skipWs r3 with
      | [] => none
      | c3 :: r4 =>
        if c3.toNat = 0x2C then
          match parseElems f (skipWs r4) with
          | some (xs, rest) => some (v :: xs, rest)
          | none => none
        else if c3.toNat = 0x5D then some ([v], r4)
        else none
end

/-- `unmarshalLogEntry`: `none` – an error; `some none` – the input is `null` (the map becomes nil);
`some (some o)` – the decoded map -/
def decodeTop (s : Bytes) : Option (Option Obj) :=
  match parseVal (s.length + 1) (skipWs s) with
  | some (.obj kvs, rest) => if (skipWs rest).isEmpty then some (some kvs) else none
  | some (.null, rest) => if (skipWs rest).isEmpty then some none else none
  | _ => none

/-! ### what is authenticated, the hook, the parser -/

def jDelim : Bytes := strB jsonDelimiter
def intKeyB : Bytes := strB integrityKey
def chainKeyB : Bytes := strB chainKey
def newValB : Bytes := strB newChainValue
def endValB : Bytes := strB endChainValue
/-- `logrus.FieldKeyMsg` -/
def msgKeyB : Bytes := strB "msg"

/-- `getBytes`: `json.Marshal(value)`; with `fast` the string fast path of seeded change C20-1 (raw bytes) -/
def getBytes (fast : Bool) (v : JVal) : Bytes :=
  match fast, v with
  | true, .str s => s
  | _, v => marshal v

/-- `convertMapToBytes` -/
def convWith (fast : Bool) (o : Obj) : Bytes :=
  o.flatMap fun kv => jDelim ++ kv.1 ++ jDelim ++ getBytes fast kv.2 ++ jDelim

/-- `convertMapToBytes` of the code as it is (`getBytes = json.Marshal`, a regenerated fact) -/
def conv (o : Obj) : Bytes := convWith false o

/-- `parsed[msg] == EndOfAuditLogChainMessage` -/
def msgIsEnd (o : Obj) : Bool :=
  match getKey msgKeyB o with
  | some (.str m) => m == endMsg
  | _ => false

/-- the end-of-chain marker of a decoded entry: `chain == "end"` and the expected message -/
def jIsEnd (o : Obj) : Bool :=
  match getKey chainKeyB o with
  | some (.str cv) => cv == endValB && msgIsEnd o
  | _ => false

/-- the map `JSONFormatterHook.PostFormat` marshals: the decoded formatter output with `integrity` set to
the hex tag and, for the first entry of a chain, `chain` set to `new` -/
def jsonHookMap (c : CryptoOps) (st : Calc) (o : Obj) : Obj :=
  let r := st.step c (conv o)
  let o1 := setKey intKeyB (.str (hexEnc r.2.1)) o
  if r.2.2 then setKey chainKeyB (.str newValB) o1 else o1

/-- `JSONFormatterHook.PostFormat` on the decoded formatter output: new calculator state and the line
(without the final `\n`) -/
def jsonHookObj (c : CryptoOps) (st : Calc) (o : Obj) : Calc × Bytes :=
  ((st.step c (conv o)).1, marshal (.obj (jsonHookMap c st o)))

/-- `PostFormat` on the formatter's bytes; `none`: the hook returns an error and nothing is written -/
def jsonHook (c : CryptoOps) (st : Calc) (formatted : Bytes) : Option (Calc × Bytes) :=
  match decodeTop formatted with
  | some (some o) => some (jsonHookObj c st o)
  | _ => none

/-- `JSONLogParser.ParseEntry` after decoding -/
def jsonParseObj (fast : Bool) (p : Obj) : Line :=
  match getKey intKeyB p with
  | some (.str h) =>
    match hexDec h with
    | none => .bad
    | some tag =>
      let p1 := eraseKey intKeyB p
      match getKey chainKeyB p1 with
      | some (.str cv) =>
        if cv = newValB then .entry ⟨convWith fast (eraseKey chainKeyB p1), tag, true, false⟩
        else if cv = endValB then .entry ⟨convWith fast p1, tag, false, msgIsEnd p1⟩
        else .entry ⟨convWith fast p1, tag, false, false⟩
      | _ => .entry ⟨convWith fast p1, tag, false, false⟩
  | _ => .skip

/-- `JSONLogParser.ParseEntry` on one line (an empty line is skipped by the verifier before parsing) -/
def jsonParse (line : Bytes) : Line :=
  if line.isEmpty then .skip else
  match decodeTop line with
  | none => .bad
  | some none => .skip
  | some (some p) => jsonParseObj false p

/-- a log call at JSON level: the decoded formatter output and whether the chain restarts after it -/
structure JItem where
  fields : Obj
  resetAfter : Bool

/-- the lines the JSON hook writes for a sequence of (decoded) formatter outputs -/
def produceJson (c : CryptoOps) (key : Bytes) (st : Calc) : List JItem → List Bytes
  | [] => []
  | it :: r =>
    let p := jsonHookObj c st it.fields
    p.2 :: produceJson c key (if it.resetAfter then Calc.new c key else p.1) r

/-- the same from the formatter's bytes; an entry whose bytes the hook cannot decode is dropped -/
def produceJsonBytes (c : CryptoOps) (key : Bytes) (st : Calc) : List LItem → Option (List Bytes)
  | [] => some []
  | it :: r =>
    match jsonHook c st it.formatted with
    | none => none
    | some p =>
      match produceJsonBytes c key (if it.resetAfter then Calc.new c key else p.1) r with
      | some ls => some (p.2 :: ls)
      | none => none

end AcraModel.AuditLog
