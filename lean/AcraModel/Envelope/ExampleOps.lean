import AcraModel.Crypto.ShimLaws
/-!
A `CryptoOps` instance with a 32-byte hash, for the non-vacuity examples of C01: the Themis stand-in
`Shim.ops H` (whose seal/message/keygen laws are proved for EVERY `H` in `Crypto/ShimLaws.lean`) over a
toy `H` that just forces its input to 32 bytes, so that `HashLen` holds provably. (Nothing is proved
about the output length of the executable SHA-256, hence `shimOps` cannot serve where `HashLen` or
the 2-byte key id is needed.)
-/
namespace AcraModel.Envelope
open AcraModel

def toyHash (b : Bytes) : Bytes := Shim.fixLen 32 b
def toyOps : CryptoOps := Shim.ops toyHash

theorem toy_hashLen : HashLen toyOps where
  hmac_len := by intro k m; simp [toyOps, Shim.ops, toyHash]
  sha_len := by intro m; simp [toyOps, Shim.ops, toyHash]

theorem toy_sealLaws : SealLaws toyOps := Shim.sealLaws toyHash
theorem toy_sealLen : SealLen toyOps := Shim.sealLen toyHash

end AcraModel.Envelope
