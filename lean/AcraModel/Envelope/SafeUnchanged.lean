import AcraModel.Envelope.SafeCompat
/-!
"Whatever cannot be decrypted is returned byte-identical": the scan with the decrypt callback
(helpers for C03).
-/
namespace AcraModel.Envelope
open AcraModel Generated

theorem startsWith_containerTag {d : Bytes} (h : startsWith containerTag d = true) : d.take 3 = containerTag := by
  unfold startsWith at h
  rw [show containerTag.length = 3 from rfl] at h
  simpa using h

/-- data that starts with the container tag `%%%` is neither a bare AcraStruct nor a bare AcraBlock -/
theorem matchOld_of_containerTag {d : Bytes} (h : d.take 3 = containerTag) : matchOld d = .err := by
  cases hm : matchOld d with
  | err => rfl
  | panic => exact absurd hm (matchOld_ne_panic d)
  | ok p =>
    obtain ⟨id, n⟩ := p
    exfalso
    rcases matchOld_ok hm with ⟨hv, _⟩ | ⟨_, _, k, b, hb, _⟩
    · have h8 := (validateStruct_ok hv).2.1
      have : d.take 3 = (d.take 8).take 3 := by rw [List.take_take]; rfl
      rw [h8, h] at this
      revert this; decide
    · have h4 := ((blockHeaderOk_iff d).1 (extractBlock_ok hb).2.1).1
      have : d.take 3 = (d.take 4).take 3 := by rw [List.take_take]; rfl
      rw [h4, h] at this
      revert this; decide

/-- inside `OnColumn` (which only looks at positions where `%%%` starts) the container handed to the
callbacks is the remaining buffer itself -/
theorem extractContainer_of_containerTag {d : Bytes} (h : d.take 3 = containerTag) {n : Int} {cont : Bytes}
    (he : extractContainer d = .ok (n, cont)) : cont = d := by
  rcases extractContainer_ok he with ⟨_, _, hc, _⟩ | ⟨_, id, hm, _⟩
  · exact hc
  · rw [matchOld_of_containerTag h] at hm; cases hm

theorem runCallbacks_decrypt_skip {c : CryptoOps} {kv : KeyView} {cont : Bytes}
    (h : ∀ m, process c kv cont = .ok m → m = cont) : runCallbacks cont [decryptCallback c kv] = .skip := by
  simp only [runCallbacks, decryptCallback]
  cases hp : process c kv cont with
  | ok m => simp [h m hp]
  | err => simp
  | panic => simp

/-- **Damaged values pass through unchanged.** If at every position of the column value where a
container tag starts `Process` fails (or returns its input), `OnColumn` with the decrypt callback
returns the value byte for byte. -/
theorem onColumn_decrypt_same (c : CryptoOps) (kv : KeyView) (rest : Bytes)
    (hs : ∀ i, i < rest.length → startsWith containerTag (rest.drop i) = true →
      ∀ m, process c kv (rest.drop i) = .ok m → m = rest.drop i) :
    ∃ hit, onColumn [decryptCallback c kv] rest = .ok rest hit := by
  unfold onColumn
  split
  · exact ⟨false, rfl⟩
  · apply scan_same
    intro i hi hst n cont he
    have := extractContainer_of_containerTag (startsWith_containerTag hst) he
    subst this
    exact runCallbacks_decrypt_skip (hs i hi hst)

end AcraModel.Envelope
