import AcraModel.Envelope.MaskLemmas
import AcraModel.Envelope.MaskSession
/-!
Lemmas for C11 about values that merely LOOK like a protected value at their first bytes:
`RegistryHandler.MatchDataSignature` (`registryMatch`) is not a header test – a value that starts with
the 12 header bytes of a serialized container (`%%% | length(8) | envelope id`) matches only if the
declared payload is inside the value AND the envelope handler of that id recognises the payload.
-/
namespace AcraModel.Envelope
open AcraModel Generated

/-- a value that starts with `%` is neither a bare AcraStruct nor starts with a bare AcraBlock -/
theorem matchKind_pct (k : Kind) (r : Bytes) : matchKind k (37 :: r) = false := by
  cases k with
  | struct =>
    unfold matchKind
    simp only [c01_validateStruct_pct]
    rfl
  | block =>
    unfold matchKind
    simp only [c01_extractBlock_pct]
    rfl

/-- the internal length a container header declares: `getSerializedContainerLength` computes
`uint64(length field) - SerializedContainerMinSize` in 64-bit unsigned arithmetic -/
def declaredInternal (L : Bytes) : Nat := (leVal L + 2^64 - containerMin) % 2^64

theorem validateContainer_header (L junk : Bytes) (id : UInt8) (k : Kind) (hL : L.length = 8)
    (hk : kindOfId id = some k) (hj : junk ≠ []) :
    validateContainer (containerTag ++ L ++ [id] ++ junk) = .ok id := by
  obtain ⟨h1, _, h3, _⟩ := c01_container_fields L junk [] id hL
  simp only [List.append_nil] at h1 h3
  have hlen : ¬ (containerTag ++ L ++ [id] ++ junk).length ≤ containerMin := by
    have : 0 < junk.length := List.length_pos_iff.mpr hj
    simp only [List.length_append, c01_containerTag_length, hL, List.length_singleton]
    show ¬ _ ≤ 12
    omega
  unfold validateContainer
  rw [if_neg hlen]
  simp only [c01_containerTag_length, Layout.containerTagBeginSize, Layout.containerLengthSize]
  rw [h1, h3]
  simp [hk]

/-- **The match predicate deserializes**: for a value made of a well-formed container header (tag, any
8 length bytes, a registered envelope id) followed by at least one byte, `MatchDataSignature` answers
what the envelope handler says about the declared payload – and `false` when the declared payload does
not fit into the value. The header alone decides nothing. -/
theorem registryMatch_header (L junk : Bytes) (id : UInt8) (k : Kind) (hL : L.length = 8)
    (hk : kindOfId id = some k) (hj : junk ≠ []) :
    registryMatch (containerTag ++ L ++ [id] ++ junk) =
      (decide (declaredInternal L ≤ junk.length) && matchKind k (junk.take (declaredInternal L))) := by
  obtain ⟨_, h2, _, h4⟩ := c01_container_fields L junk [] id hL
  simp only [List.append_nil] at h2 h4
  have hlen : (containerTag ++ L ++ [id] ++ junk).length = 12 + junk.length := by
    simp only [List.length_append, c01_containerTag_length, hL, List.length_singleton]
  have hc : containerMin = 12 := rfl
  unfold registryMatch deserialize getEnvelopeID
  rw [validateContainer_header L junk id k hL hk hj]
  simp only [Out.bind_ok, Bool.false_eq_true, if_false]
  unfold containerInternalLength
  simp only [c01_containerTag_length, Layout.containerLengthSize]
  rw [h2, Out.bind_ok, hlen, hc]
  have hd : declaredInternal L = (leVal L + 2^64 - 12) % 2^64 := rfl
  by_cases hfit : (leVal L + 2^64 - 12) % 2^64 > 12 + junk.length - 12
  · rw [if_pos hfit]
    have : ¬ declaredInternal L ≤ junk.length := by rw [hd]; omega
    simp [this]
  · rw [if_neg hfit, Out.pure_eq, Out.bind_ok, h4, Out.bind_ok, Out.pure_eq]
    have : declaredInternal L ≤ junk.length := by rw [hd]; omega
    simp only [hk, this, decide_true, Bool.true_and]
    rfl

/-- a header followed by bytes that are NOT an envelope of the named kind (or by fewer bytes than it
declares) is not a protected value -/
theorem registryMatch_header_false (L junk : Bytes) (id : UInt8) (k : Kind) (hL : L.length = 8)
    (hk : kindOfId id = some k) (hj : junk ≠ [])
    (h : junk.length < declaredInternal L ∨ matchKind k (junk.take (declaredInternal L)) = false) :
    registryMatch (containerTag ++ L ++ [id] ++ junk) = false := by
  rw [registryMatch_header L junk id k hL hk hj]
  rcases h with h | h
  · have : ¬ declaredInternal L ≤ junk.length := by omega
    simp [this]
  · simp [h]

/-- fewer than 18 bytes are no envelope of either kind -/
theorem matchKind_short (k : Kind) (d : Bytes) (h : d.length < 18) : matchKind k d = false := by
  cases k with
  | struct =>
    unfold matchKind validateStruct
    rw [if_pos (by rw [c01_structMin]; omega)]
    rfl
  | block =>
    unfold matchKind extractBlock
    rw [if_pos (by show d.length < 18; exact h)]
    rfl

/-- in particular: a header followed by 1…17 arbitrary bytes, whatever length it declares -/
theorem registryMatch_header_short (L junk : Bytes) (id : UInt8) (k : Kind) (hL : L.length = 8)
    (hk : kindOfId id = some k) (hj : junk ≠ []) (hs : junk.length < 18) :
    registryMatch (containerTag ++ L ++ [id] ++ junk) = false := by
  refine registryMatch_header_false L junk id k hL hk hj (Or.inr (matchKind_short k _ ?_))
  rw [List.length_take]
  omega

theorem containerTag_cons : ∃ r, containerTag = 37 :: r := ⟨[37, 37], by decide⟩

/-- such a value is not a bare envelope either: both hypotheses the masking theorems make about the
hidden part hold for it -/
theorem header_lookalike_not_protected (L junk : Bytes) (id : UInt8) (k k' : Kind) (hL : L.length = 8)
    (hk : kindOfId id = some k) (hj : junk ≠ [])
    (h : junk.length < declaredInternal L ∨ matchKind k (junk.take (declaredInternal L)) = false) :
    matchKind k' (containerTag ++ L ++ [id] ++ junk) = false ∧
    registryMatch (containerTag ++ L ++ [id] ++ junk) = false := by
  refine ⟨?_, registryMatch_header_false L junk id k hL hk hj h⟩
  obtain ⟨r, hr⟩ := containerTag_cons
  rw [hr]
  simp only [List.cons_append]
  exact matchKind_pct k' _

/-! ## what is stored for a hidden part that is not a protected value -/

/-- the only way the plaintext `m` enters the bytes `e`: as the message of `c.enc` under a fresh data key -/
def SealedIn (c : CryptoOps) (kv : KeyView) (k : Kind) (m rnd e : Bytes) : Prop :=
  match k with
  | .block => ∃ key encData encKey, kv.sym = some key ∧
      c.enc (rnd.take 32) [] m ((rnd.drop 32).take 12) = some encData ∧
      c.enc key [] (rnd.take 32) ((rnd.drop 44).take 12) = some encKey ∧
      e = buildBlock (keyId c key []) encKey encData
  | .struct => ∃ pub encKey encData, kv.pub = some pub ∧
      c.wrap (c.privOfSeed (rnd.take 32)) pub ((rnd.drop 32).take 32) ((rnd.drop 64).take 12) = some encKey ∧
      c.enc ((rnd.drop 32).take 32) [] m ((rnd.drop 76).take 12) = some encData ∧
      e = structTag ++ c.pubOf (c.privOfSeed (rnd.take 32)) ++ encKey ++ leBytes 8 encData.length ++ encData

theorem protect_sealedIn {c : CryptoOps} {kv : KeyView} {k : Kind} {m rnd p : Bytes}
    (hp : protect c kv k m rnd = .ok p) (hnm : matchKind k m = false) (hnr : registryMatch m = false) :
    ∃ e, e ≠ [] ∧ p = serBytes e k.id ∧ SealedIn c kv k m rnd e := by
  obtain ⟨e, he, hne, rfl⟩ := c01_protect_ok hp hnm hnr
  refine ⟨e, hne, rfl, ?_⟩
  cases k with
  | block =>
    obtain ⟨key, hk, hcb⟩ := c01_encryptKind_block he hnm
    obtain ⟨encData, encKey, h1, h2, rfl⟩ := c01_createBlock_ok hcb
    exact ⟨key, encData, encKey, hk, h1, h2, rfl⟩
  | struct =>
    obtain ⟨pub, hk, hcs⟩ := c01_encryptKind_struct he hnm
    obtain ⟨encKey, encData, h1, h2, rfl⟩ := c01_createStruct_ok hcs
    exact ⟨pub, encKey, encData, hk, h1, h2, rfl⟩

end AcraModel.Envelope
