import AcraModel.Envelope.SafeBlock
/-!
AcraStruct: closed forms of `getDataLength` / `validateStruct` / `extractStruct` / `decryptStruct`
and what follows from them – no panic, bounds (helpers for C03 / C14).
-/
namespace AcraModel.Envelope
open AcraModel Generated

/-- the declared data length field of an AcraStruct (as unsigned number) -/
def structDL (d : Bytes) : Nat := leVal ((d.take 145).drop 137)

theorem structMin_eq : structMin = 145 := rfl

theorem getDataLength_eq (d : Bytes) (h : 145 ≤ d.length) : getDataLength d = .ok (toInt64 (structDL d)) := by
  unfold getDataLength
  rw [show structMin = 145 from rfl, show structDataLenSize = 8 from rfl,
    goSlice_ok d (145 - 8) 145 (by omega) h]
  rfl

theorem getDataLength_short (d : Bytes) (h : d.length < 145) : getDataLength d = .panic := by
  unfold getDataLength goSlice
  rw [show structMin = 145 from rfl, show structDataLenSize = 8 from rfl, if_neg (by omega)]
  rfl

theorem validateStruct_eq (d : Bytes) :
    validateStruct d = if d.length < 145 then .err else
      if d.take 8 ≠ structTag then .err else
        if toInt64 (structDL d) ≠ ((d.length - 145 : Nat) : Int) then .err else .ok () := by
  unfold validateStruct
  rw [show structMin = 145 from rfl, show structTagLen = 8 from rfl]
  by_cases h : d.length < 145
  · rw [if_pos h, if_pos h]
  · rw [if_neg h, if_neg h, goSlice_zero_ok d 8 (by omega), getDataLength_eq d (by omega)]
    simp only [Out.bind_ok]
    rfl

theorem validateStruct_ne_panic (d : Bytes) : validateStruct d ≠ .panic := by
  rw [validateStruct_eq]; repeat' split
  all_goals simp

theorem toInt64_eq_nat {x n : Nat} (hx : x < 2^64) (h : toInt64 x = (n : Int)) : x = n := by
  unfold toInt64 at h
  rw [Nat.mod_eq_of_lt hx] at h
  split at h <;> omega

theorem toInt64_of_lt {x : Nat} (hx : x < 2^63) : toInt64 x = (x : Int) := by
  unfold toInt64
  rw [Nat.mod_eq_of_lt (by omega), if_pos hx]

theorem structDL_lt (d : Bytes) (h : 145 ≤ d.length) : structDL d < 2^64 := by
  have := leVal_lt ((d.take 145).drop 137)
  have hl : ((d.take 145).drop 137).length = 8 := by simp [List.length_drop, List.length_take]; omega
  rw [hl] at this
  exact this

theorem validateStruct_ok {d : Bytes} (h : validateStruct d = .ok ()) :
    145 ≤ d.length ∧ d.take 8 = structTag ∧ structDL d = d.length - 145 := by
  rw [validateStruct_eq] at h
  split at h
  · cases h
  · split at h
    · cases h
    · split at h
      · cases h
      · next h1 h2 h3 =>
        have h1 : 145 ≤ d.length := by omega
        refine ⟨h1, by simpa using h2, ?_⟩
        exact toInt64_eq_nat (structDL_lt d h1) (by simpa using h3)

/-- the canonical decomposition of a byte string that passes `ValidateAcraStructLength` -/
theorem validateStruct_layout {d : Bytes} (h : validateStruct d = .ok ()) :
    d = structTag ++ ((d.drop 8).take 45) ++ ((d.drop 53).take 84) ++ leBytes 8 (d.drop 145).length ++ d.drop 145 := by
  obtain ⟨h1, h2, h3⟩ := validateStruct_ok h
  have e1 : d = d.take 8 ++ d.drop 8 := (List.take_append_drop 8 d).symm
  have e2 : d.drop 8 = (d.drop 8).take 45 ++ d.drop 53 := by
    rw [show d.drop 53 = (d.drop 8).drop 45 by simp]; exact (List.take_append_drop 45 _).symm
  have e3 : d.drop 53 = (d.drop 53).take 84 ++ d.drop 137 := by
    rw [show d.drop 137 = (d.drop 53).drop 84 by simp]; exact (List.take_append_drop 84 _).symm
  have e4 : d.drop 137 = (d.drop 137).take 8 ++ d.drop 145 := by
    rw [show d.drop 145 = (d.drop 137).drop 8 by simp]; exact (List.take_append_drop 8 _).symm
  have e5 : (d.drop 137).take 8 = leBytes 8 (d.drop 145).length := by
    have hl : ((d.drop 137).take 8).length = 8 := by simp [List.length_take, List.length_drop]; omega
    have hv : leVal ((d.drop 137).take 8) = (d.drop 145).length := by
      have : (d.drop 137).take 8 = (d.take 145).drop 137 := by
        rw [List.drop_take]
      rw [this, List.length_drop]; exact h3
    have := leBytes_leVal ((d.drop 137).take 8)
    rw [hl, hv] at this
    exact this.symm
  rw [← e5, ← h2]
  simp only [List.append_assoc]
  rw [← e4, ← e3, ← e2, ← e1]

theorem extractStruct_eq (d : Bytes) :
    extractStruct d = if d.length < 145 then .err else
      if toInt64 (structDL d + 145) < 0 ∨ toInt64 (structDL d + 145) > d.length then .err else
        match validateStruct (d.take (toInt64 (structDL d + 145)).toNat) with
        | .ok () => .ok ((toInt64 (structDL d + 145)).toNat, d.take (toInt64 (structDL d + 145)).toNat)
        | .err => .err
        | .panic => .panic := by
  unfold extractStruct
  rw [show structMin = 145 from rfl, show structDataLenSize = 8 from rfl]
  by_cases h : d.length < 145
  · rw [if_pos h, if_pos h]
  · rw [if_neg h, if_neg h, goSlice_ok d (145 - 8) 145 (by omega) (by omega)]
    simp only [Out.bind_ok, Nat.reduceSub]
    unfold structDL
    by_cases h2 : toInt64 (leVal (List.drop 137 (List.take 145 d)) + 145) < 0 ∨
        toInt64 (leVal (List.drop 137 (List.take 145 d)) + 145) > d.length
    · rw [if_pos h2, if_pos h2]
    · rw [if_neg h2, if_neg h2, goSlice_zero_ok d _ (by omega)]
      rfl

theorem extractStruct_ne_panic (d : Bytes) : extractStruct d ≠ .panic := by
  rw [extractStruct_eq]
  split
  · simp
  · split
    · simp
    · have := validateStruct_ne_panic (d.take (toInt64 (structDL d + 145)).toNat)
      split <;> simp_all

theorem extractStruct_bounds' {d : Bytes} {n : Nat} {s : Bytes} (h : extractStruct d = .ok (n, s)) :
    145 ≤ n ∧ n ≤ d.length ∧ s = d.take n ∧ validateStruct s = .ok () := by
  rw [extractStruct_eq] at h
  split at h
  · cases h
  · split at h
    · cases h
    · next h1 h2 =>
      split at h
      · next hv =>
        cases h
        have := (validateStruct_ok hv).1
        rw [List.length_take] at this
        refine ⟨by omega, by omega, rfl, hv⟩
      · cases h
      · cases h

/-- what `DecryptAcrastruct` computes on a validated AcraStruct -/
theorem decryptStruct_eq (c : CryptoOps) (priv ctx d : Bytes) (hv : validateStruct d = .ok ()) :
    decryptStruct c priv ctx d =
      match c.unwrap priv ((d.drop 8).take 45) ((d.drop 53).take 84) with
      | none => .err
      | some symKey =>
        if symKey = [] then .err else
        match c.dec symKey ctx (d.drop 145) with
        | none => .err
        | some m => .ok m := by
  have hl := (validateStruct_ok hv).1
  unfold decryptStruct
  rw [hv, show structTagLen = 8 from rfl, show structPubLen = 45 from rfl, show structKeyBlockLen = 129 from rfl,
    show structDataLenSize = 8 from rfl]
  simp only [Out.bind_ok]
  rw [goSliceFrom_ok d 8 (by omega)]
  simp only [Out.bind_ok]
  have hi : (d.drop 8).length = d.length - 8 := List.length_drop
  rw [goSlice_zero_ok _ 45 (by omega), goSlice_ok _ 45 129 (by omega) (by omega)]
  simp only [Out.bind_ok]
  have e1 : List.drop 45 (List.take 129 (List.drop 8 d)) = (d.drop 53).take 84 := by
    rw [List.drop_take]; simp
  rw [e1]
  cases c.unwrap priv (List.take 45 (List.drop 8 d)) (List.take 84 (List.drop 53 d)) with
  | none => rfl
  | some symKey =>
    simp only []
    rw [goSlice_ok _ 129 (129 + 8) (by omega) (by omega), goSliceFrom_ok _ (129 + 8) (by omega)]
    simp only [Out.bind_ok, List.drop_drop]
    rfl

theorem decryptStruct_ne_panic (c : CryptoOps) (priv ctx d : Bytes) : decryptStruct c priv ctx d ≠ .panic := by
  cases hv : validateStruct d with
  | panic => exact absurd hv (validateStruct_ne_panic d)
  | err => unfold decryptStruct; rw [hv]; simp
  | ok u =>
    rw [decryptStruct_eq c priv ctx d hv]
    repeat' split
    all_goals simp

theorem decryptStructRotated_ne_panic (c : CryptoOps) (ctx d : Bytes) (keys : List Bytes) :
    decryptStructRotated c ctx d keys ≠ .panic := by
  induction keys with
  | nil => simp [decryptStructRotated]
  | cons k ks ih =>
    simp only [decryptStructRotated]
    split
    · simp
    · next h => exact absurd h (decryptStruct_ne_panic c k ctx d)
    · exact ih

/-- a successful rotated decryption is a successful decryption with one of the keys -/
theorem decryptStructRotated_ok {c : CryptoOps} {ctx d : Bytes} {keys : List Bytes} {m : Bytes}
    (h : decryptStructRotated c ctx d keys = .ok m) : ∃ k ∈ keys, decryptStruct c k ctx d = .ok m := by
  induction keys with
  | nil => simp [decryptStructRotated] at h
  | cons k ks ih =>
    simp only [decryptStructRotated] at h
    split at h
    · next hk => cases h; exact ⟨k, List.mem_cons_self, hk⟩
    · cases h
    · obtain ⟨k', hm, hk'⟩ := ih h
      exact ⟨k', List.mem_cons_of_mem _ hm, hk'⟩

end AcraModel.Envelope
