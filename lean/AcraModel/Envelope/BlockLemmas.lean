import AcraModel.Envelope.AcraBlock
import AcraModel.Envelope.SliceLemmas
/-!
Layout lemmas for the AcraBlock (C01): what `extractBlock` / `decryptBlock` read back from the bytes
`buildBlock` writes, and the behaviour of the key loop `findDek`.
-/
namespace AcraModel.Envelope
open AcraModel Generated

theorem c01_blockTag_length : blockTag.length = 4 := by decide

/-- the fields of `tag | rest(8) | kt | kid(2) | dt | klen(2) | encKey | encData | suffix` -/
theorem c01_block_fields (t L8 kid L2 ek ed suf : Bytes) (kt dt : UInt8)
    (ht : t.length = 4) (hL8 : L8.length = 8) (hkid : kid.length = 2) (hL2 : L2.length = 2) :
    goSlice (t ++ L8 ++ [kt] ++ kid ++ [dt] ++ L2 ++ ek ++ ed ++ suf) 0 4 = .ok t ∧
    goSlice (t ++ L8 ++ [kt] ++ kid ++ [dt] ++ L2 ++ ek ++ ed ++ suf) 4 12 = .ok L8 ∧
    goIndex (t ++ L8 ++ [kt] ++ kid ++ [dt] ++ L2 ++ ek ++ ed ++ suf) 12 = .ok kt ∧
    goSlice (t ++ L8 ++ [kt] ++ kid ++ [dt] ++ L2 ++ ek ++ ed ++ suf) 13 15 = .ok kid ∧
    goIndex (t ++ L8 ++ [kt] ++ kid ++ [dt] ++ L2 ++ ek ++ ed ++ suf) 15 = .ok dt ∧
    goSlice (t ++ L8 ++ [kt] ++ kid ++ [dt] ++ L2 ++ ek ++ ed ++ suf) 16 18 = .ok L2 ∧
    goSlice (t ++ L8 ++ [kt] ++ kid ++ [dt] ++ L2 ++ ek ++ ed ++ suf) 18 (18 + ek.length) = .ok ek ∧
    goSliceFrom (t ++ L8 ++ [kt] ++ kid ++ [dt] ++ L2 ++ ek ++ ed ++ suf) (18 + ek.length) = .ok (ed ++ suf) ∧
    goSlice (t ++ L8 ++ [kt] ++ kid ++ [dt] ++ L2 ++ ek ++ ed ++ suf) 0 (18 + ek.length + ed.length) =
      .ok (t ++ L8 ++ [kt] ++ kid ++ [dt] ++ L2 ++ ek ++ ed) ∧
    (t ++ L8 ++ [kt] ++ kid ++ [dt] ++ L2 ++ ek ++ ed ++ suf).length = 18 + ek.length + ed.length + suf.length := by
  refine ⟨?_, ?_, ?_, ?_, ?_, ?_, ?_, ?_, ?_, ?_⟩
  · exact c01_goSlice_prefix (a := t) (c := L8 ++ [kt] ++ kid ++ [dt] ++ L2 ++ ek ++ ed ++ suf) (by simp) ht.symm
  · exact c01_goSlice_split (a := t) (b := L8) (c := [kt] ++ kid ++ [dt] ++ L2 ++ ek ++ ed ++ suf) (by simp)
      ht.symm (by omega)
  · exact c01_goIndex_split (a := t ++ L8) (c := kid ++ [dt] ++ L2 ++ ek ++ ed ++ suf) (by simp)
      (by simp; omega)
  · exact c01_goSlice_split (a := t ++ L8 ++ [kt]) (b := kid) (c := [dt] ++ L2 ++ ek ++ ed ++ suf) (by simp)
      (by simp; omega) (by simp; omega)
  · exact c01_goIndex_split (a := t ++ L8 ++ [kt] ++ kid) (c := L2 ++ ek ++ ed ++ suf) (by simp)
      (by simp; omega)
  · exact c01_goSlice_split (a := t ++ L8 ++ [kt] ++ kid ++ [dt]) (b := L2) (c := ek ++ ed ++ suf) (by simp)
      (by simp; omega) (by simp; omega)
  · exact c01_goSlice_split (a := t ++ L8 ++ [kt] ++ kid ++ [dt] ++ L2) (b := ek) (c := ed ++ suf) (by simp)
      (by simp; omega) (by simp; omega)
  · exact c01_goSliceFrom_split (a := t ++ L8 ++ [kt] ++ kid ++ [dt] ++ L2 ++ ek) (c := ed ++ suf) (by simp)
      (by simp; omega)
  · exact c01_goSlice_prefix (a := t ++ L8 ++ [kt] ++ kid ++ [dt] ++ L2 ++ ek ++ ed) (c := suf) rfl
      (by simp; omega)
  · simp; omega

theorem c01_buildBlock_length (kid ek ed : Bytes) (hkid : kid.length = 2) :
    (buildBlock kid ek ed).length = 18 + ek.length + ed.length := by
  unfold buildBlock
  simp [c01_blockTag_length, hkid]; omega

/-- `ExtractAcraBlockFromData` on a well-formed header followed by arbitrary bytes -/
theorem c01_extractBlock_fields (L8 kid L2 ek ed suf : Bytes) (kt dt : UInt8)
    (hL8 : L8.length = 8) (hkid : kid.length = 2) (hL2 : L2.length = 2)
    (hv : leVal L8 = 14 + ek.length + ed.length)
    (hkt : Layout.blockKeyBackends.contains kt.toNat = true)
    (hdt : Layout.blockDataBackends.contains dt.toNat = true) :
    extractBlock (blockTag ++ L8 ++ [kt] ++ kid ++ [dt] ++ L2 ++ ek ++ ed ++ suf) =
      .ok (18 + ek.length + ed.length, blockTag ++ L8 ++ [kt] ++ kid ++ [dt] ++ L2 ++ ek ++ ed) := by
  obtain ⟨f1, f2, f3, _, f5, _, _, _, f9, f10⟩ := c01_block_fields blockTag L8 kid L2 ek ed suf kt dt
    c01_blockTag_length hL8 hkid hL2
  have hmin : blockMin = 18 := rfl
  unfold extractBlock
  rw [f10, if_neg (by rw [hmin]; omega)]
  simp only [Layout.blockTagBeginSize, Layout.blockRestAcraBlockLengthPosition, Layout.blockRestAcraBlockLengthSize,
    Layout.blockKeyEncryptionKeyTypePosition, Layout.blockDataEncryptionTypePosition]
  rw [f1, f2, f3, f5]
  simp only [Out.bind_ok, hv, hmin]
  have h4 : 4 + (14 + ek.length + ed.length) = 18 + ek.length + ed.length := by omega
  rw [h4, f9]
  have hc2 : (18 - 4 ≤ 14 + ek.length + ed.length ∧ 14 + ek.length + ed.length ≤ 18 + ek.length + ed.length + suf.length - 4) := by
    omega
  have hkt' : kt.toNat ∈ Layout.blockKeyBackends := by simpa using hkt
  have hdt' : dt.toNat ∈ Layout.blockDataBackends := by simpa using hdt
  simp [hc2, hkt', hdt']

/-- `ExtractAcraBlockFromData` finds exactly the block at the start of `block ++ suffix` -/
theorem c01_extractBlock_build (kid ek ed suf : Bytes) (hkid : kid.length = 2)
    (hlen : (buildBlock kid ek ed).length < 2^64) :
    extractBlock (buildBlock kid ek ed ++ suf) = .ok ((buildBlock kid ek ed).length, buildBlock kid ek ed) := by
  have hbl := c01_buildBlock_length kid ek ed hkid
  rw [hbl] at hlen
  have hv : leVal (leBytes 8 (blockMin - Layout.blockTagBeginSize + ek.length + ed.length)) = 14 + ek.length + ed.length :=
    c01_leVal_leBytes8 (by show 18 - 4 + ek.length + ed.length < 2^64; omega)
  rw [hbl]
  exact c01_extractBlock_fields _ kid (leBytes 2 ek.length) ek ed suf _ _ (by simp) hkid (by simp) hv
    (by decide) (by decide)

/-- `AcraBlock.Decrypt` on a well-formed block: everything is decided by the key loop -/
theorem c01_decryptBlock_fields (c : CryptoOps) (keys : List Bytes) (ctx L8 kid L2 ek ed : Bytes) (kt dt : UInt8)
    (hL8 : L8.length = 8) (hkid : kid.length = 2) (hL2 : L2.length = 2)
    (hv : leVal L2 = ek.length)
    (hkt : Layout.blockKeyBackends.contains kt.toNat = true)
    (hdt : Layout.blockDataBackends.contains dt.toNat = true)
    (dek m : Bytes) (hfind : findDek c true ctx ek kid keys = .ok (some dek)) (hdec : c.dec dek ctx ed = some m) :
    decryptBlock c keys ctx (blockTag ++ L8 ++ [kt] ++ kid ++ [dt] ++ L2 ++ ek ++ ed) = .ok m := by
  obtain ⟨_, _, f3, f4, f5, f6, f7, f8, _, f10⟩ := c01_block_fields blockTag L8 kid L2 ek ed [] kt dt
    c01_blockTag_length hL8 hkid hL2
  simp only [List.append_nil] at f3 f4 f5 f6 f7 f8 f10
  have hmin : blockMin = 18 := rfl
  have hkp : blockKeyPos = 18 := rfl
  unfold decryptBlock
  rw [f10, if_neg (by rw [hmin]; omega)]
  simp only [Layout.blockDataEncryptionKeyLengthPosition, Layout.blockDataEncryptionKeyLengthSize,
    Layout.blockKeyEncryptionKeyTypePosition, Layout.blockDataEncryptionTypePosition,
    Layout.blockKeyEncryptionKeyIDPosition, Layout.blockKeyEncryptionKeyIDSize]
  rw [f6]
  simp only [Out.bind_ok, hv, hmin, hkp]
  rw [if_neg (by omega), f7, f8, f3, f5, f4]
  simp only [Out.bind_ok, hkt, hdt, Bool.not_true, Bool.false_eq_true, if_false, hfind, hdec]

/-- the key loop: keys whose 2-byte id differs, or which do not unseal the data key, are passed over -/
theorem c01_findDek_found (c : CryptoOps) (ctx ek kid key dek : Bytes) (pre post : List Bytes)
    (hpre : ∀ k' ∈ pre, keyId c k' ctx = kid → c.dec k' ctx ek = none ∨ c.dec k' ctx ek = some dek)
    (hid : keyId c key ctx = kid) (hdec : c.dec key ctx ek = some dek) :
    findDek c true ctx ek kid (pre ++ key :: post) = .ok (some dek) := by
  induction pre with
  | nil => simp [findDek, hid, hdec]
  | cons k ks ih =>
    have ih' := ih (fun k' hk' => hpre k' (List.mem_cons_of_mem _ hk'))
    simp only [List.cons_append, findDek]
    by_cases hk : keyId c k ctx = kid
    · rcases hpre k (List.mem_cons_self) hk with h | h
      · simp [hk, h, ih']
      · simp [hk, h]
    · have : (keyId c k ctx == kid) = false := by simpa using hk
      simp [this, ih']

/-- what a successful `CreateAcraBlock` has computed -/
theorem c01_createBlock_ok {c : CryptoOps} {key ctx m rnd b : Bytes} (h : createBlock c key ctx m rnd = .ok b) :
    ∃ encData encKey, c.enc (rnd.take 32) ctx m ((rnd.drop 32).take 12) = some encData ∧
      c.enc key ctx (rnd.take 32) ((rnd.drop 44).take 12) = some encKey ∧
      b = buildBlock (keyId c key ctx) encKey encData := by
  unfold createBlock at h
  simp only at h
  split at h
  · cases h
  · next encData h1 =>
    split at h
    · cases h
    · next encKey h2 =>
      cases h
      exact ⟨encData, encKey, h1, h2, rfl⟩

/-- `AcraBlock.Decrypt` of a freshly built block with a key list that contains the writer's key -/
theorem c01_decryptBlock_build (c : CryptoOps) (hs : SealLaws c) (key ctx dek m encKey encData n1 n2 : Bytes)
    (pre post : List Bytes)
    (hkid : (keyId c key ctx).length = 2) (hek : encKey.length < 65536)
    (h1 : c.enc dek ctx m n1 = some encData) (h2 : c.enc key ctx dek n2 = some encKey)
    (hpre : ∀ k' ∈ pre, keyId c k' ctx = keyId c key ctx →
      c.dec k' ctx encKey = none ∨ c.dec k' ctx encKey = some dek) :
    decryptBlock c (pre ++ key :: post) ctx (buildBlock (keyId c key ctx) encKey encData) = .ok m := by
  unfold buildBlock
  exact c01_decryptBlock_fields c _ ctx _ _ (leBytes 2 encKey.length) encKey encData _ _ (by simp) hkid (by simp)
    (c01_leVal_leBytes2 hek) (by decide) (by decide) dek m
    (c01_findDek_found c ctx encKey _ key dek pre post hpre rfl (hs.dec_enc _ _ _ _ _ h2))
    (hs.dec_enc _ _ _ _ _ h1)

end AcraModel.Envelope
