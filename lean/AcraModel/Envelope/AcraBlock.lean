import AcraModel.Crypto.Ops
import AcraModel.Generated.Layout
/-
AcraBlock – the symmetric envelope (`acrablock/acrablock.go`):
  tag(4) | restLength(8, LE) | keyBackend(1) | keyId(2) | dataBackend(1) | encKeyLen(2, LE) | encKey | encData
Sizes, positions, tag and backend ids come from `Generated.Layout` (regenerated from the source).
The model follows the code after the `fix:` commit that bounds `restLength` and the key length.
-/
namespace AcraModel.Envelope
open AcraModel Generated

def toBytes (l : List Nat) : Bytes := l.map UInt8.ofNat

/-- `acrastruct.TagBegin` -/
def structTag : Bytes := toBytes Layout.structTag
/-- `acrastruct.TagBegin[:TagBeginSize]` -/
def blockTag : Bytes := structTag.take Layout.blockTagBeginSize

def blockMin : Nat := Layout.blockAcraBlockMinSize
def blockKeyPos : Nat := Layout.blockEncryptedDataEncryptionKeyPosition

/-- `Sha256KeyIDGenerator.GenerateKeyID` -/
def keyId (c : CryptoOps) (key ctx : Bytes) : Bytes := (c.sha256 (key ++ ctx)).take Layout.blockKeyEncryptionKeyIDSize

/-- the bytes `NewEmptyAcraBlock` + `Set…` + `Build` produce -/
def buildBlock (kid encKey encData : Bytes) : Bytes :=
  blockTag ++ leBytes 8 (blockMin - Layout.blockTagBeginSize + encKey.length + encData.length)
    ++ [UInt8.ofNat Layout.blockKeyEncryptionBackendTypeSecureCell] ++ kid
    ++ [UInt8.ofNat Layout.blockDataEncryptionBackendTypeSecureCell]
    ++ leBytes 2 encKey.length ++ encKey ++ encData

/-- `CreateAcraBlock`; `rnd` is the stream read from `crypto/rand`: 32 bytes data key, 12 nonce (data), 12 nonce (key) -/
def createBlock (c : CryptoOps) (key ctx m rnd : Bytes) : Out Bytes :=
  let dek := rnd.take 32
  let n1 := (rnd.drop 32).take 12
  let n2 := (rnd.drop 44).take 12
  match c.enc dek ctx m n1 with
  | none => .err
  | some encData =>
    match c.enc key ctx dek n2 with
    | none => .err
    | some encKey => .ok (buildBlock (keyId c key ctx) encKey encData)

/-- `ExtractAcraBlockFromData`: (length, block) -/
def extractBlock (data : Bytes) : Out (Nat × Bytes) :=
  if data.length < blockMin then .err else do
    let t ← goSlice data 0 Layout.blockTagBeginSize
    let rl ← goSlice data Layout.blockRestAcraBlockLengthPosition (Layout.blockRestAcraBlockLengthPosition + Layout.blockRestAcraBlockLengthSize)
    let restLength := leVal rl
    let kt ← goIndex data Layout.blockKeyEncryptionKeyTypePosition
    let dt ← goIndex data Layout.blockDataEncryptionTypePosition
    let c1 := t == blockTag
    let c2 := decide (blockMin - Layout.blockTagBeginSize ≤ restLength ∧ restLength ≤ data.length - Layout.blockTagBeginSize)
    let c3 := Layout.blockKeyBackends.contains kt.toNat
    let c4 := Layout.blockDataBackends.contains dt.toNat
    if c1 && c2 && c3 && c4 then do
      let b ← goSlice data 0 (Layout.blockTagBeginSize + restLength)
      pure (Layout.blockTagBeginSize + restLength, b)
    else .err

/-- key loop of `AcraBlock.Decrypt`: first key whose 2-byte id matches AND which unseals the data key.
`panic` models the call through a nil backend (unknown backend id) -/
def findDek (c : CryptoOps) (knownBackend : Bool) (ctx encKey blockKid : Bytes) : List Bytes → Out (Option Bytes)
  | [] => .ok none
  | k :: ks =>
    if keyId c k ctx == blockKid then
      if !knownBackend then .panic else
      match c.dec k ctx encKey with
      | some dek => .ok (some dek)
      | none => findDek c knownBackend ctx encKey blockKid ks
    else findDek c knownBackend ctx encKey blockKid ks

/-- `AcraBlock.Decrypt` -/
def decryptBlock (c : CryptoOps) (keys : List Bytes) (ctx b : Bytes) : Out Bytes :=
  if b.length < blockMin then .err else do
    let kl ← goSlice b Layout.blockDataEncryptionKeyLengthPosition (Layout.blockDataEncryptionKeyLengthPosition + Layout.blockDataEncryptionKeyLengthSize)
    let keySize := leVal kl
    if b.length < blockMin + keySize then .err else do
      let encKey ← goSlice b blockKeyPos (blockKeyPos + keySize)
      let encData ← goSliceFrom b (blockMin + keySize)
      let kt ← goIndex b Layout.blockKeyEncryptionKeyTypePosition
      let dt ← goIndex b Layout.blockDataEncryptionTypePosition
      let kid ← goSlice b Layout.blockKeyEncryptionKeyIDPosition (Layout.blockKeyEncryptionKeyIDPosition + Layout.blockKeyEncryptionKeyIDSize)
      let r ← findDek c (Layout.blockKeyBackends.contains kt.toNat) ctx encKey kid keys
      match r with
      | none => .err
      | some dek =>
        if !Layout.blockDataBackends.contains dt.toNat then .panic else
        match c.dec dek ctx encData with
        | none => .err
        | some m => .ok m

end AcraModel.Envelope
