import AcraModel.Envelope.Masking
import AcraModel.Generated.MaskFlow
/-
The masked read path as the OBJECTS of one client session (`decryptor/{postgresql,mysql}/proxy.go`):
one `masking.Processor`, one `crypto.DecryptHandler` around it, one `EnvelopeDetector` and one
`OldContainerDetectorWrapper` are created per session by `proxyFactory.New` and see EVERY column of
every row of that session, each with the setting of its own column in the call's context. The Go
objects' mutable fields become explicit state threaded through the columns (as for `hmac.Processor`
in `Searchable/Processor.lean`):

* `masking.Processor` – `type Processor struct{ decryptor base.ExtendedDataProcessor }`: the only
  field is assigned once by `NewProcessor`, no method assigns a receiver field (regenerated:
  `Generated.MaskFlow.processorFields`, `processorReceiverWrites`; expectation
  `Props.C11.fact_masking_processor_stateless`). `Process` takes the pattern from the setting found in
  the context of THIS call (`processSettingSource`, `processMaskedReturns`).
* `OldContainerDetectorWrapper.hasMatchedEnvelope` – reset at the start of every `OnColumn`.
-/
namespace AcraModel.Envelope
open AcraModel

/-- `masking.Processor.Process(data, context)`. `setting` = the masking pattern of the column setting
that `EncryptionSettingFromContext(context.Context)` finds (`none`: no setting in the context);
`decrypt` = the processor's `decryptor.Process` (the registry handler with the session's key store). -/
def maskProcess (decrypt : Bytes → Out Bytes) (setting : Option Bytes) (data : Bytes) : Out Bytes :=
  match setting with
  | some pat =>
    if pat ≠ [] then
      match decrypt data with
      | .ok newData => if newData == data then .ok pat else .ok newData
      | _ => .ok pat
    else decrypt data
  | none => decrypt data

/-- `DecryptHandler.OnCryptoEnvelope` around any `DataProcessor`: an error is swallowed (the container is
returned unchanged); the detector then compares the result with the container -/
def decryptHandler (proc : Bytes → Out Bytes) : Callback := fun container =>
  match proc container with
  | .ok d => if d == container then .same else .replaced d
  | _ => .same

/-- the mutable fields of the session's objects on this path. `masking.Processor` contributes none
(see the header); `hasMatched` is `OldContainerDetectorWrapper.hasMatchedEnvelope` as the previous
column left it. -/
structure MaskSession where
  hasMatched : Bool
deriving DecidableEq, Repr

def MaskSession.init : MaskSession := ⟨false⟩

/-- `OldContainerDetectorWrapper.OnColumn` of the session for ONE column whose context carries the
setting `cfg`: the flag is reset first, whatever the previous column left; the decrypt handler runs the
session's masking processor with the pattern of `cfg`. Result: the state afterwards and what the
client receives. (`fatal`/`panic` leave the flag as the interrupted scan set it – recorded as `true`,
the reset at the start of the next call makes the value irrelevant.) -/
def maskSessionColumn (c : CryptoOps) (kv : KeyView) (_s : MaskSession) (cfg : MaskCfg) (stored : Bytes) : MaskSession × ScanOut :=
  let out := onColumnCompat [decryptHandler (maskProcess (process c kv) (some cfg.pattern))] stored
  let flag := match out with
    | .ok _ hit => hit
    | _ => true
  (⟨flag⟩, out)

/-- the columns of a session one after another through the SAME objects -/
def maskSessionColumns (c : CryptoOps) (kv : KeyView) : MaskSession → List (MaskCfg × Bytes) → MaskSession × List ScanOut
  | s, [] => (s, [])
  | s, (cfg, stored) :: rest =>
    let (s1, o) := maskSessionColumn c kv s cfg stored
    let (s2, os) := maskSessionColumns c kv s1 rest
    (s2, o :: os)

/-! ### the session objects compute `maskRead` -/

/-- the decrypt handler over the masking processor with a non-empty pattern is the masking callback -/
theorem decryptHandler_maskProcess (c : CryptoOps) (kv : KeyView) (pat : Bytes) (hp : pat ≠ []) :
    decryptHandler (maskProcess (process c kv) (some pat)) = maskCallback c kv pat := by
  funext container
  unfold decryptHandler maskProcess maskCallback
  simp only [hp, ne_eq, not_false_eq_true, if_true]
  cases process c kv container with
  | ok d => by_cases h : (d == container) = true <;> simp [h]
  | err => simp
  | panic => simp

/-- without a pattern (or without a setting) the masking processor is the plain decryptor -/
theorem decryptHandler_maskProcess_nil (c : CryptoOps) (kv : KeyView) :
    decryptHandler (maskProcess (process c kv) (some [])) = decryptCallback c kv := by
  funext container
  unfold decryptHandler maskProcess decryptCallback
  simp only [ne_eq, not_true_eq_false, if_false]
  cases process c kv container <;> rfl

theorem maskSessionColumn_out (c : CryptoOps) (kv : KeyView) (s : MaskSession) (cfg : MaskCfg) (stored : Bytes) :
    (maskSessionColumn c kv s cfg stored).2 = maskRead c kv cfg stored := by
  unfold maskSessionColumn maskRead
  by_cases hp : cfg.pattern = []
  · simp only [hp, if_true]
    rw [decryptHandler_maskProcess_nil]
  · simp only [hp, if_false]
    rw [decryptHandler_maskProcess c kv _ hp]

/-- one column does not depend on the state the previous columns left -/
theorem maskSessionColumn_stateless (c : CryptoOps) (kv : KeyView) (s s' : MaskSession) (cfg : MaskCfg) (stored : Bytes) :
    maskSessionColumn c kv s cfg stored = maskSessionColumn c kv s' cfg stored := rfl

theorem maskSessionColumns_out (c : CryptoOps) (kv : KeyView) (s : MaskSession) (cols : List (MaskCfg × Bytes)) :
    (maskSessionColumns c kv s cols).2 = cols.map (fun x => maskRead c kv x.1 x.2) := by
  induction cols generalizing s with
  | nil => rfl
  | cons x rest ih =>
    obtain ⟨cfg, stored⟩ := x
    simp only [maskSessionColumns, List.map_cons]
    rw [ih, maskSessionColumn_out]

end AcraModel.Envelope
