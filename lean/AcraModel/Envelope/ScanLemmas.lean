import AcraModel.Envelope.Detector
import AcraModel.Envelope.ProtectLemmas
/-!
Lemmas about the transparent column processor `scan` / `onColumn` (C01): one step of the loop as a
function of the bytes at the current position (`headStep`), and the induction over a prefix in which
no position is processed.
-/
namespace AcraModel.Envelope
open AcraModel Generated

/-- what one iteration of the `OnColumn` loop does with the bytes `rest = inBuffer[inIndex:]` -/
inductive HeadOut where
  /-- copy one byte, advance by one; `hit` = a serialized container was recognised here but no
  callback changed it -/
  | skip (hit : Bool)
  /-- emit `p`, advance by `n` bytes -/
  | replace (p : Bytes) (n : Nat)
  /-- a callback returned a non-decryption error -/
  | fatal
  | panic
deriving DecidableEq, Repr

/-- the decision `scan` takes at the head of a non-empty `rest` -/
def headStep (cbs : List Callback) (rest : Bytes) : HeadOut :=
  if !startsWith containerTag rest then .skip false else
  match extractContainer rest with
  | .panic => .panic
  | .err => .skip false
  | .ok (n, container) =>
    match runCallbacks container cbs with
    | .fatal => .fatal
    | .skip => .skip true
    | .replace p => if 0 < n ∧ n ≤ rest.length then .replace p n.toNat else .panic

/-- "the loop processes (replaces) the container at the head of `rest`": the condition named in the
C01 statement – `rest` starts with the container tag, `ExtractSerializedContainer` succeeds with a
sane length and the callbacks replace the container by `p` -/
def procAt (cbs : List Callback) (rest : Bytes) (p : Bytes) (n : Nat) : Prop :=
  startsWith containerTag rest = true ∧
  ∃ (len : Int) (container : Bytes), extractContainer rest = .ok (len, container) ∧
    runCallbacks container cbs = .replace p ∧ 0 < len ∧ len ≤ rest.length ∧ len.toNat = n

theorem c01_headStep_of_procAt {cbs : List Callback} {rest p : Bytes} {n : Nat} (h : procAt cbs rest p n) :
    headStep cbs rest = .replace p n := by
  obtain ⟨h1, len, container, h2, h3, h4, h5, h6⟩ := h
  unfold headStep
  simp only [h1, Bool.not_true, Bool.false_eq_true, if_false, h2, h3]
  rw [if_pos ⟨h4, h5⟩, h6]

/-- positions that do not start with `%%%` are skipped -/
theorem c01_headStep_of_not_tag {cbs : List Callback} {rest : Bytes} (h : startsWith containerTag rest = false) :
    headStep cbs rest = .skip false := by
  unfold headStep
  simp [h]

theorem c01_scan_nil (cbs : List Callback) : scan cbs [] = .ok [] false := by
  rw [scan]

/-- one unfolding of the loop -/
theorem c01_scan_cons (cbs : List Callback) (b : UInt8) (r : Bytes) :
    scan cbs (b :: r) =
      match headStep cbs (b :: r) with
      | .skip h => (scan cbs r).prepend [b] h
      | .replace p n => (scan cbs ((b :: r).drop n)).prepend p true
      | .fatal => .fatal
      | .panic => .panic := by
  rw [scan]
  unfold headStep
  by_cases ht : startsWith containerTag (b :: r) = true
  · simp only [ht, Bool.not_true, Bool.false_eq_true, if_false]
    cases hx : extractContainer (b :: r) with
    | panic => rfl
    | err => rfl
    | ok v =>
      obtain ⟨n, container⟩ := v
      simp only
      cases hc : runCallbacks container cbs with
      | fatal => rfl
      | skip => rfl
      | replace p =>
        simp only
        by_cases hn : 0 < n ∧ n ≤ ((b :: r).length : Int)
        · rw [dif_pos hn, if_pos hn]
        · rw [dif_neg hn, if_neg hn]
  · have ht' : startsWith containerTag (b :: r) = false := by simpa using ht
    simp only [ht', Bool.not_false, if_true]

theorem c01_scan_skip {cbs : List Callback} {b : UInt8} {r : Bytes} {h : Bool}
    (hs : headStep cbs (b :: r) = .skip h) : scan cbs (b :: r) = (scan cbs r).prepend [b] h := by
  rw [c01_scan_cons, hs]

theorem c01_scan_replace {cbs : List Callback} {rest p : Bytes} {n : Nat} (hne : rest ≠ [])
    (hs : headStep cbs rest = .replace p n) : scan cbs rest = (scan cbs (rest.drop n)).prepend p true := by
  cases rest with
  | nil => exact absurd rfl hne
  | cons b r => rw [c01_scan_cons, hs]

theorem c01_prepend_prepend (x : ScanOut) (a b : Bytes) (h1 h2 : Bool) :
    (x.prepend a h1).prepend b h2 = x.prepend (b ++ a) (h1 || h2) := by
  cases x <;> simp [ScanOut.prepend, Bool.or_assoc]

/-- the output bytes of a scan result (`none` for fatal / panic) -/
def ScanOut.bytes? : ScanOut → Option Bytes
  | .ok b _ => some b
  | _ => none

/-- Embedded envelope: if every position inside `pre` is skipped (not processed, not fatal, no panic)
and the loop replaces `C` at the head of `C ++ suf` by `m`, consuming exactly `C`, then scanning
`pre ++ C ++ suf` yields `pre ++ m` followed by whatever scanning `suf` yields; the hit flag is set. -/
theorem c01_scan_embedded (cbs : List Callback) (pre C suf m : Bytes)
    (hpre : ∀ i, i < pre.length → ∃ h, headStep cbs ((pre ++ C ++ suf).drop i) = .skip h)
    (hC : C ≠ []) (hhit : headStep cbs (C ++ suf) = .replace m C.length) :
    scan cbs (pre ++ C ++ suf) = (scan cbs suf).prepend (pre ++ m) true := by
  induction pre with
  | nil =>
    simp only [List.nil_append]
    rw [c01_scan_replace (by simp [hC]) hhit]
    simp
  | cons b p ih =>
    obtain ⟨h, h0⟩ := hpre 0 (by simp)
    simp only [List.drop_zero, List.cons_append] at h0
    simp only [List.cons_append]
    rw [c01_scan_skip h0]
    have hp : ∀ i, i < p.length → ∃ h, headStep cbs ((p ++ C ++ suf).drop i) = .skip h := by
      intro i hi
      have := hpre (i+1) (by simp; omega)
      simpa using this
    rw [ih hp, c01_prepend_prepend]
    simp

/-- Plain data: if every position of the buffer is skipped, the buffer comes back unchanged. -/
theorem c01_scan_plain (cbs : List Callback) (buf : Bytes)
    (h : ∀ i, i < buf.length → ∃ hit, headStep cbs (buf.drop i) = .skip hit) :
    ∃ hit, scan cbs buf = .ok buf hit := by
  induction buf with
  | nil => exact ⟨false, c01_scan_nil cbs⟩
  | cons b r ih =>
    obtain ⟨h0, hs⟩ := h 0 (by simp)
    simp only [List.drop_zero] at hs
    have hr : ∀ i, i < r.length → ∃ hit, headStep cbs (r.drop i) = .skip hit := by
      intro i hi
      have := h (i+1) (by simp; omega)
      simpa using this
    obtain ⟨hit, hscan⟩ := ih hr
    refine ⟨hit || h0, ?_⟩
    rw [c01_scan_skip hs, hscan]
    simp [ScanOut.prepend]

/-! ### the decrypt callback on a serialized container -/

theorem c01_startsWith_ser (e suf : Bytes) (id : UInt8) : startsWith containerTag (serBytes e id ++ suf) = true := by
  unfold startsWith serBytes
  simp [List.append_assoc]

theorem c01_runCallbacks_cons_same {cb : Callback} {container : Bytes} (rest : List Callback)
    (h : cb container = .same ∨ cb container = .decErr) :
    runCallbacks container (cb :: rest) = runCallbacks container rest := by
  rcases h with h | h <;> simp [runCallbacks, h]

/-- the decrypt callback replaces a container it can process (unless the result equals its input) -/
theorem c01_runCallbacks_decrypt {c : CryptoOps} {kv : KeyView} {container m : Bytes} (rest : List Callback)
    (hproc : process c kv container = .ok m) (hne : m ≠ container) :
    runCallbacks container (decryptCallback c kv :: rest) = .replace m := by
  have : decryptCallback c kv container = .replaced m := by
    unfold decryptCallback
    rw [hproc]
    simp [hne]
  simp [runCallbacks, this]

theorem c01_runCallbacks_front {c : CryptoOps} {kv : KeyView} {container m : Bytes} (front rest : List Callback)
    (hfront : ∀ cb ∈ front, cb container = .same ∨ cb container = .decErr)
    (hproc : process c kv container = .ok m) (hne : m ≠ container) :
    runCallbacks container (front ++ decryptCallback c kv :: rest) = .replace m := by
  induction front with
  | nil => exact c01_runCallbacks_decrypt rest hproc hne
  | cons cb f ih =>
    rw [List.cons_append, c01_runCallbacks_cons_same _ (hfront cb List.mem_cons_self)]
    exact ih (fun cb' h' => hfront cb' (List.mem_cons_of_mem _ h'))

/-- a serialized container whose envelope the registry can open is processed at the head of
`container ++ suf`, consuming exactly the container -/
theorem c01_procAt_ser (cbs : List Callback) (k : Kind) (e suf m : Bytes) (he : e ≠ [])
    (hlen : e.length + 12 < 2^63)
    (hrun : runCallbacks (serBytes e k.id ++ suf) cbs = .replace m) :
    procAt cbs (serBytes e k.id ++ suf) m (serBytes e k.id).length := by
  refine ⟨c01_startsWith_ser e suf k.id, _, _, c01_extractContainer_ser suf he (c01_kindOfId_id k) hlen, hrun, ?_, ?_, ?_⟩
  · rw [c01_serBytes_length]; omega
  · rw [List.length_append]; omega
  · simp

/-- a position whose first byte is not `%` is skipped -/
theorem c01_headStep_of_head_ne (cbs : List Callback) (x : UInt8) (r : Bytes) (hx : x ≠ 37) :
    headStep cbs (x :: r) = .skip false := by
  apply c01_headStep_of_not_tag
  have ht : containerTag = [37, 37, 37] := by decide
  unfold startsWith
  rw [ht]
  simp [hx]

/-- inside a prefix without `%` bytes every position is skipped -/
theorem c01_skip_of_no_tag_byte (cbs : List Callback) (pre rest : Bytes) (h : ∀ x ∈ pre, x ≠ 37) :
    ∀ i, i < pre.length → ∃ hit, headStep cbs ((pre ++ rest).drop i) = .skip hit := by
  intro i hi
  have hi' : i < (pre ++ rest).length := by rw [List.length_append]; omega
  rw [List.drop_eq_getElem_cons hi']
  refine ⟨false, c01_headStep_of_head_ne cbs _ _ ?_⟩
  rw [List.getElem_append_left hi]
  exact h _ (List.getElem_mem hi)

theorem c01_onColumn_scan (cbs : List Callback) (buf : Bytes) (hc : cbs ≠ []) (hl : containerMin ≤ buf.length) :
    onColumn cbs buf = scan cbs buf := by
  unfold onColumn
  have : cbs.isEmpty = false := by cases cbs <;> simp_all
  rw [if_neg (by simp [this]; omega)]

/-! ### positions that start with `%` but are not containers -/

theorem c01_goSlice_ok_of_le (b : Bytes) (lo hi : Nat) (h : lo ≤ hi ∧ hi ≤ b.length) :
    goSlice b lo hi = .ok ((b.take hi).drop lo) := by
  unfold goSlice; rw [if_pos h]

theorem c01_goIndex_ok_of_lt (b : Bytes) (i : Nat) (h : i < b.length) : goIndex b i = .ok b[i] := by
  unfold goIndex; rw [List.getElem?_eq_getElem h]

/-- a buffer that starts with `%` is not an AcraStruct -/
theorem c01_validateStruct_pct (r : Bytes) : validateStruct (37 :: r) = .err := by
  unfold validateStruct
  by_cases hl : (37 :: r).length < structMin
  · rw [if_pos hl]
  · rw [if_neg hl, c01_goSlice_ok_of_le _ 0 structTagLen ⟨Nat.zero_le _, by rw [c01_structMin] at hl; rw [c01_structTagLen]; omega⟩]
    rw [Out.bind_ok, c01_structTagLen]
    have : ((37 :: r).take 8).drop 0 ≠ structTag := by
      have ht : structTag = [34,34,34,34,34,34,34,34] := by decide
      rw [ht]; simp
    rw [if_pos this]

/-- … and does not start with an AcraBlock -/
theorem c01_extractBlock_pct (r : Bytes) : extractBlock (37 :: r) = .err := by
  unfold extractBlock
  by_cases hl : (37 :: r).length < blockMin
  · rw [if_pos hl]
  · have hmin : blockMin = 18 := rfl
    rw [hmin] at hl
    rw [if_neg (by rw [hmin]; exact hl)]
    simp only [Layout.blockTagBeginSize, Layout.blockRestAcraBlockLengthPosition, Layout.blockRestAcraBlockLengthSize,
      Layout.blockKeyEncryptionKeyTypePosition, Layout.blockDataEncryptionTypePosition]
    rw [c01_goSlice_ok_of_le _ 0 4 (by omega), c01_goSlice_ok_of_le _ 4 (4+8) (by omega),
      c01_goIndex_ok_of_lt _ 12 (by omega), c01_goIndex_ok_of_lt _ 15 (by omega)]
    simp only [Out.bind_ok]
    have : (((37 :: r).take 4).drop 0 == blockTag) = false := by
      have ht : blockTag = [34,34,34,34] := by decide
      rw [ht]; simp
    rw [this]
    simp

theorem c01_matchOld_pct (r : Bytes) : matchOld (37 :: r) = .err := by
  unfold matchOld
  rw [c01_validateStruct_pct, c01_extractBlock_pct]

/-- a position that starts with `%` but whose would-be envelope id (byte 11) is not a registered id is
skipped: neither a serialized container nor a bare envelope is recognised there -/
theorem c01_headStep_pct_bad_id (cbs : List Callback) (r : Bytes)
    (hid : ∀ x, (37 :: r)[11]? = some x → kindOfId x = none) : headStep cbs (37 :: r) = .skip false := by
  have hv : validateContainer (37 :: r) = .err := by
    unfold validateContainer
    by_cases hl : (37 :: r).length ≤ containerMin
    · rw [if_pos hl]
    · have hc : containerMin = 12 := rfl
      rw [hc] at hl
      rw [if_neg (by rw [hc]; exact hl), c01_containerTag_length, c01_goSlice_ok_of_le _ 0 3 (by omega), Out.bind_ok]
      by_cases ht : ((37 :: r).take 3).drop 0 ≠ containerTag
      · rw [if_pos ht]
      · rw [if_neg ht]
        simp only [Layout.containerTagBeginSize, Layout.containerLengthSize]
        rw [c01_goIndex_ok_of_lt _ 11 (by omega), Out.bind_ok]
        rw [hid _ (List.getElem?_eq_getElem (by omega))]
  have hx : extractContainer (37 :: r) = .err := by
    unfold extractContainer
    rw [hv, c01_matchOld_pct]
  unfold headStep
  rw [hx]
  simp

end AcraModel.Envelope
