import AcraModel.Envelope.SafeDetector
/-!
`OnColumn`, the legacy scans `ProcessAcraStructs` / `ProcessAcraBlocks` and the compatibility wrapper
`OldContainerDetectorWrapper.OnColumn`: no panic; with the decrypt callback no fatal error
(helpers for C03 / C14).
-/
namespace AcraModel.Envelope
open AcraModel Generated

theorem onColumn_ne_panic (cbs : List Callback) (d : Bytes) (hl : d.length < 2^63) : onColumn cbs d ≠ .panic := by
  unfold onColumn
  split
  · exact fun h => nomatch h
  · exact scan_ne_panic cbs d hl

theorem onColumn_ne_fatal (cbs : List Callback) (hc : ∀ cb ∈ cbs, ∀ x, cb x ≠ .fatal) (d : Bytes) :
    onColumn cbs d ≠ .fatal := by
  unfold onColumn
  split
  · exact fun h => nomatch h
  · exact scan_ne_fatal cbs hc d

/-! ### `Out.bind` with a total continuation -/

theorem bind_ok_ne_panic {o : Out Bytes} {f : Bytes → Bytes} (h : o ≠ .panic) :
    (o.bind fun x => .ok (f x)) ≠ .panic := by
  cases o <;> simp_all [Out.bind]

theorem bind_ok_ok {o : Out Bytes} {f : Bytes → Bytes} (h : ∃ y, o = .ok y) :
    ∃ y, (o.bind fun x => .ok (f x)) = .ok y := by
  obtain ⟨y, rfl⟩ := h; exact ⟨f y, rfl⟩

theorem take_ne_nil {b : UInt8} {r : Bytes} {k : Nat} (hk : 0 < k) : (b :: r).take k ≠ [] := by
  cases k with
  | zero => omega
  | succ k => simp

/-! ### `ProcessAcraStructs` -/

theorem processStructs_ne_panic (proc : Bytes → Out Bytes) (hp : ∀ x, proc x ≠ .panic) (rest : Bytes) :
    processStructs proc rest ≠ .panic := by
  induction rest using processStructs.induct proc with
  | case1 => rw [processStructs.eq_1]; exact fun h => nomatch h
  | case2 b r h ih => rw [processStructs.eq_2, if_pos h]; exact bind_ok_ne_panic ih
  | case3 b r h hl hg => exact absurd hg (by rw [getDataLength_eq _ (by rw [structMin_eq] at hl; omega)]; exact fun h => nomatch h)
  | case4 b r h hl hg => rw [processStructs.eq_2, if_neg h, if_pos hl, hg]; exact fun h => nomatch h
  | case5 b r h hl dl hg l hb p hq ih =>
    have hb' : 0 < wrapInt64 (dl + structMin) ∧ wrapInt64 (dl + structMin) ≤ (b :: r).length := hb
    rw [processStructs.eq_2, if_neg h, if_pos hl, hg]; dsimp only; rw [dif_pos hb', show proc _ = _ from hq]
    exact bind_ok_ne_panic ih
  | case6 b r h hl dl hg l hb hq =>
    have hb' : 0 < wrapInt64 (dl + structMin) ∧ wrapInt64 (dl + structMin) ≤ (b :: r).length := hb
    rw [processStructs.eq_2, if_neg h, if_pos hl, hg]; dsimp only; rw [dif_pos hb', show proc _ = _ from hq]
    exact fun h => nomatch h
  | case7 b r h hl dl hg l hb hq => exact absurd hq (hp _)
  | case8 b r h hl dl hg l hb ih =>
    have hb' : ¬ (0 < wrapInt64 (dl + structMin) ∧ wrapInt64 (dl + structMin) ≤ (b :: r).length) := hb
    rw [processStructs.eq_2, if_neg h, if_pos hl, hg]; dsimp only; rw [dif_neg hb']
    exact bind_ok_ne_panic ih
  | case9 b r h hl ih => rw [processStructs.eq_2, if_neg h, if_neg hl]; exact bind_ok_ne_panic ih

/-- with a handler that succeeds on every non-empty input the struct scan succeeds -/
theorem processStructs_ok (proc : Bytes → Out Bytes) (hp : ∀ x, x ≠ [] → ∃ y, proc x = .ok y) (rest : Bytes) :
    ∃ o, processStructs proc rest = .ok o := by
  induction rest using processStructs.induct proc with
  | case1 => exact ⟨[], processStructs.eq_1 proc⟩
  | case2 b r h ih => rw [processStructs.eq_2, if_pos h]; exact bind_ok_ok ih
  | case3 b r h hl hg => exact absurd hg (by rw [getDataLength_eq _ (by rw [structMin_eq] at hl; omega)]; exact fun h => nomatch h)
  | case4 b r h hl hg => exact absurd hg (by rw [getDataLength_eq _ (by rw [structMin_eq] at hl; omega)]; exact fun h => nomatch h)
  | case5 b r h hl dl hg l hb p hq ih =>
    have hb' : 0 < wrapInt64 (dl + structMin) ∧ wrapInt64 (dl + structMin) ≤ (b :: r).length := hb
    rw [processStructs.eq_2, if_neg h, if_pos hl, hg]; dsimp only; rw [dif_pos hb', show proc _ = _ from hq]
    exact bind_ok_ok ih
  | case6 b r h hl dl hg l hb hq =>
    obtain ⟨y, hy⟩ := hp _ (take_ne_nil (b := b) (r := r) (k := l.toNat) (by have := hb.1; omega))
    rw [hy] at hq; cases hq
  | case7 b r h hl dl hg l hb hq =>
    obtain ⟨y, hy⟩ := hp _ (take_ne_nil (b := b) (r := r) (k := l.toNat) (by have := hb.1; omega))
    rw [hy] at hq; cases hq
  | case8 b r h hl dl hg l hb ih =>
    have hb' : ¬ (0 < wrapInt64 (dl + structMin) ∧ wrapInt64 (dl + structMin) ≤ (b :: r).length) := hb
    rw [processStructs.eq_2, if_neg h, if_pos hl, hg]; dsimp only; rw [dif_neg hb']
    exact bind_ok_ok ih
  | case9 b r h hl ih => rw [processStructs.eq_2, if_neg h, if_neg hl]; exact bind_ok_ok ih

/-! ### `ProcessAcraBlocks` -/

theorem extractBlock_pos {d : Bytes} {n : Nat} {blk : Bytes} (h : extractBlock d = .ok (n, blk)) :
    0 < n ∧ n ≤ d.length := by
  have := extractBlock_bounds' h; omega

theorem processBlocks_ne_panic (proc : Bytes → Out Bytes) (hp : ∀ x, proc x ≠ .panic) (rest : Bytes) :
    processBlocks proc rest ≠ .panic := by
  induction rest using processBlocks.induct proc with
  | case1 => rw [processBlocks.eq_1]; exact fun h => nomatch h
  | case2 b r h ih => rw [processBlocks.eq_2, if_pos h]; exact bind_ok_ne_panic ih
  | case3 b r h hl he => exact absurd he (extractBlock_ne_panic _)
  | case4 b r h hl he ih => rw [processBlocks.eq_2, if_neg h, if_pos hl, he]; exact bind_ok_ne_panic ih
  | case5 b r h hl n blk he hn p hq ih =>
    rw [processBlocks.eq_2, if_neg h, if_pos hl, he]; dsimp only; rw [dif_pos hn, hq]
    exact bind_ok_ne_panic ih
  | case6 b r h hl n blk he hn hq =>
    rw [processBlocks.eq_2, if_neg h, if_pos hl, he]; dsimp only; rw [dif_pos hn, hq]
    exact fun h => nomatch h
  | case7 b r h hl n blk he hn hq => exact absurd hq (hp _)
  | case8 b r h hl n blk he hn => exact absurd (extractBlock_pos he) hn
  | case9 b r h hl ih => rw [processBlocks.eq_2, if_neg h, if_neg hl]; exact bind_ok_ne_panic ih

theorem extractBlock_blk_ne_nil {d : Bytes} {n : Nat} {blk : Bytes} (h : extractBlock d = .ok (n, blk)) : blk ≠ [] := by
  obtain ⟨h1, h2, rfl⟩ := extractBlock_bounds' h
  intro e
  have := congrArg List.length e
  rw [List.length_take] at this
  simp only [List.length_nil] at this
  omega

theorem processBlocks_ok (proc : Bytes → Out Bytes) (hp : ∀ x, x ≠ [] → ∃ y, proc x = .ok y) (rest : Bytes) :
    ∃ o, processBlocks proc rest = .ok o := by
  induction rest using processBlocks.induct proc with
  | case1 => exact ⟨[], processBlocks.eq_1 proc⟩
  | case2 b r h ih => rw [processBlocks.eq_2, if_pos h]; exact bind_ok_ok ih
  | case3 b r h hl he => exact absurd he (extractBlock_ne_panic _)
  | case4 b r h hl he ih => rw [processBlocks.eq_2, if_neg h, if_pos hl, he]; exact bind_ok_ok ih
  | case5 b r h hl n blk he hn p hq ih =>
    rw [processBlocks.eq_2, if_neg h, if_pos hl, he]; dsimp only; rw [dif_pos hn, hq]
    exact bind_ok_ok ih
  | case6 b r h hl n blk he hn hq =>
    obtain ⟨y, hy⟩ := hp _ (extractBlock_blk_ne_nil he); rw [hy] at hq; cases hq
  | case7 b r h hl n blk he hn hq =>
    obtain ⟨y, hy⟩ := hp _ (extractBlock_blk_ne_nil he); rw [hy] at hq; cases hq
  | case8 b r h hl n blk he hn => exact absurd (extractBlock_pos he) hn
  | case9 b r h hl ih => rw [processBlocks.eq_2, if_neg h, if_neg hl]; exact bind_ok_ok ih

/-! ### `OnAcraStruct` / `OnAcraBlock` of the wrapper -/

theorem onCryptoEnvelope_ne_panic (cont : Bytes) (cbs : List Callback) : onCryptoEnvelope cont cbs ≠ .panic := by
  induction cbs with
  | nil => simp [onCryptoEnvelope]
  | cons cb rest ih =>
    simp only [onCryptoEnvelope]
    split
    · simp
    · simp
    · exact ih
    · exact ih

theorem onCryptoEnvelope_ok (cont : Bytes) (cbs : List Callback) (hc : ∀ cb ∈ cbs, ∀ x, cb x ≠ .fatal) :
    ∃ y, onCryptoEnvelope cont cbs = .ok y := by
  induction cbs with
  | nil => exact ⟨cont, rfl⟩
  | cons cb rest ih =>
    have ih' := ih (fun cb' hm => hc cb' (List.mem_cons_of_mem _ hm))
    simp only [onCryptoEnvelope]
    split
    · next h => exact absurd h (hc cb List.mem_cons_self cont)
    · exact ⟨_, rfl⟩
    · exact ih'
    · exact ih'

theorem onBare_ne_panic (cbs : List Callback) (id : UInt8) (bare : Bytes) : onBare cbs id bare ≠ .panic := by
  unfold onBare
  apply Out.bind_ne_panic _ _ (serialize_ne_panic bare id)
  intro s _
  apply Out.bind_ne_panic _ _ (onCryptoEnvelope_ne_panic s cbs)
  intro p _
  split <;> simp

theorem onBare_ok (cbs : List Callback) (hc : ∀ cb ∈ cbs, ∀ x, cb x ≠ .fatal) (id : UInt8) (bare : Bytes)
    (hb : bare ≠ []) : ∃ y, onBare cbs id bare = .ok y := by
  unfold onBare serialize
  rw [if_neg hb]
  simp only [Out.bind_ok]
  obtain ⟨y, hy⟩ := onCryptoEnvelope_ok (containerTag ++ leBytes 8 (containerMin + bare.length) ++ [id] ++ bare) cbs hc
  rw [hy]
  simp only [Out.bind_ok]
  split
  · exact ⟨_, rfl⟩
  · exact ⟨_, rfl⟩

/-! ### the compatibility wrapper -/

/-- the legacy part of `OldContainerDetectorWrapper.OnColumn` (bare AcraStructs, then bare AcraBlocks) -/
def compatTail (cbs : List Callback) (inBuffer : Bytes) : ScanOut :=
  match (if inBuffer.length < structMin then .ok inBuffer
         else processStructs (onBare ((fun _ => Cb.same) :: cbs) idStruct) inBuffer) with
  | .panic => .panic
  | .err => .fatal
  | .ok o1 =>
    match (if o1.length < blockMin then .ok o1 else processBlocks (onBare ((fun _ => Cb.same) :: cbs) idBlock) o1) with
    | .panic => .panic
    | .err => .fatal
    | .ok o2 => .ok o2 false

theorem onColumnCompat_eq (cbs : List Callback) (d : Bytes) :
    onColumnCompat cbs d =
      match onColumn ((fun _ => Cb.same) :: cbs) d with
      | .fatal => .fatal
      | .panic => .panic
      | .ok out hit => if hit || out != d then .ok out hit else compatTail cbs d := rfl

theorem compatTail_ne_panic (cbs : List Callback) (d : Bytes) : compatTail cbs d ≠ .panic := by
  unfold compatTail
  have h1 : (if d.length < structMin then Out.ok d
      else processStructs (onBare ((fun _ => Cb.same) :: cbs) idStruct) d) ≠ .panic :=
    ite_ne_panic (fun h => nomatch h) (processStructs_ne_panic _ (onBare_ne_panic _ _) d)
  split
  · next h => exact absurd h h1
  · exact fun h => nomatch h
  · next o1 _ =>
    have h2 : (if o1.length < blockMin then Out.ok o1
        else processBlocks (onBare ((fun _ => Cb.same) :: cbs) idBlock) o1) ≠ .panic :=
      ite_ne_panic (fun h => nomatch h) (processBlocks_ne_panic _ (onBare_ne_panic _ _) o1)
    split
    · next h => exact absurd h h2
    · exact fun h => nomatch h
    · exact fun h => nomatch h

theorem ite_ok {p : Prop} [Decidable p] {a : Bytes} {b : Out Bytes} (hb : ∃ y, b = .ok y) :
    ∃ y, (if p then Out.ok a else b) = .ok y := by
  split
  · exact ⟨a, rfl⟩
  · exact hb

theorem compatTail_ne_fatal (cbs : List Callback) (hc : ∀ cb ∈ cbs, ∀ x, cb x ≠ .fatal) (d : Bytes) :
    compatTail cbs d ≠ .fatal := by
  have hc' : ∀ cb ∈ ((fun _ => Cb.same) :: cbs), ∀ x, cb x ≠ .fatal := by
    intro cb hm x
    rcases List.mem_cons.1 hm with rfl | hm
    · exact fun h => nomatch h
    · exact hc cb hm x
  unfold compatTail
  obtain ⟨o1, h1⟩ : ∃ y, (if d.length < structMin then Out.ok d
      else processStructs (onBare ((fun _ => Cb.same) :: cbs) idStruct) d) = .ok y :=
    ite_ok (processStructs_ok _ (fun x hx => onBare_ok _ hc' _ x hx) d)
  rw [h1]
  dsimp only
  obtain ⟨o2, h2⟩ : ∃ y, (if o1.length < blockMin then Out.ok o1
      else processBlocks (onBare ((fun _ => Cb.same) :: cbs) idBlock) o1) = .ok y :=
    ite_ok (processBlocks_ok _ (fun x hx => onBare_ok _ hc' _ x hx) o1)
  rw [h2]
  exact fun h => nomatch h

theorem onColumnCompat_ne_panic (cbs : List Callback) (d : Bytes) (hl : d.length < 2^63) :
    onColumnCompat cbs d ≠ .panic := by
  rw [onColumnCompat_eq]
  split
  · exact fun h => nomatch h
  · next h => exact absurd h (onColumn_ne_panic _ d hl)
  · split
    · exact fun h => nomatch h
    · exact compatTail_ne_panic cbs d

theorem onColumnCompat_ne_fatal (cbs : List Callback) (hc : ∀ cb ∈ cbs, ∀ x, cb x ≠ .fatal) (d : Bytes) :
    onColumnCompat cbs d ≠ .fatal := by
  have hc' : ∀ cb ∈ ((fun _ => Cb.same) :: cbs), ∀ x, cb x ≠ .fatal := by
    intro cb hm x
    rcases List.mem_cons.1 hm with rfl | hm
    · exact fun h => nomatch h
    · exact hc cb hm x
  rw [onColumnCompat_eq]
  split
  · next h => exact absurd h (onColumn_ne_fatal _ hc' d)
  · exact fun h => nomatch h
  · split
    · exact fun h => nomatch h
    · exact compatTail_ne_fatal cbs hc d

end AcraModel.Envelope
