import AcraModel.Envelope.Masking
import AcraModel.Envelope.ScanLemmas
import AcraModel.Envelope.SafeCompatSame
/-!
Lemmas about masking (C11): the stored form of a masked value as `window | container` resp.
`container | window`, and what the compatibility wrapper with the masking callback makes of it.
-/
namespace AcraModel.Envelope
open AcraModel Generated

/-! ## the parts of a masked value -/

/-- the part of the value that is stored protected: everything when the value is not longer than the
configured window, otherwise the end (left window) resp. the beginning (right window) -/
def hiddenPart (cfg : MaskCfg) (v : Bytes) : Bytes :=
  if cfg.k ≥ v.length then v else if cfg.left then v.drop cfg.k else v.take (v.length - cfg.k)

/-- the part of the value that stays in clear: the configured window, or nothing when the value is not
longer than the window -/
def windowPart (cfg : MaskCfg) (v : Bytes) : Bytes :=
  if cfg.k ≥ v.length then [] else if cfg.left then v.take cfg.k else v.drop (v.length - cfg.k)

/-- window and replacement of the protected part on the configured sides -/
def joinSides (cfg : MaskCfg) (window x : Bytes) : Bytes := if cfg.left then window ++ x else x ++ window

/-- the bytes that follow the container in the stored value (they are part of what the callbacks are
handed: `ExtractSerializedContainer` returns the whole rest of the buffer) -/
def afterContainer (cfg : MaskCfg) (window : Bytes) : Bytes := if cfg.left then [] else window

theorem joinSides_parts (cfg : MaskCfg) (v : Bytes) : joinSides cfg (windowPart cfg v) (hiddenPart cfg v) = v := by
  unfold joinSides windowPart hiddenPart
  by_cases hk : cfg.k ≥ v.length
  · simp only [hk, if_true]
    split <;> simp
  · simp only [hk, if_false]
    cases cfg.left
    · simp
    · simp

theorem joinSides_eq (cfg : MaskCfg) (w x : Bytes) :
    joinSides cfg w x = (if cfg.left then w else []) ++ x ++ afterContainer cfg w := by
  unfold joinSides afterContainer
  cases cfg.left <;> simp

theorem windowPart_length_le (cfg : MaskCfg) (v : Bytes) : (windowPart cfg v).length ≤ cfg.k := by
  unfold windowPart
  split
  · simp
  · split
    · rw [List.length_take]; omega
    · rw [List.length_drop]; omega

theorem windowPart_short (cfg : MaskCfg) (v : Bytes) (h : v.length ≤ cfg.k) : windowPart cfg v = [] := by
  unfold windowPart; rw [if_pos h]

theorem hiddenPart_short (cfg : MaskCfg) (v : Bytes) (h : v.length ≤ cfg.k) : hiddenPart cfg v = v := by
  unfold hiddenPart; rw [if_pos h]

/-- `maskWrite` on a masked column: protect the hidden part, keep the window -/
theorem maskWrite_eq (c : CryptoOps) (kv : KeyView) (cfg : MaskCfg) (v rnd : Bytes) (hp : cfg.pattern ≠ []) :
    maskWrite c kv cfg v rnd =
      (protect c kv cfg.kind (hiddenPart cfg v) rnd).bind (fun e => .ok (joinSides cfg (windowPart cfg v) e)) := by
  unfold maskWrite hiddenPart windowPart joinSides
  rw [if_neg hp]
  by_cases hk : cfg.k ≥ v.length
  · simp only [hk, if_true]
    cases protect c kv cfg.kind v rnd with
    | ok e => cases cfg.left <;> simp [Out.bind]
    | err => rfl
    | panic => rfl
  · simp only [hk, if_false]
    cases hl : cfg.left
    · simp only [Bool.false_eq_true, if_false]; rfl
    · simp only [if_true]; rfl

theorem maskWrite_ok {c : CryptoOps} {kv : KeyView} {cfg : MaskCfg} {v rnd stored : Bytes} (hp : cfg.pattern ≠ [])
    (h : maskWrite c kv cfg v rnd = .ok stored) :
    ∃ p, protect c kv cfg.kind (hiddenPart cfg v) rnd = .ok p ∧ stored = joinSides cfg (windowPart cfg v) p := by
  rw [maskWrite_eq c kv cfg v rnd hp] at h
  cases hq : protect c kv cfg.kind (hiddenPart cfg v) rnd with
  | ok p =>
    rw [hq] at h
    simp only [Out.bind] at h
    cases h
    exact ⟨p, rfl, rfl⟩
  | err => rw [hq] at h; cases h
  | panic => rw [hq] at h; cases h

theorem maskWrite_ne_panic (c : CryptoOps) (kv : KeyView) (cfg : MaskCfg) (v rnd : Bytes) :
    maskWrite c kv cfg v rnd ≠ .panic := by
  by_cases hp : cfg.pattern = []
  · unfold maskWrite; rw [if_pos hp]; exact fun h => nomatch h
  · rw [maskWrite_eq c kv cfg v rnd hp]
    have := protect_ne_panic c kv cfg.kind (hiddenPart cfg v) rnd
    cases hq : protect c kv cfg.kind (hiddenPart cfg v) rnd with
    | ok p => exact fun h => nomatch h
    | err => exact fun h => nomatch h
    | panic => exact absurd hq this

theorem maskRead_ne_panic (c : CryptoOps) (kv : KeyView) (cfg : MaskCfg) (d : Bytes) (hl : d.length < 2^63) :
    maskRead c kv cfg d ≠ .panic := by
  unfold maskRead
  split <;> exact onColumnCompat_ne_panic _ d hl

theorem ite_cb_ne_fatal (b : Bool) (s : Bytes) : (if b = true then Cb.same else Cb.replaced s) ≠ .fatal := by
  cases b <;> exact fun h => nomatch h

/-- the masking callback never answers with a fatal error -/
theorem maskCallback_ne_fatal (c : CryptoOps) (kv : KeyView) (pat x : Bytes) : maskCallback c kv pat x ≠ .fatal := by
  unfold maskCallback
  exact ite_cb_ne_fatal _ _

theorem maskRead_ne_fatal (c : CryptoOps) (kv : KeyView) (cfg : MaskCfg) (d : Bytes) :
    maskRead c kv cfg d ≠ .fatal := by
  unfold maskRead
  split
  · exact onColumnCompat_ne_fatal _ (by intro cb hm x; rw [List.mem_singleton.1 hm]; exact decryptCallback_ne_fatal c kv x) d
  · exact onColumnCompat_ne_fatal _ (by intro cb hm x; rw [List.mem_singleton.1 hm]; exact maskCallback_ne_fatal c kv _ x) d

/-! ## one container between clean bytes, through the compatibility wrapper -/

/-- a serialized container between bytes that contain no `%`: when the callbacks (the wrapper's own
first) replace the container (handed to them together with the bytes after it) by `m`, the
compatibility wrapper returns `before ++ m ++ after`; the "envelope seen" flag is set, so the legacy
scans for bare envelopes do not run -/
theorem onColumnCompat_container' (cbs : List Callback) (k : Kind) (e pre suf m : Bytes)
    (he : e ≠ []) (hlen : e.length + 12 < 2^63)
    (hrun : runCallbacks (serBytes e k.id ++ suf) ((fun _ => Cb.same) :: cbs) = .replace m)
    (hpre : ∀ x ∈ pre, x ≠ 37) (hsuf : ∀ x ∈ suf, x ≠ 37) :
    onColumnCompat cbs (pre ++ serBytes e k.id ++ suf) = .ok (pre ++ m ++ suf) true := by
  have hproc := c01_procAt_ser _ k e suf m he hlen hrun
  have hskip := c01_skip_of_no_tag_byte ((fun _ => Cb.same) :: cbs) pre (serBytes e k.id ++ suf) hpre
  rw [← List.append_assoc] at hskip
  have hne : serBytes e k.id ≠ [] := by
    intro h
    have := congrArg List.length h
    rw [c01_serBytes_length] at this
    simp at this
  have hl : containerMin ≤ (pre ++ serBytes e k.id ++ suf).length := by
    rw [List.length_append, List.length_append, c01_serBytes_length]
    show 12 ≤ _
    omega
  have hscan := c01_onColumn_scan ((fun _ => Cb.same) :: cbs) _ (by simp) hl
  rw [c01_scan_embedded _ pre (serBytes e k.id) suf m hskip hne (c01_headStep_of_procAt hproc)] at hscan
  have hs' := c01_skip_of_no_tag_byte ((fun _ => Cb.same) :: cbs) suf [] hsuf
  simp only [List.append_nil] at hs'
  obtain ⟨hit, hsc⟩ := c01_scan_plain _ suf hs'
  rw [hsc] at hscan
  rw [onColumnCompat_eq, hscan]
  simp [ScanOut.prepend]

theorem onColumnCompat_container (cb : Callback) (k : Kind) (e pre suf m : Bytes)
    (he : e ≠ []) (hlen : e.length + 12 < 2^63)
    (hcb : cb (serBytes e k.id ++ suf) = .replaced m)
    (hpre : ∀ x ∈ pre, x ≠ 37) (hsuf : ∀ x ∈ suf, x ≠ 37) :
    onColumnCompat [cb] (pre ++ serBytes e k.id ++ suf) = .ok (pre ++ m ++ suf) true :=
  onColumnCompat_container' [cb] k e pre suf m he hlen (by simp [runCallbacks, hcb]) hpre hsuf

/-! ## the masking callback -/

/-- the owner: the container opens to `m` – the callback hands out `m` -/
theorem maskCallback_owner {c : CryptoOps} {kv : KeyView} {pat cont m : Bytes}
    (hproc : process c kv cont = .ok m) (hne : m ≠ cont) : maskCallback c kv pat cont = .replaced m := by
  unfold maskCallback
  rw [hproc]
  simp [hne]

/-- everybody else: the container does not open – the callback hands out the pattern -/
theorem maskCallback_other {c : CryptoOps} {kv : KeyView} {pat cont : Bytes}
    (hproc : ∀ m, process c kv cont ≠ .ok m) (hne : pat ≠ cont) : maskCallback c kv pat cont = .replaced pat := by
  unfold maskCallback
  cases hp : process c kv cont with
  | ok m => exact absurd hp (hproc m)
  | err => simp [hne]
  | panic => simp [hne]

/-! ## what `protect` produced, for either kind -/

/-- under the round-trip hypotheses of C01 the value `protect` produced for an unprotected `m` is a
serialized container that the reader's registry handler opens to `m`, whatever bytes follow it -/
theorem protect_roundtrip_facts (c : CryptoOps) (k : Kind) (kvW kvR : KeyView) (m rnd p : Bytes)
    (h : RoundTripHyps c k kvW kvR m rnd p)
    (hnm : matchKind k m = false) (hnr : registryMatch m = false)
    (hp : protect c kvW k m rnd = .ok p) :
    ∃ e, p = serBytes e k.id ∧ e ≠ [] ∧ e.length + 12 < 2^63 ∧ ∀ suf, process c kvR (p ++ suf) = .ok m := by
  cases k with
  | block =>
    obtain ⟨hs, key, pre, post, hkid, hW, hR, hpre, hek, hpl⟩ := h
    obtain ⟨e, rfl, he, hlen, hmatch, hdec⟩ := c01_protect_block_facts c hs kvW kvR key m rnd p pre post hkid hW hR
      (fun k' hk' encKey h2 hid => Or.inl (hpre k' hk' encKey h2 hid)) hek hpl hnm hnr hp
    refine ⟨e, rfl, he, hlen, fun suf => ?_⟩
    rw [c01_process_ser c kvR .block e suf he (by omega) hmatch, hdec]
  | struct =>
    obtain ⟨hs, hsl, hm, hml, hk, priv, pre, post, hpriv, hW, hR, hpre⟩ := h
    obtain ⟨e, rfl, he, hlen, hmlen, hmatch, hdec⟩ := c01_protect_struct_facts c hs hsl hm hml hk kvW kvR priv m rnd p
      pre post hpriv hW hR hpre hnm hnr hp
    refine ⟨e, rfl, he, by omega, fun suf => ?_⟩
    rw [c01_process_ser c kvR .struct e suf he (by omega) hmatch, hdec]


/-! ## reading a masked value -/

theorem side_noPct {cfg : MaskCfg} {w : Bytes} (hw : ∀ x ∈ w, x ≠ 37) :
    (∀ x ∈ (if cfg.left then w else []), x ≠ 37) ∧ (∀ x ∈ afterContainer cfg w, x ≠ 37) := by
  unfold afterContainer
  cases cfg.left <;> simp <;> exact hw

/-- the owner reads `window | container` resp. `container | window` back as window and plaintext -/
theorem maskRead_owner (c : CryptoOps) (kvR : KeyView) (cfg : MaskCfg) (w e m : Bytes)
    (hpat : cfg.pattern ≠ []) (hw : ∀ x ∈ w, x ≠ 37)
    (he : e ≠ []) (hlen : e.length + 12 < 2^63)
    (hproc : process c kvR (serBytes e cfg.kind.id ++ afterContainer cfg w) = .ok m)
    (hne : m ≠ serBytes e cfg.kind.id ++ afterContainer cfg w) :
    maskRead c kvR cfg (joinSides cfg w (serBytes e cfg.kind.id)) = .ok (joinSides cfg w m) true := by
  unfold maskRead
  rw [if_neg hpat, joinSides_eq, joinSides_eq]
  exact onColumnCompat_container _ cfg.kind e _ _ m he hlen (maskCallback_owner hproc hne)
    (side_noPct hw).1 (side_noPct hw).2

/-- a reader who cannot open the container reads window and pattern -/
theorem maskRead_other (c : CryptoOps) (kvR : KeyView) (cfg : MaskCfg) (w e : Bytes)
    (hpat : cfg.pattern ≠ []) (hw : ∀ x ∈ w, x ≠ 37)
    (he : e ≠ []) (hlen : e.length + 12 < 2^63)
    (hproc : ∀ m, process c kvR (serBytes e cfg.kind.id ++ afterContainer cfg w) ≠ .ok m)
    (hne : cfg.pattern.length ≤ 12 ∨ cfg.pattern ≠ serBytes e cfg.kind.id ++ afterContainer cfg w) :
    maskRead c kvR cfg (joinSides cfg w (serBytes e cfg.kind.id)) = .ok (joinSides cfg w cfg.pattern) true := by
  have hne' : cfg.pattern ≠ serBytes e cfg.kind.id ++ afterContainer cfg w := by
    rcases hne with h | h
    · intro heq
      have := congrArg List.length heq
      rw [List.length_append, c01_serBytes_length] at this
      have : 0 < e.length := List.length_pos_iff.mpr he
      omega
    · exact h
  unfold maskRead
  rw [if_neg hpat, joinSides_eq, joinSides_eq]
  exact onColumnCompat_container _ cfg.kind e _ _ cfg.pattern he hlen (maskCallback_other hproc hne')
    (side_noPct hw).1 (side_noPct hw).2

/-- Hypotheses under which a reader is a NON-owner of the stored masked value: the hidden part of
`v` does not already look like a protected value (otherwise `protect` passes it through in clear),
`protect` produced the container `p` (shorter than `2^63` bytes), the reader's registry handler does
not open `p` (followed by whatever follows it in the stored value), and the pattern is not literally
the container (automatic for patterns of at most 12 bytes). -/
def NonOwnerHyps (c : CryptoOps) (kvW kvR : KeyView) (cfg : MaskCfg) (v rnd p : Bytes) : Prop :=
  matchKind cfg.kind (hiddenPart cfg v) = false ∧ registryMatch (hiddenPart cfg v) = false ∧
  protect c kvW cfg.kind (hiddenPart cfg v) rnd = .ok p ∧ p.length < 2^63 ∧
  (∀ m, process c kvR (p ++ afterContainer cfg (windowPart cfg v)) ≠ .ok m) ∧
  (cfg.pattern.length ≤ 12 ∨ cfg.pattern ≠ p ++ afterContainer cfg (windowPart cfg v))

theorem maskRead_nonOwner (c : CryptoOps) (kvW kvR : KeyView) (cfg : MaskCfg) (v rnd p stored : Bytes)
    (hpat : cfg.pattern ≠ []) (hw : ∀ x ∈ windowPart cfg v, x ≠ 37)
    (h : NonOwnerHyps c kvW kvR cfg v rnd p) (hwr : maskWrite c kvW cfg v rnd = .ok stored) :
    maskRead c kvR cfg stored = .ok (joinSides cfg (windowPart cfg v) cfg.pattern) true := by
  obtain ⟨hnm, hnr, hp, hplen, hfail, hpc⟩ := h
  obtain ⟨p', hp', rfl⟩ := maskWrite_ok hpat hwr
  rw [hp] at hp'; cases hp'
  obtain ⟨e, _, he, rfl⟩ := c01_protect_ok hp hnm hnr
  rw [c01_serBytes_length] at hplen
  exact maskRead_other c kvR cfg _ e hpat hw he (by omega) hfail hpc


/-! ## a value sealed under one symmetric key is not opened by other keys (key commitment) -/

/-- the wrapped data key of a freshly built AcraBlock sits where `AcraBlock.Decrypt` looks for it -/
theorem blockEncKey_build (kid ek ed : Bytes) (hkid : kid.length = 2) (hek : ek.length < 65536) :
    blockEncKey (buildBlock kid ek ed) = ek := by
  obtain ⟨_, _, _, _, _, f6, f7, _, _, _⟩ := c01_block_fields blockTag
    (leBytes 8 (blockMin - Layout.blockTagBeginSize + ek.length + ed.length)) kid (leBytes 2 ek.length) ek ed []
    (UInt8.ofNat Layout.blockKeyEncryptionBackendTypeSecureCell) (UInt8.ofNat Layout.blockDataEncryptionBackendTypeSecureCell)
    c01_blockTag_length (by simp) hkid (by simp)
  simp only [List.append_nil] at f6 f7
  have h6 := (goSlice_eq_ok f6).2.2
  have h7 := (goSlice_eq_ok f7).2.2
  have hkl : blockKeyLen (buildBlock kid ek ed) = ek.length := by
    unfold blockKeyLen buildBlock
    rw [← h6]
    exact c01_leVal_leBytes2 hek
  unfold blockEncKey
  rw [hkl]
  unfold buildBlock
  exact h7.symm

/-- **Key commitment keeps strangers out** (`SealLaws` + `SealCommit`; no length law): a serialized
container around an AcraBlock created under `key` is not opened by any key view whose list of
symmetric keys does not contain `key`, whatever bytes follow the container. -/
theorem createBlock_not_opened (c : CryptoOps) (hs : SealLaws c) (hcm : SealCommit c) (pk : KeyView)
    (key m rnd e suf : Bytes)
    (hkid : (keyId c key []).length = 2)
    (hEncKey : ∀ encKey, c.enc key [] (rnd.take 32) ((rnd.drop 44).take 12) = some encKey → encKey.length < 65536)
    (hlen : e.length + 12 < 2^64)
    (hc : createBlock c key [] m rnd = .ok e)
    (hdisj : ∀ ks, pk.syms = some ks → key ∉ ks) :
    ∀ m', process c pk (serBytes e idBlock ++ suf) ≠ .ok m' := by
  intro m' h
  obtain ⟨encData, encKey, _, h2, rfl⟩ := c01_createBlock_ok hc
  have hne : buildBlock (keyId c key []) encKey encData ≠ [] := by
    intro h0
    have := congrArg List.length h0
    rw [c01_buildBlock_length _ _ _ hkid] at this
    simp at this
  obtain ⟨k, i, hd, hk⟩ := process_ok h
  have hds := c01_deserialize_ser (id := idBlock) (k := .block) suf hne (by decide) hlen
  rw [hds] at hd
  simp only [Out.ok.injEq, Prod.mk.injEq] at hd
  obtain ⟨rfl, hid⟩ := hd
  cases k with
  | struct => exact absurd hid (by decide)
  | block =>
    obtain ⟨_, _, _, ks, hks, hdec⟩ := decryptKind_block_ok hk
    obtain ⟨_, _, _, key', hmem, dek, _, hkd, _⟩ := decryptBlock_ok_parts hdec
    rw [blockEncKey_build _ _ _ hkid (hEncKey _ h2)] at hkd
    obtain ⟨n, _, hn⟩ := hs.enc_of_dec _ _ _ _ hkd
    obtain ⟨hkk, _, _⟩ := hcm.enc_inj _ _ _ _ _ _ _ _ _ hn h2
    subst hkk
    exact hdisj ks hks hmem

/-- the same for what `protect` produced with the AcraBlock handler -/
theorem protect_block_not_opened (c : CryptoOps) (hs : SealLaws c) (hcm : SealCommit c) (kvW pk : KeyView)
    (key m rnd p suf : Bytes)
    (hW : kvW.sym = some key) (hkid : (keyId c key []).length = 2)
    (hEncKey : ∀ encKey, c.enc key [] (rnd.take 32) ((rnd.drop 44).take 12) = some encKey → encKey.length < 65536)
    (hplen : p.length < 2^64)
    (hnm : matchKind .block m = false) (hnr : registryMatch m = false)
    (hp : protect c kvW .block m rnd = .ok p)
    (hdisj : ∀ ks, pk.syms = some ks → key ∉ ks) :
    ∀ m', process c pk (p ++ suf) ≠ .ok m' := by
  obtain ⟨e, he, _, rfl⟩ := c01_protect_ok hp hnm hnr
  obtain ⟨key', hk', hcb⟩ := c01_encryptKind_block he hnm
  have hkk : key = key' := Option.some.inj (hW.symm.trans hk')
  subst hkk
  rw [c01_serBytes_length] at hplen
  exact createBlock_not_opened c hs hcm pk key m rnd e suf hkid hEncKey (by omega) hcb hdisj

/-- a key view without private and without symmetric keys decrypts nothing -/
theorem process_no_keys (c : CryptoOps) (kv : KeyView) (hp : kv.privs = none) (hs : kv.syms = none)
    (d m : Bytes) : process c kv d ≠ .ok m := by
  intro h
  obtain ⟨k, i, _, hk⟩ := process_ok h
  cases k with
  | block =>
    obtain ⟨_, _, _, ks, hks, _⟩ := decryptKind_block_ok hk
    rw [hs] at hks; cases hks
  | struct =>
    obtain ⟨ps, hps, _⟩ := decryptKind_struct_ok hk
    rw [hp] at hps; cases hps

/-! ## sufficient conditions for being a non-owner -/

/-- a reader whose key store has no keys at all is a non-owner – no assumption about the crypto -/
theorem nonOwner_of_no_keys (c : CryptoOps) (kvW kvR : KeyView) (cfg : MaskCfg) (v rnd p : Bytes)
    (hnm : matchKind cfg.kind (hiddenPart cfg v) = false) (hnr : registryMatch (hiddenPart cfg v) = false)
    (hp : protect c kvW cfg.kind (hiddenPart cfg v) rnd = .ok p) (hplen : p.length < 2^63)
    (hpc : cfg.pattern.length ≤ 12 ∨ cfg.pattern ≠ p ++ afterContainer cfg (windowPart cfg v))
    (hR : kvR.privs = none ∧ kvR.syms = none) : NonOwnerHyps c kvW kvR cfg v rnd p :=
  ⟨hnm, hnr, hp, hplen, fun m => process_no_keys c kvR hR.1 hR.2 _ m, hpc⟩

/-- under key commitment (`SealLaws` + `SealCommit`) a reader whose symmetric keys do not include the
writer's key is a non-owner of an AcraBlock-masked value -/
theorem nonOwner_of_commit (c : CryptoOps) (hs : SealLaws c) (hcm : SealCommit c) (kvW kvR : KeyView) (cfg : MaskCfg)
    (v rnd p key : Bytes) (hkind : cfg.kind = .block)
    (hW : kvW.sym = some key) (hkid : (keyId c key []).length = 2)
    (hEncKey : ∀ encKey, c.enc key [] (rnd.take 32) ((rnd.drop 44).take 12) = some encKey → encKey.length < 65536)
    (hnm : matchKind cfg.kind (hiddenPart cfg v) = false) (hnr : registryMatch (hiddenPart cfg v) = false)
    (hp : protect c kvW cfg.kind (hiddenPart cfg v) rnd = .ok p) (hplen : p.length < 2^63)
    (hpc : cfg.pattern.length ≤ 12 ∨ cfg.pattern ≠ p ++ afterContainer cfg (windowPart cfg v))
    (hdisj : ∀ ks, kvR.syms = some ks → key ∉ ks) : NonOwnerHyps c kvW kvR cfg v rnd p := by
  refine ⟨hnm, hnr, hp, hplen, ?_, hpc⟩
  rw [hkind] at hnm hp
  exact protect_block_not_opened c hs hcm kvW kvR key _ rnd p _ hW hkid hEncKey (by omega) hnm hnr hp hdisj

end AcraModel.Envelope
