import AcraModel.Envelope.SafeGenuine
/-!
Output size under the length law of the seal (`SealLen`, satisfied by the real back end's algorithm):
a revealed plaintext is at least 44 bytes shorter than its envelope, so `OnColumn` with the decrypt
callback never grows a value (helpers for C03 / C14).
-/
namespace AcraModel.Envelope
open AcraModel Generated

theorem wrap_sub (L : Nat) (h1 : 12 ≤ L) (h2 : L < 2^64) : (L + 2^64 - 12) % 2^64 = L - 12 := by
  have e : L + 2^64 - 12 = (L - 12) + 2^64 := by omega
  rw [e, Nat.add_mod_right, Nat.mod_eq_of_lt (by omega)]

theorem containerInternalLength_val {d : Bytes} {n : Nat} (h : containerInternalLength d = .ok n)
    (h1 : 12 ≤ leVal ((d.take 11).drop 3)) : n = leVal ((d.take 11).drop 3) - 12 := by
  unfold containerInternalLength at h
  cases hg : goSlice d containerTag.length (containerTag.length + Layout.containerLengthSize) with
  | panic => rw [hg] at h; cases h
  | err => rw [hg] at h; cases h
  | ok lb =>
    rw [hg, Out.bind_ok] at h
    obtain ⟨_, hn⟩ := ite_err_pure_ok h
    obtain ⟨_, _, hlb⟩ := goSlice_eq_ok hg
    have hlb' : lb = (d.take 11).drop 3 := hlb
    have hlt : leVal lb < 2^64 := by
      have := leVal_lt lb
      have hl := goSlice_length hg
      have hl' : lb.length = 8 := hl
      rw [hl'] at this
      exact this
    rw [← hn, show containerMin = 12 from rfl, wrap_sub _ (by rw [hlb']; exact h1) hlt, hlb']

/-- for a serialized container the internal envelope is at most `declared length - 12` bytes long -/
theorem deserialize_container_length {d i : Bytes} {id id' : UInt8} (hv : validateContainer d = .ok id)
    (hd : deserialize d = .ok (i, id')) (h1 : 12 ≤ leVal ((d.take 11).drop 3)) :
    i.length ≤ leVal ((d.take 11).drop 3) - 12 := by
  unfold deserialize at hd
  have hg : getEnvelopeID d = .ok (id, false) := by unfold getEnvelopeID; rw [hv]
  rw [hg] at hd
  simp only [Out.bind_ok, Bool.false_eq_true, if_false] at hd
  cases hc : containerInternalLength d with
  | panic => rw [hc] at hd; cases hd
  | err => rw [hc] at hd; cases hd
  | ok n =>
    rw [hc, Out.bind_ok] at hd
    cases hs : goSliceFrom d containerMin with
    | panic => rw [hs] at hd; cases hd
    | err => rw [hs] at hd; cases hd
    | ok r =>
      rw [hs] at hd
      simp only [Out.bind_ok, Out.pure_eq, Out.ok.injEq, Prod.mk.injEq] at hd
      rw [← hd.1, List.length_take, ← containerInternalLength_val hc h1]
      exact Nat.min_le_left _ _

/-- under `SealLaws` + `SealLen` whatever a handler decrypts is 44 bytes shorter than the envelope -/
theorem decryptKind_length {c : CryptoOps} (hs : SealLaws c) (hl : SealLen c) {kv : KeyView} {k : Kind} {i m : Bytes}
    (h : decryptKind c kv k i = .ok m) : m.length + sealOverhead ≤ i.length := by
  cases k with
  | block =>
    obtain ⟨_, _, _, ks, _, hdec⟩ := decryptKind_block_ok h
    obtain ⟨_, _, _, key, _, dek, _, _, hd⟩ := decryptBlock_ok_parts hdec
    obtain ⟨n, _, e⟩ := hs.enc_of_dec _ _ _ _ hd
    have := hl.enc_len _ _ _ _ _ e
    unfold blockEncData at this
    rw [List.length_drop] at this
    omega
  | struct =>
    obtain ⟨ps, _, priv, _, hdec⟩ := decryptKind_struct_ok h
    obtain ⟨_, symKey, _, _, hd⟩ := decryptStruct_ok_parts hdec
    obtain ⟨n, _, e⟩ := hs.enc_of_dec _ _ _ _ hd
    have := hl.enc_len _ _ _ _ _ e
    rw [List.length_drop] at this
    omega

/-- **Reveal never grows a value**: the plaintext is at least 44 bytes shorter than the input. -/
theorem process_length {c : CryptoOps} (hs : SealLaws c) (hl : SealLen c) {kv : KeyView} {d m : Bytes}
    (h : process c kv d = .ok m) : m.length + sealOverhead ≤ d.length := by
  obtain ⟨k, i, hd, hk⟩ := process_ok h
  have := decryptKind_length hs hl hk
  have := deserialize_length hd
  omega

/-- the scan never grows a value if every replacement is at most as long as the container it replaces -/
theorem scan_output_le_input (cbs : List Callback)
    (hrep : ∀ d n cont p, startsWith containerTag d = true → extractContainer d = .ok (n, cont) →
      runCallbacks cont cbs = .replace p → 0 < n → p.length ≤ n.toNat) (rest : Bytes) :
    ∀ out hit, scan cbs rest = .ok out hit → out.length ≤ rest.length := by
  have step : ∀ (b : UInt8) (r o' : Bytes), o'.length ≤ r.length → ([b] ++ o').length ≤ (b :: r).length := by
    intro b r o' h
    simp only [List.length_append, List.length_cons, List.length_nil]
    omega
  induction rest using scan.induct cbs with
  | case1 => intro out hit e; rw [scan.eq_1] at e; cases e; simp
  | case2 b r h ih =>
    intro out hit e; rw [scan.eq_2, if_pos h] at e
    obtain ⟨o', h', e1, rfl, _⟩ := prepend_eq_ok e
    exact step b r o' (ih o' h' e1)
  | case3 b r h he => exact absurd he (extractContainer_ne_panic _)
  | case4 b r h he ih =>
    intro out hit e; rw [scan.eq_2, if_neg h, he] at e
    obtain ⟨o', h', e1, rfl, _⟩ := prepend_eq_ok e
    exact step b r o' (ih o' h' e1)
  | case5 b r h n cont he hr => intro out hit e; rw [scan.eq_2, if_neg h, he] at e; simp only [hr] at e; cases e
  | case6 b r h n cont he hr ih =>
    intro out hit e; rw [scan.eq_2, if_neg h, he] at e; simp only [hr] at e
    obtain ⟨o', h', e1, rfl, _⟩ := prepend_eq_ok e
    exact step b r o' (ih o' h' e1)
  | case7 b r h n cont he p hr hn ih =>
    intro out hit e; rw [scan.eq_2, if_neg h, he] at e; simp only [hr] at e; rw [dif_pos hn] at e
    obtain ⟨o', h', e1, rfl, _⟩ := prepend_eq_ok e
    have h1 := ih o' h' e1
    have hp := hrep _ n cont p (by simpa using h) he hr hn.1
    rw [List.length_drop] at h1
    rw [List.length_append]
    omega
  | case8 b r h n cont he p hr hn =>
    intro out hit e; rw [scan.eq_2, if_neg h, he] at e; simp only [hr] at e; rw [dif_neg hn] at e; cases e

theorem runCallbacks_decrypt_replace {c : CryptoOps} {kv : KeyView} {cont p : Bytes}
    (h : runCallbacks cont [decryptCallback c kv] = .replace p) : process c kv cont = .ok p := by
  simp only [runCallbacks, decryptCallback] at h
  cases hp : process c kv cont with
  | ok m =>
    rw [hp] at h
    by_cases e : (m == cont) = true
    · simp [e] at h
    · simp [e] at h; rw [h]
  | err => rw [hp] at h; simp at h
  | panic => rw [hp] at h; simp at h

/-- with the decrypt callback every replacement is shorter than the declared container length -/
theorem decrypt_replace_le {c : CryptoOps} (hs : SealLaws c) (hl : SealLen c) (kv : KeyView)
    (d : Bytes) (n : Int) (cont p : Bytes) (hst : startsWith containerTag d = true)
    (he : extractContainer d = .ok (n, cont)) (hr : runCallbacks cont [decryptCallback c kv] = .replace p)
    (hn : 0 < n) : p.length ≤ n.toNat := by
  have h3 := startsWith_containerTag hst
  have hp := runCallbacks_decrypt_replace hr
  rcases extractContainer_ok he with ⟨id, hv, hc, h1, h2, hnn⟩ | ⟨_, id, hm, _⟩
  · subst hc
    obtain ⟨k, i, hd, hk⟩ := process_ok hp
    have hi := deserialize_container_length hv hd h1
    have hm := decryptKind_length hs hl hk
    have hL : leVal ((cont.take 11).drop 3) < 2^63 := by
      rw [hnn] at hn
      unfold toInt64 at hn
      have hlt : leVal ((cont.take 11).drop 3) < 2^64 := by
        have := leVal_lt ((cont.take 11).drop 3)
        have hl8 : ((cont.take 11).drop 3).length = 8 := by
          have := (validateContainer_ok hv).1
          rw [List.length_drop, List.length_take]; omega
        rw [hl8] at this; exact this
      rw [Nat.mod_eq_of_lt hlt] at hn
      split at hn
      · assumption
      · omega
    rw [hnn, toInt64_of_lt hL]
    have : sealOverhead = 44 := rfl
    omega
  · rw [matchOld_of_containerTag h3] at hm; cases hm

theorem scan_decrypt_le {c : CryptoOps} (hs : SealLaws c) (hl : SealLen c) (kv : KeyView) (rest out : Bytes)
    (hit : Bool) (h : scan [decryptCallback c kv] rest = .ok out hit) : out.length ≤ rest.length :=
  scan_output_le_input _ (decrypt_replace_le hs hl kv) rest out hit h

end AcraModel.Envelope
