import AcraModel.Envelope.ScanLemmas
import AcraModel.Envelope.SafeContainer
import AcraModel.Envelope.SafeUnchanged
/-!
`windowOk w rest`: the column scan (`EnvelopeDetector.OnColumn`) passes over every position inside `w`
when `w` is followed by `rest` – at no such position does `ExtractSerializedContainer` succeed. Stated
with the model's own decode attempt, executable, independent of the callbacks. Used by C11 (clear
windows that contain `%`) and C01 (bare envelopes whose ciphertext the scan runs over).
-/
namespace AcraModel.Envelope
open AcraModel Generated

/-- the column scan passes over the position whose remaining buffer is `d`, whatever the callbacks are:
`d` does not start with the container tag, or `ExtractSerializedContainer(d)` fails -/
def skipHere (d : Bytes) : Bool :=
  !startsWith containerTag d ||
    (match extractContainer d with
     | .err => true
     | _ => false)

/-- every position inside `w`, read in front of `rest`, is passed over -/
def windowOk (w rest : Bytes) : Bool := (List.range w.length).all (fun i => skipHere ((w ++ rest).drop i))

theorem headStep_of_skipHere (cbs : List Callback) {d : Bytes} (h : skipHere d = true) :
    headStep cbs d = .skip false := by
  unfold skipHere at h
  unfold headStep
  by_cases ht : (!startsWith containerTag d) = true
  · rw [if_pos ht]
  · rw [if_neg ht]
    simp only [ht, Bool.false_or] at h
    cases hx : extractContainer d with
    | err => rfl
    | panic => rw [hx] at h; cases h
    | ok v => rw [hx] at h; cases h

theorem windowOk_skip (cbs : List Callback) {w rest : Bytes} (h : windowOk w rest = true) :
    ∀ i, i < w.length → ∃ hit, headStep cbs ((w ++ rest).drop i) = .skip hit := by
  intro i hi
  unfold windowOk at h
  rw [List.all_eq_true] at h
  exact ⟨false, headStep_of_skipHere cbs (h i (List.mem_range.2 hi))⟩

theorem windowOk_nil (rest : Bytes) : windowOk [] rest = true := rfl

theorem windowOk_of (w rest : Bytes) (h : ∀ i, i < w.length → skipHere ((w ++ rest).drop i) = true) :
    windowOk w rest = true := by
  unfold windowOk
  rw [List.all_eq_true]
  intro i hi
  exact h i (List.mem_range.1 hi)

theorem skipHere_of_head_ne (x : UInt8) (r : Bytes) (hx : x ≠ 37) : skipHere (x :: r) = true := by
  unfold skipHere
  have ht : containerTag = [37, 37, 37] := by decide
  have : startsWith containerTag (x :: r) = false := by
    unfold startsWith
    rw [ht]
    simp [hx]
  simp [this]

/-- a window without `%` is passed over, whatever follows it -/
theorem windowOk_of_noPct (w rest : Bytes) (h : ∀ x ∈ w, x ≠ 37) : windowOk w rest = true := by
  apply windowOk_of
  intro i hi
  have hi' : i < (w ++ rest).length := by rw [List.length_append]; omega
  rw [List.drop_eq_getElem_cons hi']
  apply skipHere_of_head_ne
  rw [List.getElem_append_left hi]
  exact h _ (List.getElem_mem hi)

/-- a position that starts with the container tag but is too short for a container, or whose would-be
envelope id (byte 11) is not registered, is passed over -/
theorem skipHere_of_bad_header {d : Bytes} (h : d.length ≤ 12 ∨ kindOfId (d.getD 11 0) = none) : skipHere d = true := by
  unfold skipHere
  by_cases ht : startsWith containerTag d = true
  · have ht3 := startsWith_containerTag ht
    have hv : validateContainer d = .err := by
      rw [validateContainer_eq]
      rcases h with h | h
      · rw [if_pos h]
      · by_cases hl : d.length ≤ 12
        · rw [if_pos hl]
        · rw [if_neg hl, if_neg (by simpa using ht3), h]
    have hx : extractContainer d = .err := by
      unfold extractContainer
      rw [hv, matchOld_of_containerTag ht3]
    simp [hx]
  · simp [ht]

/-- bytes after the container (right window): fewer than 13 of them can never form a container -/
theorem windowOk_short (w : Bytes) (h : w.length ≤ 12) : windowOk w [] = true := by
  apply windowOk_of
  intro i _
  apply skipHere_of_bad_header
  left
  rw [List.append_nil, List.length_drop]
  omega

/-- a buffer the scan passes over completely comes back unchanged and no envelope was seen -/
theorem scan_windowOk (cbs : List Callback) (buf : Bytes) (h : windowOk buf [] = true) : scan cbs buf = .ok buf false := by
  induction buf with
  | nil => exact c01_scan_nil cbs
  | cons b r ih =>
    unfold windowOk at h
    rw [List.all_eq_true] at h
    have h0 := h 0 (List.mem_range.2 (by simp))
    simp only [List.append_nil, List.drop_zero] at h0
    have hr : windowOk r [] = true := by
      apply windowOk_of
      intro i hi
      have := h (i + 1) (List.mem_range.2 (by simp; omega))
      simpa using this
    rw [c01_scan_skip (headStep_of_skipHere cbs h0), ih hr]
    rfl

end AcraModel.Envelope
