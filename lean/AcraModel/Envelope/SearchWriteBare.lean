import AcraModel.Envelope.SearchWriteLemmas
import AcraModel.Envelope.SafeCompatSame
import AcraModel.Envelope.WindowOk
/-!
Bare (old-style) envelopes on the searchable write path (C01): an AcraStruct as AcraWriter produces it
and a raw AcraBlock are recognised by the registry handler through `matchOldContainer`, are opened by
`RegistryHandler.Process` without a container around them, and are recognised by the column matcher
`EnvelopeMatcher.Match`.
-/
namespace AcraModel.Searchable
open AcraModel AcraModel.Envelope Generated

theorem validateContainer_err_of_tag {d : Bytes} (h : d.take 3 ≠ containerTag) : validateContainer d = .err := by
  rw [validateContainer_eq]
  by_cases hl : d.length ≤ 12
  · rw [if_pos hl]
  · rw [if_neg hl, if_pos h]

theorem take3_of_take8 {d : Bytes} (h : d.take 8 = structTag) : d.take 3 ≠ containerTag := by
  have : d.take 3 = (d.take 8).take 3 := by rw [List.take_take]; rfl
  rw [this, h]
  decide

theorem take3_of_take4 {d : Bytes} (h : d.take 4 = blockTag) : d.take 3 ≠ containerTag := by
  have : d.take 3 = (d.take 4).take 3 := by rw [List.take_take]; rfl
  rw [this, h]
  decide

/-- `getEnvelopeIDFromData` / `DeserializeEncryptedData` on a bare AcraStruct: the old form matches, the
whole value is the envelope -/
theorem deserialize_bare_struct {e : Bytes} (hv : validateStruct e = .ok ()) :
    getEnvelopeID e = .ok (idStruct, true) ∧ deserialize e = .ok (e, idStruct) := by
  obtain ⟨h145, h8, _⟩ := validateStruct_ok hv
  have hvc := validateContainer_err_of_tag (take3_of_take8 h8)
  have hmo : ∃ n, matchOld e = .ok (idStruct, n) := by
    unfold matchOld
    rw [hv]
    simp only
    rw [getDataLength_eq e h145]
    exact ⟨_, rfl⟩
  obtain ⟨n, hn⟩ := hmo
  have hg : getEnvelopeID e = .ok (idStruct, true) := by
    unfold getEnvelopeID
    rw [hvc, hn]
  refine ⟨hg, ?_⟩
  unfold deserialize
  rw [hg]
  rfl

/-- the registry handler recognises a bare AcraStruct and opens it like the struct handler does -/
theorem bare_struct_registry (c : CryptoOps) (kv : KeyView) (e : Bytes) (hv : validateStruct e = .ok ()) :
    registryMatch e = true ∧ process c kv e = decryptKind c kv .struct e := by
  obtain ⟨hg, hd⟩ := deserialize_bare_struct hv
  have hmk : matchKind .struct e = true := by unfold matchKind; rw [hv]; rfl
  have hk : kindOfId idStruct = some .struct := by decide
  refine ⟨?_, ?_⟩
  · unfold registryMatch
    rw [hd]
    simp only [hk, hmk]
  · unfold process
    rw [hg]
    simp only [Out.bind_ok, hk]
    unfold decryptWithHandler
    rw [hd]
    simp only [Out.bind_ok, hmk, Bool.not_true, Bool.false_eq_true, if_false]

/-- the same for a raw AcraBlock (that is not at the same time a well-formed AcraStruct – an AcraBlock
whose length field spells the second half of the AcraStruct tag would have to be longer than 572 MB) -/
theorem deserialize_bare_block {e b : Bytes} {n : Nat} (hns : validateStruct e = .err)
    (hx : extractBlock e = .ok (n, b)) :
    getEnvelopeID e = .ok (idBlock, true) ∧ deserialize e = .ok (e, idBlock) := by
  obtain ⟨_, hh, _, _⟩ := extractBlock_ok hx
  have h4 := ((blockHeaderOk_iff e).1 hh).1
  have hvc := validateContainer_err_of_tag (take3_of_take4 h4)
  have hmo : matchOld e = .ok (idBlock, (n : Int)) := by
    unfold matchOld
    rw [hns, hx]
  have hg : getEnvelopeID e = .ok (idBlock, true) := by
    unfold getEnvelopeID
    rw [hvc, hmo]
  refine ⟨hg, ?_⟩
  unfold deserialize
  rw [hg]
  rfl

theorem bare_block_registry (c : CryptoOps) (kv : KeyView) (e b : Bytes) (n : Nat) (hns : validateStruct e = .err)
    (hx : extractBlock e = .ok (n, b)) :
    registryMatch e = true ∧ process c kv e = decryptKind c kv .block e := by
  obtain ⟨hg, hd⟩ := deserialize_bare_block hns hx
  have hmk : matchKind .block e = true := by unfold matchKind; rw [hx]; rfl
  have hk : kindOfId idBlock = some .block := by decide
  refine ⟨?_, ?_⟩
  · unfold registryMatch
    rw [hd]
    simp only [hk, hmk]
  · unfold process
    rw [hg]
    simp only [Out.bind_ok, hk]
    unfold decryptWithHandler
    rw [hd]
    simp only [Out.bind_ok, hmk, Bool.not_true, Bool.false_eq_true, if_false]

/-! ## the legacy scans on a buffer that IS one bare envelope -/

theorem wrapInt64_nat {n : Nat} (h : n < 2^63) : wrapInt64 (n : Int) = (n : Int) := by
  unfold wrapInt64
  have h1 : ((n : Int) % (2:Int)^64).toNat = n := by
    have : (n : Int) % (2:Int)^64 = (n : Int) := Int.emod_eq_of_lt (by omega) (by omega)
    rw [this]; simp
  rw [h1, toInt64_of_lt h]

theorem startsWith_of_take {p d : Bytes} (h : d.take p.length = p) : startsWith p d = true := by
  unfold startsWith
  simp [h]

/-- `ProcessAcraStructs` on a buffer that is exactly one well-formed AcraStruct (with a non-empty
payload): the processor is called once, with the whole buffer -/
theorem processStructs_head (proc : Bytes → Out Bytes) (e p : Bytes) (hv : validateStruct e = .ok ())
    (hgt : structMin < e.length) (hl : e.length < 2^63) (hp : proc e = .ok p) :
    processStructs proc e = .ok p := by
  obtain ⟨h145, h8, hdl⟩ := validateStruct_ok hv
  cases e with
  | nil => simp at h145
  | cons b r =>
    have hst : startsWith structTag (b :: r) = true := startsWith_of_take (by rw [c01_structTag_length]; exact h8)
    have hlen : wrapInt64 (toInt64 (structDL (b :: r)) + (structMin : Int)) = ((b :: r).length : Int) := by
      rw [hdl, toInt64_of_lt (by omega)]
      have : (((b :: r).length - 145 : Nat) : Int) + (structMin : Int) = (((b :: r).length : Nat) : Int) := by
        rw [structMin_eq]; omega
      rw [this]
      exact wrapInt64_nat hl
    rw [processStructs.eq_2]
    simp only [hst, Bool.not_true, Bool.false_eq_true, if_false]
    rw [if_pos hgt, getDataLength_eq _ h145]
    simp only [hlen]
    rw [dif_pos ⟨by omega, by omega⟩]
    simp only [Int.toNat_natCast, List.take_length, hp, List.drop_length]
    rw [processStructs.eq_1]
    simp [Out.bind]

/-- `ProcessAcraBlocks` on a buffer that is exactly one AcraBlock -/
theorem processBlocks_head (proc : Bytes → Out Bytes) (e p : Bytes) (hx : extractBlock e = .ok (e.length, e))
    (hgt : blockMin < e.length) (hp : proc e = .ok p) : processBlocks proc e = .ok p := by
  obtain ⟨h18, hh, hn, _⟩ := extractBlock_ok hx
  have h4 := ((blockHeaderOk_iff e).1 hh).1
  have hr := ((blockHeaderOk_iff e).1 hh).2.1
  cases e with
  | nil => simp at h18
  | cons b r =>
    have hst : startsWith blockTag (b :: r) = true := startsWith_of_take (by rw [c01_blockTag_length]; exact h4)
    rw [processBlocks.eq_2]
    simp only [hst, Bool.not_true, Bool.false_eq_true, if_false]
    rw [if_pos hgt, hx]
    simp only
    rw [dif_pos ⟨by omega, by omega⟩]
    simp only [hp, List.drop_length]
    rw [processBlocks.eq_1]
    simp [Out.bind]

theorem bump_ok (x : Bytes) : ∃ y, bump x = .ok y := ⟨0 :: x, rfl⟩

theorem scan_allSame (buf : Bytes) : ∃ hit, scan [fun _ => Cb.same, fun _ => Cb.same] buf = .ok buf hit := by
  apply scan_same
  intro i _ _ n cont _
  apply runCallbacks_all_same
  intro cb hcb
  simp only [List.mem_cons, List.not_mem_nil, or_false] at hcb
  rcases hcb with rfl | rfl <;> rfl

theorem onColumn_allSame (buf : Bytes) : ∃ hit, onColumn [fun _ => Cb.same, fun _ => Cb.same] buf = .ok buf hit := by
  unfold onColumn
  split
  · exact ⟨false, rfl⟩
  · exact scan_allSame buf

/-- `EnvelopeMatcher.Match` recognises a buffer that is one bare AcraStruct -/
theorem matchEnvelope_bare_struct (e : Bytes) (hv : validateStruct e = .ok ()) (hgt : structMin < e.length)
    (hl : e.length < 2^63) : matchEnvelope e = .ok true := by
  obtain ⟨hit, hon⟩ := onColumn_allSame e
  unfold matchEnvelope
  rw [hon]
  cases hit with
  | true => rfl
  | false =>
    simp only
    rw [if_neg (by omega), processStructs_head bump e (0 :: e) hv hgt hl rfl]
    simp

/-- … and one that is one bare AcraBlock -/
theorem matchEnvelope_bare_block (e : Bytes) (hx : extractBlock e = .ok (e.length, e)) (hgt : blockMin < e.length) :
    matchEnvelope e = .ok true := by
  obtain ⟨hit, hon⟩ := onColumn_allSame e
  obtain ⟨h18, _, _, _⟩ := extractBlock_ok hx
  unfold matchEnvelope
  rw [hon]
  cases hit with
  | true => rfl
  | false =>
    simp only
    have hs : ∃ o1, (if e.length < structMin then Out.ok e else processStructs bump e) = .ok o1 := by
      split
      · exact ⟨e, rfl⟩
      · exact processStructs_ok bump (fun x _ => bump_ok x) e
    obtain ⟨o1, ho1⟩ := hs
    rw [ho1]
    simp only
    by_cases hne : o1.length ≠ e.length
    · rw [if_pos hne]
    · rw [if_neg hne, if_neg (by show ¬ e.length < 18; omega), processBlocks_head bump e (0 :: e) hx hgt rfl]
      simp

/-! ## the owner's detector chain on a bare envelope -/

theorem onBare_decrypt_open (c : CryptoOps) (kv : KeyView) (k : Kind) (e m : Bytes) (he : e ≠ [])
    (hlen : e.length + 12 < 2^64) (hmk : matchKind k e = true) (hd : decryptKind c kv k e = .ok m)
    (hne : m ≠ serBytes e k.id) :
    onBare [fun _ => Cb.same, decryptCallback c kv] k.id e = .ok m := by
  have hproc : process c kv (serBytes e k.id) = .ok m := by
    have := c01_process_ser c kv k e [] he hlen hmk
    rw [List.append_nil] at this
    rw [this, hd]
  have hcb : decryptCallback c kv (serBytes e k.id) = .replaced m := by
    unfold decryptCallback
    rw [hproc]
    simp [hne]
  unfold onBare
  rw [c01_serialize_eq k.id he]
  simp only [Out.bind_ok, onCryptoEnvelope, hcb]
  have : (m == serBytes e k.id) = false := by simpa using hne
  simp [this]

theorem onColumn_windowOk (cbs : List Callback) (e : Bytes) (hw : windowOk e [] = true) : onColumn cbs e = .ok e false := by
  unfold onColumn
  split
  · rfl
  · exact scan_windowOk cbs e hw

/-- the owner's chain (`OldContainerDetectorWrapper` + decrypt handler) on a column that is one bare
AcraStruct. `hw`: the container scan passes over the struct's bytes (no position of its ciphertext
decodes as a container start – in-band signalling, see C11); `hm`: the PLAINTEXT contains no bare
AcraBlock the reader can open (the legacy block scan runs over the output of the struct scan). -/
theorem clientDetector_bare_struct (c : CryptoOps) (kv : KeyView) (e m : Bytes)
    (hv : validateStruct e = .ok ()) (hgt : structMin < e.length) (hl : e.length + 12 < 2^63)
    (hd : decryptKind c kv .struct e = .ok m) (hne : m ≠ serBytes e idStruct)
    (hw : windowOk e [] = true)
    (hm : ∀ x id s, x <:+: m → serialize x id = .ok s → ∀ m', process c kv s ≠ .ok m') :
    clientDetector c kv e = .ok m false := by
  have he : e ≠ [] := by intro h; rw [h] at hgt; simp at hgt
  have hmk : matchKind .struct e = true := by unfold matchKind; rw [hv]; rfl
  unfold clientDetector
  rw [onColumnCompat_eq, onColumn_windowOk _ e hw]
  simp only [Bool.false_or, bne_self_eq_false, Bool.false_eq_true, if_false]
  unfold compatTail
  have hob : onBare [fun _ => Cb.same, decryptCallback c kv] idStruct e = .ok m :=
    onBare_decrypt_open c kv .struct e m he (by omega) hmk hd hne
  rw [if_neg (by omega), processStructs_head _ e m hv hgt (by omega) hob]
  simp only
  have e2 : (if m.length < blockMin then Out.ok m
      else processBlocks (onBare [fun _ => Cb.same, decryptCallback c kv] idBlock) m) = .ok m := by
    split
    · rfl
    · exact processBlocks_same _ m fun x hx hne' => onBare_decrypt_same c kv _ x hne' (fun s hs => hm x _ s hx hs)
  rw [e2]

/-- the owner's chain on a column that is one raw AcraBlock. `hw` as above; `hs`: no part of the block,
wrapped as an AcraStruct container, is something the reader can open (the legacy struct scan runs over
the block first). -/
theorem clientDetector_bare_block (c : CryptoOps) (kv : KeyView) (e m : Bytes)
    (hx : extractBlock e = .ok (e.length, e)) (hgt : blockMin < e.length) (hl : e.length + 12 < 2^63)
    (hd : decryptKind c kv .block e = .ok m) (hne : m ≠ serBytes e idBlock)
    (hw : windowOk e [] = true)
    (hs : ∀ x s, x <:+: e → serialize x idStruct = .ok s → ∀ m', process c kv s ≠ .ok m') :
    clientDetector c kv e = .ok m false := by
  obtain ⟨h18, _, _, _⟩ := extractBlock_ok hx
  have he : e ≠ [] := by intro h; rw [h] at h18; simp at h18
  have hmk : matchKind .block e = true := by unfold matchKind; rw [hx]; rfl
  unfold clientDetector
  rw [onColumnCompat_eq, onColumn_windowOk _ e hw]
  simp only [Bool.false_or, bne_self_eq_false, Bool.false_eq_true, if_false]
  unfold compatTail
  have e1 : (if e.length < structMin then Out.ok e
      else processStructs (onBare [fun _ => Cb.same, decryptCallback c kv] idStruct) e) = .ok e := by
    split
    · rfl
    · exact processStructs_same _ e fun x hx' hne' => onBare_decrypt_same c kv _ x hne' (fun s hs' => hs x s hx' hs')
  rw [e1]
  simp only
  have hob : onBare [fun _ => Cb.same, decryptCallback c kv] idBlock e = .ok m :=
    onBare_decrypt_open c kv .block e m he (by omega) hmk hd hne
  rw [if_neg (by show ¬ e.length < 18; omega), processBlocks_head _ e m hx hgt hob]

/-- a reader without private keys opens nothing that is wrapped as an AcraStruct container (discharges
`hs` of `clientDetector_bare_block` for clients that only use the symmetric envelope) -/
theorem process_struct_container_no_privs (c : CryptoOps) (kv : KeyView) (hp : kv.privs = none) (x s : Bytes)
    (hlen : x.length + 12 < 2^64) (hser : serialize x idStruct = .ok s) : ∀ m, process c kv s ≠ .ok m := by
  intro m hpm
  obtain ⟨hxne, rfl⟩ := c01_serialize_ok hser
  obtain ⟨k, i, hd, hk⟩ := process_ok hpm
  have hds := c01_deserialize_ser (id := idStruct) (k := .struct) [] hxne (by decide) hlen
  rw [List.append_nil] at hds
  rw [hds] at hd
  simp only [Out.ok.injEq, Prod.mk.injEq] at hd
  obtain ⟨rfl, hid⟩ := hd
  cases k with
  | block => exact absurd hid (by decide)
  | struct =>
    obtain ⟨ps, hps, _⟩ := decryptKind_struct_ok hk
    rw [hp] at hps
    cases hps

/-- a plaintext shorter than an AcraBlock contains nothing the legacy scans could open (discharges `hm`
of `clientDetector_bare_struct` for short plaintexts) -/
theorem short_plain_not_opened (c : CryptoOps) (kv : KeyView) (m : Bytes) (h : m.length < 18) :
    ∀ x id s, x <:+: m → serialize x id = .ok s → ∀ m', process c kv s ≠ .ok m' := by
  intro x id s hx hs
  exact process_serialized_short c kv x s id (by have := infix_length_le hx; omega) hs

end AcraModel.Searchable
