import AcraModel.Envelope.TranslatorLemmas
import AcraModel.Envelope.SafeDetector
/-!
Lemmas for the searchable write path with values that arrive ALREADY protected (C01, shared with C09):
`EnvelopeMatcher.Match` recognises a serialized container, and what `searchableEncrypt` computes in
its "value already is an envelope" branch.
-/
namespace AcraModel.Searchable
open AcraModel AcraModel.Envelope Generated

/-- callbacks that always answer "unchanged" never replace anything -/
theorem runCallbacks_all_same (cont : Bytes) : ∀ (cbs : List Callback), (∀ cb ∈ cbs, cb cont = .same) →
    runCallbacks cont cbs = .skip
  | [], _ => rfl
  | cb :: rest, h => by
    unfold runCallbacks
    rw [h cb List.mem_cons_self]
    exact runCallbacks_all_same cont rest (fun c hc => h c (List.mem_cons_of_mem _ hc))

/-- `EnvelopeMatcher.Match` answers `true` for every serialized container (followed by anything): the
scan recognises the container at position 0 and sets the "envelope seen" flag. -/
theorem matchEnvelope_ser (e suf : Bytes) (id : UInt8) (k : Kind) (he : e ≠ []) (hk : kindOfId id = some k)
    (hlen : e.length + 12 < 2^63) : matchEnvelope (serBytes e id ++ suf) = .ok true := by
  have hall : ∀ cont, ∀ cb ∈ [fun (_ : Bytes) => Cb.same, fun _ => Cb.same], cb cont = .same := by
    intro cont cb hcb
    simp only [List.mem_cons, List.not_mem_nil, or_false] at hcb
    rcases hcb with rfl | rfl <;> rfl
  have hl : containerMin ≤ (serBytes e id ++ suf).length := by
    rw [List.length_append, c01_serBytes_length]
    show 12 ≤ _
    omega
  have hx := c01_extractContainer_ser (id := id) (k := k) suf he hk hlen
  obtain ⟨b, r, hbr⟩ : ∃ b r, serBytes e id ++ suf = b :: r := by
    cases hq : serBytes e id ++ suf with
    | nil => rw [hq] at hl; simp at hl; exact absurd hl (by decide)
    | cons b r => exact ⟨b, r, rfl⟩
  have htag : startsWith containerTag (serBytes e id ++ suf) = true := by
    unfold startsWith serBytes
    simp
  have hhead : headStep [fun _ => Cb.same, fun _ => Cb.same] (b :: r) = .skip true := by
    rw [← hbr]
    unfold headStep
    simp only [htag, Bool.not_true, Bool.false_eq_true, if_false, hx, runCallbacks_all_same _ _ (hall _)]
  obtain ⟨hit, hrest⟩ := scan_same [fun _ => Cb.same, fun _ => Cb.same] r
    (fun i _ _ n cont _ => runCallbacks_all_same cont _ (hall cont))
  have hscan : scan [fun _ => Cb.same, fun _ => Cb.same] (b :: r) = .ok (b :: r) true := by
    rw [c01_scan_skip hhead, hrest]
    simp [ScanOut.prepend]
  unfold matchEnvelope
  rw [c01_onColumn_scan _ _ (by simp) hl, hbr, hscan]

/-- the branch "value already is an envelope" of `SearchableDataEncryptor.EncryptWithClientID`: the hash
is the hash of what the value DECRYPTS to, the value itself is stored as it arrived -/
theorem searchableEncrypt_match (c : CryptoOps) (hk : Bytes) (kv : KeyView) (k : Kind) (e m rnd : Bytes)
    (hm : registryMatch e = true) (hd : process c kv e = .ok m) :
    searchableEncrypt c (some hk) kv k e rnd = .ok (generateHMAC c hk m ++ e) := by
  unfold searchableEncrypt
  simp only [hm, if_true, hd]

/-- … and it fails (nothing is stored) when the value cannot be decrypted for hashing -/
theorem searchableEncrypt_match_err (c : CryptoOps) (hk : Bytes) (kv : KeyView) (k : Kind) (e rnd : Bytes)
    (hm : registryMatch e = true) (hd : process c kv e = .err) :
    searchableEncrypt c (some hk) kv k e rnd = .err := by
  unfold searchableEncrypt
  simp only [hm, if_true, hd]

end AcraModel.Searchable
