import AcraModel.Envelope.Poison
import AcraModel.Envelope.ScanLemmas
import AcraModel.Envelope.SafeCompatSame
import AcraModel.Envelope.MaskLemmas
/-!
Lemmas about the traced column scan of `Poison.lean` (C15).

* `…_fst`: the output component of every traced function is the untraced function of `Detector.lean`
  run on the callbacks with their alarm bit dropped (`outCbs`) – so every C01/C03 theorem transfers.
* `…_alarm`: where an alarm can come from – if the alarm count of a traced function is positive, some
  callback raised its alarm bit on a container the function handed to it.
* lower bounds: an alarm raised at a position the scan reaches is never lost.
-/
namespace AcraModel.Envelope
open AcraModel Generated

/-! ## dropping the alarm bit -/

/-- a traced callback without its alarm bit -/
def outCb (f : CallbackT) : Callback := fun x => (f x).1
/-- a traced callback list without the alarm bits -/
def outCbs (cbs : List CallbackT) : List Callback := cbs.map outCb

theorem outCb_plainT (cb : Callback) : outCb (plainT cb) = cb := rfl

theorem outCbs_plainT (cbs : List Callback) : outCbs (cbs.map plainT) = cbs := by
  unfold outCbs
  rw [List.map_map]
  exact List.map_id _

theorem outCbs_cons (f : CallbackT) (cbs : List CallbackT) : outCbs (f :: cbs) = outCb f :: outCbs cbs := rfl

theorem outCbs_isEmpty (cbs : List CallbackT) : (outCbs cbs).isEmpty = cbs.isEmpty := by
  cases cbs <;> rfl

/-! ## the callback loop -/

theorem runCallbacksT_fst (cont : Bytes) (cbs : List CallbackT) :
    (runCallbacksT cont cbs).1 = runCallbacks cont (outCbs cbs) := by
  induction cbs with
  | nil => rfl
  | cons cb rest ih =>
    unfold outCbs at ih ⊢
    simp only [List.map_cons, runCallbacksT, runCallbacks, outCb]
    rcases h : cb cont with ⟨r, a⟩
    cases r <;> simp [ih]

/-- an alarm counted by the callback loop was raised by one of the callbacks on this container -/
theorem runCallbacksT_alarm (cont : Bytes) (cbs : List CallbackT) (h : 1 ≤ (runCallbacksT cont cbs).2) :
    ∃ f ∈ cbs, (f cont).2 = true := by
  induction cbs with
  | nil => simp [runCallbacksT] at h
  | cons cb rest ih =>
    by_cases ha : (cb cont).2 = true
    · exact ⟨cb, List.mem_cons_self, ha⟩
    · have ha' : (cb cont).2 = false := by simpa using ha
      have : 1 ≤ (runCallbacksT cont rest).2 := by
        simp only [runCallbacksT] at h
        rcases hc : cb cont with ⟨r, a⟩
        rw [hc] at h ha'
        simp only at ha'
        subst ha'
        cases r <;> simp at h <;> first | exact h | omega
      obtain ⟨f, hf, hfa⟩ := ih this
      exact ⟨f, List.mem_cons_of_mem _ hf, hfa⟩

/-- a callback list none of whose members ever raises the alarm -/
def Quiet (cbs : List CallbackT) : Prop := ∀ f ∈ cbs, ∀ x, (f x).2 = false

theorem quiet_plainT (cb : Callback) : ∀ x, (plainT cb x).2 = false := fun _ => rfl

theorem Quiet.cons {f : CallbackT} {cbs : List CallbackT} (hf : ∀ x, (f x).2 = false) (h : Quiet cbs) :
    Quiet (f :: cbs) := by
  intro g hg x
  rcases List.mem_cons.1 hg with rfl | hg
  · exact hf x
  · exact h g hg x

theorem Quiet.no_alarm {cbs : List CallbackT} (h : Quiet cbs) {x : Bytes} : ¬ ∃ f ∈ cbs, (f x).2 = true := by
  rintro ⟨f, hf, ha⟩
  rw [h f hf x] at ha
  cases ha

/-- the first callback that raises its alarm bit is reached when every callback before it answers
"unchanged" / "decryption error": the alarm is counted -/
theorem runCallbacksT_alarm_ge (cont : Bytes) (front : List CallbackT) (f : CallbackT) (rest : List CallbackT)
    (hfront : ∀ g ∈ front, (g cont).1 = .same ∨ (g cont).1 = .decErr) (hf : (f cont).2 = true) :
    1 ≤ (runCallbacksT cont (front ++ f :: rest)).2 := by
  induction front with
  | nil =>
    simp only [List.nil_append, runCallbacksT]
    rcases hc : f cont with ⟨r, a⟩
    rw [hc] at hf
    simp only at hf
    subst hf
    cases r <;> simp
  | cons g gs ih =>
    have ih' := ih (fun g' hg' => hfront g' (List.mem_cons_of_mem _ hg'))
    have hg := hfront g List.mem_cons_self
    simp only [List.cons_append, runCallbacksT]
    rcases hc : g cont with ⟨r, a⟩
    rw [hc] at hg
    simp only at hg
    rcases hg with rfl | rfl <;> simp <;> omega

/-! ## the scan loop -/

/-- alarms raised by the callbacks at the head position of `rest` -/
def headAlarms (cbs : List CallbackT) (rest : Bytes) : Nat :=
  if !startsWith containerTag rest then 0 else
  match extractContainer rest with
  | .ok (_, container) => (runCallbacksT container cbs).2
  | _ => 0

theorem headStep_replace_pos {cbs : List Callback} {rest p : Bytes} {k : Nat}
    (h : headStep cbs rest = .replace p k) : 0 < k ∧ k ≤ rest.length := by
  unfold headStep at h
  split at h
  · cases h
  · split at h
    · cases h
    · cases h
    · next n container _ =>
      split at h
      · cases h
      · cases h
      · split at h
        · next hn =>
          cases h
          omega
        · cases h

theorem scanT_nil (cbs : List CallbackT) : scanT cbs [] = (.ok [] false, 0) := by rw [scanT]

/-- one unfolding of the traced loop: the decision is that of the untraced loop (`headStep`), the alarm
count adds what the callbacks raised at this position -/
theorem scanT_cons (cbs : List CallbackT) (b : UInt8) (r : Bytes) :
    scanT cbs (b :: r) =
      match headStep (outCbs cbs) (b :: r) with
      | .skip h => ((scanT cbs r).1.prepend [b] h, (scanT cbs r).2 + headAlarms cbs (b :: r))
      | .replace p n => ((scanT cbs ((b :: r).drop n)).1.prepend p true,
          (scanT cbs ((b :: r).drop n)).2 + headAlarms cbs (b :: r))
      | .fatal => (.fatal, headAlarms cbs (b :: r))
      | .panic => (.panic, headAlarms cbs (b :: r)) := by
  rw [scanT.eq_2]
  unfold headStep headAlarms
  by_cases ht : startsWith containerTag (b :: r) = true
  · simp only [ht, Bool.not_true, Bool.false_eq_true, if_false]
    cases hx : extractContainer (b :: r) with
    | panic => rfl
    | err => rfl
    | ok v =>
      obtain ⟨n, container⟩ := v
      simp only
      rw [← runCallbacksT_fst]
      rcases hc : runCallbacksT container cbs with ⟨o, a⟩
      cases o with
      | fatal => rfl
      | skip => rfl
      | replace p =>
        simp only
        by_cases hn : 0 < n ∧ n ≤ ((b :: r).length : Int)
        · rw [dif_pos hn, if_pos hn]
        · rw [dif_neg hn, if_neg hn]
  · have ht' : startsWith containerTag (b :: r) = false := by simpa using ht
    simp only [ht', Bool.not_false, if_true]
    rfl

/-- **the traced scan computes the same bytes as the plain one** -/
theorem scanT_fst (cbs : List CallbackT) (rest : Bytes) : (scanT cbs rest).1 = scan (outCbs cbs) rest := by
  generalize hn : rest.length = n
  induction n using Nat.strongRecOn generalizing rest with
  | _ n ih =>
    cases rest with
    | nil => rw [scanT_nil, c01_scan_nil]
    | cons b r =>
      rw [scanT_cons, c01_scan_cons]
      cases hh : headStep (outCbs cbs) (b :: r) with
      | skip h =>
        simp only
        rw [ih r.length (by simp at hn; omega) r rfl]
      | replace p k =>
        simp only
        have hk := (headStep_replace_pos hh).1
        rw [ih ((b :: r).drop k).length (by rw [List.length_drop]; simp at hn ⊢; omega) _ rfl]
      | fatal => rfl
      | panic => rfl

/-- an alarm counted by the scan was raised at some position of the buffer where the container tag
starts, by one of the callbacks, on the container `ExtractSerializedContainer` returned there -/
theorem scanT_alarm (cbs : List CallbackT) (rest : Bytes) (h : 1 ≤ (scanT cbs rest).2) :
    ∃ i, i < rest.length ∧ startsWith containerTag (rest.drop i) = true ∧
      ∃ n cont, extractContainer (rest.drop i) = .ok (n, cont) ∧ ∃ f ∈ cbs, (f cont).2 = true := by
  generalize hn : rest.length = n at h ⊢
  induction n using Nat.strongRecOn generalizing rest with
  | _ n ih =>
    cases rest with
    | nil => rw [scanT_nil] at h; simp at h
    | cons b r =>
      by_cases h0 : 1 ≤ headAlarms cbs (b :: r)
      · refine ⟨0, by simp at hn; omega, ?_⟩
        unfold headAlarms at h0
        rw [List.drop_zero]
        by_cases ht : startsWith containerTag (b :: r) = true
        · refine ⟨ht, ?_⟩
          simp only [ht, Bool.not_true, Bool.false_eq_true, if_false] at h0
          cases hx : extractContainer (b :: r) with
          | panic => rw [hx] at h0; simp at h0
          | err => rw [hx] at h0; simp at h0
          | ok v =>
            obtain ⟨k, cont⟩ := v
            rw [hx] at h0
            exact ⟨k, cont, rfl, runCallbacksT_alarm cont cbs h0⟩
        · have ht' : startsWith containerTag (b :: r) = false := by simpa using ht
          simp [ht'] at h0
      · have h0' : headAlarms cbs (b :: r) = 0 := by omega
        rw [scanT_cons, h0'] at h
        have hlen : (b :: r).length = r.length + 1 := rfl
        cases hh : headStep (outCbs cbs) (b :: r) with
        | skip hb =>
          rw [hh] at h
          simp only [Nat.add_zero] at h
          obtain ⟨i, hi, hrest⟩ := ih r.length (by omega) r h rfl
          exact ⟨i + 1, by omega, by simpa using hrest⟩
        | replace p k =>
          rw [hh] at h
          simp only [Nat.add_zero] at h
          obtain ⟨hk, hk2⟩ := headStep_replace_pos hh
          obtain ⟨i, hi, hrest⟩ := ih ((b :: r).drop k).length (by rw [List.length_drop]; omega) _ h rfl
          rw [List.length_drop] at hi
          refine ⟨k + i, by omega, ?_⟩
          rw [List.drop_drop] at hrest
          exact hrest
        | fatal => rw [hh] at h; simp at h
        | panic => rw [hh] at h; simp at h

/-- with the head position skipped by the untraced loop, the alarm count is that of the rest plus
what was raised here: alarms are never lost -/
theorem scanT_snd_skip {cbs : List CallbackT} {b : UInt8} {r : Bytes} {hit : Bool}
    (hs : headStep (outCbs cbs) (b :: r) = .skip hit) :
    (scanT cbs (b :: r)).2 = (scanT cbs r).2 + headAlarms cbs (b :: r) := by
  rw [scanT_cons, hs]

/-- the alarms raised at the head of `C ++ suf` are counted when every position of `pre` is skipped -/
theorem scanT_alarm_ge (cbs : List CallbackT) (pre rest : Bytes)
    (hpre : ∀ i, i < pre.length → ∃ h, headStep (outCbs cbs) ((pre ++ rest).drop i) = .skip h)
    (hne : rest ≠ []) :
    headAlarms cbs rest ≤ (scanT cbs (pre ++ rest)).2 := by
  induction pre with
  | nil =>
    cases rest with
    | nil => exact absurd rfl hne
    | cons b r =>
      rw [List.nil_append, scanT_cons]
      cases headStep (outCbs cbs) (b :: r) <;> simp
  | cons b p ih =>
    obtain ⟨h, h0⟩ := hpre 0 (by simp)
    simp only [List.drop_zero, List.cons_append] at h0
    rw [List.cons_append, scanT_snd_skip h0]
    have hp : ∀ i, i < p.length → ∃ h, headStep (outCbs cbs) ((p ++ rest).drop i) = .skip h := by
      intro i hi
      have := hpre (i+1) (by simp; omega)
      simpa using this
    have := ih hp
    omega

/-- a fatal answer at the head of `rest` makes the whole scan fatal when every position before it is skipped -/
theorem scan_fatal_of_prefix_skip (cbs : List Callback) (pre rest : Bytes)
    (hpre : ∀ i, i < pre.length → ∃ h, headStep cbs ((pre ++ rest).drop i) = .skip h)
    (hf : headStep cbs rest = .fatal) : scan cbs (pre ++ rest) = .fatal := by
  induction pre with
  | nil =>
    cases rest with
    | nil => simp [headStep, startsWith, containerTag, toBytes, Layout.containerTag] at hf
    | cons b r => rw [List.nil_append, c01_scan_cons, hf]
  | cons b p ih =>
    obtain ⟨h, h0⟩ := hpre 0 (by simp)
    simp only [List.drop_zero, List.cons_append] at h0
    rw [List.cons_append, c01_scan_skip h0]
    have hp : ∀ i, i < p.length → ∃ h, headStep cbs ((p ++ rest).drop i) = .skip h := by
      intro i hi
      have := hpre (i+1) (by simp; omega)
      simpa using this
    rw [ih hp]
    rfl

/-! ## `OnColumn` -/

theorem onColumnT_fst (cbs : List CallbackT) (d : Bytes) : (onColumnT cbs d).1 = onColumn (outCbs cbs) d := by
  unfold onColumnT onColumn
  rw [outCbs_isEmpty]
  split
  · rfl
  · exact scanT_fst cbs d

theorem onColumnT_alarm (cbs : List CallbackT) (d : Bytes) (h : 1 ≤ (onColumnT cbs d).2) :
    ∃ i, i < d.length ∧ startsWith containerTag (d.drop i) = true ∧
      ∃ n cont, extractContainer (d.drop i) = .ok (n, cont) ∧ ∃ f ∈ cbs, (f cont).2 = true := by
  unfold onColumnT at h
  split at h
  · simp at h
  · exact scanT_alarm cbs d h

theorem onColumnT_snd_of_long (cbs : List CallbackT) (d : Bytes) (hc : cbs ≠ []) (hl : containerMin ≤ d.length) :
    onColumnT cbs d = scanT cbs d := by
  unfold onColumnT
  have : cbs.isEmpty = false := by cases cbs <;> simp_all
  rw [if_neg (by simp [this]; omega)]

/-! ## the compatibility wrapper's legacy scans -/

theorem onCryptoEnvelopeT_fst (cont : Bytes) (cbs : List CallbackT) :
    (onCryptoEnvelopeT cont cbs).1 = onCryptoEnvelope cont (outCbs cbs) := by
  induction cbs with
  | nil => rfl
  | cons cb rest ih =>
    unfold outCbs at ih ⊢
    simp only [List.map_cons, onCryptoEnvelopeT, onCryptoEnvelope, outCb]
    rcases h : cb cont with ⟨r, a⟩
    cases r <;> simp [ih]

theorem onCryptoEnvelopeT_alarm (cont : Bytes) (cbs : List CallbackT) (h : 1 ≤ (onCryptoEnvelopeT cont cbs).2) :
    ∃ f ∈ cbs, (f cont).2 = true := by
  induction cbs with
  | nil => simp [onCryptoEnvelopeT] at h
  | cons cb rest ih =>
    by_cases ha : (cb cont).2 = true
    · exact ⟨cb, List.mem_cons_self, ha⟩
    · have ha' : (cb cont).2 = false := by simpa using ha
      have : 1 ≤ (onCryptoEnvelopeT cont rest).2 := by
        simp only [onCryptoEnvelopeT] at h
        rcases hc : cb cont with ⟨r, a⟩
        rw [hc] at h ha'
        simp only at ha'
        subst ha'
        cases r <;> simp at h <;> first | exact h | omega
      obtain ⟨f, hf, hfa⟩ := ih this
      exact ⟨f, List.mem_cons_of_mem _ hf, hfa⟩

theorem onBareT_fst (cbs : List CallbackT) (id : UInt8) (bare : Bytes) :
    (onBareT cbs id bare).1 = onBare (outCbs cbs) id bare := by
  unfold onBareT onBare
  cases hs : serialize bare id with
  | err => rfl
  | panic => rfl
  | ok s =>
    simp only [Out.bind_ok]
    rw [← onCryptoEnvelopeT_fst]
    rcases hc : onCryptoEnvelopeT s cbs with ⟨o, a⟩
    cases o with
    | err => rfl
    | panic => rfl
    | ok p =>
      simp only [Out.bind_ok]
      split <;> rfl

/-- an alarm counted while handling a bare envelope was raised by one of the callbacks on the
serialized container built around it -/
theorem onBareT_alarm (cbs : List CallbackT) (id : UInt8) (bare : Bytes) (h : 1 ≤ (onBareT cbs id bare).2) :
    bare ≠ [] ∧ ∃ f ∈ cbs, (f (serBytes bare id)).2 = true := by
  unfold onBareT at h
  cases hs : serialize bare id with
  | err => rw [hs] at h; simp at h
  | panic => rw [hs] at h; simp at h
  | ok s =>
    obtain ⟨hne, rfl⟩ := c01_serialize_ok hs
    rw [hs] at h
    simp only at h
    refine ⟨hne, onCryptoEnvelopeT_alarm (serBytes bare id) cbs ?_⟩
    rcases hc : onCryptoEnvelopeT (serBytes bare id) cbs with ⟨o, a⟩
    rw [hc] at h
    cases o <;> exact h

theorem processStructsT_fst (proc : Bytes → Out Bytes × Nat) (rest : Bytes) :
    (processStructsT proc rest).1 = processStructs (fun x => (proc x).1) rest := by
  induction rest using processStructsT.induct proc with
  | case1 => rw [processStructsT.eq_1, processStructs.eq_1]
  | case2 b r h ih => rw [processStructsT.eq_2, processStructs.eq_2, if_pos h, if_pos h, ← ih]; rfl
  | case3 b r h hl hg => rw [processStructsT.eq_2, processStructs.eq_2, if_neg h, if_neg h, if_pos hl, if_pos hl, hg]
  | case4 b r h hl hg => rw [processStructsT.eq_2, processStructs.eq_2, if_neg h, if_neg h, if_pos hl, if_pos hl, hg]
  | case5 b r h hl dl hg l hb p a hq ih =>
    have hb' : 0 < wrapInt64 (dl + structMin) ∧ wrapInt64 (dl + structMin) ≤ (b :: r).length := hb
    rw [processStructsT.eq_2, processStructs.eq_2, if_neg h, if_neg h, if_pos hl, if_pos hl, hg]
    dsimp only
    rw [dif_pos hb', dif_pos hb', show proc _ = _ from hq]
    dsimp only
    rw [← ih]; rfl
  | case6 b r h hl dl hg l hb a hq =>
    have hb' : 0 < wrapInt64 (dl + structMin) ∧ wrapInt64 (dl + structMin) ≤ (b :: r).length := hb
    rw [processStructsT.eq_2, processStructs.eq_2, if_neg h, if_neg h, if_pos hl, if_pos hl, hg]
    dsimp only
    rw [dif_pos hb', dif_pos hb', show proc _ = _ from hq]
  | case7 b r h hl dl hg l hb a hq =>
    have hb' : 0 < wrapInt64 (dl + structMin) ∧ wrapInt64 (dl + structMin) ≤ (b :: r).length := hb
    rw [processStructsT.eq_2, processStructs.eq_2, if_neg h, if_neg h, if_pos hl, if_pos hl, hg]
    dsimp only
    rw [dif_pos hb', dif_pos hb', show proc _ = _ from hq]
  | case8 b r h hl dl hg l hb ih =>
    have hb' : ¬ (0 < wrapInt64 (dl + structMin) ∧ wrapInt64 (dl + structMin) ≤ (b :: r).length) := hb
    rw [processStructsT.eq_2, processStructs.eq_2, if_neg h, if_neg h, if_pos hl, if_pos hl, hg]
    dsimp only
    rw [dif_neg hb', dif_neg hb', ← ih]; rfl
  | case9 b r h hl ih =>
    rw [processStructsT.eq_2, processStructs.eq_2, if_neg h, if_neg h, if_neg hl, if_neg hl, ← ih]; rfl

theorem bindT_snd (x : Out Bytes × Nat) (f : Bytes → Bytes) (a : Nat) : (bindT x f a).2 = x.2 + a := rfl

/-- an alarm counted by the legacy AcraStruct scan was raised by the per-struct handler on a
non-empty contiguous part of the buffer -/
theorem processStructsT_alarm (proc : Bytes → Out Bytes × Nat) (rest : Bytes)
    (h : 1 ≤ (processStructsT proc rest).2) : ∃ x, x <:+: rest ∧ x ≠ [] ∧ 1 ≤ (proc x).2 := by
  induction rest using processStructsT.induct proc with
  | case1 => rw [processStructsT.eq_1] at h; simp at h
  | case2 b r hh ih =>
    rw [processStructsT.eq_2, if_pos hh, bindT_snd] at h
    obtain ⟨x, hx, hr⟩ := ih (by omega)
    exact ⟨x, hx.trans (List.suffix_cons b r).isInfix, hr⟩
  | case3 b r hh hl hg => rw [processStructsT.eq_2, if_neg hh, if_pos hl, hg] at h; simp at h
  | case4 b r hh hl hg => rw [processStructsT.eq_2, if_neg hh, if_pos hl, hg] at h; simp at h
  | case5 b r hh hl dl hg l hb p a hq ih =>
    have hb' : 0 < wrapInt64 (dl + structMin) ∧ wrapInt64 (dl + structMin) ≤ (b :: r).length := hb
    have hne : (b :: r).take l.toNat ≠ [] := take_ne_nil (by have := hb.1; omega)
    rw [processStructsT.eq_2, if_neg hh, if_pos hl, hg] at h
    dsimp only at h
    rw [dif_pos hb', show proc _ = _ from hq] at h
    dsimp only at h
    rw [bindT_snd] at h
    by_cases ha : 1 ≤ a
    · exact ⟨_, (List.take_prefix _ _).isInfix, hne, by rw [show proc _ = _ from hq]; exact ha⟩
    · have ha0 : a = 0 := by omega
      rw [ha0, Nat.add_zero] at h
      obtain ⟨x, hx, hr⟩ := ih h
      exact ⟨x, hx.trans (List.drop_suffix _ _).isInfix, hr⟩
  | case6 b r hh hl dl hg l hb a hq =>
    have hb' : 0 < wrapInt64 (dl + structMin) ∧ wrapInt64 (dl + structMin) ≤ (b :: r).length := hb
    have hne : (b :: r).take l.toNat ≠ [] := take_ne_nil (by have := hb.1; omega)
    rw [processStructsT.eq_2, if_neg hh, if_pos hl, hg] at h
    dsimp only at h
    rw [dif_pos hb', show proc _ = _ from hq] at h
    exact ⟨_, (List.take_prefix _ _).isInfix, hne, by rw [show proc _ = _ from hq]; exact h⟩
  | case7 b r hh hl dl hg l hb a hq =>
    have hb' : 0 < wrapInt64 (dl + structMin) ∧ wrapInt64 (dl + structMin) ≤ (b :: r).length := hb
    have hne : (b :: r).take l.toNat ≠ [] := take_ne_nil (by have := hb.1; omega)
    rw [processStructsT.eq_2, if_neg hh, if_pos hl, hg] at h
    dsimp only at h
    rw [dif_pos hb', show proc _ = _ from hq] at h
    exact ⟨_, (List.take_prefix _ _).isInfix, hne, by rw [show proc _ = _ from hq]; exact h⟩
  | case8 b r hh hl dl hg l hb ih =>
    have hb' : ¬ (0 < wrapInt64 (dl + structMin) ∧ wrapInt64 (dl + structMin) ≤ (b :: r).length) := hb
    rw [processStructsT.eq_2, if_neg hh, if_pos hl, hg] at h
    dsimp only at h
    rw [dif_neg hb', bindT_snd] at h
    obtain ⟨x, hx, hr⟩ := ih (by omega)
    exact ⟨x, hx.trans (List.suffix_cons b r).isInfix, hr⟩
  | case9 b r hh hl ih =>
    rw [processStructsT.eq_2, if_neg hh, if_neg hl, bindT_snd] at h
    obtain ⟨x, hx, hr⟩ := ih (by omega)
    exact ⟨x, hx.trans (List.suffix_cons b r).isInfix, hr⟩

theorem processBlocksT_fst (proc : Bytes → Out Bytes × Nat) (rest : Bytes) :
    (processBlocksT proc rest).1 = processBlocks (fun x => (proc x).1) rest := by
  induction rest using processBlocksT.induct proc with
  | case1 => rw [processBlocksT.eq_1, processBlocks.eq_1]
  | case2 b r h ih => rw [processBlocksT.eq_2, processBlocks.eq_2, if_pos h, if_pos h, ← ih]; rfl
  | case3 b r h hl he => rw [processBlocksT.eq_2, processBlocks.eq_2, if_neg h, if_neg h, if_pos hl, if_pos hl, he]
  | case4 b r h hl he ih =>
    rw [processBlocksT.eq_2, processBlocks.eq_2, if_neg h, if_neg h, if_pos hl, if_pos hl, he]
    dsimp only
    rw [← ih]; rfl
  | case5 b r h hl n blk he hn p a hq ih =>
    rw [processBlocksT.eq_2, processBlocks.eq_2, if_neg h, if_neg h, if_pos hl, if_pos hl, he]
    dsimp only
    rw [dif_pos hn, dif_pos hn, hq]
    dsimp only
    rw [← ih]; rfl
  | case6 b r h hl n blk he hn a hq =>
    rw [processBlocksT.eq_2, processBlocks.eq_2, if_neg h, if_neg h, if_pos hl, if_pos hl, he]
    dsimp only
    rw [dif_pos hn, dif_pos hn, hq]
  | case7 b r h hl n blk he hn a hq =>
    rw [processBlocksT.eq_2, processBlocks.eq_2, if_neg h, if_neg h, if_pos hl, if_pos hl, he]
    dsimp only
    rw [dif_pos hn, dif_pos hn, hq]
  | case8 b r h hl n blk he hn =>
    rw [processBlocksT.eq_2, processBlocks.eq_2, if_neg h, if_neg h, if_pos hl, if_pos hl, he]
    dsimp only
    rw [dif_neg hn, dif_neg hn]
  | case9 b r h hl ih =>
    rw [processBlocksT.eq_2, processBlocks.eq_2, if_neg h, if_neg h, if_neg hl, if_neg hl, ← ih]; rfl

/-- an alarm counted by the legacy AcraBlock scan was raised by the per-block handler on a non-empty
contiguous part of the buffer -/
theorem processBlocksT_alarm (proc : Bytes → Out Bytes × Nat) (rest : Bytes)
    (h : 1 ≤ (processBlocksT proc rest).2) : ∃ x, x <:+: rest ∧ x ≠ [] ∧ 1 ≤ (proc x).2 := by
  induction rest using processBlocksT.induct proc with
  | case1 => rw [processBlocksT.eq_1] at h; simp at h
  | case2 b r hh ih =>
    rw [processBlocksT.eq_2, if_pos hh, bindT_snd] at h
    obtain ⟨x, hx, hr⟩ := ih (by omega)
    exact ⟨x, hx.trans (List.suffix_cons b r).isInfix, hr⟩
  | case3 b r hh hl he => rw [processBlocksT.eq_2, if_neg hh, if_pos hl, he] at h; simp at h
  | case4 b r hh hl he ih =>
    rw [processBlocksT.eq_2, if_neg hh, if_pos hl, he] at h
    dsimp only at h
    rw [bindT_snd] at h
    obtain ⟨x, hx, hr⟩ := ih (by omega)
    exact ⟨x, hx.trans (List.suffix_cons b r).isInfix, hr⟩
  | case5 b r hh hl n blk he hn p a hq ih =>
    have hblk := (extractBlock_bounds' he).2.2
    rw [processBlocksT.eq_2, if_neg hh, if_pos hl, he] at h
    dsimp only at h
    rw [dif_pos hn, hq] at h
    dsimp only at h
    rw [bindT_snd] at h
    by_cases ha : 1 ≤ a
    · exact ⟨blk, by rw [hblk]; exact (List.take_prefix _ _).isInfix, extractBlock_blk_ne_nil he, by rw [hq]; exact ha⟩
    · obtain ⟨x, hx, hr⟩ := ih (by omega)
      exact ⟨x, hx.trans (List.drop_suffix _ _).isInfix, hr⟩
  | case6 b r hh hl n blk he hn a hq =>
    have hblk := (extractBlock_bounds' he).2.2
    rw [processBlocksT.eq_2, if_neg hh, if_pos hl, he] at h
    dsimp only at h
    rw [dif_pos hn, hq] at h
    exact ⟨blk, by rw [hblk]; exact (List.take_prefix _ _).isInfix, extractBlock_blk_ne_nil he, by rw [hq]; exact h⟩
  | case7 b r hh hl n blk he hn a hq =>
    have hblk := (extractBlock_bounds' he).2.2
    rw [processBlocksT.eq_2, if_neg hh, if_pos hl, he] at h
    dsimp only at h
    rw [dif_pos hn, hq] at h
    exact ⟨blk, by rw [hblk]; exact (List.take_prefix _ _).isInfix, extractBlock_blk_ne_nil he, by rw [hq]; exact h⟩
  | case8 b r hh hl n blk he hn => exact absurd (extractBlock_pos he) hn
  | case9 b r hh hl ih =>
    rw [processBlocksT.eq_2, if_neg hh, if_neg hl, bindT_snd] at h
    obtain ⟨x, hx, hr⟩ := ih (by omega)
    exact ⟨x, hx.trans (List.suffix_cons b r).isInfix, hr⟩


/-! ## the compatibility wrapper -/

theorem onBareT_fst_fun (cbs : List CallbackT) (id : UInt8) :
    (fun x => (onBareT cbs id x).1) = onBare (outCbs cbs) id := funext (onBareT_fst cbs id)

/-- **the traced compatibility wrapper computes the same result as the plain one** -/
theorem onColumnCompatT_fst (cbs : List CallbackT) (d : Bytes) :
    (onColumnCompatT cbs d).1 = onColumnCompat (outCbs cbs) d := by
  have ho := onColumnT_fst (plainT (fun _ => Cb.same) :: cbs) d
  rw [outCbs_cons, outCb_plainT] at ho
  unfold onColumnCompatT onColumnCompat
  simp only []
  rw [← ho]
  rcases h : onColumnT (plainT (fun _ => Cb.same) :: cbs) d with ⟨o, a⟩
  cases o with
  | fatal => rfl
  | panic => rfl
  | ok out hit =>
    simp only
    by_cases hc : (hit || out != d) = true
    · rw [if_pos hc, if_pos hc]
    · rw [if_neg hc, if_neg hc]
      have e1 : (if d.length < structMin then ((Out.ok d : Out Bytes), 0)
          else processStructsT (onBareT (plainT (fun _ => Cb.same) :: cbs) idStruct) d).1 =
          (if d.length < structMin then Out.ok d
            else processStructs (onBare ((fun _ => Cb.same) :: outCbs cbs) idStruct) d) := by
        split
        · rfl
        · rw [processStructsT_fst, onBareT_fst_fun]; rfl
      rw [← e1]
      rcases h1 : (if d.length < structMin then ((Out.ok d : Out Bytes), 0)
          else processStructsT (onBareT (plainT (fun _ => Cb.same) :: cbs) idStruct) d) with ⟨s1, a1⟩
      cases s1 with
      | panic => rfl
      | err => rfl
      | ok o1 =>
        simp only
        have e2 : (if o1.length < blockMin then ((Out.ok o1 : Out Bytes), 0)
            else processBlocksT (onBareT (plainT (fun _ => Cb.same) :: cbs) idBlock) o1).1 =
            (if o1.length < blockMin then Out.ok o1
              else processBlocks (onBare ((fun _ => Cb.same) :: outCbs cbs) idBlock) o1) := by
          split
          · rfl
          · rw [processBlocksT_fst, onBareT_fst_fun]; rfl
        rw [← e2]
        rcases h2 : (if o1.length < blockMin then ((Out.ok o1 : Out Bytes), 0)
            else processBlocksT (onBareT (plainT (fun _ => Cb.same) :: cbs) idBlock) o1) with ⟨s2, a2⟩
        cases s2 <;> rfl

/-- the alarms of the container scan are never lost by the compatibility wrapper -/
theorem onColumnCompatT_snd_ge (cbs : List CallbackT) (d : Bytes) :
    (onColumnT (plainT (fun _ => Cb.same) :: cbs) d).2 ≤ (onColumnCompatT cbs d).2 := by
  unfold onColumnCompatT
  simp only []
  rcases h : onColumnT (plainT (fun _ => Cb.same) :: cbs) d with ⟨o, a⟩
  cases o with
  | fatal => exact Nat.le_refl _
  | panic => exact Nat.le_refl _
  | ok out hit =>
    simp only
    split
    · exact Nat.le_refl _
    · split
      · simp only; omega
      · simp only; omega
      · split
        · simp only; omega
        · simp only; omega
        · simp only; omega

theorem mem_of_alarm_cons_plainT {cb : Callback} {cbs : List CallbackT} {x : Bytes}
    (h : ∃ f ∈ plainT cb :: cbs, (f x).2 = true) : ∃ f ∈ cbs, (f x).2 = true := by
  obtain ⟨f, hf, ha⟩ := h
  rcases List.mem_cons.1 hf with rfl | hf
  · cases ha
  · exact ⟨f, hf, ha⟩

/-- **where an alarm of the compatibility wrapper can come from**: a callback raised it (1) on the rest
of the buffer at a position where the container tag starts, or (2) on the serialized container
around a non-empty contiguous part of the buffer that the legacy AcraStruct scan cut out, or (3) on
the serialized container around a non-empty contiguous part of the OUTPUT `o1` of the legacy
AcraStruct scan that the legacy AcraBlock scan cut out. -/
theorem onColumnCompatT_alarm (cbs : List CallbackT) (d : Bytes) (h : 1 ≤ (onColumnCompatT cbs d).2) :
    (∃ i, i < d.length ∧ startsWith containerTag (d.drop i) = true ∧ ∃ f ∈ cbs, (f (d.drop i)).2 = true) ∨
    (∃ x, x <:+: d ∧ x ≠ [] ∧ ∃ f ∈ cbs, (f (serBytes x idStruct)).2 = true) ∨
    (∃ o1, (if d.length < structMin then Out.ok d
        else processStructs (onBare ((fun _ => Cb.same) :: outCbs cbs) idStruct) d) = .ok o1 ∧
      ∃ x, x <:+: o1 ∧ x ≠ [] ∧ ∃ f ∈ cbs, (f (serBytes x idBlock)).2 = true) := by
  have scanCase : 1 ≤ (onColumnT (plainT (fun _ => Cb.same) :: cbs) d).2 →
      ∃ i, i < d.length ∧ startsWith containerTag (d.drop i) = true ∧ ∃ f ∈ cbs, (f (d.drop i)).2 = true := by
    intro h0
    obtain ⟨i, hi, hst, n, cont, hx, hf⟩ := onColumnT_alarm _ d h0
    have := extractContainer_of_containerTag (startsWith_containerTag hst) hx
    subst this
    exact ⟨i, hi, hst, mem_of_alarm_cons_plainT hf⟩
  unfold onColumnCompatT at h
  simp only [] at h
  rcases h0 : onColumnT (plainT (fun _ => Cb.same) :: cbs) d with ⟨o, a⟩
  rw [h0] at h scanCase
  cases o with
  | fatal => exact Or.inl (scanCase h)
  | panic => exact Or.inl (scanCase h)
  | ok out hit =>
    simp only at h
    split at h
    · exact Or.inl (scanCase h)
    · by_cases ha : 1 ≤ a
      · exact Or.inl (scanCase ha)
      · have e1 : (if d.length < structMin then ((Out.ok d : Out Bytes), 0)
            else processStructsT (onBareT (plainT (fun _ => Cb.same) :: cbs) idStruct) d).1 =
            (if d.length < structMin then Out.ok d
              else processStructs (onBare ((fun _ => Cb.same) :: outCbs cbs) idStruct) d) := by
          split
          · rfl
          · rw [processStructsT_fst, onBareT_fst_fun]; rfl
        have al1 : 1 ≤ (if d.length < structMin then ((Out.ok d : Out Bytes), 0)
            else processStructsT (onBareT (plainT (fun _ => Cb.same) :: cbs) idStruct) d).2 →
            ∃ x, x <:+: d ∧ x ≠ [] ∧ ∃ f ∈ cbs, (f (serBytes x idStruct)).2 = true := by
          split
          · intro h'; simp at h'
          · intro h'
            obtain ⟨x, hx, hne, hax⟩ := processStructsT_alarm _ d h'
            exact ⟨x, hx, hne, mem_of_alarm_cons_plainT (onBareT_alarm _ _ x hax).2⟩
        rcases h1 : (if d.length < structMin then ((Out.ok d : Out Bytes), 0)
            else processStructsT (onBareT (plainT (fun _ => Cb.same) :: cbs) idStruct) d) with ⟨s1, a1⟩
        rw [h1] at h e1 al1
        simp only at e1 al1
        by_cases ha1 : 1 ≤ a1
        · exact Or.inr (Or.inl (al1 ha1))
        · cases s1 with
          | panic => simp only at h; omega
          | err => simp only at h; omega
          | ok o1 =>
            simp only at h
            have al2 : 1 ≤ (if o1.length < blockMin then ((Out.ok o1 : Out Bytes), 0)
                else processBlocksT (onBareT (plainT (fun _ => Cb.same) :: cbs) idBlock) o1).2 →
                ∃ x, x <:+: o1 ∧ x ≠ [] ∧ ∃ f ∈ cbs, (f (serBytes x idBlock)).2 = true := by
              split
              · intro h'; simp at h'
              · intro h'
                obtain ⟨x, hx, hne, hax⟩ := processBlocksT_alarm _ o1 h'
                exact ⟨x, hx, hne, mem_of_alarm_cons_plainT (onBareT_alarm _ _ x hax).2⟩
            rcases h2 : (if o1.length < blockMin then ((Out.ok o1 : Out Bytes), 0)
                else processBlocksT (onBareT (plainT (fun _ => Cb.same) :: cbs) idBlock) o1) with ⟨s2, a2⟩
            rw [h2] at h al2
            simp only at al2
            have ha2 : 1 ≤ a2 := by
              cases s2 <;> simp only at h <;> omega
            exact Or.inr (Or.inr ⟨o1, e1.symm, al2 ha2⟩)

/-- no callback ever raises the alarm ⇒ the count is 0 -/
theorem onColumnCompatT_quiet (cbs : List CallbackT) (hq : Quiet cbs) (d : Bytes) : (onColumnCompatT cbs d).2 = 0 := by
  cases hn : (onColumnCompatT cbs d).2 with
  | zero => rfl
  | succ n =>
    exfalso
    rcases onColumnCompatT_alarm cbs d (by omega) with ⟨_, _, _, h⟩ | ⟨_, _, _, h⟩ | ⟨_, _, _, _, _, h⟩ <;>
      exact hq.no_alarm h

theorem onColumnT_quiet (cbs : List CallbackT) (hq : Quiet cbs) (d : Bytes) : (onColumnT cbs d).2 = 0 := by
  cases hn : (onColumnT cbs d).2 with
  | zero => rfl
  | succ n =>
    exfalso
    obtain ⟨_, _, _, _, _, _, h⟩ := onColumnT_alarm cbs d (by omega)
    exact hq.no_alarm h

/-! ## the poison callback and the proxy's callback stack -/

theorem isPoison_eq_true {c : CryptoOps} {pk : KeyView} {x : Bytes} :
    isPoison c pk x = true ↔ ∃ m, process c pk x = .ok m := by
  unfold isPoison
  cases process c pk x <;> simp [Out.isOk]

theorem isPoison_no_keys (c : CryptoOps) (pk : KeyView) (hp : pk.privs = none) (hs : pk.syms = none) (x : Bytes) :
    isPoison c pk x = false := by
  cases h : isPoison c pk x with
  | false => rfl
  | true =>
    obtain ⟨m, hm⟩ := isPoison_eq_true.1 h
    exact absurd hm (process_no_keys c pk hp hs x m)

/-- the poison callback raises the alarm exactly when callbacks are configured and the container
decrypts under the poison keys -/
theorem poisonCallback_alarm (c : CryptoOps) (cfg : PoisonCfg) (x : Bytes) :
    (poisonCallback c cfg x).2 = (cfg.hasCallbacks && isPoison c cfg.pk x) := by
  unfold poisonCallback
  cases cfg.hasCallbacks <;> cases isPoison c cfg.pk x <;> simp

/-- the poison callback never replaces a container: it answers "unchanged" or a fatal error -/
theorem poisonCallback_out (c : CryptoOps) (cfg : PoisonCfg) (x : Bytes) :
    (poisonCallback c cfg x).1 = (if cfg.hasCallbacks && isPoison c cfg.pk x && cfg.callbackErr then .fatal else .same) := by
  unfold poisonCallback
  cases cfg.hasCallbacks <;> cases isPoison c cfg.pk x <;> cases cfg.callbackErr <;> simp

theorem proxyCallbacks_alarm {c : CryptoOps} {cfg : PoisonCfg} {kv : KeyView} {x : Bytes}
    (h : ∃ f ∈ proxyCallbacks c cfg kv, (f x).2 = true) : cfg.hasCallbacks = true ∧ isPoison c cfg.pk x = true := by
  obtain ⟨f, hf, ha⟩ := h
  unfold proxyCallbacks at hf
  rcases List.mem_append.1 hf with hf | hf
  · split at hf
    · next hc =>
      rw [List.mem_singleton.1 hf, poisonCallback_alarm] at ha
      simpa using ha
    · cases hf
  · rw [List.mem_singleton.1 hf] at ha
    cases ha


/-! ## poison records -/

/-- what a successful `CreatePoisonRecord` / `CreateSymmetricPoisonRecord` has computed -/
theorem createPoison_ok {c : CryptoOps} {pk : KeyView} {k : Kind} {n : Nat} {rnd P : Bytes}
    (h : createPoison c pk k n rnd = .ok P) :
    ∃ e, e ≠ [] ∧ P = serBytes e k.id ∧
      match k with
      | .struct => ∃ p, pk.pub = some p ∧ createStruct c p [] (rnd.take n) (rnd.drop n) = .ok e
      | .block => ∃ key, pk.sym = some key ∧ createBlock c key [] (rnd.take n) (rnd.drop n) = .ok e := by
  unfold createPoison at h
  cases k with
  | struct =>
    simp only at h
    cases hp : pk.pub with
    | none => rw [hp] at h; cases h
    | some p =>
      rw [hp] at h
      simp only at h
      cases hc : createStruct c p [] (rnd.take n) (rnd.drop n) with
      | err => rw [hc] at h; cases h
      | panic => rw [hc] at h; cases h
      | ok e =>
        rw [hc] at h
        obtain ⟨hne, hpe⟩ := c01_serialize_ok h
        exact ⟨e, hne, hpe, p, rfl, hc⟩
  | block =>
    simp only at h
    cases hp : pk.sym with
    | none => rw [hp] at h; cases h
    | some key =>
      rw [hp] at h
      simp only at h
      cases hc : createBlock c key [] (rnd.take n) (rnd.drop n) with
      | err => rw [hc] at h; cases h
      | panic => rw [hc] at h; cases h
      | ok e =>
        rw [hc] at h
        obtain ⟨hne, hpe⟩ := c01_serialize_ok h
        exact ⟨e, hne, hpe, key, rfl, hc⟩

/-- under the round-trip hypotheses of C01 (writer = the poison key the record was made with, reader
= the poison key history of the detector) a poison record is a serialized container that the
registry handler opens with the poison keys, whatever bytes follow it -/
theorem createPoison_facts (c : CryptoOps) (k : Kind) (pkW pkR : KeyView) (n : Nat) (rnd P : Bytes)
    (h : RoundTripHyps c k pkW pkR (rnd.take n) (rnd.drop n) P)
    (hc : createPoison c pkW k n rnd = .ok P) :
    ∃ e, P = serBytes e k.id ∧ e ≠ [] ∧ e.length + 12 < 2^63 ∧ ∀ suf, process c pkR (P ++ suf) = .ok (rnd.take n) := by
  obtain ⟨e, he, rfl, hk⟩ := createPoison_ok hc
  cases k with
  | block =>
    obtain ⟨key', hk', hcb⟩ := hk
    obtain ⟨hs, key, pre, post, hkid, hW, hR, hpre, hek, hpl⟩ := h
    have hkk : key = key' := Option.some.inj (hW.symm.trans hk')
    subst hkk
    rw [c01_serBytes_length] at hpl
    obtain ⟨encData, encKey, h1, h2, rfl⟩ := c01_createBlock_ok hcb
    have hx := c01_extractBlock_build (keyId c key []) encKey encData [] hkid (by omega)
    rw [List.append_nil] at hx
    have hd := c01_decryptBlock_build c hs key [] _ (rnd.take n) encKey encData _ _ pre post hkid (hek _ h2) h1 h2
      (fun k' hk' hid => Or.inl (hpre k' hk' encKey h2 hid))
    refine ⟨_, rfl, he, by omega, fun suf => ?_⟩
    rw [c01_process_ser c pkR .block _ suf he (by omega) (by simp [matchKind, hx, Out.isOk])]
    exact c01_decryptKind_block c pkR _ _ _ hx hR hd
  | struct =>
    obtain ⟨pub, hpub, hcs⟩ := hk
    obtain ⟨hs, hsl, hm, hml, hkg, priv, pre, post, hpriv, hW, hR, hpre⟩ := h
    have hpp : c.pubOf priv = pub := Option.some.inj (hW.symm.trans hpub)
    subst hpp
    obtain ⟨hval, _, hd, hlen, hmlen⟩ := c01_struct_roundtrip c hs hsl hm hml hkg priv [] (rnd.take n) (rnd.drop n) e hpriv hcs
    refine ⟨e, rfl, he, by omega, fun suf => ?_⟩
    rw [c01_process_ser c pkR .struct e suf he (by omega) (by simp [matchKind, hval])]
    exact c01_decryptKind_struct c pkR e _ _ hval hR
      (c01_decryptStructRotated_found c [] e priv _ pre post (fun k' hk' => hpre k' hk' e hcs) hd)

/-- the alarm is raised at the head of a container the poison keys open, whatever callbacks come after
the poison detector and whatever bytes follow the container, provided the callbacks before it leave
the container alone -/
theorem headAlarms_poison (c : CryptoOps) (cfg : PoisonCfg) (front rest : List CallbackT) (k : Kind) (e suf : Bytes)
    (hcb : cfg.hasCallbacks = true) (he : e ≠ []) (hlen : e.length + 12 < 2^63)
    (hfront : ∀ g ∈ front, (g (serBytes e k.id ++ suf)).1 = .same ∨ (g (serBytes e k.id ++ suf)).1 = .decErr)
    (hpo : isPoison c cfg.pk (serBytes e k.id ++ suf) = true) :
    1 ≤ headAlarms (front ++ poisonCallback c cfg :: rest) (serBytes e k.id ++ suf) := by
  unfold headAlarms
  rw [c01_startsWith_ser, c01_extractContainer_ser suf he (c01_kindOfId_id k) hlen]
  simp only [Bool.not_true, Bool.false_eq_true, if_false]
  apply runCallbacksT_alarm_ge _ front _ rest hfront
  rw [poisonCallback_alarm, hcb, hpo]
  rfl

theorem runCallbacks_front_fatal (cont : Bytes) (front : List Callback) (f : Callback) (rest : List Callback)
    (hfront : ∀ g ∈ front, g cont = .same ∨ g cont = .decErr) (hf : f cont = .fatal) :
    runCallbacks cont (front ++ f :: rest) = .fatal := by
  induction front with
  | nil => simp [runCallbacks, hf]
  | cons g gs ih =>
    rw [List.cons_append, c01_runCallbacks_cons_same _ (hfront g List.mem_cons_self)]
    exact ih (fun g' hg' => hfront g' (List.mem_cons_of_mem _ hg'))

/-- … and when running the configured callbacks fails, the loop stops there with a fatal error -/
theorem headStep_poison_fatal (c : CryptoOps) (cfg : PoisonCfg) (front rest : List Callback) (k : Kind) (e suf : Bytes)
    (hcb : cfg.hasCallbacks = true) (herr : cfg.callbackErr = true) (he : e ≠ []) (hlen : e.length + 12 < 2^63)
    (hfront : ∀ g ∈ front, g (serBytes e k.id ++ suf) = .same ∨ g (serBytes e k.id ++ suf) = .decErr)
    (hpo : isPoison c cfg.pk (serBytes e k.id ++ suf) = true) :
    headStep (front ++ outCb (poisonCallback c cfg) :: rest) (serBytes e k.id ++ suf) = .fatal := by
  unfold headStep
  rw [c01_startsWith_ser, c01_extractContainer_ser suf he (c01_kindOfId_id k) hlen]
  simp only [Bool.not_true, Bool.false_eq_true, if_false]
  rw [runCallbacks_front_fatal _ front _ rest hfront]
  unfold outCb
  rw [poisonCallback_out, hcb, herr, hpo]
  rfl

theorem serBytes_ne_nil (e : Bytes) (id : UInt8) : serBytes e id ≠ [] := by
  intro h
  have := congrArg List.length h
  rw [c01_serBytes_length] at this
  simp at this

/-- **a container the poison keys open raises the alarm in the SQL proxies' column processor** when every
position before it is skipped; with failing callbacks the result is fatal -/
theorem proxyOnColumn_poison (c : CryptoOps) (cfg : PoisonCfg) (kv : KeyView) (k : Kind) (e pre suf : Bytes)
    (hcb : cfg.hasCallbacks = true) (he : e ≠ []) (hlen : e.length + 12 < 2^63)
    (hpo : isPoison c cfg.pk (serBytes e k.id ++ suf) = true)
    (hpre : ∀ i, i < pre.length → ∃ hit,
      headStep [fun _ => Cb.same, fun x => (poisonCallback c cfg x).1, decryptCallback c kv]
        ((pre ++ serBytes e k.id ++ suf).drop i) = .skip hit) :
    1 ≤ (proxyOnColumn c cfg kv (pre ++ serBytes e k.id ++ suf)).2 ∧
    (cfg.callbackErr = true → (proxyOnColumn c cfg kv (pre ++ serBytes e k.id ++ suf)).1 = .fatal) := by
  have hcbs : proxyCallbacks c cfg kv = [poisonCallback c cfg, plainT (decryptCallback c kv)] := by
    unfold proxyCallbacks; rw [hcb]; rfl
  have hout : outCbs (plainT (fun _ => Cb.same) :: proxyCallbacks c cfg kv) =
      [fun _ => Cb.same, fun x => (poisonCallback c cfg x).1, decryptCallback c kv] := by rw [hcbs]; rfl
  have hl : containerMin ≤ (pre ++ serBytes e k.id ++ suf).length := by
    rw [List.length_append, List.length_append, c01_serBytes_length]
    show 12 ≤ _
    omega
  have hfrontT : ∀ g ∈ [plainT (fun _ => Cb.same)],
      (g (serBytes e k.id ++ suf)).1 = .same ∨ (g (serBytes e k.id ++ suf)).1 = .decErr := by
    intro g hg; rw [List.mem_singleton.1 hg]; exact Or.inl rfl
  unfold proxyOnColumn
  constructor
  · refine Nat.le_trans ?_ (onColumnCompatT_snd_ge _ _)
    rw [onColumnT_snd_of_long _ _ (by simp) hl, List.append_assoc]
    refine Nat.le_trans ?_ (scanT_alarm_ge _ pre (serBytes e k.id ++ suf) ?_ (by simp [serBytes_ne_nil]))
    · rw [hcbs]
      exact headAlarms_poison c cfg [plainT (fun _ => Cb.same)] _ k e suf hcb he hlen hfrontT hpo
    · rw [hout, ← List.append_assoc]; exact hpre
  · intro herr
    have hout' : outCbs (proxyCallbacks c cfg kv) = [fun x => (poisonCallback c cfg x).1, decryptCallback c kv] := by
      rw [hcbs]; rfl
    rw [onColumnCompatT_fst, onColumnCompat_eq, hout', c01_onColumn_scan _ _ (by simp) hl, List.append_assoc,
      scan_fatal_of_prefix_skip _ pre (serBytes e k.id ++ suf) (by rw [← List.append_assoc]; exact hpre)]
    exact headStep_poison_fatal c cfg [fun _ => Cb.same] [decryptCallback c kv] k e suf hcb herr he hlen
      (by intro g hg; rw [List.mem_singleton.1 hg]; exact Or.inl rfl) hpo

/-- the same for AcraTranslator's poison scan (poison detector only) -/
theorem translator_poison (c : CryptoOps) (cfg : PoisonCfg) (k : Kind) (e pre suf : Bytes)
    (hcb : cfg.hasCallbacks = true) (he : e ≠ []) (hlen : e.length + 12 < 2^63)
    (hpo : isPoison c cfg.pk (serBytes e k.id ++ suf) = true)
    (hpre : ∀ i, i < pre.length → ∃ hit,
      headStep [fun x => (poisonCallback c cfg x).1] ((pre ++ serBytes e k.id ++ suf).drop i) = .skip hit) :
    1 ≤ (onColumnT [poisonCallback c cfg] (pre ++ serBytes e k.id ++ suf)).2 := by
  have hl : containerMin ≤ (pre ++ serBytes e k.id ++ suf).length := by
    rw [List.length_append, List.length_append, c01_serBytes_length]
    show 12 ≤ _
    omega
  rw [onColumnT_snd_of_long _ _ (by simp) hl, List.append_assoc]
  refine Nat.le_trans ?_ (scanT_alarm_ge _ pre (serBytes e k.id ++ suf) ?_ (by simp [serBytes_ne_nil]))
  · exact headAlarms_poison c cfg [] [] k e suf hcb he hlen (by intro g hg; cases hg) hpo
  · rw [← List.append_assoc]; exact hpre


/-! ## where an alarm of the SQL proxies' column processor can come from -/

/-- the callback list the legacy scans of the compatibility wrapper run with when poison callbacks
are configured: wrapper, poison detector (output only), decrypt handler -/
def proxyStack (c : CryptoOps) (cfg : PoisonCfg) (kv : KeyView) : List Callback :=
  [fun _ => Cb.same, fun x => (poisonCallback c cfg x).1, decryptCallback c kv]

/-- `s` is one of the byte strings the SQL proxies' column processor can hand to the poison detector
while processing the column value `d`:
1. the rest of the value from a position where the container tag `%%%` starts;
2. the serialized container the compatibility wrapper builds around a non-empty contiguous part of `d`
   that the legacy AcraStruct scan cut out;
3. the serialized container it builds around a non-empty contiguous part of `o1` – the OUTPUT of the
   legacy AcraStruct scan, in which bare AcraStructs the client could decrypt have been replaced by
   their plaintext – that the legacy AcraBlock scan cut out. -/
def SeenByDetector (c : CryptoOps) (cfg : PoisonCfg) (kv : KeyView) (d s : Bytes) : Prop :=
  (∃ i, i < d.length ∧ startsWith containerTag (d.drop i) = true ∧ s = d.drop i) ∨
  (∃ x, x <:+: d ∧ x ≠ [] ∧ s = serBytes x idStruct) ∨
  (∃ o1 x, (if d.length < structMin then Out.ok d
      else processStructs (onBare (proxyStack c cfg kv) idStruct) d) = .ok o1 ∧
    x <:+: o1 ∧ x ≠ [] ∧ s = serBytes x idBlock)

theorem proxyOnColumn_alarm (c : CryptoOps) (cfg : PoisonCfg) (kv : KeyView) (d : Bytes)
    (h : 1 ≤ (proxyOnColumn c cfg kv d).2) :
    cfg.hasCallbacks = true ∧ ∃ s, SeenByDetector c cfg kv d s ∧ isPoison c cfg.pk s = true := by
  unfold proxyOnColumn at h
  have hcb : cfg.hasCallbacks = true := by
    rcases onColumnCompatT_alarm _ d h with ⟨_, _, _, hf⟩ | ⟨_, _, _, hf⟩ | ⟨_, _, _, _, _, hf⟩ <;>
      exact (proxyCallbacks_alarm hf).1
  have hout : (fun _ => Cb.same) :: outCbs (proxyCallbacks c cfg kv) = proxyStack c cfg kv := by
    unfold proxyCallbacks proxyStack; rw [hcb]; rfl
  refine ⟨hcb, ?_⟩
  rcases onColumnCompatT_alarm _ d h with ⟨i, hi, hst, hf⟩ | ⟨x, hx, hne, hf⟩ | ⟨o1, ho1, x, hx, hne, hf⟩
  · exact ⟨_, Or.inl ⟨i, hi, hst, rfl⟩, (proxyCallbacks_alarm hf).2⟩
  · exact ⟨_, Or.inr (Or.inl ⟨x, hx, hne, rfl⟩), (proxyCallbacks_alarm hf).2⟩
  · rw [hout] at ho1
    exact ⟨_, Or.inr (Or.inr ⟨o1, x, ho1, hx, hne, rfl⟩), (proxyCallbacks_alarm hf).2⟩

theorem translator_alarm (c : CryptoOps) (cfg : PoisonCfg) (kv : KeyView) (k : Kind) (d : Bytes)
    (h : 1 ≤ (translatorDecrypt c cfg kv k d).2) :
    cfg.hasCallbacks = true ∧ (translatorDecrypt c cfg kv k d).1 = .err ∧
    ∃ i, i < d.length ∧ startsWith containerTag (d.drop i) = true ∧ isPoison c cfg.pk (d.drop i) = true := by
  unfold translatorDecrypt at h ⊢
  cases hd : decryptWithHandler c kv k d with
  | ok m => rw [hd] at h; simp at h
  | panic => rw [hd] at h; simp at h
  | err =>
    rw [hd] at h
    simp only at h ⊢
    obtain ⟨i, hi, hst, n, cont, hx, f, hf, hfa⟩ := onColumnT_alarm _ d h
    have := extractContainer_of_containerTag (startsWith_containerTag hst) hx
    subst this
    split at hf
    · next hcb =>
      rw [List.mem_singleton.1 hf, poisonCallback_alarm] at hfa
      simp only [Bool.and_eq_true] at hfa
      exact ⟨hcb, trivial, i, hi, hst, hfa.2⟩
    · cases hf

/-- **accepted by the poison keys ⇒ genuine** (ideal authenticity of the seal): the internal envelope of
a container the poison detector reports is sealed under one of the poison keys -/
theorem isPoison_genuine (c : CryptoOps) (hs : SealLaws c) (pk : KeyView) (s : Bytes) (h : isPoison c pk s = true) :
    ∃ internal id m, deserialize s = .ok (internal, id) ∧ reveal c pk s = .ok m ∧
      ((id = idBlock ∧ ∃ ks, pk.syms = some ks ∧ ∃ key ∈ ks, ∃ dek n1 n2,
          n1.length = nonceLen ∧ n2.length = nonceLen ∧
          c.enc key [] dek n2 = some (blockEncKey internal) ∧ c.enc dek [] m n1 = some (blockEncData internal)) ∨
       (id = idStruct ∧ ∃ ps, pk.privs = some ps ∧ ∃ priv ∈ ps, ∃ symKey n2, n2.length = nonceLen ∧ symKey ≠ [] ∧
          c.unwrap priv ((internal.drop 8).take 45) ((internal.drop 53).take 84) = some symKey ∧
          c.enc symKey [] m n2 = some (internal.drop 145))) := by
  obtain ⟨m, hm⟩ := isPoison_eq_true.1 h
  obtain ⟨k, i, hd, hk⟩ := process_ok hm
  refine ⟨i, k.id, m, hd, hm, ?_⟩
  cases k with
  | block =>
    left
    obtain ⟨_, _, _, ks, hks, hdec⟩ := decryptKind_block_ok hk
    obtain ⟨_, _, _, key, hmem, dek, _, hkd, hdd⟩ := decryptBlock_ok_parts hdec
    obtain ⟨n2, hn2, e2⟩ := hs.enc_of_dec _ _ _ _ hkd
    obtain ⟨n1, hn1, e1⟩ := hs.enc_of_dec _ _ _ _ hdd
    exact ⟨rfl, ks, hks, key, hmem, dek, n1, n2, hn1, hn2, e2, e1⟩
  | struct =>
    right
    obtain ⟨ps, hps, priv, hpm, hdec⟩ := decryptKind_struct_ok hk
    obtain ⟨_, symKey, hne, hu, hdd⟩ := decryptStruct_ok_parts hdec
    obtain ⟨n2, hn2, e2⟩ := hs.enc_of_dec _ _ _ _ hdd
    exact ⟨rfl, ps, hps, priv, hpm, symKey, n2, hn2, hne, hu, e2⟩


/-! ## data that never raises the alarm -/

theorem headAlarms_of_head_ne (cbs : List CallbackT) (x : UInt8) (r : Bytes) (hx : x ≠ 37) :
    headAlarms cbs (x :: r) = 0 := by
  have ht : containerTag = [37, 37, 37] := by decide
  have : startsWith containerTag (x :: r) = false := by
    unfold startsWith
    rw [ht]
    simp [hx]
  unfold headAlarms
  simp [this]

/-- no `%` byte: no position is looked at, no alarm -/
theorem scanT_snd_plain (cbs : List CallbackT) (buf : Bytes) (h : ∀ x ∈ buf, x ≠ 37) : (scanT cbs buf).2 = 0 := by
  induction buf with
  | nil => rw [scanT_nil]
  | cons b r ih =>
    have hb : b ≠ 37 := h b List.mem_cons_self
    rw [scanT_snd_skip (c01_headStep_of_head_ne (outCbs cbs) b r hb), headAlarms_of_head_ne cbs b r hb,
      ih (fun x hx => h x (List.mem_cons_of_mem _ hx))]

/-- exact alarm count for one container between bytes without `%`: what was raised at the container -/
theorem scanT_snd_embedded (cbs : List CallbackT) (pre C suf m : Bytes)
    (hpre : ∀ x ∈ pre, x ≠ 37) (hsuf : ∀ x ∈ suf, x ≠ 37)
    (hC : C ≠ []) (hhit : headStep (outCbs cbs) (C ++ suf) = .replace m C.length) :
    (scanT cbs (pre ++ C ++ suf)).2 = headAlarms cbs (C ++ suf) := by
  induction pre with
  | nil =>
    rw [List.nil_append]
    cases hcs : C ++ suf with
    | nil => simp [hC] at hcs
    | cons b r =>
      rw [hcs] at hhit
      rw [scanT_cons, hhit]
      simp only
      rw [← hcs, List.drop_left, scanT_snd_plain cbs suf hsuf, Nat.zero_add]
  | cons b p ih =>
    have hb : b ≠ 37 := hpre b List.mem_cons_self
    rw [List.cons_append, List.cons_append,
      scanT_snd_skip (c01_headStep_of_head_ne (outCbs cbs) b _ hb), headAlarms_of_head_ne cbs b _ hb,
      ih (fun x hx => hpre x (List.mem_cons_of_mem _ hx)), Nat.add_zero]

theorem startsWith_tag_mem {d : Bytes} {i : Nat} (hi : i < d.length)
    (h : startsWith containerTag (d.drop i) = true) : (37 : UInt8) ∈ d := by
  have h3 := startsWith_containerTag h
  rw [List.drop_eq_getElem_cons hi] at h3
  have ht : containerTag = [37, 37, 37] := by decide
  rw [ht] at h3
  simp only [List.take_succ_cons, List.cons.injEq] at h3
  rw [← h3.1]
  exact List.getElem_mem hi

/-- the legacy scans leave a buffer without `"` alone and never call the handler -/
theorem processStructs_noTag (proc : Bytes → Out Bytes) (d : Bytes) (h : ∀ x ∈ d, x ≠ 34) :
    processStructs proc d = .ok d := by
  induction d with
  | nil => exact processStructs.eq_1 proc
  | cons b r ih =>
    have hb : b ≠ 34 := h b List.mem_cons_self
    have ht : structTag = [34,34,34,34,34,34,34,34] := by decide
    have hs : (!startsWith structTag (b :: r)) = true := by
      unfold startsWith
      rw [ht]
      simp [hb]
    rw [processStructs.eq_2, if_pos hs, ih (fun x hx => h x (List.mem_cons_of_mem _ hx))]
    rfl

/-- a serialized container around `x` that some key view opens: `x` begins with the four `"` of the
AcraBlock tag (an AcraStruct begins with eight) -/
theorem serBytes_opened_tag (c : CryptoOps) (pk : KeyView) (x : Bytes) (k : Kind) (m : Bytes)
    (hx : x ≠ []) (hlen : x.length + 12 < 2^64) (h : process c pk (serBytes x k.id) = .ok m) :
    x.take 4 = blockTag := by
  obtain ⟨k', i, hd, hk⟩ := process_ok h
  have hds := c01_deserialize_ser (id := k.id) (k := k) [] hx (c01_kindOfId_id k) hlen
  rw [List.append_nil] at hds
  rw [hds] at hd
  simp only [Out.ok.injEq, Prod.mk.injEq] at hd
  obtain ⟨rfl, _⟩ := hd
  cases k' with
  | block =>
    obtain ⟨hh, _⟩ := decryptKind_block_ok hk
    exact ((blockHeaderOk_iff x).1 hh).1
  | struct =>
    obtain ⟨ps, _, priv, _, hdec⟩ := decryptKind_struct_ok hk
    have h8 := (validateStruct_ok (decryptStruct_ok_parts hdec).1).2.1
    have : x.take 4 = (x.take 8).take 4 := by rw [List.take_take]; rfl
    rw [this, h8]
    decide

theorem mem_of_take4_blockTag {x : Bytes} (h : x.take 4 = blockTag) : (34 : UInt8) ∈ x := by
  have ht : blockTag = [34, 34, 34, 34] := by decide
  rw [ht] at h
  cases x with
  | nil => simp at h
  | cons a r =>
    simp only [List.take_succ_cons, List.cons.injEq] at h
    rw [h.1]
    exact List.mem_cons_self

theorem mem_of_infix {x d : Bytes} {a : UInt8} (hx : x <:+: d) (ha : a ∈ x) : a ∈ d := by
  obtain ⟨s, t, rfl⟩ := hx
  simp [ha]

/-- **ordinary data never raises the alarm**: a column value without `%` and without `"` bytes is
seen by no callback at all (no crypto assumption, any keys, any configuration) -/
theorem proxyOnColumn_plain (c : CryptoOps) (cfg : PoisonCfg) (kv : KeyView) (d : Bytes) (hl : d.length + 12 < 2^64)
    (h37 : ∀ x ∈ d, x ≠ 37) (h34 : ∀ x ∈ d, x ≠ 34) : (proxyOnColumn c cfg kv d).2 = 0 := by
  cases hn : (proxyOnColumn c cfg kv d).2 with
  | zero => rfl
  | succ n =>
    exfalso
    obtain ⟨_, s, hseen, hpo⟩ := proxyOnColumn_alarm c cfg kv d (by omega)
    obtain ⟨m, hm⟩ := isPoison_eq_true.1 hpo
    rcases hseen with ⟨i, hi, hst, _⟩ | ⟨x, hx, hne, rfl⟩ | ⟨o1, x, ho1, hx, hne, rfl⟩
    · exact h37 37 (startsWith_tag_mem hi hst) rfl
    · have hxl := infix_length_le hx
      have := mem_of_infix hx (mem_of_take4_blockTag (serBytes_opened_tag c cfg.pk x .struct m hne (by omega) hm))
      exact h34 34 this rfl
    · have ho : o1 = d := by
        split at ho1
        · cases ho1; rfl
        · rw [processStructs_noTag _ d h34] at ho1; cases ho1; rfl
      subst ho
      have hxl := infix_length_le hx
      have := mem_of_infix hx (mem_of_take4_blockTag (serBytes_opened_tag c cfg.pk x .block m hne (by omega) hm))
      exact h34 34 this rfl

/-- **an ordinary protected value of a client never raises the alarm**: a serialized container that the
reader's keys open to `m` and the poison keys do not open, between bytes without `%`: the client
receives `before ++ m ++ after`, alarm count 0 – with or without configured callbacks -/
theorem proxyOnColumn_client_value (c : CryptoOps) (cfg : PoisonCfg) (kv : KeyView) (k : Kind) (e pre suf m : Bytes)
    (he : e ≠ []) (hlen : e.length + 12 < 2^63)
    (hproc : process c kv (serBytes e k.id ++ suf) = .ok m) (hne : m ≠ serBytes e k.id ++ suf)
    (hnp : isPoison c cfg.pk (serBytes e k.id ++ suf) = false)
    (hpre : ∀ x ∈ pre, x ≠ 37) (hsuf : ∀ x ∈ suf, x ≠ 37) :
    proxyOnColumn c cfg kv (pre ++ serBytes e k.id ++ suf) = (.ok (pre ++ m ++ suf) true, 0) := by
  have hdec : decryptCallback c kv (serBytes e k.id ++ suf) = .replaced m := by
    unfold decryptCallback; rw [hproc]; simp [hne]
  have hpc : poisonCallback c cfg (serBytes e k.id ++ suf) = (.same, false) := by
    unfold poisonCallback; rw [hnp]; simp
  have hrunT : runCallbacksT (serBytes e k.id ++ suf) (plainT (fun _ => Cb.same) :: proxyCallbacks c cfg kv) =
      (.replace m, 0) := by
    unfold proxyCallbacks
    cases cfg.hasCallbacks <;> simp [runCallbacksT, plainT, hdec, hpc]
  have hrun : runCallbacks (serBytes e k.id ++ suf) ((fun _ => Cb.same) :: outCbs (proxyCallbacks c cfg kv)) = .replace m := by
    have := runCallbacksT_fst (serBytes e k.id ++ suf) (plainT (fun _ => Cb.same) :: proxyCallbacks c cfg kv)
    rw [hrunT] at this
    exact this.symm
  have hl : containerMin ≤ (pre ++ serBytes e k.id ++ suf).length := by
    rw [List.length_append, List.length_append, c01_serBytes_length]
    show 12 ≤ _
    omega
  have hstep := c01_headStep_of_procAt (c01_procAt_ser _ k e suf m he hlen hrun)
  have hT : onColumnT (plainT (fun _ => Cb.same) :: proxyCallbacks c cfg kv) (pre ++ serBytes e k.id ++ suf) =
      (.ok (pre ++ m ++ suf) true, 0) := by
    have hfst := onColumnT_fst (plainT (fun _ => Cb.same) :: proxyCallbacks c cfg kv) (pre ++ serBytes e k.id ++ suf)
    rw [outCbs_cons, outCb_plainT] at hfst
    have hcol : onColumn ((fun _ => Cb.same) :: outCbs (proxyCallbacks c cfg kv)) (pre ++ serBytes e k.id ++ suf) =
        .ok (pre ++ m ++ suf) true := by
      have := onColumnCompat_container' (outCbs (proxyCallbacks c cfg kv)) k e pre suf m he hlen hrun hpre hsuf
      rw [onColumnCompat_eq] at this
      cases hc : onColumn ((fun _ => Cb.same) :: outCbs (proxyCallbacks c cfg kv)) (pre ++ serBytes e k.id ++ suf) with
      | fatal => rw [hc] at this; cases this
      | panic => rw [hc] at this; cases this
      | ok out hit =>
        have hsc := c01_onColumn_scan ((fun _ => Cb.same) :: outCbs (proxyCallbacks c cfg kv)) _ (by simp) hl
        have hskip := c01_skip_of_no_tag_byte ((fun _ => Cb.same) :: outCbs (proxyCallbacks c cfg kv)) pre
          (serBytes e k.id ++ suf) hpre
        rw [← List.append_assoc] at hskip
        rw [c01_scan_embedded _ pre (serBytes e k.id) suf m hskip (serBytes_ne_nil e k.id) hstep] at hsc
        have hs' := c01_skip_of_no_tag_byte ((fun _ => Cb.same) :: outCbs (proxyCallbacks c cfg kv)) suf [] hsuf
        simp only [List.append_nil] at hs'
        obtain ⟨hit', hsc'⟩ := c01_scan_plain _ suf hs'
        rw [hsc', hc] at hsc
        rw [hsc]
        simp [ScanOut.prepend]
    have hsnd : (onColumnT (plainT (fun _ => Cb.same) :: proxyCallbacks c cfg kv) (pre ++ serBytes e k.id ++ suf)).2 = 0 := by
      rw [onColumnT_snd_of_long _ _ (by simp) hl,
        scanT_snd_embedded _ pre (serBytes e k.id) suf m hpre hsuf (serBytes_ne_nil e k.id)
          (by rw [outCbs_cons, outCb_plainT]; exact hstep)]
      unfold headAlarms
      rw [c01_startsWith_ser, c01_extractContainer_ser suf he (c01_kindOfId_id k) hlen]
      simp only [Bool.not_true, Bool.false_eq_true, if_false]
      rw [hrunT]
    rw [hcol] at hfst
    exact Prod.ext hfst hsnd
  unfold proxyOnColumn onColumnCompatT
  simp only [hT]
  simp


/-- the wrapper's `OnAcraStruct`/`OnAcraBlock` with the proxy's callback stack returns a bare envelope
unchanged when neither the poison keys nor the client's keys open its serialized form -/
theorem onBare_stack_same (c : CryptoOps) (cfg : PoisonCfg) (kv : KeyView) (id : UInt8) (bare : Bytes) (hb : bare ≠ [])
    (hnp : isPoison c cfg.pk (serBytes bare id) = false) (hnd : ∀ m, process c kv (serBytes bare id) ≠ .ok m) :
    onBare (proxyStack c cfg kv) id bare = .ok bare := by
  have hd : decryptCallback c kv (serBytes bare id) = .same := by
    unfold decryptCallback
    split
    · next d hd => exact absurd hd (hnd d)
    · rfl
  have hp : (poisonCallback c cfg (serBytes bare id)).1 = .same := by
    rw [poisonCallback_out, hnp]; simp
  unfold onBare proxyStack
  rw [c01_serialize_eq id hb]
  simp only [Out.bind_ok, onCryptoEnvelope, hd, hp]
  simp

/-- **data that neither the poison keys nor the client's keys open never raises the alarm** -/
theorem proxyOnColumn_unreadable (c : CryptoOps) (cfg : PoisonCfg) (kv : KeyView) (d : Bytes)
    (h1 : ∀ i, i < d.length → startsWith containerTag (d.drop i) = true → isPoison c cfg.pk (d.drop i) = false)
    (h2 : ∀ x id, x <:+: d → x ≠ [] → isPoison c cfg.pk (serBytes x id) = false)
    (h3 : ∀ x, x <:+: d → x ≠ [] → ∀ m, process c kv (serBytes x idStruct) ≠ .ok m) :
    (proxyOnColumn c cfg kv d).2 = 0 := by
  cases hn : (proxyOnColumn c cfg kv d).2 with
  | zero => rfl
  | succ n =>
    exfalso
    obtain ⟨_, s, hseen, hpo⟩ := proxyOnColumn_alarm c cfg kv d (by omega)
    rcases hseen with ⟨i, hi, hst, rfl⟩ | ⟨x, hx, hne, rfl⟩ | ⟨o1, x, ho1, hx, hne, rfl⟩
    · rw [h1 i hi hst] at hpo; cases hpo
    · rw [h2 x _ hx hne] at hpo; cases hpo
    · have ho : o1 = d := by
        split at ho1
        · cases ho1; rfl
        · rw [processStructs_same _ d (fun x hx hne =>
            onBare_stack_same c cfg kv idStruct x hne (h2 x _ hx hne) (h3 x hx hne))] at ho1
          cases ho1; rfl
      subst ho
      rw [h2 x _ hx hne] at hpo; cases hpo


/-! ## small facts for the non-vacuity examples -/

theorem createPoison_block_eq (c : CryptoOps) (pk : KeyView) (key : Bytes) (n : Nat) (rnd b : Bytes)
    (hk : pk.sym = some key) (hb : createBlock c key [] (rnd.take n) (rnd.drop n) = .ok b) :
    createPoison c pk .block n rnd = serialize b idBlock := by
  unfold createPoison
  simp only [hk, hb]
  rfl

theorem createPoison_struct_eq (c : CryptoOps) (pk : KeyView) (pub : Bytes) (n : Nat) (rnd b : Bytes)
    (hk : pk.pub = some pub) (hb : createStruct c pub [] (rnd.take n) (rnd.drop n) = .ok b) :
    createPoison c pk .struct n rnd = serialize b idStruct := by
  unfold createPoison
  simp only [hk, hb]
  rfl

/-- a client without keys decrypts nothing through `DecryptWithHandler` -/
theorem decryptWithHandler_no_keys (c : CryptoOps) (kv : KeyView) (hp : kv.privs = none) (hs : kv.syms = none)
    (k : Kind) (d m : Bytes) : decryptWithHandler c kv k d ≠ .ok m := by
  intro h
  unfold decryptWithHandler at h
  cases hd : deserialize d with
  | panic => rw [hd] at h; cases h
  | err => rw [hd] at h; cases h
  | ok q =>
    obtain ⟨i, id⟩ := q
    rw [hd] at h
    simp only [Out.bind_ok] at h
    split at h
    · cases h
    · cases k with
      | block =>
        obtain ⟨_, _, _, ks, hks, _⟩ := decryptKind_block_ok h
        rw [hs] at hks; cases hks
      | struct =>
        obtain ⟨ps, hps, _⟩ := decryptKind_struct_ok h
        rw [hp] at hps; cases hps

end AcraModel.Envelope
