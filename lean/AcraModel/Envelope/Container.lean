import AcraModel.Envelope.AcraStruct
/-
Serialized container and the registry handler (`crypto/registry_handler.go`, `crypto/acrablock.go`,
`crypto/acrastruct.go`, `crypto/decryptor.go`):
  `%%%`(3) | total length(8, LE) | envelope id(1) | internal envelope
The model follows the code after the `fix:` commit that validates the declared length in
`ExtractSerializedContainer`.
-/
namespace AcraModel.Envelope
open AcraModel Generated

def containerTag : Bytes := toBytes Layout.containerTag
def containerMin : Nat := Layout.containerMinSize
def idBlock : UInt8 := UInt8.ofNat Layout.acraBlockEnvelopeID
def idStruct : UInt8 := UInt8.ofNat Layout.acraStructEnvelopeID

/-- what the key store hands out for one client identity (`none` = key store error / no keys) -/
structure KeyView where
  pub : Option Bytes          -- GetClientIDEncryptionPublicKey
  privs : Option (List Bytes) -- GetServerDecryptionPrivateKeys, newest first
  sym : Option Bytes          -- GetClientIDSymmetricKey (current)
  syms : Option (List Bytes)  -- GetClientIDSymmetricKeys, newest first

inductive Kind | struct | block
deriving DecidableEq, Repr

def Kind.id : Kind → UInt8
  | .struct => idStruct
  | .block => idBlock

def kindOfId (id : UInt8) : Option Kind :=
  if id = idBlock then some .block else if id = idStruct then some .struct else none

/-- `ContainerHandler.MatchDataSignature` of the two handlers -/
def matchKind (k : Kind) (data : Bytes) : Bool :=
  match k with
  | .struct => validateStruct data == .ok ()
  | .block => (extractBlock data).isOk

/-- `validateSerializedContainer`: the envelope id -/
def validateContainer (data : Bytes) : Out UInt8 :=
  if data.length ≤ containerMin then .err else do
    let t ← goSlice data 0 containerTag.length
    if t ≠ containerTag then .err else do
      let id ← goIndex data (Layout.containerTagBeginSize + Layout.containerLengthSize)
      match kindOfId id with
      | some _ => pure id
      | none => .err

/-- `matchOldContainer`: a bare AcraStruct (whole buffer) or an AcraBlock at the start -/
def matchOld (data : Bytes) : Out (UInt8 × Int) :=
  match validateStruct data with
  | .panic => .panic
  | .ok () => do
    let dl ← getDataLength data
    pure (idStruct, toInt64 ((dl + structMin).toNat))
  | .err =>
    match extractBlock data with
    | .ok (n, _) => .ok (idBlock, n)
    | .panic => .panic
    | .err => .err

/-- `getEnvelopeIDFromData`: id and whether the *old* (bare) form matched -/
def getEnvelopeID (data : Bytes) : Out (UInt8 × Bool) :=
  match validateContainer data with
  | .ok id => .ok (id, false)
  | .panic => .panic
  | .err =>
    match matchOld data with
    | .ok (id, _) => .ok (id, true)
    | .panic => .panic
    | .err => .err

/-- `getSerializedContainerLength` (uint64 arithmetic) -/
def containerInternalLength (enc : Bytes) : Out Nat := do
  let lb ← goSlice enc containerTag.length (containerTag.length + Layout.containerLengthSize)
  let internal := (leVal lb + 2^64 - containerMin) % 2^64
  if internal > enc.length - containerMin then .err else pure internal

/-- `DeserializeEncryptedData`: (internal envelope, id) -/
def deserialize (enc : Bytes) : Out (Bytes × UInt8) := do
  let (id, old) ← getEnvelopeID enc
  if old then pure (enc, id) else do
    let n ← containerInternalLength enc
    let rest ← goSliceFrom enc containerMin
    pure (rest.take n, id)

/-- `SerializeEncryptedData` -/
def serialize (e : Bytes) (id : UInt8) : Out Bytes :=
  if e = [] then .err else
    .ok (containerTag ++ leBytes 8 (containerMin + e.length) ++ [id] ++ e)

/-- `ExtractSerializedContainer`: (length to advance, container handed to the callbacks) -/
def extractContainer (data : Bytes) : Out (Int × Bytes) :=
  match validateContainer data with
  | .panic => .panic
  | .ok _ => do
    let lb ← goSlice data containerTag.length (containerTag.length + Layout.containerLengthSize)
    let length := leVal lb
    if length < containerMin ∨ length > data.length then .err else pure (toInt64 length, data)
  | .err =>
    match matchOld data with
    | .ok (id, n) => do
      let s ← serialize data id
      pure (n, s)
    | .panic => .panic
    | .err => .err

/-- `RegistryHandler.MatchDataSignature` -/
def registryMatch (data : Bytes) : Bool :=
  match deserialize data with
  | .ok (internal, id) =>
    match kindOfId id with
    | some k => matchKind k internal
    | none => false
  | _ => false

/-- `ContainerHandler.Decrypt` of the two handlers (context is nil) -/
def decryptKind (c : CryptoOps) (kv : KeyView) (k : Kind) (internal : Bytes) : Out Bytes :=
  match k with
  | .struct =>
    match validateStruct internal with
    | .panic => .panic
    | .err => .err
    | .ok () =>
      match kv.privs with
      | none => .err
      | some ps => decryptStructRotated c [] internal ps
  | .block =>
    match extractBlock internal with
    | .panic => .panic
    | .err => .err
    | .ok (n, b) =>
      -- `NewAcraBlockFromData`: the whole data must be one block
      if n ≠ internal.length then .err else
      match kv.syms with
      | none => .err
      | some ks => decryptBlock c ks [] b

/-- `RegistryHandler.DecryptWithHandler` -/
def decryptWithHandler (c : CryptoOps) (kv : KeyView) (k : Kind) (data : Bytes) : Out Bytes := do
  let (internal, _) ← deserialize data
  if !matchKind k internal then .err else decryptKind c kv k internal

/-- `RegistryHandler.Process` -/
def process (c : CryptoOps) (kv : KeyView) (data : Bytes) : Out Bytes := do
  let (id, _) ← getEnvelopeID data
  match kindOfId id with
  | none => .err
  | some k => decryptWithHandler c kv k data

/-- `ContainerHandler.EncryptWithClientID` of the two handlers (context is nil) -/
def encryptKind (c : CryptoOps) (kv : KeyView) (k : Kind) (data rnd : Bytes) : Out Bytes :=
  if matchKind k data then .ok data else
  match k with
  | .struct =>
    match kv.pub with
    | none => .err
    | some p => createStruct c p [] data rnd
  | .block =>
    match kv.sym with
    | none => .err
    | some key => createBlock c key [] data rnd

/-- `RegistryHandler.EncryptWithHandler` / `EncryptWithClientID`: already protected input passes through -/
def protect (c : CryptoOps) (kv : KeyView) (k : Kind) (data rnd : Bytes) : Out Bytes :=
  if matchKind k data || registryMatch data then .ok data else do
    let e ← encryptKind c kv k data rnd
    serialize e k.id

/-- reveal = `RegistryHandler.Process` -/
def reveal (c : CryptoOps) (kv : KeyView) (data : Bytes) : Out Bytes := process c kv data

end AcraModel.Envelope
