import AcraModel.Envelope.AcraBlock
/-
AcraStruct – the asymmetric envelope (`acrastruct/utils.go`):
  tag(8) | ephemeral public key(45) | wrapped symmetric key(84) | dataLength(8, LE) | sealed data
-/
namespace AcraModel.Envelope
open AcraModel Generated

def structTagLen : Nat := Layout.structTag.length
def structPubLen : Nat := Layout.structPublicKeyLength
def structKeyBlockLen : Nat := Layout.structKeyBlockLength
def structDataLenSize : Nat := Layout.structDataLengthSize
/-- `GetMinAcraStructLength` -/
def structMin : Nat := structTagLen + structKeyBlockLen + structDataLenSize

/-- `GetDataLengthFromAcraStruct`: `int(uint64)` reinterpretation; panics on short input -/
def getDataLength (data : Bytes) : Out Int := do
  let b ← goSlice data (structMin - structDataLenSize) structMin
  pure (toInt64 (leVal b))

/-- `ValidateAcraStructLength`: `ok ()` or `err` -/
def validateStruct (data : Bytes) : Out Unit :=
  if data.length < structMin then .err else do
    let t ← goSlice data 0 structTagLen
    if t ≠ structTag then .err else do
      let dl ← getDataLength data
      if dl ≠ ((data.length - structMin : Nat) : Int) then .err else pure ()

/-- `ExtractAcraStruct` -/
def extractStruct (data : Bytes) : Out (Nat × Bytes) :=
  if data.length < structMin then .err else do
    let b ← goSlice data (structMin - structDataLenSize) structMin
    -- int(uint64) + int : wraps in 64 bits
    let l := toInt64 (leVal b + structMin)
    if l < 0 ∨ l > data.length then .err else do
      let s ← goSlice data 0 l.toNat
      match validateStruct s with
      | .ok () => pure (l.toNat, s)
      | .err => .err
      | .panic => .panic

/-- `DecryptAcrastruct` -/
def decryptStruct (c : CryptoOps) (priv ctx data : Bytes) : Out Bytes := do
  validateStruct data
  let inner ← goSliceFrom data structTagLen
  let pub ← goSlice inner 0 structPubLen
  let wrapped ← goSlice inner structPubLen structKeyBlockLen
  match c.unwrap priv pub wrapped with
  | none => .err
  | some symKey =>
    let _ ← goSlice inner structKeyBlockLen (structKeyBlockLen + structDataLenSize)
    if symKey = [] then .err else do
      let body ← goSliceFrom inner (structKeyBlockLen + structDataLenSize)
      match c.dec symKey ctx body with
      | none => .err
      | some m => .ok m

/-- `DecryptRotatedAcrastruct`: first key that works; empty list is an error -/
def decryptStructRotated (c : CryptoOps) (ctx data : Bytes) : List Bytes → Out Bytes
  | [] => .err
  | k :: ks =>
    match decryptStruct c k ctx data with
    | .ok m => .ok m
    | .panic => .panic
    | .err => decryptStructRotated c ctx data ks

/-- `CreateAcrastruct`; `rnd` is the stream read from `crypto/rand`: 32 bytes key-pair seed, 32 bytes
symmetric key, 12 nonce (wrap), 12 nonce (seal) -/
def createStruct (c : CryptoOps) (pub ctx m rnd : Bytes) : Out Bytes :=
  let ePriv := c.privOfSeed (rnd.take 32)
  let symKey := (rnd.drop 32).take 32
  let n1 := (rnd.drop 64).take 12
  let n2 := (rnd.drop 76).take 12
  match c.wrap ePriv pub symKey n1 with
  | none => .err
  | some encKey =>
    match c.enc symKey ctx m n2 with
    | none => .err
    | some encData =>
      .ok (structTag ++ c.pubOf ePriv ++ encKey ++ leBytes 8 encData.length ++ encData)

end AcraModel.Envelope
