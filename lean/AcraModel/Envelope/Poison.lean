import AcraModel.Envelope.Detector
/-
Poison records (`poison/poison.go`, `crypto/poison_detector.go`): intrusion-detection values sealed
under dedicated poison keys. The detector callback tries to decrypt every recognised container with
the poison keys; success raises the alarm (runs the configured callbacks).

`scanT` is the column scan of `Detector.lean` with an alarm counter threaded through, so that
"the alarm is raised (before the value is delivered)" is a statement about the value returned:
the scan returns only after all callbacks have run, so `alarms > 0` in the result means the callbacks
ran before delivery.
-/
namespace AcraModel.Envelope
open AcraModel

/-- `poison.CreatePoisonRecord` / `CreateSymmetricPoisonRecord`: `rnd` = data bytes, then the
envelope's own random stream -/
def createPoison (c : CryptoOps) (pk : KeyView) (k : Kind) (dataLen : Nat) (rnd : Bytes) : Out Bytes := do
  let data := rnd.take dataLen
  let e ← match k with
    | .struct => (match pk.pub with
        | none => Out.err
        | some p => createStruct c p [] data (rnd.drop dataLen))
    | .block => (match pk.sym with
        | none => Out.err
        | some key => createBlock c key [] data (rnd.drop dataLen))
  serialize e k.id

structure PoisonCfg where
  /-- `PoisonRecordCallbackStorage.HasCallbacks()` -/
  hasCallbacks : Bool
  /-- whether running the configured callbacks returns an error -/
  callbackErr : Bool
  /-- the poison keys as a key view (`PoisonRecordKeyStoreWrapper`) -/
  pk : KeyView

/-- does the container decrypt under the poison keys -/
def isPoison (c : CryptoOps) (pk : KeyView) (container : Bytes) : Bool := (process c pk container).isOk

/-- a callback together with "did it raise the alarm" -/
abbrev CallbackT := Bytes → Cb × Bool

def plainT (cb : Callback) : CallbackT := fun x => (cb x, false)

/-- `PoisonRecordDetector.OnCryptoEnvelope` -/
def poisonCallback (c : CryptoOps) (cfg : PoisonCfg) : CallbackT := fun container =>
  if !cfg.hasCallbacks then (.same, false)
  else if isPoison c cfg.pk container then (if cfg.callbackErr then .fatal else .same, true)
  else (.same, false)

def runCallbacksT (container : Bytes) : List CallbackT → CbsOut × Nat
  | [] => (.skip, 0)
  | cb :: rest =>
    match cb container with
    | (.fatal, a) => (.fatal, a.toNat)
    | (.replaced b, a) => (.replace b, a.toNat)
    | (_, a) => let (o, n) := runCallbacksT container rest; (o, n + a.toNat)

/-- `scan` with the number of alarms raised on the way -/
def scanT (cbs : List CallbackT) (rest : Bytes) : ScanOut × Nat :=
  match rest with
  | [] => (.ok [] false, 0)
  | b :: r =>
    if !startsWith containerTag (b :: r) then let (o, n) := scanT cbs r; (o.prepend [b], n) else
    match extractContainer (b :: r) with
    | .panic => (.panic, 0)
    | .err => let (o, n) := scanT cbs r; (o.prepend [b], n)
    | .ok (n, container) =>
      match runCallbacksT container cbs with
      | (.fatal, a) => (.fatal, a)
      | (.skip, a) => let (o, k) := scanT cbs r; (o.prepend [b] true, k + a)
      | (.replace p, a) =>
        if hn : 0 < n ∧ n ≤ (b :: r).length then
          let (o, k) := scanT cbs ((b :: r).drop n.toNat); (o.prepend p true, k + a)
        else (.panic, a)
termination_by rest.length
decreasing_by
  all_goals simp_wf
  all_goals omega

/-- `EnvelopeDetector.OnColumn` with alarm count -/
def onColumnT (cbs : List CallbackT) (inBuffer : Bytes) : ScanOut × Nat :=
  if inBuffer.length < containerMin ∨ cbs.isEmpty then (.ok inBuffer false, 0) else scanT cbs inBuffer

/-- `EnvelopeDetector.OnCryptoEnvelope` with alarm count -/
def onCryptoEnvelopeT (container : Bytes) : List CallbackT → Out Bytes × Nat
  | [] => (.ok container, 0)
  | cb :: rest =>
    match cb container with
    | (.fatal, a) => (.err, a.toNat)
    | (.replaced b, a) => (.ok b, a.toNat)
    | (_, a) => let (o, n) := onCryptoEnvelopeT container rest; (o, n + a.toNat)

/-- `OldContainerDetectorWrapper.OnAcraStruct` / `OnAcraBlock` with alarm count -/
def onBareT (cbs : List CallbackT) (id : UInt8) (bare : Bytes) : Out Bytes × Nat :=
  match serialize bare id with
  | .ok s =>
    match onCryptoEnvelopeT s cbs with
    | (.ok p, a) => (if p == s then .ok bare else .ok p, a)
    | (o, a) => (o, a)
  | .err => (.err, 0)
  | .panic => (.panic, 0)

def bindT (x : Out Bytes × Nat) (f : Bytes → Bytes) (a : Nat) : Out Bytes × Nat :=
  (x.1.bind (fun o => .ok (f o)), x.2 + a)

/-- `acrastruct.ProcessAcraStructs` with alarm count -/
def processStructsT (proc : Bytes → Out Bytes × Nat) (rest : Bytes) : Out Bytes × Nat :=
  match rest with
  | [] => (.ok [], 0)
  | b :: r =>
    if !startsWith structTag (b :: r) then bindT (processStructsT proc r) (b :: ·) 0 else
    if (b :: r).length > structMin then
      match getDataLength (b :: r) with
      | .panic => (.panic, 0)
      | .err => (.err, 0)
      | .ok dl =>
        let l := wrapInt64 (dl + structMin)
        if hl : 0 < l ∧ l ≤ (b :: r).length then
          match proc ((b :: r).take l.toNat) with
          | (.ok p, a) => bindT (processStructsT proc ((b :: r).drop l.toNat)) (p ++ ·) a
          | (.err, a) => (.err, a)
          | (.panic, a) => (.panic, a)
        else bindT (processStructsT proc r) (b :: ·) 0
    else bindT (processStructsT proc r) (b :: ·) 0
termination_by rest.length
decreasing_by
  all_goals simp_wf
  all_goals omega

/-- `acrablock.ProcessAcraBlocks` with alarm count -/
def processBlocksT (proc : Bytes → Out Bytes × Nat) (rest : Bytes) : Out Bytes × Nat :=
  match rest with
  | [] => (.ok [], 0)
  | b :: r =>
    if !startsWith blockTag (b :: r) then bindT (processBlocksT proc r) (b :: ·) 0 else
    if (b :: r).length > blockMin then
      match extractBlock (b :: r) with
      | .panic => (.panic, 0)
      | .err => bindT (processBlocksT proc r) (b :: ·) 0
      | .ok (n, blk) =>
        if hn : 0 < n ∧ n ≤ (b :: r).length then
          match proc blk with
          | (.ok p, a) => bindT (processBlocksT proc ((b :: r).drop n)) (p ++ ·) a
          | (.err, a) => (.err, a)
          | (.panic, a) => (.panic, a)
        else (.panic, 0)
    else bindT (processBlocksT proc r) (b :: ·) 0
termination_by rest.length
decreasing_by
  all_goals simp_wf
  all_goals omega

/-- `OldContainerDetectorWrapper.OnColumn` with alarm count; `cbs` are the callbacks after the wrapper's own -/
def onColumnCompatT (cbs : List CallbackT) (inBuffer : Bytes) : ScanOut × Nat :=
  let all := plainT (fun _ => Cb.same) :: cbs
  match onColumnT all inBuffer with
  | (.fatal, a) => (.fatal, a)
  | (.panic, a) => (.panic, a)
  | (.ok out hit, a) =>
    if hit || out != inBuffer then (.ok out hit, a) else
      let s1 := if inBuffer.length < structMin then (.ok inBuffer, 0) else processStructsT (onBareT all idStruct) inBuffer
      match s1 with
      | (.panic, a1) => (.panic, a + a1)
      | (.err, a1) => (.fatal, a + a1)
      | (.ok o1, a1) =>
        let s2 := if o1.length < blockMin then (.ok o1, 0) else processBlocksT (onBareT all idBlock) o1
        match s2 with
        | (.panic, a2) => (.panic, a + a1 + a2)
        | (.err, a2) => (.fatal, a + a1 + a2)
        | (.ok o2, a2) => (.ok o2 false, a + a1 + a2)

/-- the callback stack of the SQL proxies: compatibility wrapper, poison detector (only when
callbacks are configured), decrypt handler -/
def proxyCallbacks (c : CryptoOps) (cfg : PoisonCfg) (kv : KeyView) : List CallbackT :=
  (if cfg.hasCallbacks then [poisonCallback c cfg] else []) ++ [plainT (decryptCallback c kv)]

/-- what a column value goes through in the SQL proxies (`containerDetector.OnColumn`) -/
def proxyOnColumn (c : CryptoOps) (cfg : PoisonCfg) (kv : KeyView) (data : Bytes) : ScanOut × Nat :=
  onColumnCompatT (proxyCallbacks c cfg kv) data

/-- AcraTranslator's decrypt operations: reveal with the client's keys; on failure scan the input
with the poison detector only; the client always gets an error then. Result: (value?, alarms) -/
def translatorDecrypt (c : CryptoOps) (cfg : PoisonCfg) (kv : KeyView) (k : Kind) (data : Bytes) : Out Bytes × Nat :=
  match decryptWithHandler c kv k data with
  | .ok m => (.ok m, 0)
  | .panic => (.panic, 0)
  | .err =>
    let cbs := if cfg.hasCallbacks then [poisonCallback c cfg] else []
    (.err, (onColumnT cbs data).2)

/-- the same with the buffer handed to the poison detector on failure made explicit: `DecryptWithHandler(handler,
data, …)` fails ⇒ `poisonDetector.OnColumn(ctx, scanned)`. WHICH variable the code passes there – and what it holds on
that path – is a regenerated fact (`Wiring.translatorPoisonSites`); `translatorDecrypt` is the case `scanned = data`. -/
def translatorDecryptScan (c : CryptoOps) (cfg : PoisonCfg) (kv : KeyView) (k : Kind) (data scanned : Bytes) : Out Bytes × Nat :=
  match decryptWithHandler c kv k data with
  | .ok m => (.ok m, 0)
  | .panic => (.panic, 0)
  | .err =>
    let cbs := if cfg.hasCallbacks then [poisonCallback c cfg] else []
    (.err, (onColumnT cbs scanned).2)

theorem translatorDecryptScan_self (c : CryptoOps) (cfg : PoisonCfg) (kv : KeyView) (k : Kind) (data : Bytes) :
    translatorDecryptScan c cfg kv k data data = translatorDecrypt c cfg kv k data := rfl

end AcraModel.Envelope
