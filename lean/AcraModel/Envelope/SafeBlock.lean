import AcraModel.Envelope.SafeBasic
/-!
AcraBlock: closed forms of `extractBlock` / `decryptBlock` and what follows from them – no panic,
bounds of an extracted block, shape of a found data key (helpers for C03 / C14).
-/
namespace AcraModel.Envelope
open AcraModel Generated


/-- the declared rest length of an AcraBlock header -/
def blockRest (d : Bytes) : Nat := leVal ((d.take 12).drop 4)

/-- the four header checks of `ExtractAcraBlockFromData` -/
def blockHeaderOk (d : Bytes) : Bool :=
  (d.take 4 == blockTag) && decide (14 ≤ blockRest d ∧ blockRest d ≤ d.length - 4) &&
    Layout.blockKeyBackends.contains (d.getD 12 0).toNat && Layout.blockDataBackends.contains (d.getD 15 0).toNat

theorem getD_eq_getElem (d : Bytes) (i : Nat) (h : i < d.length) : d.getD i 0 = d[i] := by
  simp [List.getD, List.getElem?_eq_getElem h]

theorem extractBlock_eq (d : Bytes) :
    extractBlock d = if d.length < 18 then .err else
      if blockHeaderOk d then .ok (4 + blockRest d, d.take (4 + blockRest d)) else .err := by
  unfold extractBlock
  rw [show blockMin = 18 from rfl, show Layout.blockTagBeginSize = 4 from rfl,
    show Layout.blockRestAcraBlockLengthPosition = 4 from rfl, show Layout.blockRestAcraBlockLengthSize = 8 from rfl,
    show Layout.blockKeyEncryptionKeyTypePosition = 12 from rfl, show Layout.blockDataEncryptionTypePosition = 15 from rfl]
  by_cases h : d.length < 18
  · rw [if_pos h, if_pos h]
  · rw [if_neg h, if_neg h]
    have h : 18 ≤ d.length := by omega
    rw [goSlice_zero_ok d 4 (by omega), goSlice_ok d 4 (4+8) (by omega) (by omega),
      goIndex_ok d 12 (by omega), goIndex_ok d 15 (by omega)]
    simp only [Out.bind_ok]
    unfold blockHeaderOk blockRest
    rw [getD_eq_getElem d 12 (by omega), getD_eq_getElem d 15 (by omega)]
    simp only [Nat.reduceSub, Nat.reduceAdd]
    split
    · next hc =>
      simp only [Bool.and_eq_true, decide_eq_true_eq] at hc
      rw [goSlice_zero_ok d _ (by omega)]
      rfl
    · rfl


def blockKeyLen (b : Bytes) : Nat := leVal ((b.take 18).drop 16)
def blockEncKey (b : Bytes) : Bytes := (b.take (18 + blockKeyLen b)).drop 18
def blockEncData (b : Bytes) : Bytes := b.drop (18 + blockKeyLen b)
def blockKid (b : Bytes) : Bytes := (b.take 15).drop 13

/-- what `AcraBlock.Decrypt` does once the key has been found -/
def decryptBlockTail (c : CryptoOps) (ctx b : Bytes) : Option Bytes → Out Bytes
  | none => .err
  | some dek =>
    if !Layout.blockDataBackends.contains (b.getD 15 0).toNat then .panic else
    match c.dec dek ctx (blockEncData b) with
    | none => .err
    | some m => .ok m

theorem decryptBlock_eq (c : CryptoOps) (keys : List Bytes) (ctx b : Bytes) :
    decryptBlock c keys ctx b = if b.length < 18 then .err else
      if b.length < 18 + blockKeyLen b then .err else
        findDek c (Layout.blockKeyBackends.contains (b.getD 12 0).toNat) ctx (blockEncKey b) (blockKid b) keys
          >>= decryptBlockTail c ctx b := by
  unfold decryptBlock
  rw [show blockMin = 18 from rfl, show blockKeyPos = 18 from rfl,
    show Layout.blockDataEncryptionKeyLengthPosition = 16 from rfl, show Layout.blockDataEncryptionKeyLengthSize = 2 from rfl,
    show Layout.blockKeyEncryptionKeyTypePosition = 12 from rfl, show Layout.blockDataEncryptionTypePosition = 15 from rfl,
    show Layout.blockKeyEncryptionKeyIDPosition = 13 from rfl, show Layout.blockKeyEncryptionKeyIDSize = 2 from rfl]
  by_cases h : b.length < 18
  · rw [if_pos h, if_pos h]
  · rw [if_neg h, if_neg h]
    have h : 18 ≤ b.length := by omega
    rw [goSlice_ok b 16 (16+2) (by omega) (by omega)]
    simp only [Out.bind_ok, Nat.reduceAdd]
    unfold blockEncKey blockKid blockKeyLen
    by_cases h2 : b.length < 18 + leVal (List.drop 16 (List.take 18 b))
    · rw [if_pos h2, if_pos h2]
    · rw [if_neg h2, if_neg h2]
      rw [goSlice_ok b 18 _ (by omega) (by omega), goSliceFrom_ok b _ (by omega),
        goIndex_ok b 12 (by omega), goIndex_ok b 15 (by omega), goSlice_ok b 13 15 (by omega) (by omega)]
      simp only [Out.bind_ok]
      rw [getD_eq_getElem b 12 (by omega)]
      congr 1
      funext r
      cases r with
      | none => rfl
      | some dek =>
        simp only [decryptBlockTail, blockEncData, blockKeyLen]
        rw [getD_eq_getElem b 15 (by omega)]
        rfl


/-! ### consequences -/

theorem extractBlock_ne_panic (d : Bytes) : extractBlock d ≠ .panic := by
  rw [extractBlock_eq]; repeat' split
  all_goals simp

theorem extractBlock_ok {d : Bytes} {n : Nat} {b : Bytes} (h : extractBlock d = .ok (n, b)) :
    18 ≤ d.length ∧ blockHeaderOk d = true ∧ n = 4 + blockRest d ∧ b = d.take n := by
  rw [extractBlock_eq] at h
  split at h
  · cases h
  · split at h
    · next h1 h2 => cases h; exact ⟨by omega, h2, rfl, rfl⟩
    · cases h

theorem blockHeaderOk_iff (d : Bytes) : blockHeaderOk d = true ↔
    d.take 4 = blockTag ∧ 14 ≤ blockRest d ∧ blockRest d ≤ d.length - 4 ∧
      Layout.blockKeyBackends.contains (d.getD 12 0).toNat = true ∧
      Layout.blockDataBackends.contains (d.getD 15 0).toNat = true := by
  simp [blockHeaderOk, and_assoc]

theorem extractBlock_bounds' {d : Bytes} {n : Nat} {b : Bytes} (h : extractBlock d = .ok (n, b)) :
    18 ≤ n ∧ n ≤ d.length ∧ b = d.take n := by
  obtain ⟨h1, h2, h3, h4⟩ := extractBlock_ok h
  rw [blockHeaderOk_iff] at h2
  exact ⟨by omega, by omega, h4⟩

theorem findDek_known_ne_panic (c : CryptoOps) (ctx encKey kid : Bytes) (keys : List Bytes) :
    findDek c true ctx encKey kid keys ≠ .panic := by
  induction keys with
  | nil => simp [findDek]
  | cons k ks ih =>
    simp only [findDek]
    split
    · simp only [Bool.not_true, Bool.false_eq_true, if_false]
      split
      · simp
      · exact ih
    · exact ih

theorem findDek_ne_err (c : CryptoOps) (kb : Bool) (ctx encKey kid : Bytes) (keys : List Bytes) :
    findDek c kb ctx encKey kid keys ≠ .err := by
  induction keys with
  | nil => simp [findDek]
  | cons k ks ih =>
    simp only [findDek]
    repeat' split
    all_goals first | exact ih | simp

/-- a found data key was unsealed from the key part by one of the reader's keys whose id is the block's -/
theorem findDek_some {c : CryptoOps} {kb : Bool} {ctx encKey kid : Bytes} {keys : List Bytes} {dek : Bytes}
    (h : findDek c kb ctx encKey kid keys = .ok (some dek)) :
    kb = true ∧ ∃ key ∈ keys, keyId c key ctx = kid ∧ c.dec key ctx encKey = some dek := by
  induction keys with
  | nil => simp [findDek] at h
  | cons k ks ih =>
    simp only [findDek] at h
    split at h
    · next hk =>
      split at h
      · cases h
      · next hb =>
        split at h
        · next hd =>
          cases h
          refine ⟨by simpa using hb, k, List.mem_cons_self, by simpa using hk, hd⟩
        · obtain ⟨h1, key, hm, h2⟩ := ih h
          exact ⟨h1, key, List.mem_cons_of_mem _ hm, h2⟩
    · obtain ⟨h1, key, hm, h2⟩ := ih h
      exact ⟨h1, key, List.mem_cons_of_mem _ hm, h2⟩

/-- a block that `extractBlock` accepted has registered backends, so decrypting it cannot panic -/
theorem decryptBlock_of_header_ne_panic (c : CryptoOps) (keys : List Bytes) (ctx b : Bytes)
    (h12 : Layout.blockKeyBackends.contains (b.getD 12 0).toNat = true)
    (h15 : Layout.blockDataBackends.contains (b.getD 15 0).toNat = true) :
    decryptBlock c keys ctx b ≠ .panic := by
  rw [decryptBlock_eq]
  split
  · simp
  · split
    · simp
    · rw [h12]
      apply Out.bind_ne_panic _ _ (findDek_known_ne_panic _ _ _ _ _)
      intro r _
      cases r with
      | none => simp [decryptBlockTail]
      | some dek =>
        simp only [decryptBlockTail, h15, Bool.not_true, Bool.false_eq_true, if_false]
        split <;> simp

theorem getD_take (d : Bytes) (n i : Nat) (h : i < n) : (d.take n).getD i 0 = d.getD i 0 := by
  simp [List.getD, h]

theorem decryptBlock_extracted_ne_panic (c : CryptoOps) (keys : List Bytes) (ctx d : Bytes) (n : Nat) (b : Bytes)
    (h : extractBlock d = .ok (n, b)) : decryptBlock c keys ctx b ≠ .panic := by
  obtain ⟨h1, h2, h3, h4⟩ := extractBlock_ok h
  rw [blockHeaderOk_iff] at h2
  have hn : 18 ≤ n := by omega
  subst h4
  apply decryptBlock_of_header_ne_panic
  · rw [getD_take _ _ _ (by omega)]; exact h2.2.2.2.1
  · rw [getD_take _ _ _ (by omega)]; exact h2.2.2.2.2

end AcraModel.Envelope
