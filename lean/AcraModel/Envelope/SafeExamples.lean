import AcraModel.Envelope.SafeGenuine
import AcraModel.Crypto.Box
/-!
Concrete values for the non-vacuity examples of C03 (definitions and two small lemmas only).
-/
namespace AcraModel.Envelope
open AcraModel Generated

/-- a crypto back end that accepts everything (only to show that the success branches of the
decoders are reachable; satisfies no law) -/
def toyOps : CryptoOps where
  enc := fun _ _ m _ => some m
  dec := fun _ _ ct => some ct
  wrap := fun _ _ m _ => some m
  unwrap := fun _ _ ct => some ct
  pubOf := id
  validPriv := fun _ => true
  privOfSeed := id
  hmac := fun _ m => m
  sha256 := id

def unwrapOr (o : Out Bytes) : Bytes := match o with | .ok b => b | _ => []
def getOr (o : Option Bytes) : Bytes := match o with | some b => b | none => []

def exKey : Bytes := [7, 7]
def exKey2 : Bytes := [8, 8, 8]
/-- "random" stream: data key `5…5` (32), nonces `5…5` -/
def exRnd : Bytes := List.replicate 56 5
def exRnd2 : Bytes := List.replicate 56 6
def exMsg : Bytes := [1, 2, 3]
def exMsg2 : Bytes := [4, 5]
/-- a genuine AcraBlock of `exMsg` under `exKey` (Box back end) -/
def exBlock : Bytes := unwrapOr (createBlock boxOps exKey [] exMsg exRnd)
/-- a second value: `exMsg2` under the same key with data key `6…6` -/
def exBlock2 : Bytes := unwrapOr (createBlock boxOps exKey [] exMsg2 exRnd2)
def exEncKey : Bytes := getOr (boxOps.enc exKey [] (exRnd.take 32) ((exRnd.drop 44).take 12))
def exEncData : Bytes := getOr (boxOps.enc (exRnd.take 32) [] exMsg ((exRnd.drop 32).take 12))
def exEncData2 : Bytes := getOr (boxOps.enc (exRnd2.take 32) [] exMsg2 ((exRnd2.drop 32).take 12))
/-- key part of value 1 spliced with the data part of value 2 -/
def exSpliced : Bytes := buildBlock (keyId boxOps exKey []) exEncKey exEncData2
def exKv : KeyView := ⟨none, none, some exKey, some [exKey2, exKey]⟩
def exContainer : Bytes := unwrapOr (serialize exBlock idBlock)
/-- the same container with one byte of the sealed key part changed (offset 30 = first byte of the key part) -/
def exDamaged : Bytes := exContainer.take 30 ++ [5] ++ exContainer.drop 31
/-- the block with an unregistered key backend id (byte 12) – never passes `ExtractAcraBlockFromData` -/
def exBadBackend : Bytes := exBlock.take 12 ++ [9] ++ exBlock.drop 13
/-- a well-formed (not genuine) AcraStruct: tag, 45+84 header bytes, length 3, three data bytes -/
def exStruct : Bytes := structTag ++ List.replicate 45 1 ++ List.replicate 84 2 ++ leBytes 8 3 ++ [9, 9, 9]

/-- a buffer that is exactly one container the callbacks replace -/
theorem scan_single (cbs : List Callback) (d : Bytes) (n : Int) (cont p : Bytes)
    (hs : startsWith containerTag d = true) (he : extractContainer d = .ok (n, cont))
    (hr : runCallbacks cont cbs = .replace p) (hn : n = d.length) : scan cbs d = .ok p true := by
  cases d with
  | nil => simp [startsWith, containerTag, toBytes, Layout.containerTag] at hs
  | cons b r =>
    rw [scan.eq_2, if_neg (by simp [hs]), he]
    simp only [hr]
    rw [dif_pos (by subst hn; simp only [List.length_cons]; omega)]
    have : (b :: r).drop n.toNat = [] := by
      subst hn; simp
    rw [this, scan.eq_1]
    simp [ScanOut.prepend]

/-- the 12-byte header `%%% | length = 2^63 | AcraBlock id` -/
def hugeHdr : Bytes := [37, 37, 37, 0, 0, 0, 0, 0, 0, 0, 128, 240]

theorem extractContainer_huge (tail : Bytes) (ht : tail.length = 2^63) :
    extractContainer (hugeHdr ++ tail) = .ok (toInt64 (2^63), hugeHdr ++ tail) := by
  have hlen : (hugeHdr ++ tail).length = 12 + 2^63 := by
    have : hugeHdr.length = 12 := rfl
    rw [List.length_append, ht, this]
  have hv : validateContainer (hugeHdr ++ tail) = .ok 240 := by
    rw [validateContainer_eq, if_neg (by rw [hlen]; omega)]
    have h3 : (hugeHdr ++ tail).take 3 = containerTag := rfl
    rw [if_neg (by rw [h3]; exact fun h => h rfl)]
    rfl
  have hl : leVal (List.drop 3 (List.take (3 + 8) (hugeHdr ++ tail))) = 2^63 := by
    have : List.drop 3 (List.take (3 + 8) (hugeHdr ++ tail)) = [0, 0, 0, 0, 0, 0, 0, 128] := rfl
    rw [this]
    decide
  unfold extractContainer
  rw [hv]
  dsimp only
  rw [show containerTag.length = 3 from rfl, show Layout.containerLengthSize = 8 from rfl,
    goSlice_ok _ 3 (3 + 8) (by omega) (by rw [hlen]; omega)]
  rw [Out.bind_ok, hl, show containerMin = 12 from rfl, hlen, if_neg (by omega)]
  rfl

theorem toInt64_huge : toInt64 (2^63) < 0 := by decide

/-- on such a (physically impossible) buffer the `OnColumn` loop would slice out of range -/
theorem scan_huge (tail : Bytes) (ht : tail.length = 2^63) :
    scan [fun _ => Cb.replaced []] (hugeHdr ++ tail) = .panic := by
  have hc : hugeHdr ++ tail = 37 :: ([37, 37, 0, 0, 0, 0, 0, 0, 0, 128, 240] ++ tail) := rfl
  have he := extractContainer_huge tail ht
  rw [hc] at he ⊢
  rw [scan.eq_2, if_neg (by rw [← hc]; exact fun h => nomatch h), he]
  have hr : runCallbacks (37 :: ([37, 37, 0, 0, 0, 0, 0, 0, 0, 128, 240] ++ tail)) [fun _ => Cb.replaced []]
      = .replace [] := rfl
  simp only [hr]
  rw [dif_neg (fun h => absurd h.1 (by have := toInt64_huge; omega))]

/-- an AcraStruct assembled the way `CreateAcrastruct` does is decrypted by `DecryptAcrastruct`
(only used to show that the hypotheses of the "genuine" theorems are satisfiable) -/
theorem decryptStruct_assembled (c : CryptoOps) (priv ctx P W body symKey m : Bytes)
    (hP : P.length = 45) (hW : W.length = 84) (hL : body.length < 2^63)
    (hu : c.unwrap priv P W = some symKey) (hne : symKey ≠ []) (hd : c.dec symKey ctx body = some m) :
    decryptStruct c priv ctx (structTag ++ P ++ W ++ leBytes 8 body.length ++ body) = .ok m := by
  have ht : structTag.length = 8 := rfl
  have hl8 : (leBytes 8 body.length).length = 8 := leBytes_length _ _
  have e8 : (structTag ++ P ++ W ++ leBytes 8 body.length ++ body).take 8 = structTag := by
    simp only [List.append_assoc]; exact List.take_left' ht
  have eP : ((structTag ++ P ++ W ++ leBytes 8 body.length ++ body).drop 8).take 45 = P := by
    simp only [List.append_assoc]; rw [List.drop_left' ht]; exact List.take_left' hP
  have eW : ((structTag ++ P ++ W ++ leBytes 8 body.length ++ body).drop 53).take 84 = W := by
    have : structTag ++ P ++ W ++ leBytes 8 body.length ++ body
        = (structTag ++ P) ++ (W ++ (leBytes 8 body.length ++ body)) := by simp only [List.append_assoc]
    rw [this, List.drop_left' (by rw [List.length_append, ht, hP])]; exact List.take_left' hW
  have eB : (structTag ++ P ++ W ++ leBytes 8 body.length ++ body).drop 145 = body :=
    List.drop_left' (by simp only [List.length_append, ht, hP, hW, hl8])
  have eL : ((structTag ++ P ++ W ++ leBytes 8 body.length ++ body).take 145).drop 137 = leBytes 8 body.length := by
    rw [List.take_left' (by simp only [List.length_append, ht, hP, hW, hl8])]
    exact List.drop_left' (by simp only [List.length_append, ht, hP, hW])
  have hlen : (structTag ++ P ++ W ++ leBytes 8 body.length ++ body).length = 145 + body.length := by
    simp only [List.length_append, ht, hP, hW, hl8]
  have hv : validateStruct (structTag ++ P ++ W ++ leBytes 8 body.length ++ body) = .ok () := by
    rw [validateStruct_eq, if_neg (by rw [hlen]; omega), if_neg (by rw [e8]; exact fun h => h rfl)]
    unfold structDL
    rw [eL, leVal_leBytes_of_lt 8 _ (Nat.lt_trans hL (by decide)), toInt64_of_lt hL, hlen, show 145 + body.length - 145 = body.length by omega, if_neg (fun h => h rfl)]
  rw [decryptStruct_eq c priv ctx _ hv, eP, eW, eB, hu]
  dsimp only
  rw [if_neg hne, hd]
/-- for every back end with the (length-style) laws of the real one there is a genuine AcraStruct that
decrypts: valid reader and ephemeral keys, 45-byte public key, 84-byte wrapped key -/
theorem struct_witness (c : CryptoOps) (hs : SealLaws c) (hsl : SealLen c) (hm : MsgLaws c) (hml : MsgLen c)
    (hk : KeygenLaws c) :
    ∃ priv ePriv rest m, c.validPriv priv = true ∧ c.validPriv ePriv = true ∧ (c.pubOf ePriv).length = 45 ∧
      decryptStruct c priv [] (structTag ++ c.pubOf ePriv ++ rest) = .ok m := by
  have hp : c.validPriv (c.privOfSeed (List.replicate 32 1)) = true := hk.valid_seed _ (by simp)
  have he : c.validPriv (c.privOfSeed (List.replicate 32 2)) = true := hk.valid_seed _ (by simp)
  cases hw : c.wrap (c.privOfSeed (List.replicate 32 2)) (c.pubOf (c.privOfSeed (List.replicate 32 1)))
      (List.replicate 32 3) (List.replicate 12 0) with
  | none =>
    exfalso
    have := (hm.wrap_none _ _ _ _ he hp).1 hw
    revert this; simp [nonceLen, maxMsgLen]
  | some W =>
    cases hb : c.enc (List.replicate 32 3) [] [1, 2, 3] (List.replicate 12 0) with
    | none =>
      exfalso
      have := (hs.enc_none _ _ _ _).1 hb
      revert this; simp [nonceLen, maxMsgLen]
    | some body =>
      have hWl : W.length = 84 := by rw [hml.wrap_len _ _ _ _ _ hw]; rfl
      have hbl : body.length = 47 := by rw [hsl.enc_len _ _ _ _ _ hb]; rfl
      have hPl := hml.pub_len _ he
      refine ⟨_, _, W ++ leBytes 8 body.length ++ body, [1, 2, 3], hp, he, hPl, ?_⟩
      have := decryptStruct_assembled c (c.privOfSeed (List.replicate 32 1)) [] _ W body (List.replicate 32 3) [1, 2, 3]
        hPl hWl (by rw [hbl]; decide) (hm.unwrap_wrap _ _ _ _ _ he hp hw) (by simp) (hs.dec_enc _ _ _ _ _ hb)
      simpa only [List.append_assoc] using this

/-- the Box back end with a Secure Message that unwraps everything: `SealLaws` and `SealCommit` only
speak about `enc`/`dec`, so they carry over (Box itself cannot produce an 84-byte wrapped key for a
45-byte public key, so no AcraStruct decrypts under plain `boxOps`) -/
def boxOpenOps : CryptoOps := { boxOps with unwrap := fun _ _ ct => some ct }

theorem boxOpen_sealLaws : SealLaws boxOpenOps :=
  ⟨Box.sealLaws.dec_enc, Box.sealLaws.enc_of_dec, Box.sealLaws.enc_none⟩

theorem boxOpen_sealCommit : SealCommit boxOpenOps := ⟨Box.sealCommit.enc_inj⟩

def exSymKey : Bytes := List.replicate 84 2
def exBody : Bytes := getOr (boxOps.enc exSymKey [] exMsg (List.replicate 12 5))
/-- an AcraStruct whose body is `exMsg` sealed (Box) under the 84 bytes of its own key block -/
def exStruct2 : Bytes := structTag ++ List.replicate 45 1 ++ exSymKey ++ leBytes 8 exBody.length ++ exBody

end AcraModel.Envelope
