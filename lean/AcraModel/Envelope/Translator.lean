import AcraModel.Envelope.Poison
import AcraModel.Searchable.Index
import AcraModel.Generated.TranslatorOps
import AcraModel.Generated.Wiring
/-
The eight encrypt/decrypt operations of AcraTranslator (`cmd/acra-translator/common/service.go`,
`TranslatorService.{Encrypt, Decrypt, EncryptSym, DecryptSym, EncryptSearchable, DecryptSearchable,
EncryptSymSearchable, DecryptSymSearchable}`) as compositions of the models that already exist:

* the request prologue (client id present, no additional context) – `checkRequest`;
* `RegistryHandler.EncryptWithHandler` = `protect` (`Envelope/Container.lean`);
* `RegistryHandler.DecryptWithHandler` followed, on failure, by the poison scan of the input =
  `Envelope.translatorDecrypt` (`Envelope/Poison.lean`);
* `GenerateHMAC`, `ExtractHashAndData`, `HashData.IsEqual` (`Searchable/Index.lean`).

Nothing is duplicated: `Searchable.translatorEncrypt` / `Searchable.translatorDecrypt` are the cores of
the searchable operations (see `TranslatorLemmas.lean` for the connecting equations).

A Go `[]byte` argument that the code compares with `nil` is an `Option Bytes` here (`none` = nil,
`some []` = empty but not nil): `Encrypt`/`Decrypt` test `len(clientID) == 0`, the other six test
`clientID == nil`; all eight test `additionalContext != nil`; the searchable decrypts test `hash != nil`.

Decrypt operations return `(what the client gets, number of poison alarms raised)`.
-/
namespace AcraModel.Envelope.Translator
open AcraModel AcraModel.Envelope AcraModel.Searchable

/-- what the service holds: `TranslatorData.Keystorage` (data keys and HMAC key per client id, poison
keys) and the poison callbacks -/
structure Store where
  /-- data keys of a client id, as the registry handler sees them -/
  keys : Bytes → KeyView
  /-- `GetHMACSecretKey(clientID)`; `none` = key store error -/
  hmac : Bytes → Option Bytes
  /-- poison keys and callbacks (`NewTranslatorService` registers the detector only with callbacks) -/
  poison : PoisonCfg

/-- The prologue every operation starts with. `byLen = true`: `if len(clientID) == 0` (`Encrypt`,
`Decrypt`); `byLen = false`: `if clientID == nil` (the other six – an empty, non-nil id passes).
Then `if additionalContext != nil` ⇒ error. Result: the client id the operation works with. -/
def checkRequest (byLen : Bool) (clientID addCtx : Option Bytes) : Out Bytes :=
  match clientID with
  | none => .err
  | some id =>
    if byLen && id.isEmpty then .err else
    match addCtx with
    | some _ => .err
    | none => .ok id

/-- `dataToDecrypt := data; if hash != nil { dataToDecrypt = append(hash, data...) }` -/
def dataToDecrypt (data : Bytes) (hash : Option Bytes) : Bytes :=
  match hash with
  | none => data
  | some h => h ++ data

/-- the poison detector of the service run over `data` (its output is dropped; only the alarm counts) -/
def poisonScan (c : CryptoOps) (cfg : PoisonCfg) (data : Bytes) : Nat :=
  (onColumnT (if cfg.hasCallbacks then [poisonCallback c cfg] else []) data).2

/-! ### plain operations -/

/-- `Encrypt` (kind `.struct`, id check by length) and `EncryptSym` (kind `.block`, id check by nil) -/
def encryptWith (byLen : Bool) (k : Kind) (c : CryptoOps) (st : Store) (data : Bytes)
    (clientID addCtx : Option Bytes) (rnd : Bytes) : Out Bytes := do
  let id ← checkRequest byLen clientID addCtx
  protect c (st.keys id) k data rnd

/-- `Decrypt` (kind `.struct`) and `DecryptSym` (kind `.block`): reveal with the handler of the kind;
on failure the input goes through the poison detector and the client gets an error. -/
def decryptWith (byLen : Bool) (k : Kind) (c : CryptoOps) (st : Store) (data : Bytes)
    (clientID addCtx : Option Bytes) : Out Bytes × Nat :=
  match checkRequest byLen clientID addCtx with
  | .ok id => Envelope.translatorDecrypt c st.poison (st.keys id) k data
  | .err => (.err, 0)
  | .panic => (.panic, 0)

/-- `TranslatorService.Encrypt` -/
def encrypt := encryptWith true .struct
/-- `TranslatorService.Decrypt` -/
def decrypt := decryptWith true .struct
/-- `TranslatorService.EncryptSym` -/
def encryptSym := encryptWith false .block
/-- `TranslatorService.DecryptSym` -/
def decryptSym := decryptWith false .block

/-! ### searchable operations -/

/-- `EncryptSearchable` / `EncryptSymSearchable`: `SearchableResponse{EncryptedData, Hash}` as a pair -/
def encryptSearchableWith (k : Kind) (c : CryptoOps) (st : Store) (data : Bytes)
    (clientID addCtx : Option Bytes) (rnd : Bytes) : Out (Bytes × Bytes) := do
  let id ← checkRequest false clientID addCtx
  Searchable.translatorEncrypt c (st.hmac id) (st.keys id) k data rnd

/-- the Go method a searchable decrypt of kind `k` is -/
def searchableOp : Kind → String
  | .struct => "DecryptSearchable"
  | .block => "DecryptSymSearchable"

/-- what the data-flow facts say the argument of the poison check on the failure path `branch` of operation `op`
HOLDS (`Wiring.translatorPoisonSites`, regenerated; `unknown` when the operation has no check on that path) -/
def siteHolds (op branch : String) : String :=
  match Generated.Wiring.translatorPoisonSites.find? (fun r => r.1 == op && r.2.1 == branch) with
  | some r => r.2.2.2.1
  | none => "unknown"

/-- the bytes a poison check scans, by what its argument holds: the caller's `data`, `d = dataToDecrypt data hash`,
the `rest` behind the hash – or nothing (`nil`: the second result of `ExtractHashAndData` when no hash was found;
`unknown`: no check) -/
def siteBuffer (holds : String) (data d rest : Bytes) : Bytes :=
  if holds = "input" then data
  else if holds = "hash++input" then d
  else if holds = "rest-after-hash" then rest
  else []

/-- `DecryptSearchable` / `DecryptSymSearchable`: the hash comes as a separate argument (`some`) or
in front of the envelope (`none`). If no hash can be cut off, the poison detector runs and the client gets an error
(on the pinned tree only `DecryptSymSearchable` did that, `DecryptSearchable` failed at once – repaired by "fix:
DecryptSearchable checks for poison records when no hash can be split off"); otherwise the rest is revealed with the
handler of the kind (failure ⇒ poison scan, error) and the hash is verified. WHAT the two poison checks scan is read
from the regenerated table (`siteHolds`): on the current tree the whole `dataToDecrypt` when no hash was found, the
rest behind the hash when the reveal failed (`Props/C15.fact_translator_sites`). -/
def decryptSearchableWith (k : Kind) (c : CryptoOps) (st : Store) (data : Bytes) (hash : Option Bytes)
    (clientID addCtx : Option Bytes) : Out Bytes × Nat :=
  match checkRequest false clientID addCtx with
  | .err => (.err, 0)
  | .panic => (.panic, 0)
  | .ok id =>
    let d := dataToDecrypt data hash
    match extractHashAndData d with
    | none => (.err, poisonScan c st.poison (siteBuffer (siteHolds (searchableOp k) "no-hash") data d []))
    | some (h, container) =>
      match Envelope.translatorDecryptScan c st.poison (st.keys id) k container
          (siteBuffer (siteHolds (searchableOp k) "decrypt-failed") data d container) with
      | (.ok plain, a) => if isEqual c (st.hmac id) h plain then (.ok plain, a) else (.err, a)
      | (o, a) => (o, a)

/-- `TranslatorService.EncryptSearchable` -/
def encryptSearchable := encryptSearchableWith .struct
/-- `TranslatorService.DecryptSearchable` -/
def decryptSearchable := decryptSearchableWith .struct
/-- `TranslatorService.EncryptSymSearchable` -/
def encryptSymSearchable := encryptSearchableWith .block
/-- `TranslatorService.DecryptSymSearchable` -/
def decryptSymSearchable := decryptSearchableWith .block

/-! ### what the model takes from the source, per operation (regenerated: `Generated/TranslatorOps.lean`) -/

/-- the parameters with which the definitions above instantiate `encryptWith` / `decryptWith` /
`…SearchableWith` for the Go method of that name: (client-id test by length?, envelope kind) -/
def opSpec : String → Option (Bool × Kind)
  | "Encrypt" => some (true, .struct)
  | "Decrypt" => some (true, .struct)
  | "EncryptSym" => some (false, .block)
  | "DecryptSym" => some (false, .block)
  | "EncryptSearchable" => some (false, .struct)
  | "DecryptSearchable" => some (false, .struct)
  | "EncryptSymSearchable" => some (false, .block)
  | "DecryptSymSearchable" => some (false, .block)
  | _ => none

/-- one row of the regenerated table read the way the model uses it -/
def rowSpec (row : String × String × Bool × String × String) : Option (Bool × Kind) :=
  let (_, form, checksFirst, envl, _) := row
  if !checksFirst then none else
  match (if form = "len" then some true else if form = "nil" then some false else none),
        (if envl = "AcraStructEnvelopeID" then some Kind.struct else if envl = "AcraBlockEnvelopeID" then some Kind.block else none) with
  | some b, some k => some (b, k)
  | _, _ => none

/-! ### the operations by envelope kind (used by the entry-point table) -/

/-- `Encrypt` for `.struct`, `EncryptSym` for `.block` -/
def encryptOf : Kind → CryptoOps → Store → Bytes → Option Bytes → Option Bytes → Bytes → Out Bytes
  | .struct => encrypt
  | .block => encryptSym

/-- `Decrypt` for `.struct`, `DecryptSym` for `.block` -/
def decryptOf : Kind → CryptoOps → Store → Bytes → Option Bytes → Option Bytes → Out Bytes × Nat
  | .struct => decrypt
  | .block => decryptSym

/-- does the id check of the plain operation of this kind go by length -/
def idCheckByLen : Kind → Bool
  | .struct => true
  | .block => false

/-! ### library calls on serialized values (entry points of the cross-check) -/

/-- library create (`acrastruct.CreateAcrastruct` / `acrablock.CreateAcraBlock`, nil context) followed
by `crypto.SerializeEncryptedData` – no pass-through test, unlike the handlers -/
def libraryProtect (c : CryptoOps) (kv : KeyView) (k : Kind) (data rnd : Bytes) : Out Bytes := do
  let e ← match k with
    | .struct => (match kv.pub with
        | none => Out.err
        | some p => createStruct c p [] data rnd)
    | .block => (match kv.sym with
        | none => Out.err
        | some key => createBlock c key [] data rnd)
  serialize e k.id

/-- `crypto.DeserializeEncryptedData` followed by the library decrypt of the inner envelope
(`acrastruct.DecryptRotatedAcrastruct` resp. `acrablock.NewAcraBlockFromData` + `Decrypt`, nil context) -/
def libraryReveal (c : CryptoOps) (kv : KeyView) (data : Bytes) : Out Bytes := do
  let (internal, id) ← deserialize data
  match kindOfId id with
  | none => .err
  | some .struct =>
    match kv.privs with
    | none => .err
    | some ps => decryptStructRotated c [] internal ps
  | some .block =>
    match kv.syms with
    | none => .err
    | some ks => decryptWholeBlock c ks [] internal

/-! ### the table of entry points (C01 "entry points agree") -/

/-- the protecting entry points -/
inductive Producer where
  /-- library create + `SerializeEncryptedData` -/
  | library
  /-- `RegistryHandler.EncryptWithHandler` -/
  | handler
  /-- the write chain of the SQL proxies: `RegistryHandler.EncryptWithClientID` with the column's setting -/
  | sqlWrite
  /-- AcraTranslator `Encrypt` / `EncryptSym` -/
  | translator
  /-- AcraTranslator `EncryptSearchable` / `EncryptSymSearchable` (the envelope of the response) -/
  | translatorSearchable
deriving DecidableEq, Repr

def Producer.all : List Producer := [.library, .handler, .sqlWrite, .translator, .translatorSearchable]

/-- the revealing entry points -/
inductive Consumer where
  /-- `DeserializeEncryptedData` + library decrypt of the inner envelope -/
  | library
  /-- `RegistryHandler.Process` -/
  | reveal
  /-- AcraTranslator `Decrypt` (`.struct`) / `DecryptSym` (`.block`) -/
  | translator (k : Kind)
  /-- AcraTranslator `DecryptSearchable` / `DecryptSymSearchable`, hash as separate argument -/
  | translatorSearchableSep (k : Kind)
  /-- the same with the hash concatenated in front of the value -/
  | translatorSearchableCat (k : Kind)
  /-- `EnvelopeDetector.OnColumn` with the decrypt callback -/
  | onColumn
  /-- `OldContainerDetectorWrapper.OnColumn` with the decrypt callback -/
  | onColumnCompat
deriving DecidableEq, Repr

def Consumer.all : List Consumer :=
  [.library, .reveal, .translator .struct, .translator .block, .translatorSearchableSep .struct,
   .translatorSearchableSep .block, .translatorSearchableCat .struct, .translatorSearchableCat .block,
   .onColumn, .onColumnCompat]

/-- the AcraTranslator decrypt operations work with the handler of ONE envelope kind; every other
revealing entry point picks the handler by the envelope id of the value -/
def Consumer.accepts : Consumer → Kind → Bool
  | .translator k', k => k' == k
  | .translatorSearchableSep k', k => k' == k
  | .translatorSearchableCat k', k => k' == k
  | _, _ => true

/-- what client `id` gets stored when protecting `m` with envelope kind `k` through the entry point -/
def produce (P : Producer) (c : CryptoOps) (st : Store) (id : Bytes) (k : Kind) (m rnd : Bytes) : Out Bytes :=
  match P with
  | .library => libraryProtect c (st.keys id) k m rnd
  | .handler => protect c (st.keys id) k m rnd
  | .sqlWrite => protect c (st.keys id) k m rnd
  | .translator => encryptOf k c st m (some id) none rnd
  | .translatorSearchable => (encryptSearchableWith k c st m (some id) none rnd).bind fun r => .ok r.1

def scanBytes : ScanOut → Out Bytes
  | .ok b _ => .ok b
  | .fatal => .err
  | .panic => .panic

/-- what client `id` gets back for the stored value `p` through the entry point; `hash` is the search
hash kept next to the value (used by the searchable operations only) -/
def consume (C : Consumer) (c : CryptoOps) (st : Store) (id p hash : Bytes) : Out Bytes :=
  match C with
  | .library => libraryReveal c (st.keys id) p
  | .reveal => reveal c (st.keys id) p
  | .translator k => (decryptOf k c st p (some id) none).1
  | .translatorSearchableSep k => (decryptSearchableWith k c st p (some hash) (some id) none).1
  | .translatorSearchableCat k => (decryptSearchableWith k c st (hash ++ p) none (some id) none).1
  | .onColumn => scanBytes (onColumn [decryptCallback c (st.keys id)] p)
  | .onColumnCompat => scanBytes (onColumnCompat [decryptCallback c (st.keys id)] p)

end AcraModel.Envelope.Translator
