import AcraModel.Basic.Bytes
/-!
Generic slicing lemmas used by the envelope round-trip proofs (C01): a field of a byte string that
is written as `a ++ b ++ c` is read back by the Go slice expression with the matching bounds.
-/
namespace AcraModel.Envelope
open AcraModel

/-- `data[lo:hi]` is the middle part of any three-way split with the right lengths -/
theorem c01_goSlice_split {data a b c : Bytes} {lo hi : Nat} (h : data = a ++ b ++ c)
    (hlo : lo = a.length) (hhi : hi = a.length + b.length) : goSlice data lo hi = .ok b := by
  subst h; subst hlo; subst hhi
  exact goSlice_append_mid a b c

/-- `data[:hi]` is the first part of any two-way split -/
theorem c01_goSlice_prefix {data a c : Bytes} {hi : Nat} (h : data = a ++ c) (hhi : hi = a.length) :
    goSlice data 0 hi = .ok a := by
  subst h; subst hhi
  exact goSlice_prefix a c

/-- `data[lo:]` is the second part of any two-way split -/
theorem c01_goSliceFrom_split {data a c : Bytes} {lo : Nat} (h : data = a ++ c) (hlo : lo = a.length) :
    goSliceFrom data lo = .ok c := by
  subst h; subst hlo
  exact goSliceFrom_append a c

/-- `data[i]` is the byte between the two parts of a split -/
theorem c01_goIndex_split {data a c : Bytes} {x : UInt8} {i : Nat} (h : data = a ++ x :: c)
    (hi : i = a.length) : goIndex data i = .ok x := by
  subst h; subst hi
  unfold goIndex
  simp

theorem c01_toInt64_of_lt {n : Nat} (h : n < 2^63) : toInt64 n = (n : Int) := by
  unfold toInt64
  have h1 : n % 2^64 = n := Nat.mod_eq_of_lt (by omega)
  rw [h1, if_pos h]

theorem c01_leVal_leBytes8 {n : Nat} (h : n < 2^64) : leVal (leBytes 8 n) = n :=
  leVal_leBytes_of_lt 8 n (by simpa using h)

theorem c01_leVal_leBytes2 {n : Nat} (h : n < 65536) : leVal (leBytes 2 n) = n :=
  leVal_leBytes_of_lt 2 n (by simpa using h)

end AcraModel.Envelope
