import AcraModel.Envelope.SafeGenuine
/-!
"Whatever cannot be decrypted is returned byte-identical" for the whole compatibility wrapper
(`OldContainerDetectorWrapper.OnColumn`: container scan, then bare AcraStructs, then bare AcraBlocks)
(helpers for C03).
-/
namespace AcraModel.Envelope
open AcraModel Generated

theorem bind_cons_same {o : Out Bytes} {b : UInt8} {r : Bytes} (h : o = .ok r) :
    (o.bind fun x => .ok (b :: x)) = .ok (b :: r) := by rw [h]; rfl

theorem bind_append_same {o : Out Bytes} {p q : Bytes} (h : o = .ok q) :
    (o.bind fun x => .ok (p ++ x)) = .ok (p ++ q) := by rw [h]; rfl

/-- a per-struct handler that returns every non-empty part of the value unchanged leaves the value unchanged -/
theorem processStructs_same (proc : Bytes → Out Bytes) (rest : Bytes)
    (hp : ∀ x, x <:+: rest → x ≠ [] → proc x = .ok x) : processStructs proc rest = .ok rest := by
  induction rest using processStructs.induct proc with
  | case1 => exact processStructs.eq_1 proc
  | case2 b r h ih =>
    rw [processStructs.eq_2, if_pos h]
    exact bind_cons_same (ih fun x hx => hp x (hx.trans (List.suffix_cons b r).isInfix))
  | case3 b r h hl hg => exact absurd hg (by rw [getDataLength_eq _ (by rw [structMin_eq] at hl; omega)]; exact fun h => nomatch h)
  | case4 b r h hl hg => exact absurd hg (by rw [getDataLength_eq _ (by rw [structMin_eq] at hl; omega)]; exact fun h => nomatch h)
  | case5 b r h hl dl hg l hb p hq ih =>
    have hb' : 0 < wrapInt64 (dl + structMin) ∧ wrapInt64 (dl + structMin) ≤ (b :: r).length := hb
    have hne : (b :: r).take l.toNat ≠ [] := take_ne_nil (by have := hb.1; omega)
    have hq' := hp _ (List.take_prefix _ _).isInfix hne
    have hpe : p = (b :: r).take l.toNat := by rw [hq'] at hq; cases hq; rfl
    rw [processStructs.eq_2, if_neg h, if_pos hl, hg]; dsimp only; rw [dif_pos hb', show proc _ = _ from hq]
    dsimp only
    rw [bind_append_same (ih fun x hx => hp x (hx.trans (List.drop_suffix _ _).isInfix)), hpe]
    exact congrArg Out.ok (List.take_append_drop _ _)
  | case6 b r h hl dl hg l hb hq =>
    have hne : (b :: r).take l.toNat ≠ [] := take_ne_nil (by have := hb.1; omega)
    rw [hp _ (List.take_prefix _ _).isInfix hne] at hq; cases hq
  | case7 b r h hl dl hg l hb hq =>
    have hne : (b :: r).take l.toNat ≠ [] := take_ne_nil (by have := hb.1; omega)
    rw [hp _ (List.take_prefix _ _).isInfix hne] at hq; cases hq
  | case8 b r h hl dl hg l hb ih =>
    have hb' : ¬ (0 < wrapInt64 (dl + structMin) ∧ wrapInt64 (dl + structMin) ≤ (b :: r).length) := hb
    rw [processStructs.eq_2, if_neg h, if_pos hl, hg]; dsimp only; rw [dif_neg hb']
    exact bind_cons_same (ih fun x hx => hp x (hx.trans (List.suffix_cons b r).isInfix))
  | case9 b r h hl ih =>
    rw [processStructs.eq_2, if_neg h, if_neg hl]
    exact bind_cons_same (ih fun x hx => hp x (hx.trans (List.suffix_cons b r).isInfix))

theorem processBlocks_same (proc : Bytes → Out Bytes) (rest : Bytes)
    (hp : ∀ x, x <:+: rest → x ≠ [] → proc x = .ok x) : processBlocks proc rest = .ok rest := by
  induction rest using processBlocks.induct proc with
  | case1 => exact processBlocks.eq_1 proc
  | case2 b r h ih =>
    rw [processBlocks.eq_2, if_pos h]
    exact bind_cons_same (ih fun x hx => hp x (hx.trans (List.suffix_cons b r).isInfix))
  | case3 b r h hl he => exact absurd he (extractBlock_ne_panic _)
  | case4 b r h hl he ih =>
    rw [processBlocks.eq_2, if_neg h, if_pos hl, he]
    exact bind_cons_same (ih fun x hx => hp x (hx.trans (List.suffix_cons b r).isInfix))
  | case5 b r h hl n blk he hn p hq ih =>
    have hblk := (extractBlock_bounds' he).2.2
    have hq' := hp blk (by rw [hblk]; exact (List.take_prefix _ _).isInfix) (extractBlock_blk_ne_nil he)
    have hpe : p = blk := by rw [hq'] at hq; cases hq; rfl
    rw [processBlocks.eq_2, if_neg h, if_pos hl, he]; dsimp only; rw [dif_pos hn, hq]
    dsimp only
    rw [bind_append_same (ih fun x hx => hp x (hx.trans (List.drop_suffix _ _).isInfix)), hpe, hblk]
    exact congrArg Out.ok (List.take_append_drop _ _)
  | case6 b r h hl n blk he hn hq =>
    have hblk := (extractBlock_bounds' he).2.2
    rw [hp blk (by rw [hblk]; exact (List.take_prefix _ _).isInfix) (extractBlock_blk_ne_nil he)] at hq; cases hq
  | case7 b r h hl n blk he hn hq =>
    have hblk := (extractBlock_bounds' he).2.2
    rw [hp blk (by rw [hblk]; exact (List.take_prefix _ _).isInfix) (extractBlock_blk_ne_nil he)] at hq; cases hq
  | case8 b r h hl n blk he hn => exact absurd (extractBlock_pos he) hn
  | case9 b r h hl ih =>
    rw [processBlocks.eq_2, if_neg h, if_neg hl]
    exact bind_cons_same (ih fun x hx => hp x (hx.trans (List.suffix_cons b r).isInfix))

/-- the wrapper's `OnAcraStruct`/`OnAcraBlock` with the decrypt callback returns the bare envelope
unchanged when `Process` fails on its serialized form -/
theorem onBare_decrypt_same (c : CryptoOps) (kv : KeyView) (id : UInt8) (bare : Bytes) (hb : bare ≠ [])
    (h : ∀ s, serialize bare id = .ok s → ∀ m, process c kv s ≠ .ok m) :
    onBare [fun _ => Cb.same, decryptCallback c kv] id bare = .ok bare := by
  have hs : serialize bare id = .ok (containerTag ++ leBytes 8 (containerMin + bare.length) ++ [id] ++ bare) := by
    unfold serialize; rw [if_neg hb]
  have hd : decryptCallback c kv (containerTag ++ leBytes 8 (containerMin + bare.length) ++ [id] ++ bare) = .same := by
    unfold decryptCallback
    split
    · next d hd => exact absurd hd (h _ hs d)
    · rfl
  unfold onBare
  rw [hs]
  simp only [Out.bind_ok, onCryptoEnvelope, hd]
  simp

theorem compatTail_decrypt_same (c : CryptoOps) (kv : KeyView) (rest : Bytes)
    (h2 : ∀ x id s, x <:+: rest → serialize x id = .ok s → ∀ m, process c kv s ≠ .ok m) :
    compatTail [decryptCallback c kv] rest = .ok rest false := by
  unfold compatTail
  have e1 : (if rest.length < structMin then Out.ok rest
      else processStructs (onBare [fun _ => Cb.same, decryptCallback c kv] idStruct) rest) = .ok rest := by
    split
    · rfl
    · exact processStructs_same _ rest fun x hx hne => onBare_decrypt_same c kv _ x hne (fun s hs => h2 x _ s hx hs)
  rw [e1]
  dsimp only
  have e2 : (if rest.length < blockMin then Out.ok rest
      else processBlocks (onBare [fun _ => Cb.same, decryptCallback c kv] idBlock) rest) = .ok rest := by
    split
    · rfl
    · exact processBlocks_same _ rest fun x hx hne => onBare_decrypt_same c kv _ x hne (fun s hs => h2 x _ s hx hs)
  rw [e2]

/-- **The transparent column processor hands a value it cannot decrypt back byte for byte.** -/
theorem onColumnCompat_decrypt_same (c : CryptoOps) (kv : KeyView) (rest : Bytes)
    (h1 : ∀ i, i < rest.length → startsWith containerTag (rest.drop i) = true →
      ∀ m, process c kv (rest.drop i) ≠ .ok m)
    (h2 : ∀ x id s, x <:+: rest → serialize x id = .ok s → ∀ m, process c kv s ≠ .ok m) :
    ∃ hit, onColumnCompat [decryptCallback c kv] rest = .ok rest hit := by
  rw [onColumnCompat_eq]
  have hscan : ∃ hit, onColumn [fun _ => Cb.same, decryptCallback c kv] rest = .ok rest hit := by
    unfold onColumn
    split
    · exact ⟨false, rfl⟩
    · apply scan_same
      intro i hi hst n cont he
      have := extractContainer_of_containerTag (startsWith_containerTag hst) he
      subst this
      have : runCallbacks (rest.drop i) [fun _ => Cb.same, decryptCallback c kv]
          = runCallbacks (rest.drop i) [decryptCallback c kv] := rfl
      rw [this]
      exact runCallbacks_decrypt_skip (fun m hm => absurd hm (h1 i hi hst m))
  obtain ⟨hit, e⟩ := hscan
  rw [e]
  dsimp only
  cases hit with
  | true => exact ⟨true, by simp⟩
  | false => exact ⟨false, by simp [compatTail_decrypt_same c kv rest h2]⟩

end AcraModel.Envelope

namespace AcraModel.Envelope
open AcraModel Generated

/-- a serialized container around fewer than 18 bytes is never revealed (no AcraBlock or AcraStruct is
that short) – used for the non-vacuity example of `onColumnCompat_decrypt_same` -/
theorem process_serialized_short (c : CryptoOps) (kv : KeyView) (x s : Bytes) (id : UInt8) (hx : x.length < 18)
    (hs : serialize x id = .ok s) : ∀ m, process c kv s ≠ .ok m := by
  intro m hm
  unfold serialize at hs
  split at hs
  · cases hs
  · cases hs
    obtain ⟨k, i, hd, hk⟩ := process_ok hm
    have h3 : (containerTag ++ leBytes 8 (containerMin + x.length) ++ [id] ++ x).take 3 = containerTag := by
      simp only [List.append_assoc]; exact List.take_left' rfl
    have hlen : (containerTag ++ leBytes 8 (containerMin + x.length) ++ [id] ++ x).length = 12 + x.length := by
      simp only [List.length_append, leBytes_length, List.length_cons, List.length_nil]
      rw [show containerTag.length = 3 from rfl]
    have hi : i.length < 18 := by
      rcases deserialize_ok hd with ⟨_, _, n, hmo⟩ | ⟨_, n, hn, rfl⟩
      · rw [matchOld_of_containerTag h3] at hmo; cases hmo
      · rw [List.length_take, List.length_drop, hlen]; omega
    cases k with
    | block =>
      obtain ⟨_, _, h18, _⟩ := decryptKind_block_ok hk
      omega
    | struct =>
      obtain ⟨ps, _, priv, _, hdec⟩ := decryptKind_struct_ok hk
      have := (validateStruct_ok (decryptStruct_ok_parts hdec).1).1
      omega

theorem infix_length_le {x rest : Bytes} (h : x <:+: rest) : x.length ≤ rest.length := by
  obtain ⟨s, t, rfl⟩ := h
  simp only [List.length_append]; omega

end AcraModel.Envelope
