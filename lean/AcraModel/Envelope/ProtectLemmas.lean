import AcraModel.Envelope.ContainerLemmas
import AcraModel.Envelope.BlockLemmas
/-!
Lemmas about the registry handler's `protect` / `reveal` (C01): what a successful `protect` that did
not pass its input through has computed, and how `reveal` takes a serialized container apart.
-/
namespace AcraModel.Envelope
open AcraModel Generated

/-- a `protect` that did not pass its input through has run the handler of kind `k` and serialized
its result -/
theorem c01_protect_ok {c : CryptoOps} {kv : KeyView} {k : Kind} {m rnd p : Bytes}
    (hp : protect c kv k m rnd = .ok p) (hnm : matchKind k m = false) (hnr : registryMatch m = false) :
    ∃ e, encryptKind c kv k m rnd = .ok e ∧ e ≠ [] ∧ p = serBytes e k.id := by
  unfold protect at hp
  rw [hnm, hnr] at hp
  simp only [Bool.or_self, Bool.false_eq_true, if_false] at hp
  cases he : encryptKind c kv k m rnd with
  | err => rw [he] at hp; cases hp
  | panic => rw [he] at hp; cases hp
  | ok e =>
    rw [he] at hp
    obtain ⟨hne, hpe⟩ := c01_serialize_ok hp
    exact ⟨e, rfl, hne, hpe⟩

theorem c01_encryptKind_block {c : CryptoOps} {kv : KeyView} {m rnd e : Bytes}
    (he : encryptKind c kv .block m rnd = .ok e) (hnm : matchKind .block m = false) :
    ∃ key, kv.sym = some key ∧ createBlock c key [] m rnd = .ok e := by
  unfold encryptKind at he
  rw [hnm] at he
  simp only [Bool.false_eq_true, if_false] at he
  cases hs : kv.sym with
  | none => rw [hs] at he; cases he
  | some key => rw [hs] at he; exact ⟨key, rfl, he⟩

/-- `RegistryHandler.Process` on a serialized container followed by arbitrary bytes: the envelope is
cut out by its declared length and handed to the handler of its kind -/
theorem c01_process_ser (c : CryptoOps) (kv : KeyView) (k : Kind) (e suf : Bytes) (he : e ≠ [])
    (hlen : e.length + 12 < 2^64) (hm : matchKind k e = true) :
    process c kv (serBytes e k.id ++ suf) = decryptKind c kv k e := by
  unfold process
  rw [c01_getEnvelopeID_ser suf he (c01_kindOfId_id k)]
  simp only [Out.bind_ok, c01_kindOfId_id]
  unfold decryptWithHandler
  rw [c01_deserialize_ser suf he (c01_kindOfId_id k) hlen]
  simp only [Out.bind_ok, hm, Bool.not_true, Bool.false_eq_true, if_false]

theorem c01_registryMatch_ser (k : Kind) (e suf : Bytes) (he : e ≠ [])
    (hlen : e.length + 12 < 2^64) (hm : matchKind k e = true) :
    registryMatch (serBytes e k.id ++ suf) = true := by
  unfold registryMatch
  rw [c01_deserialize_ser suf he (c01_kindOfId_id k) hlen]
  simp only [c01_kindOfId_id, hm]

/-- the block handler on exactly one freshly built block -/
theorem c01_decryptKind_block (c : CryptoOps) (kv : KeyView) (b m : Bytes) (ks : List Bytes)
    (hx : extractBlock b = .ok (b.length, b)) (hks : kv.syms = some ks)
    (hd : decryptBlock c ks [] b = .ok m) : decryptKind c kv .block b = .ok m := by
  unfold decryptKind
  simp only [hx, hks, hd, ne_eq, not_true_eq_false, if_false]

theorem c01_protect_of_match (c : CryptoOps) (kv : KeyView) (k : Kind) (d rnd : Bytes)
    (h : matchKind k d = true ∨ registryMatch d = true) : protect c kv k d rnd = .ok d := by
  unfold protect
  rcases h with h | h <;> simp [h]

end AcraModel.Envelope
