import AcraModel.Envelope.ContainerLemmas
import AcraModel.Envelope.BlockLemmas
import AcraModel.Envelope.StructLemmas
/-!
Lemmas about the registry handler's `protect` / `reveal` (C01): what a successful `protect` that did
not pass its input through has computed, and how `reveal` takes a serialized container apart.
-/
namespace AcraModel.Envelope
open AcraModel Generated

/-- a `protect` that did not pass its input through has run the handler of kind `k` and serialized
its result -/
theorem c01_protect_ok {c : CryptoOps} {kv : KeyView} {k : Kind} {m rnd p : Bytes}
    (hp : protect c kv k m rnd = .ok p) (hnm : matchKind k m = false) (hnr : registryMatch m = false) :
    ∃ e, encryptKind c kv k m rnd = .ok e ∧ e ≠ [] ∧ p = serBytes e k.id := by
  unfold protect at hp
  rw [hnm, hnr] at hp
  simp only [Bool.or_self, Bool.false_eq_true, if_false] at hp
  cases he : encryptKind c kv k m rnd with
  | err => rw [he] at hp; cases hp
  | panic => rw [he] at hp; cases hp
  | ok e =>
    rw [he] at hp
    obtain ⟨hne, hpe⟩ := c01_serialize_ok hp
    exact ⟨e, rfl, hne, hpe⟩

theorem c01_encryptKind_block {c : CryptoOps} {kv : KeyView} {m rnd e : Bytes}
    (he : encryptKind c kv .block m rnd = .ok e) (hnm : matchKind .block m = false) :
    ∃ key, kv.sym = some key ∧ createBlock c key [] m rnd = .ok e := by
  unfold encryptKind at he
  rw [hnm] at he
  simp only [Bool.false_eq_true, if_false] at he
  cases hs : kv.sym with
  | none => rw [hs] at he; cases he
  | some key => rw [hs] at he; exact ⟨key, rfl, he⟩

/-- `RegistryHandler.Process` on a serialized container followed by arbitrary bytes: the envelope is
cut out by its declared length and handed to the handler of its kind -/
theorem c01_process_ser (c : CryptoOps) (kv : KeyView) (k : Kind) (e suf : Bytes) (he : e ≠ [])
    (hlen : e.length + 12 < 2^64) (hm : matchKind k e = true) :
    process c kv (serBytes e k.id ++ suf) = decryptKind c kv k e := by
  unfold process
  rw [c01_getEnvelopeID_ser suf he (c01_kindOfId_id k)]
  simp only [Out.bind_ok, c01_kindOfId_id]
  unfold decryptWithHandler
  rw [c01_deserialize_ser suf he (c01_kindOfId_id k) hlen]
  simp only [Out.bind_ok, hm, Bool.not_true, Bool.false_eq_true, if_false]

theorem c01_registryMatch_ser (k : Kind) (e suf : Bytes) (he : e ≠ [])
    (hlen : e.length + 12 < 2^64) (hm : matchKind k e = true) :
    registryMatch (serBytes e k.id ++ suf) = true := by
  unfold registryMatch
  rw [c01_deserialize_ser suf he (c01_kindOfId_id k) hlen]
  simp only [c01_kindOfId_id, hm]

/-- the block handler on exactly one freshly built block -/
theorem c01_decryptKind_block (c : CryptoOps) (kv : KeyView) (b m : Bytes) (ks : List Bytes)
    (hx : extractBlock b = .ok (b.length, b)) (hks : kv.syms = some ks)
    (hd : decryptBlock c ks [] b = .ok m) : decryptKind c kv .block b = .ok m := by
  unfold decryptKind
  simp only [hx, hks, hd, ne_eq, not_true_eq_false, if_false]

theorem c01_protect_of_match (c : CryptoOps) (kv : KeyView) (k : Kind) (d rnd : Bytes)
    (h : matchKind k d = true ∨ registryMatch d = true) : protect c kv k d rnd = .ok d := by
  unfold protect
  rcases h with h | h <;> simp [h]

/-- Hypotheses of the AcraBlock round trip through the registry handler: the AEAD laws; the writer's
current symmetric key `key` occurs somewhere in the reader's key list; keys listed before it do not
unseal the wrapped data key when their 2-byte id collides; the 2-byte id really is 2 bytes and the
length fields do not wrap (both follow from `HashLen c` resp. `SealLen c`). -/
def BlockRoundTripHyps (c : CryptoOps) (kvW kvR : KeyView) (rnd p : Bytes) : Prop :=
  SealLaws c ∧ ∃ (key : Bytes) (pre post : List Bytes),
    (keyId c key []).length = 2 ∧ kvW.sym = some key ∧ kvR.syms = some (pre ++ key :: post) ∧
    (∀ k' ∈ pre, ∀ encKey, c.enc key [] (rnd.take 32) ((rnd.drop 44).take 12) = some encKey →
      keyId c k' [] = keyId c key [] → c.dec k' [] encKey = none) ∧
    (∀ encKey, c.enc key [] (rnd.take 32) ((rnd.drop 44).take 12) = some encKey → encKey.length < 65536) ∧
    p.length < 2^63

/-- Hypotheses of the AcraStruct round trip through the registry handler: the laws of the AEAD and
of Secure Message with their length laws, key generation; the writer used the public key of a
well-formed `priv` that occurs somewhere in the reader's list of private keys; keys listed before it
fail on the value (or give the same answer). -/
def StructRoundTripHyps (c : CryptoOps) (kvW kvR : KeyView) (m rnd : Bytes) : Prop :=
  SealLaws c ∧ SealLen c ∧ MsgLaws c ∧ MsgLen c ∧ KeygenLaws c ∧ ∃ (priv : Bytes) (pre post : List Bytes),
    c.validPriv priv = true ∧ kvW.pub = some (c.pubOf priv) ∧ kvR.privs = some (pre ++ priv :: post) ∧
    (∀ k' ∈ pre, ∀ s, createStruct c (c.pubOf priv) [] m rnd = .ok s →
      decryptStruct c k' [] s = .err ∨ decryptStruct c k' [] s = .ok m)

/-- the round-trip hypotheses for the envelope kind used -/
def RoundTripHyps (c : CryptoOps) (k : Kind) (kvW kvR : KeyView) (m rnd p : Bytes) : Prop :=
  match k with
  | .block => BlockRoundTripHyps c kvW kvR rnd p
  | .struct => StructRoundTripHyps c kvW kvR m rnd

/-- everything `reveal` and the column processor need to know about a value protected as AcraBlock -/
theorem c01_protect_block_facts (c : CryptoOps) (hs : SealLaws c) (kvW kvR : KeyView) (key m rnd p : Bytes)
    (pre post : List Bytes)
    (hkid : (keyId c key []).length = 2)
    (hW : kvW.sym = some key) (hR : kvR.syms = some (pre ++ key :: post))
    (hpre : ∀ k' ∈ pre, ∀ encKey, c.enc key [] (rnd.take 32) ((rnd.drop 44).take 12) = some encKey →
      keyId c k' [] = keyId c key [] → c.dec k' [] encKey = none ∨ c.dec k' [] encKey = some (rnd.take 32))
    (hEncKey : ∀ encKey, c.enc key [] (rnd.take 32) ((rnd.drop 44).take 12) = some encKey → encKey.length < 65536)
    (hplen : p.length < 2^63)
    (hnm : matchKind .block m = false) (hnr : registryMatch m = false)
    (hp : protect c kvW .block m rnd = .ok p) :
    ∃ e, p = serBytes e Kind.block.id ∧ e ≠ [] ∧ e.length + 12 < 2^63 ∧ matchKind .block e = true ∧
      decryptKind c kvR .block e = .ok m := by
  obtain ⟨e, he, hne', rfl⟩ := c01_protect_ok hp hnm hnr
  obtain ⟨key', hk', hcb⟩ := c01_encryptKind_block he hnm
  rw [hW] at hk'; cases hk'
  rw [c01_serBytes_length] at hplen
  obtain ⟨encData, encKey, h1, h2, rfl⟩ := c01_createBlock_ok hcb
  have hx := c01_extractBlock_build (keyId c key []) encKey encData [] hkid (by omega)
  rw [List.append_nil] at hx
  have hd := c01_decryptBlock_build c hs key [] _ m encKey encData _ _ pre post hkid (hEncKey _ h2) h1 h2
    (fun k' hk' hid => hpre k' hk' encKey h2 hid)
  exact ⟨_, rfl, hne', by omega, by simp [matchKind, hx, Out.isOk], c01_decryptKind_block c kvR _ m _ hx hR hd⟩

theorem c01_encryptKind_struct {c : CryptoOps} {kv : KeyView} {m rnd e : Bytes}
    (he : encryptKind c kv .struct m rnd = .ok e) (hnm : matchKind .struct m = false) :
    ∃ pub, kv.pub = some pub ∧ createStruct c pub [] m rnd = .ok e := by
  unfold encryptKind at he
  rw [hnm] at he
  simp only [Bool.false_eq_true, if_false] at he
  cases hs : kv.pub with
  | none => rw [hs] at he; cases he
  | some pub => rw [hs] at he; exact ⟨pub, rfl, he⟩

/-- the struct handler on a valid AcraStruct -/
theorem c01_decryptKind_struct (c : CryptoOps) (kv : KeyView) (s m : Bytes) (ps : List Bytes)
    (hv : validateStruct s = .ok ()) (hps : kv.privs = some ps)
    (hd : decryptStructRotated c [] s ps = .ok m) : decryptKind c kv .struct s = .ok m := by
  unfold decryptKind
  simp only [hv, hps, hd]

/-- everything `reveal` and the column processor need to know about a value protected as AcraStruct -/
theorem c01_protect_struct_facts (c : CryptoOps) (hs : SealLaws c) (hsl : SealLen c) (hm : MsgLaws c) (hml : MsgLen c)
    (hk : KeygenLaws c) (kvW kvR : KeyView) (priv m rnd p : Bytes) (pre post : List Bytes)
    (hpriv : c.validPriv priv = true)
    (hW : kvW.pub = some (c.pubOf priv)) (hR : kvR.privs = some (pre ++ priv :: post))
    (hpre : ∀ k' ∈ pre, ∀ s, createStruct c (c.pubOf priv) [] m rnd = .ok s →
      decryptStruct c k' [] s = .err ∨ decryptStruct c k' [] s = .ok m)
    (hnm : matchKind .struct m = false) (hnr : registryMatch m = false)
    (hp : protect c kvW .struct m rnd = .ok p) :
    ∃ e, p = serBytes e Kind.struct.id ∧ e ≠ [] ∧ e.length = m.length + 189 ∧ m.length < 2^32 ∧
      matchKind .struct e = true ∧ decryptKind c kvR .struct e = .ok m := by
  obtain ⟨e, he, hne', rfl⟩ := c01_protect_ok hp hnm hnr
  obtain ⟨pub, hpub, hcs⟩ := c01_encryptKind_struct he hnm
  rw [hW] at hpub; cases hpub
  obtain ⟨hval, _, hd, hlen, hmlen⟩ := c01_struct_roundtrip c hs hsl hm hml hk priv [] m rnd e hpriv hcs
  refine ⟨e, rfl, hne', hlen, hmlen, by simp [matchKind, hval], ?_⟩
  exact c01_decryptKind_struct c kvR e m _ hval hR
    (c01_decryptStructRotated_found c [] e priv m pre post (fun k' hk' => hpre k' hk' e hcs) hd)

end AcraModel.Envelope
