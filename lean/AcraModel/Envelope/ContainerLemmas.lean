import AcraModel.Envelope.Container
import AcraModel.Envelope.SliceLemmas
/-!
Layout lemmas for the serialized container (C01): what the registry functions read back from
`%%% | length(8) | id | envelope | suffix`.
-/
namespace AcraModel.Envelope
open AcraModel Generated

/-- the bytes `serialize` produces -/
def serBytes (e : Bytes) (id : UInt8) : Bytes :=
  containerTag ++ leBytes 8 (containerMin + e.length) ++ [id] ++ e

theorem c01_serialize_eq {e : Bytes} (id : UInt8) (he : e ≠ []) : serialize e id = .ok (serBytes e id) := by
  unfold serialize serBytes
  rw [if_neg he]

theorem c01_serialize_ok {e p : Bytes} {id : UInt8} (h : serialize e id = .ok p) : e ≠ [] ∧ p = serBytes e id := by
  unfold serialize at h
  split at h
  · cases h
  · next he => cases h; exact ⟨he, rfl⟩

theorem c01_containerTag_length : containerTag.length = 3 := by decide

theorem c01_serBytes_length (e : Bytes) (id : UInt8) : (serBytes e id).length = 12 + e.length := by
  simp [serBytes, c01_containerTag_length]; omega

theorem c01_kindOfId_id (k : Kind) : kindOfId k.id = some k := by
  cases k <;> decide

theorem c01_kindOfId_some {id : UInt8} (h : id = idBlock ∨ id = idStruct) : ∃ k, kindOfId id = some k := by
  rcases h with h | h <;> subst h
  · exact ⟨.block, by decide⟩
  · exact ⟨.struct, by decide⟩

/-- the four fields of a container followed by arbitrary bytes -/
theorem c01_container_fields (L e suf : Bytes) (id : UInt8) (hL : L.length = 8) :
    goSlice (containerTag ++ L ++ [id] ++ e ++ suf) 0 3 = .ok containerTag ∧
    goSlice (containerTag ++ L ++ [id] ++ e ++ suf) 3 11 = .ok L ∧
    goIndex (containerTag ++ L ++ [id] ++ e ++ suf) 11 = .ok id ∧
    goSliceFrom (containerTag ++ L ++ [id] ++ e ++ suf) 12 = .ok (e ++ suf) := by
  refine ⟨?_, ?_, ?_, ?_⟩
  · exact c01_goSlice_prefix (a := containerTag) (c := L ++ [id] ++ e ++ suf) (by simp) (by decide)
  · exact c01_goSlice_split (a := containerTag) (b := L) (c := [id] ++ e ++ suf) (by simp)
      (by decide) (by simp [hL, c01_containerTag_length])
  · exact c01_goIndex_split (a := containerTag ++ L) (c := e ++ suf) (by simp)
      (by simp [hL, c01_containerTag_length])
  · exact c01_goSliceFrom_split (a := containerTag ++ L ++ [id]) (c := e ++ suf) (by simp)
      (by simp [hL, c01_containerTag_length])

theorem c01_validateContainer_ser {e : Bytes} {id : UInt8} {k : Kind} (suf : Bytes) (he : e ≠ [])
    (hk : kindOfId id = some k) : validateContainer (serBytes e id ++ suf) = .ok id := by
  obtain ⟨h1, _, h3, _⟩ := c01_container_fields (leBytes 8 (containerMin + e.length)) e suf id (by simp)
  have hlen : ¬ (serBytes e id ++ suf).length ≤ containerMin := by
    have : 0 < e.length := List.length_pos_iff.mpr he
    rw [List.length_append, c01_serBytes_length]
    show ¬ _ ≤ 12
    omega
  unfold validateContainer
  rw [if_neg hlen]
  unfold serBytes
  simp only [c01_containerTag_length, Layout.containerTagBeginSize, Layout.containerLengthSize]
  rw [h1, h3]
  simp [hk]

theorem c01_getEnvelopeID_ser {e : Bytes} {id : UInt8} {k : Kind} (suf : Bytes) (he : e ≠ [])
    (hk : kindOfId id = some k) : getEnvelopeID (serBytes e id ++ suf) = .ok (id, false) := by
  unfold getEnvelopeID
  rw [c01_validateContainer_ser suf he hk]

theorem c01_containerInternalLength_ser (e suf : Bytes) (id : UInt8) (hlen : e.length + 12 < 2^64) :
    containerInternalLength (serBytes e id ++ suf) = .ok e.length := by
  obtain ⟨_, h2, _, _⟩ := c01_container_fields (leBytes 8 (containerMin + e.length)) e suf id (by simp)
  unfold containerInternalLength
  have hl : (serBytes e id ++ suf).length = 12 + e.length + suf.length := by
    rw [List.length_append, c01_serBytes_length]
  rw [hl]
  unfold serBytes
  simp only [c01_containerTag_length, Layout.containerLengthSize]
  rw [h2]
  have hv : leVal (leBytes 8 (containerMin + e.length)) = 12 + e.length :=
    c01_leVal_leBytes8 (by show 12 + e.length < 2^64; omega)
  have hc : containerMin = 12 := rfl
  rw [Out.bind_ok, hv, hc]
  have hm : (12 + e.length + 2^64 - 12) % 2^64 = e.length := by omega
  rw [hm, if_neg (by omega)]
  rfl

/-- `deserialize` takes exactly the declared length: trailing bytes are ignored -/
theorem c01_deserialize_ser {e : Bytes} {id : UInt8} {k : Kind} (suf : Bytes) (he : e ≠ [])
    (hk : kindOfId id = some k) (hlen : e.length + 12 < 2^64) :
    deserialize (serBytes e id ++ suf) = .ok (e, id) := by
  obtain ⟨_, _, _, h4⟩ := c01_container_fields (leBytes 8 (containerMin + e.length)) e suf id (by simp)
  unfold deserialize
  rw [c01_getEnvelopeID_ser suf he hk, c01_containerInternalLength_ser e suf id hlen]
  have hc : containerMin = 12 := rfl
  simp only [Out.bind_ok, hc]
  have h4' : goSliceFrom (serBytes e id ++ suf) 12 = .ok (e ++ suf) := h4
  rw [h4']
  simp

theorem c01_extractContainer_ser {e : Bytes} {id : UInt8} {k : Kind} (suf : Bytes) (he : e ≠ [])
    (hk : kindOfId id = some k) (hlen : e.length + 12 < 2^63) :
    extractContainer (serBytes e id ++ suf) = .ok (((serBytes e id).length : Int), serBytes e id ++ suf) := by
  obtain ⟨_, h2, _, _⟩ := c01_container_fields (leBytes 8 (containerMin + e.length)) e suf id (by simp)
  unfold extractContainer
  rw [c01_validateContainer_ser suf he hk]
  have hl : (serBytes e id ++ suf).length = 12 + e.length + suf.length := by
    rw [List.length_append, c01_serBytes_length]
  have h2' : goSlice (serBytes e id ++ suf) 3 11 = .ok (leBytes 8 (containerMin + e.length)) := h2
  simp only [c01_containerTag_length, Layout.containerLengthSize, hl]
  rw [h2']
  have hv : leVal (leBytes 8 (containerMin + e.length)) = 12 + e.length :=
    c01_leVal_leBytes8 (by show 12 + e.length < 2^64; omega)
  have hc : containerMin = 12 := rfl
  rw [Out.bind_ok, hv, hc, if_neg (by omega), c01_toInt64_of_lt (by omega), c01_serBytes_length]
  rfl

end AcraModel.Envelope
