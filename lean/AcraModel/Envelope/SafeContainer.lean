import AcraModel.Envelope.SafeStruct
/-!
Serialized container and registry handler: closed form of `validateContainer`, no panic of every
function up to `process` / `protect`, bounds of `extractContainer` and `deserialize`
(helpers for C03 / C14).
-/
namespace AcraModel.Envelope
open AcraModel Generated

theorem validateContainer_eq (d : Bytes) :
    validateContainer d = if d.length ≤ 12 then .err else
      if d.take 3 ≠ containerTag then .err else
        match kindOfId (d.getD 11 0) with
        | some _ => .ok (d.getD 11 0)
        | none => .err := by
  unfold validateContainer
  rw [show containerMin = 12 from rfl, show containerTag.length = 3 from rfl,
    show Layout.containerTagBeginSize = 3 from rfl, show Layout.containerLengthSize = 8 from rfl]
  by_cases h : d.length ≤ 12
  · rw [if_pos h, if_pos h]
  · rw [if_neg h, if_neg h, goSlice_zero_ok d 3 (by omega), goIndex_ok d (3 + 8) (by omega)]
    simp only [Out.bind_ok]
    rw [getD_eq_getElem d 11 (by omega)]
    rfl

theorem validateContainer_ne_panic (d : Bytes) : validateContainer d ≠ .panic := by
  rw [validateContainer_eq]; repeat' split
  all_goals simp

theorem validateContainer_ok {d : Bytes} {id : UInt8} (h : validateContainer d = .ok id) :
    12 < d.length ∧ d.take 3 = containerTag ∧ id = d.getD 11 0 ∧ ∃ k, kindOfId id = some k := by
  rw [validateContainer_eq] at h
  split at h
  · cases h
  · split at h
    · cases h
    · next h1 h2 =>
      split at h
      · next k hk => cases h; exact ⟨by omega, by simpa using h2, rfl, k, hk⟩
      · cases h

theorem matchOld_ne_panic (d : Bytes) : matchOld d ≠ .panic := by
  unfold matchOld
  split
  · next h => exact absurd h (validateStruct_ne_panic d)
  · next h => rw [getDataLength_eq d (validateStruct_ok h).1]; simp
  · split
    · simp
    · next h => exact absurd h (extractBlock_ne_panic d)
    · simp

/-- what `matchOldContainer` answers: a whole-buffer AcraStruct or an AcraBlock at the start -/
theorem matchOld_ok {d : Bytes} {id : UInt8} {n : Int} (h : matchOld d = .ok (id, n)) :
    (validateStruct d = .ok () ∧ id = idStruct ∧ (d.length < 2^63 → n = (d.length : Int))) ∨
    (validateStruct d = .err ∧ id = idBlock ∧ ∃ k b, extractBlock d = .ok (k, b) ∧ n = (k : Int)) := by
  unfold matchOld at h
  split at h
  · cases h
  · next hv =>
    obtain ⟨h1, _, h3⟩ := validateStruct_ok hv
    rw [getDataLength_eq d h1, h3] at h
    simp only [Out.bind_ok, Out.pure_eq, Out.ok.injEq, Prod.mk.injEq] at h
    left
    refine ⟨hv, h.1.symm, ?_⟩
    intro hd
    rw [← h.2, toInt64_of_lt (show d.length - 145 < 2^63 by omega), structMin_eq]
    have e : (((d.length - 145 : Nat) : Int) + ((145 : Nat) : Int)).toNat = d.length := by omega
    rw [e, toInt64_of_lt hd]
  · next hv =>
    split at h
    · next k b hb => cases h; right; exact ⟨hv, rfl, k, b, hb, rfl⟩
    · cases h
    · cases h

theorem getEnvelopeID_ne_panic (d : Bytes) : getEnvelopeID d ≠ .panic := by
  unfold getEnvelopeID
  split
  · simp
  · next h => exact absurd h (validateContainer_ne_panic d)
  · split
    · simp
    · next h => exact absurd h (matchOld_ne_panic d)
    · simp

theorem getEnvelopeID_ok {d : Bytes} {id : UInt8} {old : Bool} (h : getEnvelopeID d = .ok (id, old)) :
    (old = false ∧ validateContainer d = .ok id) ∨
    (old = true ∧ validateContainer d = .err ∧ ∃ n, matchOld d = .ok (id, n)) := by
  unfold getEnvelopeID at h
  split at h
  · next hv => cases h; exact .inl ⟨rfl, hv⟩
  · cases h
  · next hv =>
    split at h
    · next id' n hm => cases h; exact .inr ⟨rfl, hv, n, hm⟩
    · cases h
    · cases h

-- NB: no `simp` on goals that mention `leVal lb + 2^64 - containerMin` (it does not come back)
theorem containerInternalLength_ne_panic (d : Bytes) (h : 11 ≤ d.length) : containerInternalLength d ≠ .panic := by
  unfold containerInternalLength
  rw [show containerTag.length = 3 from rfl, show Layout.containerLengthSize = 8 from rfl,
    goSlice_ok d 3 (3 + 8) (by omega) (by omega), Out.bind_ok]
  exact ite_ne_panic (fun h => nomatch h) (fun h => nomatch h)

theorem containerInternalLength_short (d : Bytes) (h : d.length < 11) : containerInternalLength d = .panic := by
  unfold containerInternalLength goSlice
  rw [show containerTag.length = 3 from rfl, show Layout.containerLengthSize = 8 from rfl, if_neg (by omega)]
  rfl

theorem containerInternalLength_ok {d : Bytes} {n : Nat} (h : containerInternalLength d = .ok n) :
    n ≤ d.length - 12 := by
  unfold containerInternalLength at h
  cases hg : goSlice d containerTag.length (containerTag.length + Layout.containerLengthSize) with
  | panic => rw [hg] at h; cases h
  | err => rw [hg] at h; cases h
  | ok lb =>
    rw [hg, Out.bind_ok] at h
    obtain ⟨hc, rfl⟩ := ite_err_pure_ok h
    exact Nat.le_of_not_gt hc

theorem deserialize_ne_panic (d : Bytes) : deserialize d ≠ .panic := by
  unfold deserialize
  apply Out.bind_ne_panic _ _ (getEnvelopeID_ne_panic d)
  rintro ⟨id, old⟩ hid
  cases old with
  | true => simp
  | false =>
    simp only [Bool.false_eq_true, if_false]
    rcases getEnvelopeID_ok hid with ⟨_, hv⟩ | ⟨ho, _⟩
    · have hl := (validateContainer_ok hv).1
      apply Out.bind_ne_panic _ _ (containerInternalLength_ne_panic d (by omega))
      intro n _
      rw [show containerMin = 12 from rfl, goSliceFrom_ok d 12 (by omega)]
      simp
    · cases ho

/-- the internal envelope `DeserializeEncryptedData` hands out is a part of the input -/
theorem deserialize_ok {d i : Bytes} {id : UInt8} (h : deserialize d = .ok (i, id)) :
    (i = d ∧ validateContainer d = .err ∧ ∃ n, matchOld d = .ok (id, n)) ∨
    (validateContainer d = .ok id ∧ ∃ n, n ≤ d.length - 12 ∧ i = (d.drop 12).take n) := by
  unfold deserialize at h
  cases hid : getEnvelopeID d with
  | panic => rw [hid] at h; cases h
  | err => rw [hid] at h; cases h
  | ok p =>
    obtain ⟨id', old⟩ := p
    rw [hid] at h
    simp only [Out.bind_ok] at h
    rcases getEnvelopeID_ok hid with ⟨ho, hv⟩ | ⟨ho, hv, n, hm⟩
    · subst ho
      simp only [Bool.false_eq_true, if_false] at h
      have hl := (validateContainer_ok hv).1
      cases hc : containerInternalLength d with
      | panic => rw [hc] at h; cases h
      | err => rw [hc] at h; cases h
      | ok n =>
        rw [hc, show containerMin = 12 from rfl, goSliceFrom_ok d 12 (by omega)] at h
        simp only [Out.bind_ok, Out.pure_eq, Out.ok.injEq, Prod.mk.injEq] at h
        right
        rw [← h.2]
        exact ⟨hv, n, containerInternalLength_ok hc, h.1.symm⟩
    · subst ho
      simp only [if_true, Out.pure_eq, Out.ok.injEq, Prod.mk.injEq] at h
      left
      rw [← h.2]
      exact ⟨h.1.symm, hv, n, hm⟩

theorem deserialize_length {d i : Bytes} {id : UInt8} (h : deserialize d = .ok (i, id)) : i.length ≤ d.length := by
  rcases deserialize_ok h with ⟨rfl, _⟩ | ⟨_, n, hn, rfl⟩
  · exact Nat.le_refl _
  · rw [List.length_take, List.length_drop]; omega

theorem serialize_ne_panic (e : Bytes) (id : UInt8) : serialize e id ≠ .panic := by
  unfold serialize; split <;> simp

theorem extractContainer_ne_panic (d : Bytes) : extractContainer d ≠ .panic := by
  unfold extractContainer
  split
  · next h => exact absurd h (validateContainer_ne_panic d)
  · next id h =>
    have hl := (validateContainer_ok h).1
    rw [show containerTag.length = 3 from rfl, show Layout.containerLengthSize = 8 from rfl,
      goSlice_ok d 3 (3 + 8) (by omega) (by omega)]
    simp only [Out.bind_ok]
    split <;> simp
  · split
    · exact Out.bind_ne_panic _ _ (serialize_ne_panic _ _) (by intro a _; simp)
    · next h => exact absurd h (matchOld_ne_panic d)
    · simp

/-- the three ways `ExtractSerializedContainer` succeeds -/
theorem extractContainer_ok {d : Bytes} {n : Int} {cont : Bytes} (h : extractContainer d = .ok (n, cont)) :
    (∃ id, validateContainer d = .ok id ∧ cont = d ∧
      12 ≤ leVal ((d.take 11).drop 3) ∧ leVal ((d.take 11).drop 3) ≤ d.length ∧ n = toInt64 (leVal ((d.take 11).drop 3))) ∨
    (validateContainer d = .err ∧ ∃ id, matchOld d = .ok (id, n) ∧ serialize d id = .ok cont) := by
  unfold extractContainer at h
  split at h
  · cases h
  · next id hv =>
    have hl := (validateContainer_ok hv).1
    rw [show containerTag.length = 3 from rfl, show Layout.containerLengthSize = 8 from rfl,
      goSlice_ok d 3 (3 + 8) (by omega) (by omega), show containerMin = 12 from rfl] at h
    simp only [Out.bind_ok, Nat.reduceAdd] at h
    split at h
    · cases h
    · next hc =>
      simp only [Out.pure_eq, Out.ok.injEq, Prod.mk.injEq] at h
      left
      exact ⟨id, hv, h.2.symm, by omega, by omega, h.1.symm⟩
  · next hv =>
    split at h
    · next id n' hm =>
      cases hs : serialize d id with
      | panic => rw [hs] at h; cases h
      | err => rw [hs] at h; cases h
      | ok s =>
        rw [hs] at h
        simp only [Out.bind_ok, Out.pure_eq, Out.ok.injEq, Prod.mk.injEq] at h
        right
        rw [← h.1, ← h.2]
        exact ⟨hv, id, hm, hs⟩
    · cases h
    · cases h

/-- `ExtractSerializedContainer` tells its caller to advance by at least one byte and never past the
end of the data (for data shorter than 2^63 bytes – every Go slice is). -/
theorem extractContainer_bounds' {d : Bytes} {n : Int} {cont : Bytes} (hd : d.length < 2^63)
    (h : extractContainer d = .ok (n, cont)) : 0 < n ∧ n ≤ d.length := by
  rcases extractContainer_ok h with ⟨id, _, _, h1, h2, rfl⟩ | ⟨_, id, hm, _⟩
  · rw [toInt64_of_lt (by omega)]; omega
  · rcases matchOld_ok hm with ⟨hv, _, hn⟩ | ⟨_, _, k, b, hb, rfl⟩
    · have := (validateStruct_ok hv).1
      rw [hn hd]; omega
    · have := extractBlock_bounds' hb
      omega

theorem createBlock_ne_panic (c : CryptoOps) (key ctx m rnd : Bytes) : createBlock c key ctx m rnd ≠ .panic := by
  unfold createBlock
  intro h
  dsimp only at h
  split at h
  · cases h
  · split at h <;> cases h

theorem createStruct_ne_panic (c : CryptoOps) (pub ctx m rnd : Bytes) : createStruct c pub ctx m rnd ≠ .panic := by
  unfold createStruct
  intro h
  dsimp only at h
  split at h
  · cases h
  · split at h <;> cases h

theorem decryptKind_ne_panic (c : CryptoOps) (kv : KeyView) (k : Kind) (i : Bytes) : decryptKind c kv k i ≠ .panic := by
  unfold decryptKind
  cases k with
  | struct =>
    simp only
    split
    · next h => exact absurd h (validateStruct_ne_panic i)
    · simp
    · split
      · simp
      · exact decryptStructRotated_ne_panic c [] i _
  | block =>
    simp only
    split
    · next h => exact absurd h (extractBlock_ne_panic i)
    · simp
    · next n b hb =>
      split
      · simp
      · split
        · simp
        · exact decryptBlock_extracted_ne_panic c _ [] i n b hb

theorem decryptWithHandler_ne_panic (c : CryptoOps) (kv : KeyView) (k : Kind) (d : Bytes) :
    decryptWithHandler c kv k d ≠ .panic := by
  unfold decryptWithHandler
  apply Out.bind_ne_panic _ _ (deserialize_ne_panic d)
  rintro ⟨i, id⟩ _
  simp only
  split
  · simp
  · exact decryptKind_ne_panic c kv k i

theorem process_ne_panic (c : CryptoOps) (kv : KeyView) (d : Bytes) : process c kv d ≠ .panic := by
  unfold process
  apply Out.bind_ne_panic _ _ (getEnvelopeID_ne_panic d)
  rintro ⟨id, old⟩ _
  simp only
  split
  · simp
  · exact decryptWithHandler_ne_panic c kv _ d

theorem encryptKind_ne_panic (c : CryptoOps) (kv : KeyView) (k : Kind) (d rnd : Bytes) :
    encryptKind c kv k d rnd ≠ .panic := by
  unfold encryptKind
  split
  · simp
  · cases k with
    | struct =>
      simp only
      split
      · simp
      · exact createStruct_ne_panic _ _ _ _ _
    | block =>
      simp only
      split
      · simp
      · exact createBlock_ne_panic _ _ _ _ _

theorem protect_ne_panic (c : CryptoOps) (kv : KeyView) (k : Kind) (d rnd : Bytes) :
    protect c kv k d rnd ≠ .panic := by
  unfold protect
  split
  · simp
  · exact Out.bind_ne_panic _ _ (encryptKind_ne_panic c kv k d rnd) (fun e _ => serialize_ne_panic e _)

end AcraModel.Envelope
