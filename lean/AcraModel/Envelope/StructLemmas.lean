import AcraModel.Envelope.AcraStruct
import AcraModel.Envelope.SliceLemmas
/-!
Layout lemmas for the AcraStruct (C01): what `validateStruct` / `extractStruct` / `decryptStruct` read
back from the bytes `createStruct` writes.
-/
namespace AcraModel.Envelope
open AcraModel Generated

theorem c01_structTag_length : structTag.length = 8 := by decide

/-- the fields of `tag(8) | pub(45) | wrapped key(84) | dataLength(8) | body | suffix` -/
theorem c01_struct_fields (t pub wk L8 body suf : Bytes)
    (ht : t.length = 8) (hpub : pub.length = 45) (hwk : wk.length = 84) (hL8 : L8.length = 8) :
    goSlice (t ++ pub ++ wk ++ L8 ++ body ++ suf) 0 8 = .ok t ∧
    goSlice (t ++ pub ++ wk ++ L8 ++ body ++ suf) 137 145 = .ok L8 ∧
    goSlice (t ++ pub ++ wk ++ L8 ++ body ++ suf) 0 (145 + body.length) = .ok (t ++ pub ++ wk ++ L8 ++ body) ∧
    goSliceFrom (t ++ pub ++ wk ++ L8 ++ body ++ suf) 8 = .ok (pub ++ wk ++ L8 ++ body ++ suf) ∧
    (t ++ pub ++ wk ++ L8 ++ body ++ suf).length = 145 + body.length + suf.length := by
  refine ⟨?_, ?_, ?_, ?_, ?_⟩
  · exact c01_goSlice_prefix (a := t) (c := pub ++ wk ++ L8 ++ body ++ suf) (by simp) ht.symm
  · exact c01_goSlice_split (a := t ++ pub ++ wk) (b := L8) (c := body ++ suf) (by simp)
      (by simp; omega) (by simp; omega)
  · exact c01_goSlice_prefix (a := t ++ pub ++ wk ++ L8 ++ body) (c := suf) rfl (by simp; omega)
  · exact c01_goSliceFrom_split (a := t) (c := pub ++ wk ++ L8 ++ body ++ suf) (by simp) ht.symm
  · simp; omega

/-- the fields of the part after the tag -/
theorem c01_struct_inner_fields (pub wk L8 body : Bytes)
    (hpub : pub.length = 45) (hwk : wk.length = 84) (hL8 : L8.length = 8) :
    goSlice (pub ++ wk ++ L8 ++ body) 0 45 = .ok pub ∧
    goSlice (pub ++ wk ++ L8 ++ body) 45 129 = .ok wk ∧
    goSlice (pub ++ wk ++ L8 ++ body) 129 137 = .ok L8 ∧
    goSliceFrom (pub ++ wk ++ L8 ++ body) 137 = .ok body := by
  refine ⟨?_, ?_, ?_, ?_⟩
  · exact c01_goSlice_prefix (a := pub) (c := wk ++ L8 ++ body) (by simp) hpub.symm
  · exact c01_goSlice_split (a := pub) (b := wk) (c := L8 ++ body) (by simp) hpub.symm (by omega)
  · exact c01_goSlice_split (a := pub ++ wk) (b := L8) (c := body) (by simp) (by simp; omega) (by simp; omega)
  · exact c01_goSliceFrom_split (a := pub ++ wk ++ L8) (c := body) (by simp) (by simp; omega)

theorem c01_structMin : structMin = 145 := rfl
theorem c01_structTagLen : structTagLen = 8 := rfl
theorem c01_structDataLenSize : structDataLenSize = 8 := rfl
theorem c01_structPubLen : structPubLen = 45 := rfl
theorem c01_structKeyBlockLen : structKeyBlockLen = 129 := rfl

/-- `ValidateAcraStructLength` accepts a well-formed AcraStruct -/
theorem c01_validateStruct_fields (pub wk L8 body : Bytes)
    (hpub : pub.length = 45) (hwk : wk.length = 84) (hL8 : L8.length = 8)
    (hv : leVal L8 = body.length) (hb : body.length < 2^63) :
    validateStruct (structTag ++ pub ++ wk ++ L8 ++ body) = .ok () := by
  obtain ⟨f1, f2, _, _, f5⟩ := c01_struct_fields structTag pub wk L8 body [] c01_structTag_length hpub hwk hL8
  simp only [List.append_nil, List.length_nil, Nat.add_zero] at f1 f2 f5
  unfold validateStruct getDataLength
  rw [f5, c01_structMin, c01_structTagLen, c01_structDataLenSize, if_neg (by omega), f1]
  rw [Out.bind_ok, if_neg (by simp)]
  have h137 : 145 - 8 = 137 := rfl
  rw [h137, f2, Out.bind_ok, Out.pure_eq, Out.bind_ok, hv, c01_toInt64_of_lt hb]
  have h2 : 145 + body.length - 145 = body.length := by omega
  rw [h2, if_neg (by simp)]
  rfl

/-- `ExtractAcraStruct` finds exactly the AcraStruct at the start of `struct ++ suffix` -/
theorem c01_extractStruct_fields (pub wk L8 body suf : Bytes)
    (hpub : pub.length = 45) (hwk : wk.length = 84) (hL8 : L8.length = 8)
    (hv : leVal L8 = body.length) (hb : body.length + 145 < 2^63) :
    extractStruct (structTag ++ pub ++ wk ++ L8 ++ body ++ suf) =
      .ok (145 + body.length, structTag ++ pub ++ wk ++ L8 ++ body) := by
  obtain ⟨_, f2, f3, _, f5⟩ := c01_struct_fields structTag pub wk L8 body suf c01_structTag_length hpub hwk hL8
  have hval := c01_validateStruct_fields pub wk L8 body hpub hwk hL8 hv (by omega)
  unfold extractStruct
  rw [f5, c01_structMin, c01_structDataLenSize, if_neg (by omega)]
  have h137 : 145 - 8 = 137 := rfl
  rw [h137, f2, Out.bind_ok, hv, c01_toInt64_of_lt hb]
  have hc : ¬ (((body.length + 145 : Nat) : Int) < 0 ∨ ((body.length + 145 : Nat) : Int) > ((145 + body.length + suf.length : Nat) : Int)) := by
    omega
  rw [if_neg hc, Int.toNat_natCast]
  have h2 : body.length + 145 = 145 + body.length := by omega
  rw [h2, f3, Out.bind_ok, hval]
  rfl

/-- `DecryptAcrastruct` on a well-formed AcraStruct: unwrap the symmetric key, unseal the body -/
theorem c01_decryptStruct_fields (c : CryptoOps) (priv ctx pub wk L8 body symKey m : Bytes)
    (hpub : pub.length = 45) (hwk : wk.length = 84) (hL8 : L8.length = 8)
    (hval : validateStruct (structTag ++ pub ++ wk ++ L8 ++ body) = .ok ())
    (hu : c.unwrap priv pub wk = some symKey) (hne : symKey ≠ []) (hd : c.dec symKey ctx body = some m) :
    decryptStruct c priv ctx (structTag ++ pub ++ wk ++ L8 ++ body) = .ok m := by
  obtain ⟨_, _, _, f4, _⟩ := c01_struct_fields structTag pub wk L8 body [] c01_structTag_length hpub hwk hL8
  simp only [List.append_nil] at f4
  obtain ⟨g1, g2, g3, g4⟩ := c01_struct_inner_fields pub wk L8 body hpub hwk hL8
  unfold decryptStruct
  rw [hval, c01_structTagLen, c01_structPubLen, c01_structKeyBlockLen, c01_structDataLenSize]
  have h137 : 129 + 8 = 137 := rfl
  rw [Out.bind_ok, f4, Out.bind_ok, g1, Out.bind_ok, g2, Out.bind_ok]
  simp only [hu, h137, g3, g4, Out.bind_ok, hne, if_false, hd]

/-- what a successful `CreateAcrastruct` has computed -/
theorem c01_createStruct_ok {c : CryptoOps} {pub ctx m rnd s : Bytes} (h : createStruct c pub ctx m rnd = .ok s) :
    ∃ encKey encData, c.wrap (c.privOfSeed (rnd.take 32)) pub ((rnd.drop 32).take 32) ((rnd.drop 64).take 12) = some encKey ∧
      c.enc ((rnd.drop 32).take 32) ctx m ((rnd.drop 76).take 12) = some encData ∧
      s = structTag ++ c.pubOf (c.privOfSeed (rnd.take 32)) ++ encKey ++ leBytes 8 encData.length ++ encData := by
  unfold createStruct at h
  simp only at h
  split at h
  · cases h
  · next encKey h1 =>
    split at h
    · cases h
    · next encData h2 =>
      cases h
      exact ⟨encKey, encData, h1, h2, rfl⟩

/-- sizes of the parts of a freshly created AcraStruct, from the length laws of the primitives -/
theorem c01_createStruct_sizes {c : CryptoOps} (hs : SealLaws c) (hsl : SealLen c) (hml : MsgLen c)
    (hk : KeygenLaws c) {pub ctx m rnd encKey encData : Bytes}
    (h1 : c.wrap (c.privOfSeed (rnd.take 32)) pub ((rnd.drop 32).take 32) ((rnd.drop 64).take 12) = some encKey)
    (h2 : c.enc ((rnd.drop 32).take 32) ctx m ((rnd.drop 76).take 12) = some encData) :
    88 ≤ rnd.length ∧ c.validPriv (c.privOfSeed (rnd.take 32)) = true ∧
    (c.pubOf (c.privOfSeed (rnd.take 32))).length = 45 ∧ encKey.length = 84 ∧
    encData.length = m.length + 44 ∧ m.length < 2^32 ∧ (rnd.drop 32).take 32 ≠ [] := by
  have hnone : ¬ (m = [] ∨ (rnd.drop 32).take 32 = [] ∨ ((rnd.drop 76).take 12).length ≠ nonceLen ∨ maxMsgLen ≤ m.length) := by
    intro hcon
    have := (hs.enc_none ((rnd.drop 32).take 32) ctx m ((rnd.drop 76).take 12)).mpr hcon
    rw [h2] at this
    cases this
  simp only [not_or, Decidable.not_not, Nat.not_le] at hnone
  obtain ⟨_, hsym, hn, hm⟩ := hnone
  have hr : 88 ≤ rnd.length := by
    rw [List.length_take, List.length_drop] at hn
    have : nonceLen = 12 := rfl
    omega
  have hvalid : c.validPriv (c.privOfSeed (rnd.take 32)) = true :=
    hk.valid_seed _ (by rw [List.length_take]; omega)
  refine ⟨hr, hvalid, hml.pub_len _ hvalid, ?_, hsl.enc_len _ _ _ _ _ h2, hm, hsym⟩
  rw [hml.wrap_len _ _ _ _ _ h1, List.length_take, List.length_drop]
  have : wrapOverhead = 52 := rfl
  omega

/-- the rotated-keys loop: keys that fail (or happen to give the same answer) are passed over -/
theorem c01_decryptStructRotated_found (c : CryptoOps) (ctx s priv m : Bytes) (pre post : List Bytes)
    (hpre : ∀ k' ∈ pre, decryptStruct c k' ctx s = .err ∨ decryptStruct c k' ctx s = .ok m)
    (hd : decryptStruct c priv ctx s = .ok m) :
    decryptStructRotated c ctx s (pre ++ priv :: post) = .ok m := by
  induction pre with
  | nil => simp [decryptStructRotated, hd]
  | cons k ks ih =>
    have ih' := ih (fun k' hk' => hpre k' (List.mem_cons_of_mem _ hk'))
    simp only [List.cons_append, decryptStructRotated]
    rcases hpre k List.mem_cons_self with h | h
    · rw [h]; exact ih'
    · rw [h]

/-- all layout and decryption facts about a freshly created AcraStruct -/
theorem c01_struct_roundtrip (c : CryptoOps) (hs : SealLaws c) (hsl : SealLen c) (hm : MsgLaws c) (hml : MsgLen c)
    (hk : KeygenLaws c) (priv ctx m rnd s : Bytes) (hpriv : c.validPriv priv = true)
    (hc : createStruct c (c.pubOf priv) ctx m rnd = .ok s) :
    validateStruct s = .ok () ∧ (∀ suffix, extractStruct (s ++ suffix) = .ok (s.length, s)) ∧
    decryptStruct c priv ctx s = .ok m ∧ s.length = m.length + 189 ∧ m.length < 2^32 := by
  obtain ⟨encKey, encData, h1, h2, rfl⟩ := c01_createStruct_ok hc
  obtain ⟨_, hvalid, hpub, hek, hed, hmlen, hsym⟩ := c01_createStruct_sizes hs hsl hml hk h1 h2
  have hv : leVal (leBytes 8 encData.length) = encData.length := c01_leVal_leBytes8 (by omega)
  have hval := c01_validateStruct_fields _ encKey (leBytes 8 encData.length) encData hpub hek (by simp) hv (by omega)
  have hlen : (structTag ++ c.pubOf (c.privOfSeed (rnd.take 32)) ++ encKey ++ leBytes 8 encData.length ++ encData).length
      = 145 + encData.length := by
    simp [c01_structTag_length, hpub, hek]; omega
  refine ⟨hval, ?_, ?_, by omega, hmlen⟩
  · intro suffix
    rw [hlen]
    exact c01_extractStruct_fields _ encKey _ encData suffix hpub hek (by simp) hv (by omega)
  · exact c01_decryptStruct_fields c priv ctx _ encKey _ encData _ m hpub hek (by simp) hval
      (hm.unwrap_wrap _ _ _ _ _ hvalid hpriv h1) hsym (hs.dec_enc _ _ _ _ _ h2)

end AcraModel.Envelope
