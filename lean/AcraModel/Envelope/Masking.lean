import AcraModel.Envelope.Detector
/-
Masking (`masking/dataEncryptor.go`, `masking/dataProcessor.go`, `masking/common/patterns.go`):
a masked column keeps a clear window of `k` bytes on one side and stores the rest as a protected
value; readers that cannot decrypt get the pattern in place of the protected part.
-/
namespace AcraModel.Envelope
open AcraModel

structure MaskCfg where
  pattern : Bytes
  k : Nat
  /-- `plaintext_side: left` (the END of the value is masked) -/
  left : Bool
  kind : Kind

/-- `ValidateMaskingParams` (the length cannot be negative in `Nat`; the side is a Bool here) -/
def validMask (cfg : MaskCfg) : Bool := !cfg.pattern.isEmpty

/-- `DataEncryptor.encryptByFunction` with the registry handler as encryption function -/
def maskWrite (c : CryptoOps) (kv : KeyView) (cfg : MaskCfg) (data rnd : Bytes) : Out Bytes :=
  if cfg.pattern = [] then .ok data
  else if cfg.k ≥ data.length then protect c kv cfg.kind data rnd
  else if cfg.left then do
    let e ← protect c kv cfg.kind (data.drop cfg.k) rnd
    pure (data.take cfg.k ++ e)
  else do
    let e ← protect c kv cfg.kind (data.take (data.length - cfg.k)) rnd
    pure (e ++ data.drop (data.length - cfg.k))

/-- `DecryptHandler` over `masking.Processor` for a column whose setting has a pattern: whatever
cannot be decrypted (error, or "decrypted" to itself) is replaced by the pattern -/
def maskCallback (c : CryptoOps) (kv : KeyView) (pattern : Bytes) : Callback := fun container =>
  let shown := match process c kv container with
    | .ok d => if d == container then pattern else d
    | _ => pattern
  if shown == container then .same else .replaced shown

/-- what a reader with key view `kv` receives for a stored masked value (SQL proxy: compatibility
wrapper + decrypt handler over the masking processor) -/
def maskRead (c : CryptoOps) (kv : KeyView) (cfg : MaskCfg) (stored : Bytes) : ScanOut :=
  if cfg.pattern = [] then onColumnCompat [decryptCallback c kv] stored
  else onColumnCompat [maskCallback c kv cfg.pattern] stored

end AcraModel.Envelope
