import AcraModel.Envelope.MaskLemmas
import AcraModel.Envelope.WindowOk
/-!
The clear window of a masked value may contain `%` (C11): what the read theorems need is not "no `%`
in the window" but only that the column scan passes over every position of the window – i.e. that no
position inside the window is the start of something `ExtractSerializedContainer` accepts when read
together with the bytes that follow it in the stored value (the container's own header included).
`windowOk` is that condition, stated with the model's own decode attempt; it is executable (the
harness asks the model for it) and it is implied by the old `cleanWindow`.
-/
namespace AcraModel.Envelope
open AcraModel Generated

/-! ### a left window that ends in one or two `%` -/

theorem leBytes_add (a b n : Nat) : leBytes (a + b) n = leBytes a n ++ leBytes b (n / 256 ^ a) := by
  induction a generalizing n with
  | zero => simp [leBytes]
  | succ a ih =>
    rw [Nat.succ_add]
    simp only [leBytes, List.cons_append, List.cons.injEq, true_and]
    rw [ih, Nat.div_div_eq_div_mul, Nat.pow_succ, Nat.mul_comm]

theorem leBytes8_small (n : Nat) (h : n < 2^48) : ∃ a b c d e f : UInt8, leBytes 8 n = [a, b, c, d, e, f, 0, 0] := by
  have h6 : (leBytes 6 n).length = 6 := leBytes_length 6 n
  have := leBytes_add 6 2 n
  have h256 : (256:Nat)^6 = 2^48 := by decide
  have hz : n / 256 ^ 6 = 0 := Nat.div_eq_of_lt (by omega)
  rw [hz] at this
  match hq : leBytes 6 n, h6 with
  | [a, b, c, d, e, f], _ =>
    refine ⟨a, b, c, d, e, f, ?_⟩
    show leBytes (6 + 2) n = _
    rw [this, hq]
    rfl

/-- one `%` directly in front of a serialized container shorter than 2^48 bytes: the would-be envelope id
is the top byte of the container's own length field, i.e. 0 -/
theorem skipHere_pct1 (e suf : Bytes) (id : UInt8) (hlen : e.length + 12 < 2^48) :
    skipHere (37 :: (serBytes e id ++ suf)) = true := by
  obtain ⟨a, b, c, d, e', f, hL⟩ := leBytes8_small (containerMin + e.length) (by show 12 + e.length < _; omega)
  apply skipHere_of_bad_header
  right
  have ht : containerTag = [37, 37, 37] := by decide
  unfold serBytes
  rw [hL, ht]
  simp only [List.cons_append, List.nil_append]
  show kindOfId 0 = none
  decide

/-- two `%` directly in front of it: the would-be id is the second-highest length byte, 0 as well -/
theorem skipHere_pct2 (e suf : Bytes) (id : UInt8) (hlen : e.length + 12 < 2^48) :
    skipHere (37 :: 37 :: (serBytes e id ++ suf)) = true := by
  obtain ⟨a, b, c, d, e', f, hL⟩ := leBytes8_small (containerMin + e.length) (by show 12 + e.length < _; omega)
  apply skipHere_of_bad_header
  right
  have ht : containerTag = [37, 37, 37] := by decide
  unfold serBytes
  rw [hL, ht]
  simp only [List.cons_append, List.nil_append]
  show kindOfId 0 = none
  decide

/-- **A left window whose only `%` bytes are one or two at its very end** (`100%`, `50%%`): every position
is passed over in front of a serialized container shorter than 2^48 bytes -/
theorem windowOk_trailing_pct (w0 e suf : Bytes) (id : UInt8) (j : Nat) (hj : j ≤ 2)
    (hw0 : ∀ x ∈ w0, x ≠ 37) (hlen : e.length + 12 < 2^48) :
    windowOk (w0 ++ List.replicate j 37) (serBytes e id ++ suf) = true := by
  apply windowOk_of
  intro i hi
  rw [List.length_append, List.length_replicate] at hi
  rw [List.append_assoc]
  by_cases h0 : i < w0.length
  · have hi' : i < (w0 ++ (List.replicate j 37 ++ (serBytes e id ++ suf))).length := by rw [List.length_append]; omega
    rw [List.drop_eq_getElem_cons hi']
    apply skipHere_of_head_ne
    rw [List.getElem_append_left h0]
    exact hw0 _ (List.getElem_mem h0)
  · have hd : (w0 ++ (List.replicate j 37 ++ (serBytes e id ++ suf))).drop i =
        (List.replicate j 37 ++ (serBytes e id ++ suf)).drop (i - w0.length) := by
      have : w0.drop i = [] := List.drop_eq_nil_of_le (by omega)
      rw [List.drop_append, this]
      rfl
    rw [hd]
    have hlt : i - w0.length < j := by omega
    match j, hj, (i - w0.length), hlt with
    | 1, _, 0, _ => exact skipHere_pct1 e suf id hlen
    | 2, _, 0, _ => exact skipHere_pct2 e suf id hlen
    | 2, _, 1, _ => exact skipHere_pct1 e suf id hlen

/-! ### one container between window bytes, through the compatibility wrapper -/

/-- as `onColumnCompat_container'`, with the weaker hypothesis on the bytes around the container -/
theorem onColumnCompat_container_win (cbs : List Callback) (k : Kind) (e pre suf m : Bytes)
    (he : e ≠ []) (hlen : e.length + 12 < 2^63)
    (hrun : runCallbacks (serBytes e k.id ++ suf) ((fun _ => Cb.same) :: cbs) = .replace m)
    (hpre : windowOk pre (serBytes e k.id ++ suf) = true) (hsuf : windowOk suf [] = true) :
    onColumnCompat cbs (pre ++ serBytes e k.id ++ suf) = .ok (pre ++ m ++ suf) true := by
  have hproc := c01_procAt_ser _ k e suf m he hlen hrun
  have hskip := windowOk_skip ((fun _ => Cb.same) :: cbs) hpre
  rw [← List.append_assoc] at hskip
  have hne : serBytes e k.id ≠ [] := by
    intro h
    have := congrArg List.length h
    rw [c01_serBytes_length] at this
    simp at this
  have hl : containerMin ≤ (pre ++ serBytes e k.id ++ suf).length := by
    rw [List.length_append, List.length_append, c01_serBytes_length]
    show 12 ≤ _
    omega
  have hscan := c01_onColumn_scan ((fun _ => Cb.same) :: cbs) _ (by simp) hl
  rw [c01_scan_embedded _ pre (serBytes e k.id) suf m hskip hne (c01_headStep_of_procAt hproc)] at hscan
  have hs' := windowOk_skip ((fun _ => Cb.same) :: cbs) hsuf
  simp only [List.append_nil] at hs'
  obtain ⟨hit, hsc⟩ := c01_scan_plain _ suf hs'
  rw [hsc] at hscan
  rw [onColumnCompat_eq, hscan]
  simp [ScanOut.prepend]

/-- the condition on the clear window of a masked value stored as `window | container` (left) resp.
`container | window` (right): every position of the window is passed over by the scan when read
together with what follows it in the stored value -/
def maskWindowOk (cfg : MaskCfg) (w p : Bytes) : Bool :=
  windowOk (if cfg.left then w else []) (p ++ afterContainer cfg w) && windowOk (afterContainer cfg w) []

theorem maskWindowOk_of_noPct (cfg : MaskCfg) (w p : Bytes) (h : ∀ x ∈ w, x ≠ 37) : maskWindowOk cfg w p = true := by
  unfold maskWindowOk
  rw [Bool.and_eq_true]
  exact ⟨windowOk_of_noPct _ _ (side_noPct h).1, windowOk_of_noPct _ _ (side_noPct h).2⟩

/-- the owner reads `window | container` resp. `container | window` back as window and plaintext -/
theorem maskRead_owner_win (c : CryptoOps) (kvR : KeyView) (cfg : MaskCfg) (w e m : Bytes)
    (hpat : cfg.pattern ≠ []) (hw : maskWindowOk cfg w (serBytes e cfg.kind.id) = true)
    (he : e ≠ []) (hlen : e.length + 12 < 2^63)
    (hproc : process c kvR (serBytes e cfg.kind.id ++ afterContainer cfg w) = .ok m)
    (hne : m ≠ serBytes e cfg.kind.id ++ afterContainer cfg w) :
    maskRead c kvR cfg (joinSides cfg w (serBytes e cfg.kind.id)) = .ok (joinSides cfg w m) true := by
  unfold maskWindowOk at hw
  rw [Bool.and_eq_true] at hw
  unfold maskRead
  rw [if_neg hpat, joinSides_eq, joinSides_eq]
  exact onColumnCompat_container_win _ cfg.kind e _ _ m he hlen
    (by simp [runCallbacks, maskCallback_owner hproc hne]) hw.1 hw.2

/-- a reader who cannot open the container reads window and pattern -/
theorem maskRead_other_win (c : CryptoOps) (kvR : KeyView) (cfg : MaskCfg) (w e : Bytes)
    (hpat : cfg.pattern ≠ []) (hw : maskWindowOk cfg w (serBytes e cfg.kind.id) = true)
    (he : e ≠ []) (hlen : e.length + 12 < 2^63)
    (hproc : ∀ m, process c kvR (serBytes e cfg.kind.id ++ afterContainer cfg w) ≠ .ok m)
    (hne : cfg.pattern.length ≤ 12 ∨ cfg.pattern ≠ serBytes e cfg.kind.id ++ afterContainer cfg w) :
    maskRead c kvR cfg (joinSides cfg w (serBytes e cfg.kind.id)) = .ok (joinSides cfg w cfg.pattern) true := by
  have hne' : cfg.pattern ≠ serBytes e cfg.kind.id ++ afterContainer cfg w := by
    rcases hne with h | h
    · intro heq
      have := congrArg List.length heq
      rw [List.length_append, c01_serBytes_length] at this
      have : 0 < e.length := List.length_pos_iff.mpr he
      omega
    · exact h
  unfold maskWindowOk at hw
  rw [Bool.and_eq_true] at hw
  unfold maskRead
  rw [if_neg hpat, joinSides_eq, joinSides_eq]
  exact onColumnCompat_container_win _ cfg.kind e _ _ cfg.pattern he hlen
    (by simp [runCallbacks, maskCallback_other hproc hne']) hw.1 hw.2

theorem maskRead_nonOwner_win (c : CryptoOps) (kvW kvR : KeyView) (cfg : MaskCfg) (v rnd p stored : Bytes)
    (hpat : cfg.pattern ≠ []) (hw : maskWindowOk cfg (windowPart cfg v) p = true)
    (h : NonOwnerHyps c kvW kvR cfg v rnd p) (hwr : maskWrite c kvW cfg v rnd = .ok stored) :
    maskRead c kvR cfg stored = .ok (joinSides cfg (windowPart cfg v) cfg.pattern) true := by
  obtain ⟨hnm, hnr, hp, hplen, hfail, hpc⟩ := h
  obtain ⟨p', hp', rfl⟩ := maskWrite_ok hpat hwr
  rw [hp] at hp'; cases hp'
  obtain ⟨e, _, he, rfl⟩ := c01_protect_ok hp hnm hnr
  rw [c01_serBytes_length] at hplen
  exact maskRead_other_win c kvR cfg _ e hpat hw he (by omega) hfail hpc

/-! ### a false container header inside the bytes in front of the real container -/

/-- What the masked read does when a position in front of the real container DOES decode as a container
start (`C` = the bytes the false header declares, `suf` = everything after them, the real container's
remains included): nobody can open `C ++ suf`, so the masking callback answers with the pattern, the
scan advances by the DECLARED length `|C|` and goes on in `suf`. If the scan passes over `suf` (because
the real container's header has been stepped over), `suf` is handed to the reader as it is. -/
theorem maskRead_false_header (c : CryptoOps) (kv : KeyView) (cfg : MaskCfg) (pre C suf : Bytes)
    (hpat : cfg.pattern ≠ [])
    (hpre : windowOk pre (C ++ suf) = true)
    (hC : C ≠ []) (htag : startsWith containerTag (C ++ suf) = true)
    (hx : extractContainer (C ++ suf) = .ok ((C.length : Int), C ++ suf))
    (hproc : ∀ m, process c kv (C ++ suf) ≠ .ok m) (hne : cfg.pattern ≠ C ++ suf)
    (hsuf : windowOk suf [] = true) (hlen : 12 ≤ (pre ++ C ++ suf).length) :
    maskRead c kv cfg (pre ++ C ++ suf) = .ok (pre ++ cfg.pattern ++ suf) true := by
  have hrun : runCallbacks (C ++ suf) [fun _ => Cb.same, maskCallback c kv cfg.pattern] = .replace cfg.pattern := by
    simp [runCallbacks, maskCallback_other hproc hne]
  have hCpos : 0 < C.length := List.length_pos_iff.mpr hC
  have hproc' : procAt [fun _ => Cb.same, maskCallback c kv cfg.pattern] (C ++ suf) cfg.pattern C.length :=
    ⟨htag, _, _, hx, hrun, by omega, by rw [List.length_append]; omega, by simp⟩
  have hskip := windowOk_skip [fun _ => Cb.same, maskCallback c kv cfg.pattern] hpre
  rw [← List.append_assoc] at hskip
  have hscan := c01_onColumn_scan [fun _ => Cb.same, maskCallback c kv cfg.pattern] _ (by simp) (by show 12 ≤ _; exact hlen)
  rw [c01_scan_embedded _ pre C suf cfg.pattern hskip hC (c01_headStep_of_procAt hproc'), scan_windowOk _ suf hsuf] at hscan
  unfold maskRead
  rw [if_neg hpat, onColumnCompat_eq, hscan]
  simp [ScanOut.prepend]

end AcraModel.Envelope
