import AcraModel.Envelope.Translator
import AcraModel.Envelope.ProtectLemmas
import AcraModel.Envelope.ScanLemmas
import AcraModel.Searchable.ProcessorLemmas
/-!
Helper lemmas about the AcraTranslator operations (`Envelope/Translator.lean`) for `Props/C01.lean`
(`translator_roundtrip`, `translator_searchable_roundtrip`, `entry_points_agree`) and `Props/C03.lean`
(`searchable_hash_swap`).
-/
namespace AcraModel.Envelope.Translator
open AcraModel AcraModel.Envelope AcraModel.Searchable

/-! ### the request prologue -/

theorem checkRequest_ok (byLen : Bool) (id : Bytes) (h : byLen = false ∨ id ≠ []) :
    checkRequest byLen (some id) none = .ok id := by
  unfold checkRequest
  rcases h with h | h
  · simp [h]
  · cases id with
    | nil => exact absurd rfl h
    | cons a t => simp

/-- no client id ⇒ error (all eight operations) -/
theorem checkRequest_nil_id (byLen : Bool) (addCtx : Option Bytes) : checkRequest byLen none addCtx = .err := rfl

/-- additional context ⇒ error (all eight operations) -/
theorem checkRequest_addCtx (byLen : Bool) (clientID : Option Bytes) (x : Bytes) :
    checkRequest byLen clientID (some x) = .err := by
  unfold checkRequest
  cases clientID with
  | none => rfl
  | some id => by_cases h : (byLen && id.isEmpty) = true <;> simp [h]

/-- `Encrypt` / `Decrypt`: an empty client id ⇒ error -/
theorem checkRequest_empty_id (addCtx : Option Bytes) : checkRequest true (some []) addCtx = .err := rfl

theorem checkRequest_bad (byLen : Bool) (clientID addCtx : Option Bytes)
    (h : clientID = none ∨ addCtx ≠ none ∨ (byLen = true ∧ clientID = some [])) :
    checkRequest byLen clientID addCtx = .err := by
  rcases h with h | h | ⟨h1, h2⟩
  · subst h; rfl
  · cases addCtx with
    | none => exact absurd rfl h
    | some x => exact checkRequest_addCtx byLen clientID x
  · subst h1; subst h2; rfl

theorem checkRequest_ne_panic (byLen : Bool) (clientID addCtx : Option Bytes) : checkRequest byLen clientID addCtx ≠ .panic := by
  unfold checkRequest
  cases clientID with
  | none => simp
  | some id =>
    by_cases h : (byLen && id.isEmpty) = true
    · simp [h]
    · cases addCtx <;> simp [h]

/-! ### what an operation does once the request is accepted -/

theorem encryptWith_ok (byLen : Bool) (k : Kind) (c : CryptoOps) (st : Store) (id data rnd : Bytes)
    (h : byLen = false ∨ id ≠ []) :
    encryptWith byLen k c st data (some id) none rnd = protect c (st.keys id) k data rnd := by
  unfold encryptWith
  rw [checkRequest_ok byLen id h]
  rfl

theorem decryptWith_ok (byLen : Bool) (k : Kind) (c : CryptoOps) (st : Store) (id data : Bytes)
    (h : byLen = false ∨ id ≠ []) :
    decryptWith byLen k c st data (some id) none = Envelope.translatorDecrypt c st.poison (st.keys id) k data := by
  unfold decryptWith
  rw [checkRequest_ok byLen id h]

theorem encryptOf_ok (k : Kind) (c : CryptoOps) (st : Store) (id data rnd : Bytes) (h : k = .struct → id ≠ []) :
    encryptOf k c st data (some id) none rnd = protect c (st.keys id) k data rnd := by
  cases k with
  | struct => exact encryptWith_ok true .struct c st id data rnd (Or.inr (h rfl))
  | block => exact encryptWith_ok false .block c st id data rnd (Or.inl rfl)

theorem decryptOf_ok (k : Kind) (c : CryptoOps) (st : Store) (id data : Bytes) (h : k = .struct → id ≠ []) :
    decryptOf k c st data (some id) none = Envelope.translatorDecrypt c st.poison (st.keys id) k data := by
  cases k with
  | struct => exact decryptWith_ok true .struct c st id data (Or.inr (h rfl))
  | block => exact decryptWith_ok false .block c st id data (Or.inl rfl)

theorem encryptSearchableWith_ok (k : Kind) (c : CryptoOps) (st : Store) (id data rnd : Bytes) :
    encryptSearchableWith k c st data (some id) none rnd =
      Searchable.translatorEncrypt c (st.hmac id) (st.keys id) k data rnd := by
  unfold encryptSearchableWith
  rw [checkRequest_ok false id (Or.inl rfl)]
  rfl

theorem encryptWith_bad (byLen : Bool) (k : Kind) (c : CryptoOps) (st : Store) (data rnd : Bytes)
    (clientID addCtx : Option Bytes) (h : checkRequest byLen clientID addCtx = .err) :
    encryptWith byLen k c st data clientID addCtx rnd = .err := by
  unfold encryptWith
  rw [h]
  rfl

theorem decryptWith_bad (byLen : Bool) (k : Kind) (c : CryptoOps) (st : Store) (data : Bytes)
    (clientID addCtx : Option Bytes) (h : checkRequest byLen clientID addCtx = .err) :
    decryptWith byLen k c st data clientID addCtx = (.err, 0) := by
  unfold decryptWith
  rw [h]

theorem encryptSearchableWith_bad (k : Kind) (c : CryptoOps) (st : Store) (data rnd : Bytes)
    (clientID addCtx : Option Bytes) (h : checkRequest false clientID addCtx = .err) :
    encryptSearchableWith k c st data clientID addCtx rnd = .err := by
  unfold encryptSearchableWith
  rw [h]
  rfl

theorem decryptSearchableWith_bad (k : Kind) (c : CryptoOps) (st : Store) (data : Bytes) (hash : Option Bytes)
    (clientID addCtx : Option Bytes) (h : checkRequest false clientID addCtx = .err) :
    decryptSearchableWith k c st data hash clientID addCtx = (.err, 0) := by
  unfold decryptSearchableWith
  rw [h]

/-- a successful reveal raises no alarm and is handed to the client -/
theorem translatorDecrypt_of_ok (c : CryptoOps) (cfg : PoisonCfg) (kv : KeyView) (k : Kind) (d m : Bytes)
    (h : decryptWithHandler c kv k d = .ok m) : Envelope.translatorDecrypt c cfg kv k d = (.ok m, 0) := by
  unfold Envelope.translatorDecrypt
  rw [h]

/-- what the client gets from the plain decrypt is what the handler says (errors stay errors) -/
theorem translatorDecrypt_fst (c : CryptoOps) (cfg : PoisonCfg) (kv : KeyView) (k : Kind) (d : Bytes) :
    (Envelope.translatorDecrypt c cfg kv k d).1 = decryptWithHandler c kv k d := by
  unfold Envelope.translatorDecrypt
  cases decryptWithHandler c kv k d <;> rfl

theorem translatorDecryptScan_of_ok (c : CryptoOps) (cfg : PoisonCfg) (kv : KeyView) (k : Kind) (d sc m : Bytes)
    (h : decryptWithHandler c kv k d = .ok m) : Envelope.translatorDecryptScan c cfg kv k d sc = (.ok m, 0) := by
  unfold Envelope.translatorDecryptScan
  rw [h]

theorem translatorDecryptScan_fst (c : CryptoOps) (cfg : PoisonCfg) (kv : KeyView) (k : Kind) (d sc : Bytes) :
    (Envelope.translatorDecryptScan c cfg kv k d sc).1 = decryptWithHandler c kv k d := by
  unfold Envelope.translatorDecryptScan
  cases decryptWithHandler c kv k d <;> rfl

/-- **the searchable decrypts are `Searchable.translatorDecrypt`** (the core C09 reasons about) as far as
the client's answer goes; the poison scan only adds alarms -/
theorem decryptSearchableWith_fst (k : Kind) (c : CryptoOps) (st : Store) (id data : Bytes) (hash : Option Bytes) :
    (decryptSearchableWith k c st data hash (some id) none).1 =
      Searchable.translatorDecrypt c (st.hmac id) (st.keys id) k (dataToDecrypt data hash) := by
  unfold decryptSearchableWith Searchable.translatorDecrypt
  rw [checkRequest_ok false id (Or.inl rfl)]
  simp only
  cases hx : extractHashAndData (dataToDecrypt data hash) with
  | none => rfl
  | some hc =>
    obtain ⟨h, container⟩ := hc
    simp only
    generalize siteBuffer (siteHolds (searchableOp k) "decrypt-failed") data (dataToDecrypt data hash) container = sc
    have hf := translatorDecryptScan_fst c st.poison (st.keys id) k container sc
    cases hd : decryptWithHandler c (st.keys id) k container with
    | ok plain =>
      rw [translatorDecryptScan_of_ok c st.poison (st.keys id) k container sc plain hd]
      simp only
      by_cases he : isEqual c (st.hmac id) h plain = true <;> simp [he]
    | err =>
      rw [hd] at hf
      cases ht : Envelope.translatorDecryptScan c st.poison (st.keys id) k container sc with
      | mk o a =>
        rw [ht] at hf
        simp only at hf
        subst hf
        rfl
    | panic =>
      rw [hd] at hf
      cases ht : Envelope.translatorDecryptScan c st.poison (st.keys id) k container sc with
      | mk o a =>
        rw [ht] at hf
        simp only at hf
        subst hf
        rfl

/-- a verified searchable decrypt raises no alarm -/
theorem decryptSearchableWith_ok (k : Kind) (c : CryptoOps) (st : Store) (id data h container m : Bytes) (hash : Option Bytes)
    (hx : extractHashAndData (dataToDecrypt data hash) = some (h, container))
    (hd : decryptWithHandler c (st.keys id) k container = .ok m)
    (he : isEqual c (st.hmac id) h m = true) :
    decryptSearchableWith k c st data hash (some id) none = (.ok m, 0) := by
  unfold decryptSearchableWith
  rw [checkRequest_ok false id (Or.inl rfl)]
  simp only [hx, translatorDecryptScan_of_ok c st.poison (st.keys id) k container _ m hd, he, if_true]

/-! ### serialized values -/

/-- `DecryptWithHandler` of kind `k` on a serialized container of the same kind followed by arbitrary
bytes hands exactly the inner envelope to the handler -/
theorem decryptWithHandler_ser (c : CryptoOps) (kv : KeyView) (k : Kind) (e suf : Bytes) (he : e ≠ [])
    (hlen : e.length + 12 < 2^64) (hm : matchKind k e = true) :
    decryptWithHandler c kv k (serBytes e k.id ++ suf) = decryptKind c kv k e := by
  unfold decryptWithHandler
  rw [c01_deserialize_ser suf he (c01_kindOfId_id k) hlen]
  simp only [Out.bind_ok, hm, Bool.not_true, Bool.false_eq_true, if_false]

/-- … and the handler of the OTHER kind refuses it as soon as the inner envelope does not look like one
of its own -/
theorem decryptWithHandler_ser_other (c : CryptoOps) (kv : KeyView) (k k' : Kind) (e suf : Bytes) (he : e ≠ [])
    (hlen : e.length + 12 < 2^64) (hm : matchKind k' e = false) :
    decryptWithHandler c kv k' (serBytes e k.id ++ suf) = .err := by
  unfold decryptWithHandler
  rw [c01_deserialize_ser suf he (c01_kindOfId_id k) hlen]
  simp only [Out.bind_ok, hm, Bool.not_false, if_true]

/-- everything the revealing entry points need to know about a value `protect` produced, either kind -/
theorem protect_facts (c : CryptoOps) (k : Kind) (kvW kvR : KeyView) (m rnd p : Bytes)
    (h : RoundTripHyps c k kvW kvR m rnd p)
    (hnm : matchKind k m = false) (hnr : registryMatch m = false)
    (hp : protect c kvW k m rnd = .ok p) :
    ∃ e, p = serBytes e k.id ∧ e ≠ [] ∧ e.length + 12 < 2^63 ∧ matchKind k e = true ∧
      decryptKind c kvR k e = .ok m := by
  cases k with
  | block =>
    obtain ⟨hs, key, pre, post, hkid, hW, hR, hpre, hek, hpl⟩ := h
    exact c01_protect_block_facts c hs kvW kvR key m rnd p pre post hkid hW hR
      (fun k' hk' encKey h2 hid => Or.inl (hpre k' hk' encKey h2 hid)) hek hpl hnm hnr hp
  | struct =>
    obtain ⟨hs, hsl, hm, hml, hk, priv, pre, post, hpriv, hW, hR, hpre⟩ := h
    obtain ⟨e, hpe, he, hlen, hmlen, hmatch, hdec⟩ := c01_protect_struct_facts c hs hsl hm hml hk kvW kvR priv m rnd p
      pre post hpriv hW hR hpre hnm hnr hp
    exact ⟨e, hpe, he, by omega, hmatch, hdec⟩

/-- the library calls (create + serialize) compute exactly what the handlers compute on a value that
is not already protected -/
theorem libraryProtect_eq_protect (c : CryptoOps) (kv : KeyView) (k : Kind) (m rnd : Bytes)
    (hnm : matchKind k m = false) (hnr : registryMatch m = false) :
    libraryProtect c kv k m rnd = protect c kv k m rnd := by
  unfold libraryProtect protect encryptKind
  simp only [hnm, hnr, Bool.or_self, Bool.false_eq_true, if_false]
  cases k <;> rfl

/-- the library reveal on a serialized container: what the handler of its kind answers -/
theorem libraryReveal_ser (c : CryptoOps) (kv : KeyView) (k : Kind) (e suf m : Bytes) (he : e ≠ [])
    (hlen : e.length + 12 < 2^64) (hd : decryptKind c kv k e = .ok m) :
    libraryReveal c kv (serBytes e k.id ++ suf) = .ok m := by
  unfold libraryReveal
  rw [c01_deserialize_ser suf he (c01_kindOfId_id k) hlen]
  simp only [Out.bind_ok, c01_kindOfId_id]
  cases k with
  | struct =>
    unfold decryptKind at hd
    simp only at hd
    cases hv : validateStruct e with
    | panic => rw [hv] at hd; cases hd
    | err => rw [hv] at hd; cases hd
    | ok u =>
      rw [hv] at hd
      simp only at hd
      cases hp : kv.privs with
      | none => rw [hp] at hd; cases hd
      | some ps => rw [hp] at hd; simpa using hd
  | block =>
    unfold decryptKind at hd
    simp only at hd
    cases hx : extractBlock e with
    | panic => rw [hx] at hd; cases hd
    | err => rw [hx] at hd; cases hd
    | ok nb =>
      obtain ⟨n, b⟩ := nb
      rw [hx] at hd
      simp only at hd
      by_cases hn : n ≠ e.length
      · rw [if_pos hn] at hd; cases hd
      · rw [if_neg hn] at hd
        cases hs : kv.syms with
        | none => rw [hs] at hd; cases hd
        | some ks =>
          rw [hs] at hd
          simp only at hd ⊢
          unfold decryptWholeBlock
          simp only [hx, if_neg hn]
          exact hd

/-! ### the search hash in front of a value -/

theorem generateHMAC_length33 (c : CryptoOps) (hl : HashLen c) (k v : Bytes) : (generateHMAC c k v).length = 33 := by
  rw [generateHMAC_length c hl, hashSize_eq]

/-- `ExtractHashAndData(hash ++ value)` splits exactly at the end of the hash -/
theorem extractHashAndData_stored (c : CryptoOps) (hl : HashLen c) (k v e : Bytes) :
    extractHashAndData (generateHMAC c k v ++ e) = some (generateHMAC c k v, e) := by
  unfold extractHashAndData
  rw [extractHash_stored c hl k v e]
  simp

theorem isEqual_genuine (c : CryptoOps) (k v : Bytes) : isEqual c (some k) (generateHMAC c k v) v = true := by
  simp [isEqual, generateHMAC]

end AcraModel.Envelope.Translator
