import AcraModel.Envelope.SafeUnchanged
/-!
"Accepted ⇒ genuine": what a successful `AcraBlock.Decrypt` / `DecryptAcrastruct` /
`RegistryHandler.Process` says about the bytes it was given (helpers for C03).
-/
namespace AcraModel.Envelope
open AcraModel Generated

/-! ### list surgery -/

theorem drop_split (l : Bytes) (i k : Nat) : l.drop i = (l.drop i).take k ++ l.drop (i + k) := by
  rw [← List.drop_drop]; exact (List.take_append_drop k _).symm

theorem take_drop_eq (l : Bytes) (i k : Nat) : (l.drop i).take k = (l.take (i + k)).drop i := by
  rw [List.drop_take]; congr 1; omega

theorem take_one_drop (l : Bytes) (i : Nat) (h : i < l.length) : (l.drop i).take 1 = [l.getD i 0] := by
  rw [getD_eq_getElem l i h, List.drop_eq_getElem_cons h]; rfl

theorem backend_zero {x : UInt8} (h : Layout.blockKeyBackends.contains x.toNat = true) : x = 0 := by
  have : x.toNat = 0 := by simpa [Layout.blockKeyBackends] using h
  exact UInt8.toNat_inj.1 this

theorem backend_zero' {x : UInt8} (h : Layout.blockDataBackends.contains x.toNat = true) : x = 0 := by
  have : x.toNat = 0 := by simpa [Layout.blockDataBackends] using h
  exact UInt8.toNat_inj.1 this

/-! ### AcraBlock -/

theorem buildBlock_drop12 (kid ek ed : Bytes) :
    (buildBlock kid ek ed).drop 12 = [0] ++ kid ++ [0] ++ leBytes 2 ek.length ++ ek ++ ed := by
  unfold buildBlock
  simp only [List.append_assoc]
  rw [← List.append_assoc blockTag]
  rw [List.drop_left' (by rw [List.length_append, leBytes_length]; rfl)]
  rfl

theorem blockEncKey_length (b : Bytes) (h : 18 + blockKeyLen b ≤ b.length) : (blockEncKey b).length = blockKeyLen b := by
  unfold blockEncKey
  rw [List.length_drop, List.length_take]; omega

theorem blockKid_length (b : Bytes) (h : 18 ≤ b.length) : (blockKid b).length = 2 := by
  unfold blockKid
  rw [List.length_drop, List.length_take]; omega

/-- from byte 12 on, a well-formed block is what `Build` produces from its own parts -/
theorem block_layout_from12 (b : Bytes) (h : 18 + blockKeyLen b ≤ b.length)
    (h12 : b.getD 12 0 = 0) (h15 : b.getD 15 0 = 0) :
    b.drop 12 = (buildBlock (blockKid b) (blockEncKey b) (blockEncData b)).drop 12 := by
  rw [buildBlock_drop12, blockEncKey_length b h]
  have e1 := drop_split b 12 1
  have e2 := drop_split b 13 2
  have e3 := drop_split b 15 1
  have e4 := drop_split b 16 2
  have e5 := drop_split b 18 (blockKeyLen b)
  rw [take_one_drop b 12 (by omega), h12] at e1
  rw [take_one_drop b 15 (by omega), h15] at e3
  rw [take_drop_eq] at e2 e4 e5
  have hk : List.drop 16 (List.take (16 + 2) b) = leBytes 2 (blockKeyLen b) := by
    have hl : (List.drop 16 (List.take (16 + 2) b)).length = 2 := by
      rw [List.length_drop, List.length_take]; omega
    have := leBytes_leVal (List.drop 16 (List.take (16 + 2) b))
    rw [hl] at this
    exact this.symm
  rw [hk] at e4
  rw [e1]
  simp only [List.append_assoc]
  congr 1
  rw [e2]
  congr 1
  rw [e3]
  simp only [List.cons_append, List.nil_append]
  congr 1
  rw [e4]
  congr 1

/-- a block that `ExtractAcraBlockFromData` accepts as a whole is exactly what `Build` produces from
its own key id, key part and data part -/
theorem block_layout_full (b : Bytes) (h : 18 + blockKeyLen b ≤ b.length)
    (h12 : b.getD 12 0 = 0) (h15 : b.getD 15 0 = 0) (ht : b.take 4 = blockTag) (hr : blockRest b = b.length - 4) :
    b = buildBlock (blockKid b) (blockEncKey b) (blockEncData b) := by
  have e := block_layout_from12 b h h12 h15
  have hb : b = b.take 12 ++ b.drop 12 := (List.take_append_drop 12 b).symm
  have hB : buildBlock (blockKid b) (blockEncKey b) (blockEncData b)
      = (buildBlock (blockKid b) (blockEncKey b) (blockEncData b)).take 12
        ++ (buildBlock (blockKid b) (blockEncKey b) (blockEncData b)).drop 12 := (List.take_append_drop 12 _).symm
  have hlen : (b.drop 12).length = b.length - 12 := List.length_drop
  have hsum : b.length = 18 + (blockEncKey b).length + (blockEncData b).length := by
    rw [blockEncKey_length b h]; unfold blockEncData; rw [List.length_drop]; omega
  have ht12 : (buildBlock (blockKid b) (blockEncKey b) (blockEncData b)).take 12 = b.take 12 := by
    unfold buildBlock
    simp only [List.append_assoc]
    rw [← List.append_assoc blockTag]
    rw [List.take_left' (by rw [List.length_append, leBytes_length]; rfl)]
    have e0 : b.take 12 = (b.take 12).take 4 ++ (b.take 12).drop 4 := (List.take_append_drop 4 _).symm
    rw [List.take_take] at e0
    rw [e0, show min 4 12 = 4 from rfl, ht]
    congr 1
    have hl : ((b.take 12).drop 4).length = 8 := by rw [List.length_drop, List.length_take]; omega
    have := leBytes_leVal ((b.take 12).drop 4)
    rw [hl] at this
    rw [← this]
    congr 1
    show _ = blockRest b
    rw [hr, hsum]
    show 18 - 4 + _ + _ = _
    omega
  rw [hB, ht12, ← e]
  exact hb

/-- everything a successful `AcraBlock.Decrypt` establishes -/
theorem decryptBlock_ok_parts {c : CryptoOps} {keys : List Bytes} {ctx b m : Bytes}
    (h : decryptBlock c keys ctx b = .ok m) :
    18 + blockKeyLen b ≤ b.length ∧ b.getD 12 0 = 0 ∧ b.getD 15 0 = 0 ∧
    ∃ key ∈ keys, ∃ dek, keyId c key ctx = blockKid b ∧ c.dec key ctx (blockEncKey b) = some dek ∧
      c.dec dek ctx (blockEncData b) = some m := by
  rw [decryptBlock_eq] at h
  split at h
  · cases h
  · split at h
    · cases h
    · next h1 h2 =>
      cases hf : findDek c (Layout.blockKeyBackends.contains (b.getD 12 0).toNat) ctx (blockEncKey b) (blockKid b) keys with
      | panic => rw [hf] at h; cases h
      | err => rw [hf] at h; cases h
      | ok r =>
        rw [hf] at h
        simp only [Out.bind_ok] at h
        cases r with
        | none => simp [decryptBlockTail] at h
        | some dek =>
          obtain ⟨hkb, key, hm, hid, hdec⟩ := findDek_some hf
          simp only [decryptBlockTail] at h
          split at h
          · cases h
          · next hdb =>
            split at h
            · cases h
            · next m' hd =>
              cases h
              refine ⟨by omega, backend_zero hkb, backend_zero' (by simpa using hdb), key, hm, dek, hid, hdec, hd⟩

/-! ### AcraStruct -/

/-- everything a successful `DecryptAcrastruct` establishes -/
theorem decryptStruct_ok_parts {c : CryptoOps} {priv ctx d m : Bytes} (h : decryptStruct c priv ctx d = .ok m) :
    validateStruct d = .ok () ∧ ∃ symKey, symKey ≠ [] ∧
      c.unwrap priv ((d.drop 8).take 45) ((d.drop 53).take 84) = some symKey ∧
      c.dec symKey ctx (d.drop 145) = some m := by
  cases hv : validateStruct d with
  | panic => exact absurd hv (validateStruct_ne_panic d)
  | err => unfold decryptStruct at h; rw [hv] at h; cases h
  | ok u =>
    refine ⟨rfl, ?_⟩
    rw [decryptStruct_eq c priv ctx d hv] at h
    split at h
    · cases h
    · next symKey hu =>
      split at h
      · cases h
      · next hne =>
        split at h
        · cases h
        · next m' hd => cases h; exact ⟨symKey, hne, hu, hd⟩

/-! ### `Process` -/

theorem kindOfId_eq {id : UInt8} {k : Kind} (h : kindOfId id = some k) : id = k.id := by
  unfold kindOfId at h
  split at h
  · next e => cases h; exact e
  · split at h
    · next e => cases h; exact e
    · cases h

theorem getEnvelopeID_deserialize {d : Bytes} {id : UInt8} {old : Bool} {i : Bytes} {id' : UInt8}
    (h1 : getEnvelopeID d = .ok (id, old)) (h2 : deserialize d = .ok (i, id')) : id' = id := by
  unfold deserialize at h2
  rw [h1] at h2
  simp only [Out.bind_ok] at h2
  split at h2
  · simp only [Out.pure_eq, Out.ok.injEq, Prod.mk.injEq] at h2; exact h2.2.symm
  · cases hc : containerInternalLength d with
    | panic => rw [hc] at h2; cases h2
    | err => rw [hc] at h2; cases h2
    | ok n =>
      rw [hc, Out.bind_ok] at h2
      cases hg : goSliceFrom d containerMin with
      | panic => rw [hg] at h2; cases h2
      | err => rw [hg] at h2; cases h2
      | ok r =>
        rw [hg] at h2
        simp only [Out.bind_ok, Out.pure_eq, Out.ok.injEq, Prod.mk.injEq] at h2; exact h2.2.symm

/-- a successful `Process` is a successful handler decryption of the deserialised internal envelope -/
theorem process_ok {c : CryptoOps} {kv : KeyView} {d m : Bytes} (h : process c kv d = .ok m) :
    ∃ k i, deserialize d = .ok (i, k.id) ∧ decryptKind c kv k i = .ok m := by
  unfold process at h
  cases hid : getEnvelopeID d with
  | panic => rw [hid] at h; cases h
  | err => rw [hid] at h; cases h
  | ok p =>
    obtain ⟨id, old⟩ := p
    rw [hid] at h
    simp only [Out.bind_ok] at h
    split at h
    · cases h
    · next k hk =>
      unfold decryptWithHandler at h
      cases hd : deserialize d with
      | panic => rw [hd] at h; cases h
      | err => rw [hd] at h; cases h
      | ok q =>
        obtain ⟨i, id'⟩ := q
        rw [hd] at h
        simp only [Out.bind_ok] at h
        split at h
        · cases h
        · have e1 := getEnvelopeID_deserialize hid hd
          have e2 := kindOfId_eq hk
          exact ⟨k, i, by rw [e1, e2], h⟩

theorem decryptKind_block_ok {c : CryptoOps} {kv : KeyView} {i m : Bytes} (h : decryptKind c kv .block i = .ok m) :
    blockHeaderOk i = true ∧ blockRest i = i.length - 4 ∧ 18 ≤ i.length ∧
      ∃ ks, kv.syms = some ks ∧ decryptBlock c ks [] i = .ok m := by
  simp only [decryptKind] at h
  split at h
  · cases h
  · cases h
  · next n b hb =>
    obtain ⟨h1, h2, h3, h4⟩ := extractBlock_ok hb
    split at h
    · cases h
    · next hn =>
      split at h
      · cases h
      · next ks hks =>
        have hn' : n = i.length := by simpa using hn
        have hbi : b = i := by rw [h4, hn']; exact List.take_length
        rw [hbi] at h
        exact ⟨h2, by omega, h1, ks, hks, h⟩

theorem decryptKind_struct_ok {c : CryptoOps} {kv : KeyView} {i m : Bytes} (h : decryptKind c kv .struct i = .ok m) :
    ∃ ps, kv.privs = some ps ∧ ∃ priv ∈ ps, decryptStruct c priv [] i = .ok m := by
  simp only [decryptKind] at h
  split at h
  · cases h
  · cases h
  · split at h
    · cases h
    · next ps hps => exact ⟨ps, hps, decryptStructRotated_ok h⟩

end AcraModel.Envelope
