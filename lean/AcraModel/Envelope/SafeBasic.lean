import AcraModel.Envelope.Detector
/-!
Basic facts about the Go-style accessors used by the "no panic" proofs (C03 / C14): an in-range
slice / index expression succeeds and says what it returns.
-/
namespace AcraModel.Envelope
open AcraModel Generated

theorem goSlice_ok (b : Bytes) (lo hi : Nat) (h1 : lo ≤ hi) (h2 : hi ≤ b.length) :
    goSlice b lo hi = .ok ((b.take hi).drop lo) := by
  unfold goSlice; rw [if_pos ⟨h1, h2⟩]

theorem goSlice_zero_ok (b : Bytes) (hi : Nat) (h2 : hi ≤ b.length) :
    goSlice b 0 hi = .ok (b.take hi) := by
  rw [goSlice_ok b 0 hi (Nat.zero_le _) h2]; simp

theorem goSliceFrom_ok (b : Bytes) (lo : Nat) (h : lo ≤ b.length) :
    goSliceFrom b lo = .ok (b.drop lo) := by
  unfold goSliceFrom; rw [if_pos h]

theorem goIndex_ok (b : Bytes) (i : Nat) (h : i < b.length) : goIndex b i = .ok b[i] := by
  unfold goIndex; rw [List.getElem?_eq_getElem h]

theorem goSlice_ne_err (b : Bytes) (lo hi : Nat) : goSlice b lo hi ≠ .err := by
  unfold goSlice; split <;> simp

theorem goSlice_eq_ok {b r : Bytes} {lo hi : Nat} (h : goSlice b lo hi = .ok r) :
    lo ≤ hi ∧ hi ≤ b.length ∧ r = (b.take hi).drop lo := by
  unfold goSlice at h
  split at h
  · next hc => cases h; exact ⟨hc.1, hc.2, rfl⟩
  · cases h

theorem Out.bind_ne_panic {α β} (x : Out α) (f : α → Out β) (hx : x ≠ .panic)
    (hf : ∀ a, x = .ok a → f a ≠ .panic) : (x >>= f) ≠ .panic := by
  cases x with
  | ok a => exact hf a rfl
  | err => simp
  | panic => exact absurd rfl hx

theorem ite_ne_panic {α} {p : Prop} [Decidable p] {a b : Out α} (ha : a ≠ .panic) (hb : b ≠ .panic) :
    (if p then a else b) ≠ .panic := by split <;> assumption

theorem ite_err_pure_ok {α} {p : Prop} [Decidable p] {x n : α}
    (h : (if p then (Out.err : Out α) else pure x) = .ok n) : ¬ p ∧ x = n := by
  split at h
  · cases h
  · next hp => cases h; exact ⟨hp, rfl⟩

end AcraModel.Envelope
