import AcraModel.Envelope.Container
/-
`EnvelopeDetector.OnColumn` / `OnCryptoEnvelope` (`crypto/envelope_detector.go`) and the decrypt
callback (`crypto/decryptor.go`): the transparent column processor that finds serialized containers
anywhere inside a column value and replaces each one the callbacks can process.
-/
namespace AcraModel.Envelope
open AcraModel

/-- result of one `EnvelopeCallbackHandler.OnCryptoEnvelope` call -/
inductive Cb where
  | same                 -- returned the container unchanged, no error
  | replaced (b : Bytes) -- returned different bytes, no error
  | decErr               -- error that `errors.Is(err, ErrDecryptionError)`
  | fatal                -- any other error
deriving DecidableEq, Repr

abbrev Callback := Bytes → Cb

/-- `DecryptHandler.OnCryptoEnvelope`: errors are swallowed (container returned unchanged) -/
def decryptCallback (c : CryptoOps) (kv : KeyView) : Callback := fun container =>
  match process c kv container with
  | .ok d => if d == container then .same else .replaced d
  | _ => .same

/-- outcome of running the callback list on one container inside `OnColumn` -/
inductive CbsOut where
  | replace (b : Bytes)  -- put `b`, advance by the container length
  | skip                 -- nobody could process it: emit one byte, advance by one
  | fatal                -- `return ctx, inBuffer, err`
deriving DecidableEq, Repr

/-- the inner `for index, handler := range recognizer.callbacks` loop -/
def runCallbacks (container : Bytes) : List Callback → CbsOut
  | [] => .skip
  | cb :: rest =>
    match cb container with
    | .fatal => .fatal
    | .replaced b => .replace b
    | .decErr => runCallbacks container rest
    | .same => runCallbacks container rest

/-- `EnvelopeDetector.OnCryptoEnvelope` -/
def onCryptoEnvelope (container : Bytes) : List Callback → Out Bytes
  | [] => .ok container
  | cb :: rest =>
    match cb container with
    | .fatal => .err
    | .replaced b => .ok b
    | .decErr => onCryptoEnvelope container rest
    | .same => onCryptoEnvelope container rest

inductive ScanOut where
  /-- output bytes, and whether any serialized container was recognised on the way (this is what
  `OldContainerDetectorWrapper.hasMatchedEnvelope` records: the wrapper is the first callback) -/
  | ok (b : Bytes) (hit : Bool)
  | fatal     -- a callback returned a non-decryption error: the input is handed back with the error
  | panic
deriving DecidableEq, Repr

def ScanOut.prepend (p : Bytes) (h : Bool := false) : ScanOut → ScanOut
  | .ok b hit => .ok (p ++ b) (hit || h)
  | o => o

def startsWith (p : Bytes) (l : Bytes) : Bool := l.take p.length == p

/-- the loop of `OnColumn` from position `inIndex` on; `rest = inBuffer[inIndex:]`.
Every iteration consumes at least one byte: `extractContainer` only succeeds with `0 < n ≤ |rest|`
(this is what the `fix:` commit in `ExtractSerializedContainer` guarantees), so the recursion is
well-founded – the termination proof is part of the C14 claim. -/
def scan (cbs : List Callback) (rest : Bytes) : ScanOut :=
  match rest with
  | [] => .ok [] false
  | b :: r =>
    if !startsWith containerTag (b :: r) then (scan cbs r).prepend [b] else
    match extractContainer (b :: r) with
    | .panic => .panic
    | .err => (scan cbs r).prepend [b]
    | .ok (n, container) =>
      match runCallbacks container cbs with
      | .fatal => .fatal
      | .skip => (scan cbs r).prepend [b] true
      | .replace p =>
        if hn : 0 < n ∧ n ≤ (b :: r).length then (scan cbs ((b :: r).drop n.toNat)).prepend p true
        else .panic
termination_by rest.length
decreasing_by
  all_goals simp_wf
  all_goals omega

/-- `EnvelopeDetector.OnColumn` -/
def onColumn (cbs : List Callback) (inBuffer : Bytes) : ScanOut :=
  if inBuffer.length < containerMin ∨ cbs.isEmpty then .ok inBuffer false else scan cbs inBuffer

/-! ### backward compatibility: bare AcraStructs / AcraBlocks (`OldContainerDetectorWrapper`) -/

/-- `OldContainerDetectorWrapper.OnAcraStruct` / `OnAcraBlock` -/
def onBare (cbs : List Callback) (id : UInt8) (bare : Bytes) : Out Bytes := do
  let s ← serialize bare id
  let p ← onCryptoEnvelope s cbs
  if p == s then pure bare else pure p

/-- Go `int` addition: wraps in 64 bits -/
def wrapInt64 (x : Int) : Int := toInt64 (x % ((2:Int)^64)).toNat

/-- `acrastruct.ProcessAcraStructs` from position `inIndex` on (`rest = inBuffer[inIndex:]`) -/
def processStructs (proc : Bytes → Out Bytes) (rest : Bytes) : Out Bytes :=
  match rest with
  | [] => .ok []
  | b :: r =>
    if !startsWith structTag (b :: r) then (processStructs proc r).bind (fun o => .ok (b :: o)) else
    if (b :: r).length > structMin then
      match getDataLength (b :: r) with
      | .panic => .panic
      | .err => .err
      | .ok dl =>
        let l := wrapInt64 (dl + structMin)
        if hl : 0 < l ∧ l ≤ (b :: r).length then
          match proc ((b :: r).take l.toNat) with
          | .ok p => (processStructs proc ((b :: r).drop l.toNat)).bind (fun o => .ok (p ++ o))
          | .err => .err
          | .panic => .panic
        else (processStructs proc r).bind (fun o => .ok (b :: o))
    else (processStructs proc r).bind (fun o => .ok (b :: o))
termination_by rest.length
decreasing_by
  all_goals simp_wf
  all_goals omega

/-- `acrablock.ProcessAcraBlocks` -/
def processBlocks (proc : Bytes → Out Bytes) (rest : Bytes) : Out Bytes :=
  match rest with
  | [] => .ok []
  | b :: r =>
    if !startsWith blockTag (b :: r) then (processBlocks proc r).bind (fun o => .ok (b :: o)) else
    if (b :: r).length > blockMin then
      match extractBlock (b :: r) with
      | .panic => .panic
      | .err => (processBlocks proc r).bind (fun o => .ok (b :: o))
      | .ok (n, blk) =>
        if hn : 0 < n ∧ n ≤ (b :: r).length then
          match proc blk with
          | .ok p => (processBlocks proc ((b :: r).drop n)).bind (fun o => .ok (p ++ o))
          | .err => .err
          | .panic => .panic
        else .panic
    else (processBlocks proc r).bind (fun o => .ok (b :: o))
termination_by rest.length
decreasing_by
  all_goals simp_wf
  all_goals omega

/-- `OldContainerDetectorWrapper.OnColumn`; `cbs` are the callbacks *after* the wrapper's own
(which is first in the list, always answers "unchanged" and only records the hit) -/
def onColumnCompat (cbs : List Callback) (inBuffer : Bytes) : ScanOut :=
  match onColumn ((fun _ => Cb.same) :: cbs) inBuffer with
  | .fatal => .fatal
  | .panic => .panic
  | .ok out hit =>
    if hit || out != inBuffer then .ok out hit else
      let s1 := if inBuffer.length < structMin then .ok inBuffer else processStructs (onBare ((fun _ => Cb.same) :: cbs) idStruct) inBuffer
      match s1 with
      | .panic => .panic
      | .err => .fatal
      | .ok o1 =>
        let s2 := if o1.length < blockMin then .ok o1 else processBlocks (onBare ((fun _ => Cb.same) :: cbs) idBlock) o1
        match s2 with
        | .panic => .panic
        | .err => .fatal
        | .ok o2 => .ok o2 false

end AcraModel.Envelope
