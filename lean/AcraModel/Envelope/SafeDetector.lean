import AcraModel.Envelope.SafeContainer
/-!
The column scans (`OnColumn`, `ProcessAcraStructs`, `ProcessAcraBlocks`, the compatibility wrapper):
no panic, no fatal error with the decrypt callback, output bound, "nothing replaced ⇒ unchanged"
(helpers for C03 / C14).
-/
namespace AcraModel.Envelope
open AcraModel Generated

/-! ### `ScanOut.prepend` -/

theorem prepend_ne_panic {p : Bytes} {h : Bool} {o : ScanOut} (ho : o ≠ .panic) : o.prepend p h ≠ .panic := by
  cases o <;> simp_all [ScanOut.prepend]

theorem prepend_ne_fatal {p : Bytes} {h : Bool} {o : ScanOut} (ho : o ≠ .fatal) : o.prepend p h ≠ .fatal := by
  cases o <;> simp_all [ScanOut.prepend]

theorem prepend_eq_ok {p : Bytes} {h : Bool} {o : ScanOut} {out : Bytes} {hit : Bool}
    (e : o.prepend p h = .ok out hit) : ∃ o' h', o = .ok o' h' ∧ out = p ++ o' ∧ hit = (h' || h) := by
  cases o with
  | ok o' h' => simp only [ScanOut.prepend, ScanOut.ok.injEq] at e; exact ⟨o', h', rfl, e.1.symm, e.2.symm⟩
  | fatal => simp [ScanOut.prepend] at e
  | panic => simp [ScanOut.prepend] at e

theorem length_cons_lt {b : UInt8} {r : Bytes} {N : Nat} (h : (b :: r).length < N) : r.length < N := by
  rw [List.length_cons] at h; omega

/-! ### `scan` -/

/-- The `OnColumn` loop never panics: `ExtractSerializedContainer` does not, and the number of bytes it
tells the loop to skip is always inside the buffer (`extractContainer_bounds'`), so the `else .panic`
branch (slice out of range) is unreachable. -/
theorem scan_ne_panic (cbs : List Callback) (rest : Bytes) (hl : rest.length < 2^63) : scan cbs rest ≠ .panic := by
  induction rest using scan.induct cbs with
  | case1 => rw [scan.eq_1]; exact fun h => nomatch h
  | case2 b r h ih => rw [scan.eq_2, if_pos h]; exact prepend_ne_panic (ih (length_cons_lt hl))
  | case3 b r h he => exact absurd he (extractContainer_ne_panic _)
  | case4 b r h he ih => rw [scan.eq_2, if_neg h, he]; exact prepend_ne_panic (ih (length_cons_lt hl))
  | case5 b r h n cont he hr => rw [scan.eq_2, if_neg h, he]; simp only [hr]; exact fun h => nomatch h
  | case6 b r h n cont he hr ih =>
    rw [scan.eq_2, if_neg h, he]; simp only [hr]; exact prepend_ne_panic (ih (length_cons_lt hl))
  | case7 b r h n cont he p hr hn ih =>
    rw [scan.eq_2, if_neg h, he]; simp only [hr]; rw [dif_pos hn]
    refine prepend_ne_panic (ih ?_)
    rw [List.length_drop]; omega
  | case8 b r h n cont he p hr hn => exact absurd (extractContainer_bounds' hl he) hn

theorem runCallbacks_ne_fatal {cbs : List Callback} (hc : ∀ cb ∈ cbs, ∀ x, cb x ≠ .fatal) (cont : Bytes) :
    runCallbacks cont cbs ≠ .fatal := by
  induction cbs with
  | nil => simp [runCallbacks]
  | cons cb rest ih =>
    have h1 := hc cb List.mem_cons_self cont
    have ih' := ih (fun cb' hm => hc cb' (List.mem_cons_of_mem _ hm))
    simp only [runCallbacks]
    split
    · next h => exact absurd h h1
    · simp
    · exact ih'
    · exact ih'

/-- callbacks that never report a non-decryption error never make the scan fail -/
theorem scan_ne_fatal (cbs : List Callback) (hc : ∀ cb ∈ cbs, ∀ x, cb x ≠ .fatal) (rest : Bytes) :
    scan cbs rest ≠ .fatal := by
  induction rest using scan.induct cbs with
  | case1 => rw [scan.eq_1]; exact fun h => nomatch h
  | case2 b r h ih => rw [scan.eq_2, if_pos h]; exact prepend_ne_fatal ih
  | case3 b r h he => exact absurd he (extractContainer_ne_panic _)
  | case4 b r h he ih => rw [scan.eq_2, if_neg h, he]; exact prepend_ne_fatal ih
  | case5 b r h n cont he hr => exact absurd hr (runCallbacks_ne_fatal hc cont)
  | case6 b r h n cont he hr ih => rw [scan.eq_2, if_neg h, he]; simp only [hr]; exact prepend_ne_fatal ih
  | case7 b r h n cont he p hr hn ih =>
    rw [scan.eq_2, if_neg h, he]; simp only [hr]; rw [dif_pos hn]; exact prepend_ne_fatal ih
  | case8 b r h n cont he p hr hn => rw [scan.eq_2, if_neg h, he]; simp only [hr]; rw [dif_neg hn]; exact fun h => nomatch h

theorem decryptCallback_ne_fatal (c : CryptoOps) (kv : KeyView) (x : Bytes) : decryptCallback c kv x ≠ .fatal := by
  unfold decryptCallback
  repeat' split
  all_goals exact fun h => nomatch h

theorem runCallbacks_replace_bound {cbs : List Callback} {B : Nat}
    (hc : ∀ cb ∈ cbs, ∀ x b, cb x = .replaced b → b.length ≤ B) {cont p : Bytes}
    (h : runCallbacks cont cbs = .replace p) : p.length ≤ B := by
  induction cbs with
  | nil => simp [runCallbacks] at h
  | cons cb rest ih =>
    have ih' := ih (fun cb' hm => hc cb' (List.mem_cons_of_mem _ hm))
    simp only [runCallbacks] at h
    split at h
    · cases h
    · next b hb => cases h; exact hc cb List.mem_cons_self cont _ hb
    · exact ih' h
    · exact ih' h

/-- **Output bound.** If no callback ever returns more than `B` bytes, the output of the scan is at most
`|input| · max 1 B` bytes: every step consumes at least one input byte and emits either that byte or
one replacement. -/
theorem scan_output_le (cbs : List Callback) (B : Nat)
    (hc : ∀ cb ∈ cbs, ∀ x b, cb x = .replaced b → b.length ≤ B) (rest : Bytes) :
    ∀ out hit, scan cbs rest = .ok out hit → out.length ≤ rest.length * max 1 B := by
  have hB : 1 ≤ max 1 B := Nat.le_max_left _ _
  have step : ∀ (b : UInt8) (r o' : Bytes), o'.length ≤ r.length * max 1 B →
      ([b] ++ o').length ≤ (b :: r).length * max 1 B := by
    intro b r o' h
    simp only [List.length_append, List.length_cons, List.length_nil, Nat.succ_mul]
    omega
  induction rest using scan.induct cbs with
  | case1 => intro out hit e; rw [scan.eq_1] at e; cases e; simp
  | case2 b r h ih =>
    intro out hit e; rw [scan.eq_2, if_pos h] at e
    obtain ⟨o', h', e1, rfl, _⟩ := prepend_eq_ok e
    exact step b r o' (ih o' h' e1)
  | case3 b r h he => exact absurd he (extractContainer_ne_panic _)
  | case4 b r h he ih =>
    intro out hit e; rw [scan.eq_2, if_neg h, he] at e
    obtain ⟨o', h', e1, rfl, _⟩ := prepend_eq_ok e
    exact step b r o' (ih o' h' e1)
  | case5 b r h n cont he hr => intro out hit e; rw [scan.eq_2, if_neg h, he] at e; simp only [hr] at e; cases e
  | case6 b r h n cont he hr ih =>
    intro out hit e; rw [scan.eq_2, if_neg h, he] at e; simp only [hr] at e
    obtain ⟨o', h', e1, rfl, _⟩ := prepend_eq_ok e
    exact step b r o' (ih o' h' e1)
  | case7 b r h n cont he p hr hn ih =>
    intro out hit e; rw [scan.eq_2, if_neg h, he] at e; simp only [hr] at e; rw [dif_pos hn] at e
    obtain ⟨o', h', e1, rfl, _⟩ := prepend_eq_ok e
    have h1 := ih o' h' e1
    have hp := runCallbacks_replace_bound hc hr
    have hB' : B ≤ max 1 B := Nat.le_max_right _ _
    rw [List.length_drop] at h1
    rw [List.length_append]
    have hk : 1 ≤ n.toNat ∧ n.toNat ≤ (b :: r).length := by omega
    have e2 : (b :: r).length * max 1 B = ((b :: r).length - n.toNat) * max 1 B + n.toNat * max 1 B := by
      rw [← Nat.add_mul]; congr 1; omega
    have h3 : max 1 B ≤ n.toNat * max 1 B := Nat.le_mul_of_pos_left _ (by omega)
    omega
  | case8 b r h n cont he p hr hn =>
    intro out hit e; rw [scan.eq_2, if_neg h, he] at e; simp only [hr] at e; rw [dif_neg hn] at e; cases e

/-- **Nothing replaced ⇒ byte-identical.** If at no position of the value the callbacks produce a
replacement (nor a fatal error), the scan returns the value unchanged. -/
theorem scan_same (cbs : List Callback) (rest : Bytes)
    (hs : ∀ i, i < rest.length → startsWith containerTag (rest.drop i) = true →
      ∀ n cont, extractContainer (rest.drop i) = .ok (n, cont) → runCallbacks cont cbs = .skip) :
    ∃ hit, scan cbs rest = .ok rest hit := by
  have shift : ∀ (b : UInt8) (r : Bytes),
      (∀ i, i < (b :: r).length → startsWith containerTag ((b :: r).drop i) = true →
        ∀ n cont, extractContainer ((b :: r).drop i) = .ok (n, cont) → runCallbacks cont cbs = .skip) →
      (∀ i, i < r.length → startsWith containerTag (r.drop i) = true →
        ∀ n cont, extractContainer (r.drop i) = .ok (n, cont) → runCallbacks cont cbs = .skip) := by
    intro b r h i hi
    have := h (i + 1) (by rw [List.length_cons]; omega)
    rwa [List.drop_succ_cons] at this
  have here : ∀ (b : UInt8) (r : Bytes),
      (∀ i, i < (b :: r).length → startsWith containerTag ((b :: r).drop i) = true →
        ∀ n cont, extractContainer ((b :: r).drop i) = .ok (n, cont) → runCallbacks cont cbs = .skip) →
      ¬(!startsWith containerTag (b :: r)) = true →
        ∀ n cont, extractContainer (b :: r) = .ok (n, cont) → runCallbacks cont cbs = .skip := by
    intro b r h hs
    have := h 0 (by rw [List.length_cons]; omega)
    rw [List.drop_zero] at this
    exact this (by simpa using hs)
  induction rest using scan.induct cbs with
  | case1 => exact ⟨false, scan.eq_1 cbs⟩
  | case2 b r h ih =>
    obtain ⟨hit, e⟩ := ih (shift b r hs)
    exact ⟨hit || false, by rw [scan.eq_2, if_pos h, e]; rfl⟩
  | case3 b r h he => exact absurd he (extractContainer_ne_panic _)
  | case4 b r h he ih =>
    obtain ⟨hit, e⟩ := ih (shift b r hs)
    exact ⟨hit || false, by rw [scan.eq_2, if_neg h, he, e]; rfl⟩
  | case5 b r h n cont he hr => have := here b r hs h n cont he; rw [hr] at this; cases this
  | case6 b r h n cont he hr ih =>
    obtain ⟨hit, e⟩ := ih (shift b r hs)
    exact ⟨hit || true, by rw [scan.eq_2, if_neg h, he]; simp only [hr]; rw [e]; rfl⟩
  | case7 b r h n cont he p hr hn ih => have := here b r hs h n cont he; rw [hr] at this; cases this
  | case8 b r h n cont he p hr hn => have := here b r hs h n cont he; rw [hr] at this; cases this

end AcraModel.Envelope
