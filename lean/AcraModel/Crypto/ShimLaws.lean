import AcraModel.Crypto.Shim
/-
Proofs that the `Shim` instance of `CryptoOps` (the algorithm of the pure-Go Themis stand-in)
satisfies `SealLaws`, `SealLen`, `MsgLaws`, `MsgLen` and `KeygenLaws` for an ARBITRARY hash function
`H : Bytes → Bytes`. Nothing is assumed about `H`: authenticity (`enc_of_dec`, `wrap_of_unwrap`)
holds because `dec`/`unwrap` recompute the tag from the decrypted message, so any accepted byte
string is literally `enc key ctx msg iv` for the 12-byte `iv` it carries.
No definition in Shim.lean had to be changed; all laws hold as stated in Ops.lean.
-/
namespace AcraModel.Shim
variable (H : Bytes → Bytes)

/-! ### the key stream is an involution -/

theorem xor_cancel (a b : UInt8) : (a ^^^ b) ^^^ b = a := by
  rw [UInt8.xor_assoc, UInt8.xor_self, UInt8.xor_zero]

theorem zipXor_invol : ∀ (m s : Bytes), s.length = m.length →
    List.zipWith (· ^^^ ·) (List.zipWith (· ^^^ ·) m s) s = m
  | [], _, _ => by simp
  | a :: m, [], h => by simp at h
  | a :: m, b :: s, h => by
    simp only [List.length_cons, Nat.add_right_cancel_iff] at h
    simp [xor_cancel, zipXor_invol m s h]

@[simp] theorem xorWith_length (blk m : Bytes) : (xorWith blk m).length = m.length := by
  simp [xorWith]

theorem xorWith_invol (blk m : Bytes) : xorWith blk (xorWith blk m) = m := by
  unfold xorWith
  simp only [List.length_zipWith, fixLen_length, Nat.min_self]
  exact zipXor_invol m _ (by simp)

theorem xorStream_nil (k iv : Bytes) (c : Nat) : xorStream H k iv c [] = [] := by
  rw [xorStream]; simp

theorem xorStream_length (k iv : Bytes) : ∀ (n : Nat) (c : Nat) (m : Bytes), m.length = n →
    (xorStream H k iv c m).length = m.length := by
  intro n
  induction n using Nat.strongRecOn with
  | _ n ih =>
    intro c m hn
    rw [xorStream]
    split
    · next h => simp [h]
    · next h =>
      have hpos : 0 < m.length := List.length_pos_iff.mpr h
      rw [List.length_append, xorWith_length, ih (m.drop 32).length (by simp [List.length_drop]; omega) (c+1) _ rfl]
      simp [List.length_take, List.length_drop]; omega

theorem xorStream_invol (k iv : Bytes) : ∀ (n : Nat) (c : Nat) (m : Bytes), m.length = n →
    xorStream H k iv c (xorStream H k iv c m) = m := by
  intro n
  induction n using Nat.strongRecOn with
  | _ n ih =>
    intro c m hn
    by_cases h : m = []
    · subst h; simp [xorStream_nil]
    · have hpos : 0 < m.length := List.length_pos_iff.mpr h
      rw [xorStream.eq_1 H k iv c m, dif_neg h]
      generalize hblk : fixLen 32 (H (k ++ iv ++ leBytes 4 c)) = blk
      have hne : xorWith blk (m.take 32) ++ xorStream H k iv (c+1) (m.drop 32) ≠ [] := by
        intro hc
        have := congrArg List.length hc
        rw [List.length_append, xorWith_length, List.length_take] at this
        simp only [List.length_nil] at this
        omega
      rw [xorStream, dif_neg hne, hblk]
      have hlen1 : (xorWith blk (m.take 32)).length = min 32 m.length := by simp [List.length_take]
      have htake : (xorWith blk (m.take 32) ++ xorStream H k iv (c+1) (m.drop 32)).take 32 = xorWith blk (m.take 32) := by
        by_cases h32 : 32 ≤ m.length
        · rw [List.take_append_of_le_length (by omega)]
          exact List.take_of_length_le (by omega)
        · have : m.drop 32 = [] := List.drop_eq_nil_of_le (by omega)
          rw [this, xorStream_nil, List.append_nil]
          exact List.take_of_length_le (by omega)
      have hdrop : (xorWith blk (m.take 32) ++ xorStream H k iv (c+1) (m.drop 32)).drop 32 = xorStream H k iv (c+1) (m.drop 32) := by
        by_cases h32 : 32 ≤ m.length
        · have : (xorWith blk (m.take 32)).length = 32 := by omega
          rw [List.drop_append_of_le_length (by omega), List.drop_of_length_le (by omega)]
          simp
        · have : m.drop 32 = [] := List.drop_eq_nil_of_le (by omega)
          rw [this, xorStream_nil, List.append_nil]
          exact List.drop_eq_nil_of_le (by omega)
      rw [htake, hdrop, xorWith_invol, ih (m.drop 32).length (by simp [List.length_drop]; omega) (c+1) _ rfl]
      exact List.take_append_drop 32 m


/-! ### splitting `a ++ b ++ c ++ d` -/

theorem split4 (a b c d : Bytes) (p q r pq pqr : Nat) (ha : a.length = p) (hb : b.length = q)
    (hc : c.length = r) (hpq : pq = p + q) (hpqr : pqr = p + q + r) :
    (a ++ b ++ c ++ d).take p = a ∧ ((a ++ b ++ c ++ d).drop p).take q = b ∧
    ((a ++ b ++ c ++ d).drop pq).take r = c ∧ (a ++ b ++ c ++ d).drop pqr = d := by
  subst ha hb hc hpq hpqr
  refine ⟨?_, ?_, ?_, ?_⟩
  · simp [List.append_assoc]
  · simp [List.append_assoc]
  · rw [show a ++ b ++ c ++ d = (a ++ b) ++ (c ++ d) by simp [List.append_assoc]]
    rw [List.drop_append_of_le_length (by simp), List.drop_of_length_le (by simp)]
    simp
  · rw [show a ++ b ++ c ++ d = (a ++ b ++ c) ++ d by simp [List.append_assoc]]
    rw [List.drop_append_of_le_length (by simp only [List.length_append]; omega),
      List.drop_of_length_le (by simp only [List.length_append]; omega)]
    simp

theorem join4 (data : Bytes) (p q r pq pqr : Nat) (hpq : pq = p + q) (hpqr : pqr = p + q + r) :
    data.take p ++ (data.drop p).take q ++ (data.drop pq).take r ++ data.drop pqr = data := by
  subst hpq hpqr
  rw [← List.drop_drop, ← List.drop_drop, ← List.drop_drop, List.append_assoc, List.append_assoc,
    List.take_append_drop, List.take_append_drop, List.take_append_drop]

@[simp] theorem cellHeader_length (n : Nat) : (cellHeader n).length = 16 := by
  simp [cellHeader, cellMagic]

@[simp] theorem cellTag_length (k x h i m : Bytes) : (cellTag H k x h i m).length = 16 := by
  simp [cellTag]

/-! ### Secure Cell -/

theorem sealLen : SealLen (Shim.ops H) where
  enc_len := by
    intro k x m n ct h
    simp only [ops, enc] at h
    split at h
    · cases h
    · next hc =>
      cases h
      have hn : n.length = nonceLen := by
        false_or_by_contra; rename_i hh; exact hc (Or.inr (Or.inr (Or.inl hh)))
      simp [xorStream_length H _ _ _ _ _ rfl, hn, nonceLen, sealOverhead]
      omega

theorem sealLaws : SealLaws (Shim.ops H) where
  dec_enc := by
    intro k x m n ct h
    simp only [ops, enc] at h
    split at h
    · cases h
    · next hc =>
      cases h
      simp only [not_or, Decidable.not_not, Nat.not_le] at hc
      obtain ⟨hk, hm, hn, hlt⟩ := hc
      have hmpos : 0 < m.length := List.length_pos_iff.mpr hm
      obtain ⟨h1, h2, h3, h4⟩ := split4 (cellHeader m.length) n
        (cellTag H (H k) x (cellHeader m.length) n m) (xorStream H (H k) n 0 m) 16 12 16 28 44
        (by simp) hn (by simp) rfl rfl
      simp only [ops, dec]
      rw [if_neg (by
        simp [hk, xorStream_length H _ _ _ _ _ rfl, hn, nonceLen, sealOverhead]; omega)]
      simp only [h1, h2, h3, h4, xorStream_length H _ _ _ _ _ rfl, xorStream_invol H _ _ _ _ _ rfl]
      rw [if_neg (by simp; exact hlt)]
      simp
  enc_of_dec := by
    intro k x ct m h
    simp only [ops, dec] at h
    split at h
    · cases h
    · next hc =>
      simp only [not_or, Nat.not_le] at hc
      obtain ⟨hk, hlen⟩ := hc
      split at h
      · cases h
      · next hc2 =>
        simp only [not_or, Decidable.not_not, Nat.not_le] at hc2
        obtain ⟨hhdr, hlt⟩ := hc2
        split at h
        · next htag =>
          cases h
          have hbl : (ct.drop 44).length = ct.length - 44 := List.length_drop
          have hbpos : 0 < (ct.drop 44).length := by simp only [sealOverhead] at hlen; omega
          refine ⟨(ct.drop 16).take 12, ?_, ?_⟩
          · simp only [sealOverhead] at hlen; simp [List.length_take, List.length_drop, nonceLen]; omega
          · simp only [ops, enc]
            have hml : (xorStream H (H k) ((ct.drop 16).take 12) 0 (ct.drop 44)).length = (ct.drop 44).length :=
              xorStream_length H _ _ _ _ _ rfl
            rw [if_neg (by
              simp only [not_or, Decidable.not_not, Nat.not_le]
              refine ⟨hk, ?_, ?_, ?_⟩
              · intro h0; rw [h0] at hml; simp at hml; omega
              · simp only [sealOverhead] at hlen; simp [List.length_take, List.length_drop, nonceLen]; omega
              · rw [hml]; exact hlt)]
            rw [hml, ← hhdr, htag, xorStream_invol H _ _ _ _ _ rfl]
            congr 1
            exact join4 ct 16 12 16 28 44 rfl rfl
        · cases h
  enc_none := by
    intro k x m n
    simp only [ops, enc]
    split
    · next hc => simp; rcases hc with h | h | h | h <;> simp [h]
    · next hc => simp; simp only [not_or] at hc; exact ⟨hc.2.1, hc.1, Decidable.not_not.mp hc.2.2.1, by omega⟩


/-! ### Diffie-Hellman -/

theorem powMod_eq (m : Nat) : ∀ (e b : Nat), powMod b e m = b ^ e % m := by
  intro e
  induction e using Nat.strongRecOn with
  | _ e ih =>
    intro b
    rw [powMod]
    split
    · next h => subst h; simp
    · next h =>
      have ih' := ih (e / 2) (by omega) (b * b % m)
      simp only [ih']
      rw [← Nat.pow_mod]
      have hsq : (b * b) ^ (e / 2) = b ^ (2 * (e / 2)) := by
        rw [Nat.pow_mul, Nat.pow_two]
      split
      · next hodd =>
        have he : e = 2 * (e / 2) + 1 := by omega
        rw [Nat.mul_mod, Nat.mod_mod, ← Nat.mul_mod, hsq]
        conv => rhs; rw [he, Nat.pow_succ, Nat.mul_comm]
      · next heven =>
        have he : e = 2 * (e / 2) := by omega
        rw [hsq, ← he]

theorem dh_comm (a b : Nat) : powMod (powMod 2 a dhP) b dhP = powMod (powMod 2 b dhP) a dhP := by
  simp only [powMod_eq]
  rw [← Nat.pow_mod, ← Nat.pow_mod, ← Nat.pow_mul, ← Nat.pow_mul, Nat.mul_comm]

theorem dhP_pos : 0 < dhP := by unfold dhP; omega
theorem dhP_lt : dhP < 256 ^ 32 := by unfold dhP; omega

theorem powMod_lt (b e : Nat) : powMod b e dhP < 256 ^ 32 := by
  rw [powMod_eq]
  exact Nat.lt_trans (Nat.mod_lt _ dhP_pos) dhP_lt

/-! ### key containers -/

@[simp] theorem keyCheck_length (tag body : Bytes) : (keyCheck H tag body).length = 4 := by
  simp [keyCheck, List.length_take]

theorem pack_length (tag body : Bytes) (ht : tag.length = 4) :
    (pack H tag body).length = 12 + body.length := by
  simp [pack, ht]; omega

theorem unpack_pack (tag body : Bytes) (ht : tag.length = 4) (hb : body.length = 33) :
    unpack H tag (pack H tag body) = some body := by
  obtain ⟨h1, h2, h3, h4⟩ := split4 tag (beBytes 4 (12 + body.length)) (keyCheck H tag body) body
    4 4 4 8 12 ht (by simp) (by simp) rfl rfl
  unfold unpack
  have hl := pack_length H tag body ht
  unfold pack at hl ⊢
  rw [h1, h2, h3, h4, hl, hb]
  simp

theorem privExp_privOfSeed (d : Bytes) (hd : d.length = 32) :
    privExp H (privOfSeed H d) = some (beVal d) := by
  simp [privExp, privOfSeed, unpack_pack H privTag (0 :: d) rfl (by simp [hd])]

theorem pubElem_pubOfExp (d : Nat) : pubElem H (pubOfExp H d) = some (powMod 2 d dhP) := by
  simp [pubElem, pubOfExp, unpack_pack H pubTag (2 :: beBytes 32 (powMod 2 d dhP)) rfl (by simp),
    beVal_beBytes_of_lt 32 _ (powMod_lt 2 d)]

theorem pubOf_eq {a : Bytes} {d : Nat} (h : privExp H a = some d) : pubOf H a = pubOfExp H d := by
  simp [pubOf, h]

theorem shared_pubOf {a b : Bytes} {da db : Nat} (ha : privExp H a = some da)
    (hb : privExp H b = some db) :
    shared H a (pubOf H b) = some (H (beBytes 32 (powMod (powMod 2 db dhP) da dhP))) := by
  simp [shared, ha, pubOf_eq H hb, pubElem_pubOfExp]

theorem shared_comm {a b : Bytes} {da db : Nat} (ha : privExp H a = some da)
    (hb : privExp H b = some db) : shared H a (pubOf H b) = shared H b (pubOf H a) := by
  rw [shared_pubOf H ha hb, shared_pubOf H hb ha, dh_comm]

theorem keygenLaws : KeygenLaws (Shim.ops H) where
  valid_seed := by
    intro d hd
    simp [ops, privExp_privOfSeed H d hd]


/-! ### Secure Message -/

@[simp] theorem msgHeader_length (n : Nat) : (msgHeader n).length = 8 := by
  simp [msgHeader, msgMagic]

@[simp] theorem msgTag_length (k h i m : Bytes) : (msgTag H k h i m).length = 32 := by
  simp [msgTag]

theorem pubOfExp_length (d : Nat) : (pubOfExp H d).length = 45 := by
  rw [pubOfExp, pack_length H _ _ rfl]; simp

theorem exists_privExp {a : Bytes} (h : (Shim.ops H).validPriv a = true) : ∃ d, privExp H a = some d := by
  simp only [ops] at h
  exact Option.isSome_iff_exists.mp h

theorem msgLen : MsgLen (Shim.ops H) where
  wrap_len := by
    intro a p m n ct h
    simp only [ops, wrap] at h
    split at h
    · cases h
    · next hc =>
      split at h
      · cases h
      · cases h
        have hn : n.length = nonceLen := by
          false_or_by_contra; rename_i hh; exact hc (Or.inr (Or.inl hh))
        simp [xorStream_length H _ _ _ _ _ rfl, hn, nonceLen, wrapOverhead]
        omega
  pub_len := by
    intro a ha
    obtain ⟨d, hd⟩ := exists_privExp H ha
    simp only [ops, pubOf_eq H hd, pubOfExp_length, keyContainerLen]

/-- correctness of the envelope for a fixed shared key -/
theorem unwrap_wrap_aux {a p b q : Bytes} {k : Bytes} (h1 : shared H a p = some k)
    (h2 : shared H b q = some k) (m n ct : Bytes) (h : wrap H a p m n = some ct) :
    unwrap H b q ct = some m := by
  simp only [wrap, h1] at h
  split at h
  · cases h
  · next hc =>
    cases h
    simp only [not_or, Decidable.not_not, Nat.not_le] at hc
    obtain ⟨hm, hn, hlt⟩ := hc
    have hmpos : 0 < m.length := List.length_pos_iff.mpr hm
    obtain ⟨e1, e2, e3, e4⟩ := split4 (msgHeader m.length) n
      (msgTag H k (msgHeader m.length) n m) (xorStream H k n 0 m) 8 12 32 20 52
      (by simp) hn (by simp) rfl rfl
    simp only [unwrap, h2]
    rw [if_neg (by
      simp [xorStream_length H _ _ _ _ _ rfl, hn, nonceLen, wrapOverhead]; omega)]
    simp only [e1, e2, e3, e4, xorStream_length H _ _ _ _ _ rfl, xorStream_invol H _ _ _ _ _ rfl]
    rw [if_neg (by simp; exact hlt)]
    simp

/-- authenticity of the envelope for a fixed shared key -/
theorem wrap_of_unwrap_aux {a p b q : Bytes} {k : Bytes} (h1 : shared H a p = some k)
    (h2 : shared H b q = some k) (ct m : Bytes) (h : unwrap H b q ct = some m) :
    ∃ n, n.length = nonceLen ∧ wrap H a p m n = some ct := by
  simp only [unwrap, h2] at h
  split at h
  · cases h
  · next hlen =>
    simp only [Nat.not_le, wrapOverhead] at hlen
    split at h
    · cases h
    · next hc2 =>
      simp only [not_or, Decidable.not_not, Nat.not_le] at hc2
      obtain ⟨hhdr, hlt⟩ := hc2
      split at h
      · next htag =>
        cases h
        have hbl : (ct.drop 52).length = ct.length - 52 := List.length_drop
        refine ⟨(ct.drop 8).take 12, ?_, ?_⟩
        · simp [List.length_take, List.length_drop, nonceLen]; omega
        · simp only [wrap, h1]
          have hml : (xorStream H k ((ct.drop 8).take 12) 0 (ct.drop 52)).length = (ct.drop 52).length :=
            xorStream_length H _ _ _ _ _ rfl
          rw [if_neg (by
            simp only [not_or, Decidable.not_not, Nat.not_le]
            refine ⟨?_, ?_, ?_⟩
            · intro h0; rw [h0] at hml; simp at hml; omega
            · simp [List.length_take, List.length_drop, nonceLen]; omega
            · rw [hml]; exact hlt)]
          rw [hml, ← hhdr, htag, xorStream_invol H _ _ _ _ _ rfl]
          congr 1
          exact join4 ct 8 12 32 20 52 rfl rfl
      · cases h

theorem msgLaws : MsgLaws (Shim.ops H) where
  unwrap_wrap := by
    intro a b m n ct ha hb h
    obtain ⟨da, hda⟩ := exists_privExp H ha
    obtain ⟨db, hdb⟩ := exists_privExp H hb
    exact unwrap_wrap_aux H (shared_pubOf H hda hdb)
      ((shared_comm H hda hdb).symm.trans (shared_pubOf H hda hdb)) m n ct h
  wrap_of_unwrap := by
    intro a b ct m ha hb h
    obtain ⟨da, hda⟩ := exists_privExp H ha
    obtain ⟨db, hdb⟩ := exists_privExp H hb
    exact wrap_of_unwrap_aux H (shared_pubOf H hda hdb)
      ((shared_comm H hda hdb).symm.trans (shared_pubOf H hda hdb)) ct m h
  wrap_none := by
    intro a b m n ha hb
    obtain ⟨da, hda⟩ := exists_privExp H ha
    obtain ⟨db, hdb⟩ := exists_privExp H hb
    simp only [ops, wrap, shared_pubOf H hda hdb]
    split
    · next hc => simp; exact hc
    · next hc => simp; simp only [not_or] at hc; exact ⟨hc.1, Decidable.not_not.mp hc.2.1, by omega⟩

end AcraModel.Shim

namespace AcraModel
open Shim

/-! corollaries for the executable instance (`H := SHA-256`; only `hmac` differs from `Shim.ops`) -/

theorem shim_sealLaws : SealLaws shimOps := ⟨(sealLaws Sha256.sha256).1, (sealLaws Sha256.sha256).2, (sealLaws Sha256.sha256).3⟩
theorem shim_sealLen : SealLen shimOps := ⟨(sealLen Sha256.sha256).1⟩
theorem shim_msgLaws : MsgLaws shimOps := ⟨(msgLaws Sha256.sha256).1, (msgLaws Sha256.sha256).2, (msgLaws Sha256.sha256).3⟩
theorem shim_msgLen : MsgLen shimOps := ⟨(msgLen Sha256.sha256).1, (msgLen Sha256.sha256).2⟩
theorem shim_keygenLaws : KeygenLaws shimOps := ⟨(keygenLaws Sha256.sha256).1⟩

end AcraModel
