import AcraModel.Crypto.Ops
/-
`Box`: a "transparent box" instance of `CryptoOps` – ciphertexts literally contain key, context,
nonce and message in a self-delimiting encoding. It is not an encryption scheme; it exists only to
show that the law structures `SealLaws`, `SealCommit`, `MsgLaws`, `HashInj` are jointly satisfiable,
i.e. to discharge the non-vacuity `example`s next to the property theorems.
-/
namespace AcraModel.Box

/-- self-delimiting, prefix-free encoding: every byte `b` becomes `1 b`, then a terminating `0` -/
def esc : Bytes → Bytes
  | [] => [0]
  | b :: r => 1 :: b :: esc r

def unesc : Bytes → Option (Bytes × Bytes)
  | 0 :: r => some ([], r)
  | 1 :: b :: r => (unesc r).map fun (x, rest) => (b :: x, rest)
  | _ => none

theorem unesc_esc (b r : Bytes) : unesc (esc b ++ r) = some (b, r) := by
  induction b with
  | nil => simp [esc, unesc]
  | cons x xs ih => simp [esc, unesc, ih]

theorem esc_of_unesc : ∀ (ct b r : Bytes), unesc ct = some (b, r) → ct = esc b ++ r
  | [], b, r, h => by simp [unesc] at h
  | [x], b, r, h => by
      unfold unesc at h
      split at h <;> simp_all [esc]
  | x :: y :: t, b, r, h => by
      unfold unesc at h
      split at h
      · next heq => cases heq; cases h; simp [esc]
      · next heq =>
        cases heq
        cases hu : unesc t with
        | none => simp [hu] at h
        | some p =>
          obtain ⟨b', r'⟩ := p
          simp [hu] at h
          obtain ⟨rfl, rfl⟩ := h
          have := esc_of_unesc t b' r' hu
          simp [esc, this]
      · cases h

theorem esc_inj (a b r s : Bytes) (h : esc a ++ r = esc b ++ s) : a = b ∧ r = s := by
  have h1 := unesc_esc a r
  rw [h, unesc_esc] at h1
  cases h1; exact ⟨rfl, rfl⟩

def enc (k x m n : Bytes) : Option Bytes :=
  if m = [] ∨ k = [] ∨ n.length ≠ nonceLen ∨ maxMsgLen ≤ m.length then none else some (esc k ++ (esc x ++ (esc n ++ m)))

def dec (k x ct : Bytes) : Option Bytes :=
  match unesc ct with
  | none => none
  | some (k', r1) =>
    match unesc r1 with
    | none => none
    | some (x', r2) =>
      match unesc r2 with
      | none => none
      | some (n, m) => if k' = k ∧ x' = x ∧ ¬ (m = [] ∨ k = [] ∨ n.length ≠ nonceLen ∨ maxMsgLen ≤ m.length) then some m else none

def validPriv (a : Bytes) : Bool := a.head? == some 0

def pubOf (a : Bytes) : Bytes := if a.head? = some 0 then 1 :: a.tail else []

theorem eq_of_valid (a : Bytes) (ha : validPriv a = true) : a = 0 :: a.tail := by
  cases a with
  | nil => simp [validPriv] at ha
  | cons x r => simp [validPriv] at ha; simp [ha]

theorem pubOf_inj (a b : Bytes) (ha : validPriv a = true) (hb : validPriv b = true) (h : pubOf a = pubOf b) : a = b := by
  have ea := eq_of_valid a ha
  have eb := eq_of_valid b hb
  rw [ea, eb] at h
  simp [pubOf] at h
  rw [ea, eb, h]

def wrap (a p m n : Bytes) : Option Bytes :=
  if m = [] ∨ n.length ≠ nonceLen ∨ maxMsgLen ≤ m.length ∨ validPriv a = false then none else some (esc a ++ (esc p ++ (esc n ++ m)))

def unwrap (b q ct : Bytes) : Option Bytes :=
  match unesc ct with
  | none => none
  | some (a, r1) =>
    match unesc r1 with
    | none => none
    | some (p, r2) =>
      match unesc r2 with
      | none => none
      | some (n, m) =>
        if validPriv a = true ∧ validPriv b = true ∧ p = pubOf b ∧ q = pubOf a ∧ m ≠ [] ∧ n.length = nonceLen ∧ m.length < maxMsgLen then some m else none

def ops : CryptoOps where
  enc := enc
  dec := dec
  wrap := wrap
  unwrap := unwrap
  pubOf := pubOf
  validPriv := validPriv
  privOfSeed := fun d => 0 :: d
  hmac := fun k m => esc k ++ m
  sha256 := id

theorem sealLaws : SealLaws ops where
  dec_enc := by
    intro k x m n ct h
    simp only [ops, enc] at h
    split at h
    · cases h
    · next hc =>
      cases h
      simp only [ops, dec, unesc_esc]
      simp [hc]
  enc_of_dec := by
    intro k x ct m h
    simp only [ops, dec] at h
    cases h1 : unesc ct with
    | none => simp [h1] at h
    | some p1 =>
      obtain ⟨k', r1⟩ := p1
      cases h2 : unesc r1 with
      | none => simp [h1, h2] at h
      | some p2 =>
        obtain ⟨x', r2⟩ := p2
        cases h3 : unesc r2 with
        | none => simp [h1, h2, h3] at h
        | some p3 =>
          obtain ⟨n, m'⟩ := p3
          simp only [h1, h2, h3] at h
          split at h
          · next hc =>
            cases h
            obtain ⟨rfl, rfl, hc3⟩ := hc
            refine ⟨n, ?_, ?_⟩
            · simp at hc3; exact hc3.2.2.1
            · simp only [ops, enc, if_neg hc3]
              rw [esc_of_unesc _ _ _ h1, esc_of_unesc _ _ _ h2, esc_of_unesc _ _ _ h3]
          · cases h
  enc_none := by
    intro k x m n
    simp only [ops, enc]
    split <;> simp_all

theorem sealCommit : SealCommit ops where
  enc_inj := by
    intro k x m n k' x' m' n' ct h h'
    simp only [ops, enc] at h h'
    split at h
    · cases h
    · split at h'
      · cases h'
      · cases h
        simp only [Option.some.injEq] at h'
        obtain ⟨rfl, h1⟩ := esc_inj _ _ _ _ h'
        obtain ⟨rfl, h2⟩ := esc_inj _ _ _ _ h1
        obtain ⟨_, h3⟩ := esc_inj _ _ _ _ h2
        exact ⟨rfl, rfl, h3.symm⟩

theorem msgLaws : MsgLaws ops where
  unwrap_wrap := by
    intro a b m n ct ha hb h
    simp only [ops, wrap] at h
    split at h
    · cases h
    · next hc =>
      cases h
      simp only [ops, unwrap, unesc_esc]
      have ha' : validPriv a = true := ha
      have hb' : validPriv b = true := hb
      simp at hc
      simp [ha', hb', hc]
  wrap_of_unwrap := by
    intro a b ct m ha hb h
    simp only [ops, unwrap] at h
    cases h1 : unesc ct with
    | none => simp [h1] at h
    | some p1 =>
      obtain ⟨a', r1⟩ := p1
      cases h2 : unesc r1 with
      | none => simp [h1, h2] at h
      | some p2 =>
        obtain ⟨p, r2⟩ := p2
        cases h3 : unesc r2 with
        | none => simp [h1, h2, h3] at h
        | some p3 =>
          obtain ⟨n, m'⟩ := p3
          simp only [h1, h2, h3] at h
          split at h
          · next hc =>
            cases h
            obtain ⟨hva, _, hp, hq, hm, hn, hlt⟩ := hc
            have : a = a' := pubOf_inj a a' ha hva hq
            subst this
            refine ⟨n, hn, ?_⟩
            have ha' : validPriv a = true := ha
            simp only [ops, wrap]
            rw [if_neg (by simp [hm, hn, ha']; omega)]
            rw [esc_of_unesc _ _ _ h1, esc_of_unesc _ _ _ h2, esc_of_unesc _ _ _ h3, hp]
          · cases h
  wrap_none := by
    intro a b m n ha hb
    have ha' : validPriv a = true := ha
    simp only [ops, wrap]
    split <;> simp_all

theorem keygenLaws : KeygenLaws ops where
  valid_seed := by intro d _; simp [ops, validPriv]

theorem hashInj : HashInj ops where
  hmac_inj := by
    intro k m k' m' h
    exact esc_inj k k' m m' h
  sha_inj := by intro m m' h; exact h

/-- a valid private key container of the box instance, for examples -/
def privA : Bytes := [0, 1, 2, 3]
def privB : Bytes := [0, 9, 9]
example : ops.validPriv privA = true ∧ ops.validPriv privB = true := by decide

end AcraModel.Box

namespace AcraModel
def boxOps : CryptoOps := Box.ops
end AcraModel
