import AcraModel.Basic.Bytes
/-
The cryptographic operations Acra obtains from Themis and Go's standard library, as a record of
functions, and the *laws* theorems may assume about them. No axioms: every assumption is an explicit
hypothesis (`SealLaws c`, `MsgLaws c`, `HashLaws c`) of the theorem that needs it.
-/
namespace AcraModel

/-- length of the nonce both stand-in primitives draw from `crypto/rand` -/
def nonceLen : Nat := 12
/-- bytes added by Secure Cell seal (Themis and the stand-in): 44 -/
def sealOverhead : Nat := 44
/-- bytes added by Secure Message wrap: 52 (a 32-byte key becomes 84 bytes) -/
def wrapOverhead : Nat := 52
/-- messages of 2^32 bytes or more cannot be sealed or wrapped (32-bit length field; Themis has the
same limit) -/
def maxMsgLen : Nat := 2^32
/-- length of an EC key container (public or private) -/
def keyContainerLen : Nat := 45

structure CryptoOps where
  /-- Secure Cell seal: `enc key ctx msg nonce` -/
  enc : Bytes → Bytes → Bytes → Bytes → Option Bytes
  /-- Secure Cell unseal: `dec key ctx ct` -/
  dec : Bytes → Bytes → Bytes → Option Bytes
  /-- Secure Message wrap: `wrap priv peerPub msg nonce` -/
  wrap : Bytes → Bytes → Bytes → Bytes → Option Bytes
  /-- Secure Message unwrap: `unwrap priv peerPub ct` -/
  unwrap : Bytes → Bytes → Bytes → Option Bytes
  /-- public key container of a private key container -/
  pubOf : Bytes → Bytes
  /-- is this a well-formed private key container -/
  validPriv : Bytes → Bool
  /-- key-pair generation: private key container from 32 random bytes (`keys.New`) -/
  privOfSeed : Bytes → Bytes
  hmac : Bytes → Bytes → Bytes
  sha256 : Bytes → Bytes

/-- Laws of the symmetric AEAD (Secure Cell, seal mode). `dec_enc` is correctness, `enc_of_dec` is
ideal authenticity (everything accepted was produced by `enc` for that key, context and message). -/
structure SealLaws (c : CryptoOps) : Prop where
  dec_enc : ∀ k x m n ct, c.enc k x m n = some ct → c.dec k x ct = some m
  enc_of_dec : ∀ k x ct m, c.dec k x ct = some m → ∃ n, n.length = nonceLen ∧ c.enc k x m n = some ct
  enc_none : ∀ k x m n, c.enc k x m n = none ↔ (m = [] ∨ k = [] ∨ n.length ≠ nonceLen ∨ maxMsgLen ≤ m.length)

/-- Length law: sealing adds exactly 44 bytes. NEVER assume together with `SealCommit`: a function
cannot both add a constant number of bytes and be injective in keys and contexts of unbounded
length (the two idealisations are jointly unsatisfiable; a theorem assuming both would be vacuous). -/
structure SealLen (c : CryptoOps) : Prop where
  enc_len : ∀ k x m n ct, c.enc k x m n = some ct → ct.length = m.length + sealOverhead

/-- Commitment: a ciphertext determines key, context and message (idealisation; satisfied by the
`Box` instance, not provable for a hash-based instance). See the warning at `SealLen`. -/
structure SealCommit (c : CryptoOps) : Prop where
  enc_inj : ∀ k x m n k' x' m' n' ct, c.enc k x m n = some ct → c.enc k' x' m' n' = some ct →
    k = k' ∧ x = x' ∧ m = m'

/-- Laws of the asymmetric envelope (Secure Message in encrypt mode). -/
structure MsgLaws (c : CryptoOps) : Prop where
  unwrap_wrap : ∀ a b m n ct, c.validPriv a = true → c.validPriv b = true →
    c.wrap a (c.pubOf b) m n = some ct → c.unwrap b (c.pubOf a) ct = some m
  wrap_of_unwrap : ∀ a b ct m, c.validPriv a = true → c.validPriv b = true →
    c.unwrap b (c.pubOf a) ct = some m → ∃ n, n.length = nonceLen ∧ c.wrap a (c.pubOf b) m n = some ct
  wrap_none : ∀ a b m n, c.validPriv a = true → c.validPriv b = true →
    (c.wrap a (c.pubOf b) m n = none ↔ (m = [] ∨ n.length ≠ nonceLen ∨ maxMsgLen ≤ m.length))

structure MsgLen (c : CryptoOps) : Prop where
  wrap_len : ∀ a p m n ct, c.wrap a p m n = some ct → ct.length = m.length + wrapOverhead
  pub_len : ∀ a, c.validPriv a = true → (c.pubOf a).length = keyContainerLen

/-- Key generation yields valid private keys. -/
structure KeygenLaws (c : CryptoOps) : Prop where
  valid_seed : ∀ d, d.length = 32 → c.validPriv (c.privOfSeed d) = true

/-- Output length of the hashes. NEVER assume together with `HashInj` (pigeonhole: jointly
unsatisfiable). Statements that need both the 32-byte layout and collision freedom take the latter
as a hypothesis about the *finite* set of values at hand (e.g. `NoCollision rows`). -/
structure HashLen (c : CryptoOps) : Prop where
  hmac_len : ∀ k m, (c.hmac k m).length = 32
  sha_len : ∀ m, (c.sha256 m).length = 32

/-- Idealised collision freedom (satisfied by `Box`). See the warning at `HashLen`. -/
structure HashInj (c : CryptoOps) : Prop where
  hmac_inj : ∀ k m k' m', c.hmac k m = c.hmac k' m' → k = k' ∧ m = m'
  sha_inj : ∀ m m', c.sha256 m = c.sha256 m' → m = m'

end AcraModel
