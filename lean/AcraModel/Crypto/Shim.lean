import AcraModel.Crypto.Ops
import AcraModel.Basic.Sha256
/-
`Shim`: the algorithm of /verif/gothemis (the pure-Go stand-in for Themis the harness links Acra
against), written over an arbitrary hash function `H` so that its laws can be proved without
knowing anything about SHA-256. `shimOps` instantiates `H := sha256`; the driver runs it, and the
correspondence op `core.*` compares it byte for byte with the Go stand-in.
-/
namespace AcraModel.Shim

variable (H : Bytes → Bytes)

/-- force a byte string to exactly `n` bytes (identity on strings of length `n`) -/
def fixLen (n : Nat) (b : Bytes) : Bytes := b.take n ++ List.replicate (n - b.length) 0

@[simp] theorem fixLen_length (n : Nat) (b : Bytes) : (fixLen n b).length = n := by
  simp [fixLen, List.length_take]; omega

def xorWith (blk : Bytes) (m : Bytes) : Bytes := List.zipWith (· ^^^ ·) m (fixLen m.length blk)

/-- counter-mode key stream over `H`, 32 bytes per block -/
def xorStream (k iv : Bytes) (ctr : Nat) (msg : Bytes) : Bytes :=
  if h : msg = [] then [] else
    xorWith (fixLen 32 (H (k ++ iv ++ leBytes 4 ctr))) (msg.take 32) ++ xorStream k iv (ctr + 1) (msg.drop 32)
termination_by msg.length
decreasing_by
  cases msg with
  | nil => exact absurd rfl h
  | cons a r => simp [List.length_drop]; omega

def cellMagic : Bytes := [0x00, 0x01, 0x01, 0x40]

def cellHeader (msgLen : Nat) : Bytes := cellMagic ++ leBytes 4 12 ++ leBytes 4 16 ++ leBytes 4 msgLen

def cellTag (k ctx header iv msg : Bytes) : Bytes :=
  fixLen 16 (H (k ++ leBytes 8 ctx.length ++ ctx ++ header ++ iv ++ msg))

def enc (key ctx msg nonce : Bytes) : Option Bytes :=
  if key = [] ∨ msg = [] ∨ nonce.length ≠ nonceLen ∨ maxMsgLen ≤ msg.length then none else
    let k := H key
    let hdr := cellHeader msg.length
    some (hdr ++ nonce ++ cellTag H k ctx hdr nonce msg ++ xorStream H k nonce 0 msg)

def dec (key ctx data : Bytes) : Option Bytes :=
  if key = [] ∨ data.length ≤ sealOverhead then none else
    let hdr := data.take 16
    let iv := (data.drop 16).take 12
    let tag := (data.drop 28).take 16
    let body := data.drop 44
    if hdr ≠ cellHeader body.length ∨ maxMsgLen ≤ body.length then none else
      let k := H key
      let msg := xorStream H k iv 0 body
      if cellTag H k ctx hdr iv msg = tag then some msg else none

/-! toy Diffie-Hellman key agreement -/

def dhP : Nat := 2^255 - 19

def powMod (b e m : Nat) : Nat :=
  if h : e = 0 then 1 % m else
    let r := powMod (b * b % m) (e / 2) m
    if e % 2 = 1 then b * r % m else r
termination_by e
decreasing_by omega

def privTag : Bytes := [0x52, 0x45, 0x43, 0x32] -- "REC2"
def pubTag : Bytes := [0x55, 0x45, 0x43, 0x32]  -- "UEC2"

def keyCheck (tag body : Bytes) : Bytes := (fixLen 32 (H (tag ++ beBytes 4 (12 + body.length) ++ body))).take 4

def pack (tag body : Bytes) : Bytes := tag ++ beBytes 4 (12 + body.length) ++ keyCheck H tag body ++ body

def unpack (tag v : Bytes) : Option Bytes :=
  if v.length = 45 ∧ v.take 4 = tag ∧ (v.drop 4).take 4 = beBytes 4 45 ∧
      (v.drop 8).take 4 = keyCheck H tag (v.drop 12) then some (v.drop 12) else none

/-- exponent of a private container / group element of a public container -/
def privExp (v : Bytes) : Option Nat := do
  let b ← unpack H privTag v
  if b.head? = some 0 then some (beVal b.tail) else none

def pubElem (v : Bytes) : Option Nat := do
  let b ← unpack H pubTag v
  if b.head? = some 2 then some (beVal b.tail) else none

def pubOfExp (d : Nat) : Bytes := pack H pubTag (2 :: beBytes 32 (powMod 2 d dhP))

def pubOf (priv : Bytes) : Bytes :=
  match privExp H priv with
  | some d => pubOfExp H d
  | none => []

def privOfSeed (d : Bytes) : Bytes := pack H privTag (0 :: d)

def shared (priv pub : Bytes) : Option Bytes := do
  let d ← privExp H priv
  let y ← pubElem H pub
  some (H (beBytes 32 (powMod y d dhP)))

def msgMagic : Bytes := [0x20, 0x26, 0x04, 0x26]
def msgHeader (msgLen : Nat) : Bytes := msgMagic ++ leBytes 4 (wrapOverhead + msgLen)
def msgTag (k header iv msg : Bytes) : Bytes := fixLen 32 (H (k ++ header ++ iv ++ msg))

def wrap (priv pub msg nonce : Bytes) : Option Bytes :=
  if msg = [] ∨ nonce.length ≠ nonceLen ∨ maxMsgLen ≤ msg.length then none else
    match shared H priv pub with
    | none => none
    | some k =>
      let hdr := msgHeader msg.length
      some (hdr ++ nonce ++ msgTag H k hdr nonce msg ++ xorStream H k nonce 0 msg)

def unwrap (priv pub data : Bytes) : Option Bytes :=
  if data.length ≤ wrapOverhead then none else
    match shared H priv pub with
    | none => none
    | some k =>
      let hdr := data.take 8
      let iv := (data.drop 8).take 12
      let tag := (data.drop 20).take 32
      let body := data.drop 52
      if hdr ≠ msgHeader body.length ∨ maxMsgLen ≤ body.length then none else
        let msg := xorStream H k iv 0 body
        if msgTag H k hdr iv msg = tag then some msg else none

def ops : CryptoOps where
  enc := enc H
  dec := dec H
  wrap := wrap H
  unwrap := unwrap H
  pubOf := pubOf H
  validPriv := fun v => (privExp H v).isSome
  privOfSeed := privOfSeed H
  hmac := fun k m => H (k ++ m)   -- placeholder for the generic instance; `shimOps` overrides it
  sha256 := H

end AcraModel.Shim

namespace AcraModel
/-- the executable instance: `H := SHA-256`, HMAC-SHA256 as in Go's `crypto/hmac` -/
def shimOps : CryptoOps := { Shim.ops Sha256.sha256 with hmac := Sha256.hmacSha256 }
end AcraModel
