import AcraModel.KeystoreSec.ConcurrentLemmas
/-!
Refinement: the concurrent key-store model (handles as programs of back-end calls, any schedule)
refines the **atomic** key store in which every operation of a handle runs in one indivisible step.

* `atomicOp ring snap op` is the sequential meaning of one handle operation: prepare the transactions
  from the handle's snapshot, apply them to the stored ring; on success ring and snapshot become the
  new ring, on an optimistic-check failure the snapshot is refreshed and nothing is stored, an
  operation rejected during preparation changes nothing, a re-read refreshes the snapshot.
* `linPoint s i` says whether the next step of thread `i` in state `s` is the *linearisation point* of
  its current operation (the atomic `Rename` for a successful write, the `Get` under the lock for a
  write that fails its optimistic checks or for a re-read, the preparation step for a rejected one).
  It is a step of the operation's own thread, between the operation's first and last step.
* `linTrace s sched` lists the operations in the order of their linearisation points.
* `Sim` relates a concurrent state to the atomic state reached by running `linTrace` sequentially.
-/
namespace AcraModel.KeystoreSec.Conc

structure Event where
  tid : Nat
  path : Nat
  op : Op
deriving DecidableEq, Repr

/-- one operation of a handle with snapshot `snap` on the stored ring `ring`, run atomically:
(stored ring afterwards, snapshot afterwards, result – `some txs` = success) -/
def atomicOp (ring snap : Ring) (op : Op) : Ring × Ring × Option (List Tx) :=
  if op = .refresh then (ring, ring, some [])
  else
    match prepare snap op with
    | none => (ring, snap, none)
    | some txs =>
      match applyAll txs ring with
      | none => (ring, ring, none)
      | some r' => (r', r', some txs)

/-- state of the atomic key store: ring files, snapshot per handle, and the log of results -/
structure AState where
  cur : Nat → Ring
  snap : Nat → Ring
  log : List (Event × Option (List Tx))

def AState.exec (a : AState) (e : Event) : AState :=
  let r := atomicOp (a.cur e.path) (a.snap e.tid) e.op
  ⟨upd a.cur e.path r.1, upd a.snap e.tid r.2.1, a.log ++ [(e, r.2.2)]⟩

/-- the sequential run -/
def atomicRun (a : AState) (es : List Event) : AState := es.foldl AState.exec a

theorem atomicRun_append (a : AState) (x y : List Event) : atomicRun a (x ++ y) = atomicRun (atomicRun a x) y := by
  simp [atomicRun, List.foldl_append]

/-- is the next step of thread `i` the linearisation point of its current operation? -/
def linPoint (s : St) (i : Nat) : Option Event :=
  let hd := s.h i
  match hd.todo with
  | [] => none
  | op :: _ =>
    match hd.pc with
    | .idle => if op ≠ .refresh ∧ (prepare hd.snap op).isNone then some ⟨i, hd.path, op⟩ else none
    | .locked => if (applyAll hd.txs (s.cur hd.path)).isNone then some ⟨i, hd.path, op⟩ else none
    | .put => if (s.new hd.path).isSome then some ⟨i, hd.path, op⟩ else none
    | .rlocked => some ⟨i, hd.path, op⟩
    | _ => none

/-- the operations of a schedule in the order of their linearisation points -/
def linTrace (s : St) : List Nat → List Event
  | [] => []
  | i :: r => (linPoint s i).toList ++ linTrace (step s i) r

/-- the result of the operation a handle has linearised but not yet returned from -/
def pending (hd : Handle) : List (Op × Option (List Tx)) :=
  match hd.todo with
  | [] => []
  | op :: _ =>
    match hd.pc with
    | .renamed => [(op, some hd.txs)]
    | .failed => [(op, none)]
    | .rgot => [(op, some [])]
    | _ => []

/-- results of thread `i` in the sequential run, in order -/
def resultsOf (log : List (Event × Option (List Tx))) (i : Nat) : List (Op × Option (List Tx)) :=
  (log.filter (·.1.tid = i)).map fun x => (x.1.op, x.2)

/-- the successful writes of the sequential run, in order, as commit records -/
def committed (log : List (Event × Option (List Tx))) : List Commit :=
  log.filterMap fun x => if x.1.op = .refresh then none else x.2.map fun t => (⟨x.1.tid, x.1.path, t⟩ : Commit)

theorem resultsOf_snoc (log : List (Event × Option (List Tx))) (e : Event) (r : Option (List Tx)) (i : Nat) :
    resultsOf (log ++ [(e, r)]) i = resultsOf log i ++ (if e.tid = i then [(e.op, r)] else []) := by
  unfold resultsOf
  by_cases h : e.tid = i <;> simp [List.filter_append, h]

theorem committed_snoc (log : List (Event × Option (List Tx))) (e : Event) (r : Option (List Tx)) :
    committed (log ++ [(e, r)]) = committed log ++
      (if e.op = .refresh then [] else match r with | none => [] | some t => [(⟨e.tid, e.path, t⟩ : Commit)]) := by
  unfold committed
  by_cases h : e.op = .refresh
  · simp [List.filterMap_append, h]
  · cases r <;> simp [List.filterMap_append, h]

/-- the simulation relation -/
structure Sim (s : St) (a : AState) : Prop where
  cur : ∀ p, a.cur p = s.cur p
  snap : ∀ i, (s.h i).pc ≠ .got → (s.h i).pc ≠ .put → a.snap i = (s.h i).snap
  prep : ∀ i, ((s.h i).pc = .locked ∨ (s.h i).pc = .got ∨ (s.h i).pc = .put) →
    ∃ op rest, (s.h i).todo = op :: rest ∧ prepare (a.snap i) op = some (s.h i).txs
  res : ∀ i, resultsOf a.log i = (s.h i).done ++ pending (s.h i)
  commits : committed a.log = s.commits

/-- a step that is not a linearisation point and changes neither the ring files nor the commit log -/
theorem sim_local (s s' : St) (a : AState) (i : Nat) (hd' : Handle) (h : Sim s a)
    (hc : s'.cur = s.cur) (hm : s'.commits = s.commits) (hh : s'.h = upd s.h i hd')
    (hsnap : hd'.pc ≠ .got → hd'.pc ≠ .put → a.snap i = hd'.snap)
    (hprep : (hd'.pc = .locked ∨ hd'.pc = .got ∨ hd'.pc = .put) →
      ∃ op rest, hd'.todo = op :: rest ∧ prepare (a.snap i) op = some hd'.txs)
    (hres : hd'.done ++ pending hd' = (s.h i).done ++ pending (s.h i)) : Sim s' a := by
  constructor
  · intro p; rw [hc]; exact h.cur p
  · intro j h1 h2
    rw [hh] at h1 h2 ⊢
    by_cases hji : j = i
    · subst hji; simp only [upd_same] at h1 h2 ⊢; exact hsnap h1 h2
    · simp only [upd, if_neg hji] at h1 h2 ⊢; exact h.snap j h1 h2
  · intro j h1
    rw [hh] at h1 ⊢
    by_cases hji : j = i
    · subst hji; simp only [upd_same] at h1 ⊢; exact hprep h1
    · simp only [upd, if_neg hji] at h1 ⊢; exact h.prep j h1
  · intro j
    rw [hh]
    by_cases hji : j = i
    · subst hji; simp only [upd_same]; rw [hres]; exact h.res j
    · simp only [upd, if_neg hji]; exact h.res j
  · rw [hm]; exact h.commits

/-- a linearisation point of thread `i`: the atomic store executes the operation -/
theorem sim_event (s s' : St) (a : AState) (i : Nat) (hd' : Handle) (op : Op) (h : Sim s a)
    (r' sn' : Ring) (res : Option (List Tx))
    (hat : atomicOp (a.cur (s.h i).path) (a.snap i) op = (r', sn', res))
    (hc : s'.cur = upd s.cur (s.h i).path r')
    (hm : s'.commits = s.commits ++
      (if op = .refresh then [] else match res with | none => [] | some t => [(⟨i, (s.h i).path, t⟩ : Commit)]))
    (hh : s'.h = upd s.h i hd')
    (hpc : hd'.pc ≠ .locked ∧ hd'.pc ≠ .got ∧ hd'.pc ≠ .put)
    (hsnap : sn' = hd'.snap)
    (hres : hd'.done ++ pending hd' = (s.h i).done ++ pending (s.h i) ++ [(op, res)]) :
    Sim s' (a.exec ⟨i, (s.h i).path, op⟩) := by
  constructor
  · intro p
    simp only [AState.exec, hat, hc]
    by_cases hp : p = (s.h i).path
    · subst hp; simp
    · simp only [upd, if_neg hp]; exact h.cur p
  · intro j h1 h2
    rw [hh] at h1 h2 ⊢
    simp only [AState.exec, hat]
    by_cases hji : j = i
    · subst hji; simp only [upd_same]; exact hsnap
    · simp only [upd, if_neg hji] at h1 h2 ⊢; exact h.snap j h1 h2
  · intro j h1
    rw [hh] at h1 ⊢
    simp only [AState.exec, hat]
    by_cases hji : j = i
    · subst hji; simp only [upd_same] at h1
      rcases h1 with h1 | h1 | h1
      · exact absurd h1 hpc.1
      · exact absurd h1 hpc.2.1
      · exact absurd h1 hpc.2.2
    · simp only [upd, if_neg hji] at h1 ⊢; exact h.prep j h1
  · intro j
    rw [hh]
    simp only [AState.exec, hat, resultsOf_snoc]
    by_cases hji : j = i
    · subst hji; simp only [upd_same, if_true]; rw [hres, h.res j]
    · simp only [upd, if_neg hji, if_neg (Ne.symm hji), List.append_nil]; exact h.res j
  · simp only [AState.exec, hat, committed_snoc]
    rw [hm, h.commits]

theorem pending_of_pc (hd : Handle) (h : hd.pc ≠ .renamed ∧ hd.pc ≠ .failed ∧ hd.pc ≠ .rgot) : pending hd = [] := by
  unfold pending
  split
  · rfl
  · split <;> simp_all

/-- the atomic state after the step of thread `i` -/
def AState.after (a : AState) (s : St) (i : Nat) : AState :=
  match linPoint s i with
  | none => a
  | some e => a.exec e

/-- **Every step of every thread is simulated by the atomic store** (zero or one atomic operation). -/
theorem step_sim (c0 : Nat → Ring) (s : St) (a : AState) (i : Nat) (hI : Inv c0 s) (h : Sim s a) :
    Sim (step s i) (a.after s i) := by
  unfold AState.after
  cases hpc : (s.h i).pc with
  | idle =>
    have hpend : pending (s.h i) = [] := pending_of_pc _ (by simp [hpc])
    have hsn := h.snap i (by simp [hpc]) (by simp [hpc])
    cases htodo : (s.h i).todo with
    | nil =>
      rw [show step s i = s by simp [step, stepCall, hpc, htodo], show linPoint s i = none by simp [linPoint, htodo]]
      exact h
    | cons op rest =>
      by_cases hop : op = .refresh
      · subst hop
        have hl : linPoint s i = none := by simp [linPoint, htodo, hpc]
        rw [hl]
        by_cases hw : s.writer = none
        · have e : step s i = { s with readers := i :: s.readers, h := upd s.h i { s.h i with pc := .rlocked } } := by
            simp [step, stepCall, hpc, htodo, hw]
          rw [e]
          refine sim_local s _ a i _ h rfl rfl rfl ?_ ?_ ?_
          · intro _ _; exact hsn
          · intro hc; simp at hc
          · rw [hpend, pending_of_pc _ (by simp)]
        · rw [show step s i = s by simp [step, stepCall, hpc, htodo, hw]]; exact h
      · cases hprep : prepare (s.h i).snap op with
        | none =>
          have hl : linPoint s i = some ⟨i, (s.h i).path, op⟩ := by simp [linPoint, htodo, hpc, hop, hprep]
          rw [hl]
          have hfin : finish (s.h i) none = { s.h i with pc := .idle, txs := [], todo := rest, done := (s.h i).done ++ [(op, none)] } := by
            simp [finish, htodo]
          have e : step s i = { s with h := upd s.h i (finish (s.h i) none) } := by
            simp [step, stepCall, hpc, htodo, hop, hprep]
          rw [e, hfin]
          refine sim_event s _ a i _ op h (s.cur (s.h i).path) (s.h i).snap none ?_ ?_ ?_ rfl ?_ rfl ?_
          · simp [atomicOp, hop, hsn, hprep, h.cur]
          · show s.cur = upd s.cur (s.h i).path (s.cur (s.h i).path)
            funext q; by_cases hq : q = (s.h i).path <;> simp [upd, hq]
          · simp [hop]
          · simp
          · rw [hpend, pending_of_pc _ (by simp)]; simp
        | some txs =>
          have hl : linPoint s i = none := by simp [linPoint, htodo, hpc, hop, hprep]
          rw [hl]
          by_cases hlk : s.writer = none ∧ s.readers = []
          · have e : step s i = { s with writer := some i, h := upd s.h i { s.h i with pc := .locked, txs := txs } } := by
              simp [step, stepCall, hpc, htodo, hop, hprep, hlk]
            rw [e]
            refine sim_local s _ a i _ h rfl rfl rfl ?_ ?_ ?_
            · intro _ _; exact hsn
            · intro _; exact ⟨op, rest, htodo, by rw [hsn]; exact hprep⟩
            · rw [hpend, pending_of_pc _ (by simp)]
          · rw [show step s i = s by simp [step, stepCall, hpc, htodo, hop, hprep, hlk]]; exact h
  | locked =>
    have hcsi : inCS (s.h i).pc := by simp [inCS, hpc]
    have hpend : pending (s.h i) = [] := pending_of_pc _ (by simp [hpc])
    have hsn := h.snap i (by simp [hpc]) (by simp [hpc])
    obtain ⟨op, rest, htodo, hprep⟩ := h.prep i (Or.inl hpc)
    obtain ⟨op', rest', htodo', hop⟩ := hI.todoW i hcsi
    rw [htodo] at htodo'; cases htodo'
    cases happ : applyAll (s.h i).txs (s.cur (s.h i).path) with
    | none =>
      have hl : linPoint s i = some ⟨i, (s.h i).path, op⟩ := by simp [linPoint, htodo, hpc, happ]
      rw [hl]
      have e : step s i = { s with h := upd s.h i { s.h i with pc := .failed, snap := s.cur (s.h i).path } } := by
        simp [step, stepCall, hpc, happ]
      rw [e]
      refine sim_event s _ a i _ op h (s.cur (s.h i).path) (s.cur (s.h i).path) none ?_ ?_ ?_ rfl ?_ rfl ?_
      · simp [atomicOp, hop, hprep, h.cur, happ]
      · show s.cur = upd s.cur (s.h i).path (s.cur (s.h i).path)
        funext q; by_cases hq : q = (s.h i).path <;> simp [upd, hq]
      · simp [hop]
      · simp
      · rw [hpend]; simp [pending, htodo]
    | some r' =>
      have hl : linPoint s i = none := by simp [linPoint, htodo, hpc, happ]
      rw [hl]
      have e : step s i = { s with h := upd s.h i { s.h i with pc := .got, snap := s.cur (s.h i).path } } := by
        simp [step, stepCall, hpc, happ]
      rw [e]
      refine sim_local s _ a i _ h rfl rfl rfl ?_ ?_ ?_
      · intro hc; simp at hc
      · intro _; exact ⟨op, rest, htodo, hprep⟩
      · rw [hpend, pending_of_pc _ (by simp)]
  | got =>
    have hcsi : inCS (s.h i).pc := by simp [inCS, hpc]
    have hpend : pending (s.h i) = [] := pending_of_pc _ (by simp [hpc])
    obtain ⟨op, rest, htodo, hprep⟩ := h.prep i (Or.inr (Or.inl hpc))
    obtain ⟨hsnap, hsome⟩ := hI.gotOk i hpc
    have hl : linPoint s i = none := by simp [linPoint, htodo, hpc]
    rw [hl]
    cases happ : applyAll (s.h i).txs (s.h i).snap with
    | none => simp [happ] at hsome
    | some r' =>
      cases hnew : s.new (s.h i).path with
      | some x =>
        obtain ⟨j, hj1, hj2⟩ := hI.noNew (s.h i).path (by simp [hnew])
        have : inCS (s.h j).pc := by simp [inCS, hj1]
        have hji := cs_unique hI hcsi this
        subst hji
        simp [hpc] at hj1
      | none =>
        have e : step s i = { s with new := upd s.new (s.h i).path (some r'), h := upd s.h i { s.h i with pc := .put, snap := r' } } := by
          simp [step, stepCall, hpc, happ, hnew]
        rw [e]
        refine sim_local s _ a i _ h rfl rfl rfl ?_ ?_ ?_
        · intro _ hc; simp at hc
        · intro _; exact ⟨op, rest, htodo, hprep⟩
        · rw [hpend, pending_of_pc _ (by simp)]
  | put =>
    have hcsi : inCS (s.h i).pc := by simp [inCS, hpc]
    have hpend : pending (s.h i) = [] := pending_of_pc _ (by simp [hpc])
    obtain ⟨op, rest, htodo, hprep⟩ := h.prep i (Or.inr (Or.inr hpc))
    obtain ⟨op', rest', htodo', hop⟩ := hI.todoW i hcsi
    rw [htodo] at htodo'; cases htodo'
    obtain ⟨hp1, hp2⟩ := hI.putOk i hpc
    have hl : linPoint s i = some ⟨i, (s.h i).path, op⟩ := by simp [linPoint, htodo, hpc, hp1]
    rw [hl]
    have e : step s i = { s with cur := upd s.cur (s.h i).path (s.h i).snap, new := upd s.new (s.h i).path none, commits := s.commits ++ [(⟨i, (s.h i).path, (s.h i).txs⟩ : Commit)], h := upd s.h i { s.h i with pc := .renamed } } := by
      simp [step, stepCall, hpc, hp1]
    rw [e]
    refine sim_event s _ a i _ op h (s.h i).snap (s.h i).snap (some (s.h i).txs) ?_ rfl ?_ rfl ?_ rfl ?_
    · simp [atomicOp, hop, hprep, h.cur, hp2]
    · simp [hop]
    · simp
    · rw [hpend]; simp [pending, htodo]
  | renamed =>
    have hcsi : inCS (s.h i).pc := by simp [inCS, hpc]
    have hsn := h.snap i (by simp [hpc]) (by simp [hpc])
    obtain ⟨op, rest, htodo, hop⟩ := hI.todoW i hcsi
    have hl : linPoint s i = none := by simp [linPoint, htodo, hpc]
    rw [hl]
    have hfin : finish (s.h i) (some (s.h i).txs) = { s.h i with pc := .idle, txs := [], todo := rest, done := (s.h i).done ++ [(op, some (s.h i).txs)] } := by
      simp [finish, htodo]
    have e : step s i = { s with writer := none, h := upd s.h i (finish (s.h i) (some (s.h i).txs)) } := by
      simp [step, stepCall, hpc]
    rw [e, hfin]
    refine sim_local s _ a i _ h rfl rfl rfl ?_ ?_ ?_
    · intro _ _; exact hsn
    · intro hc; simp at hc
    · rw [pending_of_pc _ (by simp)]; simp [pending, htodo, hpc]
  | failed =>
    have hcsi : inCS (s.h i).pc := by simp [inCS, hpc]
    have hsn := h.snap i (by simp [hpc]) (by simp [hpc])
    obtain ⟨op, rest, htodo, hop⟩ := hI.todoW i hcsi
    have hl : linPoint s i = none := by simp [linPoint, htodo, hpc]
    rw [hl]
    have hfin : finish (s.h i) none = { s.h i with pc := .idle, txs := [], todo := rest, done := (s.h i).done ++ [(op, none)] } := by
      simp [finish, htodo]
    have e : step s i = { s with writer := none, h := upd s.h i (finish (s.h i) none) } := by
      simp [step, stepCall, hpc]
    rw [e, hfin]
    refine sim_local s _ a i _ h rfl rfl rfl ?_ ?_ ?_
    · intro _ _; exact hsn
    · intro hc; simp at hc
    · rw [pending_of_pc _ (by simp)]; simp [pending, htodo, hpc]
  | rlocked =>
    have hri : isReader (s.h i).pc := by simp [isReader, hpc]
    have hpend : pending (s.h i) = [] := pending_of_pc _ (by simp [hpc])
    obtain ⟨rest, htodo⟩ := hI.todoR i hri
    have hl : linPoint s i = some ⟨i, (s.h i).path, .refresh⟩ := by simp [linPoint, htodo, hpc]
    rw [hl]
    have e : step s i = { s with h := upd s.h i { s.h i with pc := .rgot, snap := s.cur (s.h i).path } } := by
      simp [step, stepCall, hpc]
    rw [e]
    refine sim_event s _ a i _ .refresh h (s.cur (s.h i).path) (s.cur (s.h i).path) (some []) ?_ ?_ ?_ rfl ?_ rfl ?_
    · simp [atomicOp, h.cur]
    · show s.cur = upd s.cur (s.h i).path (s.cur (s.h i).path)
      funext q; by_cases hq : q = (s.h i).path <;> simp [upd, hq]
    · simp
    · simp
    · rw [hpend]; simp [pending, htodo]
  | rgot =>
    have hri : isReader (s.h i).pc := by simp [isReader, hpc]
    have hsn := h.snap i (by simp [hpc]) (by simp [hpc])
    obtain ⟨rest, htodo⟩ := hI.todoR i hri
    have hl : linPoint s i = none := by simp [linPoint, htodo, hpc]
    rw [hl]
    have hfin : finish (s.h i) (some []) = { s.h i with pc := .idle, txs := [], todo := rest, done := (s.h i).done ++ [(.refresh, some [])] } := by
      simp [finish, htodo]
    have e : step s i = { s with readers := s.readers.erase i, h := upd s.h i (finish (s.h i) (some [])) } := by
      simp [step, stepCall, hpc]
    rw [e, hfin]
    refine sim_local s _ a i _ h rfl rfl rfl ?_ ?_ ?_
    · intro _ _; exact hsn
    · intro hc; simp at hc
    · rw [pending_of_pc _ (by simp)]; simp [pending, htodo, hpc]

theorem atomicRun_after (a : AState) (s : St) (i : Nat) : atomicRun a (linPoint s i).toList = a.after s i := by
  unfold AState.after
  cases linPoint s i <;> rfl

/-- **Refinement.** Every schedule of the concurrent model is simulated by the sequential run of its
operations in linearisation order. -/
theorem run_sim (c0 : Nat → Ring) (s : St) (a : AState) (sched : List Nat) (hI : Inv c0 s) (h : Sim s a) :
    Sim (run s sched) (atomicRun a (linTrace s sched)) := by
  induction sched generalizing s a with
  | nil => exact h
  | cons i r ih =>
    simp only [linTrace, atomicRun_append, atomicRun_after]
    exact ih _ _ (step_inv c0 s i hI) (step_sim c0 s a i hI h)

/-- the atomic store at the start -/
def AState.init (s : St) : AState := ⟨s.cur, fun i => (s.h i).snap, []⟩

end AcraModel.KeystoreSec.Conc
