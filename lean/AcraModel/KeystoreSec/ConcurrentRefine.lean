import AcraModel.KeystoreSec.ConcurrentLemmas
/-!
Refinement: the concurrent key-store model (handles as programs of back-end calls, any schedule)
refines the **atomic** key store in which every operation of a handle runs in one indivisible step.

* `atomicOp ring snap op` is the sequential meaning of one handle operation: prepare the transactions
  from the handle's snapshot, apply them to the stored ring; on success ring and snapshot become the
  new ring, on an optimistic-check failure the snapshot is refreshed and nothing is stored, an
  operation rejected during preparation changes nothing, a re-read refreshes the snapshot;
  `OpenKeyRingRW` of an existing ring loads it (success, empty transaction list). On a **missing** ring
  (`AState.exec`) `OpenKeyRingRW` creates the empty ring, every other operation fails and changes nothing.
* `linPoint s i` says whether the next step of thread `i` in state `s` is the *linearisation point* of
  its current operation (the atomic `Rename` for a successful write, the `Get` under the lock for a
  write that fails its optimistic checks, for a re-read, for an `OpenKeyRingRW` that finds its ring and
  for anything but `OpenKeyRingRW` on a missing ring; the preparation step for a rejected one).
  It is a step of the operation's own thread, between the operation's first and last step.
* `linTrace s sched` lists the operations in the order of their linearisation points.
* `Sim` relates a concurrent state to the atomic state reached by running `linTrace` sequentially.
-/
namespace AcraModel.KeystoreSec.Conc

structure Event where
  tid : Nat
  path : Nat
  op : Op
deriving DecidableEq, Repr

/-- one operation of a handle with snapshot `snap` on the stored ring `ring`, run atomically:
(stored ring afterwards, snapshot afterwards, result – `some txs` = success) -/
def atomicOp (ring snap : Ring) (op : Op) : Ring × Ring × Option (List Tx) :=
  if op = .refresh then (ring, ring, some [])
  else
    match prepare snap op with
    | none => (ring, snap, none)
    | some txs =>
      match applyAll txs ring with
      | none => (ring, ring, none)
      | some r' => (r', r', some txs)

/-- state of the atomic key store: ring files (and whether they exist), snapshot per handle, and the
log of results -/
structure AState where
  cur : Nat → Ring
  snap : Nat → Ring
  log : List (Event × Option (List Tx))
  ex : Nat → Bool

/-- one operation, atomically. Ring there: `atomicOp`. Ring missing: `OpenKeyRingRW` creates the empty
ring (and succeeds with the empty transaction list), everything else fails without any effect. -/
def AState.exec (a : AState) (e : Event) : AState :=
  if a.ex e.path then
    let r := atomicOp (a.cur e.path) (a.snap e.tid) e.op
    { a with cur := upd a.cur e.path r.1, snap := upd a.snap e.tid r.2.1, log := a.log ++ [(e, r.2.2)] }
  else if e.op = .open then
    { cur := upd a.cur e.path emptyRing, snap := upd a.snap e.tid emptyRing, log := a.log ++ [(e, some [])],
      ex := upd a.ex e.path true }
  else
    { a with log := a.log ++ [(e, none)] }

/-- the sequential run -/
def atomicRun (a : AState) (es : List Event) : AState := es.foldl AState.exec a

theorem atomicRun_append (a : AState) (x y : List Event) : atomicRun a (x ++ y) = atomicRun (atomicRun a x) y := by
  simp [atomicRun, List.foldl_append]

/-- is the next step of thread `i` the linearisation point of its current operation? -/
def linPoint (s : St) (i : Nat) : Option Event :=
  let hd := s.h i
  match hd.todo with
  | [] => none
  | op :: _ =>
    match hd.pc with
    | .idle => if op ≠ .refresh ∧ (prepare hd.snap op).isNone then some ⟨i, hd.path, op⟩ else none
    | .locked =>
      if s.ex hd.path then
        if op = .open then some ⟨i, hd.path, op⟩
        else if (applyAll hd.txs (s.cur hd.path)).isNone then some ⟨i, hd.path, op⟩ else none
      else if op = .open then none else some ⟨i, hd.path, op⟩
    | .put => if (s.new hd.path).isSome then some ⟨i, hd.path, op⟩ else none
    | .rlocked => some ⟨i, hd.path, op⟩
    | _ => none

/-- the operations of a schedule in the order of their linearisation points -/
def linTrace (s : St) : List Nat → List Event
  | [] => []
  | i :: r => (linPoint s i).toList ++ linTrace (step s i) r

/-- the result of the operation a handle has linearised but not yet returned from -/
def pending (hd : Handle) : List (Op × Option (List Tx)) :=
  match hd.todo with
  | [] => []
  | op :: _ =>
    match hd.pc with
    | .renamed => [(op, some hd.txs)]
    | .failed => [(op, none)]
    | .rgot => [(op, some [])]
    | .rfailed => [(op, none)]
    | _ => []

/-- results of thread `i` in the sequential run, in order -/
def resultsOf (log : List (Event × Option (List Tx))) (i : Nat) : List (Op × Option (List Tx)) :=
  (log.filter (·.1.tid = i)).map fun x => (x.1.op, x.2)

/-- the successful writes of the sequential run, in order, as commit records -/
def committed (log : List (Event × Option (List Tx))) : List Commit :=
  log.filterMap fun x => if x.1.op = .refresh then none else x.2.map fun t => (⟨x.1.tid, x.1.path, t⟩ : Commit)

theorem resultsOf_snoc (log : List (Event × Option (List Tx))) (e : Event) (r : Option (List Tx)) (i : Nat) :
    resultsOf (log ++ [(e, r)]) i = resultsOf log i ++ (if e.tid = i then [(e.op, r)] else []) := by
  unfold resultsOf
  by_cases h : e.tid = i <;> simp [List.filter_append, h]

theorem committed_snoc (log : List (Event × Option (List Tx))) (e : Event) (r : Option (List Tx)) :
    committed (log ++ [(e, r)]) = committed log ++
      (if e.op = .refresh then [] else match r with | none => [] | some t => [(⟨e.tid, e.path, t⟩ : Commit)]) := by
  unfold committed
  by_cases h : e.op = .refresh
  · simp [List.filterMap_append, h]
  · cases r <;> simp [List.filterMap_append, h]

/-- the simulation relation -/
structure Sim (s : St) (a : AState) : Prop where
  cur : ∀ p, a.cur p = s.cur p
  snap : ∀ i, (s.h i).pc ≠ .got → (s.h i).pc ≠ .put → a.snap i = (s.h i).snap
  prep : ∀ i, ((s.h i).pc = .locked ∨ (s.h i).pc = .got ∨ (s.h i).pc = .put) →
    ∃ op rest, (s.h i).todo = op :: rest ∧ prepare (a.snap i) op = some (s.h i).txs
  res : ∀ i, resultsOf a.log i = (s.h i).done ++ pending (s.h i)
  commits : committed a.log = s.commits
  ex : ∀ p, a.ex p = s.ex p

/-- a step that is not a linearisation point and changes neither the ring files nor the commit log -/
theorem sim_local (s s' : St) (a : AState) (i : Nat) (hd' : Handle) (h : Sim s a)
    (hc : s'.cur = s.cur) (hm : s'.commits = s.commits) (he : s'.ex = s.ex) (hh : s'.h = upd s.h i hd')
    (hsnap : hd'.pc ≠ .got → hd'.pc ≠ .put → a.snap i = hd'.snap)
    (hprep : (hd'.pc = .locked ∨ hd'.pc = .got ∨ hd'.pc = .put) →
      ∃ op rest, hd'.todo = op :: rest ∧ prepare (a.snap i) op = some hd'.txs)
    (hres : hd'.done ++ pending hd' = (s.h i).done ++ pending (s.h i)) : Sim s' a := by
  constructor
  · intro p; rw [hc]; exact h.cur p
  · intro j h1 h2
    rw [hh] at h1 h2 ⊢
    by_cases hji : j = i
    · subst hji; simp only [upd_same] at h1 h2 ⊢; exact hsnap h1 h2
    · simp only [upd, if_neg hji] at h1 h2 ⊢; exact h.snap j h1 h2
  · intro j h1
    rw [hh] at h1 ⊢
    by_cases hji : j = i
    · subst hji; simp only [upd_same] at h1 ⊢; exact hprep h1
    · simp only [upd, if_neg hji] at h1 ⊢; exact h.prep j h1
  · intro j
    rw [hh]
    by_cases hji : j = i
    · subst hji; simp only [upd_same]; rw [hres]; exact h.res j
    · simp only [upd, if_neg hji]; exact h.res j
  · rw [hm]; exact h.commits
  · intro p; rw [he]; exact h.ex p

/-- a linearisation point of thread `i`, general form: `a'` is the atomic store after the operation -/
theorem sim_event' (s s' : St) (a a' : AState) (i : Nat) (hd' : Handle) (op : Op) (h : Sim s a)
    (res : Option (List Tx))
    (hcur : ∀ p, a'.cur p = s'.cur p)
    (hex : ∀ p, a'.ex p = s'.ex p)
    (hsn : a'.snap = upd a.snap i hd'.snap)
    (hlog : a'.log = a.log ++ [(⟨i, (s.h i).path, op⟩, res)])
    (hm : s'.commits = s.commits ++
      (if op = .refresh then [] else match res with | none => [] | some t => [(⟨i, (s.h i).path, t⟩ : Commit)]))
    (hh : s'.h = upd s.h i hd')
    (hpc : hd'.pc ≠ .locked ∧ hd'.pc ≠ .got ∧ hd'.pc ≠ .put)
    (hres : hd'.done ++ pending hd' = (s.h i).done ++ pending (s.h i) ++ [(op, res)]) :
    Sim s' a' := by
  constructor
  · exact hcur
  · intro j h1 h2
    rw [hh] at h1 h2 ⊢
    rw [hsn]
    by_cases hji : j = i
    · subst hji; simp only [upd_same]
    · simp only [upd, if_neg hji] at h1 h2 ⊢; exact h.snap j h1 h2
  · intro j h1
    rw [hh] at h1 ⊢
    rw [hsn]
    by_cases hji : j = i
    · subst hji; simp only [upd_same] at h1
      rcases h1 with h1 | h1 | h1
      · exact absurd h1 hpc.1
      · exact absurd h1 hpc.2.1
      · exact absurd h1 hpc.2.2
    · simp only [upd, if_neg hji] at h1 ⊢; exact h.prep j h1
  · intro j
    rw [hh, hlog, resultsOf_snoc]
    by_cases hji : j = i
    · subst hji; simp only [upd_same, if_true]; rw [hres, h.res j]
    · simp only [upd, if_neg hji, if_neg (Ne.symm hji), List.append_nil]; exact h.res j
  · rw [hlog, committed_snoc, hm, h.commits]
  · exact hex

/-- a linearisation point of thread `i` on an existing ring: the atomic store executes the operation -/
theorem sim_event (s s' : St) (a : AState) (i : Nat) (hd' : Handle) (op : Op) (h : Sim s a)
    (r' sn' : Ring) (res : Option (List Tx))
    (hexa : s.ex (s.h i).path = true)
    (hat : atomicOp (a.cur (s.h i).path) (a.snap i) op = (r', sn', res))
    (hc : s'.cur = upd s.cur (s.h i).path r')
    (hm : s'.commits = s.commits ++
      (if op = .refresh then [] else match res with | none => [] | some t => [(⟨i, (s.h i).path, t⟩ : Commit)]))
    (he : ∀ p, s'.ex p = s.ex p)
    (hh : s'.h = upd s.h i hd')
    (hpc : hd'.pc ≠ .locked ∧ hd'.pc ≠ .got ∧ hd'.pc ≠ .put)
    (hsnap : sn' = hd'.snap)
    (hres : hd'.done ++ pending hd' = (s.h i).done ++ pending (s.h i) ++ [(op, res)]) :
    Sim s' (a.exec ⟨i, (s.h i).path, op⟩) := by
  have hea : a.ex (s.h i).path = true := by rw [h.ex]; exact hexa
  have hx : a.exec ⟨i, (s.h i).path, op⟩ =
      { a with cur := upd a.cur (s.h i).path r', snap := upd a.snap i sn', log := a.log ++ [(⟨i, (s.h i).path, op⟩, res)] } := by
    simp [AState.exec, hea, hat]
  rw [hx]
  refine sim_event' s s' a _ i hd' op h res ?_ ?_ ?_ rfl hm hh hpc hres
  · intro p
    simp only [hc]
    by_cases hp : p = (s.h i).path
    · subst hp; simp
    · simp only [upd, if_neg hp]; exact h.cur p
  · intro p; rw [he]; exact h.ex p
  · simp only [hsnap]

/-- a linearisation point of thread `i` on a missing ring, any operation but `OpenKeyRingRW`: it fails,
nothing changes -/
theorem sim_event_missing (s s' : St) (a : AState) (i : Nat) (hd' : Handle) (op : Op) (h : Sim s a)
    (hexa : s.ex (s.h i).path = false) (hop : op ≠ .open)
    (hc : s'.cur = s.cur) (hm : s'.commits = s.commits) (he : s'.ex = s.ex)
    (hh : s'.h = upd s.h i hd')
    (hpc : hd'.pc ≠ .locked ∧ hd'.pc ≠ .got ∧ hd'.pc ≠ .put)
    (hsnap : a.snap i = hd'.snap)
    (hres : hd'.done ++ pending hd' = (s.h i).done ++ pending (s.h i) ++ [(op, none)]) :
    Sim s' (a.exec ⟨i, (s.h i).path, op⟩) := by
  have hea : a.ex (s.h i).path = false := by rw [h.ex]; exact hexa
  have hx : a.exec ⟨i, (s.h i).path, op⟩ = { a with log := a.log ++ [(⟨i, (s.h i).path, op⟩, none)] } := by
    simp [AState.exec, hea, hop]
  rw [hx]
  refine sim_event' s s' a _ i hd' op h none ?_ ?_ ?_ rfl ?_ hh hpc hres
  · intro p; rw [hc]; exact h.cur p
  · intro p; rw [he]; exact h.ex p
  · funext j
    by_cases hji : j = i
    · subst hji; simp [hsnap]
    · simp [upd, hji]
  · rw [hm]; by_cases hr : op = .refresh <;> simp [hr]

/-- the linearisation point of a creating `OpenKeyRingRW`: the rename of the empty ring -/
theorem sim_event_create (s s' : St) (a : AState) (i : Nat) (hd' : Handle) (h : Sim s a)
    (hexa : s.ex (s.h i).path = false)
    (hc : s'.cur = upd s.cur (s.h i).path emptyRing)
    (hm : s'.commits = s.commits ++ [(⟨i, (s.h i).path, []⟩ : Commit)])
    (he : s'.ex = upd s.ex (s.h i).path true)
    (hh : s'.h = upd s.h i hd')
    (hpc : hd'.pc ≠ .locked ∧ hd'.pc ≠ .got ∧ hd'.pc ≠ .put)
    (hsnap : hd'.snap = emptyRing)
    (hres : hd'.done ++ pending hd' = (s.h i).done ++ pending (s.h i) ++ [(.open, some [])]) :
    Sim s' (a.exec ⟨i, (s.h i).path, .open⟩) := by
  have hea : a.ex (s.h i).path = false := by rw [h.ex]; exact hexa
  have hx : a.exec ⟨i, (s.h i).path, .open⟩ =
      { cur := upd a.cur (s.h i).path emptyRing, snap := upd a.snap i emptyRing,
        log := a.log ++ [(⟨i, (s.h i).path, .open⟩, some [])], ex := upd a.ex (s.h i).path true } := by
    simp [AState.exec, hea]
  rw [hx]
  refine sim_event' s s' a _ i hd' .open h (some []) ?_ ?_ ?_ rfl ?_ hh hpc hres
  · intro p
    simp only [hc]
    by_cases hp : p = (s.h i).path
    · subst hp; simp
    · simp only [upd, if_neg hp]; exact h.cur p
  · intro p
    simp only [he]
    by_cases hp : p = (s.h i).path
    · subst hp; simp
    · simp only [upd, if_neg hp]; exact h.ex p
  · simp only [hsnap]
  · rw [hm]; simp

theorem pending_of_pc (hd : Handle) (h : hd.pc ≠ .renamed ∧ hd.pc ≠ .failed ∧ hd.pc ≠ .rgot ∧ hd.pc ≠ .rfailed) : pending hd = [] := by
  unfold pending
  split
  · rfl
  · split <;> simp_all

/-- the atomic state after the step of thread `i` -/
def AState.after (a : AState) (s : St) (i : Nat) : AState :=
  match linPoint s i with
  | none => a
  | some e => a.exec e

/-- **Every step of every thread is simulated by the atomic store** (zero or one atomic operation). -/
theorem step_sim (c0 : Nat → Ring) (s : St) (a : AState) (i : Nat) (hI : Inv c0 s) (h : Sim s a) :
    Sim (step s i) (a.after s i) := by
  unfold AState.after
  have updSelf : ∀ (q : Nat), s.cur = upd s.cur q (s.cur q) := by
    intro q; funext q'; by_cases hq : q' = q <;> simp [upd, hq]
  cases hpc : (s.h i).pc with
  | idle =>
    have hpend : pending (s.h i) = [] := pending_of_pc _ (by simp [hpc])
    have hsn := h.snap i (by simp [hpc]) (by simp [hpc])
    cases htodo : (s.h i).todo with
    | nil =>
      rw [show step s i = s by simp [step, stepCall, hpc, htodo], show linPoint s i = none by simp [linPoint, htodo]]
      exact h
    | cons op rest =>
      by_cases hop : op = .refresh
      · subst hop
        have hl : linPoint s i = none := by simp [linPoint, htodo, hpc]
        rw [hl]
        by_cases hw : s.writer = none
        · have e : step s i = { s with readers := i :: s.readers, h := upd s.h i { s.h i with pc := .rlocked } } := by
            simp [step, stepCall, hpc, htodo, hw]
          rw [e]
          refine sim_local s _ a i _ h rfl rfl rfl rfl ?_ ?_ ?_
          · intro _ _; exact hsn
          · intro hc; simp at hc
          · rw [hpend, pending_of_pc _ (by simp)]
        · rw [show step s i = s by simp [step, stepCall, hpc, htodo, hw]]; exact h
      · cases hprep : prepare (s.h i).snap op with
        | none =>
          have hl : linPoint s i = some ⟨i, (s.h i).path, op⟩ := by simp [linPoint, htodo, hpc, hop, hprep]
          rw [hl]
          have hfin : finish (s.h i) none = { s.h i with pc := .idle, txs := [], todo := rest, done := (s.h i).done ++ [(op, none)] } := by
            simp [finish, htodo]
          have e : step s i = { s with h := upd s.h i (finish (s.h i) none) } := by
            simp [step, stepCall, hpc, htodo, hop, hprep]
          rw [e, hfin]
          by_cases hex : s.ex (s.h i).path = true
          · refine sim_event s _ a i _ op h (s.cur (s.h i).path) (s.h i).snap none hex ?_ ?_ ?_ (fun _ => rfl) rfl ?_ rfl ?_
            · simp [atomicOp, hop, hsn, hprep, h.cur]
            · exact updSelf _
            · simp [hop]
            · simp
            · rw [hpend, pending_of_pc _ (by simp)]; simp
          · have hex' : s.ex (s.h i).path = false := by simpa using hex
            have hno : op ≠ .open := by intro e'; subst e'; simp [prepare] at hprep
            refine sim_event_missing s _ a i _ op h hex' hno rfl rfl rfl rfl ?_ hsn ?_
            · simp
            · rw [hpend, pending_of_pc _ (by simp)]; simp
        | some txs =>
          have hl : linPoint s i = none := by simp [linPoint, htodo, hpc, hop, hprep]
          rw [hl]
          by_cases hlk : s.writer = none ∧ s.readers = []
          · have e : step s i = { s with writer := some i, h := upd s.h i { s.h i with pc := .locked, txs := txs } } := by
              simp [step, stepCall, hpc, htodo, hop, hprep, hlk]
            rw [e]
            refine sim_local s _ a i _ h rfl rfl rfl rfl ?_ ?_ ?_
            · intro _ _; exact hsn
            · intro _; exact ⟨op, rest, htodo, by rw [hsn]; exact hprep⟩
            · rw [hpend, pending_of_pc _ (by simp)]
          · rw [show step s i = s by simp [step, stepCall, hpc, htodo, hop, hprep, hlk]]; exact h
  | locked =>
    have hcsi : inCS (s.h i).pc := by simp [inCS, hpc]
    have hpend : pending (s.h i) = [] := pending_of_pc _ (by simp [hpc])
    have hsn := h.snap i (by simp [hpc]) (by simp [hpc])
    obtain ⟨op, rest, htodo, hprep⟩ := h.prep i (Or.inl hpc)
    obtain ⟨op', rest', htodo', hop⟩ := hI.todoW i hcsi
    rw [htodo] at htodo'; cases htodo'
    by_cases hex : s.ex (s.h i).path = true
    · by_cases hopen : op = .open
      · subst hopen
        have hl : linPoint s i = some ⟨i, (s.h i).path, .open⟩ := by simp [linPoint, htodo, hpc, hex]
        rw [hl]
        have e : step s i = { s with commits := s.commits ++ [(⟨i, (s.h i).path, []⟩ : Commit)], h := upd s.h i { s.h i with pc := .renamed, snap := s.cur (s.h i).path, txs := [] } } := by
          simp [step, stepCall, hpc, htodo, hex]
        rw [e]
        refine sim_event s _ a i _ .open h (s.cur (s.h i).path) (s.cur (s.h i).path) (some []) hex ?_ ?_ ?_ (fun _ => rfl) rfl ?_ rfl ?_
        · simp [atomicOp, prepare, applyAll, h.cur]
        · exact updSelf _
        · simp
        · simp
        · rw [hpend]; simp [pending, htodo]
      · cases happ : applyAll (s.h i).txs (s.cur (s.h i).path) with
        | none =>
          have hl : linPoint s i = some ⟨i, (s.h i).path, op⟩ := by simp [linPoint, htodo, hpc, hex, hopen, happ]
          rw [hl]
          have e : step s i = { s with h := upd s.h i { s.h i with pc := .failed, snap := s.cur (s.h i).path } } := by
            simp [step, stepCall, hpc, htodo, hex, hopen, happ]
          rw [e]
          refine sim_event s _ a i _ op h (s.cur (s.h i).path) (s.cur (s.h i).path) none hex ?_ ?_ ?_ (fun _ => rfl) rfl ?_ rfl ?_
          · simp [atomicOp, hop, hprep, h.cur, happ]
          · exact updSelf _
          · simp [hop]
          · simp
          · rw [hpend]; simp [pending, htodo]
        | some r' =>
          have hl : linPoint s i = none := by simp [linPoint, htodo, hpc, hex, hopen, happ]
          rw [hl]
          have e : step s i = { s with h := upd s.h i { s.h i with pc := .got, snap := s.cur (s.h i).path } } := by
            simp [step, stepCall, hpc, htodo, hex, hopen, happ]
          rw [e]
          refine sim_local s _ a i _ h rfl rfl rfl rfl ?_ ?_ ?_
          · intro hc; simp at hc
          · intro _; exact ⟨op, rest, htodo, hprep⟩
          · rw [hpend, pending_of_pc _ (by simp)]
    · have hex' : s.ex (s.h i).path = false := by simpa using hex
      by_cases hopen : op = .open
      · subst hopen
        have hl : linPoint s i = none := by simp [linPoint, htodo, hpc, hex']
        rw [hl]
        have e : step s i = { s with h := upd s.h i { s.h i with pc := .got, snap := emptyRing, txs := [] } } := by
          simp [step, stepCall, hpc, htodo, hex']
        rw [e]
        refine sim_local s _ a i _ h rfl rfl rfl rfl ?_ ?_ ?_
        · intro hc; simp at hc
        · intro _; exact ⟨.open, rest, htodo, by simp [prepare]⟩
        · rw [hpend, pending_of_pc _ (by simp)]
      · have hl : linPoint s i = some ⟨i, (s.h i).path, op⟩ := by simp [linPoint, htodo, hpc, hex', hopen]
        rw [hl]
        have e : step s i = { s with h := upd s.h i { s.h i with pc := .failed } } := by
          simp [step, stepCall, hpc, htodo, hex', hopen]
        rw [e]
        refine sim_event_missing s _ a i _ op h hex' hopen rfl rfl rfl rfl ?_ hsn ?_
        · simp
        · rw [hpend]; simp [pending, htodo]
  | got =>
    have hcsi : inCS (s.h i).pc := by simp [inCS, hpc]
    have hpend : pending (s.h i) = [] := pending_of_pc _ (by simp [hpc])
    obtain ⟨op, rest, htodo, hprep⟩ := h.prep i (Or.inr (Or.inl hpc))
    obtain ⟨hsnap, hsome⟩ := hI.gotOk i hpc
    have hl : linPoint s i = none := by simp [linPoint, htodo, hpc]
    rw [hl]
    cases happ : applyAll (s.h i).txs (s.h i).snap with
    | none => simp [happ] at hsome
    | some r' =>
      cases hnew : s.new (s.h i).path with
      | some x =>
        obtain ⟨j, hj1, hj2⟩ := hI.noNew (s.h i).path (by simp [hnew])
        have : inCS (s.h j).pc := by simp [inCS, hj1]
        have hji := cs_unique hI hcsi this
        subst hji
        simp [hpc] at hj1
      | none =>
        have e : step s i = { s with new := upd s.new (s.h i).path (some r'), h := upd s.h i { s.h i with pc := .put, snap := r' } } := by
          simp [step, stepCall, hpc, happ, hnew]
        rw [e]
        refine sim_local s _ a i _ h rfl rfl rfl rfl ?_ ?_ ?_
        · intro _ hc; simp at hc
        · intro _; exact ⟨op, rest, htodo, hprep⟩
        · rw [hpend, pending_of_pc _ (by simp)]
  | put =>
    have hcsi : inCS (s.h i).pc := by simp [inCS, hpc]
    have hpend : pending (s.h i) = [] := pending_of_pc _ (by simp [hpc])
    obtain ⟨op, rest, htodo, hprep⟩ := h.prep i (Or.inr (Or.inr hpc))
    obtain ⟨op', rest', htodo', hop⟩ := hI.todoW i hcsi
    rw [htodo] at htodo'; cases htodo'
    obtain ⟨hp1, hp2⟩ := hI.putOk i hpc
    have hl : linPoint s i = some ⟨i, (s.h i).path, op⟩ := by simp [linPoint, htodo, hpc, hp1]
    rw [hl]
    have e : step s i = { s with cur := upd s.cur (s.h i).path (s.h i).snap, new := upd s.new (s.h i).path none, commits := s.commits ++ [(⟨i, (s.h i).path, (s.h i).txs⟩ : Commit)], ex := upd s.ex (s.h i).path true, h := upd s.h i { s.h i with pc := .renamed } } := by
      simp [step, stepCall, hpc, hp1]
    rw [e]
    by_cases hex : s.ex (s.h i).path = true
    · refine sim_event s _ a i _ op h (s.h i).snap (s.h i).snap (some (s.h i).txs) hex ?_ rfl ?_ ?_ rfl ?_ rfl ?_
      · simp [atomicOp, hop, hprep, h.cur, hp2]
      · simp [hop]
      · intro q
        by_cases hq : q = (s.h i).path
        · subst hq; simp [hex]
        · simp [upd, hq]
      · simp
      · rw [hpend]; simp [pending, htodo, hpc]
    · have hex' : s.ex (s.h i).path = false := by simpa using hex
      obtain ⟨hc1, hc2⟩ := hI.crt i (Or.inr hpc)
      obtain ⟨rest2, htodo2⟩ := hc1.mp hex'
      rw [htodo] at htodo2; cases htodo2
      have htx : (s.h i).txs = [] := hc2 hex'
      have hsnapE : (s.h i).snap = emptyRing := by
        rw [htx] at hp2
        simp only [applyAll, Option.some.injEq] at hp2
        rw [← hp2]; exact (hI.miss _ hex').1
      refine sim_event_create s _ a i _ h hex' ?_ ?_ rfl rfl ?_ ?_ ?_
      · show upd s.cur (s.h i).path (s.h i).snap = upd s.cur (s.h i).path emptyRing
        rw [hsnapE]
      · show s.commits ++ [(⟨i, (s.h i).path, (s.h i).txs⟩ : Commit)] = s.commits ++ [(⟨i, (s.h i).path, []⟩ : Commit)]
        rw [htx]
      · simp
      · exact hsnapE
      · rw [hpend]; simp [pending, htodo, hpc, htx]
  | renamed =>
    have hcsi : inCS (s.h i).pc := by simp [inCS, hpc]
    have hsn := h.snap i (by simp [hpc]) (by simp [hpc])
    obtain ⟨op, rest, htodo, hop⟩ := hI.todoW i hcsi
    have hl : linPoint s i = none := by simp [linPoint, htodo, hpc]
    rw [hl]
    have hfin : finish (s.h i) (some (s.h i).txs) = { s.h i with pc := .idle, txs := [], todo := rest, done := (s.h i).done ++ [(op, some (s.h i).txs)] } := by
      simp [finish, htodo]
    have e : step s i = { s with writer := none, h := upd s.h i (finish (s.h i) (some (s.h i).txs)) } := by
      simp [step, stepCall, hpc]
    rw [e, hfin]
    refine sim_local s _ a i _ h rfl rfl rfl rfl ?_ ?_ ?_
    · intro _ _; exact hsn
    · intro hc; simp at hc
    · rw [pending_of_pc _ (by simp)]; simp [pending, htodo, hpc]
  | failed =>
    have hcsi : inCS (s.h i).pc := by simp [inCS, hpc]
    have hsn := h.snap i (by simp [hpc]) (by simp [hpc])
    obtain ⟨op, rest, htodo, hop⟩ := hI.todoW i hcsi
    have hl : linPoint s i = none := by simp [linPoint, htodo, hpc]
    rw [hl]
    have hfin : finish (s.h i) none = { s.h i with pc := .idle, txs := [], todo := rest, done := (s.h i).done ++ [(op, none)] } := by
      simp [finish, htodo]
    have e : step s i = { s with writer := none, h := upd s.h i (finish (s.h i) none) } := by
      simp [step, stepCall, hpc]
    rw [e, hfin]
    refine sim_local s _ a i _ h rfl rfl rfl rfl ?_ ?_ ?_
    · intro _ _; exact hsn
    · intro hc; simp at hc
    · rw [pending_of_pc _ (by simp)]; simp [pending, htodo, hpc]
  | rlocked =>
    have hri : isReader (s.h i).pc := by simp [isReader, hpc]
    have hpend : pending (s.h i) = [] := pending_of_pc _ (by simp [hpc])
    have hsn := h.snap i (by simp [hpc]) (by simp [hpc])
    obtain ⟨rest, htodo⟩ := hI.todoR i hri
    have hl : linPoint s i = some ⟨i, (s.h i).path, .refresh⟩ := by simp [linPoint, htodo, hpc]
    rw [hl]
    by_cases hex : s.ex (s.h i).path = true
    · have e : step s i = { s with h := upd s.h i { s.h i with pc := .rgot, snap := s.cur (s.h i).path } } := by
        simp [step, stepCall, hpc, hex]
      rw [e]
      refine sim_event s _ a i _ .refresh h (s.cur (s.h i).path) (s.cur (s.h i).path) (some []) hex ?_ ?_ ?_ (fun _ => rfl) rfl ?_ rfl ?_
      · simp [atomicOp, h.cur]
      · exact updSelf _
      · simp
      · simp
      · rw [hpend]; simp [pending, htodo]
    · have hex' : s.ex (s.h i).path = false := by simpa using hex
      have e : step s i = { s with h := upd s.h i { s.h i with pc := .rfailed } } := by
        simp [step, stepCall, hpc, hex']
      rw [e]
      refine sim_event_missing s _ a i _ .refresh h hex' (by simp) rfl rfl rfl rfl ?_ hsn ?_
      · simp
      · rw [hpend]; simp [pending, htodo]
  | rgot =>
    have hri : isReader (s.h i).pc := by simp [isReader, hpc]
    have hsn := h.snap i (by simp [hpc]) (by simp [hpc])
    obtain ⟨rest, htodo⟩ := hI.todoR i hri
    have hl : linPoint s i = none := by simp [linPoint, htodo, hpc]
    rw [hl]
    have hfin : finish (s.h i) (some []) = { s.h i with pc := .idle, txs := [], todo := rest, done := (s.h i).done ++ [(.refresh, some [])] } := by
      simp [finish, htodo]
    have e : step s i = { s with readers := s.readers.erase i, h := upd s.h i (finish (s.h i) (some [])) } := by
      simp [step, stepCall, hpc]
    rw [e, hfin]
    refine sim_local s _ a i _ h rfl rfl rfl rfl ?_ ?_ ?_
    · intro _ _; exact hsn
    · intro hc; simp at hc
    · rw [pending_of_pc _ (by simp)]; simp [pending, htodo, hpc]
  | rfailed =>
    have hri : isReader (s.h i).pc := by simp [isReader, hpc]
    have hsn := h.snap i (by simp [hpc]) (by simp [hpc])
    obtain ⟨rest, htodo⟩ := hI.todoR i hri
    have hl : linPoint s i = none := by simp [linPoint, htodo, hpc]
    rw [hl]
    have hfin : finish (s.h i) none = { s.h i with pc := .idle, txs := [], todo := rest, done := (s.h i).done ++ [(.refresh, none)] } := by
      simp [finish, htodo]
    have e : step s i = { s with readers := s.readers.erase i, h := upd s.h i (finish (s.h i) none) } := by
      simp [step, stepCall, hpc]
    rw [e, hfin]
    refine sim_local s _ a i _ h rfl rfl rfl rfl ?_ ?_ ?_
    · intro _ _; exact hsn
    · intro hc; simp at hc
    · rw [pending_of_pc _ (by simp)]; simp [pending, htodo, hpc]

theorem atomicRun_after (a : AState) (s : St) (i : Nat) : atomicRun a (linPoint s i).toList = a.after s i := by
  unfold AState.after
  cases linPoint s i <;> rfl

/-- **Refinement.** Every schedule of the concurrent model is simulated by the sequential run of its
operations in linearisation order. -/
theorem run_sim (c0 : Nat → Ring) (s : St) (a : AState) (sched : List Nat) (hI : Inv c0 s) (h : Sim s a) :
    Sim (run s sched) (atomicRun a (linTrace s sched)) := by
  induction sched generalizing s a with
  | nil => exact h
  | cons i r ih =>
    simp only [linTrace, atomicRun_append, atomicRun_after]
    exact ih _ _ (step_inv c0 s i hI) (step_sim c0 s a i hI h)

/-- the atomic store at the start -/
def AState.init (s : St) : AState := ⟨s.cur, fun i => (s.h i).snap, [], s.ex⟩

end AcraModel.KeystoreSec.Conc
