import AcraModel.KeystoreSec.Export
/-!
# DER encoding of the key-store structures (`keystore/v2/keystore/asn1/asn1.go` through Go's
`encoding/asn1.Marshal`)

Exactly the subset Go produces for these types: definite minimal lengths, INTEGER (the named
`Enumerated`-derived types `ContentType`, `KeyState`, `KeyFormat` are marshalled as INTEGER by Go's
reflection rules), OCTET STRING, UTCTime, OBJECT IDENTIFIER, SEQUENCE, SET OF (elements sorted by
their encodings, `slices.SortFunc(l, bytes.Compare)`), implicit context tags `[1] [2] [3]` for the
optional key-data fields (omitted when empty).

Validated byte for byte against `asn1.Marshal` by the ops `C07.der.*`.
-/
namespace AcraModel.KeystoreSec.Der
open AcraModel.KeystoreSec.Export

/-- minimal big-endian base-256 digits of a positive number (`[]` for 0) -/
def natBE : Nat → Bytes
  | n => if h : n = 0 then [] else natBE (n / 256) ++ [UInt8.ofNat (n % 256)]
decreasing_by omega

def derLen (n : Nat) : Bytes :=
  if n < 128 then [UInt8.ofNat n] else
    let b := natBE n
    UInt8.ofNat (128 + b.length) :: b

def tlv (tag : UInt8) (content : Bytes) : Bytes := tag :: derLen content.length ++ content

/-- two's-complement minimal content octets of an INTEGER -/
def intContent (i : Int) : Bytes :=
  match i with
  | .ofNat n =>
    let b := natBE n
    match b with
    | [] => [0]
    | x :: _ => if x.toNat ≥ 128 then 0 :: b else b
  | .negSucc n =>
    -- value = -(n+1); find the smallest k with n < 2^(8k-1): content = big-endian of 2^(8k) - (n+1) on k bytes
    let rec width (k : Nat) (fuel : Nat) : Nat :=
      match fuel with
      | 0 => k
      | fuel + 1 => if n < 2 ^ (8 * k - 1) then k else width (k + 1) fuel
    let k := width 1 16
    beBytes k (2 ^ (8 * k) - (n + 1))

def derInt (i : Int) : Bytes := tlv 0x02 (intContent i)
def derOctets (b : Bytes) : Bytes := tlv 0x04 b
def derSeq (parts : List Bytes) : Bytes := tlv 0x30 parts.flatten

/-- lexicographic order on byte strings (`bytes.Compare a b <= 0`) -/
def bytesLe : Bytes → Bytes → Bool
  | [], _ => true
  | _ :: _, [] => false
  | a :: as, b :: bs => if a < b then true else if b < a then false else bytesLe as bs

def insertSorted (x : Bytes) : List Bytes → List Bytes
  | [] => [x]
  | y :: r => if bytesLe x y then x :: y :: r else y :: insertSorted x r

def sortEnc (xs : List Bytes) : List Bytes := xs.foldr insertSorted []

/-- SET OF: elements sorted by encoding -/
def derSetOf (parts : List Bytes) : Bytes := tlv 0x31 (sortEnc parts).flatten

/-- base-128 encoding of one OID arc -/
def base128 (n : Nat) : Bytes :=
  let rec go (n : Nat) (fuel : Nat) (acc : Bytes) : Bytes :=
    match fuel with
    | 0 => acc
    | fuel + 1 => if n = 0 then acc else go (n / 128) fuel (UInt8.ofNat (128 + n % 128) :: acc)
  go (n / 128) 10 [UInt8.ofNat (n % 128)]

def derOID (arcs : List Nat) : Bytes :=
  match arcs with
  | a :: b :: rest => tlv 0x06 (base128 (40 * a + b) ++ (rest.map base128).flatten)
  | _ => tlv 0x06 []

/-! ### UTCTime -/

def twoDigits (n : Nat) : Bytes := [UInt8.ofNat (48 + n / 10 % 10), UInt8.ofNat (48 + n % 10)]

/-- civil date from days since 1970-01-01 (Hinnant's algorithm), for non-negative day counts -/
def civil (days : Nat) : Nat × Nat × Nat :=
  let z := days + 719468
  let era := z / 146097
  let doe := z - era * 146097
  let yoe := (doe - doe / 1460 + doe / 36524 - doe / 146096) / 365
  let y := yoe + era * 400
  let doy := doe - (365 * yoe + yoe / 4 - yoe / 100)
  let mp := (5 * doy + 2) / 153
  let d := doy - (153 * mp + 2) / 5 + 1
  let m := if mp < 10 then mp + 3 else mp - 9
  (if m ≤ 2 then y + 1 else y, m, d)

/-- `YYMMDDhhmmssZ` of a UTC time given in Unix seconds (years 1970–2049) -/
def utcTime (secs : Int) : Bytes :=
  let s := secs.toNat
  let (y, m, d) := civil (s / 86400)
  let r := s % 86400
  tlv 0x17 (twoDigits (y % 100) ++ twoDigits m ++ twoDigits d ++ twoDigits (r / 3600) ++ twoDigits (r / 60 % 60) ++ twoDigits (r % 60) ++ [90])

/-! ### the key-store structures -/

def optField (tag : UInt8) (b : Bytes) : Bytes := if b = [] then [] else tlv tag b

def derKeyData (d : KeyData) : Bytes :=
  derSeq [derInt d.format, optField 0x81 d.pub, optField 0x82 d.priv, optField 0x83 d.sym]

def derKey (k : Key) : Bytes :=
  derSeq [derInt k.seq, derInt k.state, utcTime k.since, utcTime k.until_, derSetOf (k.data.map derKeyData)]

def derRing (r : Ring) : Bytes :=
  derSeq [derOctets r.purpose, derSeq (r.keys.map derKey), derInt r.current]

/-- `EncryptedKeys.Marshal` -/
def derEncryptedKeys (rs : List Ring) : Bytes := derSeq [derSetOf (rs.map derRing)]

def typeKeyRing : Int := 1
def typeEncryptedKeys : Int := 4
def keyRingVersion2 : Int := 2

/-- `SignedPayload.Marshal` with `Data` already encoded -/
def derPayload (ctype : Int) (time : Int) (dataEnc : Bytes) : Bytes :=
  derSeq [derInt ctype, derInt keyRingVersion2, utcTime time, dataEnc]

def derSig (oid : List Nat) (sig : Bytes) : Bytes := derSeq [derOID oid, derOctets sig]

/-- `SignedContainer.Marshal`: the payload bytes followed by the SET OF signatures -/
def derContainer (ct : Notary.Container) : Bytes :=
  tlv 0x30 (ct.raw ++ derSetOf (ct.sigs.map fun s => derSig s.oid s.sig))

/-- the order in which a SET OF comes back after a round trip: sorted by encoding -/
def sortBy {α} (enc : α → Bytes) (xs : List α) : List α :=
  xs.foldr (fun x acc =>
    let rec ins : List α → List α
      | [] => [x]
      | y :: r => if bytesLe (enc x) (enc y) then x :: y :: r else y :: ins r
    ins acc) []

end AcraModel.KeystoreSec.Der
