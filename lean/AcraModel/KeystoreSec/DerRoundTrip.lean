import AcraModel.KeystoreSec.RingOpenLemmas
/-!
# Reading back what the key store writes

`DerParse` (Go's reader) applied to `Der` (Go's `asn1.Marshal` for the key-store types): an element written
by `tlv` is read back as header, content, rest (`takeTLV_tlv`), for contents below 2³¹ bytes – the range in
which Go's `parseTagAndLength` accepts a length; the container the notary writes for a well-formed payload
parses to that payload and that signature (`parseContainer_sign`); the ring file of `signKeyRing` loads
(`loadBytes_signedFile`).
-/
namespace AcraModel.KeystoreSec.DerParse
open AcraModel.KeystoreSec

theorem u8_toNat (n : Nat) (h : n < 256) : (UInt8.ofNat n).toNat = n := by
  simp [UInt8.toNat_ofNat']; omega

theorem natBE_zero : Der.natBE 0 = [] := by
  rw [Der.natBE]; simp

theorem natBE_pos (n : Nat) (h : 0 < n) : Der.natBE n = Der.natBE (n / 256) ++ [UInt8.ofNat (n % 256)] := by
  rw [Der.natBE]
  have : n ≠ 0 := by omega
  simp [this]

theorem natBE_length_le : ∀ (m n : Nat), n < 256 ^ m → (Der.natBE n).length ≤ m
  | 0, n, h => by
    have : n = 0 := by simpa using h
    subst this; simp [natBE_zero]
  | m + 1, n, h => by
    by_cases h0 : n = 0
    · subst h0; simp [natBE_zero]
    · rw [natBE_pos n (by omega)]
      have : n / 256 < 256 ^ m := by
        rw [Nat.pow_succ] at h
        exact Nat.div_lt_of_lt_mul (by rw [Nat.mul_comm]; exact h)
      have := natBE_length_le m (n / 256) this
      simp; omega

set_option maxRecDepth 100000 in
/-- one more length octet at the end -/
theorem lenOctets_snoc : ∀ (ds : Bytes) (acc : Nat) (d : UInt8) (rest : Bytes) (v : Nat),
    lenOctets ds.length acc (ds ++ d :: rest) = some (v, d :: rest) → v < 8388608 → v * 256 + d.toNat ≠ 0 →
    lenOctets (ds.length + 1) acc (ds ++ d :: rest) = some (v * 256 + d.toNat, rest)
  | [], acc, d, rest, v, h, hv, hz => by
    simp only [List.length_nil, List.nil_append, lenOctets, Option.some.injEq, Prod.mk.injEq, and_true] at h
    subst h
    simp only [List.length_nil, List.nil_append, Nat.zero_add, lenOctets]
    rw [if_neg (by omega), if_neg hz]
  | x :: ds, acc, d, rest, v, h, hv, hz => by
    simp only [List.length_cons, List.cons_append, lenOctets] at h ⊢
    by_cases ha : acc ≥ 8388608
    · rw [if_pos ha] at h; cases h
    · rw [if_neg ha] at h ⊢
      by_cases h0 : acc * 256 + x.toNat = 0
      · rw [if_pos h0] at h; cases h
      · rw [if_neg h0] at h ⊢
        exact lenOctets_snoc ds _ d rest v h hv hz

set_option maxRecDepth 100000 in
theorem lenOctets_natBE : ∀ (n : Nat), 0 < n → n < 2147483648 → ∀ rest : Bytes,
    lenOctets (Der.natBE n).length 0 (Der.natBE n ++ rest) = some (n, rest) := by
  intro n
  induction n using Nat.strongRecOn with
  | ind n ih =>
    intro hpos hlt rest
    rw [natBE_pos n hpos]
    have hd : (UInt8.ofNat (n % 256)).toNat = n % 256 := u8_toNat _ (Nat.mod_lt _ (by decide))
    have hsplit : n / 256 * 256 + n % 256 = n := by omega
    by_cases hq : n / 256 = 0
    · rw [hq, natBE_zero]
      simp only [List.nil_append, List.length_cons, List.length_nil, Nat.zero_add, lenOctets, List.cons_append]
      rw [if_neg (by omega)]
      have : 0 * 256 + (UInt8.ofNat (n % 256)).toNat = n := by rw [hd]; omega
      rw [this, if_neg (by omega)]
    · have hq' : 0 < n / 256 := by omega
      have := ih (n / 256) (by omega) hq' (by omega) (UInt8.ofNat (n % 256) :: rest)
      have hs := lenOctets_snoc (Der.natBE (n / 256)) 0 (UInt8.ofNat (n % 256)) rest (n / 256) this (by omega) (by rw [hd]; omega)
      simp only [List.length_append, List.length_cons, List.length_nil, Nat.zero_add, List.append_assoc, List.cons_append, List.nil_append]
      rw [hs, hd, hsplit]

/-- header of an element written with a single-byte tag -/
def hdrOf (tag : UInt8) (n : Nat) : Hdr := ⟨tag.toNat / 64, tag.toNat / 32 % 2 = 1, tag.toNat % 32, n⟩

theorem parseHdr_derLen (tag : UInt8) (n : Nat) (tail : Bytes) (ht : tag.toNat % 32 ≠ 31) (hn : n < 2147483648) :
    parseHdr (tag :: (Der.derLen n ++ tail)) = some (hdrOf tag n, tail) := by
  unfold parseHdr
  simp only [ht, if_false, Option.bind_some]
  unfold Der.derLen
  by_cases hs : n < 128
  · rw [if_pos hs]
    simp only [List.cons_append, List.nil_append]
    have : (UInt8.ofNat n).toNat = n := u8_toNat n (by omega)
    simp only [this, hs, if_true, hdrOf]
  · rw [if_neg hs]
    simp only [List.cons_append]
    have hk : (Der.natBE n).length ≤ 4 := natBE_length_le 4 n (by omega)
    have hk0 : (Der.natBE n).length ≠ 0 := by
      rw [natBE_pos n (by omega)]; simp
    have hb : (UInt8.ofNat (128 + (Der.natBE n).length)).toNat = 128 + (Der.natBE n).length := u8_toNat _ (by omega)
    simp only [hb]
    rw [if_neg (by omega)]
    have hm : (128 + (Der.natBE n).length) % 128 = (Der.natBE n).length := by omega
    simp only [hm]
    rw [if_neg hk0, lenOctets_natBE n (by omega) hn tail]
    simp only [Option.bind_some]
    rw [if_neg hs]
    rfl

/-- **An element written by `tlv` is read back**: header, content, and the bytes that follow. -/
theorem takeTLV_tlv (tag : UInt8) (content rest : Bytes) (ht : tag.toNat % 32 ≠ 31) (hn : content.length < 2147483648) :
    takeTLV (Der.tlv tag content ++ rest) = some (hdrOf tag content.length, content, rest) := by
  unfold takeTLV Der.tlv
  have : tag :: Der.derLen content.length ++ content ++ rest = tag :: (Der.derLen content.length ++ (content ++ rest)) := by simp
  rw [this, parseHdr_derLen tag content.length (content ++ rest) ht hn]
  simp [hdrOf]

theorem tlv_length_le (tag : UInt8) (content : Bytes) (hn : content.length < 2147483648) :
    (Der.tlv tag content).length ≤ content.length + 6 := by
  unfold Der.tlv Der.derLen
  have hk : (Der.natBE content.length).length ≤ 4 := natBE_length_le 4 _ (by omega)
  split <;> simp <;> omega

/-! ## the container the notary writes -/

/-- content octets of `asn1.Sha256OID` -/
def shaOidBytes : Bytes := [0x60, 0x86, 0x48, 0x01, 0x65, 0x03, 0x04, 0x02, 0x01]

theorem derOID_sha : Der.derOID Notary.sha256OID = Der.tlv 0x06 shaOidBytes := by decide

theorem parseOID_sha : parseOID shaOidBytes = some Notary.sha256OID := by decide

theorem isUniv_hdrOf (tag : UInt8) (n : Nat) (compound : Bool) (t : Nat)
    (h : (hdrOf tag 0).isUniv compound t = true) : (hdrOf tag n).isUniv compound t = true := h

theorem sortEnc_single (x : Bytes) : Der.sortEnc [x] = [x] := by
  simp [Der.sortEnc, Der.insertSorted]

/-- a signature element with the SHA-256 algorithm reads back (content of the element) -/
theorem parseSig_sha (sig : Bytes) (hs : sig.length < 16777216) :
    parseSig (Der.derOID Notary.sha256OID ++ (Der.derOctets sig ++ [])) = some ⟨Notary.sha256OID, sig⟩ := by
  unfold parseSig
  rw [derOID_sha, takeTLV_tlv 0x06 shaOidBytes _ (by decide) (by decide)]
  simp only [Option.bind_some]
  rw [if_neg (by decide), parseOID_sha]
  simp only [Option.bind_some]
  unfold Der.derOctets
  rw [takeTLV_tlv 0x04 sig [] (by decide) (by omega)]
  simp only [Option.bind_some]
  rw [if_neg (by simp [Hdr.isUniv, hdrOf])]

theorem derSig_eq (oid : List Nat) (sig : Bytes) :
    Der.derSig oid sig = Der.tlv 0x30 (Der.derOID oid ++ (Der.derOctets sig ++ [])) := by
  simp [Der.derSig, Der.derSeq]

/-- the signature set of a container signed with SHA-256 reads back -/
theorem parseSigs_sha (sig : Bytes) (hs : sig.length < 16777216) :
    parseSigs (Der.derSig Notary.sha256OID sig).length (Der.derSig Notary.sha256OID sig) = some [⟨Notary.sha256OID, sig⟩] := by
  rw [derSig_eq]
  generalize hC : Der.derOID Notary.sha256OID ++ (Der.derOctets sig ++ []) = C
  have hClen : C.length < 2147483648 := by
    rw [← hC, derOID_sha]
    have h1 := tlv_length_le 0x06 shaOidBytes (by decide)
    have h2 := tlv_length_le 0x04 sig (by omega)
    have h3 : shaOidBytes.length = 9 := by decide
    simp only [List.length_append, List.length_nil, Der.derOctets]
    omega
  have hcons : Der.tlv 0x30 C = 0x30 :: (Der.derLen C.length ++ C) := rfl
  have htake : takeTLV (0x30 :: (Der.derLen C.length ++ C)) = some (hdrOf 0x30 C.length, C, []) := by
    have := takeTLV_tlv 0x30 C [] (by decide) hClen
    rw [List.append_nil, hcons] at this
    exact this
  rw [hcons]
  simp only [List.length_cons, parseSigs, htake, Option.bind_some]
  rw [if_neg (by simp [Hdr.isUniv, hdrOf]), ← hC, parseSig_sha sig hs]
  cases (Der.derLen (Der.derOID Notary.sha256OID ++ (Der.derOctets sig ++ [])).length ++
      (Der.derOID Notary.sha256OID ++ (Der.derOctets sig ++ []))).length <;> simp [parseSigs]

/-- **The container the notary writes parses back**: for a payload element `raw = tlv 0x30 pc` whose
fields read as `pl`, `derContainer (sign …)` parses to exactly `raw`, `pl` and the one signature. -/
theorem parseContainer_sign (c : CryptoOps) (key ctx pc : Bytes) (pl : Payload)
    (hpl : parsePayload pc = some pl) (hpc : pc.length < 16777216)
    (hsig : (Notary.signBytes c key ctx (Der.tlv 0x30 pc)).length < 16777216) :
    parseContainer (Der.derContainer (Notary.sign c key ctx (Der.tlv 0x30 pc))) =
      some ⟨Der.tlv 0x30 pc, pl, (Notary.sign c key ctx (Der.tlv 0x30 pc)).sigs⟩ := by
  generalize hsg : Notary.signBytes c key ctx (Der.tlv 0x30 pc) = sig at hsig
  have hsign : Notary.sign c key ctx (Der.tlv 0x30 pc) = ⟨Der.tlv 0x30 pc, [⟨Notary.sha256OID, sig⟩]⟩ := by
    simp [Notary.sign, hsg]
  rw [hsign]
  unfold Der.derContainer Der.derSetOf
  simp only [List.map_cons, List.map_nil, sortEnc_single, List.flatten_cons, List.flatten_nil, List.append_nil]
  generalize hE : Der.derSig Notary.sha256OID sig = E
  have hrawlen : (Der.tlv 0x30 pc).length ≤ pc.length + 6 := tlv_length_le _ _ (by omega)
  have hEle : E.length ≤ sig.length + 40 := by
    rw [← hE, derSig_eq, derOID_sha]
    unfold Der.derOctets
    have h1 := tlv_length_le 0x06 shaOidBytes (by decide)
    have h2 := tlv_length_le 0x04 sig (by omega)
    have h3 : shaOidBytes.length = 9 := by decide
    have hin : (Der.tlv 0x06 shaOidBytes ++ (Der.tlv 0x04 sig ++ [])).length ≤ sig.length + 21 := by
      simp only [List.length_append, List.length_nil]; omega
    have h4 := tlv_length_le 0x30 (Der.tlv 0x06 shaOidBytes ++ (Der.tlv 0x04 sig ++ [])) (by omega)
    omega
  have hElen : E.length < 2147483648 := by omega
  have hSlen := tlv_length_le 0x31 E hElen
  unfold parseContainer
  have h0 := takeTLV_tlv 0x30 (Der.tlv 0x30 pc ++ Der.tlv 0x31 E) [] (by decide) (by simp only [List.length_append]; omega)
  rw [List.append_nil] at h0
  rw [h0]
  simp only [Option.bind_some]
  rw [if_neg (by simp [Hdr.isUniv, hdrOf])]
  simp only [ne_eq, not_true_eq_false, if_false]
  rw [takeTLV_tlv 0x30 pc (Der.tlv 0x31 E) (by decide) (by omega)]
  simp only [Option.bind_some]
  rw [if_neg (by simp [Hdr.isUniv, hdrOf]), hpl]
  simp only [Option.bind_some]
  have h1 := takeTLV_tlv 0x31 E [] (by decide) hElen
  rw [List.append_nil] at h1
  rw [h1]
  simp only [Option.bind_some]
  rw [if_neg (by simp [Hdr.isUniv, hdrOf]), ← hE, parseSigs_sha sig hsig]
  simp

/-! ## the ring file of `signKeyRing` -/

theorem tlv_content_le (tag : UInt8) (content : Bytes) : content.length ≤ (Der.tlv tag content).length := by
  unfold Der.tlv; simp; omega

theorem derInt_one : Der.derInt 1 = Der.tlv 0x02 [1] := by
  have h1 : Der.natBE 1 = [1] := by rw [natBE_pos 1 (by decide)]; simp [natBE_zero]
  show Der.tlv 0x02 (Der.intContent (Int.ofNat 1)) = _
  simp [Der.intContent, h1]

theorem derInt_two : Der.derInt 2 = Der.tlv 0x02 [2] := by
  have h1 : Der.natBE 2 = [2] := by rw [natBE_pos 2 (by decide)]; simp [natBE_zero]
  show Der.tlv 0x02 (Der.intContent (Int.ofNat 2)) = _
  simp [Der.intContent, h1]

theorem utcTime_shape (t : Int) : ∃ X : Bytes, Der.utcTime t = Der.tlv 0x17 X ∧ X.length = 13 := by
  unfold Der.utcTime
  simp only
  exact ⟨_, rfl, by simp [Der.twoDigits]⟩

/-- the fields of the payload `signKeyRing` writes read back: key-ring type, version 2, the ring -/
theorem parsePayload_ring (time : Int) (r : Export.Ring) (hr : (Der.derRing r).length < 8388608) :
    ∃ pc, WriteLog.ringPayload time r = Der.tlv 0x30 pc ∧ pc.length ≤ (Der.derRing r).length + 40 ∧
      parsePayload pc = some ⟨1, 2, Der.derRing r⟩ := by
  obtain ⟨X, hX, hXl⟩ := utcTime_shape time
  have hring : ∃ Y, Der.derRing r = Der.tlv 0x30 Y := ⟨_, rfl⟩
  obtain ⟨Y, hY⟩ := hring
  have hYl : Y.length < 8388608 := by
    have := tlv_content_le 0x30 Y
    rw [← hY] at this; omega
  refine ⟨Der.tlv 0x02 [1] ++ (Der.tlv 0x02 [2] ++ (Der.tlv 0x17 X ++ (Der.derRing r ++ []))), ?_, ?_, ?_⟩
  · simp [WriteLog.ringPayload, Der.derPayload, Der.derSeq, Der.typeKeyRing, Der.keyRingVersion2, derInt_one, derInt_two, hX]
  · have h1 := tlv_length_le 0x02 [1] (by decide)
    have h2 := tlv_length_le 0x02 [2] (by decide)
    have h3 := tlv_length_le 0x17 X (by omega)
    simp only [List.length_append, List.length_nil, List.length_cons] at h1 h2 ⊢
    omega
  · unfold parsePayload
    rw [takeTLV_tlv 0x02 [1] _ (by decide) (by decide)]
    simp only [Option.bind_some]
    rw [if_neg (by decide)]
    have hi1 : parseInt64 [1] = some 1 := by decide
    rw [hi1]
    simp only [Option.bind_some]
    rw [takeTLV_tlv 0x02 [2] _ (by decide) (by decide)]
    simp only [Option.bind_some]
    rw [if_neg (by decide)]
    have hi2 : parseInt64 [2] = some 2 := by decide
    rw [hi2]
    simp only [Option.bind_some]
    rw [takeTLV_tlv 0x17 X _ (by decide) (by omega)]
    simp only [Option.bind_some]
    rw [if_neg (by simp [Hdr.isUniv, hdrOf])]
    rw [hY, takeTLV_tlv 0x30 Y [] (by decide) (by omega)]
    simp

end AcraModel.KeystoreSec.DerParse

namespace AcraModel.KeystoreSec.RingOpen
open AcraModel.KeystoreSec AcraModel.KeystoreSec.Export AcraModel.KeystoreSec.DerParse

/-- the ring file `signKeyRing` writes parses to its payload and its one signature -/
theorem parse_signedFile (c : CryptoOps) (sigKey path : Bytes) (time : Int) (r : Ring)
    (hr : (Der.derRing r).length < 8388608)
    (hsig : (Notary.signBytes c sigKey (sigCtx path) (WriteLog.ringPayload time r)).length < 16777216) :
    parseContainer (signedFile c sigKey path time r) =
      some ⟨WriteLog.ringPayload time r, ⟨1, 2, Der.derRing r⟩,
        (Notary.sign c sigKey (sigCtx path) (WriteLog.ringPayload time r)).sigs⟩ := by
  obtain ⟨pc, hpc, hlen, hpl⟩ := parsePayload_ring time r hr
  unfold signedFile
  rw [hpc] at hsig ⊢
  exact parseContainer_sign c sigKey (sigCtx path) pc _ hpl (by omega) hsig

/-- **An untouched ring file loads at its own path**: what `signKeyRing` wrote for ring path `path` passes
`verifyKeyRing` for `path` and yields the ring's data element. -/
theorem loadBytes_signedFile (c : CryptoOps) (sigKey path : Bytes) (time : Int) (r : Ring)
    (hr : (Der.derRing r).length < 8388608)
    (hsig : (Notary.signBytes c sigKey (sigCtx path) (WriteLog.ringPayload time r)).length < 16777216) :
    loadBytes c sigKey path (signedFile c sigKey path time r) = .ok (Der.derRing r) := by
  unfold loadBytes
  rw [parse_signedFile c sigKey path time r hr hsig]
  simp only
  have hv : verifySignatures c sigKey (sigCtx path)
      (Parsed.container ⟨WriteLog.ringPayload time r, ⟨1, 2, Der.derRing r⟩,
        (Notary.sign c sigKey (sigCtx path) (WriteLog.ringPayload time r)).sigs⟩) = .ok () := by
    rw [verifySignatures_ok_iff]
    exact Notary.verify_sign c sigKey (sigCtx path) (WriteLog.ringPayload time r)
  rw [hv]
  simp only
  rw [if_neg (by decide), if_neg (by decide)]

end AcraModel.KeystoreSec.RingOpen
