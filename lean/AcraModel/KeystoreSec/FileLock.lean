import AcraModel.Generated.FileLock
/-!
# Life cycle of the directory back end's lock file (`<key directory>/.lock`)

Model of `keystore/v2/keystore/filesystem/backend/file_lock.go` and of the parts of `filesystem.go`
that create, use and close the lock (`CreateDirectoryBackend`, `OpenDirectoryBackend`,
`DirectoryBackend.{Lock, Unlock, RLock, RUnlock, Close}`), at the granularity of the system calls that
matter for exclusion. The concurrency model (`KeystoreSec/Concurrent.lean`) treats "the lock of the back
end" as ONE abstract object (`St.writer`, `St.readers`). What the operating system locks, however, is an
**inode**: `flock(2)` excludes open file descriptions of the same file, and which file a handle's
descriptor refers to is decided at the moment the handle is opened – by what the path `.lock` names then.

* The directory holds at most one file named `.lock` (`LState.path`: the inode the name refers to now,
  `none` = no such file). Inodes are identities of file objects: a fresh one for every file created, never
  re-used (the harness pins every inode it has seen, so that inode *numbers* are not re-used either).
* **open** (`newFileLock` = `os.Create(path)` = `OpenFile(path, O_RDWR|O_CREATE|O_TRUNC, 0666)`; called once by
  each constructor of `DirectoryBackend`, with `filepath.Join(root, lockFile)`): the new handle's descriptor
  refers to the inode the path names; when the path names nothing a new file (fresh inode) is created first.
* **close** (`fileLock.Close` = `l.lockFile.Close()`; reached through `KeyStore.Close` → `DirectoryBackend.Close`):
  the open file description goes away and with it any `flock` it holds. Whether the close *also unlinks the
  path* is the parameter `cu` of `lstep`; for the code as it is, it is `closeUnlinks`, computed from the
  regenerated list of calls `fileLock.Close` makes.
* **Lock / RLock** are two steps, as coded: `enter` = `l.lockSync.Lock()` (the per-handle mutex that keeps
  goroutines sharing one handle from converting each other's `flock`), then `acquire` = `syscall.Flock(fd,
  LOCK_EX | LOCK_SH)` returns – possible only when no *other* open file description of the **same inode**
  holds a conflicting lock.
* **Unlock / RUnlock** = `release`: `syscall.Flock(fd, LOCK_UN)`, deferred `l.lockSync.Unlock()`.

Not modelled: poisoning and recovery (`poisonLock` / `recoverLock` – reached only when `flock(fd, LOCK_UN)`
on a valid descriptor fails, which Linux does not do); errors of `open(2)`; somebody outside Acra removing or
replacing `.lock`; closing a handle while one of its goroutines is still inside a locked section is modelled
as the system does it (the lock is gone), the theorems then speak about the handles that still hold a lock.
-/
namespace AcraModel.KeystoreSec.FileLock

/-- `LOCK_SH` / `LOCK_EX` -/
inductive Mode where
  | sh | ex
deriving DecidableEq, Repr

/-- library calls after which the path no longer names the inode it named before -/
def unlinkCalls : List String :=
  ["os.Remove", "os.RemoveAll", "os.Rename", "syscall.Unlink", "syscall.Unlinkat", "syscall.Rename",
   "syscall.Renameat", "syscall.Rmdir", "unix.Unlink", "unix.Unlinkat", "unix.Rename", "unix.Renameat"]

def callsUnlink (calls : List String) : Bool := calls.any fun c => unlinkCalls.contains c

/-- does closing a handle, as it is in the source now, unlink the lock file? Computed from the regenerated
lists of calls made on the way down: `KeyStore.Close` → `DirectoryBackend.Close` → `fileLock.Close`
(`Props.C17.fact_filelock_close` pins the lists themselves). -/
def closeUnlinks : Bool :=
  callsUnlink Generated.FileLock.fileLockCloseCalls || callsUnlink Generated.FileLock.backendCloseCalls ||
  callsUnlink Generated.FileLock.keyStoreCloseCalls

/-- one `fileLock` object (= one `DirectoryBackend` = one key-store handle) -/
structure LHandle where
  /-- the inode `lockFile` refers to (fixed when the handle is opened) -/
  ino : Nat
  /-- `lockFile` not yet closed -/
  isOpen : Bool
  /-- `lockSync` is held -/
  mutex : Bool
  /-- inside `Lock()` / `RLock()`: the mutex is taken, `flock(2)` has not returned yet -/
  want : Option Mode
  /-- the `flock` this open file description holds -/
  held : Option Mode
deriving DecidableEq, Repr

def closedHandle : LHandle := ⟨0, false, false, none, none⟩

structure LState where
  /-- the inode `<dir>/.lock` names now -/
  path : Option Nat
  /-- next fresh inode -/
  next : Nat
  /-- number of handles opened so far (handle ids are `0 … n-1`, in the order of opening) -/
  n : Nat
  h : Nat → LHandle

inductive LOp where
  /-- `CreateDirectoryBackend` / `OpenDirectoryBackend` → `newFileLock(filepath.Join(root, lockFile))` -/
  | openH
  /-- `KeyStore.Close` → `DirectoryBackend.Close` → `fileLock.Close` -/
  | closeH (i : Nat)
  /-- `Lock()` / `RLock()` up to and including `l.lockSync.Lock()` -/
  | enter (i : Nat) (m : Mode)
  /-- `syscall.Flock(fd, LOCK_EX | LOCK_SH)` returns -/
  | acquire (i : Nat)
  /-- `Unlock()` / `RUnlock()` -/
  | release (i : Nat)
deriving DecidableEq, Repr

def upd {α} (f : Nat → α) (i : Nat) (v : α) : Nat → α := fun j => if j = i then v else f j

@[simp] theorem upd_same {α} (f : Nat → α) (i : Nat) (v : α) : upd f i v i = v := by simp [upd]
theorem upd_other {α} (f : Nat → α) (i j : Nat) (v : α) (h : j ≠ i) : upd f i v j = f j := by simp [upd, h]

/-- `flock(2)`: may a lock of mode `m` be granted next to a lock `o` held through another open file
description of the same file? -/
def compat : Mode → Option Mode → Bool
  | _, none => true
  | .sh, some .sh => true
  | _, _ => false

/-- `flock(fd_i, m)` returns (rather than blocks): every other open file description **of the same inode**
holds a compatible lock or none -/
def canFlock (s : LState) (i : Nat) (m : Mode) : Bool :=
  (List.range s.n).all fun j => j == i || (s.h j).ino != (s.h i).ino || compat m (s.h j).held

/-- one step; `cu` = "close also unlinks the path". An operation that is not possible in the state (a blocked
`flock`, a busy mutex, a handle that does not exist or is closed) leaves the state unchanged. -/
def lstep (cu : Bool) (s : LState) : LOp → LState
  | .openH =>
    match s.path with
    | some p => { s with n := s.n + 1, h := upd s.h s.n ⟨p, true, false, none, none⟩ }
    | none => { s with path := some s.next, next := s.next + 1, n := s.n + 1,
                       h := upd s.h s.n ⟨s.next, true, false, none, none⟩ }
  | .closeH i =>
    let hd := s.h i
    -- `l.lockFile.Close()`: the open file description and its flock go away (an error on a second Close)
    let s1 := if hd.isOpen then { s with h := upd s.h i { hd with isOpen := false, want := none, held := none } } else s
    -- the unlinking variant: `os.Remove(l.path)` – whatever the path names now
    if cu ∧ i < s.n then { s1 with path := none } else s1
  | .enter i m =>
    let hd := s.h i
    if hd.isOpen ∧ hd.mutex = false then { s with h := upd s.h i { hd with mutex := true, want := some m } } else s
  | .acquire i =>
    let hd := s.h i
    match hd.want with
    | some m =>
      if hd.isOpen ∧ canFlock s i m then { s with h := upd s.h i { hd with want := none, held := some m } } else s
    | none => s
  | .release i =>
    let hd := s.h i
    if hd.isOpen ∧ hd.held ≠ none then { s with h := upd s.h i { hd with held := none, mutex := false } } else s

def lrun (cu : Bool) (s : LState) (ops : List LOp) : LState := ops.foldl (lstep cu) s

/-- a key directory nobody has opened yet; `.lock` may or may not be there already -/
def linit (p : Option Nat) : LState :=
  ⟨p, match p with | some k => k + 1 | none => 0, 0, fun _ => closedHandle⟩

/-! ## the abstract lock the concurrency model consults -/

/-- the lock of `KeystoreSec/Concurrent.lean`: `St.writer` and (as a membership predicate) `St.readers` -/
structure ALock where
  writer : Option Nat
  reader : Nat → Bool

def ALock.free : ALock := ⟨none, fun _ => false⟩

/-- the moves of the abstract lock – exactly the enabling conditions of `Conc.stepCall`: the exclusive lock
is granted when there is neither a writer nor a reader, the shared lock when there is no writer -/
inductive AStep (a b : ALock) : Prop where
  | stutter (hw : b.writer = a.writer) (hr : ∀ j, b.reader j = a.reader j)
  | lock (i : Nat) (pre1 : a.writer = none) (pre2 : ∀ j, a.reader j = false)
      (hw : b.writer = some i) (hr : ∀ j, b.reader j = a.reader j)
  | unlock (i : Nat) (pre : a.writer = some i) (hw : b.writer = none) (hr : ∀ j, b.reader j = a.reader j)
  | rlock (i : Nat) (pre : a.writer = none) (hw : b.writer = a.writer)
      (hr : ∀ j, b.reader j = if j = i then true else a.reader j)
  | runlock (i : Nat) (pre : a.reader i = true) (hw : b.writer = a.writer)
      (hr : ∀ j, b.reader j = if j = i then false else a.reader j)

/-- reachable by moves of the abstract lock -/
inductive AReach (a : ALock) : ALock → Prop where
  | refl : AReach a a
  | step {b c : ALock} : AReach a b → AStep b c → AReach a c

/-- the abstraction: the writer is the handle whose open file description holds `LOCK_EX`, the readers are
the handles holding `LOCK_SH` -/
def Abs (s : LState) (a : ALock) : Prop :=
  (∀ i, a.writer = some i ↔ (s.h i).held = some .ex) ∧ (∀ i, a.reader i = true ↔ (s.h i).held = some .sh)

/-! ## executable helpers for the driver -/

/-- inode classes in order of first appearance (the canonical form both sides print) -/
def classes (xs : List Nat) : List Nat :=
  let rec go (seen : List Nat) : List Nat → List Nat
    | [] => []
    | x :: rest =>
      match seen.idxOf? x with
      | some k => k :: go seen rest
      | none => seen.length :: go (seen ++ [x]) rest
  go [] xs

end AcraModel.KeystoreSec.FileLock
