import AcraModel.KeystoreSec.V1Names
/-!
Lemmas about the v1 file names: what `keystore.ValidateID` guarantees, which names are (not)
historical / public / private, path components of the names the key store builds.
-/
namespace AcraModel.KeystoreSec.V1
open AcraModel.KeystoreSec.Path

/-! ## suffixes -/

theorem hasSuffix_append (a suf : Bytes) : hasSuffix (a ++ suf) suf = true := by
  simp only [hasSuffix, List.isSuffixOf_iff_suffix]
  exact List.suffix_append a suf

theorem dropSuffix_append (a suf : Bytes) : dropSuffix (a ++ suf) suf = a := by
  simp [dropSuffix]

theorem trimSuffix_append (a suf : Bytes) : trimSuffix (a ++ suf) suf = a := by
  simp [trimSuffix, hasSuffix_append, dropSuffix_append]

/-- a string with a given suffix ends with the suffix's last byte -/
theorem hasSuffix_getLast {s suf : Bytes} {c : UInt8} (h : hasSuffix s suf = true) (hc : suf.getLast? = some c) :
    s.getLast? = some c := by
  simp only [hasSuffix, List.isSuffixOf_iff_suffix] at h
  obtain ⟨t, rfl⟩ := h
  cases suf with
  | nil => simp at hc
  | cons x r => rw [List.getLast?_append]; simp [hc]

theorem getLast_append_singleton (a : Bytes) (c : UInt8) : (a ++ [c]).getLast? = some c := by simp

/-! ## `filepath.Base` keeps the last byte -/

theorem base_append_last (q : Bytes) (c : UInt8) (hc : c ≠ slash) : ∃ x, base (q ++ [c]) = x ++ [c] := by
  unfold base
  have hne : q ++ [c] ≠ [] := by simp
  rw [if_neg hne]
  have hs : stripTrailingSlashes (q ++ [c]) = q ++ [c] := by
    simp [stripTrailingSlashes, List.reverse_append, List.dropWhile_cons, hc]
  have ha : afterLastSlash (q ++ [c]) = (q.reverse.takeWhile (· ≠ slash)).reverse ++ [c] := by
    simp [afterLastSlash, List.reverse_append, List.takeWhile_cons, hc]
  simp only [hs, ha]
  refine ⟨(q.reverse.takeWhile (· ≠ slash)).reverse, ?_⟩
  simp

/-- a name without separator is its own base -/
theorem base_noslash (p : Bytes) (hne : p ≠ []) (hs : slash ∉ p) : base p = p := by
  unfold base
  rw [if_neg hne]
  have h1 : ∀ l : Bytes, slash ∉ l → l.takeWhile (· ≠ slash) = l := by
    intro l hl
    induction l with
    | nil => rfl
    | cons x r ih =>
      have hx : x ≠ slash := fun e => hl (by simp [e])
      simp only [List.takeWhile_cons, hx, ne_eq, not_false_eq_true, decide_true, if_true]
      rw [ih (fun hm => hl (List.mem_cons_of_mem _ hm))]
  have hr : slash ∉ p.reverse := by simpa using hs
  have hd : p.reverse.dropWhile (· = slash) = p.reverse := by
    cases hp : p.reverse with
    | nil => rfl
    | cons x r =>
      have hx : x ≠ slash := fun e => hr (by rw [hp]; simp [e])
      simp [List.dropWhile_cons, hx]
  simp only [stripTrailingSlashes, afterLastSlash, hd, List.reverse_reverse, h1 _ hr]
  simp [hne]

/-! ## timestamps -/

theorem isTimestamp_chars {b : Bytes} (h : isTimestamp b = true) : ∀ c ∈ b, tsChar c = true := by
  simp only [isTimestamp, Bool.and_eq_true, List.all_eq_true] at h
  exact h.1

/-- a name whose last byte cannot occur in a timestamp is not a rotated-key name -/
theorem not_isHistorical_of_last (q : Bytes) (c : UInt8) (hc : c ≠ slash) (ht : tsChar c = false) :
    isHistorical (q ++ [c]) = false := by
  unfold isHistorical
  obtain ⟨x, hx⟩ := base_append_last q c hc
  rw [hx]
  cases h : isTimestamp (x ++ [c]) with
  | false => rfl
  | true =>
    have := isTimestamp_chars h c (by simp)
    rw [ht] at this
    cases this

/-! ## public names are not private -/

theorem isPrivate_pub (a : Bytes) : isPrivate (a ++ sPub) = false := by
  have hsplit : a ++ sPub = (a ++ [46, 112, 117]) ++ [98] := by simp [sPub, ofStr]
  have hh : isHistorical (a ++ sPub) = false := by
    rw [hsplit]
    exact not_isHistorical_of_last _ 98 (by decide) (by decide)
  have hpoison : a ++ sPub ≠ poisonKey := by
    intro e
    have h1 : (a ++ sPub).getLast? = some 98 := by rw [hsplit]; simp
    rw [e] at h1
    revert h1
    decide
  unfold isPrivate
  simp only [hh, Bool.false_eq_true, if_false, hpoison]
  simp [isPublic, hasSuffix_append]

/-! ## what `ValidateID` guarantees -/

theorem validateID_chars {id : Bytes} (h : validateID id = true) : ∀ c ∈ id, validChar c = true := by
  simp only [validateID, Bool.and_eq_true, List.all_eq_true] at h
  exact h.2

theorem validateID_len {id : Bytes} (h : validateID id = true) : 5 ≤ id.length ∧ id.length ≤ 256 := by
  simp only [validateID, Bool.and_eq_true, minClientIDLength, maxClientIDLength] at h
  exact ⟨of_decide_eq_true h.1.1, of_decide_eq_true h.1.2⟩

theorem validChar_ne_slash {c : UInt8} (h : validChar c = true) : c ≠ slash := by
  intro e; subst e; revert h; decide

theorem validChar_ne_dot {c : UInt8} (h : validChar c = true) : c ≠ dot := by
  intro e; subst e; revert h; decide

theorem validateID_noslash {id : Bytes} (h : validateID id = true) : slash ∉ id :=
  fun hm => validChar_ne_slash (validateID_chars h _ hm) rfl

/-- a valid id followed by a separator-free suffix is one ordinary path component -/
theorem goodComp_valid_append {id : Bytes} (h : validateID id = true) (suf : Bytes) (hs : slash ∉ suf) :
    GoodComp (id ++ suf) := by
  have hl := (validateID_len h).1
  refine ⟨?_, ?_, ?_, ?_⟩
  · intro e
    have := congrArg List.length e
    simp only [List.length_append, List.length_cons, List.length_nil] at this; omega
  · intro e
    have := congrArg List.length e
    simp only [List.length_append, List.length_cons, List.length_nil] at this; omega
  · intro e
    have := congrArg List.length e
    simp only [dd, List.length_append, List.length_cons, List.length_nil] at this; omega
  · intro hm
    rcases List.mem_append.mp hm with hm | hm
    · exact validateID_noslash h hm
    · exact hs hm

theorem splitSlash_noslash_eq (p : Bytes) (h : slash ∉ p) : splitSlash p = [p] := by
  induction p with
  | nil => rfl
  | cons c r ih =>
    have hc : c ≠ slash := fun e => h (by simp [e])
    have hr : slash ∉ r := fun hm => h (List.mem_cons_of_mem _ hm)
    unfold splitSlash
    rw [if_neg hc, ih hr]

/-- decidable form of `GoodComp` -/
def goodCompB (c : Bytes) : Bool := decide (c ≠ []) && decide (c ≠ [dot]) && decide (c ≠ dd) && !c.contains slash

theorem goodCompB_sound {c : Bytes} (h : goodCompB c = true) : GoodComp c := by
  simp only [goodCompB, Bool.and_eq_true, decide_eq_true_eq, Bool.not_eq_true', List.contains_eq_mem,
    decide_eq_false_iff_not] at h
  exact ⟨h.1.1.1, h.1.1.2, h.1.2, h.2⟩

theorem splitSlash_all_good {p : Bytes} (h : (splitSlash p).all goodCompB = true) : ∀ comp ∈ splitSlash p, GoodComp comp := by
  intro comp hc
  exact goodCompB_sound (List.all_eq_true.mp h comp hc)

/-- the key store's own file names consist of ordinary components -/
theorem global_names_good :
    ([logKey, logKey ++ sPub, poisonKey, poisonKey ++ sPub, poisonSym, poisonSym ++ sPub].all
      fun f => (splitSlash f).all goodCompB) = true := by decide

end AcraModel.KeystoreSec.V1
