import AcraModel.KeystoreSec.V1Names
/-!
Lemmas about the v1 file names: what `keystore.ValidateID` guarantees, which names are (not)
historical / public / private, path components of the names the key store builds.
-/
namespace AcraModel.KeystoreSec.V1
open AcraModel.KeystoreSec.Path

/-! ## suffixes -/

theorem hasSuffix_append (a suf : Bytes) : hasSuffix (a ++ suf) suf = true := by
  simp only [hasSuffix, List.isSuffixOf_iff_suffix]
  exact List.suffix_append a suf

theorem dropSuffix_append (a suf : Bytes) : dropSuffix (a ++ suf) suf = a := by
  simp [dropSuffix]

theorem trimSuffix_append (a suf : Bytes) : trimSuffix (a ++ suf) suf = a := by
  simp [trimSuffix, hasSuffix_append, dropSuffix_append]

/-- a string with a given suffix ends with the suffix's last byte -/
theorem hasSuffix_getLast {s suf : Bytes} {c : UInt8} (h : hasSuffix s suf = true) (hc : suf.getLast? = some c) :
    s.getLast? = some c := by
  simp only [hasSuffix, List.isSuffixOf_iff_suffix] at h
  obtain ⟨t, rfl⟩ := h
  cases suf with
  | nil => simp at hc
  | cons x r => rw [List.getLast?_append]; simp [hc]

theorem getLast_append_singleton (a : Bytes) (c : UInt8) : (a ++ [c]).getLast? = some c := by simp

/-! ## `filepath.Base` keeps the last byte -/

theorem base_append_last (q : Bytes) (c : UInt8) (hc : c ≠ slash) : ∃ x, base (q ++ [c]) = x ++ [c] := by
  unfold base
  have hne : q ++ [c] ≠ [] := by simp
  rw [if_neg hne]
  have hs : stripTrailingSlashes (q ++ [c]) = q ++ [c] := by
    simp [stripTrailingSlashes, List.reverse_append, List.dropWhile_cons, hc]
  have ha : afterLastSlash (q ++ [c]) = (q.reverse.takeWhile (· ≠ slash)).reverse ++ [c] := by
    simp [afterLastSlash, List.reverse_append, List.takeWhile_cons, hc]
  simp only [hs, ha]
  refine ⟨(q.reverse.takeWhile (· ≠ slash)).reverse, ?_⟩
  simp

/-- a name without separator is its own base -/
theorem base_noslash (p : Bytes) (hne : p ≠ []) (hs : slash ∉ p) : base p = p := by
  unfold base
  rw [if_neg hne]
  have h1 : ∀ l : Bytes, slash ∉ l → l.takeWhile (· ≠ slash) = l := by
    intro l hl
    induction l with
    | nil => rfl
    | cons x r ih =>
      have hx : x ≠ slash := fun e => hl (by simp [e])
      simp only [List.takeWhile_cons, hx, ne_eq, not_false_eq_true, decide_true, if_true]
      rw [ih (fun hm => hl (List.mem_cons_of_mem _ hm))]
  have hr : slash ∉ p.reverse := by simpa using hs
  have hd : p.reverse.dropWhile (· = slash) = p.reverse := by
    cases hp : p.reverse with
    | nil => rfl
    | cons x r =>
      have hx : x ≠ slash := fun e => hr (by rw [hp]; simp [e])
      simp [List.dropWhile_cons, hx]
  simp only [stripTrailingSlashes, afterLastSlash, hd, List.reverse_reverse, h1 _ hr]
  simp [hne]

/-! ## timestamps -/

theorem isTimestamp_chars {b : Bytes} (h : isTimestamp b = true) : ∀ c ∈ b, tsChar c = true := by
  simp only [isTimestamp, Bool.and_eq_true, List.all_eq_true] at h
  exact h.1

/-- a name whose last byte cannot occur in a timestamp is not a rotated-key name -/
theorem not_isHistorical_of_last (q : Bytes) (c : UInt8) (hc : c ≠ slash) (ht : tsChar c = false) :
    isHistorical (q ++ [c]) = false := by
  unfold isHistorical
  obtain ⟨x, hx⟩ := base_append_last q c hc
  rw [hx]
  cases h : isTimestamp (x ++ [c]) with
  | false => rfl
  | true =>
    have := isTimestamp_chars h c (by simp)
    rw [ht] at this
    cases this

/-! ## public names are not private -/

theorem isPrivate_pub (a : Bytes) : isPrivate (a ++ sPub) = false := by
  have hsplit : a ++ sPub = (a ++ [46, 112, 117]) ++ [98] := by simp [sPub, ofStr]
  have hh : isHistorical (a ++ sPub) = false := by
    rw [hsplit]
    exact not_isHistorical_of_last _ 98 (by decide) (by decide)
  have hpoison : a ++ sPub ≠ poisonKey := by
    intro e
    have h1 : (a ++ sPub).getLast? = some 98 := by rw [hsplit]; simp
    rw [e] at h1
    revert h1
    decide
  unfold isPrivate
  simp only [hh, Bool.false_eq_true, if_false, hpoison]
  simp [isPublic, hasSuffix_append]

/-! ## what `ValidateID` guarantees -/

theorem validateID_chars {id : Bytes} (h : validateID id = true) : ∀ c ∈ id, validChar c = true := by
  simp only [validateID, Bool.and_eq_true, List.all_eq_true] at h
  exact h.2

theorem validateID_len {id : Bytes} (h : validateID id = true) : 5 ≤ id.length ∧ id.length ≤ 256 := by
  simp only [validateID, Bool.and_eq_true, minClientIDLength, maxClientIDLength] at h
  exact ⟨of_decide_eq_true h.1.1, of_decide_eq_true h.1.2⟩

theorem validChar_ne_slash {c : UInt8} (h : validChar c = true) : c ≠ slash := by
  intro e; subst e; revert h; decide

theorem validChar_ne_dot {c : UInt8} (h : validChar c = true) : c ≠ dot := by
  intro e; subst e; revert h; decide

theorem validateID_noslash {id : Bytes} (h : validateID id = true) : slash ∉ id :=
  fun hm => validChar_ne_slash (validateID_chars h _ hm) rfl

/-- a valid id followed by a separator-free suffix is one ordinary path component -/
theorem goodComp_valid_append {id : Bytes} (h : validateID id = true) (suf : Bytes) (hs : slash ∉ suf) :
    GoodComp (id ++ suf) := by
  have hl := (validateID_len h).1
  refine ⟨?_, ?_, ?_, ?_⟩
  · intro e
    have := congrArg List.length e
    simp only [List.length_append, List.length_cons, List.length_nil] at this; omega
  · intro e
    have := congrArg List.length e
    simp only [List.length_append, List.length_cons, List.length_nil] at this; omega
  · intro e
    have := congrArg List.length e
    simp only [dd, List.length_append, List.length_cons, List.length_nil] at this; omega
  · intro hm
    rcases List.mem_append.mp hm with hm | hm
    · exact validateID_noslash h hm
    · exact hs hm

theorem splitSlash_noslash_eq (p : Bytes) (h : slash ∉ p) : splitSlash p = [p] := by
  induction p with
  | nil => rfl
  | cons c r ih =>
    have hc : c ≠ slash := fun e => h (by simp [e])
    have hr : slash ∉ r := fun hm => h (List.mem_cons_of_mem _ hm)
    unfold splitSlash
    rw [if_neg hc, ih hr]

/-- decidable form of `GoodComp` -/
def goodCompB (c : Bytes) : Bool := decide (c ≠ []) && decide (c ≠ [dot]) && decide (c ≠ dd) && !c.contains slash

theorem goodCompB_sound {c : Bytes} (h : goodCompB c = true) : GoodComp c := by
  simp only [goodCompB, Bool.and_eq_true, decide_eq_true_eq, Bool.not_eq_true', List.contains_eq_mem,
    decide_eq_false_iff_not] at h
  exact ⟨h.1.1.1, h.1.1.2, h.1.2, h.2⟩

theorem splitSlash_all_good {p : Bytes} (h : (splitSlash p).all goodCompB = true) : ∀ comp ∈ splitSlash p, GoodComp comp := by
  intro comp hc
  exact goodCompB_sound (List.all_eq_true.mp h comp hc)

/-- the key store's own file names consist of ordinary components -/
theorem global_names_good :
    ([logKey, logKey ++ sPub, poisonKey, poisonKey ++ sPub, poisonSym, poisonSym ++ sPub].all
      fun f => (splitSlash f).all goodCompB) = true := by decide

/-! ## the export context of the key store's own per-client names -/

theorem not_hasSuffix_of_last {s suf : Bytes} {c d : UInt8} (hs : s.getLast? = some c) (hd : suf.getLast? = some d)
    (hne : c ≠ d) : hasSuffix s suf = false := by
  cases h : hasSuffix s suf with
  | false => rfl
  | true =>
    have := hasSuffix_getLast h hd
    rw [hs] at this
    exact absurd (Option.some.inj this) hne

theorem ne_of_slash {a b : Bytes} (ha : slash ∉ a) (hb : slash ∈ b) : a ≠ b := fun e => ha (e ▸ hb)

/-- shared part: a separator-free, non-empty name `n` ending in a byte that no timestamp contains
is classified by `ctxOfBase n` -/
theorem ctxOfName_plain (n q : Bytes) (c : UInt8) (hn : n = q ++ [c]) (hc : tsChar c = false) (hs : slash ∉ n) :
    ctxOfName n = ctxOfBase n := by
  have hcs : c ≠ slash := fun e => hs (by rw [hn, e]; simp)
  have hh : isHistorical n = false := by rw [hn]; exact not_isHistorical_of_last q c hcs hc
  unfold ctxOfName
  simp only [hh, Bool.false_eq_true, if_false]
  rw [if_neg (ne_of_slash hs (by decide)), if_neg (ne_of_slash hs (by decide))]

theorem valid_name_noslash {id : Bytes} (hv : validateID id = true) (suf : Bytes) (hs : slash ∉ suf) : slash ∉ id ++ suf :=
  (goodComp_valid_append hv suf hs).2.2.2

theorem valid_name_ne_nil {id : Bytes} (hv : validateID id = true) (suf : Bytes) : id ++ suf ≠ [] := by
  intro e
  have := congrArg List.length e
  have hl := (validateID_len hv).1
  simp only [List.length_append, List.length_nil] at this; omega

/-- `ctxOfBase` on a separator-free name that does not end in `.old` -/
theorem ctxOfBase_plain (n : Bytes) (hne : n ≠ []) (hs : slash ∉ n) (hold : hasSuffix n sOld = false) :
    ctxOfBase n =
      if hasSuffix n sHmac then CrossClient.newClientIDKeyContext pSearchHMAC (dropSuffix n sHmac)
      else if hasSuffix n sServer then CrossClient.newClientIDKeyContext pLegacy (dropSuffix n sServer)
      else if hasSuffix n sTranslator then CrossClient.newClientIDKeyContext pLegacy (dropSuffix n sTranslator)
      else if hasSuffix n sStorage then CrossClient.newClientIDKeyContext pStoragePrivate (dropSuffix n sStorage)
      else if hasSuffix n sStorageSym then CrossClient.newClientIDKeyContext pStorageSym (dropSuffix n sStorageSym)
      else CrossClient.newKeyContext pUndefined n := by
  unfold ctxOfBase
  rw [base_noslash n hne hs]
  simp only [hold, Bool.false_eq_true, if_false]

/-- `Export`/`Import` derive, from the file names the key store gives a valid client's keys, the
key context the key store itself uses for them: the client id -/
theorem ctxOfName_client (id : Bytes) (hv : validateID id = true) :
    ctxOfName (storageName id) = CrossClient.newClientIDKeyContext pStoragePrivate id ∧
    ctxOfName (symName id) = CrossClient.newClientIDKeyContext pStorageSym id ∧
    ctxOfName (hmacName id) = CrossClient.newClientIDKeyContext pSearchHMAC id := by
  refine ⟨?_, ?_, ?_⟩
  · have hs : slash ∉ storageName id := valid_name_noslash hv sStorage (by decide)
    have hne : storageName id ≠ [] := valid_name_ne_nil hv sStorage
    have hlast : (storageName id).getLast? = some 101 := by
      simp [storageName, sStorage, ofStr, List.getLast?_append]
    rw [ctxOfName_plain (storageName id) (id ++ ofStr "_storag") 101 (by simp [storageName, sStorage, ofStr]) (by decide) hs,
      ctxOfBase_plain _ hne hs (not_hasSuffix_of_last hlast (d := 100) (by decide) (by decide)),
      not_hasSuffix_of_last hlast (suf := sHmac) (d := 99) (by decide) (by decide),
      not_hasSuffix_of_last hlast (suf := sServer) (d := 114) (by decide) (by decide),
      not_hasSuffix_of_last hlast (suf := sTranslator) (d := 114) (by decide) (by decide)]
    simp only [Bool.false_eq_true, if_false, storageName, hasSuffix_append, if_true, dropSuffix_append]
  · have hname : symName id = id ++ (sStorage ++ sSym) := by simp [symName]
    have hs : slash ∉ symName id := by rw [hname]; exact valid_name_noslash hv (sStorage ++ sSym) (by decide)
    have hne : symName id ≠ [] := by rw [hname]; exact valid_name_ne_nil hv _
    have hlast : (symName id).getLast? = some 109 := by
      simp [symName, sStorage, sSym, ofStr, List.getLast?_append]
    rw [ctxOfName_plain (symName id) (id ++ ofStr "_storage_sy") 109 (by simp [symName, sStorage, sSym, ofStr]) (by decide) hs,
      ctxOfBase_plain _ hne hs (not_hasSuffix_of_last hlast (d := 100) (by decide) (by decide)),
      not_hasSuffix_of_last hlast (suf := sHmac) (d := 99) (by decide) (by decide),
      not_hasSuffix_of_last hlast (suf := sServer) (d := 114) (by decide) (by decide),
      not_hasSuffix_of_last hlast (suf := sTranslator) (d := 114) (by decide) (by decide),
      not_hasSuffix_of_last hlast (suf := sStorage) (d := 101) (by decide) (by decide)]
    have h2 : sStorage ++ sSym = sStorageSym := by decide
    simp only [Bool.false_eq_true, if_false, hname, h2, hasSuffix_append, if_true, dropSuffix_append]
  · have hs : slash ∉ hmacName id := valid_name_noslash hv sHmac (by decide)
    have hne : hmacName id ≠ [] := valid_name_ne_nil hv sHmac
    have hlast : (hmacName id).getLast? = some 99 := by
      simp [hmacName, sHmac, ofStr, List.getLast?_append]
    rw [ctxOfName_plain (hmacName id) (id ++ ofStr "_hma") 99 (by simp [hmacName, sHmac, ofStr]) (by decide) hs,
      ctxOfBase_plain _ hne hs (not_hasSuffix_of_last hlast (d := 100) (by decide) (by decide))]
    simp only [hmacName, hasSuffix_append, if_true, dropSuffix_append]

/-! ## rotated keys -/

theorem takeWhile_append_stop {α} (p : α → Bool) (l₁ l₂ : List α) (x : α) (h1 : ∀ a ∈ l₁, p a = true) (hx : p x = false) :
    (l₁ ++ x :: l₂).takeWhile p = l₁ := by
  induction l₁ with
  | nil => simp [List.takeWhile_cons, hx]
  | cons a r ih =>
    simp only [List.cons_append, List.takeWhile_cons, h1 a (by simp), if_true]
    rw [ih (fun b hb => h1 b (by simp [hb]))]

theorem dropWhile_append_stop {α} (p : α → Bool) (l₁ l₂ : List α) (x : α) (h1 : ∀ a ∈ l₁, p a = true) (hx : p x = false) :
    (l₁ ++ x :: l₂).dropWhile p = x :: l₂ := by
  induction l₁ with
  | nil => simp [List.dropWhile_cons, hx]
  | cons a r ih =>
    simp only [List.cons_append, List.dropWhile_cons, h1 a (by simp), if_true]
    exact ih (fun b hb => h1 b (by simp [hb]))

/-- the last component of `a/t` -/
theorem base_append_slash (a t : Bytes) (ht : t ≠ []) (hs : slash ∉ t) : base (a ++ slash :: t) = t := by
  obtain ⟨q, c, rfl⟩ : ∃ q c, t = q ++ [c] := ⟨t.dropLast, t.getLast ht, (List.dropLast_concat_getLast ht).symm⟩
  have hc : c ≠ slash := fun e => hs (by simp [e])
  unfold base
  have hne : a ++ slash :: (q ++ [c]) ≠ [] := by simp
  rw [if_neg hne]
  have hrev : (a ++ slash :: (q ++ [c])).reverse = (c :: q.reverse) ++ slash :: a.reverse := by simp
  have hstrip : stripTrailingSlashes (a ++ slash :: (q ++ [c])) = a ++ slash :: (q ++ [c]) := by
    unfold stripTrailingSlashes
    rw [hrev]
    simp [List.dropWhile_cons, hc]
  have hall : ∀ x ∈ c :: q.reverse, (decide (x ≠ slash)) = true := by
    intro x hx
    have : x ∈ q ++ [c] := by
      simp only [List.mem_cons, List.mem_reverse] at hx
      simp only [List.mem_append, List.mem_singleton]
      rcases hx with h | h
      · exact Or.inr h
      · exact Or.inl h
    simpa using fun e : x = slash => hs (e ▸ this)
  have hafter : afterLastSlash (a ++ slash :: (q ++ [c])) = q ++ [c] := by
    unfold afterLastSlash
    rw [hrev, takeWhile_append_stop _ _ _ slash hall (by simp)]
    simp
  rw [hstrip, hafter]
  simp

theorem uptoLastSlash_append (a t : Bytes) (hs : slash ∉ t) : uptoLastSlash (a ++ slash :: t) = a ++ [slash] := by
  unfold uptoLastSlash
  have hrev : (a ++ slash :: t).reverse = t.reverse ++ slash :: a.reverse := by simp
  have hall : ∀ x ∈ t.reverse, (decide (x ≠ slash)) = true := by
    intro x hx
    simpa using fun e : x = slash => hs (e ▸ (List.mem_reverse.mp hx))
  rw [hrev, dropWhile_append_stop _ _ _ slash hall (by simp)]
  simp

/-- `filepath.Clean("m/")` = `m` for one ordinary component -/
theorem clean_comp_slash (m : Bytes) (hm : GoodComp m) : clean (m ++ [slash]) = m := by
  have hhead : (m ++ [slash]).head? ≠ some slash := by
    cases m with
    | nil => exact absurd rfl hm.1
    | cons x r =>
      simp only [List.cons_append, List.head?_cons, ne_eq, Option.some.injEq]
      exact fun e => hm.2.2.2 (by simp [e])
  have hsplit : splitSlash (m ++ [slash]) = [m, []] := by
    have := splitSlash_append m []
    simp only [splitSlash] at this
    rw [this, splitSlash_noslash_eq m hm.2.2.2]
    rfl
  unfold clean cleanP
  simp only [hsplit]
  have hr : decide ((m ++ [slash]).head? = some slash) = false := decide_eq_false hhead
  simp only [hr, cleanStack, List.foldl_cons, List.foldl_nil]
  have h1 : pushComp false [] m = [m] := by
    unfold pushComp
    rw [if_neg (by simp [hm.1, hm.2.1]), if_neg hm.2.2.1]
  rw [h1]
  have h2 : pushComp false [m] [] = [m] := by simp [pushComp]
  rw [h2]
  simp [render, joinSlash]

/-- **A rotated key gets the context of its key file.** For a key file name `n` that is one
ordinary component (every per-client file of a valid id) and a timestamp `ts`:
`getContextFromFilename("<n>.old/<ts>") = getContextFromFilename("<n>")`. -/
theorem ctxOfName_hist (n ts : Bytes) (hn : GoodComp (n ++ sOld)) (hnh : isHistorical n = false)
    (hts : isTimestamp ts = true) (hne : ts ≠ []) : ctxOfName (histName n ts) = ctxOfName n := by
  have hslash : slash ∉ ts := fun hm => by
    have := isTimestamp_chars hts slash hm
    revert this; decide
  have hname : histName n ts = (n ++ sOld) ++ slash :: ts := by simp [histName]
  have hh : isHistorical (histName n ts) = true := by
    unfold isHistorical
    rw [hname, base_append_slash _ _ hne hslash]; exact hts
  have hdir : dirOf (histName n ts) = n ++ sOld := by
    unfold dirOf
    rw [hname, uptoLastSlash_append _ _ hslash, clean_comp_slash _ hn]
  unfold ctxOfName
  simp only [hh, if_true, hdir, trimSuffix_append, hnh, Bool.false_eq_true, if_false]



/-- rotated keys of a valid client: same context as the current file, i.e. the client id -/
theorem ctxOfName_client_hist (id ts : Bytes) (hv : validateID id = true) (hts : isTimestamp ts = true) (hne : ts ≠ []) :
    ctxOfName (histName (storageName id) ts) = CrossClient.newClientIDKeyContext pStoragePrivate id ∧
    ctxOfName (histName (symName id) ts) = CrossClient.newClientIDKeyContext pStorageSym id ∧
    ctxOfName (histName (hmacName id) ts) = CrossClient.newClientIDKeyContext pSearchHMAC id := by
  obtain ⟨h1, h2, h3⟩ := ctxOfName_client id hv
  refine ⟨?_, ?_, ?_⟩
  · rw [ctxOfName_hist _ ts (by simpa [storageName, List.append_assoc] using goodComp_valid_append hv (sStorage ++ sOld) (by decide)) ?_ hts hne, h1]
    have : storageName id = (id ++ ofStr "_storag") ++ [101] := by simp [storageName, sStorage, ofStr]
    rw [this]; exact not_isHistorical_of_last _ 101 (by decide) (by decide)
  · rw [ctxOfName_hist _ ts (by simpa [symName, List.append_assoc] using goodComp_valid_append hv (sStorage ++ (sSym ++ sOld)) (by decide)) ?_ hts hne, h2]
    have : symName id = (id ++ ofStr "_storage_sy") ++ [109] := by simp [symName, sStorage, sSym, ofStr]
    rw [this]; exact not_isHistorical_of_last _ 109 (by decide) (by decide)
  · rw [ctxOfName_hist _ ts (by simpa [hmacName, List.append_assoc] using goodComp_valid_append hv (sHmac ++ sOld) (by decide)) ?_ hts hne, h3]
    have : hmacName id = (id ++ ofStr "_hma") ++ [99] := by simp [hmacName, sHmac, ofStr]
    rw [this]; exact not_isHistorical_of_last _ 99 (by decide) (by decide)

/-! ## rotated public keys are public (classified by the history directory) -/

/-- **A rotated public key is not private.** For a public key file `<n>.pub` that is one ordinary
component and a timestamp `ts`: `isPrivate("<n>.pub.old/<ts>") = false` – the decision is taken on the
name of the history directory (`….pub.old`), not on the timestamp. -/
theorem isPrivate_hist_pub (n ts : Bytes) (hn : GoodComp (n ++ sPub ++ sOld))
    (hts : isTimestamp ts = true) (hne : ts ≠ []) : isPrivate (histName (n ++ sPub) ts) = false := by
  have hslash : slash ∉ ts := fun hm => by
    have := isTimestamp_chars hts slash hm
    revert this; decide
  have hname : histName (n ++ sPub) ts = (n ++ sPub ++ sOld) ++ slash :: ts := by simp [histName]
  have hh : isHistorical (histName (n ++ sPub) ts) = true := by
    unfold isHistorical
    rw [hname, base_append_slash _ _ hne hslash]; exact hts
  have hdir : dirOf (histName (n ++ sPub) ts) = n ++ sPub ++ sOld := by
    unfold dirOf
    rw [hname, uptoLastSlash_append _ _ hslash, clean_comp_slash _ hn]
  have hbase : base (n ++ sPub ++ sOld) = n ++ sPub ++ sOld := base_noslash _ hn.1 hn.2.2.2
  have hpoison : n ++ sPub ++ sOld ≠ poisonKey := ne_of_slash hn.2.2.2 (by decide)
  have hpub : isPublic (n ++ sPub ++ sOld) = true := by
    have : n ++ sPub ++ sOld = n ++ sPubOld := by simp [sPub, sOld, sPubOld, ofStr]
    rw [this]; simp [isPublic, hasSuffix_append]
  unfold isPrivate
  simp only [hh, if_true, hdir, hbase, hpoison, if_false, hpub, Bool.not_true]

theorem dropWhile_all {α} (p : α → Bool) (l : List α) (h : ∀ a ∈ l, p a = true) : l.dropWhile p = [] := by
  induction l with
  | nil => rfl
  | cons a r ih =>
    rw [List.dropWhile_cons, h a (by simp)]
    exact ih (fun x hx => h x (by simp [hx]))

/-- … whereas the timestamp alone (the base name of a rotated key) is classified as private: a
timestamp contains neither `.pub` nor is it a history name of anything. -/
theorem isPrivate_timestamp (ts : Bytes) (hts : isTimestamp ts = true) (hne : ts ≠ []) : isPrivate ts = true := by
  have hslash : slash ∉ ts := fun hm => by
    have := isTimestamp_chars hts slash hm
    revert this; decide
  have hb : base ts = ts := base_noslash ts hne hslash
  have hh : isHistorical ts = true := by unfold isHistorical; rw [hb]; exact hts
  -- dirOf ts = clean [] = "."
  have hu : uptoLastSlash ts = [] := by
    unfold uptoLastSlash
    have hall : ∀ x ∈ ts.reverse, (decide (x ≠ slash)) = true := by
      intro x hx
      simpa using fun e : x = slash => hslash (e ▸ (List.mem_reverse.mp hx))
    rw [dropWhile_all _ _ hall]; rfl
  have hdir : dirOf ts = [dot] := by unfold dirOf; rw [hu]; decide
  unfold isPrivate
  simp only [hh, if_true, hdir]
  decide

/-- rotated storage public key of a valid client: public by its history directory; its base name is the timestamp -/
theorem isPrivate_hist_storagePub (id ts : Bytes) (hv : validateID id = true) (hts : isTimestamp ts = true) (hne : ts ≠ []) :
    isPrivate (histName (storagePubName id) ts) = false ∧ base (histName (storagePubName id) ts) = ts := by
  have hgood : GoodComp (id ++ sStorage ++ sPub ++ sOld) := by
    simpa [List.append_assoc] using goodComp_valid_append hv (sStorage ++ (sPub ++ sOld)) (by decide)
  have hslash : slash ∉ ts := fun hm => by
    have := isTimestamp_chars hts slash hm
    revert this; decide
  refine ⟨by simpa [storagePubName] using isPrivate_hist_pub (id ++ sStorage) ts hgood hts hne, ?_⟩
  have : histName (storagePubName id) ts = (storagePubName id ++ sOld) ++ slash :: ts := by simp [histName]
  rw [this, base_append_slash _ _ hne hslash]

end AcraModel.KeystoreSec.V1
