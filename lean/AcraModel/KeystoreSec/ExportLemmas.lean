import AcraModel.KeystoreSec.Export
/-! Helper lemmas for the export/import model (used by `Props/C18.lean`). -/
namespace AcraModel.KeystoreSec.Export
open AcraModel.KeystoreSec.Path (ofStr)

/-- the nonce oracle always yields nonces of the right length -/
def NoncesOk (ν : Nonces) : Prop := ∀ x m, (ν x m).length = nonceLen

/-- a ciphertext is never the empty string (implied by `SealLen`; holds for `Box` too) -/
def EncNonEmpty (c : CryptoOps) : Prop := ∀ k x m n, c.enc k x m n ≠ some []

theorem encNonEmpty_of_len (c : CryptoOps) (h : SealLen c) : EncNonEmpty c := by
  intro k x m n e
  have := h.enc_len k x m n [] e
  simp [sealOverhead] at this

/-- key data in the plaintext form the API produces: exactly the fields of its format -/
def NormalData (d : KeyData) : Prop :=
  (d.format = fmtPair ∧ d.pub ≠ [] ∧ d.sym = [] ∧ d.priv.length < maxMsgLen) ∨
  (d.format = fmtSym ∧ d.sym ≠ [] ∧ d.pub = [] ∧ d.priv = [] ∧ d.sym.length < maxMsgLen)

/-- what `copyKey` demands of an exported key -/
structure ImportableKey (k : Key) : Prop where
  period : k.since ≤ k.until_
  nonempty : k.data ≠ [] ∨ k.state = stDestroyed
  formats : (k.data.map (·.format)).Nodup
  normal : ∀ d ∈ k.data, NormalData d

theorem enc_some (c : CryptoOps) (hl : SealLaws c) (k x m n : Bytes) (hk : k ≠ []) (hm : m ≠ []) (hn : n.length = nonceLen)
    (hb : m.length < maxMsgLen) : ∃ ct, c.enc k x m n = some ct := by
  cases h : c.enc k x m n with
  | some ct => exact ⟨ct, rfl⟩
  | none =>
    have := (hl.enc_none k x m n).mp h
    rcases this with h1 | h1 | h1 | h1
    · exact absurd h1 hm
    · exact absurd h1 hk
    · exact absurd hn h1
    · omega

theorem add_then_decrypt (c : CryptoOps) (hl : SealLaws c) (hne : EncNonEmpty c) (ν : Nonces) (hν : NoncesOk ν)
    (master path : Bytes) (seq : Int) (hm : master ≠ []) (d : KeyData) (hd : NormalData d) :
    ∃ e, addKeyData c ν master path seq d = some e ∧ decryptKeyData c master path seq true e = .ok d := by
  rcases hd with ⟨hf, hp, hs, hb⟩ | ⟨hf, hs, hp, hpr, hb⟩
  · by_cases hpriv : d.priv = []
    · refine ⟨⟨fmtPair, d.pub, [], []⟩, by simp [addKeyData, hf, hp, hpriv], ?_⟩
      simp [decryptKeyData]
      cases d; simp_all
    · obtain ⟨ct, hct⟩ := enc_some c hl master (privCtx path seq) d.priv (ν (privCtx path seq) d.priv) hm hpriv (hν _ _) hb
      refine ⟨⟨fmtPair, d.pub, ct, []⟩, by simp [addKeyData, hf, hp, hpriv, hct], ?_⟩
      have hdec := hl.dec_enc _ _ _ _ _ hct
      have hcne : ct ≠ [] := by intro e; subst e; exact hne _ _ _ _ hct
      simp [decryptKeyData, hcne, hdec]
      cases d; simp_all
  · have hf1 : fmtSym ≠ fmtPair := by decide
    obtain ⟨ct, hct⟩ := enc_some c hl master (symCtx path seq) d.sym (ν (symCtx path seq) d.sym) hm hs (hν _ _) hb
    refine ⟨⟨fmtSym, [], [], ct⟩, by simp [addKeyData, hf, hf1, hs, hct], ?_⟩
    have hdec := hl.dec_enc _ _ _ _ _ hct
    have hcne : ct ≠ [] := by intro e; subst e; exact hne _ _ _ _ hct
    simp [decryptKeyData, hcne, hdec]
    cases d; simp_all

theorem addAll_then_decryptAll (c : CryptoOps) (hl : SealLaws c) (hne : EncNonEmpty c) (ν : Nonces) (hν : NoncesOk ν)
    (master path : Bytes) (seq : Int) (hm : master ≠ []) :
    ∀ (ds : List KeyData), (∀ d ∈ ds, NormalData d) →
      ∃ es, ds.mapM (addKeyData c ν master path seq) = some es ∧ decryptAll c master path seq true es = .ok ds
  | [], _ => ⟨[], by simp, by simp [decryptAll]⟩
  | d :: ds, h => by
    obtain ⟨e, he1, he2⟩ := add_then_decrypt c hl hne ν hν master path seq hm d (h d (by simp))
    obtain ⟨es, hes1, hes2⟩ := addAll_then_decryptAll c hl hne ν hν master path seq hm ds (fun d' h' => h d' (by simp [h']))
    refine ⟨e :: es, by simp [List.mapM_cons, he1, hes1], ?_⟩
    simp [decryptAll, he2, hes2]

theorem copy_then_export (c : CryptoOps) (hl : SealLaws c) (hne : EncNonEmpty c) (ν : Nonces) (hν : NoncesOk ν)
    (master path : Bytes) (hm : master ≠ []) (k : Key) (hk : ImportableKey k) :
    ∃ k', copyKey c ν master path k = some k' ∧ k'.seq = k.seq ∧ k'.state = k.state ∧ k'.since = k.since ∧ k'.until_ = k.until_ ∧
      decryptAll c master path k.seq true k'.data = .ok k.data := by
  obtain ⟨es, h1, h2⟩ := addAll_then_decryptAll c hl hne ν hν master path k.seq hm k.data hk.normal
  refine ⟨{ k with data := es }, ?_, rfl, rfl, rfl, rfl, h2⟩
  have hp : ¬ k.since > k.until_ := by have := hk.period; omega
  have hne' : ¬ (k.data = [] ∧ k.state ≠ stDestroyed) := by
    intro ⟨a, b⟩
    rcases hk.nonempty with h | h
    · exact h a
    · exact b h
  simp only [copyKey, if_neg hp, if_neg hne', hk.formats, not_true_eq_false, if_false, h1, Option.map_some]

theorem copyAll_then_export (c : CryptoOps) (hl : SealLaws c) (hne : EncNonEmpty c) (ν : Nonces) (hν : NoncesOk ν)
    (master path : Bytes) (hm : master ≠ []) :
    ∀ (ks : List Key), (∀ k ∈ ks, ImportableKey k) →
      ∃ ks', ks.mapM (copyKey c ν master path) = some ks' ∧ exportKeys c master path true ks' = .ok ks
  | [], _ => ⟨[], by simp, by simp [exportKeys]⟩
  | k :: ks, h => by
    obtain ⟨k', hk1, hs, hst, hsi, hu, hk2⟩ := copy_then_export c hl hne ν hν master path hm k (h k (by simp))
    obtain ⟨ks', hks1, hks2⟩ := copyAll_then_export c hl hne ν hν master path hm ks (fun k' h' => h k' (by simp [h']))
    refine ⟨k' :: ks', by simp [List.mapM_cons, hk1, hks1], ?_⟩
    simp only [exportKeys, hs, hk2, hks2]
    cases k; cases k'; simp_all

/-- ring level: importing a plaintext ring into a target and exporting it again (with private
data) gives the ring back – same keys, same order, same states, validity, material and current marker -/
theorem import_then_export_ring (c : CryptoOps) (hl : SealLaws c) (hne : EncNonEmpty c) (ν : Nonces) (hν : NoncesOk ν)
    (master : Bytes) (hm : master ≠ []) (x : Ring) (hx : ∀ k ∈ x.keys, ImportableKey k) :
    ∃ r, importASN1 c ν master x.purpose x = some r ∧ exportRing c master x.purpose true r = .ok x := by
  obtain ⟨ks', h1, h2⟩ := copyAll_then_export c hl hne ν hν master x.purpose hm x.keys hx
  refine ⟨⟨x.purpose, ks', x.current⟩, by simp [importASN1, h1], ?_⟩
  simp [exportRing, h2]



theorem importRings_ok (c : CryptoOps) (hl : SealLaws c) (hne : EncNonEmpty c) (ν : Nonces) (hν : NoncesOk ν) :
    ∀ (xs : List Ring) (T : Store), T.master ≠ [] → (∀ x ∈ xs, ∀ k ∈ x.keys, ImportableKey k) →
      (xs.map (·.purpose)).Nodup → (∀ x ∈ xs, T.get x.purpose = none) →
      ∃ T', importRings c ν T xs = (T', true) ∧ T'.master = T.master ∧
        (∀ x ∈ xs, ∃ r, T'.get x.purpose = some r ∧ exportRing c T.master x.purpose true r = .ok x) ∧
        (∀ q, q ∉ xs.map (·.purpose) → T'.get q = T.get q)
  | [], T, _, _, _, _ => ⟨T, by simp [importRings], rfl, by simp, by simp⟩
  | x :: xs, T, hm, hk, hnd, hfree => by
    obtain ⟨r, hr1, hr2⟩ := import_then_export_ring c hl hne ν hν T.master hm x (hk x (by simp))
    have hget : T.get x.purpose = none := hfree x (by simp)
    let T1 := (T.put x.purpose ⟨x.purpose, [], -1⟩).put x.purpose r
    have hstep : importKeyRing c ν T x = (T1, true) := by simp [importKeyRing, hget, hr1, T1]
    have hnd' := List.nodup_cons.mp hnd
    have hT1other : ∀ q, q ≠ x.purpose → T1.get q = T.get q := by
      intro q hq
      simp only [T1]
      rw [Store.get_put_other _ _ _ _ hq, Store.get_put_other _ _ _ _ hq]
    have hfree1 : ∀ y ∈ xs, T1.get y.purpose = none := by
      intro y hy
      have hne' : y.purpose ≠ x.purpose := by
        intro e
        apply hnd'.1
        show x.purpose ∈ List.map (fun x => x.purpose) xs
        rw [← e]
        exact List.mem_map_of_mem (f := fun x => x.purpose) hy
      rw [hT1other _ hne']
      exact hfree y (by simp [hy])
    obtain ⟨T', h1, h2, h3, h4⟩ := importRings_ok c hl hne ν hν xs T1 (by simpa [T1] using hm)
      (fun y hy => hk y (by simp [hy])) hnd'.2 hfree1
    refine ⟨T', by simp [importRings, hstep, h1], by simpa [T1] using h2, ?_, ?_⟩
    · intro y hy
      simp at hy
      rcases hy with rfl | hy
      · refine ⟨r, ?_, hr2⟩
        rw [h4 _ hnd'.1]
        simp [T1]
      · have := h3 y hy
        simpa [T1] using this
    · intro q hq
      simp at hq
      rw [h4 q (by simpa using hq.2)]
      exact hT1other q hq.1

/-- the bundle opens to exactly the ring list that was packed -/
theorem bundle_roundtrip (c : CryptoOps) (hl : SealLaws c) (cd : Codec) (hcd : cd.Ok) (ak : AccessKeys) (time : Int)
    (nonce : Bytes) (rs : List Ring) (b : Notary.Container)
    (h : encryptAndSign c cd ak time nonce rs = some b) : decryptAndVerify c cd ak b = some rs := by
  simp only [encryptAndSign] at h
  cases he : c.enc ak.encKey exportCtx (cd.ser rs) nonce with
  | none => simp [he] at h
  | some e =>
    simp [he] at h
    subst h
    have hv := Notary.verify_sign c ak.sigKey exportCtx (cd.serPayload time e)
    have hraw : (Notary.sign c ak.sigKey exportCtx (cd.serPayload time e)).raw = cd.serPayload time e := rfl
    simp [decryptAndVerify, hv, hraw, hcd.payload, hl.dec_enc _ _ _ _ _ he, hcd.rings]

end AcraModel.KeystoreSec.Export
