import AcraModel.KeystoreSec.DerParse
import AcraModel.KeystoreSec.WriteLog
import AcraModel.Generated.RingOpen
import AcraModel.Generated.KeystoreSec
/-!
# Opening a v2 key ring: read-only, read-write, write-back, bundle import
(`keystore/v2/keystore/filesystem/{keyStoreLoad.go, keyStore.go, export.go}`)

```go
func (s *KeyStore) openKeyRing(ring *KeyRing) (err error) {        // OpenKeyRingRW = newKeyRing + this
    err = s.fs.Lock();  if err != nil { return err }
    defer func() { err2 := s.fs.Unlock(); if err2 != nil { if err == nil { err = err2 } } }()
    err = s.pullRingUpdates(ring)
    if err != nil {
        if err == backend.ErrNotExist { return s.pushNewRingState(ring) }   // ← the guard (regenerated)
        return err
    }
    return nil
}
func (s *KeyStore) pullRingUpdates(ring *KeyRing) error {
    data, err := s.fetchASNring(ring.path)            // s.fs.Get(path + ".keyring")
    asnData, _, err := s.verifyKeyRing(data, ring.path) // notary.Verify(data, "AKSv2 keystore: key ring signature: "+path),
                                                      // ContentType == TypeKeyRing, Version == 2, UnmarshalKeyRing (error only logged)
    err = ring.loadASN1(asnData)
}
func (s *KeyStore) pushNewRingState(ring *KeyRing) error {   // signKeyRing + pushASNring
    … s.fs.Put(path+".keyring.new", data);  s.fs.Rename(path+".keyring.new", path+".keyring")
}
```

The guard of the create branch – comparison operator **and** error value – is not written here: it is
`Generated.RingOpen.openCreateGuard`, re-extracted from the source on every run, and `createsOn`
evaluates it for every load error.  So do the case labels of `importKeyRing`'s `switch err`.
-/
namespace AcraModel.KeystoreSec.RingOpen
open AcraModel.KeystoreSec AcraModel.KeystoreSec.Export
open AcraModel.KeystoreSec.Path (ofStr)

deriving instance DecidableEq for Except

/-! ## the back end -/

/-- Everything a ring load can fail with. The first four are what `Backend.Get` returns
(`api.ErrNotExist`, `api.ErrExist`, `api.ErrInvalidPath`, any other error value); then the lock; then
what `verifyKeyRing` returns. -/
inductive LoadErr
  | notExist | exist | invalidPath | io
  | lock
  /-- `asn1.UnmarshalVerifiedContainer` failed (incl. `ErrExtraData`) -/
  | parse
  /-- `signature.ErrSignatureError`: a signature of a known algorithm does not match -/
  | signature
  /-- `signature.ErrNoSignature`: no signature of a known algorithm -/
  | noSignature
  | contentType | version
deriving DecidableEq, Repr

/-- State of a back end (`api.Backend`): stored bytes per key path, which key paths it accepts
(`DirectoryBackend.osPath`; the in-memory back end accepts all), which stored paths cannot be read
(`EACCES`, a directory, …), and whether taking / releasing the lock fails. -/
structure Backend where
  files : Bytes → Option Bytes
  valid : Bytes → Bool
  unreadable : Bytes → Bool
  lockFails : Bool
  unlockFails : Bool

def Backend.get (b : Backend) (p : Bytes) : Except LoadErr Bytes :=
  if !b.valid p then .error .invalidPath
  else if b.unreadable p then .error .io
  else match b.files p with
    | none => .error .notExist
    | some d => .ok d

def setFile (f : Bytes → Option Bytes) (p : Bytes) (v : Option Bytes) : Bytes → Option Bytes :=
  fun q => if q = p then v else f q

/-- `Put`: exclusive creation -/
def Backend.put (b : Backend) (p d : Bytes) : Except LoadErr Backend :=
  if !b.valid p then .error .invalidPath
  else if (b.files p).isSome then .error .exist
  else .ok { b with files := setFile b.files p (some d) }

/-- `Rename`: replaces the target -/
def Backend.rename (b : Backend) (o n : Bytes) : Except LoadErr Backend :=
  if !b.valid o || !b.valid n then .error .invalidPath
  else match b.files o with
    | none => .error .notExist
    | some d => .ok { b with files := setFile (setFile b.files o none) n (some d) }

/-- the calls a cycle makes on the back end, in order -/
inductive Call
  | lock | unlock | rlock | runlock
  | get (p : Bytes)
  | put (p d : Bytes)
  | rename (o n : Bytes)
deriving DecidableEq, Repr

def Call.isWrite : Call → Bool
  | .put _ _ | .rename _ _ => true
  | _ => false

def keyringSuffix : Bytes := ofStr Generated.KeystoreSec.keyringSuffix
def newSuffix : Bytes := ofStr Generated.KeystoreSec.newSuffix
/-- `curPath := path + keyringSuffix` -/
def ringFile (path : Bytes) : Bytes := path ++ keyringSuffix
/-- `newPath := path + keyringSuffix + newSuffix` -/
def newFile (path : Bytes) : Bytes := path ++ keyringSuffix ++ newSuffix

/-! ## the guard, read from the regenerated fact -/

/-- the error value a name of the source denotes, among those a ring load can produce -/
def sentinelOf : String → Option LoadErr
  | "ErrNotExist" => some .notExist
  | "ErrExist" => some .exist
  | "ErrInvalidPath" => some .invalidPath
  | "signature.ErrSignatureError" => some .signature
  | "signature.ErrNoSignature" => some .noSignature
  | "errIncorrectContentType" => some .contentType
  | "errUnsupportedVersion" => some .version
  | _ => none

/-- evaluation of a guard in postfix form – (`==`, X), (`!=`, X), (`||`, _), (`&&`, _), (`!`, _) – for
the error `e`; `none` = not a well-formed guard -/
def evalGuard (e : LoadErr) : List (String × String) → List Bool → Option Bool
  | [], [b] => some b
  | [], _ => none
  | (op, arg) :: ts, st =>
    if op = "||" then match st with | y :: x :: st => evalGuard e ts ((x || y) :: st) | _ => none
    else if op = "&&" then match st with | y :: x :: st => evalGuard e ts ((x && y) :: st) | _ => none
    else if op = "!" then match st with | x :: st => evalGuard e ts ((!x) :: st) | _ => none
    else if op = "==" then evalGuard e ts ((sentinelOf arg == some e) :: st)
    else if op = "!=" then evalGuard e ts ((sentinelOf arg != some e) :: st)
    else none

/-- **Does `openKeyRing` push an empty ring when the pull failed with `e`?** – the guard of the
source, as regenerated. (A guard the translator could not read counts as "creates": the theorems then
fail, they do not pass by accident.) -/
def createsOn (e : LoadErr) : Bool := (evalGuard e Generated.RingOpen.openCreateGuard []).getD true

/-- does `importKeyRing` go on to `openKeyRing` after `readKeyRing` failed with `e`: the case labels of
its `switch err` whose body calls `openKeyRing` -/
def importOpensOn (e : LoadErr) : Bool :=
  Generated.RingOpen.importOpenCases.any fun l => sentinelOf l == some e

/-! ## pull -/

/-- `verifySignatures`: unknown algorithms are skipped; the first known one that does not match gives
`ErrSignatureError`; none known gives `ErrNoSignature` -/
def verifySignatures (c : CryptoOps) (key ctx : Bytes) (ct : Notary.Container) : Except LoadErr Unit :=
  let known := ct.sigs.filter (·.oid = Notary.sha256OID)
  if known.any (fun s => s.sig != Notary.signBytes c key ctx ct.raw) then .error .signature
  else if known.isEmpty then .error .noSignature
  else .ok ()

/-- `verifyKeyRing` on the bytes of a ring file, for the ring path `path`: the data element of the
payload (`Data.FullBytes`) when everything checks. (`UnmarshalKeyRing`'s error is only logged: what the
handle then holds is the parse of these bytes, or `nil`.) -/
def loadBytes (c : CryptoOps) (sigKey path data : Bytes) : Except LoadErr Bytes :=
  match DerParse.parseContainer data with
  | none => .error .parse
  | some p =>
    match verifySignatures c sigKey (sigCtx path) p.container with
    | .error e => .error e
    | .ok () =>
      if p.payload.ctype ≠ Generated.KeystoreSec.asnTypeKeyRing then .error .contentType
      else if p.payload.version ≠ Generated.KeystoreSec.asnKeyRingVersion2 then .error .version
      else .ok p.payload.data

/-- `pullRingUpdates` (one `Get`, then pure checks) -/
def pull (c : CryptoOps) (sigKey : Bytes) (b : Backend) (path : Bytes) : Except LoadErr Bytes :=
  match b.get (ringFile path) with
  | .error e => .error e
  | .ok data => loadBytes c sigKey path data

/-! ## push -/

/-- `newKeyRing`: the ring of a fresh handle -/
def emptyRing (path : Bytes) : Ring := ⟨path, [], Generated.KeystoreSec.asnNoKey⟩

/-- the bytes `signKeyRing` makes of a ring (already encrypted) at time `time` -/
def signedFile (c : CryptoOps) (sigKey path : Bytes) (time : Int) (r : Ring) : Bytes :=
  Der.derContainer (Notary.sign c sigKey (sigCtx path) (WriteLog.ringPayload time r))

/-- `pushASNring`: `Put(new)`, `Rename(new, cur)`; a failing call returns its error (a failing rename
leaves the temporary behind) -/
def pushFile (b : Backend) (path data : Bytes) : Backend × List Call × Option LoadErr :=
  match b.put (newFile path) data with
  | .error e => (b, [.put (newFile path) data], some e)
  | .ok b1 =>
    match b1.rename (newFile path) (ringFile path) with
    | .error e => (b1, [.put (newFile path) data, .rename (newFile path) (ringFile path)], some e)
    | .ok b2 => (b2, [.put (newFile path) data, .rename (newFile path) (ringFile path)], none)

/-! ## the cycles -/

inductive OpenOut
  /-- the ring was there and loaded: the data element of its payload -/
  | loaded (data : Bytes)
  /-- an empty ring was written -/
  | created
  | err (e : LoadErr)
deriving DecidableEq, Repr

def OpenOut.isErr : OpenOut → Bool
  | .err _ => true
  | _ => false

structure Res where
  backend : Backend
  trace : List Call
  out : OpenOut

/-- the deferred `Unlock`: its error replaces a `nil` result only -/
def withUnlock (b : Backend) (ucall : Call) (r : Backend × List Call × OpenOut) : Res :=
  ⟨r.1, r.2.1 ++ [ucall],
    if b.unlockFails then (match r.2.2 with | .err e => .err e | _ => .err .lock) else r.2.2⟩

/-- **`openKeyRing`** (the body of `OpenKeyRingRW`) for the ring path `path`; `time` is `time.Now()`
of a creation. -/
def openKeyRing (c : CryptoOps) (sigKey : Bytes) (time : Int) (b : Backend) (path : Bytes) : Res :=
  if b.lockFails then ⟨b, [.lock], .err .lock⟩ else
  let r := withUnlock b .unlock <|
    match pull c sigKey b path with
    | .ok data => (b, [.get (ringFile path)], .loaded data)
    | .error e =>
      if createsOn e then
        let (b', calls, perr) := pushFile b path (signedFile c sigKey path time (emptyRing path))
        (b', .get (ringFile path) :: calls, match perr with | some e' => .err e' | none => .created)
      else (b, [.get (ringFile path)], .err e)
  { r with trace := .lock :: r.trace }

/-- **`readKeyRing`** (the body of `OpenKeyRing`) -/
def readKeyRing (c : CryptoOps) (sigKey : Bytes) (b : Backend) (path : Bytes) : Res :=
  if b.lockFails then ⟨b, [.rlock], .err .lock⟩ else
  let r := withUnlock b .runlock <|
    match pull c sigKey b path with
    | .ok data => (b, [.get (ringFile path)], .loaded data)
    | .error e => (b, [.get (ringFile path)], .err e)
  { r with trace := .rlock :: r.trace }

/-- **`writeKeyRing`** (what `AddKey`, `SetCurrent`, `SetState`, `DestroyKey`, `importASN1` do through
`syncKeyRing`): pull, apply the pending transactions, push. `apply` is the result of
`applyPendingTX` on the loaded ring: the new stored ring, or `none` for its error. -/
def writeKeyRing (c : CryptoOps) (sigKey : Bytes) (time : Int) (b : Backend) (path : Bytes)
    (apply : Bytes → Option Ring) : Res :=
  if b.lockFails then ⟨b, [.lock], .err .lock⟩ else
  let r := withUnlock b .unlock <|
    match pull c sigKey b path with
    | .error e => (b, [.get (ringFile path)], .err e)
    | .ok data =>
      match apply data with
      | none => (b, [.get (ringFile path)], .err .io)
      | some ring =>
        let (b', calls, perr) := pushFile b path (signedFile c sigKey path time ring)
        (b', .get (ringFile path) :: calls, match perr with | some e' => .err e' | none => .loaded data)
  { r with trace := .lock :: r.trace }

/-- the outcome of a whole operation: did it return an error, and the back end it leaves -/
structure Done where
  backend : Backend
  failed : Bool

/-- **`importKeyRing`** (per ring of `ImportKeyRings`): read the ring first; `nil` → the delegate decides
(`onExisting`: overwrite through `importASN1` / skip / abort), the labels of `importOpenCases` →
`openKeyRing` and then `importASN1` (`k`), anything else → that error. -/
def importKeyRing (c : CryptoOps) (sigKey : Bytes) (time : Int) (b : Backend) (path : Bytes)
    (onExisting : Backend → Bytes → Done) (k : Backend → Done) : Done :=
  let r := readKeyRing c sigKey b path
  match r.out with
  | .loaded data => onExisting r.backend data
  | .created => ⟨r.backend, true⟩
  | .err e =>
    if importOpensOn e then
      let o := openKeyRing c sigKey time r.backend path
      match o.out with
      | .err _ => ⟨o.backend, true⟩
      | _ => k o.backend
    else ⟨r.backend, true⟩

/-! ## the read-write entry points of the v2 `ServerKeyStore` -/

/-- A method of the regenerated table `rwEntryPoints`, by its shape. `open-first-return-err` is
```go
ring, err := s.OpenKeyRingRW(<path>);  if err != nil { return …, err };  <rest>
```
`rest` is whatever the method goes on to do with the handle and the back end (arbitrary). A row of any
other shape may do anything (`other`) – the theorem about all entry points needs the fact that there
is no such row. -/
def runEntry (shape : String) (c : CryptoOps) (sigKey : Bytes) (time : Int) (b : Backend) (path : Bytes)
    (rest : Backend → OpenOut → Done) (other : Backend → Done) : Done :=
  if shape = "open-first-return-err" then
    let o := openKeyRing c sigKey time b path
    match o.out with
    | .err _ => ⟨o.backend, true⟩
    | out => rest o.backend out
  else other b

end AcraModel.KeystoreSec.RingOpen
