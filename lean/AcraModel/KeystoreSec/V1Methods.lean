import AcraModel.KeystoreSec.V1NamesLemmas
import AcraModel.Generated.V1Methods
/-!
# Which paths the id-taking methods of the v1 key store touch

`keystore/filesystem/server_keystore.go` (`KeyStore`) and `translator_keystore.go`
(`TranslatorFileSystemKeyStore`): every exported method that builds a file name from a caller-supplied
client id. The table of these methods – and whether each starts with the `keystore.ValidateID` guard –
is regenerated from the source (`Generated.V1Methods.v1IdMethods`); `Method.validates` *looks the
method up in that table*, so the model rejects an id exactly where the source has the guard.

`touched m id e` is the list of paths, relative to the key folder, handed to the `Storage`
(`Stat/Exists/ReadFile/ReadDir/Remove/MkdirAll/TempFile/WriteFile/Link/Rename`) by method `m` for
client id `id` – reads included – with the key cache switched off. What the method cannot know by
itself comes from the environment `e`: the names `ReadDir` returns for the history directories, the
digits `TempFile` appends, the time stamp of the history copy, whether the key exists. Touches of the
key folder itself (`MkdirAll(filepath.Dir(file))`) are not listed. The harness op `C07.v1.access`
compares this list with what a recording `Storage` under the real key store saw.

File names (filenames.go, key_names.go): `<id>_storage[.pub]`, `<id>_storage_sym`, `<id>_hmac`,
`<id>_server[.pub]`, `<id>_translator[.pub]`, `<id>[.pub]` (connector), history `<file>.old/<name>`.
-/
namespace AcraModel.KeystoreSec.V1Methods
open AcraModel.KeystoreSec.Path AcraModel.KeystoreSec.V1

/-- the id-taking methods, in source order -/
inductive Method
  | getClientIDEncryptionPublicKey | getPeerPublicKey | getPrivateKey | getServerDecryptionPrivateKey
  | getServerDecryptionPrivateKeys | generateConnectorKeys | generateServerKeys | generateTranslatorKeys
  | generateDataEncryptionKeys | saveDataEncryptionKeys | getHMACSecretKey | generateHmacKey
  | generateClientIDSymmetricKey | getClientIDSymmetricKeys | getClientIDSymmetricKey
  | destroyClientIDEncryptionKeyPair | destroyClientIDSymmetricKey | destroyHmacSecretKey
  | destroyRotatedClientIDEncryptionKeyPair | destroyRotatedClientIDSymmetricKey | destroyRotatedHmacSecretKey
  | translatorCheckIfPrivateKeyExists | translatorGetPrivateKey
deriving DecidableEq, Repr

open Method in
def Method.all : List Method :=
  [getClientIDEncryptionPublicKey, getPeerPublicKey, getPrivateKey, getServerDecryptionPrivateKey,
   getServerDecryptionPrivateKeys, generateConnectorKeys, generateServerKeys, generateTranslatorKeys,
   generateDataEncryptionKeys, saveDataEncryptionKeys, getHMACSecretKey, generateHmacKey,
   generateClientIDSymmetricKey, getClientIDSymmetricKeys, getClientIDSymmetricKey,
   destroyClientIDEncryptionKeyPair, destroyClientIDSymmetricKey, destroyHmacSecretKey,
   destroyRotatedClientIDEncryptionKeyPair, destroyRotatedClientIDSymmetricKey, destroyRotatedHmacSecretKey,
   translatorCheckIfPrivateKeyExists, translatorGetPrivateKey]

/-- `Receiver.Method` as in the source -/
def Method.goName : Method → String
  | .getClientIDEncryptionPublicKey => "KeyStore.GetClientIDEncryptionPublicKey"
  | .getPeerPublicKey => "KeyStore.GetPeerPublicKey"
  | .getPrivateKey => "KeyStore.GetPrivateKey"
  | .getServerDecryptionPrivateKey => "KeyStore.GetServerDecryptionPrivateKey"
  | .getServerDecryptionPrivateKeys => "KeyStore.GetServerDecryptionPrivateKeys"
  | .generateConnectorKeys => "KeyStore.GenerateConnectorKeys"
  | .generateServerKeys => "KeyStore.GenerateServerKeys"
  | .generateTranslatorKeys => "KeyStore.GenerateTranslatorKeys"
  | .generateDataEncryptionKeys => "KeyStore.GenerateDataEncryptionKeys"
  | .saveDataEncryptionKeys => "KeyStore.SaveDataEncryptionKeys"
  | .getHMACSecretKey => "KeyStore.GetHMACSecretKey"
  | .generateHmacKey => "KeyStore.GenerateHmacKey"
  | .generateClientIDSymmetricKey => "KeyStore.GenerateClientIDSymmetricKey"
  | .getClientIDSymmetricKeys => "KeyStore.GetClientIDSymmetricKeys"
  | .getClientIDSymmetricKey => "KeyStore.GetClientIDSymmetricKey"
  | .destroyClientIDEncryptionKeyPair => "KeyStore.DestroyClientIDEncryptionKeyPair"
  | .destroyClientIDSymmetricKey => "KeyStore.DestroyClientIDSymmetricKey"
  | .destroyHmacSecretKey => "KeyStore.DestroyHmacSecretKey"
  | .destroyRotatedClientIDEncryptionKeyPair => "KeyStore.DestroyRotatedClientIDEncryptionKeyPair"
  | .destroyRotatedClientIDSymmetricKey => "KeyStore.DestroyRotatedClientIDSymmetricKey"
  | .destroyRotatedHmacSecretKey => "KeyStore.DestroyRotatedHmacSecretKey"
  | .translatorCheckIfPrivateKeyExists => "TranslatorFileSystemKeyStore.CheckIfPrivateKeyExists"
  | .translatorGetPrivateKey => "TranslatorFileSystemKeyStore.GetPrivateKey"

def Method.ofGoName (s : String) : Option Method := Method.all.find? (·.goName = s)

/-- does the method's first statement refuse ids `keystore.ValidateID` rejects – read off the
regenerated table (a method missing from the table counts as unguarded) -/
def validatesIn (table : List (String × Bool × List String)) (m : Method) : Bool :=
  match table.find? (·.1 = m.goName) with
  | some (_, g, _) => g
  | none => false

def Method.validates (m : Method) : Bool := validatesIn Generated.V1Methods.v1IdMethods m

/-- the table of the pinned tree after repair 50 (only the writers and `GetPeerPublicKey` guarded):
kept for the counterexample -/
def pinnedTable : List (String × Bool × List String) :=
  Generated.V1Methods.v1IdMethods.map fun (n, _, fs) =>
    (n, decide (n ∈ ["KeyStore.GetPeerPublicKey", "KeyStore.GenerateConnectorKeys", "KeyStore.GenerateServerKeys",
      "KeyStore.GenerateTranslatorKeys", "KeyStore.GenerateDataEncryptionKeys", "KeyStore.SaveDataEncryptionKeys",
      "KeyStore.GenerateHmacKey", "KeyStore.GenerateClientIDSymmetricKey"]), fs)

/-- what the file system, the clock and the temporary-name generator contribute -/
structure Env where
  /-- the key (and, for the rotated destroyers, its history directory) exists and opens -/
  present : Bool
  /-- names `ReadDir(<private file>.old)` returns (regular files only), in directory order -/
  privHist : List Bytes
  /-- names `ReadDir(<public file>.old)` returns -/
  pubHist : List Bytes
  /-- what `TempFile` appends to the private / public file name -/
  tmpPriv : Bytes
  tmpPub : Bytes
  /-- the time stamps `getNewHistoricalFileName` formats for the private / public file -/
  tsPriv : Bytes
  tsPub : Bytes
  /-- index argument of the `DestroyRotated…` methods -/
  index : Nat
deriving Repr

/-- names a real directory listing, the time formatter and `ioutil.TempFile` can produce: directory
entries are ordinary components; the temporary suffix is a non-empty digit string; the time stamp
parses back under the history format -/
structure Env.WellFormed (e : Env) : Prop where
  privHist : ∀ n ∈ e.privHist, GoodComp n
  pubHist : ∀ n ∈ e.pubHist, GoodComp n
  tmpPriv : slash ∉ e.tmpPriv
  tmpPub : slash ∉ e.tmpPub
  tsPriv : isTimestamp e.tsPriv = true
  tsPub : isTimestamp e.tsPub = true

def serverName (id : Bytes) : Bytes := id ++ sServer
def translatorName (id : Bytes) : Bytes := id ++ sTranslator
def oldDir (f : Bytes) : Bytes := f ++ sOld
def histFile (f n : Bytes) : Bytes := f ++ sOld ++ slash :: n

/-- `WriteKeyFile(f)`: `TempFile(f)`, `WriteFile(tmp)`, `Stat(f)`, if it exists `MkdirAll(f.old)` and
`Link/Copy(f, f.old/<time stamp>)`, `Rename(tmp, f)` -/
def writeKeyFile (f tmp ts : Bytes) (existed : Bool) : List Bytes :=
  [f ++ tmp, f] ++ (if existed then [oldDir f, histFile f ts] else [])

/-- `SaveKeyPairWithFilename(f)`: the private file, then `<f>.pub` -/
def savePair (f : Bytes) (e : Env) : List Bytes :=
  writeKeyFile f e.tmpPriv e.tsPriv e.present ++ writeKeyFile (f ++ sPub) e.tmpPub e.tsPub e.present

/-- `GetHistoricalPrivateKeyFilenames(f)` + one read per name (newest first); a failing first read
ends the loop -/
def readAll (f : Bytes) (e : Env) : List Bytes :=
  [oldDir f, f] ++ (if e.present then e.privHist.reverse.map (histFile f) else [])

/-- `destroyRotatedKeyByIndex(f, index)` over the listing `hist` -/
def destroyRotated (f : Bytes) (hist : List Bytes) (index : Nat) : List Bytes × Bool :=
  if 2 ≤ index ∧ index ≤ hist.length + 1 then
    match hist[index - 2]? with
    | some n => ([oldDir f, histFile f n], true)
    | none => ([oldDir f], false)
  else ([oldDir f], false)

/-- the paths method `m` hands to the storage for client id `id` (relative to the key folder) -/
def touched (m : Method) (id : Bytes) (e : Env) : List Bytes :=
  match m with
  | .getClientIDEncryptionPublicKey => [storagePubName id]
  | .getPeerPublicKey => [id ++ sPub]
  | .getPrivateKey => [serverName id]
  | .getServerDecryptionPrivateKey => [storageName id]
  | .getServerDecryptionPrivateKeys => readAll (storageName id) e
  | .generateConnectorKeys => savePair id e
  | .generateServerKeys => savePair (serverName id) e
  | .generateTranslatorKeys => savePair (translatorName id) e
  | .generateDataEncryptionKeys | .saveDataEncryptionKeys => savePair (storageName id) e
  | .getHMACSecretKey => [hmacName id]
  | .generateHmacKey => writeKeyFile (hmacName id) e.tmpPriv e.tsPriv e.present
  | .generateClientIDSymmetricKey => writeKeyFile (symName id) e.tmpPriv e.tsPriv e.present
  | .getClientIDSymmetricKeys => readAll (symName id) e
  | .getClientIDSymmetricKey => [symName id]
  | .destroyClientIDEncryptionKeyPair => [storageName id, storagePubName id]
  | .destroyClientIDSymmetricKey => [symName id]
  | .destroyHmacSecretKey => [hmacName id, hmacName id ++ sPub]
  | .destroyRotatedClientIDEncryptionKeyPair =>
    if e.present then
      let d := destroyRotated (storageName id) e.privHist e.index
      if d.2 then d.1 ++ (destroyRotated (storagePubName id) e.pubHist e.index).1 else d.1
    else [oldDir (storageName id)]
  | .destroyRotatedClientIDSymmetricKey =>
    if e.present then (destroyRotated (symName id) e.privHist e.index).1 else [oldDir (symName id)]
  | .destroyRotatedHmacSecretKey =>
    if e.present then (destroyRotated (hmacName id) e.privHist e.index).1 else [oldDir (hmacName id)]
  | .translatorCheckIfPrivateKeyExists | .translatorGetPrivateKey => [translatorName id]

/-- one call: `none` = refused with `ErrInvalidClientID` before anything is touched -/
def accessWith (table : List (String × Bool × List String)) (m : Method) (id : Bytes) (e : Env) : Option (List Bytes) :=
  if validatesIn table m && !validateID id then none else some (touched m id e)

def access (m : Method) (id : Bytes) (e : Env) : Option (List Bytes) := accessWith Generated.V1Methods.v1IdMethods m id e

/-! ## lemmas -/

theorem isTimestamp_good {ts : Bytes} (h : isTimestamp ts = true) : GoodComp ts := by
  have hc := isTimestamp_chars h
  have hp : (parseTimestamp ts).isSome = true := by
    simp only [isTimestamp, Bool.and_eq_true] at h; exact h.2
  have hlen : 4 ≤ ts.length := by
    match ts, hp with
    | a :: b :: c :: d :: r, _ => simp
    | [], hp => simp [parseTimestamp, year4] at hp
    | [_], hp => simp [parseTimestamp, year4] at hp
    | [_, _], hp => simp [parseTimestamp, year4] at hp
    | [_, _, _], hp => simp [parseTimestamp, year4] at hp
  refine ⟨?_, ?_, ?_, ?_⟩
  · intro e; rw [e] at hlen; simp at hlen
  · intro e; rw [e] at hlen; simp at hlen
  · intro e; rw [e] at hlen; simp [dd] at hlen
  · intro hm
    have := hc _ hm
    revert this; decide

/-- a name built from a valid id, a separator-free suffix, a separator and an ordinary component -/
theorem split_hist_good {id : Bytes} (hv : validateID id = true) (suf n : Bytes) (hs : slash ∉ suf) (hn : GoodComp n) :
    ∀ comp ∈ splitSlash (id ++ suf ++ slash :: n), GoodComp comp := by
  intro comp hc
  rw [splitSlash_append] at hc
  have hg := goodComp_valid_append hv suf hs
  rw [splitSlash_noslash_eq _ hg.2.2.2, splitSlash_noslash_eq _ hn.2.2.2] at hc
  simp only [List.cons_append, List.nil_append, List.mem_cons, List.not_mem_nil, or_false] at hc
  rcases hc with rfl | rfl
  · exact hg
  · exact hn

theorem split_single_good {id : Bytes} (hv : validateID id = true) (suf : Bytes) (hs : slash ∉ suf) :
    ∀ comp ∈ splitSlash (id ++ suf), GoodComp comp := by
  intro comp hc
  have hg := goodComp_valid_append hv suf hs
  rw [splitSlash_noslash_eq _ hg.2.2.2] at hc
  simp only [List.mem_cons, List.not_mem_nil, or_false] at hc
  rw [hc]; exact hg

/-- all paths of a list are made of ordinary components -/
def AllGood (ps : List Bytes) : Prop := ∀ p ∈ ps, ∀ comp ∈ splitSlash p, GoodComp comp

theorem allGood_append {a b : List Bytes} (ha : AllGood a) (hb : AllGood b) : AllGood (a ++ b) := by
  intro p hp
  rcases List.mem_append.mp hp with h | h
  · exact ha p h
  · exact hb p h

theorem allGood_nil : AllGood [] := by intro p hp; cases hp

theorem allGood_cons {p : Bytes} {ps : List Bytes} (hp : ∀ comp ∈ splitSlash p, GoodComp comp) (hps : AllGood ps) : AllGood (p :: ps) := by
  intro q hq
  rcases List.mem_cons.mp hq with rfl | h
  · exact hp
  · exact hps q h

theorem noslash_append {a b : Bytes} (ha : slash ∉ a) (hb : slash ∉ b) : slash ∉ a ++ b := by
  intro h; rcases List.mem_append.mp h with h | h
  · exact ha h
  · exact hb h

theorem writeKeyFile_good {id : Bytes} (hv : validateID id = true) (suf tmp ts : Bytes) (ex : Bool)
    (hs : slash ∉ suf) (htmp : slash ∉ tmp) (hts : isTimestamp ts = true) :
    AllGood (writeKeyFile (id ++ suf) tmp ts ex) := by
  unfold writeKeyFile
  refine allGood_append ?_ ?_
  · refine allGood_cons ?_ (allGood_cons ?_ allGood_nil)
    · rw [List.append_assoc]; exact split_single_good hv _ (noslash_append hs htmp)
    · exact split_single_good hv _ hs
  · cases ex
    · exact allGood_nil
    · simp only [if_true]
      refine allGood_cons ?_ (allGood_cons ?_ allGood_nil)
      · unfold oldDir; rw [List.append_assoc]; exact split_single_good hv _ (noslash_append hs (by decide))
      · unfold histFile; rw [List.append_assoc id]
        exact split_hist_good hv _ _ (noslash_append hs (by decide)) (isTimestamp_good hts)

theorem readAll_good {id : Bytes} (hv : validateID id = true) (suf : Bytes) (hs : slash ∉ suf) (e : Env)
    (hh : ∀ n ∈ e.privHist, GoodComp n) : AllGood (readAll (id ++ suf) e) := by
  unfold readAll
  refine allGood_append ?_ ?_
  · refine allGood_cons ?_ (allGood_cons ?_ allGood_nil)
    · unfold oldDir; rw [List.append_assoc]; exact split_single_good hv _ (noslash_append hs (by decide))
    · exact split_single_good hv _ hs
  · cases e.present
    · exact allGood_nil
    · simp only [if_true]
      intro p hp
      obtain ⟨n, hn, rfl⟩ := List.mem_map.mp hp
      unfold histFile; rw [List.append_assoc id]
      exact split_hist_good hv _ _ (noslash_append hs (by decide)) (hh n (List.mem_reverse.mp hn))

theorem destroyRotated_good {id : Bytes} (hv : validateID id = true) (suf : Bytes) (hs : slash ∉ suf) (hist : List Bytes) (i : Nat)
    (hh : ∀ n ∈ hist, GoodComp n) : AllGood (destroyRotated (id ++ suf) hist i).1 := by
  have hold : ∀ comp ∈ splitSlash (oldDir (id ++ suf)), GoodComp comp := by
    unfold oldDir; rw [List.append_assoc]; exact split_single_good hv _ (noslash_append hs (by decide))
  unfold destroyRotated
  split
  · cases hg : hist[i - 2]? with
    | none => exact allGood_cons hold allGood_nil
    | some n =>
      refine allGood_cons hold (allGood_cons ?_ allGood_nil)
      unfold histFile; rw [List.append_assoc id]
      exact split_hist_good hv _ _ (noslash_append hs (by decide)) (hh n (List.mem_of_getElem? hg))
  · exact allGood_cons hold allGood_nil

end AcraModel.KeystoreSec.V1Methods
