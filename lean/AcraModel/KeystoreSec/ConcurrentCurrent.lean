import AcraModel.KeystoreSec.ConcurrentRefine
/-!
The current marker under replay of committed transaction lists: it is the one written by the last
committed `txSetKeyCurrent` / `txSetKeys`, and a committed `txSetKeyCurrent{old, new}` found the stored
marker equal to `old` at its commit point (the optimistic check of `Apply`).
-/
namespace AcraModel.KeystoreSec.Conc

/-- the current marker after a transaction applied successfully to a ring whose marker was `c` -/
def Tx.currentAfter (c : Int) : Tx → Int
  | .setCurrent _ new => new
  | .setKeys _ c' => c'
  | _ => c

def currentAfterAll (c : Int) (ts : List Tx) : Int := ts.foldl Tx.currentAfter c

/-- the marker after a sequence of committed transaction lists: the one of the last `setCurrent` /
`setKeys` among them, `c` when there is none -/
def lastCurrent (c : Int) (cs : List (List Tx)) : Int := cs.foldl currentAfterAll c

theorem Tx.apply_current {r r' : Ring} {t : Tx} (h : t.apply r = some r') :
    r'.current = t.currentAfter r.current := by
  cases t with
  | add k =>
    simp only [Tx.apply] at h
    split at h
    · cases h
    · cases h; rfl
  | setCurrent old new =>
    simp only [Tx.apply] at h
    split at h
    · cases h
    · split at h
      · cases h
      · split at h
        · cases h
        · cases h; rfl
  | changeState s old new =>
    simp only [Tx.apply] at h
    split at h
    · cases h
    · split at h
      · cases h
      · cases hm : modifyLast (fun k => { k with state := new }) s r.keys with
        | none => simp [hm] at h
        | some ks => simp [hm] at h; subst h; rfl
  | destroyData s =>
    simp only [Tx.apply] at h
    cases hm : modifyLast (fun k => { k with data := 0 }) s r.keys with
    | none => simp [hm] at h
    | some ks => simp [hm] at h; subst h; rfl
  | setKeys ks c =>
    simp only [Tx.apply] at h
    cases h; rfl

theorem applyAll_current : ∀ (ts : List Tx) (r r' : Ring), applyAll ts r = some r' →
    r'.current = currentAfterAll r.current ts
  | [], r, r', h => by simp [applyAll] at h; subst h; rfl
  | t :: ts, r, r', h => by
    simp only [applyAll] at h
    cases ht : t.apply r with
    | none => simp [ht] at h
    | some r1 =>
      simp only [ht, Option.bind_some] at h
      rw [applyAll_current ts r1 r' h, Tx.apply_current ht]
      rfl

theorem replay_current : ∀ (cs : List (List Tx)) (r r' : Ring), replay r cs = some r' →
    r'.current = lastCurrent r.current cs
  | [], r, r', h => by simp [replay] at h; subst h; rfl
  | ts :: cs, r, r', h => by
    simp only [replay] at h
    cases ht : applyAll ts r with
    | none => simp [ht] at h
    | some r1 =>
      simp only [ht, Option.bind_some] at h
      rw [replay_current cs r1 r' h, applyAll_current ts r r1 ht]
      rfl

theorem replay_append (r : Ring) (a b : List (List Tx)) :
    replay r (a ++ b) = (replay r a).bind fun r1 => replay r1 b := by
  induction a generalizing r with
  | nil => simp [replay]
  | cons x xs ih =>
    simp only [List.cons_append, replay]
    cases applyAll x r with
    | none => simp
    | some r' => simp [ih]

/-- what a successful `txSetKeyCurrent.Apply` found: the stored marker is the one the handle had seen,
the new key exists; only the marker changes -/
theorem setCurrent_apply_pre {r r' : Ring} {old new : Int} (h : (Tx.setCurrent old new).apply r = some r') :
    r.current = old ∧ r.hasSeq new = true ∧ r' = { r with current := new } := by
  simp only [Tx.apply] at h
  split at h
  · cases h
  · rename_i hc
    split at h
    · cases h
    · split at h
      · cases h
      · rename_i hn
        cases h
        exact ⟨by simpa using hc, by simpa using hn, rfl⟩

/-- a `SetCurrent` prepared from a view whose marker is not the stored one fails, stores nothing and
refreshes the view -/
theorem atomicOp_setCurrent_stale (ring snap : Ring) (s : Int) (h : snap.current ≠ ring.current) :
    atomicOp ring snap (.setCurrent s) = (ring, ring, none) := by
  have hne : ring.current ≠ snap.current := fun e => h e.symm
  simp [atomicOp, prepare, applyAll, Tx.apply, hne]

end AcraModel.KeystoreSec.Conc
