import AcraModel.KeystoreSec.ConcurrentOrder
import AcraModel.KeystoreSec.ConcurrentRefine
/-!
A stale snapshot is safe in the strong sense: a write prepared from a stale snapshot that passes the
optimistic checks under the lock is *exactly* the write a handle with a fresh snapshot would have
prepared (same transaction list, hence same stored result).
-/
namespace AcraModel.KeystoreSec.Conc

theorem modifyLast_none_iff (f : Key → Key) (s : Int) : ∀ ks, modifyLast f s ks = none ↔ findLast s ks = none
  | [] => by simp [modifyLast, findLast]
  | k :: r => by
    have ih := modifyLast_none_iff f s r
    unfold modifyLast findLast
    cases hm : modifyLast f s r with
    | some r' =>
      cases hf : findLast s r with
      | some k' => simp
      | none => rw [ih.mpr hf] at hm; cases hm
    | none =>
      rw [ih.mp hm]
      by_cases hk : k.seq = s <;> simp [hk]

/-- `modifyLast` changes the key `findLast` finds -/
theorem modifyLast_findLast (f : Key → Key) (hf : ∀ k, (f k).seq = k.seq) (s : Int) :
    ∀ ks ks', modifyLast f s ks = some ks' → ∃ k0, findLast s ks = some k0 ∧ findLast s ks' = some (f k0)
  | [], _, h => by simp [modifyLast] at h
  | k :: r, ks', h => by
    unfold modifyLast at h
    cases hm : modifyLast f s r with
    | some r' =>
      rw [hm] at h
      cases h
      obtain ⟨k0, h1, h2⟩ := modifyLast_findLast f hf s r r' hm
      exact ⟨k0, by simp [findLast, h1], by simp [findLast, h2]⟩
    | none =>
      rw [hm] at h
      have hn := (modifyLast_none_iff f s r).mp hm
      simp only at h
      split at h
      · next hk =>
        cases h
        exact ⟨k, by simp [findLast, hn, hk], by simp [findLast, hn, hf, hk]⟩
      · cases h

/-- **The successful write of a stale handle is the write of a fresh handle.** If the transactions a
handle prepared from the snapshot `snap` apply to the stored ring `ring` (all optimistic checks of
`keyRingTX.Apply` pass), and `snap` is a prefix of `ring` in the sense of the snapshot-prefix invariant,
then preparing the same operation from `ring` itself gives the same transactions. -/
theorem prepare_fresh (ring snap : Ring) (op : Op) (txs : List Tx) (r' : Ring) (hpre : SnapPrefix snap ring)
    (hp : prepare snap op = some txs) (ha : applyAll txs ring = some r') : prepare ring op = some txs := by
  cases op with
  | importKeys ks c => exact hp
  | refresh => exact hp
  | «open» => exact hp
  | addKey d =>
    simp only [prepare, Option.some.injEq] at hp ⊢
    subst hp
    have hn := (add_apply _ ring r' ha).1
    simp only at hn
    rw [nextSeq_eq ring, hpre.fresh hn, ← nextSeq_eq]
  | setCurrent s =>
    simp only [prepare, Option.some.injEq] at hp ⊢
    subst hp
    simp only [applyAll, Tx.apply] at ha
    split at ha
    · simp at ha
    · next hc => simp at hc; rw [hc]
  | setState s st =>
    simp only [prepare] at hp ⊢
    cases hf : findLast s snap.keys with
    | none => simp [hf] at hp
    | some k =>
      simp only [hf] at hp
      split at hp
      · next hv =>
        cases hp
        simp only [applyAll, Tx.apply] at ha
        cases hf' : findLast s ring.keys with
        | none => simp [hf'] at ha
        | some k' =>
          simp only [hf'] at ha
          split at ha
          · simp at ha
          · next hst =>
            simp at hst
            simp [hst, hv]
      · cases hp
  | destroy s =>
    simp only [prepare] at hp ⊢
    cases hf : findLast s snap.keys with
    | none => simp [hf] at hp
    | some k =>
      simp only [hf] at hp
      split at hp
      · next hv =>
        cases hp
        simp only [applyAll, Tx.apply] at ha
        cases hm : modifyLast (fun k => { k with data := 0 }) s ring.keys with
        | none => simp [hm] at ha
        | some ks =>
          obtain ⟨k0, h1, h2⟩ := modifyLast_findLast _ (by intro k; rfl) s ring.keys ks hm
          simp only [hm, Option.map_some, Option.bind_some, h2] at ha
          split at ha
          · simp at ha
          · next hst =>
            simp at hst
            simp [h1, hst, hv]
      · cases hp

/-- the same at the level of the atomic specification -/
theorem atomicOp_fresh (ring snap : Ring) (op : Op) (txs : List Tx) (r' sn' : Ring) (hpre : SnapPrefix snap ring)
    (h : atomicOp ring snap op = (r', sn', some txs)) : atomicOp ring ring op = (r', sn', some txs) := by
  unfold atomicOp at h ⊢
  by_cases hop : op = .refresh
  · simpa [hop] using h
  · simp only [hop, if_false] at h ⊢
    cases hp : prepare snap op with
    | none => simp [hp] at h
    | some t =>
      simp only [hp] at h
      cases ha : applyAll t ring with
      | none => simp [ha] at h
      | some r1 =>
        simp only [ha] at h
        rw [prepare_fresh ring snap op t r1 hpre hp ha]
        simpa [ha] using h

/-! ### in the sequential run every snapshot is a prefix of its ring -/

theorem step_path (s : St) (i j : Nat) : ((step s i).h j).path = (s.h j).path := by
  by_cases hji : j = i
  · subst hji
    unfold step stepCall
    simp only
    repeat' split
    all_goals simp [upd, finish_path]
  · unfold step stepCall
    simp only
    repeat' split
    all_goals simp [upd, hji]

theorem run_path (s : St) (sched : List Nat) (j : Nat) : ((run s sched).h j).path = (s.h j).path := by
  induction sched generalizing s with
  | nil => rfl
  | cons i r ih => rw [show run s (i :: r) = run (step s i) r from rfl, ih, step_path]

/-- the ring file of path `p` changes only at the rename of a handle of that path -/
theorem step_cur (s : St) (i p : Nat) :
    (step s i).cur p = s.cur p ∨
      ((s.h i).pc = .put ∧ (s.h i).path = p ∧ s.new p = some ((step s i).cur p)) := by
  unfold step stepCall
  simp only
  repeat' split
  all_goals first
    | (left; rfl)
    | (rename_i hpc _ r' hnew
       by_cases hp : p = (s.h i).path
       · right; subst hp; exact ⟨hpc, rfl, by simp [hnew]⟩
       · left; simp [upd, hp])

theorem linPoint_event (s : St) (i : Nat) (e : Event) (h : linPoint s i = some e) :
    e.tid = i ∧ e.path = (s.h i).path := by
  unfold linPoint at h
  simp only at h
  repeat' split at h
  all_goals first | (cases h; exact ⟨rfl, rfl⟩) | cases h

theorem atomicOp_snap (ring snap : Ring) (op : Op) :
    (atomicOp ring snap op).2.1 = (atomicOp ring snap op).1 ∨
      ((atomicOp ring snap op).2.1 = snap ∧ (atomicOp ring snap op).1 = ring) := by
  unfold atomicOp
  repeat' split
  all_goals simp

/-- after an atomic operation the handle's snapshot is the stored ring, or it is unchanged -/
theorem exec_snap (a : AState) (e : Event) :
    (a.exec e).snap e.tid = (a.exec e).cur e.path ∨ (a.exec e).snap e.tid = a.snap e.tid := by
  unfold AState.exec
  by_cases hx : a.ex e.path = true
  · simp only [hx, if_true]
    rcases atomicOp_snap (a.cur e.path) (a.snap e.tid) e.op with h1 | ⟨h1, _⟩
    · left; simp [h1]
    · right; simp [h1]
  · by_cases ho : e.op = .open
    · left; simp [hx, ho]
    · right; simp [hx, ho]

theorem exec_snap_other (a : AState) (e : Event) (j : Nat) (h : j ≠ e.tid) : (a.exec e).snap j = a.snap j := by
  unfold AState.exec
  by_cases hx : a.ex e.path = true
  · simp [hx, upd, h]
  · by_cases ho : e.op = .open <;> simp [hx, ho, upd, h]

/-- invariant of the pair (concurrent state, atomic state): every handle of ring `p` has, in the
atomic store, a snapshot that is a prefix of the ring -/
def SeqPrefix (p : Nat) (s : St) (a : AState) : Prop :=
  ∀ j, (s.h j).path = p → SnapPrefix (a.snap j) (s.cur p)

theorem step_seqPrefix (c0 : Nat → Ring) (p : Nat) (s : St) (a : AState) (i : Nat) (hI : Inv c0 s) (hS : Sim s a)
    (hO : OrdInv p s) (h : SeqPrefix p s a) : SeqPrefix p (step s i) (a.after s i) := by
  have hS' := step_sim c0 s a i hI hS
  intro j hj
  rw [step_path] at hj
  -- the ring after the step, seen from an unchanged snapshot
  have hkeep : SnapPrefix (a.snap j) ((step s i).cur p) := by
    rcases step_cur s i p with e | ⟨hpc, hpath, hnew⟩
    · rw [e]; exact h j hj
    · obtain ⟨hp1, hp2⟩ := hI.putOk i hpc
      rw [hpath] at hp1 hp2
      rw [hp1] at hnew
      have := Option.some.inj hnew
      rw [← this]
      exact (hO.txsP i hpath hpc).prefix hp2 (h j hj)
  unfold AState.after
  cases hl : linPoint s i with
  | none => exact hkeep
  | some e =>
    obtain ⟨ht, hp⟩ := linPoint_event s i e hl
    by_cases hji : j = i
    · subst hji
      have hcur := hS'.cur p
      unfold AState.after at hcur
      rw [hl] at hcur
      simp only at hcur ⊢
      rcases exec_snap a e with h1 | h1
      · rw [ht] at h1
        rw [h1, hp, hj, hcur]
        exact snapPrefix_refl _
      · rw [ht] at h1
        rw [h1]; exact hkeep
    · simp only
      rw [exec_snap_other a e j (by rw [ht]; exact hji)]
      exact hkeep

theorem atomicRun_after' (a : AState) (s : St) (i : Nat) : atomicRun a (linPoint s i).toList = a.after s i :=
  atomicRun_after a s i

theorem run_seqPrefix (c0 : Nat → Ring) (p : Nat) (s : St) (a : AState) (sched : List Nat) (hI : Inv c0 s) (hS : Sim s a)
    (hO : OrdInv p s) (h : SeqPrefix p s a) : SeqPrefix p (run s sched) (atomicRun a (linTrace s sched)) := by
  induction sched generalizing s a with
  | nil => exact h
  | cons i r ih =>
    simp only [linTrace, atomicRun_append, atomicRun_after]
    exact ih _ _ (step_inv c0 s i hI) (step_sim c0 s a i hI hS) (step_ord c0 p s i hI hO) (step_seqPrefix c0 p s a i hI hS hO h)

end AcraModel.KeystoreSec.Conc
