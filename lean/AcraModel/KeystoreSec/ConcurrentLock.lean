import AcraModel.KeystoreSec.ConcurrentLemmas
import AcraModel.KeystoreSec.FileLockLemmas
/-!
The lock the concurrency model (`Concurrent.lean`) consults – `St.writer`, `St.readers` – moves only by the
moves of the abstract lock `FileLock.ALock`, the same abstract lock the life-cycle model of the lock file
(`FileLock.lean`) is shown to implement.
-/
namespace AcraModel.KeystoreSec.Conc
open FileLock (ALock AStep AReach)

/-- the abstract lock state of a state of the concurrency model -/
def LockView (s : St) (a : ALock) : Prop := a.writer = s.writer ∧ ∀ j, a.reader j = decide (j ∈ s.readers)

/-- what a step of thread `i` can do to the lock -/
theorem step_lock_cases (s : St) (i : Nat) :
    ((step s i).writer = s.writer ∧ (step s i).readers = s.readers) ∨
    (s.writer = none ∧ s.readers = [] ∧ (step s i).writer = some i ∧ (step s i).readers = s.readers) ∨
    (inCS (s.h i).pc ∧ (step s i).writer = none ∧ (step s i).readers = s.readers) ∨
    (s.writer = none ∧ (step s i).writer = s.writer ∧ (step s i).readers = i :: s.readers) ∨
    (isReader (s.h i).pc ∧ (step s i).writer = s.writer ∧ (step s i).readers = s.readers.erase i) := by
  unfold step stepCall
  simp only
  repeat' split
  all_goals first
    | (left; exact ⟨rfl, rfl⟩)
    | (right; left; simp_all; done)
    | (right; right; left; simp_all [inCS]; done)
    | (right; right; right; left; simp_all; done)
    | (right; right; right; right; simp_all [isReader]; done)

theorem step_lockView (c0 : Nat → Ring) (s : St) (i : Nat) (h : Inv c0 s) (a : ALock) (ha : LockView s a) :
    ∃ b, LockView (step s i) b ∧ AStep a b := by
  rcases step_lock_cases s i with ⟨hw, hr⟩ | ⟨hw0, hr0, hw, hr⟩ | ⟨hcs, hw, hr⟩ | ⟨hw0, hw, hr⟩ | ⟨hrd, hw, hr⟩
  · exact ⟨a, ⟨by rw [hw]; exact ha.1, by intro j; rw [hr]; exact ha.2 j⟩, .stutter rfl (fun _ => rfl)⟩
  · refine ⟨⟨some i, a.reader⟩, ⟨by rw [hw], by intro j; rw [hr]; exact ha.2 j⟩, ?_⟩
    exact .lock i (by rw [ha.1, hw0]) (by intro j; rw [ha.2 j, hr0]; simp) rfl (fun _ => rfl)
  · refine ⟨⟨none, a.reader⟩, ⟨by rw [hw], by intro j; rw [hr]; exact ha.2 j⟩, ?_⟩
    exact .unlock i (by rw [ha.1]; exact h.holder i hcs) rfl (fun _ => rfl)
  · refine ⟨⟨a.writer, fun j => if j = i then true else a.reader j⟩, ⟨by rw [hw]; exact ha.1, ?_⟩, ?_⟩
    · intro j
      rw [hr]
      by_cases hji : j = i
      · subst hji; simp
      · simp [hji, ha.2 j]
    · exact .rlock i (by rw [ha.1, hw0]) rfl (fun _ => rfl)
  · refine ⟨⟨a.writer, fun j => if j = i then false else a.reader j⟩, ⟨by rw [hw]; exact ha.1, ?_⟩, ?_⟩
    · intro j
      rw [hr]
      by_cases hji : j = i
      · subst hji; simp [h.rdNodup.mem_erase_iff]
      · simp [hji, ha.2 j, h.rdNodup.mem_erase_iff]
    · exact .runlock i (by rw [ha.2 i]; simpa using (h.rd i).mpr hrd) rfl (fun _ => rfl)

theorem run_lockView (c0 : Nat → Ring) (s : St) (sched : List Nat) (h : Inv c0 s) (a0 a : ALock)
    (hr : AReach a0 a) (ha : LockView s a) :
    ∃ b, LockView (run s sched) b ∧ AReach a0 b := by
  induction sched generalizing s a with
  | nil => exact ⟨a, ha, hr⟩
  | cons i rest ih =>
    obtain ⟨b, hb, hstep⟩ := step_lockView c0 s i h a ha
    exact ih (step s i) (step_inv c0 s i h) b (.step hr hstep) hb

end AcraModel.KeystoreSec.Conc
