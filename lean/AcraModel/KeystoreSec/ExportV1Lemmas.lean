import AcraModel.KeystoreSec.ExportV1
import AcraModel.KeystoreSec.V1NamesLemmas
/-!
Helper lemmas for the v1 export / import model: file maps, sealability of exported secrets, the
import loop.
-/
namespace AcraModel.KeystoreSec.ExportV1
open AcraModel.KeystoreSec.Path AcraModel.KeystoreSec.V1
open AcraModel.CrossClient (KeyContext keyContextBytes newClientIDKeyContext newKeyContext keyEncrypt keyDecrypt Files)

/-! ## file maps -/

theorem Files.get_put_other (fs : Files) (name name' data : Bytes) (h : name' ≠ name) :
    (fs.put name data).get name' = fs.get name' := by
  have h1 : (name == name') = false := by simpa using fun e => h e.symm
  simp only [CrossClient.Files.get, CrossClient.Files.put, List.find?_cons, h1]
  congr 1
  induction fs with
  | nil => rfl
  | cons x r ih =>
    simp only [List.filter_cons]
    by_cases hx : x.1 = name
    · have hx' : (x.1 == name') = false := by rw [hx]; exact h1
      have hf : (x.1 != name) = false := by simp [hx]
      rw [hf]
      simp only [Bool.false_eq_true, if_false, List.find?_cons, hx']
      exact ih
    · have hf : (x.1 != name) = true := by simpa using hx
      rw [hf]
      simp only [if_true, List.find?_cons, ih]

theorem Files.get_nil (name : Bytes) : CrossClient.Files.get ([] : Files) name = none := rfl

@[simp] theorem emptyCtx_bytes : keyContextBytes emptyCtx = [] := rfl

/-! ## a decrypted value can be sealed again -/

/-- what `Protect` needs from a message -/
def Sealable (m : Bytes) : Prop := m ≠ [] ∧ m.length < maxMsgLen

theorem sealable_of_dec {c : CryptoOps} (hl : SealLaws c) {k x ct m : Bytes} (h : c.dec k x ct = some m) : Sealable m := by
  obtain ⟨n, hn, he⟩ := hl.enc_of_dec _ _ _ _ h
  have hne : c.enc k x m n ≠ none := by rw [he]; simp
  have h1 : ¬ (m = [] ∨ k = [] ∨ n.length ≠ nonceLen ∨ maxMsgLen ≤ m.length) := fun hh => hne ((hl.enc_none k x m n).mpr hh)
  simp only [not_or, Nat.not_le] at h1
  exact ⟨h1.1, h1.2.2.2⟩

theorem enc_some_of_sealable {c : CryptoOps} (hl : SealLaws c) {k x m n : Bytes} (hk : k ≠ []) (hn : n.length = nonceLen)
    (hm : Sealable m) : ∃ ct, c.enc k x m n = some ct := by
  cases he : c.enc k x m n with
  | some ct => exact ⟨ct, rfl⟩
  | none =>
    rcases (hl.enc_none k x m n).mp he with h | h | h | h
    · exact absurd h hm.1
    · exact absurd h hk
    · exact absurd hn h
    · exact absurd hm.2 (Nat.not_lt.mpr h)

/-! ## reading a stored file back -/

/-- what a key store with master key `m` reads from the stored bytes of the file `name` -/
def readBack (e : Env) (m name stored : Bytes) : Option Bytes :=
  if isPrivate name then keyDecrypt e.c m (ctxOfName name) stored else some stored

/-- one record imported into any file map: succeeds, writes exactly the record's file, and the file
reads back as the record's content -/
theorem importRecord_ok (e : Env) (hl : SealLaws e.c) (ν : Nonces) (hν : ∀ a b, (ν a b).length = nonceLen)
    (m : Bytes) (hm : m ≠ []) (fs : Files) (r : Record)
    (hname : targetPath r.1 = r.1) (hdesc : describeOk (base r.1) = true)
    (hseal : isPrivate r.1 = true → Sealable r.2) :
    ∃ stored, importRecord e ν m fs r = (fs.put r.1 stored, true) ∧ readBack e m r.1 stored = some r.2 := by
  unfold importRecord readBack
  by_cases hp : isPrivate r.1 = true
  · simp only [hp, if_true]
    obtain ⟨ct, hct⟩ := enc_some_of_sealable hl (x := keyContextBytes (ctxOfName r.1)) hm (hν r.1 r.2) (hseal hp)
    have hct' : keyEncrypt e.c m (ctxOfName r.1) r.2 (ν r.1 r.2) = some ct := hct
    refine ⟨ct, ?_, ?_⟩
    · simp [hct', hname, hdesc]
    · exact hl.dec_enc _ _ _ _ _ hct
  · simp only [hp]
    exact ⟨r.2, by simp [hname, hdesc], by simp⟩

/-- the import loop over records with pairwise different names: succeeds; afterwards every record's
file reads back as its content, and every other file is as before -/
theorem importRecords_ok (e : Env) (hl : SealLaws e.c) (ν : Nonces) (hν : ∀ a b, (ν a b).length = nonceLen)
    (m : Bytes) (hm : m ≠ []) :
    ∀ (recs : List Record) (fs : Files),
      (∀ r ∈ recs, targetPath r.1 = r.1 ∧ describeOk (base r.1) = true ∧ (isPrivate r.1 = true → Sealable r.2)) →
      (recs.map (·.1)).Nodup →
      ∃ fs', importRecords e ν m fs recs = (fs', true) ∧
        (∀ r ∈ recs, ∃ stored, fs'.get r.1 = some stored ∧ readBack e m r.1 stored = some r.2) ∧
        (∀ p, p ∉ recs.map (·.1) → fs'.get p = fs.get p)
  | [], fs, _, _ => ⟨fs, rfl, by simp, by simp⟩
  | r :: rs, fs, h, hnd => by
    have hr := h r (by simp)
    obtain ⟨stored, hi, hrb⟩ := importRecord_ok e hl ν hν m hm fs r hr.1 hr.2.1 hr.2.2
    have hnd' : (rs.map (·.1)).Nodup := (List.nodup_cons.mp (by simpa using hnd)).2
    have hnotin : r.1 ∉ rs.map (·.1) := (List.nodup_cons.mp (by simpa using hnd)).1
    obtain ⟨fs', h1, h2, h3⟩ := importRecords_ok e hl ν hν m hm rs (fs.put r.1 stored)
      (fun x hx => h x (by simp [hx])) hnd'
    refine ⟨fs', by simp [importRecords, hi, h1], ?_, ?_⟩
    · intro x hx
      simp only [List.mem_cons] at hx
      rcases hx with rfl | hx
      · refine ⟨stored, ?_, hrb⟩
        rw [h3 _ hnotin]
        exact CrossClient.Files.get_put_same _ _ _
      · exact h2 x hx
    · intro p hp
      simp only [List.map_cons, List.mem_cons, not_or] at hp
      rw [h3 p hp.2, Files.get_put_other _ _ _ _ hp.1]

/-! ## exported secrets are sealable -/

theorem mapM_mem' {α β} (f : α → Option β) :
    ∀ (xs : List α) (ys : List β), xs.mapM f = some ys → ∀ y ∈ ys, ∃ x ∈ xs, f x = some y
  | [], ys, h => by simp at h; subst h; simp
  | x :: xs, ys, h => by
    simp only [List.mapM_cons] at h
    cases hx : f x with
    | none => simp [hx] at h
    | some y0 =>
      cases hxs : xs.mapM f with
      | none => simp [hx, hxs] at h
      | some ys' =>
        simp [hx, hxs] at h
        subst h
        intro y hy
        simp at hy
        rcases hy with rfl | hy
        · exact ⟨x, by simp, hx⟩
        · obtain ⟨x', hx', hfx⟩ := mapM_mem' f xs ys' hxs y hy
          exact ⟨x', by simp [hx'], hfx⟩

/-- a record of the export of all keys: its name is a file of the listing, and a private one
carries the decryption of that file under the context derived from the name -/
theorem readFileAsKey_spec (e : Env) (ctxOf : Bytes → KeyContext) (master : Bytes) (f r : Record)
    (h : readFileAsKey e ctxOf master f = some r) :
    r.1 = f.1 ∧ (isPrivate r.1 = true → keyDecrypt e.c master (ctxOf f.1) f.2 = some r.2) ∧
      (isPrivate r.1 = false → r.2 = f.2) := by
  unfold readFileAsKey at h
  by_cases hp : isPrivate f.1 = true
  · simp only [hp, if_true] at h
    cases hd : keyDecrypt e.c master (ctxOf f.1) f.2 with
    | none => simp [hd] at h
    | some pt =>
      simp only [hd, Option.bind_some] at h
      split at h
      · cases h
      · cases h; exact ⟨rfl, fun _ => rfl, fun hq => by simp [hp] at hq⟩
  · have hp' : isPrivate f.1 = false := by simpa using hp
    simp only [hp', Bool.false_eq_true, if_false, Option.bind_some] at h
    split at h
    · cases h
    · cases h
      refine ⟨rfl, fun hq => absurd hq hp, fun _ => rfl⟩

theorem loadSecret_sealable (e : Env) (hl : SealLaws e.c) (s : Store) (name : Bytes) (kc : KeyContext) (k : Bytes)
    (h : loadSecret e s name kc = some k) : Sealable k := by
  unfold loadSecret at h
  cases hf : s.files.get name with
  | none => simp [hf] at h
  | some ct =>
    simp only [hf, Option.bind_some] at h
    exact sealable_of_dec hl h

theorem loadSecret_map_sealable (e : Env) (hl : SealLaws e.c) (s : Store) (name : Bytes) (kc : KeyContext)
    (f : Bytes → Record) (r : Record) (h : (loadSecret e s name kc).map f = some r) : ∃ k, r = f k ∧ Sealable k := by
  cases hs : loadSecret e s name kc with
  | none => simp [hs] at h
  | some k =>
    simp only [hs, Option.map_some, Option.some.injEq] at h
    exact ⟨k, h.symm, loadSecret_sealable e hl s _ _ _ hs⟩

/-- every secret an export emits can be sealed again -/
theorem exportRecords_sealable (e : Env) (hl : SealLaws e.c) (S : Store) (ids : List ExportID) (mode : Mode)
    (recs : List Record) (h : exportRecords e S ids mode = some recs) :
    ∀ r ∈ recs, isPrivate r.1 = true → Sealable r.2 := by
  intro r hr hp
  unfold exportRecords exportRecordsWith at h
  by_cases hids : ids ≠ []
  · rw [if_pos hids] at h
    obtain ⟨x, _, hx⟩ := mapM_mem' _ _ _ h r hr
    unfold exportOne at hx
    cases hk : x.kind <;> simp only [hk] at hx
    · -- poison public: not a private name
      cases hg : getPoisonKeyPair e S with
      | none => simp [hg] at hx
      | some pp =>
        simp only [hg, Option.bind_some] at hx
        split at hx
        · cases hx
          have : isPrivate poisonPub = false := by decide
          rw [this] at hp; cases hp
        · cases hx
    · cases hg : getPoisonKeyPair e S with
      | none => simp [hg] at hx
      | some pp =>
        simp only [hg, Option.map_some, Option.some.injEq] at hx
        subst hx
        unfold getPoisonKeyPair at hg
        cases hs : loadSecret e S poisonKey poisonPairCtx with
        | none => simp [hs] at hg
        | some priv =>
          simp only [hs, Option.bind_some] at hg
          cases hpub : S.files.get poisonPub with
          | none => simp [hpub] at hg
          | some pub =>
            simp only [hpub, Option.map_some, Option.some.injEq] at hg
            subst hg
            exact loadSecret_sealable e hl S _ _ _ hs
    · cases hg : S.files.get (storagePubName x.ctx) with
      | none => simp [hg] at hx
      | some pub =>
        simp only [hg, Option.bind_some] at hx
        split at hx
        · cases hx
          have : isPrivate (storagePubName x.ctx) = false := by
            simp only [storagePubName]; exact isPrivate_pub _
          rw [this] at hp; cases hp
        · cases hx
    · obtain ⟨k, rfl, hk⟩ := loadSecret_map_sealable e hl S _ _ _ r hx; exact hk
    · obtain ⟨k, rfl, hk⟩ := loadSecret_map_sealable e hl S _ _ _ r hx; exact hk
    · obtain ⟨k, rfl, hk⟩ := loadSecret_map_sealable e hl S _ _ _ r hx; exact hk
    · cases hx
  · rw [if_neg hids] at h
    split at h
    · obtain ⟨f, _, hfr⟩ := mapM_mem' _ _ _ h r hr
      obtain ⟨_, h2, _⟩ := readFileAsKey_spec e ctxOfName S.master f r hfr
      exact sealable_of_dec hl (h2 hp)
    · cases h; cases hr

end AcraModel.KeystoreSec.ExportV1
