import AcraModel.KeystoreSec.Der
/-!
# What the v2 key store writes to its back end

`pushNewRingState` = `signKeyRing` + `pushASNring`: the bytes handed to `Backend.Put` for a ring are
the DER `SignedContainer` whose payload is `SignedPayload{TypeKeyRing, 2, time, KeyRing}` – the ring
with every private / symmetric item already encrypted by `addKeyData` – signed with HMAC-SHA-256
under the context `"AKSv2 keystore: key ring signature: <path>"`.

`ringFile` recomputes these bytes from (master key, signature key, time stamp, the ring in
plaintext, the nonces); the correspondence op `C07.ringfile` compares them with what the real key
store handed to `Put`, byte for byte.
-/
namespace AcraModel.KeystoreSec.WriteLog
open AcraModel.KeystoreSec.Export

/-- the stored (encrypted) form of a ring given in plaintext: `newKey` / `copyKey` → `addKeyData` -/
def storedRing (c : CryptoOps) (ν : Nonces) (master : Bytes) (x : Ring) : Option Ring :=
  (x.keys.mapM fun (k : Key) => (k.data.mapM (addKeyData c ν master x.purpose k.seq)).map fun ds => { k with data := ds }).map
    fun ks => { x with keys := ks }

/-- payload bytes (the signed span) of a ring file -/
def ringPayload (time : Int) (stored : Ring) : Bytes :=
  Der.derPayload Der.typeKeyRing time (Der.derRing stored)

/-- the bytes written by `Put(<path>.keyring.new, …)` -/
def ringFile (c : CryptoOps) (ν : Nonces) (master sigKey : Bytes) (time : Int) (x : Ring) : Option Bytes :=
  (storedRing c ν master x).map fun r =>
    Der.derContainer (Notary.sign c sigKey (sigCtx x.purpose) (ringPayload time r))

/-- A stored key-data item is *sealed* w.r.t. its plaintext `d`: the public key is stored as given
and each secret part is either absent or an AEAD output under the master key and the context of
this ring, sequence number and purpose. -/
def SealedData (c : CryptoOps) (master path : Bytes) (seq : Int) (d e : KeyData) : Prop :=
  (e.priv = [] ∨ ∃ n, c.enc master (privCtx path seq) d.priv n = some e.priv) ∧
  (e.sym = [] ∨ ∃ n, c.enc master (symCtx path seq) d.sym n = some e.sym) ∧
  (e.pub = [] ∨ e.pub = d.pub)

theorem addKeyData_sealed (c : CryptoOps) (ν : Nonces) (master path : Bytes) (seq : Int) (d e : KeyData)
    (h : addKeyData c ν master path seq d = some e) : SealedData c master path seq d e := by
  unfold addKeyData at h
  split at h
  · split at h
    · cases h
    · split at h
      · cases h; exact ⟨Or.inl rfl, Or.inl rfl, Or.inr rfl⟩
      · cases he : c.enc master (privCtx path seq) d.priv (ν (privCtx path seq) d.priv) with
        | none => simp [he] at h
        | some ct =>
          simp [he] at h; cases h
          exact ⟨Or.inr ⟨_, he⟩, Or.inl rfl, Or.inr rfl⟩
  · split at h
    · split at h
      · cases h
      · cases he : c.enc master (symCtx path seq) d.sym (ν (symCtx path seq) d.sym) with
        | none => simp [he] at h
        | some ct =>
          simp [he] at h; cases h
          exact ⟨Or.inl rfl, Or.inr ⟨_, he⟩, Or.inl rfl⟩
    · cases h

theorem mapM_mem {α β} (f : α → Option β) :
    ∀ (xs : List α) (ys : List β), xs.mapM f = some ys → ∀ y ∈ ys, ∃ x ∈ xs, f x = some y
  | [], ys, h => by simp at h; subst h; simp
  | x :: xs, ys, h => by
    simp only [List.mapM_cons] at h
    cases hx : f x with
    | none => simp [hx] at h
    | some y0 =>
      cases hxs : xs.mapM f with
      | none => simp [hx, hxs] at h
      | some ys' =>
        simp [hx, hxs] at h
        subst h
        intro y hy
        simp at hy
        rcases hy with rfl | hy
        · exact ⟨x, by simp, hx⟩
        · obtain ⟨x', hx', hfx⟩ := mapM_mem f xs ys' hxs y hy
          exact ⟨x', by simp [hx'], hfx⟩

/-- `sigCtx` is injective in the ring path -/
theorem sigCtx_inj (p q : Bytes) (h : sigCtx p = sigCtx q) : p = q := by
  simp only [sigCtx, ksCtx] at h
  exact List.append_cancel_left (List.append_cancel_left h)

end AcraModel.KeystoreSec.WriteLog
