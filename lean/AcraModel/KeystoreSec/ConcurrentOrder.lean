import AcraModel.KeystoreSec.ConcurrentSeq
/-!
Sequence numbers stay strictly increasing: the **snapshot-prefix invariant**.

Every handle's (possibly stale) snapshot is a *prefix* of the stored ring, and what the stored ring
has beyond the snapshot is numbered consecutively from the snapshot's `nextSeqnum` on. Hence the
number a stale handle computed before taking the lock is either already in the stored ring
(→ `errTxKeyExists`) or exactly the stored ring's own `nextSeqnum`.
The invariant is per ring path and needs that no handle of that path runs an import (`txSetKeys`
replaces the key list without any check).
-/
namespace AcraModel.KeystoreSec.Conc

/-- the sequence numbers of a ring in ring order -/
def Ring.seqs (r : Ring) : List Int := r.keys.map (·.seq)

/-- sequence numbers are strictly increasing in ring order -/
def Incr (r : Ring) : Prop := r.seqs.Pairwise (· < ·)

instance (r : Ring) : Decidable (Incr r) := by unfold Incr; infer_instance

/-- `nextSeqnum` as a function of the list of sequence numbers -/
def nextOf (l : List Int) : Int :=
  match l.getLast? with
  | none => 1
  | some s => s + 1

theorem nextSeq_eq (r : Ring) : r.nextSeq = nextOf r.seqs := by
  unfold Ring.nextSeq nextOf Ring.seqs
  rw [List.getLast?_map]
  cases r.keys.getLast? <;> rfl

/-- `n, n+1, …, n+m-1` -/
def runFrom (n : Int) : Nat → List Int
  | 0 => []
  | m + 1 => n :: runFrom (n + 1) m

theorem runFrom_snoc (n : Int) (m : Nat) : runFrom n (m + 1) = runFrom n m ++ [n + m] := by
  induction m generalizing n with
  | zero => simp [runFrom]
  | succ m ih =>
    rw [runFrom, ih (n + 1)]
    simp only [runFrom, List.cons_append, List.cons.injEq, true_and, List.append_cancel_left_eq]
    exact ⟨by omega, trivial⟩

theorem nextOf_snoc (l : List Int) (a : Int) : nextOf (l ++ [a]) = a + 1 := by
  simp [nextOf]

theorem nextOf_run (l : List Int) (m : Nat) : nextOf (l ++ runFrom (nextOf l) m) = nextOf l + m := by
  cases m with
  | zero => simp [runFrom]
  | succ m =>
    rw [runFrom_snoc, ← List.append_assoc, nextOf_snoc]
    omega

theorem lt_nextOf : ∀ (l : List Int), l.Pairwise (· < ·) → ∀ x ∈ l, x < nextOf l
  | [], _, x, hx => by cases hx
  | [a], _, x, hx => by
    simp at hx; subst hx; simp only [nextOf, List.getLast?_singleton]; omega
  | a :: b :: r, hp, x, hx => by
    have hn : nextOf (a :: b :: r) = nextOf (b :: r) := by simp [nextOf, List.getLast?_cons_cons]
    rw [hn]
    rw [List.pairwise_cons] at hp
    have ih := lt_nextOf (b :: r) hp.2
    rcases List.mem_cons.mp hx with rfl | hx
    · exact Int.lt_trans (hp.1 b (by simp)) (ih b (by simp))
    · exact ih x hx

theorem incr_snoc (l : List Int) (h : l.Pairwise (· < ·)) : (l ++ [nextOf l]).Pairwise (· < ·) := by
  rw [List.pairwise_append]
  refine ⟨h, by simp, ?_⟩
  intro a ha b hb
  simp at hb; subst hb
  exact lt_nextOf l h a ha

theorem incr_nodup (r : Ring) (h : Incr r) : RingOK r := by
  unfold RingOK
  exact List.Pairwise.imp (fun {a b} (hab : a < b) => Int.ne_of_lt hab) h

/-- **snapshot prefix**: the stored ring `cur` is the snapshot `snap` extended by keys numbered
consecutively from the snapshot's next sequence number -/
def SnapPrefix (snap cur : Ring) : Prop := ∃ m : Nat, cur.seqs = snap.seqs ++ runFrom snap.nextSeq m

theorem snapPrefix_of_seqs_eq {snap cur : Ring} (h : cur.seqs = snap.seqs) : SnapPrefix snap cur :=
  ⟨0, by simp [runFrom, h]⟩

theorem snapPrefix_refl (r : Ring) : SnapPrefix r r := snapPrefix_of_seqs_eq rfl

theorem SnapPrefix.keep {snap cur cur' : Ring} (h : SnapPrefix snap cur) (e : cur'.seqs = cur.seqs) : SnapPrefix snap cur' := by
  obtain ⟨m, hm⟩ := h
  exact ⟨m, by rw [e, hm]⟩

theorem SnapPrefix.snap_keep {snap snap' cur : Ring} (h : SnapPrefix snap cur) (e : snap'.seqs = snap.seqs) : SnapPrefix snap' cur := by
  obtain ⟨m, hm⟩ := h
  exact ⟨m, by rw [hm, nextSeq_eq, nextSeq_eq, e]⟩

theorem SnapPrefix.nextSeq {snap cur : Ring} (h : SnapPrefix snap cur) : ∃ m : Nat, cur.nextSeq = snap.nextSeq + m := by
  obtain ⟨m, hm⟩ := h
  refine ⟨m, ?_⟩
  rw [nextSeq_eq cur, hm, nextSeq_eq snap, nextOf_run]

theorem SnapPrefix.append {snap cur cur' : Ring} (h : SnapPrefix snap cur) (e : cur'.seqs = cur.seqs ++ [cur.nextSeq]) :
    SnapPrefix snap cur' := by
  obtain ⟨m, hm⟩ := h
  refine ⟨m + 1, ?_⟩
  rw [e, runFrom_snoc, ← List.append_assoc, ← hm]
  congr 2
  rw [nextSeq_eq cur, hm, nextSeq_eq snap, nextOf_run]

/-- the number computed from the snapshot is not in the stored ring ⇒ the snapshot is up to date
(as far as sequence numbers go) -/
theorem SnapPrefix.fresh {snap cur : Ring} (h : SnapPrefix snap cur) (hn : snap.nextSeq ∉ cur.seqs) : cur.seqs = snap.seqs := by
  obtain ⟨m, hm⟩ := h
  cases m with
  | zero => simpa [runFrom] using hm
  | succ m =>
    exfalso
    apply hn
    rw [hm]
    simp [runFrom]

/-- rings numbered `1..n` (what `AddKey` alone produces) with a snapshot that is a prefix -/
theorem snapPrefix_of_numbered (snap cur : Ring) (n m : Nat) (hs : snap.seqs = runFrom 1 n) (hc : cur.seqs = runFrom 1 (n + m)) :
    SnapPrefix snap cur := by
  have hadd : ∀ (a : Int) (n m : Nat), runFrom a (n + m) = runFrom a n ++ runFrom (a + n) m := by
    intro a n
    induction n generalizing a with
    | zero => intro m; simp [runFrom]
    | succ n ih =>
      intro m
      rw [show n + 1 + m = (n + m) + 1 by omega]
      simp only [runFrom, List.cons_append, List.cons.injEq, true_and]
      rw [ih]
      congr 2
      omega
  have hnext : ∀ (a : Int) (n : Nat), nextOf (runFrom a n) = if n = 0 then 1 else a + n := by
    intro a n
    cases n with
    | zero => simp [runFrom, nextOf]
    | succ n => rw [runFrom_snoc, nextOf_snoc]; simp; omega
  refine ⟨m, ?_⟩
  rw [hc, hs, nextSeq_eq, hs, hadd, hnext]
  cases n with
  | zero => simp
  | succ n => simp

/-! ### transactions that keep the list of sequence numbers -/

def SeqKeep : Tx → Prop
  | .add _ => False
  | .setKeys _ _ => False
  | _ => True

/-- not an import -/
def NoImport : Op → Prop
  | .importKeys _ _ => False
  | _ => True

instance : DecidablePred NoImport := fun op => by cases op <;> unfold NoImport <;> infer_instance

theorem apply_keep (t : Tx) (r r' : Ring) (ht : SeqKeep t) (h : t.apply r = some r') : r'.seqs = r.seqs := by
  cases t with
  | add k => cases ht
  | setKeys ks c => cases ht
  | setCurrent old new =>
    simp only [Tx.apply] at h
    split at h
    · cases h
    · split at h
      · cases h
      · split at h
        · cases h
        · cases h; rfl
  | changeState s old new =>
    simp only [Tx.apply] at h
    split at h
    · cases h
    · split at h
      · cases h
      · cases hm : modifyLast (fun k => { k with state := new }) s r.keys with
        | none => simp [hm] at h
        | some ks =>
          simp [hm] at h; cases h
          exact modifyLast_seqs _ (by intro k; rfl) s r.keys ks hm
  | destroyData s =>
    simp only [Tx.apply] at h
    cases hm : modifyLast (fun k => { k with data := 0 }) s r.keys with
    | none => simp [hm] at h
    | some ks =>
      simp [hm] at h; cases h
      exact modifyLast_seqs _ (by intro k; rfl) s r.keys ks hm

theorem applyAll_keep : ∀ (ts : List Tx) (r r' : Ring), (∀ t ∈ ts, SeqKeep t) → applyAll ts r = some r' → r'.seqs = r.seqs
  | [], r, r', _, h => by simp [applyAll] at h; subst h; rfl
  | t :: ts, r, r', ht, h => by
    simp only [applyAll] at h
    cases ha : t.apply r with
    | none => simp [ha] at h
    | some r1 =>
      simp [ha] at h
      rw [applyAll_keep ts r1 r' (fun t' h' => ht t' (by simp [h'])) h, apply_keep t r r1 (ht t (by simp)) ha]

/-- what a handle may have on its transaction log, relative to the ring `base` it is going to be
applied to: a single `txAddKey` carrying `base`'s next sequence number, or transactions that leave
the list of sequence numbers alone -/
def Shape (txs : List Tx) (base : Ring) : Prop :=
  (∃ k, txs = [.add k] ∧ k.seq = base.nextSeq) ∨ (∀ t ∈ txs, SeqKeep t)

theorem prepare_shape (snap : Ring) (op : Op) (txs : List Tx) (ho : NoImport op) (h : prepare snap op = some txs) :
    Shape txs snap := by
  cases op with
  | importKeys ks c => cases ho
  | addKey d => simp [prepare] at h; subst h; exact Or.inl ⟨_, rfl, rfl⟩
  | setCurrent s => simp [prepare] at h; subst h; right; intro t ht; simp at ht; subst ht; trivial
  | refresh => simp [prepare] at h; subst h; right; intro t ht; simp at ht
  | «open» => simp [prepare] at h; subst h; right; intro t ht; simp at ht
  | setState s st =>
    simp only [prepare] at h
    split at h
    · cases h
    · split at h
      · cases h; right; intro t ht; simp at ht; subst ht; trivial
      · cases h
  | destroy s =>
    simp only [prepare] at h
    split at h
    · cases h
    · split at h
      · cases h; right; intro t ht; simp at ht; rcases ht with rfl | rfl <;> trivial
      · cases h

theorem add_apply (k : Key) (r r' : Ring) (h : applyAll [.add k] r = some r') :
    k.seq ∉ r.seqs ∧ r'.seqs = r.seqs ++ [k.seq] := by
  simp only [applyAll, Tx.apply] at h
  split at h
  · simp at h
  · next hh =>
    simp at h; subst h
    exact ⟨(hasSeq_false_iff r k.seq).mp (by simpa using hh), by simp [Ring.seqs]⟩

/-- applying a well-shaped log to its base ring keeps the sequence numbers or appends the next one -/
theorem Shape.apply {txs : List Tx} {base r' : Ring} (h : Shape txs base) (ha : applyAll txs base = some r') :
    r'.seqs = base.seqs ∨ r'.seqs = base.seqs ++ [base.nextSeq] := by
  rcases h with ⟨k, rfl, hk⟩ | hkeep
  · right; rw [← hk]; exact (add_apply k base r' ha).2
  · left; exact applyAll_keep txs base r' hkeep ha

/-- a log prepared from a stale snapshot that *applies* to the stored ring is well-shaped for the
stored ring: the optimistic check of `txAddKey` succeeded, so the snapshot was not behind -/
theorem Shape.rebase {txs : List Tx} {snap cur r' : Ring} (h : Shape txs snap) (hp : SnapPrefix snap cur)
    (ha : applyAll txs cur = some r') : Shape txs cur := by
  rcases h with ⟨k, rfl, hk⟩ | hkeep
  · left
    refine ⟨k, rfl, ?_⟩
    have hn := (add_apply k cur r' ha).1
    rw [hk] at hn
    rw [hk, nextSeq_eq, nextSeq_eq, hp.fresh hn]
  · exact Or.inr hkeep

theorem Shape.incr {txs : List Tx} {base r' : Ring} (h : Shape txs base) (ha : applyAll txs base = some r')
    (hi : Incr base) : Incr r' := by
  unfold Incr at *
  rcases h.apply ha with e | e
  · rw [e]; exact hi
  · rw [e, nextSeq_eq]; exact incr_snoc _ hi

theorem Shape.prefix {txs : List Tx} {base r' snap : Ring} (h : Shape txs base) (ha : applyAll txs base = some r')
    (hp : SnapPrefix snap base) : SnapPrefix snap r' := by
  rcases h.apply ha with e | e
  · exact hp.keep e
  · exact hp.append e

/-! ### the invariant, per ring path -/

/-- **Snapshot-prefix invariant** for the ring path `p`. -/
structure OrdInv (p : Nat) (s : St) : Prop where
  /-- the stored ring is strictly increasing -/
  incr : Incr (s.cur p)
  /-- no handle of this ring has an import in its program -/
  noImp : ∀ i, (s.h i).path = p → ∀ op ∈ (s.h i).todo, NoImport op
  /-- every handle's snapshot is a prefix of the stored ring (except between `Put` and `Rename`, where
  the snapshot already is the ring about to be stored) -/
  pre : ∀ i, (s.h i).path = p → (s.h i).pc ≠ .put → SnapPrefix (s.h i).snap (s.cur p)
  /-- the transaction log in flight fits the snapshot it was prepared from / re-checked against -/
  txsL : ∀ i, (s.h i).path = p → ((s.h i).pc = .locked ∨ (s.h i).pc = .got) → Shape (s.h i).txs (s.h i).snap
  /-- … and, once written to the temporary file, the stored ring -/
  txsP : ∀ i, (s.h i).path = p → (s.h i).pc = .put → Shape (s.h i).txs (s.cur p)

/-- a step of thread `i` that leaves the ring files alone -/
theorem ord_local (p : Nat) (s s' : St) (i : Nat) (hd' : Handle) (h : OrdInv p s)
    (hc : s'.cur = s.cur) (hh : s'.h = upd s.h i hd')
    (htodo : ∀ op ∈ hd'.todo, op ∈ (s.h i).todo)
    (hpath : hd'.path = (s.h i).path)
    (hpre : hd'.path = p → hd'.pc ≠ .put → SnapPrefix hd'.snap (s.cur p))
    (hL : hd'.path = p → (hd'.pc = .locked ∨ hd'.pc = .got) → Shape hd'.txs hd'.snap)
    (hP : hd'.path = p → hd'.pc = .put → Shape hd'.txs (s.cur p)) : OrdInv p s' := by
  constructor
  · rw [hc]; exact h.incr
  · intro j hj op hop
    rw [hh] at hj hop
    by_cases hji : j = i
    · subst hji; simp only [upd_same] at hj hop; exact h.noImp j (hpath ▸ hj) op (htodo op hop)
    · simp only [upd, if_neg hji] at hj hop; exact h.noImp j hj op hop
  · intro j hj hpc
    rw [hh] at hj hpc
    rw [hh, hc]
    by_cases hji : j = i
    · subst hji; simp only [upd_same] at hj hpc ⊢; exact hpre hj hpc
    · simp only [upd, if_neg hji] at hj hpc ⊢; exact h.pre j hj hpc
  · intro j hj hpc
    rw [hh] at hj hpc
    rw [hh]
    by_cases hji : j = i
    · subst hji; simp only [upd_same] at hj hpc ⊢; exact hL hj hpc
    · simp only [upd, if_neg hji] at hj hpc ⊢; exact h.txsL j hj hpc
  · intro j hj hpc
    rw [hh] at hj hpc
    rw [hh, hc]
    by_cases hji : j = i
    · subst hji; simp only [upd_same] at hj hpc ⊢; exact hP hj hpc
    · simp only [upd, if_neg hji] at hj hpc ⊢; exact h.txsP j hj hpc

theorem finish_path (hd : Handle) (res) : (finish hd res).path = hd.path := by unfold finish; split <;> rfl
theorem finish_snap (hd : Handle) (res) : (finish hd res).snap = hd.snap := by unfold finish; split <;> rfl
theorem finish_pc (hd : Handle) (res) : (finish hd res).pc = .idle := by unfold finish; split <;> rfl

/-- finishing an operation (`Unlock` / `RUnlock` / rejected before locking) -/
theorem ord_finish (p : Nat) (s s' : St) (i : Nat) (res : Option (List Tx)) (h : OrdInv p s)
    (hc : s'.cur = s.cur) (hh : s'.h = upd s.h i (finish (s.h i) res)) (hpc : (s.h i).pc ≠ .put) : OrdInv p s' := by
  refine ord_local p s s' i _ h hc hh (finish_todo _ _) (finish_path _ _) ?_ ?_ ?_
  · intro hp _
    rw [finish_snap]
    rw [finish_path] at hp
    exact h.pre i hp hpc
  · intro _ hc; rw [finish_pc] at hc; rcases hc with hc | hc <;> cases hc
  · intro _ hc; rw [finish_pc] at hc; cases hc

/-- **Every step of every thread preserves the snapshot-prefix invariant** (given the main invariant). -/
theorem step_ord (c0 : Nat → Ring) (p : Nat) (s : St) (i : Nat) (hI : Inv c0 s) (h : OrdInv p s) : OrdInv p (step s i) := by
  cases hpc : (s.h i).pc with
  | idle =>
    cases htodo : (s.h i).todo with
    | nil => rw [show step s i = s by simp [step, stepCall, hpc, htodo]]; exact h
    | cons op rest =>
      by_cases hop : op = .refresh
      · subst hop
        by_cases hw : s.writer = none
        · have e : step s i = { s with readers := i :: s.readers, h := upd s.h i { s.h i with pc := .rlocked } } := by
            simp [step, stepCall, hpc, htodo, hw]
          rw [e]
          refine ord_local p s _ i _ h rfl rfl (fun _ x => x) rfl ?_ ?_ ?_
          · intro hp _; exact h.pre i hp (by simp [hpc])
          · intro _ hc; simp at hc
          · intro _ hc; simp at hc
        · rw [show step s i = s by simp [step, stepCall, hpc, htodo, hw]]; exact h
      · cases hprep : prepare (s.h i).snap op with
        | none =>
          have e : step s i = { s with h := upd s.h i (finish (s.h i) none) } := by
            simp [step, stepCall, hpc, htodo, hop, hprep]
          rw [e]
          exact ord_finish p s _ i none h rfl rfl (by simp [hpc])
        | some txs =>
          by_cases hl : s.writer = none ∧ s.readers = []
          · have e : step s i = { s with writer := some i, h := upd s.h i { s.h i with pc := .locked, txs := txs } } := by
              simp [step, stepCall, hpc, htodo, hop, hprep, hl]
            rw [e]
            refine ord_local p s _ i _ h rfl rfl (fun _ x => x) rfl ?_ ?_ ?_
            · intro hp _; exact h.pre i hp (by simp [hpc])
            · intro hp _
              exact prepare_shape _ op txs (h.noImp i hp op (by simp [htodo])) hprep
            · intro _ hc; simp at hc
          · rw [show step s i = s by simp [step, stepCall, hpc, htodo, hop, hprep, hl]]; exact h
  | locked =>
    have hcsi : inCS (s.h i).pc := by simp [inCS, hpc]
    obtain ⟨op, rest, htodo, hop⟩ := hI.todoW i hcsi
    by_cases hex : s.ex (s.h i).path = true
    · by_cases hopen : op = .open
      · subst hopen
        have e : step s i = { s with commits := s.commits ++ [(⟨i, (s.h i).path, []⟩ : Commit)], h := upd s.h i { s.h i with pc := .renamed, snap := s.cur (s.h i).path, txs := [] } } := by
          simp [step, stepCall, hpc, htodo, hex]
        rw [e]
        refine ord_local p s _ i _ h rfl rfl (fun _ x => x) rfl ?_ ?_ ?_
        · intro hp _; simp only at hp ⊢; rw [hp]; exact snapPrefix_refl _
        · intro _ hc; simp at hc
        · intro _ hc; simp at hc
      · cases happ : applyAll (s.h i).txs (s.cur (s.h i).path) with
        | none =>
          have e : step s i = { s with h := upd s.h i { s.h i with pc := .failed, snap := s.cur (s.h i).path } } := by
            simp [step, stepCall, hpc, htodo, hex, hopen, happ]
          rw [e]
          refine ord_local p s _ i _ h rfl rfl (fun _ x => x) rfl ?_ ?_ ?_
          · intro hp _; simp only at hp ⊢; rw [hp]; exact snapPrefix_refl _
          · intro _ hc; simp at hc
          · intro _ hc; simp at hc
        | some r' =>
          have e : step s i = { s with h := upd s.h i { s.h i with pc := .got, snap := s.cur (s.h i).path } } := by
            simp [step, stepCall, hpc, htodo, hex, hopen, happ]
          rw [e]
          refine ord_local p s _ i _ h rfl rfl (fun _ x => x) rfl ?_ ?_ ?_
          · intro hp _; simp only at hp ⊢; rw [hp]; exact snapPrefix_refl _
          · intro hp _
            simp only at hp ⊢
            have hs := h.txsL i hp (Or.inl hpc)
            have hpre := h.pre i hp (by simp [hpc])
            rw [hp] at happ ⊢
            exact hs.rebase hpre happ
          · intro _ hc; simp at hc
    · have hex' : s.ex (s.h i).path = false := by simpa using hex
      by_cases hopen : op = .open
      · subst hopen
        have e : step s i = { s with h := upd s.h i { s.h i with pc := .got, snap := emptyRing, txs := [] } } := by
          simp [step, stepCall, hpc, htodo, hex']
        rw [e]
        refine ord_local p s _ i _ h rfl rfl (fun _ x => x) rfl ?_ ?_ ?_
        · intro hp _; simp only at hp ⊢
          rw [← hp, (hI.miss _ hex').1]; exact snapPrefix_refl _
        · intro _ _; right; intro t ht; simp at ht
        · intro _ hc; simp at hc
      · have e : step s i = { s with h := upd s.h i { s.h i with pc := .failed } } := by
          simp [step, stepCall, hpc, htodo, hex', hopen]
        rw [e]
        refine ord_local p s _ i _ h rfl rfl (fun _ x => x) rfl ?_ ?_ ?_
        · intro hp _; exact h.pre i hp (by simp [hpc])
        · intro _ hc; simp at hc
        · intro _ hc; simp at hc
  | got =>
    have hcsi : inCS (s.h i).pc := by simp [inCS, hpc]
    obtain ⟨hsnap, hsome⟩ := hI.gotOk i hpc
    cases happ : applyAll (s.h i).txs (s.h i).snap with
    | none => simp [happ] at hsome
    | some r' =>
      cases hnew : s.new (s.h i).path with
      | some x =>
        obtain ⟨j, hj1, hj2⟩ := hI.noNew (s.h i).path (by simp [hnew])
        have : inCS (s.h j).pc := by simp [inCS, hj1]
        have hji := cs_unique hI hcsi this
        subst hji
        simp [hpc] at hj1
      | none =>
        have e : step s i = { s with new := upd s.new (s.h i).path (some r'), h := upd s.h i { s.h i with pc := .put, snap := r' } } := by
          simp [step, stepCall, hpc, happ, hnew]
        rw [e]
        refine ord_local p s _ i _ h rfl rfl (fun _ x => x) rfl ?_ ?_ ?_
        · intro _ hc; simp at hc
        · intro _ hc; simp at hc
        · intro hp _
          simp only at hp ⊢
          have hs := h.txsL i hp (Or.inr hpc)
          rw [hsnap, hp] at hs
          exact hs
  | put =>
    have hcsi : inCS (s.h i).pc := by simp [inCS, hpc]
    obtain ⟨hp1, hp2⟩ := hI.putOk i hpc
    have e : step s i = { s with cur := upd s.cur (s.h i).path (s.h i).snap, new := upd s.new (s.h i).path none, commits := s.commits ++ [(⟨i, (s.h i).path, (s.h i).txs⟩ : Commit)], ex := upd s.ex (s.h i).path true, h := upd s.h i { s.h i with pc := .renamed } } := by
      simp [step, stepCall, hpc, hp1]
    rw [e]
    by_cases hp : (s.h i).path = p
    · have hs := h.txsP i hp hpc
      rw [hp] at hp2
      constructor
      · show Incr (upd s.cur (s.h i).path (s.h i).snap p)
        rw [hp, upd_same]
        exact hs.incr hp2 h.incr
      · intro j hj op hop
        by_cases hji : j = i
        · subst hji; simp only [upd_same] at hj hop; exact h.noImp j hj op hop
        · simp only [upd, if_neg hji] at hj hop; exact h.noImp j hj op hop
      · intro j hj hpcj
        show SnapPrefix ((upd s.h i { s.h i with pc := .renamed }) j).snap (upd s.cur (s.h i).path (s.h i).snap p)
        rw [hp, upd_same]
        by_cases hji : j = i
        · subst hji; simp only [upd_same]; exact snapPrefix_refl _
        · simp only [upd, if_neg hji] at hj hpcj ⊢
          exact hs.prefix hp2 (h.pre j hj hpcj)
      · intro j hj hpcj
        by_cases hji : j = i
        · subst hji; simp at hpcj
        · simp only [upd, if_neg hji] at hj hpcj ⊢
          exact h.txsL j hj hpcj
      · intro j hj hpcj
        by_cases hji : j = i
        · subst hji; simp at hpcj
        · simp only [upd, if_neg hji] at hj hpcj
          have : inCS (s.h j).pc := by simp [inCS, hpcj]
          exact absurd (cs_unique hI hcsi this) hji
    · have hcp : upd s.cur (s.h i).path (s.h i).snap p = s.cur p := by simp [upd, Ne.symm hp]
      constructor
      · show Incr (upd s.cur (s.h i).path (s.h i).snap p)
        rw [hcp]; exact h.incr
      · intro j hj op hop
        by_cases hji : j = i
        · subst hji; simp only [upd_same] at hj hop; exact h.noImp j hj op hop
        · simp only [upd, if_neg hji] at hj hop; exact h.noImp j hj op hop
      · intro j hj hpcj
        show SnapPrefix ((upd s.h i { s.h i with pc := .renamed }) j).snap (upd s.cur (s.h i).path (s.h i).snap p)
        rw [hcp]
        by_cases hji : j = i
        · subst hji; simp only [upd_same] at hj; exact absurd hj hp
        · simp only [upd, if_neg hji] at hj hpcj ⊢
          exact h.pre j hj hpcj
      · intro j hj hpcj
        by_cases hji : j = i
        · subst hji; simp at hpcj
        · simp only [upd, if_neg hji] at hj hpcj ⊢
          exact h.txsL j hj hpcj
      · intro j hj hpcj
        show Shape ((upd s.h i { s.h i with pc := .renamed }) j).txs (upd s.cur (s.h i).path (s.h i).snap p)
        rw [hcp]
        by_cases hji : j = i
        · subst hji; simp at hpcj
        · simp only [upd, if_neg hji] at hj hpcj ⊢
          exact h.txsP j hj hpcj
  | renamed =>
    have e : step s i = { s with writer := none, h := upd s.h i (finish (s.h i) (some (s.h i).txs)) } := by
      simp [step, stepCall, hpc]
    rw [e]
    exact ord_finish p s _ i _ h rfl rfl (by simp [hpc])
  | failed =>
    have e : step s i = { s with writer := none, h := upd s.h i (finish (s.h i) none) } := by
      simp [step, stepCall, hpc]
    rw [e]
    exact ord_finish p s _ i _ h rfl rfl (by simp [hpc])
  | rlocked =>
    by_cases hex : s.ex (s.h i).path = true
    · have e : step s i = { s with h := upd s.h i { s.h i with pc := .rgot, snap := s.cur (s.h i).path } } := by
        simp [step, stepCall, hpc, hex]
      rw [e]
      refine ord_local p s _ i _ h rfl rfl (fun _ x => x) rfl ?_ ?_ ?_
      · intro hp _; simp only at hp ⊢; rw [hp]; exact snapPrefix_refl _
      · intro _ hc; simp at hc
      · intro _ hc; simp at hc
    · have hex' : s.ex (s.h i).path = false := by simpa using hex
      have e : step s i = { s with h := upd s.h i { s.h i with pc := .rfailed } } := by
        simp [step, stepCall, hpc, hex']
      rw [e]
      refine ord_local p s _ i _ h rfl rfl (fun _ x => x) rfl ?_ ?_ ?_
      · intro hp _; exact h.pre i hp (by simp [hpc])
      · intro _ hc; simp at hc
      · intro _ hc; simp at hc
  | rgot =>
    have e : step s i = { s with readers := s.readers.erase i, h := upd s.h i (finish (s.h i) (some [])) } := by
      simp [step, stepCall, hpc]
    rw [e]
    exact ord_finish p s _ i _ h rfl rfl (by simp [hpc])
  | rfailed =>
    have e : step s i = { s with readers := s.readers.erase i, h := upd s.h i (finish (s.h i) none) } := by
      simp [step, stepCall, hpc]
    rw [e]
    exact ord_finish p s _ i _ h rfl rfl (by simp [hpc])

/-- **Every schedule preserves the snapshot-prefix invariant.** -/
theorem run_ord (c0 : Nat → Ring) (p : Nat) (s : St) (sched : List Nat) (hI : Inv c0 s) (h : OrdInv p s) :
    OrdInv p (run s sched) := by
  induction sched generalizing s with
  | nil => exact h
  | cons i r ih => exact ih _ (step_inv c0 s i hI) (step_ord c0 p s i hI h)

end AcraModel.KeystoreSec.Conc
