import AcraModel.KeystoreSec.PathLemmas
import AcraModel.CrossClient.Context
/-!
# Key store v1: file names, the client-id validator and the name → key-context mapping

Follows, line by line,
* `keystore/keystore.go`: `ValidateID`, `KeyContext`, `GetKeyContextFromContext` (the latter two are
  the definitions of `CrossClient/Context.lean`, validated by the C02 ops),
* `keystore/filesystem/filenames.go`, `key_names.go`: the file name of every key,
* `keystore/filesystem/filesystem_backup.go`: `isHistoricalFilename`, `isPrivate`, `isPublic`,
  `getContextFromFilename` (as repaired by `repo-patches/45`; the pinned form is kept as
  `ctxOfNamePinned`),
* `keystore/filesystem/server_keystore.go`: `DescribeKeyFile` restricted to base names.

`isHistoricalFilename` is `time.Parse("2006-01-02T15:04:05.999999999", filepath.Base(name)) == nil`;
`isTimestamp` follows Go 1.23's `time.parse` for exactly this layout (chunk by chunk: 4-digit year,
fixed two-digit month/day/minute/second, one- or two-digit hour, optional fraction introduced by `.`
or `,` with any number of digits, nothing after it, ranges, day of month against the month's length).
All of it is compared with the real functions by the ops `C18.v1.names.*`.
-/
namespace AcraModel.KeystoreSec.V1
open AcraModel.KeystoreSec.Path
open AcraModel.CrossClient (KeyContext keyContextBytes newClientIDKeyContext newKeyContext newEmptyKeyContext)

/-! ## strings -/

/-- `strings.HasSuffix` -/
def hasSuffix (s suf : Bytes) : Bool := suf.isSuffixOf s

/-- `s[:len(s)-len(suf)]` (only used under `hasSuffix s suf`) -/
def dropSuffix (s suf : Bytes) : Bytes := s.take (s.length - suf.length)

/-- `strings.TrimSuffix` -/
def trimSuffix (s suf : Bytes) : Bytes := if hasSuffix s suf then dropSuffix s suf else s

/-- `strings.Split(s, string(c))` -/
def splitByte (c : UInt8) : Bytes → List Bytes
  | [] => [[]]
  | x :: r =>
    if x = c then [] :: splitByte c r
    else match splitByte c r with
      | [] => [[x]]
      | h :: t => (x :: h) :: t

/-! ## `filepath.Base`, `filepath.Dir` (Unix) -/

def stripTrailingSlashes (p : Bytes) : Bytes := (p.reverse.dropWhile (· = slash)).reverse
def afterLastSlash (p : Bytes) : Bytes := (p.reverse.takeWhile (· ≠ slash)).reverse
def uptoLastSlash (p : Bytes) : Bytes := (p.reverse.dropWhile (· ≠ slash)).reverse

/-- `filepath.Base` -/
def base (p : Bytes) : Bytes :=
  if p = [] then [dot]
  else
    let r := afterLastSlash (stripTrailingSlashes p)
    if r = [] then [slash] else r

/-- `filepath.Dir`: `Clean` of everything up to and including the last separator -/
def dirOf (p : Bytes) : Bytes := clean (uptoLastSlash p)

/-! ## literals (tied to the source by `fact_v1_names`) -/

def sStorage : Bytes := ofStr "_storage"
def sSym : Bytes := ofStr "_sym"
def sStorageSym : Bytes := ofStr "_storage_sym"
def sHmac : Bytes := ofStr "_hmac"
def sServer : Bytes := ofStr "_server"
def sTranslator : Bytes := ofStr "_translator"
def sPub : Bytes := ofStr ".pub"
def sOld : Bytes := ofStr ".old"
def sPubOld : Bytes := ofStr ".pub.old"
/-- `PoisonKeyFilename` -/
def poisonKey : Bytes := ofStr ".poison_key/poison_key"
/-- `poisonKeyFilenamePublic` -/
def poisonPub : Bytes := ofStr ".poison_key/poison_key.pub"
/-- `getSymmetricKeyName(PoisonKeyFilename)` -/
def poisonSym : Bytes := ofStr ".poison_key/poison_key_sym"
/-- `SecureLogKeyFilename` -/
def logKey : Bytes := ofStr "secure_log_key"

/-- `GetServerDecryptionKeyFilename` -/
def storageName (id : Bytes) : Bytes := id ++ sStorage
/-- `getPublicKeyFilename(GetServerDecryptionKeyFilename(id))` -/
def storagePubName (id : Bytes) : Bytes := id ++ sStorage ++ sPub
/-- `getClientIDSymmetricKeyName` -/
def symName (id : Bytes) : Bytes := id ++ sStorage ++ sSym
/-- `getHmacKeyFilename` -/
def hmacName (id : Bytes) : Bytes := id ++ sHmac
/-- `getNewHistoricalFileName`: `<file>.old/<timestamp>` -/
def histName (file ts : Bytes) : Bytes := file ++ sOld ++ slash :: ts

/-! ## `keystore.ValidateID` -/

/-- letters, digits and `ValidChars = "_- "`. Go ranges over the *runes* of the id; every byte
`≥ 0x80` decodes to a rune `≥ 0x80` (or U+FFFD) and is rejected, every ASCII byte is its own rune, so
the check is the byte-wise one. -/
def validChar (c : UInt8) : Bool :=
  (97 ≤ c && c ≤ 122) || (65 ≤ c && c ≤ 90) || (48 ≤ c && c ≤ 57) || c = 95 || c = 45 || c = 32

def minClientIDLength : Nat := 5
def maxClientIDLength : Nat := 256

/-- `keystore.ValidateID` -/
def validateID (id : Bytes) : Bool :=
  decide (minClientIDLength ≤ id.length) && decide (id.length ≤ maxClientIDLength) && id.all validChar

/-! ## `time.Parse(HistoricalFileNameTimeFormat, ·)` -/

def isDigit (c : UInt8) : Bool := 48 ≤ c && c ≤ 57
def digitVal (c : UInt8) : Nat := c.toNat - 48

/-- `getnum(s, true)`: exactly two digits -/
def getnum2 : Bytes → Option (Nat × Bytes)
  | a :: b :: r => if isDigit a && isDigit b then some (digitVal a * 10 + digitVal b, r) else none
  | _ => none

/-- `getnum(s, false)`: one or two digits -/
def getnum12 : Bytes → Option (Nat × Bytes)
  | [] => none
  | [a] => if isDigit a then some (digitVal a, []) else none
  | a :: b :: r =>
    if isDigit a then
      if isDigit b then some (digitVal a * 10 + digitVal b, r) else some (digitVal a, b :: r)
    else none

/-- `stdLongYear`: four characters that `atoi` accepts (the first is a digit, so no sign) -/
def year4 : Bytes → Option (Nat × Bytes)
  | a :: b :: c :: d :: r =>
    if isDigit a && isDigit b && isDigit c && isDigit d then
      some (digitVal a * 1000 + digitVal b * 100 + digitVal c * 10 + digitVal d, r)
    else none
  | _ => none

/-- `skip(value, prefix)` for a one-byte, non-space prefix -/
def skipByte (c : UInt8) : Bytes → Option Bytes
  | x :: r => if x = c then some r else none
  | [] => none

/-- `stdFracSecond9`: an optional fraction (`.` or `,` followed by at least one digit) is consumed
with all its digits; anything else is left in place -/
def fracRest (v : Bytes) : Bytes :=
  match v with
  | c :: d :: r => if (c = 46 || c = 44) && isDigit d then (d :: r).dropWhile isDigit else v
  | _ => v

def isLeap (y : Nat) : Bool := y % 4 = 0 && (y % 100 ≠ 0 || y % 400 = 0)

def daysIn (m y : Nat) : Nat :=
  if m = 2 then (if isLeap y then 29 else 28)
  else if m = 4 || m = 6 || m = 9 || m = 11 then 30 else 31

/-- the chunk-by-chunk parse; `some ()` = `err == nil` -/
def parseTimestamp (b : Bytes) : Option Unit := do
  let (y, v) ← year4 b
  let v ← skipByte 45 v
  let (mo, v) ← getnum2 v
  if mo = 0 ∨ 12 < mo then none
  let v ← skipByte 45 v
  let (d, v) ← getnum2 v
  let v ← skipByte 84 v
  let (h, v) ← getnum12 v
  if 24 ≤ h then none
  let v ← skipByte 58 v
  let (mi, v) ← getnum2 v
  if 60 ≤ mi then none
  let v ← skipByte 58 v
  let (s, v) ← getnum2 v
  if 60 ≤ s then none
  if fracRest v ≠ [] then none
  if d < 1 ∨ daysIn mo y < d then none
  pure ()

/-- characters a string accepted by the parse can consist of: digits, `-`, `T`, `:`, `.`, `,` -/
def tsChar (c : UInt8) : Bool := isDigit c || c = 45 || c = 84 || c = 58 || c = 46 || c = 44

/-- `time.Parse(HistoricalFileNameTimeFormat, b)` succeeds. The first conjunct is implied by the
second (every chunk consumes only such characters and nothing may be left over); it is spelled out
so that "a timestamp contains no `_` and no `/`" is immediate. -/
def isTimestamp (b : Bytes) : Bool := b.all tsChar && (parseTimestamp b).isSome

/-- `isHistoricalFilename` -/
def isHistorical (name : Bytes) : Bool := isTimestamp (base name)

/-! ## `isPublic`, `isPrivate`, `getContextFromFilename` -/

def isPublic (f : Bytes) : Bool := hasSuffix f sPub || hasSuffix f sPubOld

def isPrivate (f : Bytes) : Bool :=
  let f := if isHistorical f then base (dirOf f) else f
  if f = poisonKey then true else !isPublic f

/-- purposes (`keystore.Purpose…`) -/
def pSearchHMAC : String := "search_hmac"
def pAuditLog : String := "audit_log"
def pPoisonSym : String := "poison_sym_key"
def pStorageSym : String := "storage_sym_key"
def pPoisonPair : String := "poison_key"
def pStoragePair : String := "storage"
def pStoragePrivate : String := "private_storage"
def pLegacy : String := "legacy"
def pUndefined : String := "undefined"

/-- the part of `getContextFromFilename` after the poison-record cases: the base name, without a
trailing `.old`, classified by suffix in source order -/
def ctxOfBase (f : Bytes) : KeyContext :=
  let f := base f
  let f := if hasSuffix f sOld then dropSuffix f sOld else f
  if hasSuffix f sHmac then newClientIDKeyContext pSearchHMAC (dropSuffix f sHmac)
  else if hasSuffix f sServer then newClientIDKeyContext pLegacy (dropSuffix f sServer)
  else if hasSuffix f sTranslator then newClientIDKeyContext pLegacy (dropSuffix f sTranslator)
  else if hasSuffix f sStorage then newClientIDKeyContext pStoragePrivate (dropSuffix f sStorage)
  else if hasSuffix f sStorageSym then newClientIDKeyContext pStorageSym (dropSuffix f sStorageSym)
  else newKeyContext pUndefined f

/-- `getContextFromFilename` as repaired: a rotated key `<file>.old/<timestamp>` gets the context of
`<file>`; the poison symmetric key gets its whole file name (what `GeneratePoisonSymmetricKey` uses) -/
def ctxOfName (f : Bytes) : KeyContext :=
  let f := if isHistorical f then trimSuffix (dirOf f) sOld else f
  if f = poisonKey then newKeyContext pPoisonPair f
  else if f = poisonSym then newKeyContext pPoisonSym f
  else ctxOfBase f

/-- `getContextFromFilename` on the pinned tree: the history directory keeps its `.old` when it is
compared with the poison names, and the poison symmetric key loses its `_sym` -/
def ctxOfNamePinned (f : Bytes) : KeyContext :=
  let f := if isHistorical f then dirOf f else f
  if f = poisonKey then newKeyContext pPoisonPair f
  else if f = poisonSym then newKeyContext pPoisonSym (dropSuffix f sSym)
  else ctxOfBase f

/-! ## `DescribeKeyFile` on a base name: does it succeed -/

def sKeyring : Bytes := ofStr ".keyring"

/-- `describeV2` then `describeV1` for a name without a directory part (`Import` passes
`filepath.Base(key.Name)`): `true` = a description is returned, `false` = `ErrUnrecognizedKeyPurpose` -/
def describeOk (f : Bytes) : Bool :=
  if hasSuffix f sKeyring then
    let stem := dropSuffix f sKeyring
    stem = ofStr "audit-log" || stem = ofStr "poison-record" || stem = ofStr "poison-record-sym"
  else if f = ofStr "poison_key" || f = ofStr "poison_key.pub" || f = ofStr "poison_key_sym" || f = ofStr "auth_key" then true
  else
    let comps := splitByte 95 f
    if comps.length = 1 then true
    else
      let last := comps.getLast?.getD []
      let pen := (comps.dropLast.getLast?).getD []
      last = ofStr "hmac" || last = ofStr "storage" || last = ofStr "storage.pub" || last = ofStr "zone" || last = ofStr "zone.pub" ||
      (pen = ofStr "storage" && last = ofStr "sym") || (pen = ofStr "zone" && last = ofStr "sym") ||
      (pen = ofStr "log" && last = ofStr "key") ||
      last = ofStr "server" || last = ofStr "server.pub" || last = ofStr "translator" || last = ofStr "translator.pub"

end AcraModel.KeystoreSec.V1
