import AcraModel.KeystoreSec.V1Names
/-!
# Key store v1: `KeyBackuper.Export` / `KeyBackuper.Import`
(`keystore/filesystem/filesystem_backup.go`; the getters of `server_keystore.go` it calls)

A v1 key store is a directory of files; the model keeps it as `Files` = relative path ↦ content
(one key folder: `NewKeyBackuper(dir, "", …)` makes the public folder the private one – the
configuration of `acra-backup`/`acra-keys` by default and of the harness).

* **Export by ids** (`len(exportIDs) != 0`): every id is served through the key store's own getter
  (`GetPoisonKeyPair`, `GetClientIDEncryptionPublicKey`, `GetServerDecryptionPrivateKey`,
  `GetClientIDSymmetricKey`, `GetHMACSecretKey`): read the current file, decrypt it with the master
  key under the context the getter builds, and emit the record `(file name, plaintext)`.
  Only *current* keys can be selected this way – the format carries no history for them.
* **Export all** (no ids; mode `ExportPrivateKeys` or `ExportAllKeys`): every file of the folder in
  `ReadDir` order (recursively, sorted per directory), private files decrypted under the context
  derived *from the file name* (`getContextFromFilename`), public files verified – the rotated keys
  `<file>.old/<timestamp>` are ordinary files of the listing, so the history travels with it.
* The record list is serialised (`encoding/gob`, a parameter `Codec` with the round-trip law as a
  hypothesis) and sealed with one fresh 32-byte access key under the empty context:
  `KeysBackup{Data: enc accessKey [] (ser records), Keys: accessKey}`.
* **Import**: unseal with `backup.Keys`, deserialise, then record by record: a private record is
  encrypted for the target (master key of the target, context from the record's name) and written
  with `Storage.WriteFile(Join(folder, name))`; a public record is written as it is; then
  `DescribeKeyFile(Base(name))` must succeed. The first failure ends the import with an error –
  the files written so far stay.
-/
namespace AcraModel.KeystoreSec.ExportV1
open AcraModel.KeystoreSec.Path AcraModel.KeystoreSec.V1
open AcraModel.CrossClient (KeyContext keyContextBytes newClientIDKeyContext newKeyContext keyEncrypt keyDecrypt Files)

/-- `keystore.Key{Name, Content}` -/
abbrev Record := Bytes × Bytes

structure Store where
  master : Bytes
  files : Files

/-- `keystore.NewEmptyKeyContext(nil)` -/
def emptyCtx : KeyContext := ⟨none, none, ""⟩

/-- environment of the model: the AEAD, and `verifyPublicKey` (a Secure Message `Wrap` towards the
key with a fresh private key succeeds) as a predicate on the public key bytes -/
structure Env where
  c : CryptoOps
  validPub : Bytes → Bool

/-! ## `ReadDir` order -/

/-- byte-wise `<` on strings (Go's string order) -/
def bytesLt : Bytes → Bytes → Bool
  | [], [] => false
  | [], _ :: _ => true
  | _ :: _, [] => false
  | a :: r, b :: s => if a < b then true else if b < a then false else bytesLt r s

/-- order of two relative paths in a recursive, per-directory sorted listing: component-wise -/
def compsLt : List Bytes → List Bytes → Bool
  | [], [] => false
  | [], _ :: _ => true
  | _ :: _, [] => false
  | a :: r, b :: s => if bytesLt a b then true else if bytesLt b a then false else compsLt r s

def pathLt (a b : Bytes) : Bool := compsLt (splitSlash a) (splitSlash b)

def insertRec (x : Record) : List Record → List Record
  | [] => [x]
  | y :: r => if pathLt x.1 y.1 then x :: y :: r else y :: insertRec x r

/-- `ReadDir(storage, folder)`: all files, relative names, in listing order -/
def listing (fs : Files) : List Record := fs.foldr insertRec []

/-! ## the getters `Export` calls for explicit ids -/

/-- read a private/symmetric file and decrypt it under `kc` (`getPrivateKeyByFilename`,
`readEncryptedKey` → `loadKeyAndCache` without a cache) -/
def loadSecret (e : Env) (s : Store) (name : Bytes) (kc : KeyContext) : Option Bytes :=
  (s.files.get name).bind (keyDecrypt e.c s.master kc)

def poisonPairCtx : KeyContext := newKeyContext pPoisonPair poisonKey

/-- `GetPoisonKeyPair`: private part (decrypted), then the public file -/
def getPoisonKeyPair (e : Env) (s : Store) : Option (Bytes × Bytes) :=
  (loadSecret e s poisonKey poisonPairCtx).bind fun priv =>
    (s.files.get poisonPub).map fun pub => (pub, priv)

inductive Kind
  | poisonPublic | poisonPrivate | storagePublic | storagePrivate | symmetric | search
  | other   -- every other `KeyKind`: "unexpected ExportID KeyKind"
deriving DecidableEq, Repr

structure ExportID where
  kind : Kind
  ctx : Bytes
deriving DecidableEq, Repr

/-- one iteration of the `switch exportID.KeyKind` -/
def exportOne (e : Env) (s : Store) (x : ExportID) : Option Record :=
  match x.kind with
  | .poisonPublic =>
    (getPoisonKeyPair e s).bind fun (pub, _) => if e.validPub pub then some (poisonPub, pub) else none
  | .poisonPrivate => (getPoisonKeyPair e s).map fun (_, priv) => (poisonKey, priv)
  | .storagePublic =>
    (s.files.get (storagePubName x.ctx)).bind fun pub =>
      if e.validPub pub then some (storagePubName x.ctx, pub) else none
  | .storagePrivate =>
    (loadSecret e s (storageName x.ctx) (newClientIDKeyContext pStoragePrivate x.ctx)).map fun k => (storageName x.ctx, k)
  | .symmetric =>
    (loadSecret e s (symName x.ctx) (newClientIDKeyContext pStorageSym x.ctx)).map fun k => (symName x.ctx, k)
  | .search =>
    (loadSecret e s (hmacName x.ctx) (newClientIDKeyContext pSearchHMAC x.ctx)).map fun k => (hmacName x.ctx, k)
  | .other => none

/-! ## `readFilesAsKeys` -/

/-- one file of the listing: decrypt if private (context from the name), verify if public.
`ctxOf` is `getContextFromFilename` (repaired or pinned). -/
def readFileAsKey (e : Env) (ctxOf : Bytes → KeyContext) (master : Bytes) (r : Record) : Option Record :=
  let content := if isPrivate r.1 then keyDecrypt e.c master (ctxOf r.1) r.2 else some r.2
  content.bind fun pt => if isPublic r.1 && !e.validPub pt then none else some (r.1, pt)

inductive Mode | publicOnly | privateKeys | allKeys | otherMode
deriving DecidableEq, Repr

/-- the record list `Export` serialises (`none` = it returns an error before that) -/
def exportRecordsWith (ctxOf : Bytes → KeyContext) (e : Env) (s : Store) (ids : List ExportID) (mode : Mode) : Option (List Record) :=
  if ids ≠ [] then ids.mapM (exportOne e s)
  else if mode = .privateKeys ∨ mode = .allKeys then (listing s.files).mapM (readFileAsKey e ctxOf s.master)
  else some []   -- public-only with a single folder reads nothing

def exportRecords := exportRecordsWith ctxOfName
/-- on the pinned tree -/
def exportRecordsPinned := exportRecordsWith ctxOfNamePinned

/-! ## the bundle -/

/-- the gob container, abstractly -/
structure Codec where
  ser : List Record → Bytes
  deser : Bytes → Option (List Record)

structure Codec.Ok (cd : Codec) : Prop where
  roundtrip : ∀ l, cd.deser (cd.ser l) = some l

/-- `keystore.KeysBackup` -/
structure Bundle where
  data : Bytes
  keys : Bytes
deriving DecidableEq, Repr

/-- serialise and seal with the fresh access key (context: none) -/
def sealRecords (e : Env) (cd : Codec) (accessKey nonce : Bytes) (recs : List Record) : Option Bundle :=
  (keyEncrypt e.c accessKey emptyCtx (cd.ser recs) nonce).map fun d => ⟨d, accessKey⟩

/-- `KeyBackuper.Export` -/
def exportBundle (e : Env) (cd : Codec) (s : Store) (ids : List ExportID) (mode : Mode) (accessKey nonce : Bytes) : Option Bundle :=
  (exportRecords e s ids mode).bind (sealRecords e cd accessKey nonce)

/-! ## import -/

/-- nonce oracle of the target's encryptor: an arbitrary function of record name and content -/
abbrev Nonces := Bytes → Bytes → Bytes

/-- where a record lands relative to the key folder: `filepath.Join(folder, name)` cleans the path -/
def targetPath (name : Bytes) : Bytes := clean name

/-- one iteration of the import loop: the files afterwards and whether the iteration succeeded -/
def importRecord (e : Env) (ν : Nonces) (master : Bytes) (fs : Files) (r : Record) : Files × Bool :=
  if isPrivate r.1 then
    match keyEncrypt e.c master (ctxOfName r.1) r.2 (ν r.1 r.2) with
    | none => (fs, false)
    | some ct => (fs.put (targetPath r.1) ct, describeOk (base r.1))
  else (fs.put (targetPath r.1) r.2, describeOk (base r.1))

def importRecords (e : Env) (ν : Nonces) (master : Bytes) : Files → List Record → Files × Bool
  | fs, [] => (fs, true)
  | fs, r :: rs =>
    match importRecord e ν master fs r with
    | (fs', true) => importRecords e ν master fs' rs
    | (fs', false) => (fs', false)

/-- first phase of `Import`: unseal and decode; nothing is written before it succeeded -/
def openBundle (e : Env) (cd : Codec) (b : Bundle) : Option (List Record) :=
  (keyDecrypt e.c b.keys emptyCtx b.data).bind cd.deser

/-- `KeyBackuper.Import`: the target's files afterwards and whether it returned `nil` -/
def importBundle (e : Env) (cd : Codec) (ν : Nonces) (t : Store) (b : Bundle) : Files × Bool :=
  match openBundle e cd b with
  | none => (t.files, false)
  | some recs => importRecords e ν t.master t.files recs

/-! ## what a key store reads back (the observable of "identical key store") -/

/-- everything `Export` (all keys) can read from a store, as a map name ↦ plaintext -/
def plainView (e : Env) (s : Store) : Option (List Record) := exportRecords e s [] .allKeys

end AcraModel.KeystoreSec.ExportV1
