import AcraModel.Basic.Bytes
/-!
# Key path → OS path (`keystore/v2/keystore/filesystem/backend/filesystem.go`)

Model of `pathSeparators.Replace`, Go's `filepath.Clean` / `filepath.Join` / `filepath.Rel` (Unix
flavour, as compiled on the platforms Acra supports) and of `DirectoryBackend.osPath`, both as it is
on the pinned tree (`osPathPinned`: the "conservative check" compares a cleaned path with itself and
never fires) and as repaired (`osPath`: the cleaned path must stay below the root).

Paths are byte strings; a *cleaned path* is kept as `CPath` = rooted flag + list of components, and
only rendered to a string at the very end. `filepath.Rel` re-cleans its arguments; the model passes
the already cleaned `CPath` instead (validated by the correspondence ops `C07.clean/join/rel/ospath`
and by `cleanP_render` where proved).
-/
namespace AcraModel.KeystoreSec.Path

/-- byte string of an ASCII string literal (reduces by `decide`/`rfl`) -/
def ofStr (s : String) : Bytes := s.toList.map fun c => UInt8.ofNat c.toNat

def slash : UInt8 := 47
def dot : UInt8 := 46
def backslash : UInt8 := 92

/-- `..` -/
def dd : Bytes := [dot, dot]

/-- `pathSeparators.Replace`: both `/` and `\` become the OS separator (`/`). -/
def replaceSeps (p : Bytes) : Bytes := p.map fun c => if c = backslash then slash else c

/-- split at every `/` (like `strings.Split(p, "/")`: n separators give n+1 pieces) -/
def splitSlash : Bytes → List Bytes
  | [] => [[]]
  | c :: r =>
    if c = slash then [] :: splitSlash r
    else match splitSlash r with
      | [] => [[c]]           -- unreachable: splitSlash never returns []
      | h :: t => (c :: h) :: t

def joinSlash : List Bytes → Bytes
  | [] => []
  | [c] => c
  | c :: r => c ++ slash :: joinSlash r

/-- a cleaned path: `rooted` = starts with `/`; `comps` = its components in order -/
structure CPath where
  rooted : Bool
  comps : List Bytes
deriving DecidableEq, Repr

/-- One step of `filepath.Clean`'s loop on the component stack (top of the stack first).
Empty and `.` components are dropped; `..` removes the previous real component, is dropped at the
root of a rooted path, and is kept (stacked) in front of a relative path. -/
def pushComp (rooted : Bool) (stack : List Bytes) (c : Bytes) : List Bytes :=
  if c = [] ∨ c = [dot] then stack
  else if c = dd then
    match stack with
    | t :: r => if t = dd then (if rooted then stack else dd :: stack) else r
    | [] => if rooted then [] else [dd]
  else c :: stack

def cleanStack (rooted : Bool) (stack : List Bytes) (cs : List Bytes) : List Bytes :=
  cs.foldl (pushComp rooted) stack

/-- `filepath.Clean` up to rendering -/
def cleanP (p : Bytes) : CPath :=
  let rooted := p.head? = some slash
  ⟨rooted, (cleanStack rooted [] (splitSlash p)).reverse⟩

def render (c : CPath) : Bytes :=
  if c.rooted then slash :: joinSlash c.comps
  else if c.comps = [] then [dot] else joinSlash c.comps

/-- `filepath.Clean` -/
def clean (p : Bytes) : Bytes := render (cleanP p)

/-- `filepath.Join(a, b)` as a cleaned path; `none` = the empty string (both elements empty) -/
def joinP (a b : Bytes) : Option CPath :=
  if a = [] ∧ b = [] then none
  else if a = [] then some (cleanP b)
  else some (cleanP (a ++ slash :: b))

def join2 (a b : Bytes) : Bytes :=
  match joinP a b with
  | none => []
  | some c => render c

/-- strip the common leading components -/
def stripCommon : List Bytes → List Bytes → List Bytes × List Bytes
  | b :: bs, t :: ts => if b = t then stripCommon bs ts else (b :: bs, t :: ts)
  | bs, ts => (bs, ts)

/-- `filepath.Rel(base, targ)` on cleaned paths: components of the result, `none` = error.
(Go quirk kept: a base of `.` is treated as empty, a target of `.` is *not* – `Rel("a", ".") = "../."`.) -/
def relP (b t : CPath) : Option (List Bytes) :=
  if t = b then some [[dot]]
  else if b.rooted ≠ t.rooted then none
  else
    let tc := if t.rooted = false ∧ t.comps = [] then [[dot]] else t.comps
    let (b', t') := stripCommon b.comps tc
    if b'.head? = some dd then none
    else some (b'.map (fun _ => dd) ++ t')

/-- `filepath.Rel` on strings (driver op `C07.rel`) -/
def rel (base targ : Bytes) : Option Bytes := (relP (cleanP base) (cleanP targ)).map joinSlash

/-- does the relative path leave its base: `rel == ".." || strings.HasPrefix(rel, "../")` -/
def escapes (r : Bytes) : Bool := r = dd ∨ r.take 3 = dd ++ [slash]

/-- join a (key) path to a root and refuse it when the joined, cleaned path leaves the root:
`full := filepath.Join(root, p); rel, err := filepath.Rel(root, full); err != nil || rel == ".." ||
strings.HasPrefix(rel, "../")` – the check of `DirectoryBackend.osPath` (after `pathSeparators.Replace`)
and of `KeyBackuper.Import`'s `isInsideFolder` (v1, repair 52). -/
def containedJoin (root p : Bytes) : Out Bytes :=
  match joinP root p with
  | none => .err          -- empty root and empty path: Rel("", "") = "." is fine in Go, but Acra never has an empty root; conservative
  | some full =>
    match relP (cleanP root) full with
    | none => .err
    | some r => if escapes (joinSlash r) then .err else .ok (render full)

/-- `DirectoryBackend.osPath` as repaired: the joined, cleaned path must not leave the root. -/
def osPath (root p : Bytes) : Out Bytes := containedJoin root (replaceSeps p)

/-- where `KeyBackuper.Import` (v1) writes the key named `name` of a bundle into the key folder `root`:
refused when `isInsideFolder(root, name)` is false, else `filepath.Join(root, name)` -/
def importPath (root name : Bytes) : Out Bytes := containedJoin root name

/-- `KeyBackuper.Import` on the pinned tree: `filepath.Join(root, name)` unchecked -/
def importPathPinned (root name : Bytes) : Bytes := join2 root name

/-- `DirectoryBackend.osPath` on the pinned tree: `fullPath != filepath.Clean(fullPath)` can never
hold because `filepath.Join` already cleans – every path is accepted. -/
def osPathPinned (root p : Bytes) : Out Bytes :=
  let full := join2 root (replaceSeps p)
  if full ≠ clean full then .err else .ok full

end AcraModel.KeystoreSec.Path
