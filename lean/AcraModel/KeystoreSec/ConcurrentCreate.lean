import AcraModel.KeystoreSec.ConcurrentFresh
/-!
Ring creation and "every successful `AddKey` is in the stored ring exactly once".

* `step_effect`: what one step can do to the commit log, the ring files and their existence.
* `CommitPath`: a commit record carries the ring path of the handle that made it.
* `AddsKept p`: every key a committed `txAddKey` appended to ring `p` is (by its sequence number) in the
  stored ring – on a ring without imports nothing ever removes a sequence number, and a ring is
  *created* (`OpenKeyRingRW` of a missing ring: `Put`/`Rename` of the empty ring) only while nothing has
  been committed on its path (`Inv.crt`, `Inv.miss`), so creation cannot wipe a committed key either.
* `LogShape`: every successful result of the atomic store is the transaction list `prepare` makes.
-/
namespace AcraModel.KeystoreSec.Conc

/-- one step either leaves commit log, ring files and their existence alone, or is the `Get` of an
`OpenKeyRingRW` that found its ring (empty commit), or is a `Rename` -/
theorem step_effect (s : St) (i : Nat) :
    ((step s i).commits = s.commits ∧ (step s i).cur = s.cur ∧ (step s i).ex = s.ex) ∨
    ((s.h i).pc = .locked ∧ (step s i).commits = s.commits ++ [⟨i, (s.h i).path, []⟩] ∧
      (step s i).cur = s.cur ∧ (step s i).ex = s.ex) ∨
    ((s.h i).pc = .put ∧ ∃ r', s.new (s.h i).path = some r' ∧
      (step s i).commits = s.commits ++ [⟨i, (s.h i).path, (s.h i).txs⟩] ∧
      (step s i).cur = upd s.cur (s.h i).path r' ∧ (step s i).ex = upd s.ex (s.h i).path true) := by
  unfold step stepCall
  simp only
  repeat' split
  all_goals simp_all

/-- every commit record carries the ring path of the handle that made it -/
def CommitPath (s : St) : Prop := ∀ c ∈ s.commits, c.path = (s.h c.tid).path

theorem step_commitPath (s : St) (i : Nat) (h : CommitPath s) : CommitPath (step s i) := by
  intro c hc
  rw [step_path]
  rcases step_effect s i with ⟨e, _, _⟩ | ⟨_, e, _, _⟩ | ⟨_, r', _, e, _, _⟩
  · rw [e] at hc; exact h c hc
  · rw [e] at hc
    rcases List.mem_append.mp hc with hc | hc
    · exact h c hc
    · simp at hc; subst hc; rfl
  · rw [e] at hc
    rcases List.mem_append.mp hc with hc | hc
    · exact h c hc
    · simp at hc; subst hc; rfl

theorem run_commitPath (s : St) (sched : List Nat) (h : CommitPath s) : CommitPath (run s sched) := by
  induction sched generalizing s with
  | nil => exact h
  | cons i r ih => exact ih _ (step_commitPath s i h)

/-- every key appended by a committed `txAddKey` on ring `p` is, by sequence number, in the stored ring -/
def AddsKept (p : Nat) (s : St) : Prop :=
  ∀ c ∈ s.commits, c.path = p → ∀ k, Tx.add k ∈ c.txs → k.seq ∈ (s.cur p).seqs

theorem step_addsKept (c0 : Nat → Ring) (p : Nat) (s : St) (i : Nat) (hI : Inv c0 s) (hO : OrdInv p s)
    (h : AddsKept p s) : AddsKept p (step s i) := by
  intro c hc hcp k hk
  rcases step_effect s i with ⟨e, ec, _⟩ | ⟨_, e, ec, _⟩ | ⟨hpc, r', hnew, e, ec, _⟩
  · rw [e] at hc; rw [ec]; exact h c hc hcp k hk
  · rw [e] at hc; rw [ec]
    rcases List.mem_append.mp hc with hc | hc
    · exact h c hc hcp k hk
    · simp at hc; subst hc; simp at hk
  · obtain ⟨hp1, hp2⟩ := hI.putOk i hpc
    have hr' : r' = (s.h i).snap := by rw [hnew] at hp1; exact Option.some.inj hp1
    rw [e] at hc; rw [ec]
    by_cases hpath : (s.h i).path = p
    · rw [hpath, upd_same, hr']
      rw [hpath] at hp2
      have hs := hO.txsP i hpath hpc
      have hgrow : ∀ x ∈ (s.cur p).seqs, x ∈ (s.h i).snap.seqs := by
        intro x hx
        rcases hs.apply hp2 with e' | e' <;> rw [e'] <;> simp [hx]
      rcases List.mem_append.mp hc with hc | hc
      · exact hgrow _ (h c hc hcp k hk)
      · simp at hc; subst hc
        simp only at hk
        rcases hs with ⟨k', htx, _⟩ | hkeep
        · rw [htx] at hk hp2
          simp at hk; subst hk
          rw [(add_apply k (s.cur p) _ hp2).2]; simp
        · exact absurd (hkeep _ hk) (by simp [SeqKeep])
    · have : upd s.cur (s.h i).path r' p = s.cur p := by simp [upd, Ne.symm hpath]
      rw [this]
      rcases List.mem_append.mp hc with hc | hc
      · exact h c hc hcp k hk
      · simp at hc; subst hc; exact absurd hcp hpath

theorem run_addsKept (c0 : Nat → Ring) (p : Nat) (s : St) (sched : List Nat) (hI : Inv c0 s) (hO : OrdInv p s)
    (h : AddsKept p s) : AddsKept p (run s sched) := by
  induction sched generalizing s with
  | nil => exact h
  | cons i r ih => exact ih _ (step_inv c0 s i hI) (step_ord c0 p s i hI hO) (step_addsKept c0 p s i hI hO h)

/-- a ring file that exists keeps existing -/
theorem step_ex_mono (s : St) (i p : Nat) (h : s.ex p = true) : (step s i).ex p = true := by
  rcases step_effect s i with ⟨_, _, e⟩ | ⟨_, _, _, e⟩ | ⟨_, r', _, _, _, e⟩
  · rw [e]; exact h
  · rw [e]; exact h
  · rw [e]; by_cases hp : p = (s.h i).path <;> simp [upd, hp, h]

theorem run_ex_mono (s : St) (sched : List Nat) (p : Nat) (h : s.ex p = true) : (run s sched).ex p = true := by
  induction sched generalizing s with
  | nil => exact h
  | cons i r ih => exact ih _ (step_ex_mono s i p h)

/-! ### successful results are the transaction lists `prepare` makes -/

def LogShape (log : List (Event × Option (List Tx))) : Prop :=
  ∀ x ∈ log, ∀ txs, x.2 = some txs → (x.1.op = .refresh ∧ txs = []) ∨ ∃ snap, prepare snap x.1.op = some txs

theorem atomicOp_shape (ring snap : Ring) (op : Op) (txs : List Tx) (h : (atomicOp ring snap op).2.2 = some txs) :
    (op = .refresh ∧ txs = []) ∨ ∃ sn, prepare sn op = some txs := by
  unfold atomicOp at h
  by_cases hop : op = .refresh
  · left; simp [hop] at h; exact ⟨hop, h⟩
  · right
    simp only [hop, if_false] at h
    cases hp : prepare snap op with
    | none => simp [hp] at h
    | some t =>
      simp only [hp] at h
      cases ha : applyAll t ring with
      | none => simp [ha] at h
      | some r1 => simp [ha] at h; subst h; exact ⟨snap, hp⟩

theorem exec_logShape (a : AState) (e : Event) (h : LogShape a.log) : LogShape (a.exec e).log := by
  intro x hx txs hres
  unfold AState.exec at hx
  by_cases hex : a.ex e.path = true
  · simp only [hex, if_true] at hx
    rcases List.mem_append.mp hx with hx | hx
    · exact h x hx txs hres
    · simp at hx; subst hx
      exact atomicOp_shape _ _ _ txs hres
  · by_cases ho : e.op = .open
    · simp only [hex, ho, if_true] at hx
      rcases List.mem_append.mp hx with hx | hx
      · exact h x hx txs hres
      · simp at hx; subst hx
        simp at hres; subst hres
        right; exact ⟨emptyRing, by simp [ho, prepare]⟩
    · simp only [hex, ho, if_false] at hx
      rcases List.mem_append.mp hx with hx | hx
      · exact h x hx txs hres
      · simp at hx; subst hx; simp at hres

theorem atomicRun_logShape (a : AState) (es : List Event) (h : LogShape a.log) : LogShape (atomicRun a es).log := by
  induction es generalizing a with
  | nil => exact h
  | cons e r ih => exact ih _ (exec_logShape a e h)

end AcraModel.KeystoreSec.Conc
