import AcraModel.KeystoreSec.Concurrent
/-! Invariant of the concurrent key-store model, preserved by every step of every thread. -/
namespace AcraModel.KeystoreSec.Conc

def inCS (pc : PC) : Prop := pc = .locked ∨ pc = .got ∨ pc = .put ∨ pc = .renamed ∨ pc = .failed
def isReader (pc : PC) : Prop := pc = .rlocked ∨ pc = .rgot ∨ pc = .rfailed

instance (pc : PC) : Decidable (inCS pc) := by unfold inCS; infer_instance
instance (pc : PC) : Decidable (isReader pc) := by unfold isReader; infer_instance

theorem replay_snoc (r : Ring) (a : List (List Tx)) (t : List Tx) :
    replay r (a ++ [t]) = (replay r a).bind (applyAll t) := by
  induction a generalizing r with
  | nil => cases h : applyAll t r <;> simp [replay, h]
  | cons x xs ih =>
    simp only [List.cons_append, replay]
    cases applyAll x r with
    | none => simp
    | some r' => simp [ih]

/-- The invariant. `c0` is the initial content of the ring files. -/
structure Inv (c0 : Nat → Ring) (s : St) : Prop where
  holder : ∀ i, inCS (s.h i).pc → s.writer = some i
  rd : ∀ i, i ∈ s.readers ↔ isReader (s.h i).pc
  rdNodup : s.readers.Nodup
  excl : s.writer ≠ none → s.readers = []
  todoW : ∀ i, inCS (s.h i).pc → ∃ op rest, (s.h i).todo = op :: rest ∧ op ≠ .refresh
  todoR : ∀ i, isReader (s.h i).pc → ∃ rest, (s.h i).todo = .refresh :: rest
  gotOk : ∀ i, (s.h i).pc = .got → (s.h i).snap = s.cur (s.h i).path ∧ (applyAll (s.h i).txs (s.h i).snap).isSome
  putOk : ∀ i, (s.h i).pc = .put → s.new (s.h i).path = some (s.h i).snap ∧
            applyAll (s.h i).txs (s.cur (s.h i).path) = some (s.h i).snap
  noNew : ∀ p, s.new p ≠ none → ∃ i, (s.h i).pc = .put ∧ (s.h i).path = p
  lin : ∀ p, replay (c0 p) (commitsOn s p) = some (s.cur p)
  mine : ∀ i, commitsBy s i = okWrites (s.h i).done ++ (if (s.h i).pc = .renamed then [(s.h i).txs] else [])
  /-- a missing ring file is represented by the empty ring and nothing was ever committed on its path -/
  miss : ∀ p, s.ex p = false → s.cur p = emptyRing ∧ commitsOn s p = []
  /-- between `Get` and `Rename` the ring is missing exactly when the operation is `OpenKeyRingRW`
  (which then pushes no transactions): only `openKeyRing` creates, and only a ring that is not there -/
  crt : ∀ i, ((s.h i).pc = .got ∨ (s.h i).pc = .put) →
    ((s.ex (s.h i).path = false ↔ ∃ rest, (s.h i).todo = .open :: rest) ∧
     (s.ex (s.h i).path = false → (s.h i).txs = []))

theorem okWrites_snoc_none (d : List (Op × Option (List Tx))) (op : Op) :
    okWrites (d ++ [(op, none)]) = okWrites d := by
  simp [okWrites, List.filterMap_append]

theorem okWrites_snoc_refresh (d : List (Op × Option (List Tx))) (r : Option (List Tx)) :
    okWrites (d ++ [(.refresh, r)]) = okWrites d := by
  simp [okWrites, List.filterMap_append]

theorem okWrites_snoc_some (d : List (Op × Option (List Tx))) (op : Op) (t : List Tx) (h : op ≠ .refresh) :
    okWrites (d ++ [(op, some t)]) = okWrites d ++ [t] := by
  simp [okWrites, List.filterMap_append, h]


theorem cs_unique {c0 : Nat → Ring} {s : St} (h : Inv c0 s) {i j : Nat} (hi : inCS (s.h i).pc) (hj : inCS (s.h j).pc) : j = i := by
  have a := h.holder i hi
  have b := h.holder j hj
  rw [a] at b
  exact (Option.some.inj b).symm

/-- idle → rlocked (RLock acquired) -/
theorem inv_rlock (c0 : Nat → Ring) (s : St) (i : Nat) (h : Inv c0 s)
    (hpc : (s.h i).pc = .idle) (rest : List Op) (htodo : (s.h i).todo = .refresh :: rest)
    (hw : s.writer = none) :
    Inv c0 { s with readers := i :: s.readers, h := upd s.h i { s.h i with pc := .rlocked } } := by
  have hni : i ∉ s.readers := by rw [h.rd i]; simp [hpc, isReader]
  constructor
  · intro j hj
    by_cases hji : j = i
    · subst hji; simp [inCS] at hj
    · simp only [upd, if_neg hji] at hj; exact h.holder j hj
  · intro j
    by_cases hji : j = i
    · subst hji; simp [isReader]
    · simp only [upd, if_neg hji, List.mem_cons, hji, false_or]; exact h.rd j
  · exact List.nodup_cons.mpr ⟨hni, h.rdNodup⟩
  · intro hc; exact absurd hw hc
  · intro j hj
    by_cases hji : j = i
    · subst hji; simp [inCS] at hj
    · simp only [upd, if_neg hji] at hj ⊢; exact h.todoW j hj
  · intro j hj
    by_cases hji : j = i
    · subst hji; simp only [upd_same]; exact ⟨rest, htodo⟩
    · simp only [upd, if_neg hji] at hj ⊢; exact h.todoR j hj
  · intro j hj
    by_cases hji : j = i
    · subst hji; simp at hj
    · simp only [upd, if_neg hji] at hj ⊢; exact h.gotOk j hj
  · intro j hj
    by_cases hji : j = i
    · subst hji; simp at hj
    · simp only [upd, if_neg hji] at hj ⊢; exact h.putOk j hj
  · intro p hp
    obtain ⟨j, hj1, hj2⟩ := h.noNew p hp
    have hji : j ≠ i := by intro e; subst e; simp [hpc] at hj1
    exact ⟨j, by simp only [upd, if_neg hji]; exact hj1, by simp only [upd, if_neg hji]; exact hj2⟩
  · exact h.lin
  · intro j
    by_cases hji : j = i
    · subst hji
      have := h.mine j
      simp only [hpc] at this
      simpa [commitsBy] using this
    · simp only [upd, if_neg hji]; exact h.mine j
  · exact h.miss
  · intro j hj
    by_cases hji : j = i
    · subst hji; simp at hj
    · simp only [upd, if_neg hji] at hj ⊢; exact h.crt j hj

/-- a local step of thread `i` inside its critical section or from idle to idle that changes neither
the lock nor the files nor the commit log: new handle `hd'` keeps path; obligations as hypotheses -/
theorem inv_local (c0 : Nat → Ring) (s : St) (i : Nat) (h : Inv c0 s) (hd' : Handle)
    (hcs : inCS hd'.pc → s.writer = some i)
    (hrd : isReader hd'.pc ↔ isReader (s.h i).pc)
    (htw : inCS hd'.pc → ∃ op rest, hd'.todo = op :: rest ∧ op ≠ .refresh)
    (htr : isReader hd'.pc → ∃ rest, hd'.todo = .refresh :: rest)
    (hgot : hd'.pc = .got → hd'.snap = s.cur hd'.path ∧ (applyAll hd'.txs hd'.snap).isSome)
    (hput : hd'.pc = .put → s.new hd'.path = some hd'.snap ∧ applyAll hd'.txs (s.cur hd'.path) = some hd'.snap)
    (hnp : (s.h i).pc = .put → hd'.pc = .put ∧ hd'.path = (s.h i).path)
    (hcrt : (hd'.pc = .got ∨ hd'.pc = .put) →
      ((s.ex hd'.path = false ↔ ∃ rest, hd'.todo = .open :: rest) ∧ (s.ex hd'.path = false → hd'.txs = [])))
    (hmine : okWrites hd'.done ++ (if hd'.pc = .renamed then [hd'.txs] else []) =
             okWrites (s.h i).done ++ (if (s.h i).pc = .renamed then [(s.h i).txs] else [])) :
    Inv c0 { s with h := upd s.h i hd' } := by
  constructor
  · intro j hj
    by_cases hji : j = i
    · subst hji; simp only [upd_same] at hj; exact hcs hj
    · simp only [upd, if_neg hji] at hj; exact h.holder j hj
  · intro j
    by_cases hji : j = i
    · subst hji; simp only [upd_same]; rw [hrd]; exact h.rd j
    · simp only [upd, if_neg hji]; exact h.rd j
  · exact h.rdNodup
  · exact h.excl
  · intro j hj
    by_cases hji : j = i
    · subst hji; simp only [upd_same] at hj ⊢; exact htw hj
    · simp only [upd, if_neg hji] at hj ⊢; exact h.todoW j hj
  · intro j hj
    by_cases hji : j = i
    · subst hji; simp only [upd_same] at hj ⊢; exact htr hj
    · simp only [upd, if_neg hji] at hj ⊢; exact h.todoR j hj
  · intro j hj
    by_cases hji : j = i
    · subst hji; simp only [upd_same] at hj ⊢; exact hgot hj
    · simp only [upd, if_neg hji] at hj ⊢; exact h.gotOk j hj
  · intro j hj
    by_cases hji : j = i
    · subst hji; simp only [upd_same] at hj ⊢; exact hput hj
    · simp only [upd, if_neg hji] at hj ⊢; exact h.putOk j hj
  · intro p hp
    obtain ⟨j, hj1, hj2⟩ := h.noNew p hp
    by_cases hji : j = i
    · subst hji
      obtain ⟨a, b⟩ := hnp hj1
      exact ⟨j, by simp only [upd_same]; exact a, by simp only [upd_same]; rw [b]; exact hj2⟩
    · exact ⟨j, by simp only [upd, if_neg hji]; exact hj1, by simp only [upd, if_neg hji]; exact hj2⟩
  · exact h.lin
  · intro j
    by_cases hji : j = i
    · subst hji
      simp only [upd_same]
      rw [hmine]
      exact h.mine j
    · simp only [upd, if_neg hji]; exact h.mine j
  · exact h.miss
  · intro j hj
    by_cases hji : j = i
    · subst hji; simp only [upd_same] at hj ⊢; exact hcrt hj
    · simp only [upd, if_neg hji] at hj ⊢; exact h.crt j hj




/-- idle → locked (`Lock` acquired) -/
theorem inv_lock (c0 : Nat → Ring) (s : St) (i : Nat) (h : Inv c0 s) (txs : List Tx)
    (hpc : (s.h i).pc = .idle) (op : Op) (rest : List Op) (htodo : (s.h i).todo = op :: rest) (hop : op ≠ .refresh)
    (hw : s.writer = none) (hr : s.readers = []) :
    Inv c0 { s with writer := some i, h := upd s.h i { s.h i with pc := .locked, txs := txs } } := by
  constructor
  · intro j hj
    by_cases hji : j = i
    · simp [hji]
    · simp [upd, hji] at hj
      have := h.holder j hj
      simp [hw] at this
  · intro j
    by_cases hji : j = i
    · subst hji
      simp [upd, hr, isReader]
    · simp [upd, hji]; exact h.rd j
  · exact h.rdNodup
  · intro _; exact hr
  · intro j hj
    by_cases hji : j = i
    · subst hji; simp only [upd_same]; exact ⟨op, rest, htodo, hop⟩
    · simp only [upd, if_neg hji] at hj ⊢; exact h.todoW j hj
  · intro j hj
    by_cases hji : j = i
    · subst hji; simp [upd, isReader] at hj
    · simp [upd, hji] at hj ⊢; exact h.todoR j hj
  · intro j hj
    by_cases hji : j = i
    · subst hji; simp [upd] at hj
    · simp [upd, hji] at hj ⊢; exact h.gotOk j hj
  · intro j hj
    by_cases hji : j = i
    · subst hji; simp [upd] at hj
    · simp [upd, hji] at hj ⊢; exact h.putOk j hj
  · intro p hp
    obtain ⟨j, hj1, hj2⟩ := h.noNew p hp
    have hji : j ≠ i := by intro e; subst e; simp [hpc] at hj1
    exact ⟨j, by simp [upd, hji, hj1], by simp [upd, hji, hj2]⟩
  · exact h.lin
  · intro j
    by_cases hji : j = i
    · subst hji
      have := h.mine j
      simp [hpc] at this
      simp [upd, commitsBy] at this ⊢
      exact this
    · simp [upd, hji]; exact h.mine j
  · exact h.miss
  · intro j hj
    by_cases hji : j = i
    · subst hji; simp at hj
    · simp only [upd, if_neg hji] at hj ⊢; exact h.crt j hj


/-- got → put: `Put <ring>.keyring.new` succeeded -/
theorem inv_put (c0 : Nat → Ring) (s : St) (i : Nat) (h : Inv c0 s) (r' : Ring)
    (hpc : (s.h i).pc = .got) (happ : applyAll (s.h i).txs (s.h i).snap = some r') :
    Inv c0 { s with new := upd s.new (s.h i).path (some r'),
                    h := upd s.h i { s.h i with pc := .put, snap := r' } } := by
  have hcsi : inCS (s.h i).pc := by simp [inCS, hpc]
  have hwi := h.holder i hcsi
  constructor
  · intro j hj
    by_cases hji : j = i
    · subst hji; exact hwi
    · simp only [upd, if_neg hji] at hj; exact h.holder j hj
  · intro j
    by_cases hji : j = i
    · subst hji; simp only [upd_same]
      have := h.rd j; simp [hpc, isReader] at this ⊢; exact this
    · simp only [upd, if_neg hji]; exact h.rd j
  · exact h.rdNodup
  · exact h.excl
  · intro j hj
    by_cases hji : j = i
    · subst hji; simp only [upd_same]; exact h.todoW j hcsi
    · simp only [upd, if_neg hji] at hj ⊢; exact h.todoW j hj
  · intro j hj
    by_cases hji : j = i
    · subst hji; simp [isReader] at hj
    · simp only [upd, if_neg hji] at hj ⊢; exact h.todoR j hj
  · intro j hj
    by_cases hji : j = i
    · subst hji; simp at hj
    · simp only [upd, if_neg hji] at hj ⊢; exact h.gotOk j hj
  · intro j hj
    by_cases hji : j = i
    · subst hji
      simp only [upd_same]
      refine ⟨by simp, ?_⟩
      have := (h.gotOk j hpc).1
      rw [← this]; exact happ
    · simp only [upd, if_neg hji] at hj
      have : inCS (s.h j).pc := by simp [inCS, hj]
      exact absurd (cs_unique h hcsi this) hji
  · intro p hp
    by_cases hpp : p = (s.h i).path
    · exact ⟨i, by simp, by simp [hpp]⟩
    · simp only [upd, if_neg hpp] at hp
      obtain ⟨j, hj1, hj2⟩ := h.noNew p hp
      have hji : j ≠ i := by intro e; subst e; simp [hpc] at hj1
      exact ⟨j, by simp only [upd, if_neg hji]; exact hj1, by simp only [upd, if_neg hji]; exact hj2⟩
  · exact h.lin
  · intro j
    by_cases hji : j = i
    · subst hji
      have := h.mine j
      simp only [hpc] at this
      simpa [commitsBy] using this
    · simp only [upd, if_neg hji]; exact h.mine j
  · exact h.miss
  · intro j hj
    by_cases hji : j = i
    · subst hji; simp only [upd_same]; exact h.crt j (Or.inl hpc)
    · simp only [upd, if_neg hji] at hj ⊢; exact h.crt j hj

/-- put → renamed: the atomic rename, the linearisation point -/
theorem inv_rename (c0 : Nat → Ring) (s : St) (i : Nat) (h : Inv c0 s) (r' : Ring)
    (hpc : (s.h i).pc = .put) (hnew : s.new (s.h i).path = some r') :
    Inv c0 { s with cur := upd s.cur (s.h i).path r', new := upd s.new (s.h i).path none,
                    commits := s.commits ++ [⟨i, (s.h i).path, (s.h i).txs⟩],
                    ex := upd s.ex (s.h i).path true,
                    h := upd s.h i { s.h i with pc := .renamed } } := by
  have hcsi : inCS (s.h i).pc := by simp [inCS, hpc]
  have hwi := h.holder i hcsi
  obtain ⟨hp1, hp2⟩ := h.putOk i hpc
  have hr' : r' = (s.h i).snap := by rw [hnew] at hp1; exact Option.some.inj hp1
  constructor
  · intro j hj
    by_cases hji : j = i
    · subst hji; exact hwi
    · simp only [upd, if_neg hji] at hj; exact h.holder j hj
  · intro j
    by_cases hji : j = i
    · subst hji; simp only [upd_same]
      have := h.rd j; simp [hpc, isReader] at this ⊢; exact this
    · simp only [upd, if_neg hji]; exact h.rd j
  · exact h.rdNodup
  · exact h.excl
  · intro j hj
    by_cases hji : j = i
    · subst hji; simp only [upd_same]; exact h.todoW j hcsi
    · simp only [upd, if_neg hji] at hj ⊢; exact h.todoW j hj
  · intro j hj
    by_cases hji : j = i
    · subst hji; simp [isReader] at hj
    · simp only [upd, if_neg hji] at hj ⊢; exact h.todoR j hj
  · intro j hj
    by_cases hji : j = i
    · subst hji; simp at hj
    · simp only [upd, if_neg hji] at hj
      have : inCS (s.h j).pc := by simp [inCS, hj]
      exact absurd (cs_unique h hcsi this) hji
  · intro j hj
    by_cases hji : j = i
    · subst hji; simp at hj
    · simp only [upd, if_neg hji] at hj
      have : inCS (s.h j).pc := by simp [inCS, hj]
      exact absurd (cs_unique h hcsi this) hji
  · intro p hp
    by_cases hpp : p = (s.h i).path
    · subst hpp; simp at hp
    · simp only [upd, if_neg hpp] at hp
      obtain ⟨j, hj1, hj2⟩ := h.noNew p hp
      have : inCS (s.h j).pc := by simp [inCS, hj1]
      have hji := cs_unique h hcsi this
      subst hji
      exact absurd hj2.symm hpp
  · intro p
    show replay (c0 p) (((s.commits ++ [(⟨i, (s.h i).path, (s.h i).txs⟩ : Commit)]).filter (·.path = p)).map (·.txs)) = some (upd s.cur (s.h i).path r' p)
    have hl := h.lin p
    simp only [commitsOn] at hl
    by_cases hpp : p = (s.h i).path
    · subst hpp
      simp only [List.filter_append, List.map_append, upd_same]
      have : (List.filter (fun x => decide (x.path = (s.h i).path)) [(⟨i, (s.h i).path, (s.h i).txs⟩ : Commit)]).map (·.txs) = [(s.h i).txs] := by simp
      rw [this, replay_snoc, hl]
      simp [hp2, hr']
    · have : (List.filter (fun x => decide (x.path = p)) [(⟨i, (s.h i).path, (s.h i).txs⟩ : Commit)]) = [] := by simp [Ne.symm hpp]
      simp only [List.filter_append, this, List.append_nil, upd, if_neg hpp]
      exact hl
  · intro j
    show ((s.commits ++ [(⟨i, (s.h i).path, (s.h i).txs⟩ : Commit)]).filter (·.tid = j)).map (·.txs) = okWrites ((upd s.h i { s.h i with pc := .renamed }) j).done ++ (if ((upd s.h i { s.h i with pc := .renamed }) j).pc = .renamed then [((upd s.h i { s.h i with pc := .renamed }) j).txs] else [])
    have hm := h.mine j
    simp only [commitsBy] at hm
    by_cases hji : j = i
    · subst hji
      simp only [hpc] at hm
      simp only [List.filter_append, List.map_append, upd_same]
      rw [hm]
      simp
    · have : (List.filter (fun x => decide (x.tid = j)) [(⟨i, (s.h i).path, (s.h i).txs⟩ : Commit)]) = [] := by simp [Ne.symm hji]
      simp only [List.filter_append, this, List.append_nil, upd, if_neg hji]
      exact hm
  · intro p hp
    by_cases hpp : p = (s.h i).path
    · subst hpp; simp [upd] at hp
    · simp only [upd, if_neg hpp] at hp ⊢
      obtain ⟨a, b⟩ := h.miss p hp
      refine ⟨a, ?_⟩
      have : (List.filter (fun x => decide (x.path = p)) [(⟨i, (s.h i).path, (s.h i).txs⟩ : Commit)]) = [] := by simp [Ne.symm hpp]
      simp only [commitsOn] at b ⊢
      simp only [List.filter_append, this, List.append_nil]
      exact b
  · intro j hj
    by_cases hji : j = i
    · subst hji; simp at hj
    · simp only [upd, if_neg hji] at hj
      have : inCS (s.h j).pc := by rcases hj with hj | hj <;> simp [inCS, hj]
      exact absurd (cs_unique h hcsi this) hji

/-- renamed/failed → idle: `Unlock`, the operation is finished with result `res` -/
theorem inv_unlock (c0 : Nat → Ring) (s : St) (i : Nat) (h : Inv c0 s) (res : Option (List Tx))
    (hpc : ((s.h i).pc = .renamed ∧ res = some (s.h i).txs) ∨ ((s.h i).pc = .failed ∧ res = none)) :
    Inv c0 { s with writer := none, h := upd s.h i (finish (s.h i) res) } := by
  have hcsi : inCS (s.h i).pc := by rcases hpc with ⟨a, _⟩ | ⟨a, _⟩ <;> simp [inCS, a]
  have hwi := h.holder i hcsi
  obtain ⟨op, rest, htodo, hop⟩ := h.todoW i hcsi
  have hfin : finish (s.h i) res = { s.h i with pc := .idle, txs := [], todo := rest, done := (s.h i).done ++ [(op, res)] } := by
    simp [finish, htodo]
  rw [hfin]
  constructor
  · intro j hj
    by_cases hji : j = i
    · subst hji; simp [inCS] at hj
    · simp only [upd, if_neg hji] at hj
      exact absurd (cs_unique h hcsi hj) hji
  · intro j
    by_cases hji : j = i
    · subst hji; simp only [upd_same]
      have := h.rd j
      rcases hpc with ⟨a, _⟩ | ⟨a, _⟩ <;> (simp [a, isReader] at this ⊢; exact this)
    · simp only [upd, if_neg hji]; exact h.rd j
  · exact h.rdNodup
  · intro hc; exact absurd rfl hc
  · intro j hj
    by_cases hji : j = i
    · subst hji; simp [inCS] at hj
    · simp only [upd, if_neg hji] at hj ⊢; exact h.todoW j hj
  · intro j hj
    by_cases hji : j = i
    · subst hji; simp [isReader] at hj
    · simp only [upd, if_neg hji] at hj ⊢; exact h.todoR j hj
  · intro j hj
    by_cases hji : j = i
    · subst hji; simp at hj
    · simp only [upd, if_neg hji] at hj ⊢; exact h.gotOk j hj
  · intro j hj
    by_cases hji : j = i
    · subst hji; simp at hj
    · simp only [upd, if_neg hji] at hj ⊢; exact h.putOk j hj
  · intro p hp
    obtain ⟨j, hj1, hj2⟩ := h.noNew p hp
    have hji : j ≠ i := by
      intro e; subst e
      rcases hpc with ⟨a, _⟩ | ⟨a, _⟩ <;> simp [a] at hj1
    exact ⟨j, by simp only [upd, if_neg hji]; exact hj1, by simp only [upd, if_neg hji]; exact hj2⟩
  · exact h.lin
  · intro j
    by_cases hji : j = i
    · subst hji
      have := h.mine j
      simp only [upd_same]
      rcases hpc with ⟨a, b⟩ | ⟨a, b⟩
      · subst b
        simp only [a] at this
        simp [okWrites_snoc_some _ _ _ hop]
        simpa [commitsBy] using this
      · subst b
        simp only [a] at this
        simp [okWrites_snoc_none]
        simpa [commitsBy] using this
    · simp only [upd, if_neg hji]; exact h.mine j
  · exact h.miss
  · intro j hj
    by_cases hji : j = i
    · subst hji; simp at hj
    · simp only [upd, if_neg hji] at hj ⊢; exact h.crt j hj

/-- rgot/rfailed → idle: `RUnlock` -/
theorem inv_runlock (c0 : Nat → Ring) (s : St) (i : Nat) (h : Inv c0 s) (res : Option (List Tx))
    (hpc : (s.h i).pc = .rgot ∨ (s.h i).pc = .rfailed) :
    Inv c0 { s with readers := s.readers.erase i, h := upd s.h i (finish (s.h i) res) } := by
  have hri : isReader (s.h i).pc := by rcases hpc with a | a <;> simp [isReader, a]
  obtain ⟨rest, htodo⟩ := h.todoR i hri
  have hfin : finish (s.h i) res = { s.h i with pc := .idle, txs := [], todo := rest, done := (s.h i).done ++ [(.refresh, res)] } := by
    simp [finish, htodo]
  rw [hfin]
  constructor
  · intro j hj
    by_cases hji : j = i
    · subst hji; simp [inCS] at hj
    · simp only [upd, if_neg hji] at hj; exact h.holder j hj
  · intro j
    by_cases hji : j = i
    · subst hji; simp only [upd_same]
      simp [isReader, h.rdNodup.mem_erase_iff]
    · simp only [upd, if_neg hji]
      rw [List.mem_erase_of_ne hji]; exact h.rd j
  · exact h.rdNodup.erase i
  · intro hc; simp [h.excl hc]
  · intro j hj
    by_cases hji : j = i
    · subst hji; simp [inCS] at hj
    · simp only [upd, if_neg hji] at hj ⊢; exact h.todoW j hj
  · intro j hj
    by_cases hji : j = i
    · subst hji; simp [isReader] at hj
    · simp only [upd, if_neg hji] at hj ⊢; exact h.todoR j hj
  · intro j hj
    by_cases hji : j = i
    · subst hji; simp at hj
    · simp only [upd, if_neg hji] at hj ⊢; exact h.gotOk j hj
  · intro j hj
    by_cases hji : j = i
    · subst hji; simp at hj
    · simp only [upd, if_neg hji] at hj ⊢; exact h.putOk j hj
  · intro p hp
    obtain ⟨j, hj1, hj2⟩ := h.noNew p hp
    have hji : j ≠ i := by intro e; subst e; rcases hpc with a | a <;> simp [a] at hj1
    exact ⟨j, by simp only [upd, if_neg hji]; exact hj1, by simp only [upd, if_neg hji]; exact hj2⟩
  · exact h.lin
  · intro j
    by_cases hji : j = i
    · subst hji
      have := h.mine j
      have hnr : (s.h j).pc ≠ .renamed := by rcases hpc with a | a <;> simp [a]
      simp only [upd_same, if_neg hnr] at this ⊢
      simp [okWrites_snoc_refresh]
      simpa [commitsBy] using this
    · simp only [upd, if_neg hji]; exact h.mine j
  · exact h.miss
  · intro j hj
    by_cases hji : j = i
    · subst hji; simp at hj
    · simp only [upd, if_neg hji] at hj ⊢; exact h.crt j hj

/-- locked → renamed: `openKeyRing` found its ring (`Get` succeeded): the snapshot is loaded, nothing is
written; the operation is linearised here with the empty transaction list -/
theorem inv_openExisting (c0 : Nat → Ring) (s : St) (i : Nat) (h : Inv c0 s) (rest : List Op)
    (hpc : (s.h i).pc = .locked) (htodo : (s.h i).todo = .open :: rest) (hex : s.ex (s.h i).path = true) :
    Inv c0 { s with commits := s.commits ++ [⟨i, (s.h i).path, []⟩],
                    h := upd s.h i { s.h i with pc := .renamed, snap := s.cur (s.h i).path, txs := [] } } := by
  have hcsi : inCS (s.h i).pc := by simp [inCS, hpc]
  have hwi := h.holder i hcsi
  constructor
  · intro j hj
    by_cases hji : j = i
    · subst hji; exact hwi
    · simp only [upd, if_neg hji] at hj; exact h.holder j hj
  · intro j
    by_cases hji : j = i
    · subst hji; simp only [upd_same]
      have := h.rd j; simp [hpc, isReader] at this ⊢; exact this
    · simp only [upd, if_neg hji]; exact h.rd j
  · exact h.rdNodup
  · exact h.excl
  · intro j hj
    by_cases hji : j = i
    · subst hji; simp only [upd_same]; exact h.todoW j hcsi
    · simp only [upd, if_neg hji] at hj ⊢; exact h.todoW j hj
  · intro j hj
    by_cases hji : j = i
    · subst hji; simp [isReader] at hj
    · simp only [upd, if_neg hji] at hj ⊢; exact h.todoR j hj
  · intro j hj
    by_cases hji : j = i
    · subst hji; simp at hj
    · simp only [upd, if_neg hji] at hj ⊢; exact h.gotOk j hj
  · intro j hj
    by_cases hji : j = i
    · subst hji; simp at hj
    · simp only [upd, if_neg hji] at hj ⊢; exact h.putOk j hj
  · intro p hp
    obtain ⟨j, hj1, hj2⟩ := h.noNew p hp
    have hji : j ≠ i := by intro e; subst e; simp [hpc] at hj1
    exact ⟨j, by simp only [upd, if_neg hji]; exact hj1, by simp only [upd, if_neg hji]; exact hj2⟩
  · intro p
    show replay (c0 p) (((s.commits ++ [(⟨i, (s.h i).path, []⟩ : Commit)]).filter (·.path = p)).map (·.txs)) = some (s.cur p)
    have hl := h.lin p
    simp only [commitsOn] at hl
    by_cases hpp : p = (s.h i).path
    · subst hpp
      simp only [List.filter_append, List.map_append]
      have : (List.filter (fun x => decide (x.path = (s.h i).path)) [(⟨i, (s.h i).path, []⟩ : Commit)]).map (·.txs) = [[]] := by simp
      rw [this, replay_snoc, hl]
      simp [applyAll]
    · have : (List.filter (fun x => decide (x.path = p)) [(⟨i, (s.h i).path, []⟩ : Commit)]) = [] := by simp [Ne.symm hpp]
      simp only [List.filter_append, this, List.append_nil]
      exact hl
  · intro j
    show ((s.commits ++ [(⟨i, (s.h i).path, []⟩ : Commit)]).filter (·.tid = j)).map (·.txs) = okWrites ((upd s.h i { s.h i with pc := .renamed, snap := s.cur (s.h i).path, txs := [] }) j).done ++ (if ((upd s.h i { s.h i with pc := .renamed, snap := s.cur (s.h i).path, txs := [] }) j).pc = .renamed then [((upd s.h i { s.h i with pc := .renamed, snap := s.cur (s.h i).path, txs := [] }) j).txs] else [])
    have hm := h.mine j
    simp only [commitsBy] at hm
    by_cases hji : j = i
    · subst hji
      simp only [hpc] at hm
      simp only [List.filter_append, List.map_append, upd_same]
      rw [hm]
      simp
    · have : (List.filter (fun x => decide (x.tid = j)) [(⟨i, (s.h i).path, []⟩ : Commit)]) = [] := by simp [Ne.symm hji]
      simp only [List.filter_append, this, List.append_nil, upd, if_neg hji]
      exact hm
  · intro p hp
    obtain ⟨a, b⟩ := h.miss p hp
    refine ⟨a, ?_⟩
    have hpp : p ≠ (s.h i).path := by intro e; subst e; simp [hex] at hp
    have : (List.filter (fun x => decide (x.path = p)) [(⟨i, (s.h i).path, []⟩ : Commit)]) = [] := by simp [Ne.symm hpp]
    simp only [commitsOn] at b ⊢
    simp only [List.filter_append, this, List.append_nil]
    exact b
  · intro j hj
    by_cases hji : j = i
    · subst hji; simp at hj
    · simp only [upd, if_neg hji] at hj ⊢; exact h.crt j hj

theorem inv_of_eq {c0 : Nat → Ring} {s s' : St} (e : s' = s) (h : Inv c0 s) : Inv c0 s' := e ▸ h

/-- **Every step of every thread preserves the invariant.** -/
theorem step_inv (c0 : Nat → Ring) (s : St) (i : Nat) (h : Inv c0 s) : Inv c0 (step s i) := by
  cases hpc : (s.h i).pc with
  | idle =>
    cases htodo : (s.h i).todo with
    | nil => exact inv_of_eq (by simp [step, stepCall, hpc, htodo]) h
    | cons op rest =>
      by_cases hop : op = .refresh
      · subst hop
        by_cases hw : s.writer = none
        · exact inv_of_eq (by simp [step, stepCall, hpc, htodo, hw]) (inv_rlock c0 s i h hpc rest htodo hw)
        · exact inv_of_eq (by simp [step, stepCall, hpc, htodo, hw]) h
      · cases hprep : prepare (s.h i).snap op with
        | none =>
          have hfin : finish (s.h i) none = { s.h i with pc := .idle, txs := [], todo := rest, done := (s.h i).done ++ [(op, none)] } := by
            simp [finish, htodo]
          refine inv_of_eq (by simp [step, stepCall, hpc, htodo, hop, hprep]) (inv_local c0 s i h (finish (s.h i) none) ?_ ?_ ?_ ?_ ?_ ?_ ?_ ?_ ?_)
          all_goals rw [hfin]
          · intro hc; simp [inCS] at hc
          · simp [isReader, hpc]
          · intro hc; simp [inCS] at hc
          · intro hc; simp [isReader] at hc
          · intro hc; simp at hc
          · intro hc; simp at hc
          · intro hc; simp [hpc] at hc
          · intro hc; simp at hc
          · simp [hpc, okWrites_snoc_none]
        | some txs =>
          by_cases hl : s.writer = none ∧ s.readers = []
          · exact inv_of_eq (by simp [step, stepCall, hpc, htodo, hop, hprep, hl]) (inv_lock c0 s i h txs hpc op rest htodo hop hl.1 hl.2)
          · exact inv_of_eq (by simp [step, stepCall, hpc, htodo, hop, hprep, hl]) h
  | locked =>
    have hcsi : inCS (s.h i).pc := by simp [inCS, hpc]
    obtain ⟨op, rest, htodo, hop⟩ := h.todoW i hcsi
    by_cases hex : s.ex (s.h i).path = true
    · by_cases hopen : op = .open
      · subst hopen
        exact inv_of_eq (by simp [step, stepCall, hpc, htodo, hex]) (inv_openExisting c0 s i h rest hpc htodo hex)
      · cases happ : applyAll (s.h i).txs (s.cur (s.h i).path) with
        | none =>
          refine inv_of_eq (by simp [step, stepCall, hpc, htodo, hex, hopen, happ]) (inv_local c0 s i h { s.h i with pc := .failed, snap := s.cur (s.h i).path } ?_ ?_ ?_ ?_ ?_ ?_ ?_ ?_ ?_)
          · intro _; exact h.holder i hcsi
          · simp [isReader, hpc]
          · intro _; exact h.todoW i hcsi
          · intro hc; simp [isReader] at hc
          · intro hc; simp at hc
          · intro hc; simp at hc
          · intro hc; simp [hpc] at hc
          · intro hc; simp at hc
          · simp [hpc]
        | some r' =>
          refine inv_of_eq (by simp [step, stepCall, hpc, htodo, hex, hopen, happ]) (inv_local c0 s i h { s.h i with pc := .got, snap := s.cur (s.h i).path } ?_ ?_ ?_ ?_ ?_ ?_ ?_ ?_ ?_)
          · intro _; exact h.holder i hcsi
          · simp [isReader, hpc]
          · intro _; exact h.todoW i hcsi
          · intro hc; simp [isReader] at hc
          · intro _; simp [happ]
          · intro hc; simp at hc
          · intro hc; simp [hpc] at hc
          · intro _; simp [hex, htodo, hopen]
          · simp [hpc]
    · have hex' : s.ex (s.h i).path = false := by simpa using hex
      by_cases hopen : op = .open
      · subst hopen
        refine inv_of_eq (by simp [step, stepCall, hpc, htodo, hex']) (inv_local c0 s i h { s.h i with pc := .got, snap := emptyRing, txs := [] } ?_ ?_ ?_ ?_ ?_ ?_ ?_ ?_ ?_)
        · intro _; exact h.holder i hcsi
        · simp [isReader, hpc]
        · intro _; exact h.todoW i hcsi
        · intro hc; simp [isReader] at hc
        · intro _; exact ⟨((h.miss _ hex').1).symm, by simp [applyAll]⟩
        · intro hc; simp at hc
        · intro hc; simp [hpc] at hc
        · intro _; simp [hex', htodo]
        · simp [hpc]
      · refine inv_of_eq (by simp [step, stepCall, hpc, htodo, hex', hopen]) (inv_local c0 s i h { s.h i with pc := .failed } ?_ ?_ ?_ ?_ ?_ ?_ ?_ ?_ ?_)
        · intro _; exact h.holder i hcsi
        · simp [isReader, hpc]
        · intro _; exact h.todoW i hcsi
        · intro hc; simp [isReader] at hc
        · intro hc; simp at hc
        · intro hc; simp at hc
        · intro hc; simp [hpc] at hc
        · intro hc; simp at hc
        · simp [hpc]
  | got =>
    have hcsi : inCS (s.h i).pc := by simp [inCS, hpc]
    cases happ : applyAll (s.h i).txs (s.h i).snap with
    | none =>
      have := (h.gotOk i hpc).2
      simp [happ] at this
    | some r' =>
      cases hnew : s.new (s.h i).path with
      | some x =>
        obtain ⟨j, hj1, hj2⟩ := h.noNew (s.h i).path (by simp [hnew])
        have : inCS (s.h j).pc := by simp [inCS, hj1]
        have hji := cs_unique h hcsi this
        subst hji
        simp [hpc] at hj1
      | none =>
        exact inv_of_eq (by simp [step, stepCall, hpc, happ, hnew]) (inv_put c0 s i h r' hpc happ)
  | put =>
    cases hnew : s.new (s.h i).path with
    | none =>
      have := (h.putOk i hpc).1
      simp [hnew] at this
    | some r' =>
      exact inv_of_eq (by simp [step, stepCall, hpc, hnew]) (inv_rename c0 s i h r' hpc hnew)
  | renamed =>
    exact inv_of_eq (by simp [step, stepCall, hpc]) (inv_unlock c0 s i h (some (s.h i).txs) (Or.inl ⟨hpc, rfl⟩))
  | failed =>
    exact inv_of_eq (by simp [step, stepCall, hpc]) (inv_unlock c0 s i h none (Or.inr ⟨hpc, rfl⟩))
  | rlocked =>
    have hri : isReader (s.h i).pc := by simp [isReader, hpc]
    by_cases hex : s.ex (s.h i).path = true
    · refine inv_of_eq (by simp [step, stepCall, hpc, hex]) (inv_local c0 s i h { s.h i with pc := .rgot, snap := s.cur (s.h i).path } ?_ ?_ ?_ ?_ ?_ ?_ ?_ ?_ ?_)
      · intro hc; simp [inCS] at hc
      · simp [isReader, hpc]
      · intro hc; simp [inCS] at hc
      · intro _; exact h.todoR i hri
      · intro hc; simp at hc
      · intro hc; simp at hc
      · intro hc; simp [hpc] at hc
      · intro hc; simp at hc
      · simp [hpc]
    · have hex' : s.ex (s.h i).path = false := by simpa using hex
      refine inv_of_eq (by simp [step, stepCall, hpc, hex']) (inv_local c0 s i h { s.h i with pc := .rfailed } ?_ ?_ ?_ ?_ ?_ ?_ ?_ ?_ ?_)
      · intro hc; simp [inCS] at hc
      · simp [isReader, hpc]
      · intro hc; simp [inCS] at hc
      · intro _; exact h.todoR i hri
      · intro hc; simp at hc
      · intro hc; simp at hc
      · intro hc; simp [hpc] at hc
      · intro hc; simp at hc
      · simp [hpc]
  | rgot =>
    exact inv_of_eq (by simp [step, stepCall, hpc]) (inv_runlock c0 s i h (some []) (Or.inl hpc))
  | rfailed =>
    exact inv_of_eq (by simp [step, stepCall, hpc]) (inv_runlock c0 s i h none (Or.inr hpc))

/-- **Every schedule preserves the invariant.** -/
theorem run_inv (c0 : Nat → Ring) (s : St) (sched : List Nat) (h : Inv c0 s) : Inv c0 (run s sched) := by
  induction sched generalizing s with
  | nil => exact h
  | cons i r ih => exact ih _ (step_inv c0 s i h)

end AcraModel.KeystoreSec.Conc
