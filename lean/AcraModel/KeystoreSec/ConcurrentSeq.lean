import AcraModel.KeystoreSec.ConcurrentLemmas
/-! Sequence numbers stay unique: well-formedness of transactions and its preservation. -/
namespace AcraModel.KeystoreSec.Conc


/-- sequence numbers of a ring are pairwise different -/
def RingOK (r : Ring) : Prop := (r.keys.map (·.seq)).Nodup

def TxOK : Tx → Prop
  | .setKeys ks _ => (ks.map (·.seq)).Nodup
  | _ => True

def OpOK : Op → Prop
  | .importKeys ks _ => (ks.map (·.seq)).Nodup
  | _ => True

theorem modifyLast_seqs (f : Key → Key) (hf : ∀ k, (f k).seq = k.seq) (s : Int) :
    ∀ (ks ks' : List Key), modifyLast f s ks = some ks' → ks'.map (·.seq) = ks.map (·.seq)
  | [], ks', h => by simp [modifyLast] at h
  | k :: r, ks', h => by
    unfold modifyLast at h
    cases hm : modifyLast f s r with
    | some r' =>
      rw [hm] at h
      cases h
      simp [modifyLast_seqs f hf s r r' hm]
    | none =>
      rw [hm] at h
      simp only at h
      split at h
      · cases h; simp [hf]
      · cases h

theorem hasSeq_false_iff (r : Ring) (s : Int) : r.hasSeq s = false ↔ s ∉ r.keys.map (·.seq) := by
  simp [Ring.hasSeq]

theorem apply_ok (t : Tx) (r r' : Ring) (ht : TxOK t) (hr : RingOK r) (h : t.apply r = some r') : RingOK r' := by
  cases t with
  | add k =>
    simp only [Tx.apply] at h
    split at h
    · cases h
    · next hh =>
      cases h
      have := (hasSeq_false_iff r k.seq).mp (by simpa using hh)
      simp only [RingOK, List.map_append, List.map_cons, List.map_nil]
      exact List.nodup_append.mpr ⟨hr, by simp, by
        intro a ha b hb
        simp at hb; subst hb
        intro e; subst e; exact this ha⟩
  | setCurrent old new =>
    simp only [Tx.apply] at h
    split at h
    · cases h
    · split at h
      · cases h
      · split at h
        · cases h
        · cases h; exact hr
  | changeState s old new =>
    simp only [Tx.apply] at h
    split at h
    · cases h
    · split at h
      · cases h
      · cases hm : modifyLast (fun k => { k with state := new }) s r.keys with
        | none => simp [hm] at h
        | some ks =>
          simp [hm] at h; cases h
          have := modifyLast_seqs _ (by intro k; rfl) s r.keys ks hm
          simp only [RingOK, this]; exact hr
  | destroyData s =>
    simp only [Tx.apply] at h
    cases hm : modifyLast (fun k => { k with data := 0 }) s r.keys with
    | none => simp [hm] at h
    | some ks =>
      simp [hm] at h; cases h
      have := modifyLast_seqs _ (by intro k; rfl) s r.keys ks hm
      simp only [RingOK, this]; exact hr
  | setKeys ks c =>
    simp only [Tx.apply] at h
    cases h
    exact ht

theorem applyAll_ok : ∀ (ts : List Tx) (r r' : Ring), (∀ t ∈ ts, TxOK t) → RingOK r → applyAll ts r = some r' → RingOK r'
  | [], r, r', _, hr, h => by simp [applyAll] at h; subst h; exact hr
  | t :: ts, r, r', ht, hr, h => by
    simp only [applyAll] at h
    cases ha : t.apply r with
    | none => simp [ha] at h
    | some r1 =>
      simp [ha] at h
      exact applyAll_ok ts r1 r' (fun t' h' => ht t' (by simp [h'])) (apply_ok t r r1 (ht t (by simp)) hr ha) h

theorem replay_ok : ∀ (cs : List (List Tx)) (r r' : Ring), (∀ ts ∈ cs, ∀ t ∈ ts, TxOK t) → RingOK r → replay r cs = some r' → RingOK r'
  | [], r, r', _, hr, h => by simp [replay] at h; subst h; exact hr
  | c :: cs, r, r', hc, hr, h => by
    simp only [replay] at h
    cases ha : applyAll c r with
    | none => simp [ha] at h
    | some r1 =>
      simp [ha] at h
      exact replay_ok cs r1 r' (fun ts h' => hc ts (by simp [h'])) (applyAll_ok c r r1 (hc c (by simp)) hr ha) h

theorem prepare_ok (snap : Ring) (op : Op) (txs : List Tx) (ho : OpOK op) (h : prepare snap op = some txs) : ∀ t ∈ txs, TxOK t := by
  cases op with
  | importKeys ks c => simp [prepare] at h; subst h; intro t ht; simp at ht; subst ht; exact ho
  | addKey d => simp [prepare] at h; subst h; intro t ht; simp at ht; subst ht; trivial
  | setCurrent s => simp [prepare] at h; subst h; intro t ht; simp at ht; subst ht; trivial
  | refresh => simp [prepare] at h; subst h; intro t ht; simp at ht
  | «open» => simp [prepare] at h; subst h; intro t ht; simp at ht
  | setState s st =>
    simp only [prepare] at h
    split at h
    · cases h
    · split at h
      · cases h; intro t ht; simp at ht; subst ht; trivial
      · cases h
  | destroy s =>
    simp only [prepare] at h
    split at h
    · cases h
    · split at h
      · cases h; intro t ht; simp at ht; rcases ht with rfl | rfl <;> trivial
      · cases h

/-- second invariant: every transaction in flight or committed is well-formed -/
structure TxInv (s : St) : Prop where
  todo : ∀ i, ∀ op ∈ (s.h i).todo, OpOK op
  txs : ∀ i, ∀ t ∈ (s.h i).txs, TxOK t
  commits : ∀ c ∈ s.commits, ∀ t ∈ c.txs, TxOK t

theorem finish_todo (hd : Handle) (res) : ∀ op ∈ (finish hd res).todo, op ∈ hd.todo := by
  intro op h
  unfold finish at h
  split at h
  · next e => simp [e] at h
  · next e => simp at h; simp [e, h]

theorem finish_txs (hd : Handle) (res) : (finish hd res).txs = [] := by
  unfold finish; split <;> rfl

theorem step_txinv (s : St) (i : Nat) (h : TxInv s) : TxInv (step s i) := by
  have key : ∀ j, (∀ op ∈ ((step s i).h j).todo, op ∈ (s.h j).todo) ∧
      (((step s i).h j).txs = (s.h j).txs ∨ ((step s i).h j).txs = [] ∨
        ∃ op, op ∈ (s.h j).todo ∧ prepare (s.h j).snap op = some ((step s i).h j).txs) := by
    intro j
    by_cases hji : j = i
    · subst hji
      unfold step stepCall
      simp only
      repeat' split
      all_goals simp_all [upd, finish_txs]
      all_goals first | (intro op hop; have := finish_todo _ _ op hop; simp_all) | skip
    · unfold step stepCall
      simp only
      repeat' split
      all_goals simp_all [upd]
  have keyc : (step s i).commits = s.commits ∨ (step s i).commits = s.commits ++ [⟨i, (s.h i).path, (s.h i).txs⟩] ∨
      (step s i).commits = s.commits ++ [⟨i, (s.h i).path, []⟩] := by
    unfold step stepCall
    simp only
    repeat' split
    all_goals simp_all
  constructor
  · intro j op hop; exact h.todo j op ((key j).1 op hop)
  · intro j t ht
    rcases (key j).2 with e | e | ⟨op, hop, e⟩
    · rw [e] at ht; exact h.txs j t ht
    · rw [e] at ht; simp at ht
    · exact prepare_ok _ op _ (h.todo j op hop) e t ht
  · intro c hc t ht
    rcases keyc with e | e | e
    · rw [e] at hc; exact h.commits c hc t ht
    · rw [e] at hc
      simp at hc
      rcases hc with hc | hc
      · exact h.commits c hc t ht
      · subst hc; exact h.txs i t ht
    · rw [e] at hc
      simp at hc
      rcases hc with hc | hc
      · exact h.commits c hc t ht
      · subst hc; simp at ht


theorem run_txinv (s : St) (sched : List Nat) (h : TxInv s) : TxInv (run s sched) := by
  induction sched generalizing s with
  | nil => exact h
  | cons i r ih => exact ih _ (step_txinv s i h)

end AcraModel.KeystoreSec.Conc
