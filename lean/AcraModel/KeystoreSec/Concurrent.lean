import AcraModel.Basic.Bytes
import AcraModel.Generated.KeystoreSec
/-!
# Concurrent key-store handles over one back end (v2 file-system key store)

Model of `keystore/v2/keystore/filesystem/{keyRing.go, keyRingTX.go, keyStoreLoad.go}` at the
granularity of individual back-end calls.

* A **ring** is the list of its keys (seqnum, state, abstract data identity) plus the current marker.
* A **transaction** (`keyRingTX`) is one of `txAddKey`, `txSetKeyCurrent`, `txChangeKeyState`,
  `txDestroyKeyData`, `txSetKeys`, with the optimistic checks of `Apply` as coded.
* A **handle** (`KeyRing` object bound to one ring path) keeps a possibly stale snapshot `snap`
  (`KeyRing.data`) and the transaction log of the operation in flight.
* An API operation is a *program of back-end calls*: `writeKeyRing` = `Lock; Get; (apply);
  Put <ring>.keyring.new; Rename; Unlock`, `readKeyRing` = `RLock; Get; RUnlock` and
  `OpenKeyRingRW` = fresh handle object, then `openKeyRing` = `Lock; Get;` (ring there: load it |
  `ErrNotExist`: `Put <ring>.keyring.new` of the empty ring`; Rename`)`; Unlock` – the existence check
  and the creation happen under ONE exclusive lock, as coded (`Props.C17.fact_open_cycle`).
* A ring file may be **missing** (`ex p = false`; its `cur p` is then the empty ring by convention).
  `Get` of a missing ring is `ErrNotExist`: `writeKeyRing`/`readKeyRing` fail, `openKeyRing` creates.
* The global state is the back-end map (`cur`, `new`, `ex` per ring path) and the lock (`writer`,
  `readers`). `step s i` lets thread `i` perform its next call if it is enabled (a thread waiting for
  the lock does not move); `run s sched` follows an arbitrary schedule.

Ghost state (`commits`, `done`) records the linearisation order and the outcomes. `commits` lists the
successful writing operations at their linearisation points: the atomic `Rename`s, and – with the empty
transaction list – the `Get` of an `OpenKeyRingRW` that found its ring (it writes nothing).
-/
namespace AcraModel.KeystoreSec.Conc

/-- `asn1.NoKey` -/
def noKey : Int := -1

structure Key where
  seq : Int
  state : Nat
  data : Nat      -- abstract identity of the key material (0 = destroyed / none)
deriving DecidableEq, Repr

structure Ring where
  keys : List Key
  current : Int
deriving DecidableEq, Repr

/-- the ring of a fresh handle object (`newKeyRing`: no keys, `Current: asn1.NoKey`) – what
`OpenKeyRingRW` writes when the ring file does not exist -/
def emptyRing : Ring := ⟨[], noKey⟩

/-- key states of `asn1.KeyState` -/
def stPreActive : Nat := 1
def stDestroyed : Nat := 6

def Ring.hasSeq (r : Ring) (s : Int) : Bool := r.keys.any (·.seq == s)

/-- `KeyWithSeqnum` searches from the end; modify the last key with that seqnum -/
def modifyLast (f : Key → Key) (s : Int) : List Key → Option (List Key)
  | [] => none
  | k :: r =>
    match modifyLast f s r with
    | some r' => some (k :: r')
    | none => if k.seq = s then some (f k :: r) else none

/-- the last key with that seqnum -/
def findLast (s : Int) : List Key → Option Key
  | [] => none
  | k :: r =>
    match findLast s r with
    | some k' => some k'
    | none => if k.seq = s then some k else none

inductive Tx where
  | add (k : Key)
  | setCurrent (old new : Int)
  | changeState (seq : Int) (old new : Nat)
  | destroyData (seq : Int)
  | setKeys (keys : List Key) (current : Int)
deriving DecidableEq, Repr

/-- `keyRingTX.Apply` (none = the error returned: concurrent modification / not found / exists) -/
def Tx.apply (r : Ring) : Tx → Option Ring
  | .add k => if r.hasSeq k.seq then none else some { r with keys := r.keys ++ [k] }
  | .setCurrent old new =>
    if r.current ≠ old then none
    else if old ≠ noKey ∧ ¬ r.hasSeq old then none
    else if ¬ r.hasSeq new then none
    else some { r with current := new }
  | .changeState s old new =>
    match findLast s r.keys with
    | none => none
    | some k => if k.state ≠ old then none else
      (modifyLast (fun k => { k with state := new }) s r.keys).map fun ks => { r with keys := ks }
  | .destroyData s =>
    (modifyLast (fun k => { k with data := 0 }) s r.keys).map fun ks => { r with keys := ks }
  | .setKeys ks c => some ⟨ks, c⟩

/-- `applyPendingTX`: all transactions or none. On an error the code rolls the already applied
transactions back in reverse order (`Rollback` restores what `Apply` checked or saved: the old
current marker, the old state, the data backup, the old key list; `txAddKey` drops the last key).
The model takes the result of that – the pulled ring, unchanged – as the handle's snapshot after a
failed operation; that this is what the real handle holds is tied by trace validation (the next
operation of the same handle is *prepared* from that snapshot: its sequence number, expected current
marker and expected state must coincide with the model's). -/
def applyAll : List Tx → Ring → Option Ring
  | [], r => some r
  | t :: ts, r => (t.apply r).bind (applyAll ts)

/-- `nextSeqnum` -/
def Ring.nextSeq (r : Ring) : Int :=
  match r.keys.getLast? with
  | none => 1
  | some k => k.seq + 1

/-- `api.KeyStateTransitionValid`: the table regenerated from the source on every run
(`Generated.KeystoreSec.transitions`; its expected content is `Props.C17.fact_transitions`) -/
def transitionValid (old new : Nat) : Bool :=
  ((Generated.KeystoreSec.transitions.lookup old).getD []).contains new

/-- operations of `api.MutableKeyRing` (plus a pure re-read, the import overwrite and
`OpenKeyRingRW`: a fresh handle object on the path, then `openKeyRing`) -/
inductive Op where
  | addKey (data : Nat)
  | setCurrent (seq : Int)
  | setState (seq : Int) (st : Nat)
  | destroy (seq : Int)
  | importKeys (keys : List Key) (current : Int)
  | refresh
  | open
deriving DecidableEq, Repr

/-- What the handle pushes on its transaction log, computed from its (possibly stale) snapshot
*before* taking the lock; `none` = rejected without any back-end call. -/
def prepare (snap : Ring) : Op → Option (List Tx)
  | .addKey d => some [.add ⟨snap.nextSeq, stPreActive, d⟩]
  | .setCurrent s => some [.setCurrent snap.current s]
  | .setState s st =>
    match findLast s snap.keys with
    | none => none
    | some k => if transitionValid k.state st then some [.changeState s k.state st] else none
  | .destroy s =>
    match findLast s snap.keys with
    | none => none
    | some k => if transitionValid k.state stDestroyed then some [.destroyData s, .changeState s k.state stDestroyed] else none
  | .importKeys ks c => some [.setKeys ks c]
  | .refresh => some []
  | .open => some []

/-- `renamed`: past the linearisation point of a successful write (the `Rename`; for an
`OpenKeyRingRW` that found its ring, the `Get`), about to `Unlock`. `rfailed`: a reader whose `Get`
returned `ErrNotExist`, about to `RUnlock`. -/
inductive PC where
  | idle | locked | got | put | renamed | failed | rlocked | rgot | rfailed
deriving DecidableEq, Repr

structure Handle where
  path : Nat
  snap : Ring
  txs : List Tx
  todo : List Op
  /-- ghost: finished operations with `some txs` when they succeeded -/
  done : List (Op × Option (List Tx))
  pc : PC

structure Commit where
  tid : Nat
  path : Nat
  txs : List Tx
deriving DecidableEq, Repr

structure St where
  cur : Nat → Ring
  new : Nat → Option Ring
  writer : Option Nat
  readers : List Nat
  h : Nat → Handle
  /-- ghost: linearisation points of the successful writes, in the order they happened -/
  commits : List Commit
  /-- does `<ring>.keyring` exist? (`cur p` of a missing ring is `emptyRing` by convention) -/
  ex : Nat → Bool := fun _ => true

def upd {α} (f : Nat → α) (i : Nat) (v : α) : Nat → α := fun j => if j = i then v else f j

@[simp] theorem upd_same {α} (f : Nat → α) (i : Nat) (v : α) : upd f i v i = v := by simp [upd]
theorem upd_other {α} (f : Nat → α) (i j : Nat) (v : α) (h : j ≠ i) : upd f i v j = f j := by simp [upd, h]

/-- the back-end call a step performs (for trace validation) -/
inductive Call where
  | lock | unlock | rlock | runlock
  | get (path : Nat) (val : Ring)
  | getMissing (path : Nat)
  | put (path : Nat) (val : Ring) (ok : Bool)
  | rename (path : Nat)
  | none
deriving DecidableEq, Repr

def finish (hd : Handle) (res : Option (List Tx)) : Handle :=
  match hd.todo with
  | [] => { hd with pc := .idle, txs := [] }
  | op :: rest => { hd with pc := .idle, txs := [], todo := rest, done := hd.done ++ [(op, res)] }

/-- one step of thread `i`; returns the new state and the back-end call made (`.none`: blocked,
finished, or an internal step) -/
def stepCall (s : St) (i : Nat) : St × Call :=
  let hd := s.h i
  match hd.pc with
  | .idle =>
    match hd.todo with
    | [] => (s, .none)
    | op :: _ =>
      if op = .refresh then
        if s.writer = none then
          ({ s with readers := i :: s.readers, h := upd s.h i { hd with pc := .rlocked } }, .rlock)
        else (s, .none)
      else
        match prepare hd.snap op with
        | none => ({ s with h := upd s.h i (finish hd none) }, .none)
        | some txs =>
          if s.writer = none ∧ s.readers = [] then
            ({ s with writer := some i, h := upd s.h i { hd with pc := .locked, txs := txs } }, .lock)
          else (s, .none)
  | .locked =>
    if s.ex hd.path then
      let r := s.cur hd.path
      if hd.todo.head? = some .open then
        -- openKeyRing, the ring is there: pullRingUpdates, nothing to push
        ({ s with commits := s.commits ++ [⟨i, hd.path, []⟩],
                  h := upd s.h i { hd with pc := .renamed, snap := r, txs := [] } }, .get hd.path r)
      else
        -- writeKeyRing: pullRingUpdates, then applyPendingTX
        match applyAll hd.txs r with
        | none => ({ s with h := upd s.h i { hd with pc := .failed, snap := r } }, .get hd.path r)
        | some _ => ({ s with h := upd s.h i { hd with pc := .got, snap := r } }, .get hd.path r)
    else
      if hd.todo.head? = some .open then
        -- openKeyRing, `ErrNotExist`: push the fresh handle's empty ring (still under the same lock)
        ({ s with h := upd s.h i { hd with pc := .got, snap := emptyRing, txs := [] } }, .getMissing hd.path)
      else
        -- writeKeyRing: pullRingUpdates fails, the snapshot stays
        ({ s with h := upd s.h i { hd with pc := .failed } }, .getMissing hd.path)
  | .got =>
    match applyAll hd.txs hd.snap with
    | none => ({ s with h := upd s.h i { hd with pc := .failed } }, .none)   -- unreachable (checked at `locked`)
    | some r' =>
      match s.new hd.path with
      | some _ => ({ s with h := upd s.h i { hd with pc := .failed, snap := r' } }, .put hd.path r' false)
      | none => ({ s with new := upd s.new hd.path (some r'), h := upd s.h i { hd with pc := .put, snap := r' } }, .put hd.path r' true)
  | .put =>
    match s.new hd.path with
    | none => ({ s with h := upd s.h i { hd with pc := .failed } }, .rename hd.path)   -- unreachable
    | some r' =>
      ({ s with cur := upd s.cur hd.path r', new := upd s.new hd.path none,
                commits := s.commits ++ [⟨i, hd.path, hd.txs⟩],
                ex := upd s.ex hd.path true,
                h := upd s.h i { hd with pc := .renamed } }, .rename hd.path)
  | .renamed => ({ s with writer := none, h := upd s.h i (finish hd (some hd.txs)) }, .unlock)
  | .failed => ({ s with writer := none, h := upd s.h i (finish hd none) }, .unlock)
  | .rlocked =>
    if s.ex hd.path then
      ({ s with h := upd s.h i { hd with pc := .rgot, snap := s.cur hd.path } }, .get hd.path (s.cur hd.path))
    else
      ({ s with h := upd s.h i { hd with pc := .rfailed } }, .getMissing hd.path)
  | .rgot => ({ s with readers := s.readers.erase i, h := upd s.h i (finish hd (some [])) }, .runlock)
  | .rfailed => ({ s with readers := s.readers.erase i, h := upd s.h i (finish hd none) }, .runlock)

def step (s : St) (i : Nat) : St := (stepCall s i).1

def run (s : St) (sched : List Nat) : St := sched.foldl step s

/-- sequential replay of committed transaction lists on one ring -/
def replay : Ring → List (List Tx) → Option Ring
  | r, [] => some r
  | r, t :: ts => (applyAll t r).bind fun r' => replay r' ts

def commitsOn (s : St) (p : Nat) : List (List Tx) := (s.commits.filter (·.path = p)).map (·.txs)
def commitsBy (s : St) (i : Nat) : List (List Tx) := (s.commits.filter (·.tid = i)).map (·.txs)

/-- transaction lists of the successful *writing* operations of a finished-operations log -/
def okWrites (done : List (Op × Option (List Tx))) : List (List Tx) :=
  done.filterMap fun (op, res) => if op = .refresh then none else res

end AcraModel.KeystoreSec.Conc
