import AcraModel.Crypto.Ops
import AcraModel.KeystoreSec.Path
/-!
# Signed containers (`keystore/v2/keystore/signature/notary.go`, `crypto/signature.go`)

A stored key ring (and an export bundle) is a `SignedContainer`: the DER bytes of the payload – the
**signed span** – plus a set of signatures. `Notary.Verify` recomputes the HMAC over exactly the
payload bytes found in the file (`Payload.RawContent`), keyed by the signature key, with the
context (ring path / export context) and `": "` prepended; unknown algorithms are skipped, every
known one must match and at least one must be known.

The ASN.1 framing around the two parts is not modelled here (a container is the pair); the
byte-level DER encoding is in `Der.lean` and is compared with the real files by correspondence.
-/
namespace AcraModel.KeystoreSec.Notary
open AcraModel.KeystoreSec.Path (ofStr)

structure Sig where
  oid : List Nat
  sig : Bytes
deriving DecidableEq, Repr

structure Container where
  /-- DER bytes of the payload = the signed span -/
  raw : Bytes
  sigs : List Sig
deriving DecidableEq, Repr

/-- `asn1.Sha256OID` (fact `fact_sha256_oid`) -/
def sha256OID : List Nat := [2, 16, 840, 1, 101, 3, 4, 2, 1]

/-- `SignSha256.Sign`: HMAC-SHA-256 over `context ‖ ": " ‖ data` -/
def signBytes (c : CryptoOps) (key ctx data : Bytes) : Bytes := c.hmac key (ctx ++ (ofStr ": " ++ data))

/-- `Notary.Sign` with the default suite (one algorithm) -/
def sign (c : CryptoOps) (key ctx raw : Bytes) : Container := ⟨raw, [⟨sha256OID, signBytes c key ctx raw⟩]⟩

/-- `Notary.verifySignatures`: signatures of unknown algorithms are skipped, all known ones must
match, at least one must be known -/
def verify (c : CryptoOps) (key ctx : Bytes) (ct : Container) : Bool :=
  let known := ct.sigs.filter (·.oid = sha256OID)
  !known.isEmpty && known.all (fun s => s.sig == signBytes c key ctx ct.raw)

theorem verify_sign (c : CryptoOps) (key ctx raw : Bytes) : verify c key ctx (sign c key ctx raw) = true := by
  simp [verify, sign]

/-- anything that verifies with signatures taken from an honest container was signed over the same
`context ‖ ": " ‖ payload` string, under the same key -/
theorem verify_forces (c : CryptoOps) (hi : HashInj c) (key ctx raw key' ctx' raw' : Bytes)
    (h : verify c key' ctx' ⟨raw', (sign c key ctx raw).sigs⟩ = true) :
    key' = key ∧ ctx' ++ (ofStr ": " ++ raw') = ctx ++ (ofStr ": " ++ raw) := by
  simp [verify, sign, signBytes] at h
  have := hi.hmac_inj _ _ _ _ h
  exact ⟨this.1.symm, this.2.symm⟩

end AcraModel.KeystoreSec.Notary
