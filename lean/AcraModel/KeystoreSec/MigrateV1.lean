import AcraModel.KeystoreSec.ExportV1
import AcraModel.KeystoreSec.Export
/-!
# Migration v1 → v2 (`acra-keys migrate`)
(`keystore/filesystem/key_export.go`: `EnumerateExportedKeyPaths`, `ClassifyExportedKey`,
`EnumerateExportedKeysByClass`, `Export{Public,Private,KeyPair,Symmetric}Key`;
`keystore/v2/keystore/importV1.go`: `ImportKeyFileV1`; `cmd/acra-keys/keys/migrate-keys.go`: `MigrateV1toV2`)

* Every file of the v1 folder (sub-directories included, breadth first) is classified *by its path*:
  a purpose, an id (client id or fixed context) and which of the three slots (public / private /
  symmetric path) it fills. Files with the same `purpose ‖ id` are fused into one `ExportedKey`.
* `ImportKeyFileV1` maps the purpose to a v2 key ring (`poison-record`, `client/<id>/storage`,
  `audit-log`, `client/<id>/hmac-sym`, `poison-record-sym`, `client/<id>/storage-sym`), reads the
  key material from the v1 files (decrypting under the `ExportedKey`'s context) and appends it to
  the ring as a new key which becomes current (`AddKey` + `SetCurrent`).
* The v2 side is kept at the level of plaintext ring views (what `exportKeyRing`/the read API show);
  how a ring is stored is the subject of `Export.lean`/`WriteLog.lean`.

Faithful to the code, *rotated* v1 keys (`<file>.old/<timestamp>`) are not recognised by the
classifier: a history file falls through to the last case and is described as the private key of a
storage key pair whose client id is the timestamp; reading it fails, so the migration of a key store
with rotated keys imports the current keys and reports "Incomplete key import" (known finding
`migrate-v1-rotated-keys`, theorem `migration_drops_history_counterexample`).
-/
namespace AcraModel.KeystoreSec.MigrateV1
open AcraModel.KeystoreSec.Path AcraModel.KeystoreSec.V1 AcraModel.KeystoreSec.ExportV1
open AcraModel.CrossClient (KeyContext keyContextBytes newClientIDKeyContext newKeyContext keyDecrypt Files)
open AcraModel.KeystoreSec.Export (KeyData fmtPair fmtSym)

/-- `filesystem.ExportedKey`; an empty path = slot not applicable -/
structure ExportedKey where
  pubPath : Bytes
  privPath : Bytes
  symPath : Bytes
  ctx : KeyContext
deriving DecidableEq, Repr

def symKey (path : Bytes) (kc : KeyContext) : ExportedKey := ⟨[], [], path, kc⟩
def pubKey (path : Bytes) (kc : KeyContext) : ExportedKey := ⟨path, [], [], kc⟩
def privKey (path : Bytes) (kc : KeyContext) : ExportedKey := ⟨[], path, [], kc⟩

def sStoragePub : Bytes := ofStr "_storage.pub"

/-- `DefaultKeyFileClassifier.ClassifyExportedKey` (never returns nil). `poisonSymCtx` is the
context given to the poison symmetric key: its file name after repair 46, `PoisonKeyFilename` on the
pinned tree. -/
def classifyWith (poisonSymCtx : Bytes) (path : Bytes) : ExportedKey :=
  let filename := base path
  if filename = logKey then symKey path (newKeyContext pAuditLog logKey)
  else if hasSuffix path (slash :: poisonSym) then symKey path (newKeyContext pPoisonSym poisonSymCtx)
  else if hasSuffix filename sHmac then symKey path (newClientIDKeyContext pSearchHMAC (trimSuffix filename sHmac))
  else if hasSuffix filename sStorageSym then symKey path (newClientIDKeyContext pStorageSym (trimSuffix filename sStorageSym))
  else if hasSuffix path poisonPub then pubKey path (newKeyContext pPoisonPair poisonKey)
  else if hasSuffix path poisonKey then privKey path (newKeyContext pPoisonPair poisonKey)
  else if hasSuffix filename sStoragePub then pubKey path (newClientIDKeyContext pStoragePair (trimSuffix filename sStoragePub))
  else privKey path (newClientIDKeyContext pStoragePair (trimSuffix filename sStorage))

def classify := classifyWith poisonSym
def classifyPinned := classifyWith poisonKey

/-- `ExportedKey.fusedID`: purpose, a zero byte, id (repair 49) -/
def fusedID (k : ExportedKey) : Bytes := ofStr k.ctx.purpose ++ 0 :: keyContextBytes k.ctx

/-- the pinned tree: purpose and id simply concatenated -/
def fusedIDPinned (k : ExportedKey) : Bytes := ofStr k.ctx.purpose ++ keyContextBytes k.ctx

/-- `addPathFrom` -/
def addPathFrom (k o : ExportedKey) : ExportedKey :=
  { k with pubPath := if o.pubPath ≠ [] then o.pubPath else k.pubPath,
           privPath := if o.privPath ≠ [] then o.privPath else k.privPath,
           symPath := if o.symPath ≠ [] then o.symPath else k.symPath }

/-- the `keyMap` of `EnumerateExportedKeysByClass` as an association list (first occurrence keeps
its place and its key context, later ones only contribute paths) -/
def fuseWith (fid : ExportedKey → Bytes) (m : List ExportedKey) (k : ExportedKey) : List ExportedKey :=
  if m.any (fun x => fid x = fid k) then
    m.map fun x => if fid x = fid k then addPathFrom x k else x
  else m ++ [k]

def fuse := fuseWith fusedID

/-- order in which `EnumerateExportedKeyPaths` (breadth first, `ReadDir` sorted per directory)
yields relative paths: by depth, then component-wise -/
def enumLt (a b : Bytes) : Bool :=
  let ca := splitSlash a
  let cb := splitSlash b
  ca.length < cb.length || (ca.length = cb.length && compsLt ca cb)

def insertPath (x : Bytes) : List Bytes → List Bytes
  | [] => [x]
  | y :: r => if enumLt x y then x :: y :: r else y :: insertPath x r

def enumPaths (fs : Files) : List Bytes := (fs.map (·.1)).foldr insertPath []

/-- `EnumerateExportedKeys`: classify `"/" ++ relative path` (the real argument is
`<folder>/<relative path>`; the folder name is assumed not to contribute to any suffix test). The
slot paths kept here are the relative ones. Go iterates a map: the order of the result is
unspecified, the model keeps first-occurrence order. -/
def enumerateWith (cls : Bytes → ExportedKey) (fs : Files) (fid : ExportedKey → Bytes := fusedID) : List ExportedKey :=
  (enumPaths fs).foldl (fun m p =>
    let k := cls (slash :: p)
    let k' : ExportedKey := ⟨if k.pubPath = [] then [] else p, if k.privPath = [] then [] else p,
      if k.symPath = [] then [] else p, k.ctx⟩
    fuseWith fid m k') []

def enumerate := enumerateWith classify

/-! ## the v2 side, as plaintext ring views -/

structure V2Key where
  seq : Nat
  data : KeyData
deriving DecidableEq, Repr

structure V2Ring where
  path : Bytes
  /-- oldest first (`r.data.Keys`) -/
  keys : List V2Key
  /-- `asn1.NoKey` = -1 -/
  current : Int
deriving DecidableEq, Repr

abbrev V2 := List V2Ring

def V2.get (s : V2) (p : Bytes) : Option V2Ring := s.find? (·.path = p)
def V2.put (s : V2) (r : V2Ring) : V2 :=
  if s.any (·.path = r.path) then s.map fun x => if x.path = r.path then r else x else s ++ [r]

/-- `OpenKeyRingRW`: an absent ring is created empty -/
def V2.open (s : V2) (p : Bytes) : V2 × V2Ring :=
  match s.get p with
  | some r => (s, r)
  | none => let r : V2Ring := ⟨p, [], -1⟩; (s.put r, r)

/-- `KeyRing.nextSeqnum` -/
def nextSeq (r : V2Ring) : Nat :=
  match r.keys.getLast? with
  | none => 1
  | some k => k.seq + 1

/-- `KeyRing.AllKeys`: sequence numbers newest first -/
def allKeys (r : V2Ring) : List Nat := (r.keys.map (·.seq)).reverse

/-- `newKey` → `addKeyData` checks on one plaintext data item (`false` = `ErrNoKeyData`) -/
def dataOk (d : KeyData) : Bool :=
  if d.format = fmtPair then d.pub ≠ [] else if d.format = fmtSym then d.sym ≠ [] else false

inductive Res | ok | err | panic
deriving DecidableEq, Repr

/-- `addCurrentKeyPair` / `addCurrentSymmetricKey` on the ring at `p`: `AddKey` then `SetCurrent` -/
def addCurrent (s : V2) (p : Bytes) (d : KeyData) : V2 × Res :=
  let (s1, r) := s.open p
  if dataOk d then
    let q := nextSeq r
    (s1.put { r with keys := r.keys ++ [⟨q, d⟩], current := q }, .ok)
  else (s1, .err)

/-! ## reading the v1 files for import -/

/-- `ExportPublicKey`: `none` = error, `some none` = nil key (no path) -/
def exportPublic (src : Store) (k : ExportedKey) : Option (Option Bytes) :=
  if k.pubPath = [] then some none else (src.files.get k.pubPath).map some

/-- `ExportPrivateKey` -/
def exportPrivate (e : Env) (src : Store) (k : ExportedKey) : Option (Option Bytes) :=
  if k.privPath = [] then some none
  else ((src.files.get k.privPath).bind (keyDecrypt e.c src.master k.ctx)).map some

/-- `ExportSymmetricKey` -/
def exportSymmetric (e : Env) (src : Store) (k : ExportedKey) : Option (Option Bytes) :=
  if k.symPath = [] then some none
  else ((src.files.get k.symPath).bind (keyDecrypt e.c src.master k.ctx)).map some

def sClient : Bytes := ofStr "client"

/-- `filepath.Join("client", id, suffix)` -/
def clientRing (id suffix : Bytes) : Bytes := clean (sClient ++ slash :: id ++ slash :: suffix)

/-- key pair branch: `ExportKeyPair`, then `describeNewKeyPair` takes the halves that are present
(repair 48) and `AddKey` refuses a pair without public key -/
def importPair (e : Env) (src : Store) (s : V2) (k : ExportedKey) (ring : Bytes) : V2 × Res :=
  match exportPublic src k with
  | none => (s, .err)
  | some pub =>
    match exportPrivate e src k with
    | none => (s, .err)
    | some priv => addCurrent s ring ⟨fmtPair, pub.getD [], priv.getD [], []⟩

/-- the pinned tree: `describeNewKeyPair` dereferences both halves (`keypair.Public.Value`,
`keypair.Private.Value`) after the ring was opened – a missing half is a nil pointer dereference -/
def importPairPinned (e : Env) (src : Store) (s : V2) (k : ExportedKey) (ring : Bytes) : V2 × Res :=
  match exportPublic src k with
  | none => (s, .err)
  | some pub =>
    match exportPrivate e src k with
    | none => (s, .err)
    | some priv =>
      match pub, priv with
      | some pub, some priv => addCurrent s ring ⟨fmtPair, pub, priv, []⟩
      | _, _ => ((s.open ring).1, .panic)

/-- symmetric branch -/
def importSym (e : Env) (src : Store) (s : V2) (k : ExportedKey) (ring : Bytes) : V2 × Res :=
  match exportSymmetric e src k with
  | none => (s, .err)
  | some sym => addCurrent s ring ⟨fmtSym, [], [], sym.getD []⟩

/-- ring a purpose and id are imported into (`none` = `ErrUnknownPurpose`) -/
def ringOf (purpose : String) (id : Bytes) : Option (Bool × Bytes) :=
  if purpose = pPoisonPair then some (true, ofStr "poison-record")
  else if purpose = pStoragePair then some (true, clientRing id (ofStr "storage"))
  else if purpose = pAuditLog then some (false, ofStr "audit-log")
  else if purpose = pSearchHMAC then some (false, clientRing id (ofStr "hmac-sym"))
  else if purpose = pPoisonSym then some (false, ofStr "poison-record-sym")
  else if purpose = pStorageSym then some (false, clientRing id (ofStr "storage-sym"))
  else none

/-- `ServerKeyStore.ImportKeyFileV1` -/
def importKeyFileV1 (e : Env) (src : Store) (s : V2) (k : ExportedKey) : V2 × Res :=
  match ringOf k.ctx.purpose (keyContextBytes k.ctx) with
  | none => (s, .err)
  | some (true, ring) => importPair e src s k ring
  | some (false, ring) => importSym e src s k ring

/-- `MigrateV1toV2` over an already enumerated key list: every key is attempted, the result says
whether all succeeded; a panic aborts the process -/
def migrateKeys (e : Env) (src : Store) : V2 → List ExportedKey → V2 × Res
  | s, [] => (s, .ok)
  | s, k :: ks =>
    match importKeyFileV1 e src s k with
    | (s', .panic) => (s', .panic)
    | (s', r) =>
      match migrateKeys e src s' ks with
      | (s'', .ok) => (s'', r)
      | (s'', r') => (s'', r')

def migrate (e : Env) (src : Store) (s : V2) : V2 × Res := migrateKeys e src s (enumerate src.files)

end AcraModel.KeystoreSec.MigrateV1
