import AcraModel.KeystoreSec.Notary
/-!
# Reading a signed container (`asn1.UnmarshalVerifiedContainer` = Go's `encoding/asn1.Unmarshal`
into `VerifiedContainer`)

Line-by-line model of the part of Go's DER reader (go1.23 `encoding/asn1/asn1.go`) that the key store
uses when it loads a ring file:

* `parseHdr`   = `parseTagAndLength` (single-byte and base-128 tags, definite minimal lengths only:
  indefinite length, leading zero length octets, a long form below 128 and a length of 2²³·256 or more
  are errors);
* `takeTLV`    = header + `invalidLength` check + the content slice;
* `parseOID`   = `parseObjectIdentifier` / `parseBase128Int` (minimal base-128, at most 5 octets and
  at most `MaxInt32` per arc);
* `parseInt64` = `checkInteger` + `parseInt64` (non-empty, minimal two's complement, ≤ 8 octets);
* `parseContainer`: `SEQUENCE { payload SEQUENCE { INTEGER contentType, INTEGER version, UTCTime |
  GeneralizedTime, ANY data }, SET OF SEQUENCE { OID, OCTET STRING } }`, nothing after the outer
  element (`ErrExtraData`).  As in Go, **bytes after the last field of a `SEQUENCE` that is read into
  a struct are ignored** ("we allow extra bytes at the end of the SEQUENCE") – inside the payload this
  is covered by the signature, after the signature set and inside a signature element it is not
  (`Props.C07.der_trailing_bytes_counterexample`).

`RawContent` of the payload (what `Notary.Verify` feeds to the HMAC) is the payload element with its
header, exactly the bytes found in the file.

Not modelled: the text of the time stamp is not validated (`parseUTCTime`; it lies inside the signed
span, so a file that differs from this model there carries a valid signature over a malformed
payload – something only the holder of the signature key can make).
-/
namespace AcraModel.KeystoreSec.DerParse
open AcraModel.KeystoreSec

structure Hdr where
  /-- class: 0 universal, 1 application, 2 context specific, 3 private -/
  cls : Nat
  compound : Bool
  tag : Nat
  /-- content length -/
  len : Nat
deriving DecidableEq, Repr

/-- `parseBase128Int` from the current position: value and the bytes after it -/
def base128Aux : Nat → Nat → Bytes → Option (Nat × Bytes)
  | _, _, [] => none                                          -- truncated base 128 integer
  | shifted, acc, b :: rest =>
    if shifted = 5 then none                                  -- base 128 integer too large
    else if shifted = 0 ∧ b = 0x80 then none                  -- not minimally encoded
    else
      let acc' := acc * 128 + b.toNat % 128
      if b.toNat < 128 then (if acc' > 2147483647 then none else some (acc', rest))
      else base128Aux (shifted + 1) acc' rest

def base128 (b : Bytes) : Option (Nat × Bytes) := base128Aux 0 0 b

/-- the long form of a length: `n` octets, most significant first -/
def lenOctets : Nat → Nat → Bytes → Option (Nat × Bytes)
  | 0, acc, rest => some (acc, rest)
  | _ + 1, _, [] => none                                      -- truncated tag or length
  | n + 1, acc, b :: rest =>
    if acc ≥ 8388608 then none                                -- length too large (1 << 23)
    else
      let acc' := acc * 256 + b.toNat
      if acc' = 0 then none                                   -- superfluous leading zeros in length
      else lenOctets n acc' rest

/-- `parseTagAndLength`: header and the bytes after it -/
def parseHdr : Bytes → Option (Hdr × Bytes)
  | [] => none
  | b :: rest =>
    let cls := b.toNat / 64
    let compound := b.toNat / 32 % 2 = 1
    let tagRes : Option (Nat × Bytes) :=
      if b.toNat % 32 = 31 then
        (base128 rest).bind fun (t, r) => if t < 31 then none else some (t, r)   -- non-minimal tag
      else some (b.toNat % 32, rest)
    tagRes.bind fun (tag, rest) =>
      match rest with
      | [] => none                                            -- truncated tag or length
      | l :: rest =>
        if l.toNat < 128 then some (⟨cls, compound, tag, l.toNat⟩, rest)
        else
          let n := l.toNat % 128
          if n = 0 then none                                  -- indefinite length
          else (lenOctets n 0 rest).bind fun (len, rest) =>
            if len < 128 then none                            -- non-minimal length
            else some (⟨cls, compound, tag, len⟩, rest)

/-- one element: header, content, the bytes after the element (`invalidLength` → `none`) -/
def takeTLV (b : Bytes) : Option (Hdr × Bytes × Bytes) :=
  (parseHdr b).bind fun (h, r) => if h.len ≤ r.length then some (h, r.take h.len, r.drop h.len) else none

def Hdr.isUniv (h : Hdr) (compound : Bool) (tag : Nat) : Bool := h.cls == 0 && h.compound == compound && h.tag == tag

/-- the arcs after the first sub-identifier -/
def oidArcs : Nat → Bytes → Option (List Nat)
  | _, [] => some []
  | 0, _ :: _ => none
  | fuel + 1, b :: bs => (base128 (b :: bs)).bind fun (v, rest) => (oidArcs fuel rest).map (v :: ·)

/-- `parseObjectIdentifier` -/
def parseOID (b : Bytes) : Option (List Nat) :=
  if b = [] then none else
  (base128 b).bind fun (v, rest) =>
    (oidArcs rest.length rest).map fun arcs =>
      (if v < 80 then [v / 40, v % 40] else [2, v - 80]) ++ arcs

/-- big-endian value of the content octets -/
def beVal : Bytes → Nat → Nat
  | [], acc => acc
  | b :: bs, acc => beVal bs (acc * 256 + b.toNat)

/-- `checkInteger` + `parseInt64` -/
def parseInt64 (b : Bytes) : Option Int :=
  match b with
  | [] => none                                                -- empty integer
  | [x] => some (if x.toNat < 128 then (x.toNat : Int) else (x.toNat : Int) - 256)
  | x :: y :: rest =>
    if (x = 0 ∧ y.toNat < 128) ∨ (x = 0xff ∧ y.toNat ≥ 128) then none     -- not minimally encoded
    else if (x :: y :: rest).length > 8 then none             -- integer too large
    else
      let v := beVal (x :: y :: rest) 0
      some (if x.toNat < 128 then (v : Int) else (v : Int) - (256 ^ (x :: y :: rest).length : Nat))

/-- one `Signature` element: `SEQUENCE { OBJECT IDENTIFIER, OCTET STRING }` (content of the element);
bytes after the second field are ignored -/
def parseSig (content : Bytes) : Option Notary.Sig :=
  (takeTLV content).bind fun (h1, oid, r1) =>
    if !h1.isUniv false 6 then none else
    (parseOID oid).bind fun arcs =>
      (takeTLV r1).bind fun (h2, sig, _) =>
        if !h2.isUniv false 4 then none else some ⟨arcs, sig⟩

/-- `parseSequenceOf` for `[]Signature`: every element a universal constructed `SEQUENCE` -/
def parseSigs : Nat → Bytes → Option (List Notary.Sig)
  | _, [] => some []
  | 0, _ :: _ => none
  | fuel + 1, b :: bs =>
    (takeTLV (b :: bs)).bind fun (h, content, rest) =>
      if !h.isUniv true 16 then none else
      (parseSig content).bind fun s => (parseSigs fuel rest).map (s :: ·)

structure Payload where
  ctype : Int
  version : Int
  /-- `Data.FullBytes`: the data element with its header -/
  data : Bytes
deriving DecidableEq, Repr

/-- the fields of `VerifiedPayload` (content of the payload element); bytes after `Data` are ignored -/
def parsePayload (content : Bytes) : Option Payload :=
  (takeTLV content).bind fun (h1, c1, r1) =>
    if !h1.isUniv false 2 then none else
    (parseInt64 c1).bind fun ctype =>
      (takeTLV r1).bind fun (h2, c2, r2) =>
        if !h2.isUniv false 2 then none else
        (parseInt64 c2).bind fun version =>
          (takeTLV r2).bind fun (h3, _, r3) =>
            if !(h3.isUniv false 23 || h3.isUniv false 24) then none else
            (takeTLV r3).bind fun (_, _, r4) =>
              some ⟨ctype, version, r3.take (r3.length - r4.length)⟩

structure Parsed where
  /-- `Payload.RawContent`: the payload element as found in the file = the signed span -/
  raw : Bytes
  payload : Payload
  sigs : List Notary.Sig
deriving DecidableEq, Repr

/-- `asn1.UnmarshalVerifiedContainer` -/
def parseContainer (data : Bytes) : Option Parsed :=
  (takeTLV data).bind fun (h, content, rest) =>
    if !h.isUniv true 16 then none
    else if rest ≠ [] then none                               -- ErrExtraData
    else (takeTLV content).bind fun (hp, pc, r1) =>
      if !hp.isUniv true 16 then none else
      (parsePayload pc).bind fun p =>
        (takeTLV r1).bind fun (hs, sc, _) =>
          if !hs.isUniv true 17 then none else
          (parseSigs sc.length sc).map fun sigs => ⟨content.take (content.length - r1.length), p, sigs⟩

def Parsed.container (p : Parsed) : Notary.Container := ⟨p.raw, p.sigs⟩

end AcraModel.KeystoreSec.DerParse
