import AcraModel.KeystoreSec.MigrateV1
/-!
Helper lemmas for the v1 → v2 migration model: the ring map, `addCurrent`.
-/
namespace AcraModel.KeystoreSec.MigrateV1
open AcraModel.KeystoreSec.Path AcraModel.KeystoreSec.V1 AcraModel.KeystoreSec.ExportV1
open AcraModel.CrossClient (KeyContext keyContextBytes keyDecrypt Files)
open AcraModel.KeystoreSec.Export (KeyData fmtPair fmtSym)

theorem V2.get_path {s : V2} {p : Bytes} {r : V2Ring} (h : s.get p = some r) : r.path = p := by
  have := List.find?_some h
  simpa using this

theorem V2.get_put_same (s : V2) (r : V2Ring) : (s.put r).get r.path = some r := by
  unfold V2.put V2.get
  induction s with
  | nil => simp
  | cons x xs ih =>
    by_cases hx : x.path = r.path
    · simp [hx]
    · have hany : ((x :: xs).any fun y => decide (y.path = r.path)) = xs.any fun y => decide (y.path = r.path) := by
        simp [hx]
      rw [hany]
      by_cases ha : (xs.any fun y => decide (y.path = r.path)) = true
      · rw [if_pos ha] at ih ⊢
        simp only [List.map_cons, hx, if_false, List.find?_cons, decide_false]
        exact ih
      · rw [if_neg ha] at ih ⊢
        simp only [List.cons_append, List.find?_cons, hx, decide_false]
        exact ih

theorem find_map_replace (r : V2Ring) (q : Bytes) (h : q ≠ r.path) :
    ∀ xs : V2, List.find? (fun x => decide (x.path = q)) (xs.map fun x => if x.path = r.path then r else x) =
      List.find? (fun x => decide (x.path = q)) xs
  | [] => rfl
  | x :: xs => by
    have ih := find_map_replace r q h xs
    have hq' : decide (r.path = q) = false := by simpa using fun e : r.path = q => h e.symm
    by_cases hx : x.path = r.path
    · have hq : decide (x.path = q) = false := by rw [hx]; exact hq'
      rw [List.map_cons, if_pos hx, List.find?_cons, List.find?_cons, hq', hq]
      exact ih
    · rw [List.map_cons, if_neg hx, List.find?_cons, List.find?_cons, ih]

theorem V2.get_put_other (s : V2) (r : V2Ring) (q : Bytes) (h : q ≠ r.path) : (s.put r).get q = s.get q := by
  unfold V2.put V2.get
  split
  · exact find_map_replace r q h s
  · rw [List.find?_append]
    have hq' : decide (r.path = q) = false := by simpa using fun e : r.path = q => h e.symm
    have : List.find? (fun x => decide (x.path = q)) [r] = none := by
      rw [List.find?_cons, hq']; rfl
    rw [this]; simp

/-- `allKeys` lists the newest key first -/
theorem allKeys_append (r : V2Ring) (k : V2Key) :
    allKeys { r with keys := r.keys ++ [k] } = k.seq :: allKeys r := by
  simp [allKeys]

theorem open_get (s : V2) (p : Bytes) : (s.open p).1.get p = some (s.open p).2 ∧ (s.open p).2.path = p ∧
    (∀ q, q ≠ p → (s.open p).1.get q = s.get q) ∧
    ((s.open p).2 = (s.get p).getD ⟨p, [], -1⟩) := by
  unfold V2.open
  cases hg : s.get p with
  | some r => exact ⟨hg, V2.get_path hg, fun _ _ => rfl, rfl⟩
  | none =>
    refine ⟨?_, rfl, ?_, rfl⟩
    · exact V2.get_put_same s ⟨p, [], -1⟩
    · intro q hq
      exact V2.get_put_other s ⟨p, [], -1⟩ q hq

/-- `AddKey` + `SetCurrent` on the ring at `p`: the key is appended with the next sequence number,
becomes current, the older keys and every other ring are untouched -/
theorem addCurrent_ok (s : V2) (p : Bytes) (d : KeyData) (hd : dataOk d = true) :
    ∃ s', addCurrent s p d = (s', .ok) ∧
      let old := (s.get p).getD ⟨p, [], -1⟩
      s'.get p = some ⟨p, old.keys ++ [⟨nextSeq old, d⟩], nextSeq old⟩ ∧
      (∀ q, q ≠ p → s'.get q = s.get q) := by
  obtain ⟨_, h2, h3, h4⟩ := open_get s p
  have hadd : addCurrent s p d = ((s.open p).1.put { (s.open p).2 with keys := (s.open p).2.keys ++ [⟨nextSeq (s.open p).2, d⟩], current := nextSeq (s.open p).2 }, .ok) := by
    unfold addCurrent
    simp only [hd, if_true]
  refine ⟨_, hadd, ?_, ?_⟩
  · show V2.get _ p = _
    rw [← h4]
    generalize (s.open p).2 = r at h2 ⊢
    generalize (s.open p).1 = s1
    cases r with
    | mk rp rk rc =>
      simp only at h2
      subst h2
      exact V2.get_put_same s1 ⟨rp, rk ++ [⟨nextSeq ⟨rp, rk, rc⟩, d⟩], nextSeq ⟨rp, rk, rc⟩⟩
  · intro q hq
    rw [V2.get_put_other _ _ q (by simpa [h2] using hq)]
    exact h3 q hq

theorem addCurrent_fail (s : V2) (p : Bytes) (d : KeyData) (hd : dataOk d = false) :
    (addCurrent s p d).2 = .err := by
  simp [addCurrent, hd]

end AcraModel.KeystoreSec.MigrateV1
