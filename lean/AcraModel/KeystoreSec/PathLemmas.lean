import AcraModel.KeystoreSec.Path
/-! Helper lemmas about the path model (used by `Props/C07.lean`). -/
namespace AcraModel.KeystoreSec.Path

/-- an ordinary path component: not empty, not `.`, not `..`, no separator inside -/
def GoodComp (c : Bytes) : Prop := c ≠ [] ∧ c ≠ [dot] ∧ c ≠ dd ∧ slash ∉ c

theorem splitSlash_ne_nil (p : Bytes) : splitSlash p ≠ [] := by
  induction p with
  | nil => simp [splitSlash]
  | cons c r ih =>
    unfold splitSlash
    split
    · simp
    · split
      · simp
      · simp

theorem splitSlash_append (a b : Bytes) : splitSlash (a ++ slash :: b) = splitSlash a ++ splitSlash b := by
  induction a with
  | nil => simp [splitSlash]
  | cons c r ih =>
    simp only [List.cons_append]
    by_cases hc : c = slash
    · simp [splitSlash, hc, ih]
    · have hne := splitSlash_ne_nil r
      cases hs : splitSlash r with
      | nil => exact absurd hs hne
      | cons h t =>
        simp [splitSlash, hc, ih, hs]

theorem splitSlash_noslash (p : Bytes) : ∀ c ∈ splitSlash p, slash ∉ c := by
  induction p with
  | nil => simp [splitSlash]
  | cons x r ih =>
    unfold splitSlash
    split
    · intro c hc
      simp at hc
      rcases hc with rfl | hc
      · simp
      · exact ih c hc
    · next hx =>
      split
      · intro c hc; simp at hc; subst hc; simp; exact fun h => hx h.symm
      · next h t hs =>
        intro c hc
        simp at hc
        rcases hc with rfl | hc
        · have := ih h (by simp [hs])
          simp; exact ⟨fun e => hx e.symm, this⟩
        · exact ih c (by simp [hs, hc])

/-- In a rooted path the clean-up stack only ever holds ordinary components. -/
theorem pushComp_good (stack : List Bytes) (c : Bytes) (hs : ∀ x ∈ stack, GoodComp x) (hc : slash ∉ c) :
    ∀ x ∈ pushComp true stack c, GoodComp x := by
  unfold pushComp
  split
  · exact hs
  · next h1 =>
    split
    · split
      · next t r =>
        split
        · exact hs
        · intro x hx; exact hs x (by simp [hx])
      · simp
    · next h2 =>
      intro x hx
      simp at hx
      rcases hx with rfl | hx
      · simp at h1
        exact ⟨h1.1, h1.2, h2, hc⟩
      · exact hs x hx

theorem cleanStack_good (stack cs : List Bytes) (hs : ∀ x ∈ stack, GoodComp x) (hc : ∀ c ∈ cs, slash ∉ c) :
    ∀ x ∈ cleanStack true stack cs, GoodComp x := by
  induction cs generalizing stack with
  | nil => exact hs
  | cons c r ih =>
    simp only [cleanStack, List.foldl_cons]
    exact ih _ (pushComp_good stack c hs (hc c (by simp))) (fun c' h' => hc c' (by simp [h']))

theorem cleanStack_append (rooted : Bool) (s : List Bytes) (a b : List Bytes) :
    cleanStack rooted s (a ++ b) = cleanStack rooted (cleanStack rooted s a) b := by
  simp [cleanStack, List.foldl_append]

theorem stripCommon_nil_prefix : ∀ (b t : List Bytes), (stripCommon b t).1 = [] → t = b ++ (stripCommon b t).2
  | [], t, _ => by cases t <;> simp [stripCommon]
  | b :: bs, [], h => by simp [stripCommon] at h
  | b :: bs, t :: ts, h => by
    unfold stripCommon at h ⊢
    split
    · next e =>
      rw [if_pos e] at h
      subst e
      simp
      exact stripCommon_nil_prefix bs ts h
    · next e => rw [if_neg e] at h; simp at h

theorem escapes_dd_cons (r : List Bytes) : escapes (joinSlash (dd :: r)) = true := by
  cases r with
  | nil => simp [joinSlash, escapes]
  | cons x r => simp [joinSlash, escapes, dd]

end AcraModel.KeystoreSec.Path
