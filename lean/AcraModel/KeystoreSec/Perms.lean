import AcraModel.Generated.KeyPerms
/-!
# Permission discipline of the two key store formats

What the key stores ask the operating system for when they create files and directories
(`keystore/filesystem/{server_keystore,storage,filesystem_backup}.go`,
`keystore/v2/keystore/filesystem/backend/{filesystem,file_lock}.go`), and what they check on things
that already exist. The call table `Generated.KeyPerms.permCalls` (every `MkdirAll / WriteFile / TempFile /
TempDir / OpenFile / Create / Chmod / Symlink / Readlink / EvalSymlinks / Lstat` call of the two packages
and the key store's own `Write…Key…` wrappers, with the text of the mode argument) and the constants are
regenerated from the source; this file *interprets* them.

POSIX: `open(O_CREAT, perm)` and `mkdir(perm)` create with `perm & ~umask`; `chmod(perm)` sets exactly
`perm`; a hard link shares the inode (and the mode) of its source.

* v1 `WriteKeyFile(path, data, mode)`: `FileStorage.TempFile` = `ioutil.TempFile` (created 0600) then
  `Chmod(mode)` – the final mode is exactly `mode` whatever the umask; `WriteFile` goes to the existing
  temporary file (no mode change); `Rename` keeps the inode. History: `Link` (same inode) or `Copy`
  (`OpenFile(dst, O_CREATE|O_EXCL, mode of the source)`).
* v1 directories: `MkdirAll(dir, keyDirMode)`.
* v2 `Put`: `MkdirAll(dir, keyDirPerm)`, `OpenFile(path, O_CREATE|O_EXCL|O_WRONLY, keyFilePerm)`; the
  `version` file (constant text) with `versionPerm`, the `.lock` file (empty) with `os.Create` = 0666.
* checks: v1 `newFilesystemKeyStore` refuses an existing private key folder whose permission string is
  not `-rwx------`; `loadPrivateKey` refuses a private key file whose permission bits are *numerically
  greater* than 0600; v2 `Create/OpenDirectoryBackend` refuse a root whose permission bits are not 0700.
-/
namespace AcraModel.KeystoreSec.Perms
open AcraModel.Generated.KeyPerms

/-- the nine permission bits -/
def permMask : Nat := 0o777
/-- group and other bits -/
def groupOther : Nat := 0o077

/-- `open(O_CREAT, perm)` / `mkdir(perm)` under a umask -/
def created (perm umask : Nat) : Nat := perm &&& (permMask ^^^ (umask &&& permMask))
/-- `chmod(perm)` -/
def chmodded (perm : Nat) : Nat := perm &&& permMask

/-- no group / other bit is set -/
def ownerOnly (m : Nat) : Bool := m &&& groupOther == 0

/-! ## sites -/

/-- where the key stores create something -/
inductive Site
  | v1Dir | v1Private | v1Public | v2Dir | v2File | v2Version | v2Lock
deriving DecidableEq, Repr

def Site.ofName : String → Option Site
  | "v1.dir" => some .v1Dir | "v1.private" => some .v1Private | "v1.public" => some .v1Public
  | "v2.dir" => some .v2Dir | "v2.file" => some .v2File | "v2.version" => some .v2Version | "v2.lock" => some .v2Lock
  | _ => none

/-- does the site hold private material (sealed keys, signed rings) or the directories leading to it -/
def Site.holdsKeys : Site → Bool
  | .v1Dir | .v1Private | .v2Dir | .v2File => true
  | .v1Public | .v2Version | .v2Lock => false

/-- mode of what is created at the site under a umask -/
def effectiveAt (s : Site) (umask : Nat) : Nat :=
  match s with
  | .v1Dir => created v1KeyDirMode umask
  | .v1Private => chmodded v1PrivateFileMode
  | .v1Public => chmodded v1PublicFileMode
  | .v2Dir => created v2KeyDirPerm umask
  | .v2File => created v2KeyFilePerm umask
  | .v2Version => created v2VersionPerm umask
  | .v2Lock => created 0o666 umask

/-! ## the checks on existing directories and files -/

/-- `os.FileMode.String()` of permission bits only: `-` and nine `rwx` letters -/
def permString (m : Nat) : String :=
  let bit (i : Nat) (c : Char) : Char := if m.testBit i then c else '-'
  String.mk ['-', bit 8 'r', bit 7 'w', bit 6 'x', bit 5 'r', bit 4 'w', bit 3 'x', bit 2 'r', bit 1 'w', bit 0 'x']

/-- the string the source compares with (a Go string literal: strip the quotes) -/
def expectedPermission : String :=
  match v1ExpectedPermission with
  | [s] => String.mk ((s.toList.drop 1).dropLast)
  | _ => ""

/-- `newFilesystemKeyStore` over an existing private key folder of mode `m` (Linux) -/
def v1OpenAccepts (m : Nat) : Bool := permString (m &&& permMask) == expectedPermission

/-- `CreateDirectoryBackend` / `OpenDirectoryBackend` over an existing root of mode `m` -/
def v2OpenAccepts (m : Nat) : Bool := (m &&& permMask) == v2KeyDirPerm

/-- `loadPrivateKey` on a key file of mode `m`: `fi.Mode().Perm() > PrivateFileMode` is refused; then
the file must be readable (always, for uid 0) -/
def v1LoadAccepts (m : Nat) (uid0 : Bool) : Bool :=
  !decide ((m &&& permMask) > v1PrivateFileMode) && (uid0 || (m &&& 0o400 != 0))

/-! ## the call table -/

abbrev Row := String × String × String × String

def modeConst : String → Option Nat
  | "keyDirMode" => some v1KeyDirMode
  | "PrivateFileMode" => some v1PrivateFileMode
  | "publicFileMode" => some v1PublicFileMode
  | "keyDirPerm" => some v2KeyDirPerm
  | "keyFilePerm" => some v2KeyFilePerm
  | "versionPerm" => some v2VersionPerm
  | _ => none

inductive Kind
  /-- a directory created with a constant mode -/
  | dir (mode : Nat)
  /-- a file created / written with a constant mode -/
  | file (mode : Nat)
  /-- the mode is a parameter of the enclosing function (`WriteKeyFile.mode`, `Import.filePermission`) -/
  | param (name : String)
  /-- `WritePrivateKey` / `WritePublicKey`: wrappers of `WriteKeyFile` with a constant mode -/
  | wrapper (mode : Nat)
  /-- `FileStorage`: the storage implementation executes the mode it is handed -/
  | storage
  /-- the lock file: `os.Create` (0666), never holds data -/
  | lock
  | unknown
deriving DecidableEq, Repr

def kindOf (r : Row) : Kind :=
  let (file, fn, callee, arg) := r
  if file = "storage.go" then .storage
  else if callee = "os.Create" then (if file = "file_lock.go" then .lock else .unknown)
  else if callee = "store.WritePrivateKey" then .wrapper v1PrivateFileMode
  else if callee = "store.WritePublicKey" then .wrapper v1PublicFileMode
  else if callee = "store.fs.MkdirAll" || callee = "store.storage.MkdirAll" || callee = "os.MkdirAll" then
    match modeConst arg with
    | some m => .dir m
    | none => .unknown
  else if callee = "store.WriteKeyFile" || callee = "os.OpenFile" then
    match modeConst arg with
    | some m => .file m
    | none => .unknown
  else if (callee = "store.fs.TempFile" || callee = "store.fs.WriteFile") && fn = "KeyStore.WriteKeyFile" && arg = "mode" then .param "WriteKeyFile.mode"
  else if (callee = "store.storage.WriteFile" || callee = "store.storage.TempFile") && fn = "KeyBackuper.Import" && arg = "filePermission" then .param "Import.filePermission"
  else .unknown

/-- functions that may create a world-readable (0644) file: they write public keys or the constant
version string -/
def publicWriters : List String := ["KeyStore.WritePublicKey", "createVersionFile"]

/-- the whole table obeys the discipline: every call is classified; directories are created 0700;
files with a constant mode are 0600, or 0644 inside a public writer; the mode parameters are fed by
`WritePrivateKey` (0600) / `WritePublicKey` (0644) / direct `WriteKeyFile(…, PrivateFileMode)` calls and,
for `Import`, by `publicFileMode` unless the key is private; nothing creates, reads or resolves a
symbolic link -/
def disciplined (rows : List Row) : Bool :=
  rows.all fun r =>
    match kindOf r with
    | .dir m => m == 0o700
    | .file m => m == 0o600 || (m == 0o644 && publicWriters.contains r.2.1)
    | .wrapper m => m == 0o600 || m == 0o644
    | .param _ | .storage | .lock => true
    | .unknown => false

/-- callees that create or resolve symbolic links -/
def linkCallees : List String := ["Symlink", "Readlink", "EvalSymlinks", "Lstat"]

def noSymlinkCalls (rows : List Row) : Bool :=
  rows.all fun r => linkCallees.all fun l => !(r.2.2.1 == l || r.2.2.1 == "os." ++ l || r.2.2.1 == "filepath." ++ l)

/-! ## lemmas -/

theorem created_ownerOnly (perm umask : Nat) (h : ownerOnly perm = true) : ownerOnly (created perm umask) = true := by
  simp only [ownerOnly, beq_iff_eq] at *
  unfold created
  rw [Nat.and_assoc, Nat.and_comm (permMask ^^^ (umask &&& permMask)), ← Nat.and_assoc, h, Nat.zero_and]

theorem created_sub (perm umask : Nat) (i : Nat) (h : (created perm umask).testBit i = true) : perm.testBit i = true := by
  unfold created at h
  rw [Nat.testBit_and] at h
  simp only [Bool.and_eq_true] at h
  exact h.1

end AcraModel.KeystoreSec.Perms
