import AcraModel.KeystoreSec.FileLock
/-! Invariants of the lock-file life cycle (`FileLock.lean`) and its refinement of the abstract lock. -/
namespace AcraModel.KeystoreSec.FileLock

theorem compat_ex (o : Option Mode) : compat .ex o = true ↔ o = none := by
  cases o with
  | none => simp [compat]
  | some m => cases m <;> simp [compat]

theorem compat_sh (o : Option Mode) : compat .sh o = true ↔ o ≠ some .ex := by
  cases o with
  | none => simp [compat]
  | some m => cases m <;> simp [compat]

theorem compat_of_ex (m : Mode) : compat m (some .ex) = false := by cases m <;> rfl

theorem canFlock_spec (s : LState) (i : Nat) (m : Mode) :
    canFlock s i m = true ↔
      ∀ j, j < s.n → j ≠ i → (s.h j).ino = (s.h i).ino → compat m (s.h j).held = true := by
  unfold canFlock
  rw [List.all_eq_true]
  constructor
  · intro h j hj hji hino
    have := h j (List.mem_range.mpr hj)
    simp only [Bool.or_eq_true, beq_iff_eq, bne_iff_ne, ne_eq] at this
    rcases this with (h1 | h1) | h1
    · exact absurd h1 hji
    · exact absurd hino h1
    · exact h1
  · intro h j hj
    have hj' := List.mem_range.mp hj
    simp only [Bool.or_eq_true, beq_iff_eq, bne_iff_ne, ne_eq]
    by_cases hji : j = i
    · exact Or.inl (Or.inl hji)
    · by_cases hino : (s.h j).ino = (s.h i).ino
      · exact Or.inr (h j hj' hji hino)
      · exact Or.inl (Or.inr hino)

/-- The invariant of the life-cycle model, for either behaviour of `Close`. -/
structure LInv (s : LState) : Prop where
  /-- handle ids that were never handed out are closed dummies -/
  out : ∀ i, s.n ≤ i → s.h i = closedHandle
  freshP : ∀ p, s.path = some p → p < s.next
  freshH : ∀ i, i < s.n → (s.h i).ino < s.next
  heldOpen : ∀ i, (s.h i).held ≠ none → (s.h i).isOpen = true ∧ (s.h i).mutex = true ∧ (s.h i).want = none
  wantOpen : ∀ i, (s.h i).want ≠ none → (s.h i).isOpen = true ∧ (s.h i).mutex = true ∧ (s.h i).held = none
  /-- `flock(2)`: next to an exclusive lock no other open file description **of the same inode** holds a lock -/
  excl : ∀ i j, i ≠ j → (s.h i).ino = (s.h j).ino → (s.h i).held = some .ex → (s.h j).held = none

theorem linit_inv (p : Option Nat) : LInv (linit p) where
  out := fun _ _ => rfl
  freshP := by
    intro q hq
    cases p with
    | none => simp [linit] at hq
    | some k => simp [linit] at hq ⊢; omega
  freshH := by intro i hi; simp [linit] at hi
  heldOpen := by intro i hi; simp [linit, closedHandle] at hi
  wantOpen := by intro i hi; simp [linit, closedHandle] at hi
  excl := by intro i j _ _ h; simp [linit, closedHandle] at h

theorem lt_of_open {s : LState} (h : LInv s) {i : Nat} (ho : (s.h i).isOpen = true) : i < s.n := by
  apply Nat.lt_of_not_le
  intro hle
  rw [h.out i hle] at ho
  simp [closedHandle] at ho

theorem lt_of_held {s : LState} (h : LInv s) {i : Nat} (hh : (s.h i).held ≠ none) : i < s.n :=
  lt_of_open h (h.heldOpen i hh).1

/-- replacing handle `i` (an existing one) by `hd'` with the same inode -/
theorem inv_updH (s : LState) (i : Nat) (hd' : LHandle) (h : LInv s)
    (hi : i < s.n) (hino : hd'.ino = (s.h i).ino)
    (h1 : hd'.held ≠ none → hd'.isOpen = true ∧ hd'.mutex = true ∧ hd'.want = none)
    (h2 : hd'.want ≠ none → hd'.isOpen = true ∧ hd'.mutex = true ∧ hd'.held = none)
    (h3 : hd'.held = some .ex → ∀ j, j ≠ i → (s.h j).ino = (s.h i).ino → (s.h j).held = none)
    (h4 : hd'.held ≠ none → ∀ j, j ≠ i → (s.h j).ino = (s.h i).ino → (s.h j).held ≠ some .ex) :
    LInv { s with h := upd s.h i hd' } := by
  constructor
  · intro k hk
    have hki : k ≠ i := by intro e; subst e; exact absurd hi (Nat.not_lt.mpr hk)
    simp only [upd, if_neg hki]; exact h.out k hk
  · exact h.freshP
  · intro k hk
    by_cases hki : k = i
    · subst hki; simp only [upd_same, hino]; exact h.freshH k hk
    · simp only [upd, if_neg hki]; exact h.freshH k hk
  · intro k hk
    by_cases hki : k = i
    · subst hki; simp only [upd_same] at hk ⊢; exact h1 hk
    · simp only [upd, if_neg hki] at hk ⊢; exact h.heldOpen k hk
  · intro k hk
    by_cases hki : k = i
    · subst hki; simp only [upd_same] at hk ⊢; exact h2 hk
    · simp only [upd, if_neg hki] at hk ⊢; exact h.wantOpen k hk
  · intro a b hab hino' hex
    by_cases hai : a = i
    · subst hai
      have hb : b ≠ a := fun e => hab e.symm
      simp only [upd_same, upd_other _ _ _ _ hb] at hino' hex ⊢
      exact h3 hex b hb (by rw [← hino', hino])
    · by_cases hbi : b = i
      · subst hbi
        simp only [upd_same, upd_other _ _ _ _ hai] at hino' hex ⊢
        cases hh : hd'.held with
        | none => rfl
        | some m => exact absurd hex (h4 (by simp [hh]) a hai (by rw [hino', hino]))
      · simp only [upd_other _ _ _ _ hai, upd_other _ _ _ _ hbi] at hino' hex ⊢
        exact h.excl a b hab hino' hex

theorem inv_setPath (s : LState) (h : LInv s) : LInv { s with path := none } :=
  ⟨h.out, by intro p hp; simp at hp, h.freshH, h.heldOpen, h.wantOpen, h.excl⟩

/-- every step keeps the invariant, whether or not `Close` unlinks -/
theorem lstep_inv (cu : Bool) (s : LState) (op : LOp) (h : LInv s) : LInv (lstep cu s op) := by
  cases op with
  | openH =>
    have hnew : s.h s.n = closedHandle := h.out s.n (Nat.le_refl _)
    unfold lstep
    cases hp : s.path with
    | some p =>
      simp only
      have hpn := h.freshP p hp
      constructor
      · intro k hk
        simp only at hk
        have : k ≠ s.n := by omega
        simp only [upd, if_neg this]; exact h.out k (by omega)
      · intro q hq; cases hq; exact hpn
      · intro k hk
        by_cases hkn : k = s.n
        · subst hkn; simp only [upd_same]; exact hpn
        · simp only [upd, if_neg hkn]; exact h.freshH k (by simp at hk; omega)
      · intro k hk
        by_cases hkn : k = s.n
        · subst hkn; simp at hk
        · simp only [upd, if_neg hkn] at hk ⊢; exact h.heldOpen k hk
      · intro k hk
        by_cases hkn : k = s.n
        · subst hkn; simp at hk
        · simp only [upd, if_neg hkn] at hk ⊢; exact h.wantOpen k hk
      · intro a b hab hino hex
        by_cases han : a = s.n
        · subst han; simp at hex
        · by_cases hbn : b = s.n
          · subst hbn; simp
          · simp only [upd, if_neg han, if_neg hbn] at hino hex ⊢; exact h.excl a b hab hino hex
    | none =>
      simp only
      constructor
      · intro k hk
        simp only at hk
        have : k ≠ s.n := by omega
        simp only [upd, if_neg this]; exact h.out k (by omega)
      · intro q hq; simp only [Option.some.injEq] at hq; subst hq; show s.next < s.next + 1; omega
      · intro k hk
        by_cases hkn : k = s.n
        · subst hkn; simp only [upd_same]; omega
        · simp only [upd, if_neg hkn]
          have := h.freshH k (by simp at hk; omega)
          omega
      · intro k hk
        by_cases hkn : k = s.n
        · subst hkn; simp at hk
        · simp only [upd, if_neg hkn] at hk ⊢; exact h.heldOpen k hk
      · intro k hk
        by_cases hkn : k = s.n
        · subst hkn; simp at hk
        · simp only [upd, if_neg hkn] at hk ⊢; exact h.wantOpen k hk
      · intro a b hab hino hex
        by_cases han : a = s.n
        · subst han; simp at hex
        · by_cases hbn : b = s.n
          · subst hbn; simp
          · simp only [upd, if_neg han, if_neg hbn] at hino hex ⊢; exact h.excl a b hab hino hex
  | closeH i =>
    unfold lstep
    simp only
    have h1 : LInv (if (s.h i).isOpen then { s with h := upd s.h i { s.h i with isOpen := false, want := none, held := none } } else s) := by
      by_cases ho : (s.h i).isOpen = true
      · rw [if_pos ho]
        exact inv_updH s i _ h (lt_of_open h ho) rfl (by simp) (by simp) (by simp) (by simp)
      · rw [if_neg ho]; exact h
    by_cases hc : cu = true ∧ i < s.n
    · rw [if_pos hc]; exact inv_setPath _ h1
    · rw [if_neg hc]; exact h1
  | enter i m =>
    unfold lstep
    simp only
    by_cases hc : (s.h i).isOpen = true ∧ (s.h i).mutex = false
    · rw [if_pos hc]
      have hheld : (s.h i).held = none := by
        cases hh : (s.h i).held with
        | none => rfl
        | some x =>
          have := (h.heldOpen i (by simp [hh])).2.1
          rw [hc.2] at this; cases this
      exact inv_updH s i _ h (lt_of_open h hc.1) rfl (by simp [hheld]) (by intro _; exact ⟨hc.1, rfl, hheld⟩)
        (by simp [hheld]) (by simp [hheld])
    · rw [if_neg hc]; exact h
  | acquire i =>
    unfold lstep
    simp only
    cases hw : (s.h i).want with
    | none => exact h
    | some m =>
      simp only
      by_cases hc : (s.h i).isOpen = true ∧ canFlock s i m = true
      · rw [if_pos hc]
        have hcan := (canFlock_spec s i m).mp hc.2
        have hmx := (h.wantOpen i (by simp [hw])).2.1
        have hcompat : ∀ j, j ≠ i → (s.h j).ino = (s.h i).ino → compat m (s.h j).held = true := by
          intro j hji hino
          by_cases hjn : j < s.n
          · exact hcan j hjn hji hino
          · rw [h.out j (Nat.le_of_not_lt hjn)]; cases m <;> rfl
        refine inv_updH s i _ h (lt_of_open h hc.1) rfl (by intro _; exact ⟨hc.1, hmx, rfl⟩) (by simp) ?_ ?_
        · intro hex j hji hino
          simp only [Option.some.injEq] at hex; subst hex
          exact (compat_ex _).mp (hcompat j hji hino)
        · intro _ j hji hino hjex
          have := hcompat j hji hino
          rw [hjex, compat_of_ex] at this; cases this
      · rw [if_neg hc]; exact h
  | release i =>
    unfold lstep
    simp only
    by_cases hc : (s.h i).isOpen = true ∧ (s.h i).held ≠ none
    · rw [if_pos hc]
      have hwn := (h.heldOpen i hc.2).2.2
      exact inv_updH s i _ h (lt_of_open h hc.1) rfl (by simp) (by simp [hwn]) (by simp) (by simp)
    · rw [if_neg hc]; exact h

theorem lrun_inv (cu : Bool) (s : LState) (ops : List LOp) (h : LInv s) : LInv (lrun cu s ops) := by
  induction ops generalizing s with
  | nil => exact h
  | cons op rest ih => exact ih _ (lstep_inv cu s op h)

/-! ## with the code's `Close` (no unlink): one inode for all handles ever opened -/

/-- every handle ever opened refers to the inode the path names now -/
def Single (s : LState) : Prop := ∀ i, i < s.n → s.path = some (s.h i).ino

theorem lstep_single (s : LState) (op : LOp) (h : LInv s) (hs : Single s) : Single (lstep false s op) := by
  cases op with
  | openH =>
    have hnew : s.h s.n = closedHandle := h.out s.n (Nat.le_refl _)
    unfold lstep
    cases hp : s.path with
    | some p =>
      intro k hk
      simp only at hk ⊢
      by_cases hkn : k = s.n
      · subst hkn; simp
      · simp only [upd, if_neg hkn]; rw [← hp]; exact hs k (by omega)
    | none =>
      intro k hk
      simp only at hk ⊢
      by_cases hkn : k = s.n
      · subst hkn; simp
      · have := hs k (by omega)
        rw [hp] at this; cases this
  | closeH i =>
    unfold lstep
    simp only [Bool.false_eq_true, false_and, if_false]
    by_cases ho : (s.h i).isOpen = true
    · rw [if_pos ho]
      intro k hk
      by_cases hki : k = i
      · subst hki; simp only [upd_same]; exact hs k hk
      · simp only [upd, if_neg hki]; exact hs k hk
    · rw [if_neg ho]; exact hs
  | enter i m =>
    unfold lstep; simp only
    by_cases hc : (s.h i).isOpen = true ∧ (s.h i).mutex = false
    · rw [if_pos hc]
      intro k hk
      by_cases hki : k = i
      · subst hki; simp only [upd_same]; exact hs k hk
      · simp only [upd, if_neg hki]; exact hs k hk
    · rw [if_neg hc]; exact hs
  | acquire i =>
    unfold lstep; simp only
    cases hw : (s.h i).want with
    | none => exact hs
    | some m =>
      simp only
      by_cases hc : (s.h i).isOpen = true ∧ canFlock s i m = true
      · rw [if_pos hc]
        intro k hk
        by_cases hki : k = i
        · subst hki; simp only [upd_same]; exact hs k hk
        · simp only [upd, if_neg hki]; exact hs k hk
      · rw [if_neg hc]; exact hs
  | release i =>
    unfold lstep; simp only
    by_cases hc : (s.h i).isOpen = true ∧ (s.h i).held ≠ none
    · rw [if_pos hc]
      intro k hk
      by_cases hki : k = i
      · subst hki; simp only [upd_same]; exact hs k hk
      · simp only [upd, if_neg hki]; exact hs k hk
    · rw [if_neg hc]; exact hs

theorem lrun_single (s : LState) (ops : List LOp) (h : LInv s) (hs : Single s) : Single (lrun false s ops) := by
  induction ops generalizing s with
  | nil => exact hs
  | cons op rest ih => exact ih _ (lstep_inv false s op h) (lstep_single s op h hs)

theorem linit_single (p : Option Nat) : Single (linit p) := by intro i hi; simp [linit] at hi

/-- one inode ⇒ the per-inode exclusion of `flock(2)` is exclusion among ALL handles -/
theorem global_excl {s : LState} (h : LInv s) (hs : Single s) (i j : Nat) (hij : i ≠ j)
    (hex : (s.h i).held = some .ex) : (s.h j).held = none := by
  cases hj : (s.h j).held with
  | none => rfl
  | some m =>
    have hi' := lt_of_held h (by simp [hex] : (s.h i).held ≠ none)
    have hj' := lt_of_held h (by simp [hj] : (s.h j).held ≠ none)
    have e1 := hs i hi'
    have e2 := hs j hj'
    rw [e1] at e2
    have := h.excl i j hij (Option.some.inj e2) hex
    rw [hj] at this; cases this

/-! ## refinement of the abstract lock -/

def AbsF (f : Nat → Option Mode) (a : ALock) : Prop :=
  (∀ i, a.writer = some i ↔ f i = some .ex) ∧ (∀ i, a.reader i = true ↔ f i = some .sh)

theorem abs_iff (s : LState) (a : ALock) : Abs s a ↔ AbsF (fun k => (s.h k).held) a := Iff.rfl

/-- how a step changes the `flock`s held -/
inductive HeldStep (f g : Nat → Option Mode) : Prop where
  | same (h : ∀ k, g k = f k)
  | clear (i : Nat) (h : ∀ k, g k = if k = i then none else f k)
  | set (i : Nat) (m : Mode) (hi : f i = none) (hc : ∀ k, k ≠ i → compat m (f k) = true)
      (h : ∀ k, g k = if k = i then some m else f k)

theorem heldStep_refines (f g : Nat → Option Mode) (a : ALock)
    (hx : ∀ i j, i ≠ j → f i = some .ex → f j = none) (ha : AbsF f a) (hst : HeldStep f g) :
    ∃ b, AbsF g b ∧ AStep a b := by
  cases hst with
  | same h =>
    refine ⟨a, ⟨fun i => ?_, fun i => ?_⟩, .stutter rfl (fun _ => rfl)⟩
    · rw [h i]; exact ha.1 i
    · rw [h i]; exact ha.2 i
  | clear i h =>
    have hgi : g i = none := by rw [h i]; simp
    have hgk : ∀ k, k ≠ i → g k = f k := by intro k hk; rw [h k]; simp [hk]
    cases hfi : f i with
    | none =>
      have hsame : ∀ k, g k = f k := by
        intro k
        by_cases hk : k = i
        · subst hk; rw [hgi, hfi]
        · exact hgk k hk
      refine ⟨a, ⟨fun k => ?_, fun k => ?_⟩, .stutter rfl (fun _ => rfl)⟩
      · rw [hsame k]; exact ha.1 k
      · rw [hsame k]; exact ha.2 k
    | some m =>
      cases m with
      | ex =>
        refine ⟨⟨none, a.reader⟩, ⟨fun k => ?_, fun k => ?_⟩, .unlock i ((ha.1 i).mpr hfi) rfl (fun _ => rfl)⟩
        · constructor
          · intro e; cases e
          · intro e
            by_cases hk : k = i
            · subst hk; rw [hgi] at e; cases e
            · rw [hgk k hk] at e
              have := hx k i hk e
              rw [hfi] at this; cases this
        · by_cases hk : k = i
          · subst hk
            rw [hgi]
            constructor
            · intro e; have := (ha.2 k).mp e; rw [hfi] at this; cases this
            · intro e; cases e
          · rw [hgk k hk]; exact ha.2 k
      | sh =>
        refine ⟨⟨a.writer, fun j => if j = i then false else a.reader j⟩, ⟨fun k => ?_, fun k => ?_⟩,
          .runlock i ((ha.2 i).mpr hfi) rfl (fun _ => rfl)⟩
        · by_cases hk : k = i
          · subst hk
            rw [hgi]
            constructor
            · intro e; have := (ha.1 k).mp e; rw [hfi] at this; cases this
            · intro e; cases e
          · rw [hgk k hk]; exact ha.1 k
        · by_cases hk : k = i
          · subst hk; rw [hgi]; simp
          · rw [hgk k hk]; simp only [if_neg hk]; exact ha.2 k
  | set i m hi hc h =>
    have hgi : g i = some m := by rw [h i]; simp
    have hgk : ∀ k, k ≠ i → g k = f k := by intro k hk; rw [h k]; simp [hk]
    have hnoex : ∀ k, f k ≠ some .ex := by
      intro k e
      have hk : k ≠ i := by intro e2; subst e2; rw [hi] at e; cases e
      have := hc k hk
      rw [e, compat_of_ex] at this; cases this
    have hw : a.writer = none := by
      cases hw : a.writer with
      | none => rfl
      | some k => exact absurd ((ha.1 k).mp hw) (hnoex k)
    cases m with
    | ex =>
      have hr : ∀ j, a.reader j = false := by
        intro j
        cases hr : a.reader j with
        | false => rfl
        | true =>
          have hj := (ha.2 j).mp hr
          have hji : j ≠ i := by intro e; subst e; rw [hi] at hj; cases hj
          have := (compat_ex _).mp (hc j hji)
          rw [hj] at this; cases this
      refine ⟨⟨some i, a.reader⟩, ⟨fun k => ?_, fun k => ?_⟩, .lock i hw hr rfl (fun _ => rfl)⟩
      · by_cases hk : k = i
        · subst hk; simp [hgi]
        · rw [hgk k hk]
          constructor
          · intro e; exact absurd (Option.some.inj e).symm hk
          · intro e; exact absurd e (hnoex k)
      · by_cases hk : k = i
        · subst hk; rw [hgi, hr k]; simp
        · rw [hgk k hk]; exact ha.2 k
    | sh =>
      refine ⟨⟨a.writer, fun j => if j = i then true else a.reader j⟩, ⟨fun k => ?_, fun k => ?_⟩,
        .rlock i hw rfl (fun _ => rfl)⟩
      · by_cases hk : k = i
        · subst hk; rw [hgi, hw]; simp
        · rw [hgk k hk]; exact ha.1 k
      · by_cases hk : k = i
        · subst hk; rw [hgi]; simp
        · rw [hgk k hk]; simp only [if_neg hk]; exact ha.2 k

/-- with one inode for all handles, every step of the life cycle changes the held locks like a move of
the abstract lock -/
theorem lstep_heldStep (s : LState) (op : LOp) (h : LInv s) (hs : Single s) :
    HeldStep (fun k => (s.h k).held) (fun k => ((lstep false s op).h k).held) := by
  cases op with
  | openH =>
    have hnew : s.h s.n = closedHandle := h.out s.n (Nat.le_refl _)
    apply HeldStep.same
    intro k
    unfold lstep
    cases s.path <;>
    · simp only
      by_cases hkn : k = s.n
      · subst hkn; simp [hnew, closedHandle]
      · simp [upd, hkn]
  | closeH i =>
    unfold lstep
    simp only [Bool.false_eq_true, false_and, if_false]
    by_cases ho : (s.h i).isOpen = true
    · rw [if_pos ho]
      apply HeldStep.clear i
      intro k
      by_cases hki : k = i
      · subst hki; simp
      · simp [upd, hki]
    · rw [if_neg ho]; exact .same fun _ => rfl
  | enter i m =>
    unfold lstep; simp only
    by_cases hc : (s.h i).isOpen = true ∧ (s.h i).mutex = false
    · rw [if_pos hc]
      apply HeldStep.same
      intro k
      by_cases hki : k = i
      · subst hki; simp
      · simp [upd, hki]
    · rw [if_neg hc]; exact .same fun _ => rfl
  | acquire i =>
    unfold lstep; simp only
    cases hw : (s.h i).want with
    | none => exact .same fun _ => rfl
    | some m =>
      simp only
      by_cases hc : (s.h i).isOpen = true ∧ canFlock s i m = true
      · rw [if_pos hc]
        have hcan := (canFlock_spec s i m).mp hc.2
        have hi' := lt_of_open h hc.1
        apply HeldStep.set i m (h.wantOpen i (by simp [hw])).2.2
        · intro k hki
          by_cases hkn : k < s.n
          · refine hcan k hkn hki ?_
            have e1 := hs k hkn
            have e2 := hs i hi'
            rw [e1] at e2; exact Option.some.inj e2
          · simp only [h.out k (Nat.le_of_not_lt hkn)]; cases m <;> rfl
        · intro k
          by_cases hki : k = i
          · subst hki; simp
          · simp [upd, hki]
      · rw [if_neg hc]; exact .same fun _ => rfl
  | release i =>
    unfold lstep; simp only
    by_cases hc : (s.h i).isOpen = true ∧ (s.h i).held ≠ none
    · rw [if_pos hc]
      apply HeldStep.clear i
      intro k
      by_cases hki : k = i
      · subst hki; simp
      · simp [upd, hki]
    · rw [if_neg hc]; exact .same fun _ => rfl

theorem lstep_refines (s : LState) (op : LOp) (h : LInv s) (hs : Single s) (a : ALock) (ha : Abs s a) :
    ∃ b, Abs (lstep false s op) b ∧ AStep a b :=
  heldStep_refines _ _ a (fun i j hij hex => global_excl h hs i j hij hex) ha (lstep_heldStep s op h hs)

theorem lrun_refines (s : LState) (ops : List LOp) (h : LInv s) (hs : Single s) (a0 a : ALock)
    (hr : AReach a0 a) (ha : Abs s a) :
    ∃ b, Abs (lrun false s ops) b ∧ AReach a0 b := by
  induction ops generalizing s a with
  | nil => exact ⟨a, ha, hr⟩
  | cons op rest ih =>
    obtain ⟨b, hb, hstep⟩ := lstep_refines s op h hs a ha
    exact ih _ (lstep_inv false s op h) (lstep_single s op h hs) b (.step hr hstep) hb

theorem linit_abs (p : Option Nat) : Abs (linit p) ALock.free :=
  ⟨by intro i; simp [ALock.free, linit, closedHandle], by intro i; simp [ALock.free, linit, closedHandle]⟩

end AcraModel.KeystoreSec.FileLock
