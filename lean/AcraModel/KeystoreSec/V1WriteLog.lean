import AcraModel.KeystoreSec.V1Names
/-!
# What the v1 key store writes (`keystore/filesystem/server_keystore.go`)

Every key-producing operation of the v1 key store ends in `WriteKeyFile(path, data, mode)`
(`WritePrivateKey` = mode 0600, `WritePublicKey` = mode 0644), which hands `data` to
`Storage.WriteFile(<temporary file next to path>, data, mode)` and then renames the temporary file
to `path` (after linking/copying the previous content into `<path>.old/<timestamp>`). The *write
log* of an operation is the list of these `WriteFile` calls with the temporary name replaced by the
final one (the harness joins `WriteFile(tmp, …)` with the `Rename(tmp, path)` that follows).

| operation | file | key context (purpose, id) | data |
|---|---|---|---|
| `GenerateDataEncryptionKeys(id)` / `SaveDataEncryptionKeys(id, kp)` → `SaveKeyPairWithFilename` | `<id>_storage`, `<id>_storage.pub` | `NewClientIDKeyContext(private_storage, id)` | `encryptor.Encrypt(private)`, public as is |
| `GenerateClientIDSymmetricKey(id)` → `generateAndSaveSymmetricKey` | `<id>_storage_sym` | `NewClientIDKeyContext(storage_sym_key, id)` | `encryptor.Encrypt(key)` |
| `GenerateHmacKey(id)` | `<id>_hmac` | `NewClientIDKeyContext(search_hmac, id)` | `encryptor.Encrypt(key)` |
| `GenerateLogKey()` | `secure_log_key` | `NewKeyContext(audit_log, "secure_log_key")` | `encryptor.Encrypt(key)` |
| `GeneratePoisonKeyPair()` | `.poison_key/poison_key`, `….pub` | `NewKeyContext(poison_key, ".poison_key/poison_key")` | as for pairs |
| `GeneratePoisonSymmetricKey()` | `.poison_key/poison_key_sym` | `NewKeyContext(poison_sym_key, ".poison_key/poison_key_sym")` | `encryptor.Encrypt(key)` |

`encryptor.Encrypt(key, kc)` is `SCellKeyEncryptor.Encrypt` = seal under the master key with the
bytes `GetKeyContextFromContext(kc)` as context (`CrossClient.keyEncrypt`): the client id for
per-client keys, the fixed context otherwise – the purpose is *not* part of it.

Every per-client writer validates the client id first (`keystore.ValidateID`; on the pinned tree only
`GenerateDataEncryptionKeys` did – `writesPinned`, repair 50). The *readers* and destroyers of the v1
key store validate it as well since repair 51 (`KeystoreSec/V1Methods.lean`: every id-taking method,
every path handed to the storage).
-/
namespace AcraModel.KeystoreSec.V1WriteLog
open AcraModel.KeystoreSec.Path AcraModel.KeystoreSec.V1
open AcraModel.CrossClient (KeyContext keyContextBytes newClientIDKeyContext newKeyContext keyEncrypt keyDecrypt)

/-- the key-writing operations of the v1 key store, with the generated material made explicit -/
inductive Op
  | genDataKeys (id priv pub : Bytes)      -- GenerateDataEncryptionKeys: validates the id
  | saveDataKeys (id priv pub : Bytes)     -- SaveDataEncryptionKeys: no validation
  | genSymKey (id key : Bytes)             -- GenerateClientIDSymmetricKey
  | genHmacKey (id key : Bytes)            -- GenerateHmacKey
  | genLogKey (key : Bytes)                -- GenerateLogKey
  | genPoisonPair (priv pub : Bytes)       -- GeneratePoisonKeyPair
  | genPoisonSym (key : Bytes)             -- GeneratePoisonSymmetricKey
deriving DecidableEq, Repr

/-- file (relative to the private key folder) the secret of the operation is written to -/
def Op.file : Op → Bytes
  | .genDataKeys id _ _ | .saveDataKeys id _ _ => storageName id
  | .genSymKey id _ => symName id
  | .genHmacKey id _ => hmacName id
  | .genLogKey _ => logKey
  | .genPoisonPair _ _ => poisonKey
  | .genPoisonSym _ => poisonSym

/-- the key context handed to `encryptor.Encrypt` -/
def Op.ctx : Op → KeyContext
  | .genDataKeys id _ _ | .saveDataKeys id _ _ => newClientIDKeyContext pStoragePrivate id
  | .genSymKey id _ => newClientIDKeyContext pStorageSym id
  | .genHmacKey id _ => newClientIDKeyContext pSearchHMAC id
  | .genLogKey _ => newKeyContext pAuditLog logKey
  | .genPoisonPair _ _ => newKeyContext pPoisonPair poisonKey
  | .genPoisonSym _ => newKeyContext pPoisonSym poisonSym

/-- the secret (private key or symmetric key) -/
def Op.secret : Op → Bytes
  | .genDataKeys _ priv _ | .saveDataKeys _ priv _ | .genPoisonPair priv _ => priv
  | .genSymKey _ k | .genHmacKey _ k | .genLogKey k | .genPoisonSym k => k

/-- the public key written next to the secret, if the operation makes a key pair -/
def Op.public : Op → Option Bytes
  | .genDataKeys _ _ pub | .saveDataKeys _ _ pub | .genPoisonPair _ pub => some pub
  | _ => none

/-- the client id of a per-client operation -/
def Op.clientId : Op → Option Bytes
  | .genDataKeys id _ _ | .saveDataKeys id _ _ | .genSymKey id _ | .genHmacKey id _ => some id
  | _ => none

/-- does the operation itself refuse the id: every per-client writer calls `keystore.ValidateID`
first (`GenerateDataEncryptionKeys` always did; the other three since repair 50) -/
def Op.rejected (op : Op) : Bool :=
  match op.clientId with
  | some id => !validateID id
  | none => false

/-- the pinned tree: only `GenerateDataEncryptionKeys` validated -/
def Op.rejectedPinned : Op → Bool
  | .genDataKeys id _ _ => !validateID id
  | _ => false

/-- one `Storage.WriteFile` with its final name -/
structure Write where
  path : Bytes
  data : Bytes
  /-- mode `PrivateFileMode` (0600) as opposed to `publicFileMode` (0644) -/
  priv : Bool
deriving DecidableEq, Repr

/-- the write log of one operation; `none` = the operation returns an error before writing anything
(invalid id, encryption failure). `nonce` is what `Protect` draws. -/
def writes (c : CryptoOps) (master nonce : Bytes) (op : Op) : Option (List Write) :=
  if op.rejected then none
  else (keyEncrypt c master op.ctx op.secret nonce).map fun ct =>
    ⟨op.file, ct, true⟩ ::
      match op.public with
      | some pub => [⟨op.file ++ sPub, pub, false⟩]
      | none => []

/-- the write log on the pinned tree (before repair 50) -/
def writesPinned (c : CryptoOps) (master nonce : Bytes) (op : Op) : Option (List Write) :=
  if op.rejectedPinned then none
  else (keyEncrypt c master op.ctx op.secret nonce).map fun ct =>
    ⟨op.file, ct, true⟩ ::
      match op.public with
      | some pub => [⟨op.file ++ sPub, pub, false⟩]
      | none => []

/-- loading the secret file of an operation the way the getters do: decrypt under the context the
getter builds for `(purpose, id)` -/
def load (c : CryptoOps) (master : Bytes) (kc : KeyContext) (data : Bytes) : Option Bytes := keyDecrypt c master kc data

/-- name of the temporary file `TempFile(path)` creates: the path followed by decimal digits -/
def IsTempOf (path tmp : Bytes) : Prop := ∃ ds : Bytes, ds ≠ [] ∧ ds.all isDigit = true ∧ tmp = path ++ ds

end AcraModel.KeystoreSec.V1WriteLog
