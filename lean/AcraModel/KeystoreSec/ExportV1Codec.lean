import AcraModel.KeystoreSec.ExportV1
/-!
A concrete serialisation of record lists with the round-trip law – it stands in for `encoding/gob`
in non-vacuity examples (the theorems hold for every codec with `Codec.Ok`).

Numbers in unary (`1`ⁿ `0`), a byte string as its length followed by its bytes, a record as name
then content, a list as its length followed by the records.
-/
namespace AcraModel.KeystoreSec.ExportV1

def encNat : Nat → Bytes
  | 0 => [0]
  | n + 1 => 1 :: encNat n

def decNat : Bytes → Option (Nat × Bytes)
  | [] => none
  | c :: r =>
    if c = 0 then some (0, r)
    else if c = 1 then (decNat r).map fun p => (p.1 + 1, p.2)
    else none

theorem decNat_encNat (n : Nat) (r : Bytes) : decNat (encNat n ++ r) = some (n, r) := by
  induction n with
  | zero => simp [encNat, decNat]
  | succ n ih => simp [encNat, decNat, ih]

def encBytes (x : Bytes) : Bytes := encNat x.length ++ x

def decBytes (b : Bytes) : Option (Bytes × Bytes) :=
  (decNat b).bind fun p => if p.1 ≤ p.2.length then some (p.2.take p.1, p.2.drop p.1) else none

theorem decBytes_encBytes (x r : Bytes) : decBytes (encBytes x ++ r) = some (x, r) := by
  simp [decBytes, encBytes, List.append_assoc, decNat_encNat]

def encRecord (r : Record) : Bytes := encBytes r.1 ++ encBytes r.2

def decRecord (b : Bytes) : Option (Record × Bytes) :=
  (decBytes b).bind fun p => (decBytes p.2).map fun q => ((p.1, q.1), q.2)

theorem decRecord_encRecord (x : Record) (r : Bytes) : decRecord (encRecord x ++ r) = some (x, r) := by
  simp [decRecord, encRecord, List.append_assoc, decBytes_encBytes]

def encRecords : List Record → Bytes
  | [] => []
  | x :: xs => encRecord x ++ encRecords xs

def decRecords : Nat → Bytes → Option (List Record × Bytes)
  | 0, b => some ([], b)
  | n + 1, b => (decRecord b).bind fun p => (decRecords n p.2).map fun q => (p.1 :: q.1, q.2)

theorem decRecords_encRecords (l : List Record) (r : Bytes) : decRecords l.length (encRecords l ++ r) = some (l, r) := by
  induction l with
  | nil => simp [decRecords, encRecords]
  | cons x xs ih => simp [decRecords, encRecords, List.append_assoc, decRecord_encRecord, ih]

/-- a codec with the round-trip law -/
def simpleCodec : Codec where
  ser l := encNat l.length ++ encRecords l
  deser b := (decNat b).bind fun p => (decRecords p.1 p.2).bind fun q => if q.2 = [] then some q.1 else none

theorem simpleCodec_ok : simpleCodec.Ok := by
  constructor
  intro l
  have := decRecords_encRecords l []
  simp only [List.append_nil] at this
  simp [simpleCodec, decNat_encNat, this]

end AcraModel.KeystoreSec.ExportV1
