import AcraModel.KeystoreSec.RingOpen
/-!
# Helper lemmas about the ring-open cycles

The lemmas take what they need to know about the regenerated guard as a hypothesis
(`createsOn e = false`, or the characterisation `∀ e, createsOn e = true ↔ e = .notExist`); the
property file discharges it from the regenerated definitions (`fact_open_ring_creates_iff_not_exist`).
-/
namespace AcraModel.KeystoreSec.RingOpen
open AcraModel.KeystoreSec AcraModel.KeystoreSec.Export

/-- errors `verifyKeyRing` can produce on bytes that were read -/
def LoadErr.ofBytes : LoadErr → Bool
  | .parse | .signature | .noSignature | .contentType | .version => true
  | _ => false

theorem verifySignatures_err (c : CryptoOps) (key ctx : Bytes) (ct : Notary.Container) (e : LoadErr)
    (h : verifySignatures c key ctx ct = .error e) : e = .signature ∨ e = .noSignature := by
  unfold verifySignatures at h
  simp only at h
  split at h
  · cases h; exact Or.inl rfl
  · split at h
    · cases h; exact Or.inr rfl
    · cases h

/-- `verifySignatures` succeeds exactly when `Notary.verify` says so -/
theorem verifySignatures_ok_iff (c : CryptoOps) (key ctx : Bytes) (ct : Notary.Container) :
    verifySignatures c key ctx ct = .ok () ↔ Notary.verify c key ctx ct = true := by
  unfold verifySignatures Notary.verify
  simp only
  generalize ct.sigs.filter (fun s => decide (s.oid = Notary.sha256OID)) = known
  by_cases hany : known.any (fun s => s.sig != Notary.signBytes c key ctx ct.raw) = true
  · rw [if_pos hany]
    constructor
    · intro h; cases h
    · intro h
      simp only [Bool.and_eq_true, List.all_eq_true, beq_iff_eq] at h
      simp only [List.any_eq_true, bne_iff_ne, ne_eq] at hany
      obtain ⟨s, hs, hne⟩ := hany
      exact absurd (h.2 s hs) hne
  · rw [if_neg hany]
    cases hk : known with
    | nil => simp
    | cons s r =>
      simp only [List.isEmpty_cons, Bool.false_eq_true, if_false, Bool.not_false, Bool.true_and, true_iff,
        List.all_eq_true, beq_iff_eq]
      intro x hx
      rw [hk] at hany
      simp only [List.any_eq_true, bne_iff_ne, ne_eq, not_exists, not_and, Decidable.not_not] at hany
      exact hany x hx

/-- whatever is stored at a ring path, checking it never yields one of the back end's own errors – in
particular never "does not exist" -/
theorem loadBytes_err (c : CryptoOps) (sigKey path data : Bytes) (e : LoadErr)
    (h : loadBytes c sigKey path data = .error e) : e.ofBytes = true := by
  unfold loadBytes at h
  split at h
  · cases h; rfl
  · split at h
    · next e' he =>
      cases h
      rcases verifySignatures_err _ _ _ _ _ he with rfl | rfl <;> rfl
    · split at h
      · cases h; rfl
      · split at h
        · cases h; rfl
        · cases h

theorem loadBytes_ne_notExist (c : CryptoOps) (sigKey path data : Bytes) :
    loadBytes c sigKey path data ≠ .error .notExist := by
  intro h
  have := loadBytes_err _ _ _ _ _ h
  cases this

/-- a pull that fails with "does not exist" found nothing stored at the ring's path -/
theorem pull_notExist (c : CryptoOps) (sigKey : Bytes) (b : Backend) (path : Bytes)
    (h : pull c sigKey b path = .error .notExist) : b.get (ringFile path) = .error .notExist := by
  unfold pull at h
  split at h
  · next e he => cases h; exact he
  · exact absurd h (loadBytes_ne_notExist _ _ _ _)

/-- a pull over stored bytes `d` is the check of `d` -/
theorem pull_of_get (c : CryptoOps) (sigKey : Bytes) (b : Backend) (path d : Bytes)
    (h : b.get (ringFile path) = .ok d) : pull c sigKey b path = loadBytes c sigKey path d := by
  unfold pull; rw [h]

theorem get_ok_files (b : Backend) (p d : Bytes) (h : b.get p = .ok d) : b.files p = some d := by
  unfold Backend.get at h
  split at h
  · cases h
  · split at h
    · cases h
    · split at h
      · cases h
      · next d' hd => cases h; exact hd

/-! ## `withUnlock` -/

theorem withUnlock_backend (b : Backend) (u : Call) (r : Backend × List Call × OpenOut) :
    (withUnlock b u r).backend = r.1 := rfl

theorem withUnlock_trace (b : Backend) (u : Call) (r : Backend × List Call × OpenOut) :
    (withUnlock b u r).trace = r.2.1 ++ [u] := rfl

theorem withUnlock_err (b : Backend) (u : Call) (r : Backend × List Call × OpenOut) (h : r.2.2.isErr = true) :
    (withUnlock b u r).out.isErr = true := by
  unfold withUnlock
  simp only
  split
  · split <;> rfl
  · exact h

/-- the deferred unlock never turns an error into a success -/
theorem withUnlock_not_err (b : Backend) (u : Call) (r : Backend × List Call × OpenOut)
    (h : (withUnlock b u r).out.isErr = false) : (withUnlock b u r).out = r.2.2 := by
  unfold withUnlock at h ⊢
  simp only at h ⊢
  split
  · next hu =>
    rw [if_pos hu] at h
    split at h <;> cases h
  · rfl

/-! ## the read-write open -/

/-- **No creation.** When the pull fails with an error the guard does not send to the create branch,
`openKeyRing` returns an error, leaves the back end as it was, and makes no `Put` / `Rename`. -/
theorem openKeyRing_no_create (c : CryptoOps) (sigKey : Bytes) (time : Int) (b : Backend) (path : Bytes) (e : LoadErr)
    (hp : pull c sigKey b path = .error e) (hg : createsOn e = false) :
    (openKeyRing c sigKey time b path).backend = b ∧
    (openKeyRing c sigKey time b path).out.isErr = true ∧
    ∀ call ∈ (openKeyRing c sigKey time b path).trace, call.isWrite = false := by
  unfold openKeyRing
  by_cases hl : b.lockFails = true
  · rw [if_pos hl]
    refine ⟨rfl, rfl, ?_⟩
    intro call hc
    simp only [List.mem_cons, List.not_mem_nil, or_false] at hc
    subst hc; rfl
  · rw [if_neg hl]
    simp only [hp, hg, Bool.false_eq_true, if_false]
    refine ⟨rfl, withUnlock_err _ _ _ rfl, ?_⟩
    intro call hc
    simp only [withUnlock_trace, List.mem_cons, List.mem_append, List.not_mem_nil, or_false] at hc
    rcases hc with rfl | rfl | rfl <;> rfl

/-- a lock that cannot be taken: error, nothing touched -/
theorem openKeyRing_lock_fails (c : CryptoOps) (sigKey : Bytes) (time : Int) (b : Backend) (path : Bytes)
    (hl : b.lockFails = true) :
    (openKeyRing c sigKey time b path).backend = b ∧ (openKeyRing c sigKey time b path).out.isErr = true ∧
    ∀ call ∈ (openKeyRing c sigKey time b path).trace, call.isWrite = false := by
  unfold openKeyRing
  rw [if_pos hl]
  refine ⟨rfl, rfl, ?_⟩
  intro call hc
  simp only [List.mem_cons, List.not_mem_nil, or_false] at hc
  subst hc; rfl

/-- a ring that loads: nothing is written either -/
theorem openKeyRing_loaded (c : CryptoOps) (sigKey : Bytes) (time : Int) (b : Backend) (path data : Bytes)
    (hp : pull c sigKey b path = .ok data) :
    (openKeyRing c sigKey time b path).backend = b ∧
    ∀ call ∈ (openKeyRing c sigKey time b path).trace, call.isWrite = false := by
  unfold openKeyRing
  by_cases hl : b.lockFails = true
  · rw [if_pos hl]
    refine ⟨rfl, ?_⟩
    intro call hc
    simp only [List.mem_cons, List.not_mem_nil, or_false] at hc
    subst hc; rfl
  · rw [if_neg hl]
    simp only [hp]
    refine ⟨rfl, ?_⟩
    intro call hc
    simp only [withUnlock_trace, List.mem_cons, List.mem_append, List.not_mem_nil, or_false] at hc
    rcases hc with rfl | rfl | rfl <;> rfl

/-- **Only the create branch writes.** If the read-write open makes a `Put` or a `Rename`, or changes
the back end, the pull failed with an error the guard sends to the create branch. -/
theorem openKeyRing_write_only_on_guard (c : CryptoOps) (sigKey : Bytes) (time : Int) (b : Backend) (path : Bytes)
    (h : (∃ call ∈ (openKeyRing c sigKey time b path).trace, call.isWrite = true) ∨
      (openKeyRing c sigKey time b path).backend ≠ b ∨ (openKeyRing c sigKey time b path).out = .created) :
    ∃ e, pull c sigKey b path = .error e ∧ createsOn e = true := by
  cases hp : pull c sigKey b path with
  | ok data =>
    have hL := openKeyRing_loaded c sigKey time b path data hp
    rcases h with ⟨call, hc, hw⟩ | hne | hcr
    · rw [hL.2 call hc] at hw; cases hw
    · exact absurd hL.1 hne
    · exfalso
      unfold openKeyRing at hcr
      by_cases hl : b.lockFails = true
      · rw [if_pos hl] at hcr; cases hcr
      · rw [if_neg hl] at hcr
        simp only [hp] at hcr
        unfold withUnlock at hcr
        simp only at hcr
        split at hcr <;> cases hcr
  | error e =>
    cases hg : createsOn e with
    | true => exact ⟨e, rfl, hg⟩
    | false =>
      have hN := openKeyRing_no_create c sigKey time b path e hp hg
      rcases h with ⟨call, hc, hw⟩ | hne | hcr
      · rw [hN.2.2 call hc] at hw; cases hw
      · exact absurd hN.1 hne
      · rw [hcr] at hN; exact absurd hN.2.1 (by decide)

/-! ## what a creation leaves -/

theorem ringFile_ne_newFile (path : Bytes) (hn : newSuffix ≠ []) : ringFile path ≠ newFile path := by
  intro h
  have := congrArg List.length h
  simp only [ringFile, newFile, List.length_append] at this
  have : newSuffix.length = 0 := by omega
  exact hn (List.eq_nil_of_length_eq_zero this)

/-- `pushFile` without error: the ring file holds the data, the temporary is gone, every other path
and every other aspect of the back end is as before; the temporary did not exist before. -/
theorem pushFile_ok (b b' : Backend) (path data : Bytes) (calls : List Call) (hn : newSuffix ≠ [])
    (h : pushFile b path data = (b', calls, none)) :
    b'.files (ringFile path) = some data ∧ b'.files (newFile path) = none ∧ b.files (newFile path) = none ∧
    (∀ q, q ≠ ringFile path → q ≠ newFile path → b'.files q = b.files q) ∧
    b'.valid = b.valid ∧ b'.unreadable = b.unreadable ∧ b'.lockFails = b.lockFails ∧ b'.unlockFails = b.unlockFails ∧
    calls = [.put (newFile path) data, .rename (newFile path) (ringFile path)] := by
  unfold pushFile at h
  cases hput : b.put (newFile path) data with
  | error e => simp [hput] at h
  | ok b1 =>
    simp only [hput] at h
    cases hren : b1.rename (newFile path) (ringFile path) with
    | error e => simp [hren] at h
    | ok b2 =>
      simp only [hren, Prod.mk.injEq, and_true] at h
      obtain ⟨rfl, rfl⟩ := h
      -- unfold the two calls
      unfold Backend.put at hput
      split at hput
      · cases hput
      · split at hput
        · cases hput
        · next hv hfree =>
          cases hput
          unfold Backend.rename at hren
          simp only at hren
          split at hren
          · cases hren
          · simp only [setFile, if_true] at hren
            cases hren
            have hne := ringFile_ne_newFile path hn
            refine ⟨by simp [setFile], ?_, ?_, ?_, rfl, rfl, rfl, rfl, rfl⟩
            · simp [setFile, hne.symm]
            · cases hf : b.files (newFile path) with
              | none => rfl
              | some x => simp [hf] at hfree
            · intro q h1 h2
              simp [setFile, h1, h2]

/-- **What a creation leaves.** When the read-write open reports `created`, the ring's path holds the
signed empty ring for this path and time, the temporary is gone, nothing else changed. -/
theorem openKeyRing_created (c : CryptoOps) (sigKey : Bytes) (time : Int) (b : Backend) (path : Bytes)
    (hn : newSuffix ≠ []) (h : (openKeyRing c sigKey time b path).out = .created) :
    let r := openKeyRing c sigKey time b path
    r.backend.files (ringFile path) = some (signedFile c sigKey path time (emptyRing path)) ∧
    r.backend.files (newFile path) = none ∧
    (∀ q, q ≠ ringFile path → q ≠ newFile path → r.backend.files q = b.files q) ∧
    r.trace = [.lock, .get (ringFile path), .put (newFile path) (signedFile c sigKey path time (emptyRing path)),
      .rename (newFile path) (ringFile path), .unlock] := by
  intro r
  have hr : r = openKeyRing c sigKey time b path := rfl
  unfold openKeyRing at hr h
  by_cases hl : b.lockFails = true
  · rw [if_pos hl] at h; cases h
  · rw [if_neg hl] at hr h
    cases hp : pull c sigKey b path with
    | ok data =>
      simp only [hp] at h
      unfold withUnlock at h
      simp only at h
      split at h <;> cases h
    | error e =>
      simp only [hp] at hr h
      cases hg : createsOn e with
      | false =>
        simp only [hg, Bool.false_eq_true, if_false] at h
        unfold withUnlock at h
        simp only at h
        split at h <;> cases h
      | true =>
        simp only [hg, if_true] at hr h
        rcases hpf : pushFile b path (signedFile c sigKey path time (emptyRing path)) with ⟨b', calls, perr⟩
        simp only [hpf] at hr h
        cases perr with
        | some e' =>
          unfold withUnlock at h
          simp only at h
          split at h <;> cases h
        | none =>
          obtain ⟨h1, h2, _, h4, _, _, _, _, h9⟩ := pushFile_ok b b' path _ calls hn hpf
          rw [hr]
          simp only [withUnlock_backend, withUnlock_trace]
          refine ⟨h1, h2, h4, ?_⟩
          rw [h9]; rfl

/-! ## the other cycles -/

/-- `readKeyRing` never changes the back end and never writes -/
theorem readKeyRing_pure (c : CryptoOps) (sigKey : Bytes) (b : Backend) (path : Bytes) :
    (readKeyRing c sigKey b path).backend = b ∧ ∀ call ∈ (readKeyRing c sigKey b path).trace, call.isWrite = false := by
  unfold readKeyRing
  by_cases hl : b.lockFails = true
  · rw [if_pos hl]
    refine ⟨rfl, ?_⟩
    intro call hc
    simp only [List.mem_cons, List.not_mem_nil, or_false] at hc
    subst hc; rfl
  · rw [if_neg hl]
    cases hp : pull c sigKey b path <;>
    · simp only
      refine ⟨rfl, ?_⟩
      intro call hc
      simp only [withUnlock_trace, List.mem_cons, List.mem_append, List.not_mem_nil, or_false] at hc
      rcases hc with rfl | rfl | rfl <;> rfl

/-- a failing pull makes `readKeyRing` fail – with that very error unless the lock itself failed -/
theorem readKeyRing_err (c : CryptoOps) (sigKey : Bytes) (b : Backend) (path : Bytes) (e : LoadErr)
    (hp : pull c sigKey b path = .error e) :
    (readKeyRing c sigKey b path).out = .err e ∨ (readKeyRing c sigKey b path).out = .err .lock := by
  unfold readKeyRing
  by_cases hl : b.lockFails = true
  · rw [if_pos hl]; exact Or.inr rfl
  · rw [if_neg hl]
    simp only [hp]
    unfold withUnlock
    simp only
    split
    · exact Or.inl rfl
    · exact Or.inl rfl

/-- **`writeKeyRing` over a ring that does not load**: error, back end untouched, no `Put` / `Rename` –
whatever the error (here even "does not exist": a write-back never creates). -/
theorem writeKeyRing_no_load (c : CryptoOps) (sigKey : Bytes) (time : Int) (b : Backend) (path : Bytes)
    (apply : Bytes → Option Ring) (e : LoadErr) (hp : pull c sigKey b path = .error e) :
    (writeKeyRing c sigKey time b path apply).backend = b ∧
    (writeKeyRing c sigKey time b path apply).out.isErr = true ∧
    ∀ call ∈ (writeKeyRing c sigKey time b path apply).trace, call.isWrite = false := by
  unfold writeKeyRing
  by_cases hl : b.lockFails = true
  · rw [if_pos hl]
    refine ⟨rfl, rfl, ?_⟩
    intro call hc
    simp only [List.mem_cons, List.not_mem_nil, or_false] at hc
    subst hc; rfl
  · rw [if_neg hl]
    simp only [hp]
    refine ⟨rfl, withUnlock_err _ _ _ rfl, ?_⟩
    intro call hc
    simp only [withUnlock_trace, List.mem_cons, List.mem_append, List.not_mem_nil, or_false] at hc
    rcases hc with rfl | rfl | rfl <;> rfl

end AcraModel.KeystoreSec.RingOpen
