import AcraModel.KeystoreSec.Notary
/-!
# Key-ring export / import of the v2 key store
(`keystore/v2/keystore/filesystem/{export.go, key.go, keyRing.go, keyStore.go}`)

* At rest a key's private / symmetric material is `enc master ctx material` with
  `ctx = "AKSv2 keystore: key ring <path>: private key <seqnum>"` (resp. `symmetric key`).
* `exportKeyRing` decrypts every key of a ring (or strips the secret parts in public-only mode),
  `encryptAndSignKeyRings` serialises the plaintext rings, seals them with the fresh access
  encryption key under the export context and signs the container with the fresh signature key.
* `ImportKeyRings` verifies, unseals, parses and then imports ring by ring: a ring that exists is
  refused by the default delegate; otherwise an empty ring is created (`openKeyRing`) and
  `importASN1` re-encrypts every key for the target (`copyKey` → `addKeyData`) and commits
  `txSetKeys`.

The ASN.1 serialisation of the ring list is a parameter (`Codec`) with the round-trip law as a
hypothesis of the theorems that need it; the executable instance is the DER encoder of `Der.lean`.
-/
namespace AcraModel.KeystoreSec.Export
open AcraModel.KeystoreSec.Path (ofStr)
open AcraModel.KeystoreSec

structure KeyData where
  /-- `asn1.KeyFormat`: 1 = Themis key pair, 3 = Themis symmetric key -/
  format : Nat
  pub : Bytes
  priv : Bytes
  sym : Bytes
deriving DecidableEq, Repr

structure Key where
  seq : Int
  state : Nat
  /-- validity period, seconds -/
  since : Int
  until_ : Int
  data : List KeyData
deriving DecidableEq, Repr

structure Ring where
  purpose : Bytes
  keys : List Key
  current : Int
deriving DecidableEq, Repr

def fmtPair : Nat := 1
def fmtSym : Nat := 3

/-! ## contexts (facts `fact_contexts`) -/

def natDigitsAux : Nat → Nat → List UInt8
  | 0, _ => []
  | fuel + 1, n => if n < 10 then [UInt8.ofNat (48 + n)] else natDigitsAux fuel (n / 10) ++ [UInt8.ofNat (48 + n % 10)]

/-- decimal digits (fuel `n + 1` always suffices; structural so that it reduces in proofs) -/
def natDigits (n : Nat) : List UInt8 := natDigitsAux (n + 1) n

/-- `fmt.Sprintf("%d", seqnum)` -/
def decimal (i : Int) : Bytes :=
  match i with
  | .ofNat n => natDigits n
  | .negSucc n => 45 :: natDigits (n + 1)

/-- `KeyStore.keyStoreContext` -/
def ksCtx (x : Bytes) : Bytes := ofStr "AKSv2 keystore: " ++ x
/-- `KeyRing.keyRingContext` -/
def ringCtx (path x : Bytes) : Bytes := ofStr "key ring " ++ path ++ ofStr ": " ++ x
def privCtx (path : Bytes) (seq : Int) : Bytes := ksCtx (ringCtx path (ofStr "private key " ++ decimal seq))
def symCtx (path : Bytes) (seq : Int) : Bytes := ksCtx (ringCtx path (ofStr "symmetric key " ++ decimal seq))
/-- `KeyStore.keyRingSignatureContext` -/
def sigCtx (path : Bytes) : Bytes := ksCtx (ofStr "key ring signature: " ++ path)
/-- `exportKeyContext` -/
def exportCtx : Bytes := ofStr "AKSv2 keystore: exported key rings"

/-! ## encrypting key data for a ring (`addKeyData`, `copyKey`) -/

/-- nonce oracle: the randomness `Protect` draws, as an arbitrary function of context and message -/
abbrev Nonces := Bytes → Bytes → Bytes

/-- `addKeyData` for one `KeyData` in plaintext (`none` = the error returned) -/
def addKeyData (c : CryptoOps) (ν : Nonces) (master path : Bytes) (seq : Int) (d : KeyData) : Option KeyData :=
  if d.format = fmtPair then
    if d.pub = [] then none
    else if d.priv = [] then some ⟨fmtPair, d.pub, [], []⟩
    else (c.enc master (privCtx path seq) d.priv (ν (privCtx path seq) d.priv)).map fun e => ⟨fmtPair, d.pub, e, []⟩
  else if d.format = fmtSym then
    if d.sym = [] then none
    else (c.enc master (symCtx path seq) d.sym (ν (symCtx path seq) d.sym)).map fun e => ⟨fmtSym, [], [], e⟩
  else none

def stDestroyed : Nat := 6

/-- `copyKey`: cryptoperiod check, at least one data item unless the key is destroyed (a destroyed
key has no data by construction; the pinned tree refused it, see `copyKeyPinned`), formats pairwise
different (the `ErrFormatDuplicated` check of `addKeyData`), every item re-encrypted for the target ring -/
def copyKey (c : CryptoOps) (ν : Nonces) (master path : Bytes) (k : Key) : Option Key :=
  if k.since > k.until_ then none
  else if k.data = [] ∧ k.state ≠ stDestroyed then none
  else if ¬ (k.data.map (·.format)).Nodup then none
  else (k.data.mapM (addKeyData c ν master path k.seq)).map fun ds => { k with data := ds }

/-- `copyKey` as on the pinned tree: every key without data is refused, destroyed ones included -/
def copyKeyPinned (c : CryptoOps) (ν : Nonces) (master path : Bytes) (k : Key) : Option Key :=
  if k.since > k.until_ then none
  else if k.data = [] then none
  else if ¬ (k.data.map (·.format)).Nodup then none
  else (k.data.mapM (addKeyData c ν master path k.seq)).map fun ds => { k with data := ds }

/-! ## export (`exportASN1`, `decryptAllKeyData`, `decryptKeyData`) -/

inductive DecRes where
  | ok (d : KeyData)
  | noPublic          -- `ErrNoPublicData`: the whole ring is skipped
  | fail              -- decryption error: the export fails

/-- `decryptKeyData`; `withPrivate` = `mode & ExportPrivateKeys != 0` -/
def decryptKeyData (c : CryptoOps) (master path : Bytes) (seq : Int) (withPrivate : Bool) (d : KeyData) : DecRes :=
  if ¬ withPrivate then
    if d.pub = [] then .noPublic else .ok { d with priv := [], sym := [] }
  else
    let p := if d.priv = [] then some [] else c.dec master (privCtx path seq) d.priv
    match p with
    | none => .fail
    | some p =>
      let s := if d.sym = [] then some [] else c.dec master (symCtx path seq) d.sym
      match s with
      | none => .fail
      | some s => .ok { d with priv := p, sym := s }

inductive RingRes (α : Type) where
  | ok (r : α)
  | skip
  | fail

def decryptAll (c : CryptoOps) (master path : Bytes) (seq : Int) (wp : Bool) : List KeyData → RingRes (List KeyData)
  | [] => .ok []
  | d :: ds =>
    match decryptKeyData c master path seq wp d with
    | .noPublic => .skip
    | .fail => .fail
    | .ok d' =>
      match decryptAll c master path seq wp ds with
      | .ok ds' => .ok (d' :: ds')
      | .skip => .skip
      | .fail => .fail

def exportKeys (c : CryptoOps) (master path : Bytes) (wp : Bool) : List Key → RingRes (List Key)
  | [] => .ok []
  | k :: ks =>
    match decryptAll c master path k.seq wp k.data with
    | .skip => .skip
    | .fail => .fail
    | .ok ds =>
      match exportKeys c master path wp ks with
      | .ok ks' => .ok ({ k with data := ds } :: ks')
      | .skip => .skip
      | .fail => .fail

/-- `exportASN1` of the stored ring at `path` -/
def exportRing (c : CryptoOps) (master path : Bytes) (wp : Bool) (r : Ring) : RingRes Ring :=
  match exportKeys c master path wp r.keys with
  | .ok ks => .ok { r with keys := ks }
  | .skip => .skip
  | .fail => .fail

/-- a key store: master key and the stored rings by path -/
structure Store where
  master : Bytes
  rings : Bytes → Option Ring

def Store.get (s : Store) (path : Bytes) : Option Ring := s.rings path
def Store.put (s : Store) (path : Bytes) (r : Ring) : Store :=
  { s with rings := fun q => if q = path then some r else s.rings q }

@[simp] theorem Store.get_put_same (s : Store) (p : Bytes) (r : Ring) : (s.put p r).get p = some r := by
  simp [Store.get, Store.put]
theorem Store.get_put_other (s : Store) (p q : Bytes) (r : Ring) (h : q ≠ p) : (s.put p r).get q = s.get q := by
  simp [Store.get, Store.put, h]
@[simp] theorem Store.put_master (s : Store) (p : Bytes) (r : Ring) : (s.put p r).master = s.master := rfl

/-- `exportKeyRings`: a missing ring is an error, a ring without public data is skipped -/
def exportRings (c : CryptoOps) (s : Store) (wp : Bool) : List Bytes → Option (List Ring)
  | [] => some []
  | p :: ps =>
    match s.get p with
    | none => none
    | some r =>
      match exportRing c s.master p wp r with
      | .fail => none
      | .skip => exportRings c s wp ps
      | .ok x => (exportRings c s wp ps).map (x :: ·)

/-! ## the bundle -/

structure Codec where
  ser : List Ring → Bytes
  deser : Bytes → Option (List Ring)
  /-- DER of the payload `SignedPayload{TypeEncryptedKeys, 2, time, OCTET STRING data}` -/
  serPayload : Int → Bytes → Bytes
  /-- parse a payload; `none` unless content type and version are the expected ones -/
  deserPayload : Bytes → Option Bytes

structure Codec.Ok (cd : Codec) : Prop where
  rings : ∀ rs, cd.deser (cd.ser rs) = some rs
  payload : ∀ t d, cd.deserPayload (cd.serPayload t d) = some d
  nonempty : ∀ rs, cd.ser rs ≠ []

structure AccessKeys where
  encKey : Bytes
  sigKey : Bytes
deriving DecidableEq, Repr

/-- `encryptAndSignKeyRings` -/
def encryptAndSign (c : CryptoOps) (cd : Codec) (ak : AccessKeys) (time : Int) (nonce : Bytes) (rs : List Ring) : Option Notary.Container :=
  (c.enc ak.encKey exportCtx (cd.ser rs) nonce).map fun e =>
    Notary.sign c ak.sigKey exportCtx (cd.serPayload time e)

/-- `decryptAndVerifyKeyRings` -/
def decryptAndVerify (c : CryptoOps) (cd : Codec) (ak : AccessKeys) (b : Notary.Container) : Option (List Ring) :=
  if Notary.verify c ak.sigKey exportCtx b = true then
    (cd.deserPayload b.raw).bind fun e => (c.dec ak.encKey exportCtx e).bind cd.deser
  else none

/-- `ExportKeyRings` -/
def exportBundle (c : CryptoOps) (cd : Codec) (s : Store) (wp : Bool) (paths : List Bytes) (ak : AccessKeys)
    (time : Int) (nonce : Bytes) : Option Notary.Container :=
  (exportRings c s wp paths).bind (encryptAndSign c cd ak time nonce)

/-! ## import -/

/-- `importASN1` on a ring object for `path`: all keys copied, then `txSetKeys` -/
def importASN1 (c : CryptoOps) (ν : Nonces) (master path : Bytes) (x : Ring) : Option Ring :=
  (x.keys.mapM (copyKey c ν master path)).map fun ks => ⟨path, ks, x.current⟩

/-- `importASN1` on the pinned tree -/
def importASN1Pinned (c : CryptoOps) (ν : Nonces) (master path : Bytes) (x : Ring) : Option Ring :=
  (x.keys.mapM (copyKeyPinned c ν master path)).map fun ks => ⟨path, ks, x.current⟩

/-- `importKeyRing` on the pinned tree -/
def importKeyRingPinned (c : CryptoOps) (ν : Nonces) (s : Store) (x : Ring) : Store × Bool :=
  match s.get x.purpose with
  | some _ => (s, false)
  | none =>
    let s1 := s.put x.purpose ⟨x.purpose, [], -1⟩
    match importASN1Pinned c ν s.master x.purpose x with
    | none => (s1, false)
    | some r => (s1.put x.purpose r, true)

/-- `importKeyRing` with the default delegate; returns the store and whether it succeeded.
A failure in `importASN1` happens *after* `openKeyRing` created the (empty) ring. -/
def importKeyRing (c : CryptoOps) (ν : Nonces) (s : Store) (x : Ring) : Store × Bool :=
  match s.get x.purpose with
  | some _ => (s, false)                       -- ErrKeyRingExists
  | none =>
    let s1 := s.put x.purpose ⟨x.purpose, [], -1⟩
    match importASN1 c ν s.master x.purpose x with
    | none => (s1, false)
    | some r => (s1.put x.purpose r, true)

def importRings (c : CryptoOps) (ν : Nonces) : Store → List Ring → Store × Bool
  | s, [] => (s, true)
  | s, x :: xs =>
    match importKeyRing c ν s x with
    | (s', true) => importRings c ν s' xs
    | (s', false) => (s', false)

/-- `ImportKeyRings`: `none` = rejected before anything was touched -/
def importBundle (c : CryptoOps) (cd : Codec) (ν : Nonces) (s : Store) (ak : AccessKeys) (b : Notary.Container) : Option (Store × Bool) :=
  (decryptAndVerify c cd ak b).map (importRings c ν s)

end AcraModel.KeystoreSec.Export
