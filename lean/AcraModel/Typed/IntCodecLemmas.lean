import AcraModel.Typed.IntCodec
/-!
Lemmas about the integer codecs of `AcraModel.Typed.IntCodec`:
text side (`parseInt` / `formatInt`) and binary side (`intToBE` / `beToInt`, `intToLE` / `leToInt`).
-/
set_option linter.unusedVariables false

namespace AcraModel.Typed
open AcraModel

/-! ### decimal digits -/

/-- one step of the `digitsVal` fold -/
def digitStep (acc : Option Nat) (c : UInt8) : Option Nat :=
  acc.bind fun a => if 48 ≤ c.toNat ∧ c.toNat ≤ 57 then some (a * 10 + (c.toNat - 48)) else none

theorem digitsVal_eq_foldl (ds : Bytes) : digitsVal ds = ds.foldl digitStep (some 0) := by
  cases ds with
  | nil => rfl
  | cons c r => rfl

theorem digitChar_toNat (d : Nat) : (digitChar d).toNat = 48 + d % 10 := by
  unfold digitChar
  have h : (UInt8.ofNat (48 + d % 10)).toNat = (48 + d % 10) % 256 := by
    simp [UInt8.toNat_ofNat']
  rw [h]; omega

theorem digitStep_digitChar (a d : Nat) :
    digitStep (some a) (digitChar d) = some (a * 10 + d % 10) := by
  unfold digitStep
  have h := digitChar_toNat d
  have hc : 48 ≤ (digitChar d).toNat ∧ (digitChar d).toNat ≤ 57 := by omega
  simp only [Option.bind_some, if_pos hc]
  congr 1
  omega

/-- value of a least-significant-first digit string, as the fold `digitsVal` performs on its reverse -/
theorem foldr_digitsRev (fuel n : Nat) (h : n < fuel) :
    (digitsRev fuel n).foldr (fun c acc => digitStep acc c) (some 0) = some n := by
  induction fuel generalizing n with
  | zero => omega
  | succ fuel ih =>
    unfold digitsRev
    by_cases h10 : n < 10
    · rw [if_pos h10]
      simp only [List.foldr_cons, List.foldr_nil, digitStep_digitChar]
      congr 1; omega
    · rw [if_neg h10]
      simp only [List.foldr_cons]
      rw [ih (n / 10) (by omega), digitStep_digitChar]
      congr 1; omega

theorem digitsRev_ne_nil (fuel n : Nat) (h : 0 < fuel) : digitsRev fuel n ≠ [] := by
  cases fuel with
  | zero => omega
  | succ fuel =>
    unfold digitsRev
    by_cases h10 : n < 10
    · rw [if_pos h10]; exact List.cons_ne_nil _ _
    · rw [if_neg h10]; exact List.cons_ne_nil _ _

theorem digitsRev_all_digits (fuel n : Nat) :
    ∀ c ∈ digitsRev fuel n, 48 ≤ c.toNat ∧ c.toNat ≤ 57 := by
  induction fuel generalizing n with
  | zero => intro c hc; simp [digitsRev] at hc
  | succ fuel ih =>
    intro c hc
    unfold digitsRev at hc
    by_cases h10 : n < 10
    · rw [if_pos h10] at hc
      simp only [List.mem_singleton] at hc
      subst hc
      have := digitChar_toNat n
      omega
    · rw [if_neg h10] at hc
      rcases List.mem_cons.mp hc with hc | hc
      · subst hc
        have := digitChar_toNat (n % 10)
        omega
      · exact ih (n / 10) c hc

/-- 1a. the decimal digits of `n` evaluate to `n` -/
theorem digitsVal_natDigits (n : Nat) : digitsVal (natDigits n) = some n := by
  rw [digitsVal_eq_foldl, natDigits, List.foldl_reverse]
  exact foldr_digitsRev (n + 1) n (by omega)

/-- 1b. there is at least one digit -/
theorem natDigits_ne_nil (n : Nat) : natDigits n ≠ [] := by
  unfold natDigits
  intro h
  exact digitsRev_ne_nil (n + 1) n (by omega) (List.reverse_eq_nil_iff.mp h)

/-- 1c. every byte of `natDigits n` is an ASCII digit -/
theorem natDigits_all_digits (n : Nat) : ∀ c ∈ natDigits n, 48 ≤ c.toNat ∧ c.toNat ≤ 57 := by
  intro c hc
  unfold natDigits at hc
  exact digitsRev_all_digits (n + 1) n c (List.mem_reverse.mp hc)

/-- 1d. the first byte of `natDigits n` exists, is a digit, and so is neither `'+'` nor `'-'` -/
theorem natDigits_head (n : Nat) :
    ∃ c r, natDigits n = c :: r ∧ (48 ≤ c.toNat ∧ c.toNat ≤ 57) ∧ c.toNat ≠ 43 ∧ c.toNat ≠ 45 := by
  cases hd : natDigits n with
  | nil => exact absurd hd (natDigits_ne_nil n)
  | cons c r =>
    have h := natDigits_all_digits n c (by rw [hd]; exact List.mem_cons_self)
    exact ⟨c, r, rfl, h, by omega, by omega⟩

/-! ### `parseInt` on the two shapes `formatInt` produces -/

/-- the part of `parseInt` after the sign has been split off -/
def parseCore (neg : Bool) (ds : Bytes) (bits : Nat) : Option Int :=
  if ds.isEmpty then none else
  match digitsVal ds with
  | none => none
  | some u =>
    let cutoff := 2 ^ (bits - 1)
    if !neg ∧ u ≥ cutoff then none
    else if neg ∧ u > cutoff then none
    else some (if neg then -(u : Int) else (u : Int))

theorem parseInt_nil (bits : Nat) : parseInt [] bits = none := by
  simp [parseInt]

theorem parseInt_plus (c : UInt8) (r : Bytes) (bits : Nat) (h : c.toNat = 43) :
    parseInt (c :: r) bits = parseCore false r bits := by
  simp [parseInt, parseCore, h]
  generalize digitsVal r = o
  cases o <;> rfl

theorem parseInt_minus (c : UInt8) (r : Bytes) (bits : Nat) (h : c.toNat = 45) :
    parseInt (c :: r) bits = parseCore true r bits := by
  simp [parseInt, parseCore, h]
  generalize digitsVal r = o
  cases o <;> rfl

theorem parseInt_nosign (c : UInt8) (r : Bytes) (bits : Nat) (h1 : c.toNat ≠ 43) (h2 : c.toNat ≠ 45) :
    parseInt (c :: r) bits = parseCore false (c :: r) bits := by
  simp [parseInt, parseCore, h1, h2]
  generalize digitsVal (c :: r) = o
  cases o <;> rfl

theorem parseCore_natDigits (neg : Bool) (m bits : Nat) :
    parseCore neg (natDigits m) bits =
      if neg = false ∧ m ≥ 2 ^ (bits - 1) then none
      else if neg = true ∧ m > 2 ^ (bits - 1) then none
      else some (if neg then -(m : Int) else (m : Int)) := by
  unfold parseCore
  have hne : (natDigits m).isEmpty = false := by
    cases hd : natDigits m with
    | nil => exact absurd hd (natDigits_ne_nil m)
    | cons c r => rfl
  rw [hne, digitsVal_natDigits]
  cases neg <;> simp

theorem parseInt_natDigits (m bits : Nat) :
    parseInt (natDigits m) bits = if m ≥ 2 ^ (bits - 1) then none else some (m : Int) := by
  obtain ⟨c, r, hd, _, h43, h45⟩ := natDigits_head m
  rw [hd, parseInt_nosign c r bits h43 h45, ← hd, parseCore_natDigits]
  simp

theorem parseInt_neg_natDigits (m bits : Nat) :
    parseInt (45 :: natDigits m) bits = if m > 2 ^ (bits - 1) then none else some (-(m : Int)) := by
  rw [parseInt_minus 45 (natDigits m) bits (by decide), parseCore_natDigits]
  simp

/-- 2. int_codec_roundtrip (text side) -/
theorem parseInt_formatInt (bits : Nat) (n : Int) (hb : 1 ≤ bits) (h : inRange bits n) :
    parseInt (formatInt n) bits = some n := by
  unfold inRange at h
  unfold formatInt
  generalize hC : 2 ^ (bits - 1) = C at h
  by_cases hn : n < 0
  · rw [if_pos hn, parseInt_neg_natDigits, hC]
    have hle : ¬ n.natAbs > C := by omega
    rw [if_neg hle]
    congr 1; omega
  · rw [if_neg hn, parseInt_natDigits, hC]
    have hle : ¬ n.natAbs ≥ C := by omega
    rw [if_neg hle]
    congr 1; omega

/-- 4. an out-of-range decimal is rejected -/
theorem parseInt_formatInt_out_of_range (bits : Nat) (n : Int) (hb : 1 ≤ bits) (h : ¬ inRange bits n) :
    parseInt (formatInt n) bits = none := by
  unfold inRange at h
  unfold formatInt
  generalize hC : 2 ^ (bits - 1) = C at h
  by_cases hn : n < 0
  · rw [if_pos hn, parseInt_neg_natDigits, hC]
    have hgt : n.natAbs > C := by omega
    rw [if_pos hgt]
  · rw [if_neg hn, parseInt_natDigits, hC]
    have hge : n.natAbs ≥ C := by omega
    rw [if_pos hge]

theorem parseCore_inRange (neg : Bool) (ds : Bytes) (bits : Nat) (n : Int)
    (h : parseCore neg ds bits = some n) : inRange bits n := by
  unfold parseCore at h
  have hpos : 0 < 2 ^ (bits - 1) := Nat.pow_pos (by decide)
  unfold inRange
  generalize 2 ^ (bits - 1) = C at h hpos
  split at h
  · cases h
  · split at h
    · cases h
    · rename_i u hu
      cases neg
      · simp at h
        obtain ⟨h1, h2⟩ := h
        omega
      · simp at h
        obtain ⟨h1, h2⟩ := h
        omega

/-- 3. int_codec_range: whatever `parseInt` accepts lies in range -/
theorem parseInt_inRange (s : Bytes) (bits : Nat) (n : Int) (hb : 1 ≤ bits)
    (h : parseInt s bits = some n) : inRange bits n := by
  cases s with
  | nil => rw [parseInt_nil] at h; cases h
  | cons c r =>
    by_cases h43 : c.toNat = 43
    · rw [parseInt_plus c r bits h43] at h
      exact parseCore_inRange _ _ _ _ h
    · by_cases h45 : c.toNat = 45
      · rw [parseInt_minus c r bits h45] at h
        exact parseCore_inRange _ _ _ _ h
      · rw [parseInt_nosign c r bits h43 h45] at h
        exact parseCore_inRange _ _ _ _ h

/-! ### binary forms -/

theorem pow256 (k : Nat) : 256 ^ k = 2 ^ (8 * k) := by
  rw [Nat.pow_mul]

theorem pow_split (k : Nat) (hk : 1 ≤ k) : 2 ^ (8 * k) = 2 * 2 ^ (8 * k - 1) := by
  have : 8 * k = (8 * k - 1) + 1 := by omega
  rw [this, Nat.pow_succ]
  simp only [Nat.add_sub_cancel]
  omega

theorem twos_lt (k : Nat) (n : Int) : twos k n < 2 ^ (8 * k) := by
  unfold twos
  have hM : (0 : Int) < ((2 ^ (8 * k) : Nat) : Int) := by
    have : 0 < 2 ^ (8 * k) := Nat.pow_pos (by decide)
    omega
  have h1 := Int.emod_lt_of_pos n hM
  have h0 := Int.emod_nonneg n (Int.ne_of_gt hM)
  omega

/-- the signed reading of the two's-complement pattern of an in-range value is that value -/
theorem signed_twos (k : Nat) (n : Int) (hk : 1 ≤ k) (h : inRange (8 * k) n) :
    signed k (twos k n) = n := by
  unfold inRange at h
  unfold signed twos
  have hsplit := pow_split k hk
  have hpos : 0 < 2 ^ (8 * k - 1) := Nat.pow_pos (by decide)
  generalize 2 ^ (8 * k - 1) = H at h hsplit hpos
  generalize 2 ^ (8 * k) = M at hsplit
  subst hsplit
  by_cases hn : 0 ≤ n
  · have ht : n % ((2 * H : Nat) : Int) = n := Int.emod_eq_of_lt hn (by omega)
    rw [ht]
    have hlt : n.toNat < H := by omega
    rw [if_pos hlt]
    omega
  · have ht : n % ((2 * H : Nat) : Int) = n + ((2 * H : Nat) : Int) := by
      rw [← Int.add_emod_right n ((2 * H : Nat) : Int)]
      exact Int.emod_eq_of_lt (by omega) (by omega)
    rw [ht]
    have hge : ¬ (n + ((2 * H : Nat) : Int)).toNat < H := by omega
    rw [if_neg hge]
    omega

/-- the two's-complement pattern of the signed reading of a `k`-byte pattern is that pattern -/
theorem twos_signed (k u : Nat) (hu : u < 2 ^ (8 * k)) : twos k (signed k u) = u := by
  unfold signed twos
  generalize 2 ^ (8 * k - 1) = H
  generalize 2 ^ (8 * k) = M at hu
  by_cases hlt : u < H
  · rw [if_pos hlt]
    have ht : (u : Int) % (M : Int) = (u : Int) := Int.emod_eq_of_lt (by omega) (by omega)
    rw [ht]; omega
  · rw [if_neg hlt]
    have ht : ((u : Int) - (M : Int)) % (M : Int) = (u : Int) := by
      rw [Int.sub_emod_right]
      exact Int.emod_eq_of_lt (by omega) (by omega)
    rw [ht]; omega

theorem signed_inRange (k u : Nat) (hk : 1 ≤ k) (hu : u < 2 ^ (8 * k)) : inRange (8 * k) (signed k u) := by
  unfold inRange signed
  have hsplit := pow_split k hk
  generalize 2 ^ (8 * k - 1) = H at hsplit
  generalize 2 ^ (8 * k) = M at hsplit hu
  subst hsplit
  by_cases hlt : u < H
  · rw [if_pos hlt]; omega
  · rw [if_neg hlt]; omega

@[simp] theorem intToBE_length (k : Nat) (n : Int) : (intToBE k n).length = k := by
  simp [intToBE]

@[simp] theorem intToLE_length (k : Nat) (n : Int) : (intToLE k n).length = k := by
  simp [intToLE]

/-- 5. binary roundtrip, PostgreSQL (big-endian) form -/
theorem beToInt_intToBE (k : Nat) (n : Int) (hk : 1 ≤ k) (h : inRange (8 * k) n) :
    beToInt (intToBE k n) = n := by
  unfold beToInt
  rw [intToBE_length]
  unfold intToBE
  rw [beVal_beBytes_of_lt k (twos k n) (by rw [pow256]; exact twos_lt k n)]
  exact signed_twos k n hk h

/-- 5. binary roundtrip, MySQL (little-endian) form -/
theorem leToInt_intToLE (k : Nat) (n : Int) (hk : 1 ≤ k) (h : inRange (8 * k) n) :
    leToInt (intToLE k n) = n := by
  unfold leToInt
  rw [intToLE_length]
  unfold intToLE
  rw [leVal_leBytes_of_lt k (twos k n) (by rw [pow256]; exact twos_lt k n)]
  exact signed_twos k n hk h

theorem beVal_lt (b : Bytes) : beVal b < 2 ^ (8 * b.length) := by
  have := leVal_lt b.reverse
  rw [List.length_reverse, pow256] at this
  exact this

theorem leVal_lt' (b : Bytes) : leVal b < 2 ^ (8 * b.length) := by
  have := leVal_lt b
  rw [pow256] at this
  exact this

theorem beBytes_beVal (b : Bytes) : beBytes b.length (beVal b) = b := by
  unfold beBytes beVal
  have := leBytes_leVal b.reverse
  rw [List.length_reverse] at this
  rw [this, List.reverse_reverse]

/-- 5. every byte string is the big-endian form of its signed reading … -/
theorem intToBE_beToInt (b : Bytes) (hb : 1 ≤ b.length) : intToBE b.length (beToInt b) = b := by
  unfold intToBE beToInt
  rw [twos_signed b.length (beVal b) (beVal_lt b)]
  exact beBytes_beVal b

/-- … and that reading is in range -/
theorem beToInt_inRange (b : Bytes) (hb : 1 ≤ b.length) : inRange (8 * b.length) (beToInt b) := by
  unfold beToInt
  exact signed_inRange b.length (beVal b) hb (beVal_lt b)

theorem intToLE_leToInt (b : Bytes) (hb : 1 ≤ b.length) : intToLE b.length (leToInt b) = b := by
  unfold intToLE leToInt
  rw [twos_signed b.length (leVal b) (leVal_lt' b)]
  exact leBytes_leVal b

theorem leToInt_inRange (b : Bytes) (hb : 1 ≤ b.length) : inRange (8 * b.length) (leToInt b) := by
  unfold leToInt
  exact signed_inRange b.length (leVal b) hb (leVal_lt' b)

/-! ### the widths the property uses -/

theorem beToInt_intToBE_4 (n : Int) (h : inRange 32 n) : beToInt (intToBE 4 n) = n :=
  beToInt_intToBE 4 n (by decide) h
theorem beToInt_intToBE_8 (n : Int) (h : inRange 64 n) : beToInt (intToBE 8 n) = n :=
  beToInt_intToBE 8 n (by decide) h
theorem leToInt_intToLE_4 (n : Int) (h : inRange 32 n) : leToInt (intToLE 4 n) = n :=
  leToInt_intToLE 4 n (by decide) h
theorem leToInt_intToLE_8 (n : Int) (h : inRange 64 n) : leToInt (intToLE 8 n) = n :=
  leToInt_intToLE 8 n (by decide) h

/-! ### composites: text → binary → text -/

/-- 6. general form: `bits = 8 * k` -/
theorem parse_then_binary_roundtrip_be (bits k : Nat) (n : Int) (hk : 1 ≤ k) (hbits : bits = 8 * k)
    (h : inRange bits n) :
    beToInt (intToBE k n) = n ∧ parseInt (formatInt (beToInt (intToBE k n))) bits = some n := by
  subst hbits
  have h1 := beToInt_intToBE k n hk h
  exact ⟨h1, by rw [h1]; exact parseInt_formatInt (8 * k) n (by omega) h⟩

theorem parse_then_binary_roundtrip_le (bits k : Nat) (n : Int) (hk : 1 ≤ k) (hbits : bits = 8 * k)
    (h : inRange bits n) :
    leToInt (intToLE k n) = n ∧ parseInt (formatInt (leToInt (intToLE k n))) bits = some n := by
  subst hbits
  have h1 := leToInt_intToLE k n hk h
  exact ⟨h1, by rw [h1]; exact parseInt_formatInt (8 * k) n (by omega) h⟩

theorem parse_then_binary_roundtrip_be_32 (n : Int) (h : inRange 32 n) :
    beToInt (intToBE 4 n) = n ∧ parseInt (formatInt (beToInt (intToBE 4 n))) 32 = some n :=
  parse_then_binary_roundtrip_be 32 4 n (by decide) rfl h

theorem parse_then_binary_roundtrip_be_64 (n : Int) (h : inRange 64 n) :
    beToInt (intToBE 8 n) = n ∧ parseInt (formatInt (beToInt (intToBE 8 n))) 64 = some n :=
  parse_then_binary_roundtrip_be 64 8 n (by decide) rfl h

theorem parse_then_binary_roundtrip_le_32 (n : Int) (h : inRange 32 n) :
    leToInt (intToLE 4 n) = n ∧ parseInt (formatInt (leToInt (intToLE 4 n))) 32 = some n :=
  parse_then_binary_roundtrip_le 32 4 n (by decide) rfl h

theorem parse_then_binary_roundtrip_le_64 (n : Int) (h : inRange 64 n) :
    leToInt (intToLE 8 n) = n ∧ parseInt (formatInt (leToInt (intToLE 8 n))) 64 = some n :=
  parse_then_binary_roundtrip_le 64 8 n (by decide) rfl h

/-- text → value → text' for what `parseInt` accepts: re-formatting and re-parsing gives the same value -/
theorem parseInt_formatInt_of_parseInt (s : Bytes) (bits : Nat) (n : Int) (hb : 1 ≤ bits)
    (h : parseInt s bits = some n) : parseInt (formatInt n) bits = some n :=
  parseInt_formatInt bits n hb (parseInt_inRange s bits n hb h)

end AcraModel.Typed
