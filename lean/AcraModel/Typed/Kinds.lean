import AcraModel.Typed.Describe
/-
Kinds of column settings and the "type aware" predicate:
  encryptor/base/config/encryptionSettings.go
    BasicColumnEncryptionSetting.Init   – every option of a column (data type by name / by database id, response_on_fail,
                                          default, crypto envelope, re-encryption, searchable, masking, tokenization)
                                          folded into a `SettingMask` that has to be a key of `validSettings`
    OnlyEncryption / IsSearchable / HasTypeAwareSupport / IsBinaryDataOperation
  decryptor/postgresql/pg_decryptor.go  handleRowDescription, handleParameterDescription, replaceOIDsInParsePackets
                                          (all three ask `config.HasTypeAwareSupport(setting)`)
  decryptor/mysql/type_conversion.go    updateFieldEncodedType (asks only for the data type id)

Nothing about *which* kinds are type aware or accepted is written down here: the flag values, the table of accepted
masks, the mask of `OnlyEncryption`, the disjuncts of `HasTypeAwareSupport` / `IsBinaryDataOperation`, the data types
masking may be combined with and the token type → data type map are regenerated from the source
(`Generated/Typed.lean`) and *interpreted* by the functions below.
-/
namespace AcraModel.Typed
open AcraModel

/-- what a column setting does with the value besides (possibly) declaring its type -/
inductive Kind where
  | plain        -- encryption only
  | searchable   -- `searchable: true`   (stored value = 33-byte hash ++ envelope)
  | masked       -- `masking: …, plaintext_length: …, plaintext_side: …`
  | tokenized    -- `token_type: …`      (the token type implies the data type)
deriving Repr, DecidableEq

/-- the finite part of a column's configuration: everything `Init` looks at except the text of the default -/
structure Shape where
  kind : Kind
  /-- `data_type` / `data_type_db_identifier`; for a tokenized column the `token_type` -/
  dataType : Option DataType
  /-- `response_on_fail` (`none`: not given) -/
  onFail : Option Policy
  /-- `default_data_value` given -/
  hasDefault : Bool
  /-- the type is written as `data_type_db_identifier` (the database's own id) instead of `data_type` -/
  typeById : Bool
  /-- tokenized columns only: a data type is written in addition to `token_type` -/
  tokenAndType : Bool
  /-- `crypto_envelope: acrastruct` (otherwise acrablock, the default of the schema store) -/
  acrastruct : Bool
  /-- `reencrypting_to_acrablocks` (default of the schema store: true) -/
  reencrypt : Bool
deriving Repr, DecidableEq

/-- membership in a table of masks (`_, ok := validSettings[mask]`) -/
def elemNat (n : Nat) : List Nat → Bool
  | [] => false
  | x :: xs => Nat.beq n x || elemNat n xs

namespace Shape

def tokenized (sh : Shape) : Bool := sh.kind == .tokenized

/-- `s.DataType != ""` was written in the configuration (sets `SettingDataTypeFlag`) -/
def explicitName (sh : Shape) : Bool :=
  sh.dataType.isSome && !sh.typeById && (!sh.tokenized || sh.tokenAndType)

/-- `s.DataTypeID != 0` was written in the configuration (sets `SettingDataTypeIDFlag`) -/
def explicitId (sh : Shape) : Bool :=
  sh.dataType.isSome && sh.typeById && (!sh.tokenized || sh.tokenAndType)

/-- `response_on_fail` after `Init`: what was written, else `default_value` when a default is given, else `ciphertext` -/
def policy (sh : Shape) : Policy :=
  match sh.onFail with
  | some p => p
  | none => if sh.hasDefault then .defaultValue else .ciphertext

/-- name of a data type in `common.EncryptedType_*` -/
def encryptedTypeName : Option DataType → String
  | some .int32 => "EncryptedType_Int32" | some .int64 => "EncryptedType_Int64"
  | some .str => "EncryptedType_String" | some .bytes => "EncryptedType_Bytes"
  | none => "EncryptedType_Unknown"

/-- `settingMask` as `Init` accumulates it -/
def mask (sh : Shape) : Nat :=
  let m := Generated.Typed.settingClientIDFlag
  -- crypto envelope (tokenization always reconfigures the column for AcraBlock)
  let m := m ||| (if sh.acrastruct && !sh.tokenized then Generated.Typed.settingAcraStructEncryptionFlag else Generated.Typed.settingAcraBlockEncryptionFlag)
  let m := if sh.reencrypt then m ||| Generated.Typed.settingReEncryptionFlag else m
  let m := if sh.onFail.isSome then m ||| Generated.Typed.settingOnFailFlag else m
  let m := if sh.explicitName then m ||| Generated.Typed.settingDataTypeFlag else m
  let m := if sh.explicitId then m ||| Generated.Typed.settingDataTypeIDFlag else m
  let m := if sh.hasDefault then m ||| Generated.Typed.settingDefaultDataValueFlag else m
  let m := if sh.tokenized then m ||| Generated.Typed.settingTokenizationFlag ||| Generated.Typed.settingTokenTypeFlag else m
  let m := if sh.kind == .masked then
      m ||| Generated.Typed.settingMaskingFlag ||| Generated.Typed.settingMaskingPlaintextLengthFlag ||| Generated.Typed.settingMaskingPlaintextSideFlag else m
  if sh.kind == .searchable then m ||| Generated.Typed.settingSearchFlag else m

/-- everything `Init` checks; `defaultOk` = the encoder's `ValidateDefaultValue` accepts the default's text -/
def accepts (sh : Shape) (defaultOk : Bool) : Bool :=
  -- a tokenized column has a token type (there is no tokenized column without one)
  !(sh.tokenized && sh.dataType.isNone) &&
  -- `data_type` (written, or derived from the token type) together with `data_type_db_identifier`
  !((sh.explicitName || sh.tokenized) && sh.explicitId) &&
  -- a default needs a data type id, the policy `default_value` and a text the type's encoder accepts
  (!sh.hasDefault || (sh.dataType.isSome && sh.policy == .defaultValue && defaultOk)) &&
  -- `ValidateMaskingParams`
  (!(sh.kind == .masked) || Generated.Typed.maskingDataTypes.contains (encryptedTypeName sh.dataType)) &&
  elemNat sh.mask Generated.Typed.validSettingMasks

end Shape

/-- a column as written in the encryptor configuration -/
structure RawColumn where
  raw : RawSetting
  kind : Kind
  typeById : Bool
  tokenAndType : Bool
  acrastruct : Bool
  reencrypt : Bool
deriving Repr

def RawColumn.shape (r : RawColumn) : Shape :=
  ⟨r.kind, r.raw.dataType, r.raw.onFail, r.raw.default.isSome, r.typeById, r.tokenAndType, r.acrastruct, r.reencrypt⟩

/-- `ValidateDefaultValue` of the declared type's encoder (true when there is no default) -/
def RawSetting.defaultOk (r : RawSetting) : Bool :=
  match r.default, r.dataType with
  | none, _ => true
  | some d, some .int32 => (parseInt d 32).isSome
  | some d, some .int64 => (parseInt d 64).isSome
  | some _, some .str => r.defaultUtf8
  | some _, some .bytes => r.defaultB64.isSome
  | some _, none => false

/-- an accepted column setting: what the read path and the description rewrite look at -/
structure Column where
  setting : Setting
  kind : Kind
  /-- `GetSettingMask()` -/
  mask : Nat
deriving Repr, DecidableEq

/-- `settingMask&(SettingMaskingFlag|SettingTokenizationFlag|SettingSearchFlag) == 0` -/
def maskOnlyEncryption (m : Nat) : Bool := m &&& Generated.Typed.onlyEncryptionMask == 0

def maskSearchable (m : Nat) : Bool := m &&& Generated.Typed.settingSearchFlag != 0

def maskMasked (m : Nat) : Bool := m &&& Generated.Typed.settingMaskingFlag != 0

namespace Column

/-- `OnlyEncryption()` -/
def onlyEncryption (c : Column) : Bool := maskOnlyEncryption c.mask

/-- `IsSearchable()` (the `searchable` option; `Init` mirrors it in `SettingSearchFlag`) -/
def isSearchable (c : Column) : Bool := maskSearchable c.mask

/-- `GetMaskingPattern() != ""` (`Init` mirrors it in `SettingMaskingFlag`) -/
def hasMaskingPattern (c : Column) : Bool := maskMasked c.mask

/-- `GetDBDataTypeID() != 0`: `Init` derives the id from every data type, however it was written -/
def hasDBTypeID (c : Column) : Bool := c.setting.dataType.isSome

/-- `GetTokenType() == TokenType_Bytes` -/
def tokenBytes (c : Column) : Bool := c.kind == .tokenized && c.setting.dataType == some .bytes

end Column

/-- the local `maskingSupport` of `HasTypeAwareSupport` (an unknown requirement is never satisfied) -/
def maskingSupport (c : Column) : Bool :=
  Generated.Typed.maskingSupportRequires.all fun req =>
    if req = "GetMaskingPattern != \"\"" then c.hasMaskingPattern
    else if req = "not GetDBDataTypeID == 0" then c.hasDBTypeID
    else false

/-- one disjunct of `HasTypeAwareSupport`'s return expression (an unknown disjunct is never true) -/
def typeAwareDisjunct (c : Column) (d : String) : Bool :=
  if d = "OnlyEncryption" then c.onlyEncryption
  else if d = "IsSearchable" then c.isSearchable
  else if d = "maskingSupport" then maskingSupport c
  else false

/-- `config.HasTypeAwareSupport(setting)` -/
def hasTypeAwareSupport (c : Column) : Bool :=
  Generated.Typed.typeAwareDisjuncts.any (typeAwareDisjunct c)

/-- one disjunct of `IsBinaryDataOperation` -/
def binaryOpDisjunct (c : Column) (d : String) : Bool :=
  if d = "GetTokenType == TokenType_Bytes" then c.tokenBytes
  else if d = "OnlyEncryption" then c.onlyEncryption
  else if d = "IsSearchable" then c.isSearchable
  else if d = "len GetMaskingPattern != 0" then c.hasMaskingPattern
  else false

/-- `config.IsBinaryDataOperation(setting)` -/
def isBinaryDataOperation (c : Column) : Bool :=
  Generated.Typed.binaryOpDisjuncts.any (binaryOpDisjunct c)

/-- `MapTableSchemaStoreFromConfig` for one column (`applyDefaults` + `Init`): `none` = configuration rejected -/
def initColumn (r : RawColumn) : Option Column :=
  if r.shape.accepts r.raw.defaultOk then
    let c0 : Column := ⟨⟨r.raw.dataType, r.shape.policy, r.raw.default, true⟩, r.kind, r.shape.mask⟩
    some { c0 with setting := { c0.setting with binaryOp := isBinaryDataOperation c0 } }
  else none

/-! ### description rewrite -/

/-- `pgtype.ByteaOID` -/
def byteaOid : Nat := 17

/-- `handleRowDescription`: the type OID announced for a result column whose database type is `dbOid` -/
def pgRowOid (c : Column) (dbOid : Nat) : Nat := pgDescribe c.setting (hasTypeAwareSupport c) dbOid

/-- `handleParameterDescription`: the type OID announced for a statement parameter bound to the column -/
def pgParamOid (c : Column) (dbOid : Nat) : Nat := pgDescribe c.setting (hasTypeAwareSupport c) dbOid

/-- `replaceOIDsInParsePackets`: the parameter type the database is told in `Parse` when the client said `clientOid`
(every type-aware column is stored as bytea) -/
def pgParseOid (c : Column) (clientOid : Nat) : Nat := if hasTypeAwareSupport c then byteaOid else clientOid

/-- `updateFieldEncodedType` (+ rollback): the MySQL column type announced; it does not ask `HasTypeAwareSupport` -/
def myColumnType (c : Column) (dbType : Nat) (rollback : Bool) : Nat := myDescribe c.setting dbType rollback

/-- the kinds for which the PostgreSQL proxy announces the declared type itself (the stored column is bytea);
a tokenized column is stored under its own type, which the database announces -/
def Kind.storedAsBytea : Kind → Bool
  | .tokenized => false
  | _ => true

end AcraModel.Typed
