import AcraModel.Typed.IntCodec
import AcraModel.Wire.Bytea
import AcraModel.Wire.LenEnc
import AcraModel.Generated.Typed
/-
Type-aware read path: model of
  decryptor/postgresql/data_encoder.go  (PgSQLDataDecoderProcessor / PgSQLDataEncoderProcessor .OnColumn)
  decryptor/postgresql/types/{int4,int8,text,bytea}.go (Decode / Encode / EncodeOnFail / encodeDefault)
  decryptor/mysql/data_encoder.go (DataDecoderProcessor / DataEncoderProcessor: decodeBinary, encodeText, encodeBinary)
  decryptor/mysql/types/{long,long_long,string,blob}.go
The subscribers between decoder and encoder (envelope detection and decryption) are a parameter
`reveal : Bytes → Option Bytes`: `some m` = the value was revealed as plaintext `m` (context marked
"decrypted"), `none` = the column passes unchanged.
-/
namespace AcraModel.Typed
open AcraModel AcraModel.Wire

inductive DataType where
  | int32 | int64 | str | bytes
deriving Repr, DecidableEq

/-- `response_on_fail` after `BasicColumnEncryptionSetting.Init` (empty ⇒ ciphertext, or default_value when a default is given) -/
inductive Policy where
  | ciphertext | defaultValue | error
deriving Repr, DecidableEq

/-- the part of a column setting the read path looks at -/
structure Setting where
  dataType : Option DataType          -- none: no data_type / data_type_db_identifier (DataTypeID = 0)
  policy : Policy
  default : Option Bytes              -- default_data_value
  binaryOp : Bool                     -- config.IsBinaryDataOperation(setting)
deriving Repr, DecidableEq

inductive Res where
  | value (b : Bytes) (rollback : Bool)   -- delivered bytes; rollback = MySQL "error converted data type" mark
  | encodingError                         -- base.EncodingError: reported to the client as an error for the statement
  | otherError                            -- any other error: the row is not delivered
deriving Repr, DecidableEq

def bitsOf : DataType → Nat
  | .int32 => 32 | .int64 => 64 | _ => 0

/-- `encoding/base64.StdEncoding.DecodeString` is not modelled bit by bit: the harness passes the decoded default
along with the text (`none` = the text is not valid base64). -/
structure Default64 where
  decoded : Option Bytes
deriving Repr, DecidableEq

/-! ### PostgreSQL -/

/-- the common text-format branch of every `Decode`: bytea hex/escape decoding for binary operations.
Result: `ok (data', savedEncoded?)` or an error (hex syntax error). -/
def pgDecodeText (s : Setting) (data : Bytes) : Option Bytes :=
  if s.binaryOp then
    match Bytea.decodeEscaped data with
    | .ok d => some d
    | .error .octal => some data
    | .error .hex => none           -- hex syntax error after "\\x": the decoder returns the error (the row fails)
  else some data

/-- `PgSQLDataDecoderProcessor.OnColumn`: `none` = error -/
def pgDecode (s : Setting) (binary : Bool) (data : Bytes) : Option Bytes :=
  match s.dataType with
  | some .int32 =>
    if binary then
      if data.length = 4 ∨ data.length = 8 then some (formatInt (beToInt data)) else some data
    else pgDecodeText s data
  | some .int64 =>
    if binary then
      if data.length = 8 then some (formatInt (beToInt data)) else some data
    else pgDecodeText s data
  | some _ => if binary then some data else pgDecodeText s data
  | none => pgDecodeText s data        -- no registered encoder: decoded whatever the format is

/-- whether the decoder saved the encoded value in the context (`EncodedValueContext`) -/
def pgSavesEncoded (s : Setting) (binary : Bool) (data : Bytes) : Bool :=
  s.binaryOp && (Bytea.decodeEscaped data).toOption.isSome &&
    (match s.dataType with | none => true | some _ => !binary)

/-- `EncodeOnFail` of the PostgreSQL types: `ok none` = nothing to substitute (deliver the data as it is) -/
def pgEncodeOnFail (s : Setting) (binary : Bool) (d64 : Default64) : Except Res (Option Bytes) :=
  match s.policy with
  | .ciphertext => .ok none
  | .error => .error .encodingError
  | .defaultValue =>
    match s.default with
    | none => .ok none
    | some d =>
      match s.dataType with
      | some .int32 | some .int64 =>
        match parseInt d (bitsOf (s.dataType.getD .int32)) with
        | none => .error .otherError
        | some v => .ok (some (if binary then intToBE (bitsOf (s.dataType.getD .int32) / 8) v else d))
      | some .str => .ok (some d)
      | _ =>  -- bytes (also used for columns without a data type that were decrypted)
        match d64.decoded with
        | none => .ok none
        | some b => .ok (some (if binary then b else Bytea.pgEncodeToHex b))

/-- `PgSQLDataEncoderProcessor.OnColumn` -/
def pgEncode (s : Setting) (binary decrypted : Bool) (saved : Option Bytes) (d64 : Default64) (data : Bytes) : Res :=
  -- empty data: an untyped column gets back the value saved by the decoder, if any (after the `fix:` for "\\x")
  if data.isEmpty then .value (if s.dataType.isNone then saved.getD data else data) false else
  match s.dataType with
  | some .int32 | some .int64 =>
    let bits := bitsOf (s.dataType.getD .int32)
    match parseInt data bits with
    | some v => .value (if binary then intToBE (bits / 8) v else data) false
    | none =>
      if !decrypted then
        match pgEncodeOnFail s binary d64 with
        | .error e => e
        | .ok (some v) => .value v false
        | .ok none => .value data false
      else .value data false
  | some .str =>
    if !decrypted then
      match pgEncodeOnFail s binary d64 with
      | .error e => e
      | .ok (some v) => .value v false
      | .ok none => .value data false
    else .value data false
  | some .bytes =>
    let plain := if binary then data else Bytea.pgEncodeToHex data
    if !decrypted then
      match pgEncodeOnFail s binary d64 with
      | .error e => e
      | .ok (some v) => .value v false
      | .ok none => .value plain false
    else .value plain false
  | none =>
    if decrypted then
      -- `types.NewByteaDataTypeEncoder().Encode` with a decrypted context
      .value (if binary then data else Bytea.pgEncodeToHex data) false
    else match saved with
      | some e => .value e false
      | none => .value data false

/-- decoder → reveal → encoder, as wired by `decryptor/postgresql/proxy.go` -/
def pgTypedRead (s : Setting) (binary : Bool) (d64 : Default64) (reveal : Bytes → Option Bytes) (wire : Bytes) : Res :=
  match pgDecode s binary wire with
  | none => .otherError
  | some x =>
    let saved := if pgSavesEncoded s binary wire then some wire else none
    match reveal x with
    | some m => pgEncode s binary true saved d64 m
    | none => pgEncode s binary false saved d64 x

/-! ### MySQL -/

def myTypeCode : DataType → Nat
  | .int32 => Generated.Typed.myTypeLong
  | .int64 => Generated.Typed.myTypeLongLong
  | .str => Generated.Typed.myTypeString
  | .bytes => Generated.Typed.myTypeBlob

def lenenc (b : Bytes) : Bytes := LenEnc.putLengthEncodedString (some b)

/-- `EncodeOnFail` of the MySQL types -/
def myEncodeOnFail (s : Setting) (binary : Bool) (d64 : Default64) : Except Res (Option Bytes) :=
  match s.policy with
  | .ciphertext => .ok none
  | .error => .error .encodingError
  | .defaultValue =>
    match s.default with
    | none => .ok none
    | some d =>
      match s.dataType with
      | some .int32 | some .int64 =>
        let bits := bitsOf (s.dataType.getD .int32)
        match parseInt d bits with
        | none => .error .otherError
        | some v => .ok (some (if binary then intToLE (bits / 8) v else lenenc d))
      | some .str => .ok (some (lenenc d))
      | _ =>
        match d64.decoded with
        | none => .ok none
        | some b => .ok (some (lenenc b))

/-- `DataTypeEncoder.Encode` of the MySQL types: `ok (some v)` encoded, `ok none` = (nil, nil) "not handled",
`error` = an error, `convErr` = `ErrConvertToDataType` -/
inductive MyEnc where
  | encoded (b : Bytes)
  | notHandled
  | convErr
  | fail (r : Res)

def myTypeEncode (s : Setting) (t : DataType) (binary decrypted : Bool) (d64 : Default64) (data : Bytes) : MyEnc :=
  let onFail : MyEnc :=
    match myEncodeOnFail s binary d64 with
    | .error e => .fail e
    | .ok (some v) => .encoded v
    | .ok none => .convErr
  match t with
  | .int32 | .int64 =>
    match parseInt data (bitsOf t) with
    | some v => .encoded (if binary then intToLE (bitsOf t / 8) v else lenenc data)
    | none => if !decrypted then onFail else .notHandled
  | .str | .bytes => if !decrypted then onFail else .encoded (lenenc data)

/-- the generic tail of `encodeBinary`: re-encode under the column's wire type (`colType`) -/
def myEncodeBinaryAs (colType : Nat) (data : Bytes) : Res :=
  let intAs (bits : Nat) : Res :=
    match parseInt data bits with
    | some v => .value (intToLE (bits / 8) v) false
    | none => .otherError
  if colType = Generated.Typed.myTypeNull then .otherError      -- "NULL not kept NULL" (data is not nil here)
  else if colType = Generated.Typed.myTypeTiny then intAs 8
  else if colType = Generated.Typed.myTypeShort ∨ colType = Generated.Typed.myTypeYear then intAs 16
  else if colType = Generated.Typed.myTypeInt24 ∨ colType = Generated.Typed.myTypeLong then intAs 32
  else if colType = Generated.Typed.myTypeLongLong then intAs 64
  else .value (lenenc data) false

/-- `DataEncoderProcessor.OnColumn` (float columns are outside the model) -/
def myEncode (s : Setting) (binary decrypted : Bool) (colType originType : Nat) (d64 : Default64) (data : Bytes) : Res :=
  if data.isEmpty then .value (lenenc data) false else
  match s.dataType with
  | none => if binary then myEncodeBinaryAs colType data else .value (lenenc data) false
  | some t =>
    match myTypeEncode s t binary decrypted d64 data with
    | .fail e => e
    | .encoded b => .value b false
    | .notHandled => if binary then myEncodeBinaryAs colType data else .value (lenenc data) false
    | .convErr =>
      -- roll the field type back and encode as the original type
      if binary then
        match myEncodeBinaryAs originType data with
        | .value b _ => .value b true
        | r => r
      else .value (lenenc data) true

/-- `DataDecoderProcessor.OnColumn`: binary integers become decimal text (float columns outside the model) -/
def myDecode (binary : Bool) (colType originType : Nat) (data : Bytes) : Bytes :=
  if !binary then data else
  let t := if originType ≠ 0 then originType else colType
  let width : Option Nat :=
    if t = Generated.Typed.myTypeTiny then some 1
    else if t = Generated.Typed.myTypeShort ∨ t = Generated.Typed.myTypeYear then some 2
    else if t = Generated.Typed.myTypeInt24 ∨ t = Generated.Typed.myTypeLong then some 4
    else if t = Generated.Typed.myTypeLongLong then some 8
    else none
  match width with
  | some k => if data.length < k then data else formatInt (leToInt (data.take k))
  | none => data

/-- decoder → reveal → encoder, as wired by `decryptor/mysql/proxy.go` -/
def myTypedRead (s : Setting) (binary : Bool) (colType originType : Nat) (d64 : Default64) (reveal : Bytes → Option Bytes) (wire : Bytes) : Res :=
  let x := myDecode binary colType originType wire
  match reveal x with
  | some m => myEncode s binary true colType originType d64 m
  | none => myEncode s binary false colType originType d64 x

end AcraModel.Typed
