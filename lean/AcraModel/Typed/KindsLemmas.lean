import AcraModel.Typed.Kinds
/-
Helper lemmas for `Typed/Kinds.lean`: the configuration space of a column (`Shape`) is finite, so what `Init`
accepts and which mask bits a kind sets are established by running the model over every shape in the kernel
(once per kind), against the regenerated table `validSettingMasks`.
-/
namespace AcraModel.Typed
open AcraModel

def allTypes : List (Option DataType) := [none, some .int32, some .int64, some .str, some .bytes]
def allOnFail : List (Option Policy) := [none, some .ciphertext, some .defaultValue, some .error]
def bools : List Bool := [false, true]

theorem mem_allTypes (t : Option DataType) : t ∈ allTypes := by
  cases t with
  | none => decide
  | some t => cases t <;> decide

theorem mem_allOnFail (o : Option Policy) : o ∈ allOnFail := by
  cases o with
  | none => decide
  | some p => cases p <;> decide

theorem mem_bools (b : Bool) : b ∈ bools := by cases b <;> decide

/-- `p` holds for every shape of kind `k` (a finite conjunction the kernel can evaluate) -/
def forallShapeOf (k : Kind) (p : Shape → Bool) : Bool :=
  allTypes.all fun t => allOnFail.all fun o => bools.all fun d => bools.all fun i =>
  bools.all fun ta => bools.all fun a => bools.all fun r => p ⟨k, t, o, d, i, ta, a, r⟩

theorem forallShapeOf_elim (k : Kind) (p : Shape → Bool) (h : forallShapeOf k p = true)
    (sh : Shape) (hk : sh.kind = k) : p sh = true := by
  obtain ⟨k', t, o, d, i, ta, a, r⟩ := sh
  simp only at hk
  subst hk
  simp only [forallShapeOf, List.all_eq_true] at h
  exact h t (mem_allTypes t) o (mem_allOnFail o) d (mem_bools d) i (mem_bools i) ta (mem_bools ta) a (mem_bools a) r (mem_bools r)

/-- What `Init` accepts, in closed form (`b`: the declared type's encoder accepts the text of the default):
* a default needs a data type, the policy `default_value` and a text the encoder accepts – for every kind;
* encryption only: a typed column must be re-encrypted to AcraBlocks, an untyped one cannot have `response_on_fail`;
* searchable: always re-encrypted; with a default `response_on_fail` has to be written out;
* masked: re-encrypted, neither `response_on_fail` nor a default, never an integer type, and with a data type only as AcraBlock;
* tokenized: a token type, re-encrypted, neither `response_on_fail` nor a default nor a data type of its own. -/
def Shape.acceptsSpec (sh : Shape) (b : Bool) : Bool :=
  let typed := sh.dataType.isSome
  let defaultRule := !sh.hasDefault || (typed && sh.policy == .defaultValue && b)
  match sh.kind with
  | .plain => defaultRule && (if typed then sh.reencrypt else !sh.onFail.isSome)
  | .searchable => sh.reencrypt && defaultRule && (!sh.hasDefault || sh.onFail.isSome)
  | .masked => sh.reencrypt && !sh.onFail.isSome && !sh.hasDefault &&
      (sh.dataType != some .int32 && sh.dataType != some .int64) && (!typed || !sh.acrastruct)
  | .tokenized => typed && sh.reencrypt && !sh.onFail.isSome && !sh.hasDefault && !sh.tokenAndType

/-- everything the theorems need to know about one shape -/
def shapeCheck (sh : Shape) : Bool :=
  -- the mask bits `OnlyEncryption` / `IsSearchable` / `GetMaskingPattern` are read from mirror the kind
  (maskOnlyEncryption sh.mask == (sh.kind == .plain)) &&
  (maskSearchable sh.mask == (sh.kind == .searchable)) &&
  (maskMasked sh.mask == (sh.kind == .masked)) &&
  -- acceptance
  (sh.accepts true == sh.acceptsSpec true)

set_option maxRecDepth 100000 in
theorem shapeCheck_plain : forallShapeOf .plain shapeCheck = true := by decide +kernel
set_option maxRecDepth 100000 in
theorem shapeCheck_searchable : forallShapeOf .searchable shapeCheck = true := by decide +kernel
set_option maxRecDepth 100000 in
theorem shapeCheck_masked : forallShapeOf .masked shapeCheck = true := by decide +kernel
set_option maxRecDepth 100000 in
theorem shapeCheck_tokenized : forallShapeOf .tokenized shapeCheck = true := by decide +kernel

theorem shapeCheck_all (sh : Shape) : shapeCheck sh = true := by
  cases hk : sh.kind
  · exact forallShapeOf_elim _ _ shapeCheck_plain sh hk
  · exact forallShapeOf_elim _ _ shapeCheck_searchable sh hk
  · exact forallShapeOf_elim _ _ shapeCheck_masked sh hk
  · exact forallShapeOf_elim _ _ shapeCheck_tokenized sh hk

/-- the three mask bits read by `OnlyEncryption` / `IsSearchable` / `GetMaskingPattern` mirror the kind -/
theorem mask_bits (sh : Shape) :
    maskOnlyEncryption sh.mask = (sh.kind == .plain) ∧ maskSearchable sh.mask = (sh.kind == .searchable) ∧
    maskMasked sh.mask = (sh.kind == .masked) := by
  have h := shapeCheck_all sh
  simp only [shapeCheck, Bool.and_eq_true, beq_iff_eq] at h
  exact ⟨h.1.1.1, h.1.1.2, h.1.2⟩

/-- the encoder's verdict on the default's text matters only when there is a default -/
theorem accepts_defaultOk (sh : Shape) (b : Bool) : sh.accepts b = (sh.accepts true && (!sh.hasDefault || b)) := by
  unfold Shape.accepts
  cases b <;> cases sh.hasDefault <;> simp

theorem acceptsSpec_defaultOk (sh : Shape) (b : Bool) : sh.acceptsSpec b = (sh.acceptsSpec true && (!sh.hasDefault || b)) := by
  unfold Shape.acceptsSpec
  cases b <;> cases sh.hasDefault <;> cases sh.kind <;> simp

/-- `Init` accepts exactly the shapes of the closed form -/
theorem accepts_eq_spec (sh : Shape) (b : Bool) : sh.accepts b = sh.acceptsSpec b := by
  have h := shapeCheck_all sh
  simp only [shapeCheck, Bool.and_eq_true, beq_iff_eq] at h
  rw [accepts_defaultOk, acceptsSpec_defaultOk, h.2]

/-- what an accepted column consists of -/
theorem initColumn_some (r : RawColumn) (c : Column) (h : initColumn r = some c) :
    r.shape.accepts r.raw.defaultOk = true ∧ c.kind = r.kind ∧ c.mask = r.shape.mask ∧
    c.setting.dataType = r.raw.dataType ∧ c.setting.policy = r.shape.policy ∧ c.setting.default = r.raw.default := by
  unfold initColumn at h
  by_cases ha : r.shape.accepts r.raw.defaultOk = true
  · simp only [ha, if_true, Option.some.injEq] at h
    subst h
    exact ⟨ha, rfl, rfl, rfl, rfl, rfl⟩
  · simp [ha] at h

/-- `HasTypeAwareSupport` with the regenerated disjuncts spelled out -/
theorem hasTypeAwareSupport_eq (c : Column) :
    hasTypeAwareSupport c = (c.onlyEncryption || c.isSearchable || (c.hasMaskingPattern && c.hasDBTypeID)) := by
  simp [hasTypeAwareSupport, Generated.Typed.typeAwareDisjuncts, typeAwareDisjunct, maskingSupport,
    Generated.Typed.maskingSupportRequires, Bool.or_assoc]

/-- `IsBinaryDataOperation` with the regenerated disjuncts spelled out -/
theorem isBinaryDataOperation_eq (c : Column) :
    isBinaryDataOperation c = (c.tokenBytes || c.onlyEncryption || c.isSearchable || c.hasMaskingPattern) := by
  simp [isBinaryDataOperation, Generated.Typed.binaryOpDisjuncts, binaryOpDisjunct, Bool.or_assoc]

/-- masked and tokenized columns: no `response_on_fail`, no default; masked: no integer type -/
theorem acceptsSpec_masked_tokenized (sh : Shape) (b : Bool) (h : sh.acceptsSpec b = true)
    (hk : sh.kind = .masked ∨ sh.kind = .tokenized) :
    sh.onFail = none ∧ sh.hasDefault = false ∧
    (sh.kind = .masked → sh.dataType ≠ some .int32 ∧ sh.dataType ≠ some .int64) := by
  obtain ⟨k, t, o, d, i, ta, a, r⟩ := sh
  simp only at hk
  rcases hk with rfl | rfl
  · simp [Shape.acceptsSpec] at h
    obtain ⟨⟨⟨⟨_, ho⟩, hd⟩, h1, h2⟩, _⟩ := h
    exact ⟨ho, hd, fun _ => ⟨h1, h2⟩⟩
  · simp [Shape.acceptsSpec] at h
    obtain ⟨⟨⟨_, ho⟩, hd⟩, _⟩ := h
    exact ⟨ho, hd, fun hm => by simp at hm⟩

/-- every kind but tokenization is an operation over binary data -/
theorem isBinaryDataOperation_of_kind (s : Setting) (k : Kind) (sh : Shape) (hk : sh.kind ≠ .tokenized) :
    isBinaryDataOperation ⟨s, k, sh.mask⟩ = true := by
  obtain ⟨h1, h2, h3⟩ := mask_bits sh
  rw [isBinaryDataOperation_eq]
  simp only [Column.onlyEncryption, Column.isSearchable, Column.hasMaskingPattern, h1, h2, h3]
  cases hkk : sh.kind <;> simp_all

end AcraModel.Typed
