import AcraModel.Typed.Policy
/-
Column / parameter description rewrite and setting validation:
  decryptor/postgresql/pg_decryptor.go  handleRowDescription / handleParameterDescription (type OID),
  decryptor/mysql/type_conversion.go    updateFieldEncodedType (+ the rollback in processText/BinaryDataRow),
  encryptor/base/config/encryptionSettings.go  BasicColumnEncryptionSetting.Init (data_type / response_on_fail /
  default_data_value part).
-/
namespace AcraModel.Typed
open AcraModel

/-- `common.PostgreSQLEncryptedTypeDataTypeIDs` with pgx's OID values -/
def pgOid : DataType → Nat
  | .int32 => 23 | .int64 => 20 | .str => 25 | .bytes => 17

/-- `handleRowDescription`: the OID announced for a column (`config.HasTypeAwareSupport` holds for
encryption-only / searchable settings) -/
def pgDescribe (s : Setting) (typeAware : Bool) (dbOid : Nat) : Nat :=
  match s.dataType with
  | some t => if typeAware then pgOid t else dbOid
  | none => dbOid

/-- MySQL column definition after `updateFieldEncodedType` and a possible rollback:
(type announced, whether it was rolled back) -/
def myDescribe (s : Setting) (dbType : Nat) (rollback : Bool) : Nat :=
  match s.dataType with
  | some t => if rollback then dbType else myTypeCode t
  | none => dbType

/-- the type under which a delivered MySQL value has to be read -/
def myDeliveredType (s : Setting) (dbType : Nat) (r : Res) : Option Nat :=
  match r with
  | .value _ rb => some (myDescribe s dbType rb)
  | _ => none

/-- the raw configuration of a column as written in the encryptor config -/
structure RawSetting where
  dataType : Option DataType
  onFail : Option Policy              -- none: `response_on_fail` not given
  default : Option Bytes
  defaultUtf8 : Bool                  -- utf8.ValidString(default)
  defaultB64 : Option Bytes           -- base64 decoding of the default (none: invalid)
deriving Repr

/-- `BasicColumnEncryptionSetting.Init` restricted to data_type / response_on_fail / default_data_value
for an encryption-only column: `none` = configuration rejected -/
def initSetting (r : RawSetting) : Option Setting :=
  let policy : Policy :=
    match r.onFail with
    | some p => p
    | none => if r.default.isSome then .defaultValue else .ciphertext
  -- `response_on_fail` without a data type is not among `validSettings`
  if r.dataType.isNone ∧ r.onFail.isSome then none else
  match r.default with
  | none => some ⟨r.dataType, policy, none, true⟩
  | some d =>
    match r.dataType with
    | none => none                                     -- default_data_value used without data_type_id
    | some t =>
      if policy ≠ .defaultValue then none              -- default given but response_on_fail is not "default_value"
      else
        let ok : Bool :=
          match t with
          | .int32 => (parseInt d 32).isSome
          | .int64 => (parseInt d 64).isSome
          | .str => r.defaultUtf8
          | .bytes => r.defaultB64.isSome
        if ok then some ⟨some t, policy, some d, true⟩ else none

end AcraModel.Typed
