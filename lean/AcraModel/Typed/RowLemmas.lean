import AcraModel.Typed.Row
import AcraModel.Typed.IntCodecLemmas
import AcraModel.Typed.Spec
/-!
Lemmas about the column loops of `Typed/Row.lean`: with the context handling the source has (regenerated facts) the
outcome for column `i` of a row is the outcome of the single-column read path (`myTypedRead` / `pgTypedRead`) on
column `i`'s own setting, stored value and keys, in the format PostgreSQL's rule assigns to column `i`.
-/
namespace AcraModel.Typed
open AcraModel AcraModel.Wire

/-! ### collecting per-column outcomes into a row outcome -/

/-- per-column outcomes (`none` = NULL) to the row outcome: the first error ends the row -/
def collectRow : List (Option Res) → RowRes
  | [] => .cols []
  | none :: r => (collectRow r).cons none
  | some (.value b rb) :: r => (collectRow r).cons (some (b, rb))
  | some .encodingError :: _ => .encodingError
  | some .otherError :: _ => .otherError

def Res.isValue : Res → Bool
  | .value _ _ => true
  | _ => false

theorem RowRes.cons_cols {v : Option (Bytes × Bool)} {r : RowRes} {outs : List (Option (Bytes × Bool))}
    (h : r.cons v = .cols outs) : ∃ t, r = .cols t ∧ outs = v :: t := by
  cases r with
  | cols t => simp only [RowRes.cons, RowRes.cols.injEq] at h; exact ⟨t, rfl, h.symm⟩
  | encodingError => cases h
  | otherError => cases h

/-- a row that is delivered: as many values as columns, NULL stays NULL, and the value at position `i` is the value of
the `i`-th per-column outcome -/
theorem collectRow_cols (l : List (Option Res)) (outs : List (Option (Bytes × Bool))) (h : collectRow l = .cols outs) :
    outs.length = l.length ∧
    (∀ i : Nat, l[i]? = some none → outs[i]? = some none) ∧
    (∀ (i : Nat) (r : Res), l[i]? = some (some r) → ∃ b rb, r = Res.value b rb ∧ outs[i]? = some (some (b, rb))) := by
  induction l generalizing outs with
  | nil =>
    simp only [collectRow, RowRes.cols.injEq] at h
    subst h
    exact ⟨rfl, fun i hi => by simp at hi, fun i r hi => by simp at hi⟩
  | cons x xs ih =>
    match x, h with
    | none, h =>
      obtain ⟨t, ht, rfl⟩ := RowRes.cons_cols h
      obtain ⟨h1, h2, h3⟩ := ih t ht
      refine ⟨by simp [h1], ?_, ?_⟩
      · intro i hi
        cases i with
        | zero => rfl
        | succ i => simpa using h2 i (by simpa using hi)
      · intro i r hi
        cases i with
        | zero => simp at hi
        | succ i => simpa using h3 i r (by simpa using hi)
    | some (.value b rb), h =>
      obtain ⟨t, ht, rfl⟩ := RowRes.cons_cols h
      obtain ⟨h1, h2, h3⟩ := ih t ht
      refine ⟨by simp [h1], ?_, ?_⟩
      · intro i hi
        cases i with
        | zero => simp at hi
        | succ i => simpa using h2 i (by simpa using hi)
      · intro i r hi
        cases i with
        | zero =>
          simp only [List.getElem?_cons_zero, Option.some.injEq] at hi
          subst hi
          exact ⟨b, rb, rfl, rfl⟩
        | succ i => simpa using h3 i r (by simpa using hi)
    | some .encodingError, h => cases h
    | some .otherError, h => cases h

/-- a row that is not delivered: some column's OWN outcome is that error, and every column in front of it has a value
(or is NULL) -/
theorem collectRow_error (l : List (Option Res)) (h : ∀ outs, collectRow l ≠ .cols outs) :
    ∃ (i : Nat) (r : Res), l[i]? = some (some r) ∧ r.isValue = false ∧
      (collectRow l = .encodingError ↔ r = Res.encodingError) ∧ (collectRow l = .otherError ↔ r = Res.otherError) ∧
      ∀ j : Nat, j < i → ∀ r' : Res, l[j]? = some (some r') → r'.isValue = true := by
  induction l with
  | nil => exact absurd rfl (h [])
  | cons x xs ih =>
    have step : (∀ outs, collectRow xs ≠ .cols outs) → ∀ v, (collectRow xs).cons v = collectRow xs := by
      intro hx v
      cases hc : collectRow xs with
      | cols t => exact absurd hc (hx t)
      | encodingError => rfl
      | otherError => rfl
    have lift : ∀ (y : Option Res) (hy : ∀ r' : Res, y = some r' → r'.isValue = true) (v : Option (Bytes × Bool)),
        (∀ outs, collectRow (y :: xs) ≠ .cols outs) →
        collectRow (y :: xs) = (collectRow xs).cons v →
        ∃ (i : Nat) (r : Res), (y :: xs)[i]? = some (some r) ∧ r.isValue = false ∧
          (collectRow (y :: xs) = .encodingError ↔ r = Res.encodingError) ∧
          (collectRow (y :: xs) = .otherError ↔ r = Res.otherError) ∧
          ∀ j : Nat, j < i → ∀ r' : Res, (y :: xs)[j]? = some (some r') → r'.isValue = true := by
      intro y hy v hh hcons
      have hx : ∀ outs, collectRow xs ≠ .cols outs := by
        intro outs hc
        exact hh (v :: outs) (by rw [hcons, hc]; rfl)
      obtain ⟨i, r, h1, h2, h3, h4, h5⟩ := ih hx
      refine ⟨i + 1, r, by simpa using h1, h2, ?_, ?_, ?_⟩
      · rw [hcons, step hx]; exact h3
      · rw [hcons, step hx]; exact h4
      · intro j hj r' hr'
        cases j with
        | zero =>
          simp only [List.getElem?_cons_zero, Option.some.injEq] at hr'
          exact hy r' hr'
        | succ j => exact h5 j (by omega) r' (by simpa using hr')
    match x, h with
    | none, h => exact lift none (fun r' hr => by cases hr) none h rfl
    | some (.value b rb), h =>
      exact lift (some (.value b rb)) (fun r' hr => by cases hr; rfl) (some (b, rb)) h rfl
    | some .encodingError, _ =>
      exact ⟨0, .encodingError, rfl, rfl, by simp [collectRow], by simp [collectRow], fun j hj => by omega⟩
    | some .otherError, _ =>
      exact ⟨0, .otherError, rfl, rfl, by simp [collectRow], by simp [collectRow], fun j hj => by omega⟩

/-! ### MySQL -/

/-- the per-column outcomes of a MySQL row when every column starts from the context `cur` -/
def myColsFrom (binary : Bool) (cur : Ctx) : List (RowColumn × Option Bytes) → List (Option Res)
  | [] => []
  | (c, v) :: rest => v.map (fun wire => (myColumnChain cur c binary wire).2) :: myColsFrom binary cur rest

theorem myColsFrom_getElem? (binary : Bool) (cur : Ctx) (cols : List (RowColumn × Option Bytes)) (i : Nat) :
    (myColsFrom binary cur cols)[i]? =
      (cols[i]?).map fun cv => cv.2.map fun wire => (myColumnChain cur cv.1 binary wire).2 := by
  induction cols generalizing i with
  | nil => simp [myColsFrom]
  | cons x xs ih =>
    obtain ⟨c, v⟩ := x
    cases i with
    | zero => simp [myColsFrom]
    | succ i => simpa [myColsFrom] using ih i

/-- **the MySQL row loop without a carried context is a map over the columns**: every column is processed from the
same context `cur` (the row context), the first failing column ends the row -/
theorem myRowLoop_uncarried (binary : Bool) (cur : Ctx) (cols : List (RowColumn × Option Bytes)) :
    myRowLoop false binary cur cols = collectRow (myColsFrom binary cur cols) := by
  induction cols with
  | nil => rfl
  | cons x xs ih =>
    obtain ⟨c, v⟩ := x
    cases v with
    | none => simp only [myRowLoop, myColsFrom, Option.map_none, collectRow, ih]
    | some wire =>
      simp only [myRowLoop, myColsFrom, Option.map_some]
      cases hc : myColumnChain cur c binary wire with
      | mk ret res =>
        cases res with
        | value b rb => simp only [collectRow, Bool.false_eq_true, if_false, ih]
        | encodingError => simp only [collectRow]
        | otherError => simp only [collectRow]

/-- a column that has a setting, processed from the fresh context, is the single-column read path `myTypedRead` -/
theorem myColumnChain_fresh (c : RowColumn) (s : Setting) (d64 : Default64) (binary : Bool) (wire : Bytes)
    (hs : c.setting = some (s, d64)) :
    (myColumnChain Ctx.fresh c binary wire).2 = myTypedRead s binary c.colType c.originType d64 c.reveal wire := by
  unfold myColumnChain myTypedRead
  simp only [hs, Ctx.fresh, Option.getD_some]
  cases hr : c.reveal (myDecode binary c.colType c.originType wire) with
  | none =>
    simp only
    cases he : myEncode s binary false c.colType c.originType d64 (myDecode binary c.colType c.originType wire) with
    | value b rb => cases rb <;> simp
    | encodingError => rfl
    | otherError => rfl
  | some m =>
    simp only
    cases he : myEncode s binary true c.colType c.originType d64 m with
    | value b rb => cases rb <;> simp
    | encodingError => rfl
    | otherError => rfl

/-! ### PostgreSQL: format codes -/

theorem formatCode_eq (b : Bool) : (formatCode b = Generated.Typed.pgDataFormatBinary) = (b = true) := by
  cases b <;> simp [formatCode, Generated.Typed.baseBinaryFormat, Generated.Typed.baseTextFormat,
    Generated.Typed.pgDataFormatBinary]

/-- valid format codes: text (0) or binary (1) -/
def ValidCodes (rf : List Nat) : Prop := ∀ c ∈ rf, c = 0 ∨ c = 1

/-- `GetParameterFormatByIndex` on valid codes follows PostgreSQL's rule -/
theorem formatByIndex_rule (rf : List Nat) (hv : ValidCodes rf) (i : Nat) :
    Pg.formatByIndex i rf =
      match pgResultFormat rf i with
      | some c => .ok (c == 1)
      | none => .err := by
  have code : ∀ c, (c = 0 ∨ c = 1) →
      (if c = Generated.Wire.pgBindFormatText then Out.ok false
       else if c = Generated.Wire.pgBindFormatBinary then Out.ok true else Out.err) = Out.ok (c == 1) := by
    intro c hc
    rcases hc with rfl | rfl <;> simp [Generated.Wire.pgBindFormatText, Generated.Wire.pgBindFormatBinary]
  match rf, hv with
  | [], _ => rfl
  | [c], hv =>
    simp only [Pg.formatByIndex, pgResultFormat, List.length_singleton, if_true, List.head?_cons]
    exact code c (hv c List.mem_cons_self)
  | a :: b :: r, hv =>
    simp only [Pg.formatByIndex, pgResultFormat, List.length_cons]
    rw [if_neg (by omega)]
    cases hi : (a :: b :: r)[i]? with
    | none => rfl
    | some c => exact code c (hv c (List.mem_of_getElem? hi))

theorem pgResultFormat_lt (rf : List Nat) (i : Nat) (hi : i < rf.length) : pgResultFormat rf i = rf[i]? := by
  match rf, hi with
  | [c], hi =>
    have : i = 0 := by simpa using hi
    subst this
    rfl
  | a :: b :: r, _ => rfl

theorem resolveFormats_valid (rf : List Nat) (hv : ValidCodes rf) (n i : Nat) (h : n + i = rf.length) :
    resolveFormats rf n i = .ok (rf.drop i) := by
  induction n generalizing i with
  | zero =>
    have : rf.drop i = [] := List.drop_eq_nil_of_le (by omega)
    rw [this]; rfl
  | succ n ih =>
    have hi : i < rf.length := by omega
    have hc : rf[i]? = some rf[i] := List.getElem?_eq_getElem hi
    have hcv := hv rf[i] (List.getElem_mem hi)
    unfold resolveFormats
    rw [formatByIndex_rule rf hv i, pgResultFormat_lt rf i hi, hc]
    simp only
    rw [ih (i + 1) (by omega)]
    have hd : rf.drop i = rf[i] :: rf.drop (i + 1) := (List.drop_eq_getElem_cons hi)
    rw [hd]
    rcases hcv with h0 | h1
    · rw [h0]; rfl
    · rw [h1]; rfl

/-- `GetResultFormats` on valid codes gives back the declared codes -/
theorem getResultFormats_valid (rf : List Nat) (hv : ValidCodes rf) : getResultFormats rf = .ok rf := by
  unfold getResultFormats
  rw [resolveFormats_valid rf hv rf.length 0 (by omega)]
  rfl

/-- **the format the proxy uses for column `i` is the format PostgreSQL assigns to column `i`** – for every list of
valid result-format codes and EVERY column index: no code → text, one code → that code for all columns, one code per
column → the column's own code; a column without a code is an error (PostgreSQL rejects such a Bind). Depends on the
regenerated shape of the lookup (`GetParameterFormatByIndex(i, bindPacket.resultFormats)`, no index guard). -/
theorem columnFormat_rule (rf : List Nat) (hv : ValidCodes rf) (i : Nat) :
    columnFormat (some rf) i =
      match pgResultFormat rf i with
      | some c => .ok (c == 1)
      | none => .err := by
  simp only [columnFormat, getResultFormats_valid rf hv]
  unfold columnFormatOf
  have h1 : Generated.Typed.pgRowFormatSlice = 0 := rfl
  have h2 : Generated.Typed.pgRowFormatIndexGuard = false := rfl
  have h3 : Generated.Typed.pgRowFormatOp = 0 := rfl
  simp only [h1, h2, h3, if_true, Bool.false_eq_true, false_and, if_false]
  rw [formatByIndex_rule rf hv i]
  cases pgResultFormat rf i with
  | none => rfl
  | some c =>
    simp only [formatCode_eq]
    cases hc : (c == 1) <;> simp

/-- a simple query (no Bind packet): every column is text -/
theorem columnFormat_simple (i : Nat) : columnFormat none i = .ok false := by
  simp [columnFormat, Generated.Typed.pgRowFormatDefault, Generated.Typed.pgDataFormatBinary]

/-! ### PostgreSQL: the row loop -/

/-- the outcome of column `i` alone: its result format, then the subscriber chain from `cur` -/
def pgColRes (rf : Option (List Nat)) (cur : Ctx) (i : Nat) (c : RowColumn) (wire : Bytes) : Res :=
  match columnFormat rf i with
  | .ok binary => (pgColumnChain cur c binary wire).2
  | _ => .otherError

def pgColsFrom (rf : Option (List Nat)) (cur : Ctx) : Nat → List (RowColumn × Option Bytes) → List (Option Res)
  | _, [] => []
  | i, (c, v) :: rest => v.map (pgColRes rf cur i c) :: pgColsFrom rf cur (i + 1) rest

theorem pgColsFrom_getElem? (rf : Option (List Nat)) (cur : Ctx) (i : Nat) (cols : List (RowColumn × Option Bytes))
    (k : Nat) :
    (pgColsFrom rf cur i cols)[k]? = (cols[k]?).map fun cv => cv.2.map (pgColRes rf cur (i + k) cv.1) := by
  induction cols generalizing i k with
  | nil => simp [pgColsFrom]
  | cons x xs ih =>
    obtain ⟨c, v⟩ := x
    cases k with
    | zero => simp [pgColsFrom]
    | succ k =>
      simp only [pgColsFrom, List.getElem?_cons_succ]
      rw [ih (i + 1) k]
      have : i + 1 + k = i + (k + 1) := by omega
      rw [this]

/-- **the PostgreSQL row loop without a carried context is a map over the columns** -/
theorem pgRowLoop_uncarried (rf : Option (List Nat)) (cur : Ctx) (i : Nat) (cols : List (RowColumn × Option Bytes)) :
    pgRowLoop false rf cur i cols = collectRow (pgColsFrom rf cur i cols) := by
  induction cols generalizing i with
  | nil => rfl
  | cons x xs ih =>
    obtain ⟨c, v⟩ := x
    cases v with
    | none => simp only [pgRowLoop, pgColsFrom, Option.map_none, collectRow, ih]
    | some wire =>
      simp only [pgRowLoop, pgColsFrom, Option.map_some, pgColRes]
      cases hf : columnFormat rf i with
      | ok binary =>
        simp only
        cases hc : pgColumnChain cur c binary wire with
        | mk ret res =>
          cases res with
          | value b rb => simp only [collectRow, Bool.false_eq_true, if_false, ih]
          | encodingError => simp only [collectRow]
          | otherError => simp only [collectRow]
      | err => simp only [collectRow]
      | panic => simp only [collectRow]

/-- a column that has a setting, processed from the fresh context, is the single-column read path `pgTypedRead` -/
theorem pgColumnChain_fresh (c : RowColumn) (s : Setting) (d64 : Default64) (binary : Bool) (wire : Bytes)
    (hs : c.setting = some (s, d64)) :
    (pgColumnChain Ctx.fresh c binary wire).2 = pgTypedRead s binary d64 c.reveal wire := by
  unfold pgColumnChain pgTypedRead
  simp only [hs, Ctx.fresh, Option.getD_some]
  cases hd : pgDecode s binary wire with
  | none => rfl
  | some x =>
    simp only
    cases hsv : pgSavesEncoded s binary wire <;> cases hr : c.reveal x <;> simp

/-! ### columns without a setting: the decoder → encoder subscribers relay the value -/

theorem decodeEscaped_cases (d : Bytes) :
    (∃ x, Bytea.decodeEscaped d = .ok x) ∨ Bytea.decodeEscaped d = .error .octal ∨
      Bytea.decodeEscaped d = .error .hex := by
  cases h : Bytea.decodeEscaped d with
  | ok x => exact Or.inl ⟨x, rfl⟩
  | error e => cases e <;> simp

theorem pgChainNoSetting_identity (binary : Bool) (d : Bytes) :
    pgChainNoSetting binary d = .ok d ∨
      (Bytea.decodeEscaped d = .error .hex ∧ pgChainNoSetting binary d = .err) := by
  unfold pgChainNoSetting pgColumnChain plainColumn
  simp only [Ctx.fresh, Option.getD_none, emptySetting, pgDecode, pgDecodeText, pgSavesEncoded, if_true]
  rcases decodeEscaped_cases d with ⟨x, hd⟩ | hd | hd
  · left
    simp [hd, pgEncode, Except.toOption]
  · left
    simp [hd, pgEncode, Except.toOption]
  · right
    simp [hd]


theorem formatInt_ne_nil (n : Int) : formatInt n ≠ [] := by
  unfold formatInt
  split
  · simp
  · exact natDigits_ne_nil _

/-- fixed-width integer column types of the MySQL binary protocol and their widths
(TINY 1, SHORT 2, YEAR 13, INT24 9, LONG 3, LONGLONG 8) -/
def intWidth (t : Nat) : Option Nat :=
  if t = 1 then some 1
  else if t = 2 ∨ t = 13 then some 2
  else if t = 9 ∨ t = 3 then some 4
  else if t = 8 then some 8
  else none

theorem intWidth_cases (t k : Nat) (h : intWidth t = some k) :
    (t = 1 ∧ k = 1) ∨ (t = 2 ∧ k = 2) ∨ (t = 13 ∧ k = 2) ∨ (t = 9 ∧ k = 4) ∨ (t = 3 ∧ k = 4) ∨ (t = 8 ∧ k = 8) := by
  unfold intWidth at h
  by_cases h1 : t = 1
  · rw [if_pos h1] at h; cases h; omega
  · rw [if_neg h1] at h
    by_cases h2 : t = 2 ∨ t = 13
    · rw [if_pos h2] at h; cases h; omega
    · rw [if_neg h2] at h
      by_cases h3 : t = 9 ∨ t = 3
      · rw [if_pos h3] at h; cases h; omega
      · rw [if_neg h3] at h
        by_cases h4 : t = 8
        · rw [if_pos h4] at h; cases h; omega
        · rw [if_neg h4] at h; cases h

theorem myChainNoSetting_int (t k : Nat) (v : Bytes) (ht : intWidth t = some k) (hv : v.length = k) :
    myChainNoSetting true t v = .ok v := by
  have hk1 : 1 ≤ k := by rcases intWidth_cases t k ht with h | h | h | h | h | h <;> omega
  have hne : formatInt (leToInt v) ≠ [] := formatInt_ne_nil _
  have hemp : (formatInt (leToInt v)).isEmpty = false := by
    cases h : formatInt (leToInt v) with
    | nil => exact absurd h hne
    | cons _ _ => rfl
  have hr := leToInt_inRange v (by omega)
  rw [hv] at hr
  have hp : parseInt (formatInt (leToInt v)) (8 * k) = some (leToInt v) := parseInt_formatInt (8 * k) _ (by omega) hr
  have hle : intToLE k (leToInt v) = v := by
    have := intToLE_leToInt v (by omega)
    rwa [hv] at this
  have htake : v.take k = v := List.take_of_length_le (by omega)
  unfold myChainNoSetting myColumnChain plainColumn
  rcases intWidth_cases t k ht with ⟨rfl, rfl⟩ | ⟨rfl, rfl⟩ | ⟨rfl, rfl⟩ | ⟨rfl, rfl⟩ | ⟨rfl, rfl⟩ | ⟨rfl, rfl⟩ <;>
    simp [Ctx.fresh, emptySetting, myDecode, myEncode, myEncodeBinaryAs, Generated.Typed.myTypeTiny,
      Generated.Typed.myTypeShort, Generated.Typed.myTypeYear, Generated.Typed.myTypeInt24, Generated.Typed.myTypeLong,
      Generated.Typed.myTypeLongLong, Generated.Typed.myTypeNull, hv, htake, hemp, hp, hle]


theorem myChainNoSetting_text (t : Nat) (v : Bytes) : myChainNoSetting false t v = .ok (lenenc v) := by
  unfold myChainNoSetting myColumnChain plainColumn
  simp only [Ctx.fresh, Option.getD_none, emptySetting, myDecode, myEncode]
  cases v <;> simp

theorem myChainNoSetting_blob (t : Nat) (v : Bytes) (hb : blobLike t) : myChainNoSetting true t v = .ok (lenenc v) := by
  obtain ⟨h0, h1, h2, h3, h4, h5, h6, h8, h9, h13⟩ := hb
  unfold myChainNoSetting myColumnChain plainColumn
  cases v with
  | nil =>
    simp [Ctx.fresh, emptySetting, myDecode, myEncode, Generated.Typed.myTypeTiny, Generated.Typed.myTypeShort,
      Generated.Typed.myTypeYear, Generated.Typed.myTypeInt24, Generated.Typed.myTypeLong, Generated.Typed.myTypeLongLong,
      h1, h2, h3, h8, h9, h13]
  | cons a r =>
    simp [Ctx.fresh, emptySetting, myDecode, myEncode, myEncodeBinaryAs, Generated.Typed.myTypeTiny,
      Generated.Typed.myTypeShort, Generated.Typed.myTypeYear, Generated.Typed.myTypeInt24, Generated.Typed.myTypeLong,
      Generated.Typed.myTypeLongLong, Generated.Typed.myTypeNull, h1, h2, h3, h6, h8, h9, h13]

end AcraModel.Typed
