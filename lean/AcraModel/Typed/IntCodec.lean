import AcraModel.Basic.Bytes
/-
Integer codecs of the type-aware read path: Go's `strconv.ParseInt(s, 10, bits)` /
`strconv.FormatInt(n, 10)` and the fixed-width two's-complement forms (PostgreSQL big-endian,
MySQL little-endian) used by `decryptor/{postgresql,mysql}/types` and the data encoders.
-/
namespace AcraModel.Typed
open AcraModel

/-- value of a non-empty string of ASCII digits (`none` on any other byte) -/
def digitsVal : Bytes → Option Nat
  | [] => some 0
  | ds => ds.foldl (fun acc c => acc.bind fun a =>
      if 48 ≤ c.toNat ∧ c.toNat ≤ 57 then some (a * 10 + (c.toNat - 48)) else none) (some 0)

/-- `strconv.ParseInt(s, 10, bits)`: optional sign, at least one digit, nothing else (no `_` in base 10),
and the value must fit into `bits` bits – a range error is an error, never a wrapped value. -/
def parseInt (s : Bytes) (bits : Nat) : Option Int :=
  let (neg, ds) : Bool × Bytes :=
    match s with
    | c :: r => if c.toNat = 43 then (false, r) else if c.toNat = 45 then (true, r) else (false, s)
    | [] => (false, [])
  if ds.isEmpty then none else
  match digitsVal ds with
  | none => none
  | some u =>
    let cutoff := 2 ^ (bits - 1)
    if !neg ∧ u ≥ cutoff then none
    else if neg ∧ u > cutoff then none
    else some (if neg then -(u : Int) else (u : Int))

def digitChar (d : Nat) : UInt8 := UInt8.ofNat (48 + d % 10)

/-- decimal digits of `n`, least significant first (`fuel > number of digits`) -/
def digitsRev : Nat → Nat → Bytes
  | 0, _ => []
  | fuel+1, n => if n < 10 then [digitChar n] else digitChar (n % 10) :: digitsRev fuel (n / 10)

def natDigits (n : Nat) : Bytes := (digitsRev (n + 1) n).reverse

/-- `strconv.FormatInt(n, 10)` -/
def formatInt (n : Int) : Bytes :=
  if n < 0 then 45 :: natDigits n.natAbs else natDigits n.natAbs

/-- two's-complement bit pattern of `n` on `k` bytes -/
def twos (k : Nat) (n : Int) : Nat := (n % ((2 ^ (8 * k) : Nat) : Int)).toNat

/-- signed reading of a `k`-byte pattern -/
def signed (k : Nat) (u : Nat) : Int :=
  if u < 2 ^ (8 * k - 1) then (u : Int) else (u : Int) - ((2 ^ (8 * k) : Nat) : Int)

/-- PostgreSQL binary integer (`binary.BigEndian.PutUintNN(uintNN(value))`) -/
def intToBE (k : Nat) (n : Int) : Bytes := beBytes k (twos k n)
def beToInt (b : Bytes) : Int := signed b.length (beVal b)

/-- MySQL binary integer (little-endian) -/
def intToLE (k : Nat) (n : Int) : Bytes := leBytes k (twos k n)
def leToInt (b : Bytes) : Int := signed b.length (leVal b)

def inRange (bits : Nat) (n : Int) : Prop := -((2 ^ (bits - 1) : Nat) : Int) ≤ n ∧ n < ((2 ^ (bits - 1) : Nat) : Int)

instance (bits : Nat) (n : Int) : Decidable (inRange bits n) := by unfold inRange; infer_instance

end AcraModel.Typed
