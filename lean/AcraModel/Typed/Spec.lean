import AcraModel.Typed.Describe
import AcraModel.Typed.IntCodecLemmas
/-
Specification side of C19: what "a value of the declared type in the requested format" is,
independently of Acra's encoders, plus the validity predicate of a column setting.
-/
namespace AcraModel.Typed
open AcraModel AcraModel.Wire

/-- PostgreSQL wire form of the value whose text (plaintext) form is `v`, for declared type `t`;
`none`: `v` is not a value of that type -/
def pgSpecEncode (t : DataType) (binary : Bool) (v : Bytes) : Option Bytes :=
  match t with
  | .int32 => (parseInt v 32).map fun n => if binary then intToBE 4 n else v
  | .int64 => (parseInt v 64).map fun n => if binary then intToBE 8 n else v
  | .str => some v
  | .bytes => some (if binary then v else Bytea.pgEncodeToHex v)

/-- a PostgreSQL field decodes as a value of type `t` in the given format -/
def pgDecodesAs (t : DataType) (binary : Bool) (out : Bytes) : Prop :=
  match t with
  | .int32 => if binary then out.length = 4 else (parseInt out 32).isSome
  | .int64 => if binary then out.length = 8 else (parseInt out 64).isSome
  | .str => True
  | .bytes => if binary then True else ∃ b, Bytea.decodeEscaped out = .ok b

/-- MySQL wire form (text protocol: length-encoded text; binary protocol: little-endian integers,
length-encoded strings) -/
def mySpecEncode (t : DataType) (binary : Bool) (v : Bytes) : Option Bytes :=
  match t with
  | .int32 => (parseInt v 32).map fun n => if binary then intToLE 4 n else lenenc v
  | .int64 => (parseInt v 64).map fun n => if binary then intToLE 8 n else lenenc v
  | .str => some (lenenc v)
  | .bytes => some (lenenc v)

/-- a MySQL field decodes as a value of the column type code `code` -/
def myDecodesAs (code : Nat) (binary : Bool) (out : Bytes) : Prop :=
  if code = Generated.Typed.myTypeLong then
    (if binary then out.length = 4 else ∃ v, out = lenenc v ∧ (parseInt v 32).isSome)
  else if code = Generated.Typed.myTypeLongLong then
    (if binary then out.length = 8 else ∃ v, out = lenenc v ∧ (parseInt v 64).isSome)
  else ∃ v, out = lenenc v

/-- the default value of a setting is usable under its type (what `Init` guarantees) -/
def validDefault (s : Setting) (d64 : Default64) : Prop :=
  match s.default, s.dataType with
  | none, _ => True
  | some d, some .int32 => (parseInt d 32).isSome
  | some d, some .int64 => (parseInt d 64).isSome
  | some _, some .str => True
  | some _, some .bytes => d64.decoded.isSome
  | some _, none => False

/-- the text form of a setting's default as a plaintext of the declared type -/
def defaultPlain (s : Setting) (d64 : Default64) : Option Bytes :=
  match s.dataType, s.default with
  | some .bytes, some _ => d64.decoded
  | _, d => d

/-- PostgreSQL: how the stored value `x` (after the decoder) is handed over when it is neither
revealed nor replaced: as bytea text for `bytes` columns in text format, as it is otherwise -/
def pgCipherForm (t : DataType) (binary : Bool) (x : Bytes) : Bytes :=
  match t with
  | .bytes => if binary then x else Bytea.pgEncodeToHex x
  | _ => x

/-- column codes whose values travel length-encoded and are passed through by the decoder
(what an encrypted column is stored as: BLOB, VARBINARY, …) -/
def blobLike (o : Nat) : Prop := o ≠ 0 ∧ o ≠ 1 ∧ o ≠ 2 ∧ o ≠ 3 ∧ o ≠ 4 ∧ o ≠ 5 ∧ o ≠ 6 ∧ o ≠ 8 ∧ o ≠ 9 ∧ o ≠ 13

end AcraModel.Typed
