import AcraModel.Typed.Policy
import AcraModel.Wire.PgRow
/-
Whole result rows through the type-aware read path: the COLUMN LOOPS with the context explicit.

  decryptor/postgresql/pg_decryptor.go  handleQueryDataPacket (the loop over `packet.Columns`: the result format of
                                         column i, `onColumnDecryption`), onColumnDecryption (a new context per column,
                                         the context the subscribers return is dropped)
  decryptor/mysql/response_proxy.go      processTextDataRow / processBinaryDataRow (the loop over `fields`,
                                         `onColumnDecryption` with the ROW context, the returned context bound to a
                                         per-column variable), onColumnDecryption
  decryptor/base/decryptionNotification.go  ColumnDecryptionObserver.OnColumnDecryption (the context is threaded through
                                         the subscribers), the marks `decrypted` and `errorConvertedDataType`
  decryptor/postgresql/utils.go          GetParameterFormatByIndex / BindPacket.GetResultFormats (PostgreSQL's rule for
                                         format codes) – `Wire.Pg.formatByIndex`

What a `context.Context` carries that the read path looks at is the record `Ctx`. Which context the next column starts
from, and which expression yields the result format of a column, are REGENERATED from the source
(`Generated.Typed.{myTextRowCtxCarried, myBinaryRowCtxCarried, pgRowCtxCarried, pgRowFormatOp, pgRowFormatSlice,
pgRowFormatIndexGuard}`) and interpreted here.
-/
namespace AcraModel.Typed
open AcraModel AcraModel.Wire

/-- the values of a `context.Context` the decoder / decrypt / encoder subscribers read or write -/
structure Ctx where
  decrypted : Bool                              -- base.MarkDecryptedContext
  convErr : Bool                                -- base.MarkErrorConvertedDataTypeContext
  setting : Option (Setting × Default64)        -- encryptor.NewContextWithEncryptionSetting
  saved : Option Bytes                          -- base.EncodedValueContext (PostgreSQL decoder)
deriving Repr, DecidableEq

/-- the context a row handler is called with: no marks, no setting -/
def Ctx.fresh : Ctx := ⟨false, false, none, none⟩

/-- `&config.BasicColumnEncryptionSetting{}`: what the processors use when the context holds no setting -/
def emptySetting : Setting := ⟨none, .ciphertext, none, true⟩

/-- one column as the proxy sees it: the setting matched for it (if any), how the subscribers between decoder and
encoder treat its value (`reveal`: keys, stored envelope), and – MySQL – the column types of its description -/
structure RowColumn where
  setting : Option (Setting × Default64)
  reveal : Bytes → Option Bytes
  colType : Nat := 0
  originType : Nat := 0

/-- the outcome for a whole row: delivered column values (`none` = NULL, flag = MySQL type roll-back of that column)
or the error that ends the statement / the row -/
inductive RowRes where
  | cols (l : List (Option (Bytes × Bool)))
  | encodingError
  | otherError
deriving Repr, DecidableEq

def RowRes.cons (v : Option (Bytes × Bool)) : RowRes → RowRes
  | .cols l => .cols (v :: l)
  | e => e

/-! ### MySQL -/

/-- the subscriber chain of the MySQL proxy on one column, started from `parent`:
query-encryptor subscriber (puts the column's setting into the context when it has one), decoder, the subscribers
that may reveal the value (they mark the context `decrypted`), encoder (reads the setting and `decrypted`, marks
`errorConvertedDataType`). Returns the context the chain ends with and the outcome. -/
def myColumnChain (parent : Ctx) (c : RowColumn) (binary : Bool) (wire : Bytes) : Ctx × Res :=
  let ctx1 : Ctx := match c.setting with
    | some s => { parent with setting := some s }
    | none => parent
  let sd := ctx1.setting.getD (emptySetting, ⟨none⟩)
  let x := myDecode binary c.colType c.originType wire
  let (ctx2, data) : Ctx × Bytes := match c.reveal x with
    | some m => ({ ctx1 with decrypted := true }, m)
    | none => (ctx1, x)
  match myEncode sd.1 binary ctx2.decrypted c.colType c.originType sd.2 data with
  | .value b rb =>
    let ctx3 : Ctx := if rb then { ctx2 with convErr := true } else ctx2
    -- the row loop reads the roll-back mark from the RETURNED context
    (ctx3, .value b ctx3.convErr)
  | e => (ctx2, e)

/-- the column loop of `processTextDataRow` / `processBinaryDataRow`: `rowCtx` is the `ctx` parameter of the function,
`cur` the context the next `onColumnDecryption` is called with. `carried = true` would be
`ctx, value, err = handler.onColumnDecryption(ctx, …)`; the source binds the returned context to a per-column variable
(`carried = false`, regenerated). NULL values are copied without calling the subscribers. -/
def myRowLoop (carried binary : Bool) : Ctx → List (RowColumn × Option Bytes) → RowRes
  | _, [] => .cols []
  | cur, (_, none) :: rest => (myRowLoop carried binary cur rest).cons none
  | cur, (c, some wire) :: rest =>
    match myColumnChain cur c binary wire with
    | (ret, .value b rb) => (myRowLoop carried binary (if carried then ret else cur) rest).cons (some (b, rb))
    | (_, .encodingError) => .encodingError
    | (_, .otherError) => .otherError

/-- `processTextDataRow` on the columns of a row -/
def myTextRow (rowCtx : Ctx) (cols : List (RowColumn × Option Bytes)) : RowRes :=
  myRowLoop Generated.Typed.myTextRowCtxCarried false rowCtx cols

/-- `processBinaryDataRow` on the columns of a row -/
def myBinaryRow (rowCtx : Ctx) (cols : List (RowColumn × Option Bytes)) : RowRes :=
  myRowLoop Generated.Typed.myBinaryRowCtxCarried true rowCtx cols

/-! ### PostgreSQL -/

/-- PostgreSQL's rule for the format codes of a Bind message (protocol documentation, "Bind"): no code – every column
is text; one code – it applies to every column; otherwise one code per column. `none`: no code for that column. -/
def pgResultFormat (codes : List Nat) (i : Nat) : Option Nat :=
  match codes with
  | [] => some 0
  | [c] => some c
  | _ => codes[i]?

/-- `int(base.TextFormat)` / `int(base.BinaryFormat)`: what `GetParameterFormatByIndex` returns, as a number -/
def formatCode (binary : Bool) : Nat :=
  if binary then Generated.Typed.baseBinaryFormat else Generated.Typed.baseTextFormat

/-- `BindPacket.GetResultFormats`: `values[i] = uint16(GetParameterFormatByIndex(i, p.resultFormats))` for every
DECLARED code (the result has the length of the declared list); the first unknown code is an error -/
def resolveFormats (rf : List Nat) : Nat → Nat → Out (List Nat)
  | 0, _ => .ok []
  | n+1, i =>
    match Pg.formatByIndex i rf with
    | .ok b =>
      (match resolveFormats rf n (i + 1) with
       | .ok r => .ok (formatCode b :: r)
       | e => e)
    | .err => .err
    | .panic => .panic

def getResultFormats (rf : List Nat) : Out (List Nat) := resolveFormats rf rf.length 0

/-- the expression `handleQueryDataPacket` evaluates for the result format of column `i` given the Bind packet's
declared codes `rf` and the slice `resolved` computed in front of the loop (`true` = binary). The expression is the
regenerated one: `pgRowFormatOp` 0 = `GetParameterFormatByIndex(i, S)`, 1 = `S[i]`; `pgRowFormatSlice` 0 =
`bindPacket.resultFormats`, 1 = the resolved `columnFormats`; `pgRowFormatIndexGuard` = the assignment is guarded by
`i < len(S)` (otherwise the default, `pgRowFormatDefault`, stays). The value is compared with `dataFormatBinary`. -/
def columnFormatOf (rf resolved : List Nat) (i : Nat) : Out Bool :=
  let slice := if Generated.Typed.pgRowFormatSlice = 0 then rf else resolved
  if Generated.Typed.pgRowFormatIndexGuard ∧ ¬ i < slice.length then
    .ok (Generated.Typed.pgRowFormatDefault = Generated.Typed.pgDataFormatBinary)
  else if Generated.Typed.pgRowFormatOp = 0 then
    match Pg.formatByIndex i slice with
    | .ok b => .ok (formatCode b = Generated.Typed.pgDataFormatBinary)
    | .err => .err
    | .panic => .panic
  else match slice[i]? with
    | some f => .ok (f = Generated.Typed.pgDataFormatBinary)
    | none => .panic

/-- the result format of column `i` in `handleQueryDataPacket`: `none` = simple query (no Bind packet: the default) -/
def columnFormat (rf : Option (List Nat)) (i : Nat) : Out Bool :=
  match rf with
  | none => .ok (Generated.Typed.pgRowFormatDefault = Generated.Typed.pgDataFormatBinary)
  | some rf =>
    match getResultFormats rf with
    | .ok resolved => columnFormatOf rf resolved i
    | .err => .err
    | .panic => .panic

/-- the subscriber chain of the PostgreSQL proxy on one column started from `parent`: `onColumnDecryption` puts the
column's setting into the context, then decoder (may save the encoded form), revealing subscribers, encoder -/
def pgColumnChain (parent : Ctx) (c : RowColumn) (binary : Bool) (wire : Bytes) : Ctx × Res :=
  let ctx1 : Ctx := match c.setting with
    | some s => { parent with setting := some s }
    | none => parent
  let sd := ctx1.setting.getD (emptySetting, ⟨none⟩)
  match pgDecode sd.1 binary wire with
  | none => (ctx1, .otherError)
  | some x =>
    let ctx2 : Ctx := if pgSavesEncoded sd.1 binary wire then { ctx1 with saved := some wire } else ctx1
    let (ctx3, data) : Ctx × Bytes := match c.reveal x with
      | some m => ({ ctx2 with decrypted := true }, m)
      | none => (ctx2, x)
    (ctx3, pgEncode sd.1 binary ctx3.decrypted ctx3.saved sd.2 data)

/-- the column loop of `handleQueryDataPacket` (after `parseColumns`): per non-NULL column the result format, then
`onColumnDecryption`. `carried` as for MySQL (the source drops the returned context: `false`, regenerated). -/
def pgRowLoop (carried : Bool) (rf : Option (List Nat)) : Ctx → Nat → List (RowColumn × Option Bytes) → RowRes
  | _, _, [] => .cols []
  | cur, i, (_, none) :: rest => (pgRowLoop carried rf cur (i + 1) rest).cons none
  | cur, i, (c, some wire) :: rest =>
    match columnFormat rf i with
    | .ok binary =>
      (match pgColumnChain cur c binary wire with
       | (ret, .value b rb) => (pgRowLoop carried rf (if carried then ret else cur) (i + 1) rest).cons (some (b, rb))
       | (_, .encodingError) => .encodingError
       | (_, .otherError) => .otherError)
    | _ => .otherError

/-- `parseColumns(columnFormats)` looks up the format of EVERY column (NULL or not) in the resolved slice and rejects
the row when there is none (two or more codes, fewer than columns) -/
def formatsCover (resolved : List Nat) (n : Nat) : Bool :=
  (List.range n).all fun i => match Pg.formatByIndex i resolved with | .ok _ => true | _ => false

/-- the DataRow part of `handleQueryDataPacket` on the columns of a row; `rf` = result format codes of the Bind
packet (`none`: simple query) -/
def pgRow (rf : Option (List Nat)) (rowCtx : Ctx) (cols : List (RowColumn × Option Bytes)) : RowRes :=
  match rf with
  | some codes =>
    -- `columnFormats, err = bindPacket.GetResultFormats()` / `parseColumns` fail the row before any column is processed
    (match getResultFormats codes with
     | .ok resolved =>
       if formatsCover resolved cols.length then pgRowLoop Generated.Typed.pgRowCtxCarried rf rowCtx 0 cols
       else .otherError
     | _ => .otherError)
  | none => pgRowLoop Generated.Typed.pgRowCtxCarried rf rowCtx 0 cols

/-! ### columns without any setting (relay through decoder → encoder) -/

/-- a column for which no setting is matched and nothing is revealed -/
def plainColumn (colType : Nat) : RowColumn := ⟨none, fun _ => none, colType, 0⟩

/-- PostgreSQL: the decoder → encoder subscribers on a column value without a setting (`err` = the row is refused) -/
def pgChainNoSetting (binary : Bool) (d : Bytes) : Out Bytes :=
  match (pgColumnChain Ctx.fresh (plainColumn 0) binary d).2 with
  | .value w _ => .ok w
  | _ => .err

/-- MySQL: the decoder → encoder subscribers on a column value of type `colType` without a setting; the result is the
value in its wire form (what the row processors append to the output) -/
def myChainNoSetting (binary : Bool) (colType : Nat) (v : Bytes) : Out Bytes :=
  match (myColumnChain Ctx.fresh (plainColumn colType) binary v).2 with
  | .value w _ => .ok w
  | _ => .err

end AcraModel.Typed
