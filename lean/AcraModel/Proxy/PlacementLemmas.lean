import AcraModel.Proxy.Placement
/-!
Helper lemmas about `Placement.lean`: the rewrite of a statement keeps the frame (table, column list,
RETURNING, number and arity of rows), leaves every cell of an unconfigured column untouched and applies
the transformer – with the column's own setting – to exactly the cells of configured columns.
-/
namespace AcraModel.Proxy

/-- relation between a received cell and the forwarded cell of column `c` -/
def cellRel {σ} (f : Xf σ) (t : Table) (c : Name) (v v' : Cell) : Prop :=
  match t.setting c with
  | none => v' = v
  | some s => ∃ st st', f s v st = some (v', st')

/-- cell-wise relation of a row against the column list; cells beyond the column list are untouched -/
def rowRel (R : Name → Cell → Cell → Prop) : List Name → List Cell → List Cell → Prop
  | c :: cs, v :: vs, v' :: vs' => R c v v' ∧ rowRel R cs vs vs'
  | _ :: _, [], [] => True
  | [], vs, vs' => vs' = vs
  | _, _, _ => False

theorem rowRel_nil_cols (R : Name → Cell → Cell → Prop) (vs : List Cell) : rowRel R [] vs vs := by
  cases vs <;> simp [rowRel]

theorem xfRow_rel {σ} (f : Xf σ) (t : Table) (cols : List Name) (r r' : List Cell) (st st' : σ)
    (h : xfRow f t cols r st = some (r', st')) : rowRel (cellRel f t) cols r r' := by
  induction cols generalizing r r' st st' with
  | nil =>
    simp only [xfRow, Option.some.injEq, Prod.mk.injEq] at h
    obtain ⟨rfl, _⟩ := h
    exact rowRel_nil_cols _ _
  | cons c cs ih =>
    cases r with
    | nil =>
      simp only [xfRow, Option.some.injEq, Prod.mk.injEq] at h
      obtain ⟨rfl, _⟩ := h
      simp [rowRel]
    | cons v vs =>
      simp only [xfRow] at h
      cases hs : t.setting c with
      | none =>
        simp only [hs, Option.map_eq_some_iff] at h
        obtain ⟨⟨r1, st1⟩, h1, h2⟩ := h
        simp only [Option.some.injEq, Prod.mk.injEq] at h2
        obtain ⟨rfl, rfl⟩ := h2
        exact ⟨by simp [cellRel, hs], ih vs r1 st st1 h1⟩
      | some s =>
        simp only [hs] at h
        cases hf : f s v st with
        | none => simp [hf] at h
        | some x =>
          obtain ⟨v1, st1⟩ := x
          simp only [hf, Option.map_eq_some_iff] at h
          obtain ⟨⟨r1, st2⟩, h1, h2⟩ := h
          simp only [Option.some.injEq, Prod.mk.injEq] at h2
          obtain ⟨rfl, rfl⟩ := h2
          exact ⟨by simp only [cellRel, hs]; exact ⟨st, st1, hf⟩, ih vs r1 st1 st2 h1⟩

theorem rowRel_length (R : Name → Cell → Cell → Prop) (cols : List Name) (r r' : List Cell)
    (h : rowRel R cols r r') : r'.length = r.length := by
  induction cols generalizing r r' with
  | nil => cases r <;> cases r' <;> simp_all [rowRel]
  | cons c cs ih =>
    cases r <;> cases r' <;> simp_all [rowRel]
    exact ih _ _ h.2

/-- frame of one row: a row of the wrong arity is forwarded as received, otherwise cell-wise `rowRel` -/
def rowFrame {σ} (f : Xf σ) (t : Table) (cols : List Name) (r r' : List Cell) : Prop :=
  if r.length ≠ cols.length then r' = r else rowRel (cellRel f t) cols r r'

/-- row-wise relation of two VALUES lists of the same length -/
def rowsRel (R : List Cell → List Cell → Prop) : List (List Cell) → List (List Cell) → Prop
  | r :: rs, r' :: rs' => R r r' ∧ rowsRel R rs rs'
  | [], [] => True
  | _, _ => False

theorem xfRows_frame {σ} (f : Xf σ) (t : Table) (cols : List Name) (rows rows' : List (List Cell)) (st st' : σ)
    (h : xfRows f t cols rows st = some (rows', st')) : rowsRel (rowFrame f t cols) rows rows' := by
  induction rows generalizing rows' st st' with
  | nil =>
    simp only [xfRows, Option.some.injEq, Prod.mk.injEq] at h
    obtain ⟨rfl, _⟩ := h
    simp [rowsRel]
  | cons r rs ih =>
    simp only [xfRows] at h
    by_cases hl : r.length ≠ cols.length
    · simp only [hl, ne_eq, not_false_eq_true, if_true, Option.map_eq_some_iff] at h
      obtain ⟨⟨o, st1⟩, h1, h2⟩ := h
      simp only [Option.some.injEq, Prod.mk.injEq] at h2
      obtain ⟨rfl, rfl⟩ := h2
      exact ⟨by simp [rowFrame, hl], ih o st st1 h1⟩
    · simp only [hl, if_false] at h
      cases hr : xfRow f t cols r st with
      | none => simp [hr] at h
      | some x =>
        obtain ⟨r1, st1⟩ := x
        simp only [hr, Option.map_eq_some_iff] at h
        obtain ⟨⟨o, st2⟩, h1, h2⟩ := h
        simp only [Option.some.injEq, Prod.mk.injEq] at h2
        obtain ⟨rfl, rfl⟩ := h2
        exact ⟨by simp only [rowFrame, hl, if_false]; exact xfRow_rel f t cols r r1 st st1 hr, ih o st1 st2 h1⟩

/-- SET list: names kept, values related cell-wise -/
def setsRel {σ} (f : Xf σ) (t : Table) : List (Name × Cell) → List (Name × Cell) → Prop
  | (c, v) :: r, (c', v') :: r' => c' = c ∧ cellRel f t c v v' ∧ setsRel f t r r'
  | [], [] => True
  | _, _ => False

theorem xfSets_rel {σ} (f : Xf σ) (t : Table) (sets sets' : List (Name × Cell)) (st st' : σ)
    (h : xfSets f t sets st = some (sets', st')) : setsRel f t sets sets' := by
  induction sets generalizing sets' st st' with
  | nil =>
    simp only [xfSets, Option.some.injEq, Prod.mk.injEq] at h
    obtain ⟨rfl, _⟩ := h
    simp [setsRel]
  | cons x rest ih =>
    obtain ⟨c, v⟩ := x
    simp only [xfSets] at h
    cases hs : t.setting c with
    | none =>
      simp only [hs, Option.map_eq_some_iff] at h
      obtain ⟨⟨r1, st1⟩, h1, h2⟩ := h
      simp only [Option.some.injEq, Prod.mk.injEq] at h2
      obtain ⟨rfl, rfl⟩ := h2
      exact ⟨rfl, by simp [cellRel, hs], ih r1 st st1 h1⟩
    | some s =>
      simp only [hs] at h
      cases hf : f s v st with
      | none => simp [hf] at h
      | some y =>
        obtain ⟨v1, st1⟩ := y
        simp only [hf, Option.map_eq_some_iff] at h
        obtain ⟨⟨r1, st2⟩, h1, h2⟩ := h
        simp only [Option.some.injEq, Prod.mk.injEq] at h2
        obtain ⟨rfl, rfl⟩ := h2
        exact ⟨rfl, by simp only [cellRel, hs]; exact ⟨st, st1, hf⟩, ih r1 st1 st2 h1⟩

/-- a table without configured columns: rows are forwarded as received -/
theorem xfRow_unconfigured {σ} (f : Xf σ) (t : Table) (he : t.encrypted = []) (cols : List Name) (r : List Cell) (st : σ) :
    xfRow f t cols r st = some (r, st) := by
  have hset : ∀ c, t.setting c = none := by intro c; simp [Table.setting, he]
  induction cols generalizing r with
  | nil => simp [xfRow]
  | cons c cs ih =>
    cases r with
    | nil => simp [xfRow]
    | cons v vs => simp [xfRow, hset c, ih vs]

theorem xfRows_unconfigured {σ} (f : Xf σ) (t : Table) (he : t.encrypted = []) (cols : List Name) (rows : List (List Cell)) (st : σ) :
    xfRows f t cols rows st = some (rows, st) := by
  induction rows with
  | nil => simp [xfRows]
  | cons r rs ih =>
    simp only [xfRows, ih, xfRow_unconfigured f t he]
    split <;> simp

theorem xfSets_unconfigured {σ} (f : Xf σ) (t : Table) (he : t.encrypted = []) (sets : List (Name × Cell)) (st : σ) :
    xfSets f t sets st = some (sets, st) := by
  have hset : ∀ c, t.setting c = none := by intro c; simp [Table.setting, he]
  induction sets with
  | nil => simp [xfSets]
  | cons x rest ih =>
    obtain ⟨c, v⟩ := x
    simp [xfSets, hset c, ih]

/-- table a statement writes to / reads from -/
def Stmt.table : Stmt → Option Name
  | .insert i => some i.table
  | .update u => some u.table
  | .select s => some s.table
  | .other _ => none

end AcraModel.Proxy
