import AcraModel.Proxy.MySQL
import AcraModel.Proxy.PipelineLemmas
import AcraModel.Wire.LenEncProofs
import AcraModel.Typed.IntCodecLemmas
import AcraModel.Envelope.SafeCompatSame
/-!
Helper lemmas about the MySQL chains (`MySQL.lean`).
-/
namespace AcraModel.Proxy
open AcraModel AcraModel.Envelope AcraModel.Wire.LenEnc AcraModel.Wire.LenEnc.Proofs AcraModel.Typed

theorem decodeColMy_str (fmt : Fmt) (d : Bytes) : decodeColMy fmt .str d = d := by
  cases fmt <;> rfl

theorem decodeColMy_text (ty : MyType) (d : Bytes) : decodeColMy .text ty d = d := by
  cases ty <;> rfl

/-- for length-encoded column types every branch of the encoder ends in `PutLengthEncodedString` -/
theorem encodeColMy_str (s : Option ColSetting) (fmt : Fmt) (decrypted : Bool) (d : Bytes) :
    encodeColMy s fmt .str decrypted d = .ok (myLenEnc d) := by
  unfold encodeColMy
  split
  · rfl
  · cases fmt with
    | text => rfl
    | binary =>
      simp only
      split <;> (split <;> rfl)

/-- what a client reads back from a length-encoded value, whatever follows it in the row -/
theorem clientValueMy_lenenc (fmt : Fmt) (v rest : Bytes) (h : v.length < 2^64) :
    clientValueMy fmt .str (myLenEnc v ++ rest) = some v := by
  have := lenenc_str_roundtrip (some v) rest (by intro b hb; cases hb; exact h)
  cases fmt <;> simp [clientValueMy, myLenEnc, this]

theorem formatInt_ne_nil (n : Int) : formatInt n ≠ [] := by
  intro h
  by_cases hr : inRange 64 n
  · have := parseInt_formatInt 64 n (by decide) hr
    rw [h] at this
    simp [parseInt] at this
  · -- out of the 64-bit range the text is still not empty: use a wider width
    unfold formatInt at h
    split at h
    · cases h
    · unfold natDigits digitsRev at h
      split at h <;> simp at h

/-- the binary-protocol integer detour: fixed-width bytes → decimal text → the same bytes -/
theorem int_detour (k : Nat) (d : Bytes) (hk : 1 ≤ k) (hd : d.length = k) :
    decodeColMy .binary (.int k) d = formatInt (leToInt d) ∧
    encodeByTypeMy (.int k) (formatInt (leToInt d)) = .ok d := by
  constructor
  · simp [decodeColMy, hd, List.take_of_length_le (Nat.le_of_eq hd)]
  · simp only [encodeByTypeMy]
    have hr := leToInt_inRange d (by omega)
    rw [hd] at hr
    rw [parseInt_formatInt (8 * k) (leToInt d) (by omega) hr]
    have := intToLE_leToInt d (by omega)
    rw [hd] at this
    simp [this]

end AcraModel.Proxy
