import AcraModel.Proxy.Pending
/-
SqlPrepared: SQL-level prepared statements of the simple protocol – `PREPARE name AS stmt`, `EXECUTE name (args)`,
`DEALLOCATE name | ALL` – in the PostgreSQL proxy.

Code: `decryptor/postgresql/prepared_statements_sql_observer.go` (`PreparedStatementsQuery.OnQuery`, the FIRST query
observer of `proxyFactory.New`: it works on `proxy.registry`, the SAME registry the extended protocol's Parse / Bind
use), `prepared_statements.go` (`AddStatement`, `DeleteStatement`, `DeleteNamedStatements`) and the statement
resolution at the head of `PgProxy.handleQueryDataPacket`:

* `PREPARE n AS s`  – refused (error, statement forwarded unanalysed) when `n` is registered; otherwise `s`
  (deparsed) is registered under `n`, then the inner statement goes through the query encryptor;
* `EXECUTE n (…)`   – error when `n` is not registered; otherwise the arguments are bound values of the
  registered statement (`OnBind`); the registry is not changed. The pending entry is the simple query TEXT;
* `DEALLOCATE n`    – error when `n` is not registered, otherwise `DeleteStatement n`;
* `DEALLOCATE ALL`  – (after the `fix:` commit) every named statement is deleted; the unnamed one stays;
* a DataRow whose pending entry is `EXECUTE n` is processed with the settings of what the registry holds under
  `n` WHEN THE ROW ARRIVES (`proxy.registry.StatementByName`), an Execute of the extended protocol with the
  statement its queue entry captured, any other simple query with its own text. Nothing else is consulted:
  `rowResolve` is a function of (registry, queue) – the model has no memo across rows or statements.

Second half: the joint system proxy + database with SQL-level prepared statements (`sql_prepare_pairs`).
-/
namespace AcraModel.Proxy

/-- what `pg_query` makes of the (first) statement of a simple Query, as far as the proxy distinguishes -/
inductive SqlCmd (α : Type) where
  /-- any statement that is not PREPARE / EXECUTE / DEALLOCATE -/
  | plain (s : α)
  | prepare (n : Name) (s : α)
  | execute (n : Name)
  | deallocate (n : Name)
  | deallocateAll
deriving DecidableEq, Repr

namespace SqlCmd
/-- does the command change the table of prepared statements (when it succeeds) -/
def changesRegistry {α} : SqlCmd α → Bool
  | .prepare _ _ | .deallocate _ | .deallocateAll => true
  | _ => false
end SqlCmd

namespace Registry
variable {α β : Type}

/-- `DeleteStatement`: the statement and the portals bound to it -/
def deleteStatement (r : Registry α β) (n : Name) : Registry α β :=
  match r.stmt n with
  | none => r
  | some old =>
    { r with stmts := r.stmts.filter (·.1 != n),
             portals := r.portals.filter (fun (p, _) => !old.cursors.contains p) }

/-- `DeleteNamedStatements` (DEALLOCATE ALL): every statement with a non-empty name and their portals -/
def deleteNamed (r : Registry α β) : Registry α β :=
  let dead := (r.stmts.filter (·.1 != "")).flatMap (·.2.cursors)
  { r with stmts := r.stmts.filter (·.1 == ""),
           portals := r.portals.filter (fun (p, _) => !dead.contains p) }

/-- the registry as the row handler sees it: name ↦ registered statement -/
def view (r : Registry α β) (n : Name) : Option α := (r.stmt n).map (·.payload)
end Registry

/-- `PreparedStatementsQuery.OnQuery` on the registry; the flag says whether the observer succeeded (on an error
`handleQueryPacket` logs it and forwards the statement as received, without running the query encryptor) -/
def sqlObserve {α β} (r : Registry α β) : SqlCmd α → Registry α β × Bool
  | .plain _ => (r, true)
  | .prepare n s =>
    match r.stmt n with
    | some _ => (r, false)                       -- ErrStatementAlreadyInRegistry
    | none => (r.addStatement n s, true)
  | .execute n => (r, (r.stmt n).isSome)         -- ErrStatementNotPresentInRegistry
  | .deallocate n =>
    match r.stmt n with
    | none => (r, false)                         -- ErrStatementNotPresentInRegistry
    | some _ => (r.deleteStatement n, true)
  | .deallocateAll => (r.deleteNamed, true)

/-- a pending entry of the real queue: the simple query (its text, read as a command when a row arrives), or the
prepared statement and the Bind of an executed portal -/
inductive SSrc (α β : Type) where
  | sql (c : SqlCmd α)
  | extended (s : α) (b : β)
deriving DecidableEq, Repr

/-- client-side events (after AcraCensor) -/
inductive SClEv (α β : Type) where
  | query (c : SqlCmd α) (censored : Bool)
  | parse (name : Name) (s : α) (censored : Bool)
  | bind (portal stmt : Name) (b : β)
  | execute (portal : Name)
  | sync
  | other
deriving Repr

structure SState (α β : Type) where
  pending : List (Entry (SSrc α β)) := []
  reg : Registry α β := {}

/-- `PgProxy.handleClientPacket` with SQL-level prepared statements: `clStep` where a simple query first goes
through `PreparedStatementsQuery.OnQuery` (inside `handleQueryPacket`) and is then remembered as pending whether
or not the observer succeeded -/
def sclStep {α β} (st : SState α β) : SClEv α β → Option (SState α β × Bool)
  | .query c censored =>
    if censored then some (st, false)
    else some ({ pending := st.pending ++ [.query (.sql c), .sync], reg := (sqlObserve st.reg c).1 }, true)
  | .parse n s censored =>
    if censored then some (st, false) else some ({ st with reg := st.reg.addStatement n s }, true)
  | .bind p n b =>
    match st.reg.addCursor p n b with
    | none => none
    | some r => some ({ st with reg := r }, true)
  | .execute p =>
    match st.reg.portal p with
    | none => none
    | some (_, s, b) => some ({ st with pending := st.pending ++ [.query (.extended s b)] }, true)
  | .sync => some ({ st with pending := st.pending ++ [.sync] }, true)
  | .other => some (st, true)

/-- outcome of the statement resolution at the head of `handleQueryDataPacket` -/
inductive RowRes (α : Type) where
  /-- no pending statement (or a sync point): the row is forwarded unprocessed -/
  | unprocessed
  /-- `EXECUTE n` with `n` not in the registry: the handler returns the error, the connection is closed -/
  | closed
  /-- the row's columns are processed with the settings of this statement -/
  | stmt (s : α)
  /-- a statement that has no result columns of its own (PREPARE / DEALLOCATE text): no settings -/
  | noSettings
deriving DecidableEq, Repr

/-- lookup of a command against a name ↦ statement table -/
def resolveCmd {α} (f : Name → Option α) : SqlCmd α → RowRes α
  | .plain s => .stmt s
  | .execute n => match f n with | some s => .stmt s | none => .closed
  | _ => .noSettings

/-- **the statement whose settings a DataRow is processed with** – a function of the registry and the queue -/
def rowResolve {α β} (r : Registry α β) : List (Entry (SSrc α β)) → RowRes α
  | .query (.extended s _) :: _ => .stmt s
  | .query (.sql c) :: _ => resolveCmd r.view c
  | _ => .unprocessed

/-! ### the registry as a table -/

/-- effect of a command on a name ↦ statement table: what `sqlObserve` does to `Registry.view`, and what a
PostgreSQL backend does to its own table of prepared statements when the command succeeds (when it fails –
PREPARE of a name in use, DEALLOCATE of an unknown name – the table stays as it is: then `regEff` is the identity) -/
def regEff {α} (f : Name → Option α) : SqlCmd α → Name → Option α
  | .prepare n s => fun m => if m == n then (match f n with | some x => some x | none => some s) else f m
  | .deallocate n => fun m => if m == n then none else f m
  | .deallocateAll => fun m => if m == "" then f m else none
  | _ => f

namespace Registry
variable {α β : Type}

theorem find_filter_ne (l : List (Name × Prepared α)) (n m : Name) (h : (m == n) = false) :
    (l.filter (·.1 != n)).find? (·.1 == m) = l.find? (·.1 == m) := by
  induction l with
  | nil => rfl
  | cons x r ih =>
    by_cases hx : (x.1 != n) = true
    · simp only [List.filter_cons, hx, if_true, List.find?_cons]
      cases hm : (x.1 == m) <;> simp [ih]
    · have hxn : x.1 = n := by simpa using hx
      have : (x.1 == m) = false := by
        rw [hxn]
        cases hnm : (n == m) with
        | false => rfl
        | true =>
          have : n = m := by simpa using hnm
          subst this
          simp at h
      simp only [List.filter_cons, hx, List.find?_cons, this]
      exact ih

theorem find_filter_self (l : List (Name × Prepared α)) (n : Name) :
    (l.filter (·.1 != n)).find? (·.1 == n) = none := by
  induction l with
  | nil => rfl
  | cons x r ih =>
    by_cases hx : (x.1 != n) = true
    · have : (x.1 == n) = false := by simpa using hx
      simp only [List.filter_cons, hx, if_true, List.find?_cons, this]
      exact ih
    · simp only [List.filter_cons, hx]
      exact ih

theorem view_addStatement (r : Registry α β) (n : Name) (s : α) (m : Name) :
    (r.addStatement n s).view m = if m == n then some s else r.view m := by
  unfold view stmt addStatement
  cases hmn : (m == n) with
  | true =>
    have : m = n := by simpa using hmn
    subst this
    simp
  | false =>
    have hnm : (n == m) = false := by
      cases h : (n == m) with
      | false => rfl
      | true => have : n = m := by simpa using h
                subst this
                simp at hmn
    simp only [List.find?_cons, hnm, Bool.false_eq_true, if_false]
    rw [find_filter_ne _ _ _ hmn]

theorem view_deleteStatement (r : Registry α β) (n m : Name) :
    (r.deleteStatement n).view m = if m == n then none else r.view m := by
  unfold deleteStatement
  cases hs : r.stmt n with
  | none =>
    cases hmn : (m == n) with
    | false => simp
    | true =>
      have : m = n := by simpa using hmn
      subst this
      simp [view, hs]
  | some old =>
    simp only [view, stmt]
    cases hmn : (m == n) with
    | true =>
      have : m = n := by simpa using hmn
      subst this
      simp
    | false =>
      simp only [Bool.false_eq_true, if_false]
      rw [find_filter_ne _ _ _ hmn]

set_option linter.unusedSimpArgs false in
theorem find_filter_empty (l : List (Name × Prepared α)) (m : Name) :
    (l.filter (·.1 == "")).find? (·.1 == m) = if m == "" then l.find? (·.1 == m) else none := by
  induction l with
  | nil => simp
  | cons x r ih =>
    cases hx : (x.1 == "") <;> cases hm : (x.1 == m) <;> cases hme : (m == "") <;>
      simp_all [List.filter_cons, List.find?_cons]

theorem view_deleteNamed (r : Registry α β) (m : Name) :
    r.deleteNamed.view m = if m == "" then r.view m else none := by
  simp only [view, stmt, deleteNamed]
  rw [find_filter_empty]
  cases (m == "") <;> simp

end Registry

/-- **`PreparedStatementsQuery.OnQuery` refines `regEff`**: what the row handler can see of the registry after the
observer ran is `regEff` of what it could see before -/
theorem sqlObserve_view {α β} (r : Registry α β) (c : SqlCmd α) : (sqlObserve r c).1.view = regEff r.view c := by
  funext m
  cases c with
  | plain s => rfl
  | execute n => rfl
  | prepare n s =>
    simp only [sqlObserve, regEff]
    cases hs : r.stmt n with
    | some old =>
      cases hmn : (m == n) with
      | false => simp
      | true =>
        have : m = n := by simpa using hmn
        subst this
        simp [Registry.view, hs]
    | none =>
      simp only [Registry.view_addStatement]
      cases hmn : (m == n) with
      | false => simp
      | true => simp [Registry.view, hs]
  | deallocate n =>
    simp only [sqlObserve, regEff]
    cases hs : r.stmt n with
    | none =>
      cases hmn : (m == n) with
      | false => simp
      | true =>
        have : m = n := by simpa using hmn
        subst this
        simp [Registry.view, hs]
    | some old => simp only [Registry.view_deleteStatement]
  | deallocateAll =>
    simp only [sqlObserve, regEff, Registry.view_deleteNamed]

/-! ### the joint system with SQL-level prepared statements

`Joint (SqlCmd α)` (queue `p` of the proxy, unanswered requests `d` of the database, `skipping`) plus the two tables
of prepared statements: `preg` – what the proxy's registry shows (`Registry.view`), changed when a statement is
SENT; `dreg` – the database's own table, changed when the statement COMPLETES.

Rules in addition to those of `jstep`:
* client: a statement that changes the table (PREPARE / DEALLOCATE) is sent when nothing is outstanding (`d = []`, not
  skipping) – what every client of the simple protocol does (it waits for ReadyForQuery). EXECUTE, other statements
  and extended-protocol requests may be pipelined freely. Without this rule the proxy – which resolves `EXECUTE n`
  when the ROW arrives – can use a later binding of `n` (`overtake_counterexample`);
* database: `PREPARE n` completes iff `n` is free (else it fails), `DEALLOCATE n` iff `n` is bound, `DEALLOCATE ALL`
  always, `EXECUTE n` returns rows / completes only if `n` is bound. A PREPARE of a free name that the database
  rejects for another reason (unknown table …) is outside the rules: the proxy has registered the name by then
  (`rejected_prepare_counterexample`, known finding `sql-prepare-rejected-name-sticky`).
-/

/-- events of the joint system -/
inductive SJEv (α : Type) where
  | send (r : Entry (SqlCmd α))
  | row
  | done
  | error
  | ready
deriving Repr

structure SJoint (α : Type) where
  j : Joint (SqlCmd α) := {}
  preg : Name → Option α := fun _ => none
  dreg : Name → Option α := fun _ => none

/-- the command at the head of a queue, if it is a statement -/
def headCmd {α} : List (Entry (SqlCmd α)) → Option (SqlCmd α)
  | .query c :: _ => some c
  | _ => none

/-- is the database able to complete the command now -/
def dbAccepts {α} (f : Name → Option α) : SqlCmd α → Bool
  | .prepare n _ => (f n).isNone
  | .deallocate n => (f n).isSome
  | .execute n => (f n).isSome
  | _ => true

/-- client rule: a statement that changes the table of prepared statements is not sent while anything is outstanding -/
def sendBlocked {α} (s : SJoint α) : Entry (SqlCmd α) → Bool
  | .query c => c.changesRegistry && (!s.j.d.isEmpty || s.j.skipping)
  | .sync => false

/-- database rule: a statement that changes the table fails only when the table says so -/
def errorBlocked {α} (s : SJoint α) : Bool :=
  match headCmd s.j.d with
  | some c => c.changesRegistry && dbAccepts s.dreg c
  | none => false

/-- the proxy's table after it has seen a request -/
def pregAfter {α} (f : Name → Option α) : Entry (SqlCmd α) → Name → Option α
  | .query c => regEff f c
  | .sync => f

/-- one step; for `row` the pair (statement the database is answering, resolution by the proxy) -/
def sjstep {α} (s : SJoint α) : SJEv α → Option (SJoint α × Option (α × RowRes α))
  | .send r =>
    if sendBlocked s r then none else
    match jstep s.j (.send r) with
    | none => none
    | some (j', _) => some ({ s with j := j', preg := pregAfter s.preg r }, none)
  | .row =>
    match jstep s.j .row with
    | some (j', some (q, x)) =>
      match resolveCmd s.dreg q with
      | .stmt st =>
        let px : RowRes α := match x with | some c => resolveCmd s.preg c | none => .unprocessed
        some ({ s with j := j' }, some (st, px))
      | _ => none
    | _ => none
  | .done =>
    match headCmd s.j.d with
    | none => none
    | some c =>
      if !dbAccepts s.dreg c then none else
      match jstep s.j .done with
      | none => none
      | some (j', _) => some ({ s with j := j', dreg := regEff s.dreg c }, none)
  | .error =>
    if errorBlocked s then none else
    match jstep s.j .error with
    | none => none
    | some (j', _) => some ({ s with j := j' }, none)
  | .ready =>
    match jstep s.j .ready with
    | none => none
    | some (j', _) => some ({ s with j := j' }, none)

def sjrun {α} : SJoint α → List (SJEv α) → Option (SJoint α × List (α × RowRes α))
  | s, [] => some (s, [])
  | s, e :: es =>
    match sjstep s e with
    | none => none
    | some (s', o) =>
      match sjrun s' es with
      | none => none
      | some (s'', os) => some (s'', (match o with | some x => [x] | none => []) ++ os)

/-- what the proxy's table must be, given the database's table and its unanswered requests: a statement that
changes the table is outstanding only at the head of `d`, and the proxy has applied it already -/
def expectedPreg {α} (dreg : Name → Option α) (d : List (Entry (SqlCmd α))) : Name → Option α :=
  match headCmd d with
  | some c => regEff dreg c
  | none => dreg

def noChangeIn {α} (l : List (Entry (SqlCmd α))) : Prop :=
  ∀ c, Entry.query c ∈ l → c.changesRegistry = false

structure SInv {α} (s : SJoint α) : Prop where
  base : Inv s.j
  tail : noChangeIn s.j.d.tail
  reg : s.preg = expectedPreg s.dreg s.j.d

theorem regEff_noChange {α} (f : Name → Option α) (c : SqlCmd α) (h : c.changesRegistry = false) : regEff f c = f := by
  cases c <;> simp_all [SqlCmd.changesRegistry, regEff]

/-- a command the database refuses leaves the table as it is -/
theorem regEff_refused {α} (f : Name → Option α) (c : SqlCmd α) (h : dbAccepts f c = false) : regEff f c = f := by
  cases c with
  | plain s => rfl
  | execute n => rfl
  | deallocateAll => simp [dbAccepts] at h
  | prepare n s =>
    funext m
    simp only [dbAccepts, Option.isNone_eq_false_iff, Option.isSome_iff_exists] at h
    obtain ⟨x, hx⟩ := h
    simp only [regEff, hx]
    cases hmn : (m == n) with
    | false => rfl
    | true =>
      have : m = n := by simpa using hmn
      subst this
      simp [hx]
  | deallocate n =>
    funext m
    have hn : f n = none := by
      cases hf : f n with
      | none => rfl
      | some x => simp [dbAccepts, hf] at h
    simp only [regEff]
    cases hmn : (m == n) with
    | false => rfl
    | true =>
      have : m = n := by simpa using hmn
      subst this
      simp [hn]

theorem noChangeIn_of_suffix {α} (l l' : List (Entry (SqlCmd α))) (h : noChangeIn l) (hs : ∀ e, e ∈ l' → e ∈ l) : noChangeIn l' :=
  fun c hc => h c (hs _ hc)

theorem dropToSync_mem {α} (incl : Bool) (l : List (Entry α)) : ∀ e, e ∈ dropToSync incl l → e ∈ l := by
  induction l with
  | nil => intro e h; exact h
  | cons x r ih =>
    intro e h
    cases x with
    | sync =>
      simp only [dropToSync] at h
      split at h
      · exact List.mem_cons_of_mem _ h
      · exact h
    | query q =>
      simp only [dropToSync] at h
      exact List.mem_cons_of_mem _ (ih e h)

/-- after `dropToSync false` the head is not a statement -/
theorem headCmd_dropToSync {α} (l : List (Entry (SqlCmd α))) : headCmd (dropToSync false l) = none := by
  induction l with
  | nil => rfl
  | cons x r ih =>
    cases x with
    | sync => rfl
    | query q => simpa [dropToSync] using ih

/-- the tail of `dropToSync false l` lies inside the tail of `l` -/
theorem dropToSync_tail_mem {α} (l : List (Entry α)) : ∀ e, e ∈ (dropToSync false l).tail → e ∈ l.tail := by
  cases l with
  | nil => intro e h; exact h
  | cons x r =>
    cases x with
    | sync => intro e h; exact h
    | query q =>
      intro e h
      simp only [dropToSync] at h
      exact dropToSync_mem false r e (List.mem_of_mem_tail h)

theorem sinv_init {α} : SInv ({} : SJoint α) :=
  ⟨inv_init, by intro c h; simp at h, rfl⟩

/-- every enabled step keeps the invariant; at a DataRow the proxy resolves to the statement the database answers -/
theorem sinv_step {α} (s s' : SJoint α) (e : SJEv α) (o : Option (α × RowRes α)) (hi : SInv s)
    (hs : sjstep s e = some (s', o)) : SInv s' ∧ (∀ st x, o = some (st, x) → x = .stmt st) := by
  obtain ⟨hbase, htail, hreg⟩ := hi
  cases e with
  | send r =>
    simp only [sjstep] at hs
    cases hg : sendBlocked s r with
    | true => simp [hg] at hs
    | false =>
      simp only [hg, Bool.false_eq_true, if_false] at hs
      cases hj : jstep s.j (.send r) with
      | none => simp [hj] at hs
      | some res =>
        obtain ⟨j', oj⟩ := res
        simp only [hj, Option.some.injEq, Prod.mk.injEq] at hs
        obtain ⟨rfl, rfl⟩ := hs
        have hb := (inv_step s.j j' (.send r) oj hbase hj).1
        simp only [jstep, Option.some.injEq, Prod.mk.injEq] at hj
        obtain ⟨rfl, _⟩ := hj
        refine ⟨⟨hb, ?_, ?_⟩, by intro st x h; cases h⟩
        · -- the tail of d: a statement that changes the table is appended only to an empty d
          simp only
          split
          · exact htail
          · cases hd : s.j.d with
            | nil => intro c h; simp at h
            | cons a t =>
              simp only [List.cons_append, List.tail_cons]
              intro c hc
              simp only [List.mem_append, List.mem_singleton] at hc
              cases hc with
              | inl h => exact htail c (by simp [hd, h])
              | inr h =>
                subst h
                cases hch : c.changesRegistry with
                | false => rfl
                | true => simp [sendBlocked, hch, hd] at hg
        · -- the registry
          simp only
          cases r with
          | sync =>
            simp only [pregAfter, Entry.isQuery, Bool.and_false, Bool.false_eq_true, if_false]
            rw [hreg]
            cases hd : s.j.d with
            | nil => rfl
            | cons a t => cases a <;> rfl
          | query c =>
            simp only [pregAfter]
            cases hch : c.changesRegistry with
            | true =>
              have hg' : s.j.d.isEmpty = true ∧ s.j.skipping = false := by
                simp only [sendBlocked, hch, Bool.true_and, Bool.or_eq_false_iff, Bool.not_eq_false'] at hg
                exact hg
              have hd : s.j.d = [] := by simpa using hg'.1
              simp only [hg'.2, Bool.false_and, Bool.false_eq_true, if_false, hd, List.nil_append]
              rw [hreg, hd]
              rfl
            | false =>
              rw [regEff_noChange _ _ hch, hreg]
              split
              · rfl
              · cases hd : s.j.d with
                | nil => simp [expectedPreg, headCmd, regEff_noChange _ _ hch]
                | cons a t => cases a <;> rfl
  | row =>
    simp only [sjstep] at hs
    cases hj : jstep s.j .row with
    | none => simp [hj] at hs
    | some res =>
      obtain ⟨j', oj⟩ := res
      cases oj with
      | none => simp [hj] at hs
      | some qx =>
        obtain ⟨q, x⟩ := qx
        simp only [hj] at hs
        have hx := (inv_step s.j j' .row _ hbase hj).2 q x rfl
        have hj' : j' = s.j := by
          simp only [jstep] at hj
          split at hj
          · simp only [Option.some.injEq, Prod.mk.injEq] at hj; exact hj.1.symm
          · cases hj
        have hq : headCmd s.j.d = some q := by
          simp only [jstep] at hj
          split at hj
          · next q' _ heq =>
            simp only [Option.some.injEq, Prod.mk.injEq] at hj
            obtain ⟨_, hqq, _⟩ := hj
            subst hqq
            simp [heq, headCmd]
          · cases hj
        cases hr : resolveCmd s.dreg q with
        | stmt st =>
          simp only [hr, Option.some.injEq, Prod.mk.injEq] at hs
          obtain ⟨rfl, rfl⟩ := hs
          subst hj'
          refine ⟨⟨hbase, htail, hreg⟩, ?_⟩
          intro st' x' h
          simp only [Option.some.injEq, Prod.mk.injEq] at h
          obtain ⟨rfl, rfl⟩ := h
          subst hx
          -- the head is a statement with rows: it does not change the table, so preg = dreg on it
          have hnc : q.changesRegistry = false := by
            cases q <;> simp_all [resolveCmd, SqlCmd.changesRegistry]
          simp only
          rw [hreg]
          simp only [expectedPreg, hq, regEff_noChange _ _ hnc]
          exact hr
        | unprocessed => simp [hr] at hs
        | closed => simp [hr] at hs
        | noSettings => simp [hr] at hs
  | done =>
    simp only [sjstep] at hs
    cases hh : headCmd s.j.d with
    | none => simp [hh] at hs
    | some c =>
      simp only [hh] at hs
      split at hs
      · cases hs
      · cases hj : jstep s.j .done with
        | none => simp [hj] at hs
        | some res =>
          obtain ⟨j', oj⟩ := res
          simp only [hj, Option.some.injEq, Prod.mk.injEq] at hs
          obtain ⟨rfl, rfl⟩ := hs
          have hb := (inv_step s.j j' .done oj hbase hj).1
          refine ⟨⟨hb, ?_, ?_⟩, by intro st x h; cases h⟩
          all_goals
            simp only [jstep] at hj
            split at hj
            · next q r heq =>
              simp only [Option.some.injEq, Prod.mk.injEq] at hj
              obtain ⟨rfl, _⟩ := hj
              simp only
              have hcq : c = q := by simp [heq, headCmd] at hh; exact hh.symm
              subst hcq
              have htl : noChangeIn r := by simpa [heq] using htail
              first
              | exact noChangeIn_of_suffix r r.tail htl (fun e he => List.mem_of_mem_tail he)
              | (rw [hreg]
                 simp only [expectedPreg, heq, headCmd]
                 cases hr : r with
                 | nil => rfl
                 | cons a t =>
                   cases a with
                   | sync => rfl
                   | query c2 =>
                     have := htl c2 (by simp [hr])
                     simp [regEff_noChange _ _ this])
            · cases hj
  | error =>
    simp only [sjstep] at hs
    cases hblocked : errorBlocked s with
    | true => simp [hblocked] at hs
    | false =>
      simp only [hblocked, Bool.false_eq_true, if_false] at hs
      cases hj : jstep s.j .error with
      | none => simp [hj] at hs
      | some res =>
        obtain ⟨j', oj⟩ := res
        simp only [hj, Option.some.injEq, Prod.mk.injEq] at hs
        obtain ⟨rfl, rfl⟩ := hs
        have hb := (inv_step s.j j' .error oj hbase hj).1
        have hj2 : j'.d = dropToSync false s.j.d := by
          simp only [jstep] at hj
          split at hj
          · cases hj
          · simp only [Option.some.injEq, Prod.mk.injEq] at hj
            obtain ⟨rfl, _⟩ := hj
            rfl
        refine ⟨⟨hb, ?_, ?_⟩, by intro st x h; cases h⟩
        · simp only [hj2]
          exact noChangeIn_of_suffix _ _ htail (dropToSync_tail_mem s.j.d)
        · simp only [hj2]
          rw [hreg]
          simp only [expectedPreg, headCmd_dropToSync]
          cases hh : headCmd s.j.d with
          | none => rfl
          | some c =>
            simp only
            cases hch : c.changesRegistry with
            | false => exact regEff_noChange _ _ hch
            | true =>
              have : dbAccepts s.dreg c = false := by
                simp only [errorBlocked, hh, hch, Bool.true_and] at hblocked
                exact hblocked
              exact regEff_refused _ _ this
  | ready =>
    simp only [sjstep] at hs
    cases hj : jstep s.j .ready with
    | none => simp [hj] at hs
    | some res =>
      obtain ⟨j', oj⟩ := res
      simp only [hj, Option.some.injEq, Prod.mk.injEq] at hs
      obtain ⟨rfl, rfl⟩ := hs
      have hb := (inv_step s.j j' .ready oj hbase hj).1
      refine ⟨⟨hb, ?_, ?_⟩, by intro st x h; cases h⟩
      all_goals
        simp only [jstep] at hj
        split at hj
        · next r heq =>
          simp only [Option.some.injEq, Prod.mk.injEq] at hj
          obtain ⟨rfl, _⟩ := hj
          simp only
          have htl : noChangeIn r := by simpa [heq] using htail
          first
          | exact noChangeIn_of_suffix r r.tail htl (fun e he => List.mem_of_mem_tail he)
          | (rw [hreg]
             simp only [expectedPreg, heq, headCmd]
             cases hr : r with
             | nil => rfl
             | cons a t =>
               cases a with
               | sync => rfl
               | query c2 =>
                 have := htl c2 (by simp [hr])
                 simp [regEff_noChange _ _ this])
        · cases hj

theorem sinv_run {α} (evs : List (SJEv α)) (s s' : SJoint α) (obs : List (α × RowRes α)) (hi : SInv s)
    (hr : sjrun s evs = some (s', obs)) : SInv s' ∧ ∀ st x, (st, x) ∈ obs → x = .stmt st := by
  induction evs generalizing s obs with
  | nil =>
    simp only [sjrun, Option.some.injEq, Prod.mk.injEq] at hr
    obtain ⟨rfl, rfl⟩ := hr
    exact ⟨hi, by intro st x h; cases h⟩
  | cons e es ih =>
    simp only [sjrun] at hr
    cases h1 : sjstep s e with
    | none => simp [h1] at hr
    | some r1 =>
      obtain ⟨s1, o⟩ := r1
      simp only [h1] at hr
      cases h2 : sjrun s1 es with
      | none => simp [h2] at hr
      | some r2 =>
        obtain ⟨s2, os⟩ := r2
        simp only [h2, Option.some.injEq, Prod.mk.injEq] at hr
        obtain ⟨rfl, rfl⟩ := hr
        obtain ⟨hi1, ho⟩ := sinv_step s s1 e o hi h1
        obtain ⟨hi2, hos⟩ := ih s1 os hi1 h2
        refine ⟨hi2, ?_⟩
        intro st x hm
        simp only [List.mem_append] at hm
        cases hm with
        | inl h =>
          cases o with
          | none => simp at h
          | some y =>
            simp only [List.mem_singleton] at h
            exact ho st x (by rw [h])
        | inr h => exact hos st x h

end AcraModel.Proxy
