import AcraModel.Envelope.Container
/-
Placement: *which* cells of a statement the SQL proxy transforms, and with which column setting.

Statements are structured descriptions (the harness generates SQL text *from* such descriptions, in
several spellings, so the structure is known without a grammar). The functions follow
`encryptor/postgresql/queryDataEncryptor.go` (`encryptInsertQuery`, `encryptUpdateExpressions`,
`getInsertPlaceholders`, `encryptUpdateValues`, `onReturning`) and `encryptor/postgresql/utils.go`
(`ParseQuerySettings`, `MapColumnsToAliases`, `FindColumnInfo`) for statements over ONE table
(no joins / sub-selects – those stay outside the model and are tied by correspondence only).

The cell transformer is a parameter (`Xf`): a state-passing partial function, so that `Pipeline` can
plug in the real write chain (the state is the `crypto/rand` stream) and the theorems about placement
hold for every transformer.
-/
namespace AcraModel.Proxy
open AcraModel AcraModel.Envelope

abbrev Name := String

/-- `data_type` of an encrypted column as far as the proxy's encoders care -/
inductive DType | none | bytes | str
deriving DecidableEq, Repr

/-- a column setting with only transparent encryption (`OnlyEncryption()` is true) -/
structure ColSetting where
  kind : Kind
  dtype : DType := .none
  /-- `reencrypting_to_acrablocks` -/
  reenc : Bool := true
deriving DecidableEq, Repr

/-- one `schemas:` entry of the encryptor config -/
structure Table where
  name : Name
  /-- `columns:` in schema order (may be empty) -/
  columns : List Name
  /-- `encrypted:` -/
  encrypted : List (Name × ColSetting)
deriving Repr

abbrev Schema := List Table

/-- `MapTableSchemaStore.GetTableSchema` -/
def Schema.table (s : Schema) (t : Name) : Option Table := s.find? (·.name == t)

/-- `tableSchema.GetColumnEncryptionSettings` (`NeedToEncrypt` = `isSome`) -/
def Table.setting (t : Table) (c : Name) : Option ColSetting := (t.encrypted.find? (·.1 == c)).map (·.2)

/-- a value expression in VALUES / SET -/
inductive Cell where
  /-- string literal `'…'` (content after SQL lexing), possibly under a type cast -/
  | lit (b : Bytes)
  /-- integer or float literal (its text) -/
  | num (b : Bytes)
  /-- `$i`, 1-based, used directly as the value -/
  | param (i : Nat)
  | null
  /-- anything else (function call, `$1::type`, DEFAULT, column reference …) -/
  | other (tag : Nat)
deriving DecidableEq, Repr

/-- an item of a SELECT list / RETURNING list -/
inductive Target where
  | star                       -- `*`
  | qstar (q : Name)           -- `q.*`
  | col (c : Name)             -- `c`
  | qcol (q : Name) (c : Name) -- `q.c`
  | expr                       -- anything else
deriving DecidableEq, Repr

structure Insert where
  table : Name
  /-- explicit column list (`[]` = none: schema order is used) -/
  cols : List Name
  rows : List (List Cell)
  returning : List Target := []
  /-- `ON CONFLICT … DO UPDATE SET c = v` (PostgreSQL) / `ON DUPLICATE KEY UPDATE c = v` (MySQL) -/
  onDup : List (Name × Cell) := []
  /-- the row source is `SELECT <rows[0]>` instead of `VALUES …` (`rows` then holds that one list) -/
  fromSelect : Bool := false
deriving Repr

structure Update where
  table : Name
  alias : Option Name := none
  /-- `SET c = v` (unqualified column names) -/
  sets : List (Name × Cell)
  returning : List Target := []
  /-- PostgreSQL's `SET (c1, c2, …) = (v1, v2, …)`: `sets` pairs each target with its field of the row -/
  multi : Bool := false
deriving Repr

structure Select where
  table : Name
  alias : Option Name := none
  items : List Target
deriving Repr

inductive Stmt where
  | insert (i : Insert)
  | update (u : Update)
  | select (s : Select)
  /-- any other statement: never analysed -/
  | other (tag : Nat)
deriving Repr

/-! ### the transformer interface -/

/-- a cell transformer: `none` = the chain returned an error (the whole rewrite is abandoned) -/
abbrev Xf (σ : Type) := ColSetting → Cell → σ → Option (Cell × σ)

/-- `placeholders`: bind index (0-based) ↦ setting, as recorded in the client session -/
abbrev Placeholders := List (Nat × ColSetting)

/-! ### INSERT -/

/-- effective column list of `encryptInsertQuery`: the statement's list, else the schema's -/
def insertColumns (t : Table) (i : Insert) : List Name := if i.cols.isEmpty then t.columns else i.cols

/-- one row of VALUES: cells zipped with the column names (`for j, value := range items`) -/
def xfRow {σ} (f : Xf σ) (t : Table) : List Name → List Cell → σ → Option (List Cell × σ)
  | c :: cs, v :: vs, st =>
    match t.setting c with
    | none => (xfRow f t cs vs st).map fun (r, st') => (v :: r, st')
    | some s =>
      match f s v st with
      | none => none
      | some (v', st') => (xfRow f t cs vs st').map fun (r, st'') => (v' :: r, st'')
  | _, vs, st => some (vs, st)

/-- all rows; a row whose arity differs from the column list is skipped (`continue`) -/
def xfRows {σ} (f : Xf σ) (t : Table) (cols : List Name) : List (List Cell) → σ → Option (List (List Cell) × σ)
  | [], st => some ([], st)
  | r :: rs, st =>
    if r.length ≠ cols.length then (xfRows f t cols rs st).map fun (o, st') => (r :: o, st') else
    match xfRow f t cols r st with
    | none => none
    | some (r', st') => (xfRows f t cols rs st').map fun (o, st'') => (r' :: o, st'')

/-- `encryptInsertQuery`: `none` = error (statement forwarded as received) -/
def xfInsert {σ} (f : Xf σ) (sch : Schema) (i : Insert) (st : σ) : Option (Insert × σ) :=
  match sch.table i.table with
  | none => some (i, st)
  | some t =>
    let cols := insertColumns t i
    if cols.isEmpty then some (i, st) else
    (xfRows f t cols i.rows st).map fun (rows, st') => ({ i with rows := rows }, st')

/-- the specification: positions (row, column) of the cells of an INSERT that belong to a
configured column, with the setting -/
def insertProtected (sch : Schema) (i : Insert) : List (Nat × Nat × ColSetting) :=
  match sch.table i.table with
  | none => []
  | some t =>
    let cols := insertColumns t i
    (i.rows.zipIdx.filter (fun (r, _) => r.length = cols.length)).flatMap fun (_, ri) =>
      (cols.zipIdx.filterMap fun (c, ci) => (t.setting c).map fun s => (ri, ci, s))

/-! ### UPDATE -/

/-- `encryptUpdateExpressions` over the SET list (single table: every target resolves to it) -/
def xfSets {σ} (f : Xf σ) (t : Table) : List (Name × Cell) → σ → Option (List (Name × Cell) × σ)
  | [], st => some ([], st)
  | (c, v) :: rest, st =>
    match t.setting c with
    | none => (xfSets f t rest st).map fun (r, st') => ((c, v) :: r, st')
    | some s =>
      match f s v st with
      | none => none
      | some (v', st') => (xfSets f t rest st').map fun (r, st'') => ((c, v') :: r, st'')

def xfUpdate {σ} (f : Xf σ) (sch : Schema) (u : Update) (st : σ) : Option (Update × σ) :=
  match sch.table u.table with
  | none => some (u, st)
  | some t => (xfSets f t u.sets st).map fun (sets, st') => ({ u with sets := sets }, st')

/-- the whole of `encryptInsertQuery` (PostgreSQL): the VALUES rows – a row source that is not a VALUES list
(`GetValuesLists()` is empty for `INSERT … SELECT`) is not looked at, known finding `insert-select-plaintext` –
and then the assignments of `ON CONFLICT … DO UPDATE SET`, processed like the SET list of an UPDATE (after the
`fix:` commit; the call was commented out before and the values went to the database in clear). -/
def xfInsertStmt {σ} (f : Xf σ) (sch : Schema) (i : Insert) (st : σ) : Option (Insert × σ) :=
  match sch.table i.table with
  | none => some (i, st)
  | some t =>
    (if i.fromSelect then some (i, st) else xfInsert f sch i st).bind fun (i', st') =>
      (xfSets f t i.onDup st').map fun (od, st'') => ({ i' with onDup := od }, st'')

/-- the whole of `encryptUpdateQuery` (PostgreSQL): the value of a target of the multi-column form
`SET (a, b) = (x, y)` is a `MultiAssignRef`, not a constant – `GetAConst()` is nil and nothing is
transformed (known finding `pg-update-multiassign-plaintext`). -/
def xfUpdateStmt {σ} (f : Xf σ) (sch : Schema) (u : Update) (st : σ) : Option (Update × σ) :=
  if u.multi then some (u, st) else xfUpdate f sch u st

def updateProtected (sch : Schema) (u : Update) : List (Nat × ColSetting) :=
  match sch.table u.table with
  | none => []
  | some t => u.sets.zipIdx.filterMap fun ((c, _), i) => (t.setting c).map fun s => (i, s)

/-! ### statements -/

/-- `QueryDataEncryptor.OnQuery` + `handleQueryPacket`: on an error the received statement is
forwarded unchanged (the error is only logged) -/
def xfStmt {σ} (f : Xf σ) (sch : Schema) (s : Stmt) (st : σ) : Stmt × σ :=
  match s with
  | .insert i => match xfInsertStmt f sch i st with | some (i', st') => (.insert i', st') | none => (s, st)
  | .update u => match xfUpdateStmt f sch u st with | some (u', st') => (.update u', st') | none => (s, st)
  | _ => (s, st)

/-! ### bound parameters (`OnBind`) -/

/-- `updatePlaceholderMap` (after `index--`); `none` = ErrInvalidPlaceholder / ErrInconsistentPlaceholder.
The map is kept as an association list, newest first. -/
def placeholderAdd (count : Nat) (m : List (Nat × Name)) (index : Nat) (c : Name) : Option (List (Nat × Name)) :=
  if index ≥ count then none else
  match m.find? (·.1 == index) with
  | some (_, n) => if n ≠ c then none else some m
  | none => some ((index, c) :: m)

/-- one value of VALUES / SET: only bare placeholders `$n` are mapped (after the `fix:` commit; literals
and other expressions are skipped) -/
def placeholderCell (count : Nat) (m : List (Nat × Name)) (c : Name) : Cell → Option (List (Nat × Name))
  | .param i => placeholderAdd count m (i - 1) c
  | _ => some m

def placeholdersRow (count : Nat) : List Name → List Cell → List (Nat × Name) → Option (List (Nat × Name))
  | c :: cs, v :: vs, m => (placeholderCell count m c v).bind (placeholdersRow count cs vs)
  | _, _, m => some m

/-- `getInsertPlaceholders`: walk all rows; `valuesCount` accumulates over the rows seen so far -/
def insertPlaceholdersRows (cols : List Name) : List (List Cell) → Nat → List (Nat × Name) → Option (List (Nat × Name))
  | [], _, m => some m
  | r :: rs, cnt, m => (placeholdersRow (cnt + r.length) cols r m).bind (insertPlaceholdersRows cols rs (cnt + r.length))

/-- `encryptUpdateValues`: the SET targets -/
def updatePlaceholders (nvalues : Nat) : List (Name × Cell) → List (Nat × Name) → Option (List (Nat × Name))
  | [], m => some m
  | (c, v) :: rest, m => (placeholderCell nvalues m c v).bind (updatePlaceholders nvalues rest)

/-- outcome of analysing a Bind against its statement -/
inductive BindPlan where
  /-- statement not covered: parameters forwarded as received -/
  | untouched
  /-- error: parameters forwarded as received (the error is only logged) -/
  | error
  /-- parameter index (0-based) ↦ setting, for the parameters that are transformed -/
  | plan (m : List (Nat × ColSetting))
deriving Repr

/-- from the placeholder map to the plan (`encryptValuesWithPlaceholders` iterates the map) -/
def planOf (t : Table) (m : List (Nat × Name)) : BindPlan :=
  .plan (m.filterMap fun (i, c) => (t.setting c).map fun s => (i, s))

/-- `QueryDataEncryptor.OnBind` -/
def bindPlan (sch : Schema) (s : Stmt) (nvalues : Nat) : BindPlan :=
  match s with
  | .insert i =>
    match sch.table i.table with
    | none => .untouched
    | some t =>
      let cols := insertColumns t i
      if cols.isEmpty then .untouched else
      -- `INSERT … SELECT`: no VALUES lists to walk; then the placeholders assigned in `ON CONFLICT … DO UPDATE SET`
      -- (after the `fix:` commit), checked against the number of bound values like the SET list of an UPDATE
      match insertPlaceholdersRows cols (if i.fromSelect then [] else i.rows) 0 [] with
      | none => .error
      | some m =>
        match updatePlaceholders nvalues i.onDup m with
        | none => .error
        | some m' => planOf t m'
  | .update u =>
    match sch.table u.table with
    | none => .untouched
    | some t =>
      -- `SET (a, b) = ($1, $2)`: the targets' values are `MultiAssignRef`s, `GetParamRef()` is nil
      match updatePlaceholders nvalues (if u.multi then [] else u.sets) [] with
      | none => .error
      | some m => planOf t m
  | _ => .untouched

/-! ### result columns (`ParseQuerySettings`, `onReturning`) -/

/-- the per-column settings a star expands to: one entry per `columns:` name -/
def starSettings (t : Table) : List (Option ColSetting) := t.columns.map t.setting

/-- does qualifier `q` name the (single) table of the statement (`findTableName`) -/
def qualifies (table : Name) (alias : Option Name) (q : Name) : Bool := q == table || alias == some q

/-- `FindColumnInfo` + lookup for one column reference over a single table -/
def colSetting (sch : Schema) (table : Name) (alias : Option Name) (q : Option Name) (c : Name) : Option ColSetting :=
  match sch.table table with
  | none => none
  | some t =>
    match q with
    | some q => if qualifies table alias q then t.setting c else none
    -- unqualified: `getMatchedTable` requires the column to be listed in `columns:`
    | none => if t.columns.contains c then t.setting c else none

/-- `ParseQuerySettings` for a single-table SELECT: the setting applied to each result column -/
def selectSettings (sch : Schema) (s : Select) : List (Option ColSetting) :=
  s.items.flatMap fun
    | .star | .qstar _ =>
      match sch.table s.table with
      | some t => starSettings t
      | none => [none]
    | .col c => [colSetting sch s.table s.alias none c]
    | .qcol q c => [colSetting sch s.table s.alias (some q) c]
    | .expr => [none]

/-- `onReturning` over the statement's own table; `none` = "error to collect settings" (no settings at all) -/
def returningSettings (sch : Schema) (table : Name) (alias : Option Name) (items : List Target) : Option (List (Option ColSetting)) :=
  match sch.table table with
  | none => none
  | some t =>
    some (items.flatMap fun
      | .star | .qstar _ => starSettings t
      | .col c => [colSetting sch table alias none c]
      | .qcol q c => [colSetting sch table alias (some q) c]
      | .expr => [none])

/-- settings of the result columns of any statement (`GetEncryptorSettingsForQuery`); `[]`/shorter
lists mean "no setting" for the columns beyond -/
def resultSettings (sch : Schema) : Stmt → List (Option ColSetting)
  | .select s => selectSettings sch s
  | .insert i => if i.returning.isEmpty then [] else (returningSettings sch i.table none i.returning).getD []
  | .update u => if u.returning.isEmpty then [] else (returningSettings sch u.table u.alias u.returning).getD []
  | .other _ => []

end AcraModel.Proxy
