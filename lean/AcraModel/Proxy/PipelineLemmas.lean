import AcraModel.Proxy.Session
import AcraModel.Envelope.ProtectLemmas
import AcraModel.Envelope.ScanLemmas
import AcraModel.Props.C01
/-!
Helper lemmas about the value pipelines (`Pipeline.lean`): the hex codec round trip, what the write chain
does to a value that is not already protected, and the compatibility wrapper on a protected value.
-/
namespace AcraModel.Proxy
open AcraModel AcraModel.Envelope

theorem nibble_roundtrip : ∀ n : Fin 16, nibbleVal (hexNibble n.val) = some n.val := by decide

theorem hexDecode_hexEncode (b : Bytes) : hexDecode (hexEncode b) = some b := by
  induction b with
  | nil => rfl
  | cons x r ih =>
    have h1 : x.toNat / 16 < 16 := by have := x.toNat_lt; omega
    have h2 : x.toNat % 16 < 16 := Nat.mod_lt _ (by decide)
    have e1 := nibble_roundtrip ⟨x.toNat / 16, h1⟩
    have e2 := nibble_roundtrip ⟨x.toNat % 16, h2⟩
    simp only at e1 e2
    simp only [hexEncode, hexDecode, e1, e2, ih]
    have : 16 * (x.toNat / 16) + x.toNat % 16 = x.toNat := by omega
    rw [this]
    simp

theorem decodeEscaped_pgHex (b : Bytes) : decodeEscaped (pgHex b) = .ok b := by
  unfold decodeEscaped pgHex
  have h1 : (pgHexPrefix ++ hexEncode b).take 2 = pgHexPrefix := by simp [pgHexPrefix]
  have h2 : (pgHexPrefix ++ hexEncode b).drop 2 = hexEncode b := by simp [pgHexPrefix]
  rw [if_pos h1, h2, hexDecode_hexEncode]

/-- the serialized AcraBlock container `protect` builds is recognised by the re-encryption handler -/
theorem reMatch_protect_block (c : CryptoOps) (kvW kvR : KeyView) (m rnd p : Bytes)
    (h : RoundTripHyps c .block kvW kvR m rnd p)
    (hnm : matchKind .block m = false) (hnr : registryMatch m = false)
    (hp : protect c kvW .block m rnd = .ok p) : reMatch p = true := by
  obtain ⟨hs, key, pre, post, hkid, hW, hR, hpre, hek, hpl⟩ := h
  obtain ⟨e, rfl, hne, hlen, hmk, _⟩ := c01_protect_block_facts c hs kvW kvR key m rnd p pre post hkid hW hR
    (fun k' hk' ek h1 h2 => Or.inl (hpre k' hk' ek h1 h2)) hek hpl hnm hnr hp
  unfold reMatch
  have hd := c01_deserialize_ser (e := e) (id := Kind.block.id) (k := .block) [] hne (c01_kindOfId_id .block) (by omega)
  rw [List.append_nil] at hd
  rw [hd]
  simp [hmk]

/-- for a value that is not already protected the chain of `proxyFactory.New` computes exactly `protect` -/
theorem writeChain_eq_protect (c : CryptoOps) (kvW kvR : KeyView) (s : ColSetting) (m rnd p : Bytes)
    (h : RoundTripHyps c s.kind kvW kvR m rnd p)
    (hnm : matchKind s.kind m = false) (hnr : registryMatch m = false)
    (hp : protect c kvW s.kind m rnd = .ok p) : writeChain c kvW s m rnd = .ok p := by
  unfold writeChain encryptHandler
  rw [hp]
  simp only [Out.bind, reEncryptHandler]
  cases hk : s.kind with
  | struct => simp
  | block =>
    rw [hk] at h hnm hp
    have := reMatch_protect_block c kvW kvR m rnd p h hnm hnr hp
    simp [this]

/-- the compatibility wrapper around the envelope detector, on exactly one protected value -/
theorem compat_protected (c : CryptoOps) (k : Kind) (kvW kvR : KeyView) (m rnd p : Bytes)
    (h : RoundTripHyps c k kvW kvR m rnd p)
    (hnm : matchKind k m = false) (hnr : registryMatch m = false)
    (hp : protect c kvW k m rnd = .ok p) (hne : m ≠ p) :
    onColumnCompat [decryptCallback c kvR] p = .ok m true := by
  have hcol := AcraModel.Props.C01.onColumn_protect_embedded c k kvW kvR m rnd p [] [] [fun _ => Cb.same] []
    h hnm hnr hp (by simpa using hne)
    (by intro cb hcb; simp only [List.mem_singleton] at hcb; subst hcb; left; rfl)
    (by intro i hi; simp at hi)
  simp only [List.nil_append, List.append_nil, List.singleton_append, c01_scan_nil, ScanOut.prepend, Bool.or_true] at hcol
  unfold onColumnCompat
  rw [hcol]
  simp

end AcraModel.Proxy
