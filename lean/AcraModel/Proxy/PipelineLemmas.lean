import AcraModel.Proxy.Session
import AcraModel.Envelope.ProtectLemmas
import AcraModel.Envelope.ScanLemmas
import AcraModel.Props.C01
/-!
Helper lemmas about the value pipelines (`Pipeline.lean`): the hex codec round trip, what the write chain
does to a value that is not already protected, and the compatibility wrapper on a protected value.
-/
namespace AcraModel.Proxy
open AcraModel AcraModel.Envelope

theorem nibble_roundtrip : ∀ n : Fin 16, nibbleVal (hexNibble n.val) = some n.val := by decide

theorem hexDecode_hexEncode (b : Bytes) : hexDecode (hexEncode b) = some b := by
  induction b with
  | nil => rfl
  | cons x r ih =>
    have h1 : x.toNat / 16 < 16 := by have := x.toNat_lt; omega
    have h2 : x.toNat % 16 < 16 := Nat.mod_lt _ (by decide)
    have e1 := nibble_roundtrip ⟨x.toNat / 16, h1⟩
    have e2 := nibble_roundtrip ⟨x.toNat % 16, h2⟩
    simp only at e1 e2
    simp only [hexEncode, hexDecode, e1, e2, ih]
    have : 16 * (x.toNat / 16) + x.toNat % 16 = x.toNat := by omega
    rw [this]
    simp

theorem decodeEscaped_pgHex (b : Bytes) : decodeEscaped (pgHex b) = .ok b := by
  unfold decodeEscaped pgHex
  have h1 : (pgHexPrefix ++ hexEncode b).take 2 = pgHexPrefix := by simp [pgHexPrefix]
  have h2 : (pgHexPrefix ++ hexEncode b).drop 2 = hexEncode b := by simp [pgHexPrefix]
  rw [if_pos h1, h2, hexDecode_hexEncode]

/-- the serialized AcraBlock container `protect` builds is recognised by the re-encryption handler -/
theorem reMatch_protect_block (c : CryptoOps) (kvW kvR : KeyView) (m rnd p : Bytes)
    (h : RoundTripHyps c .block kvW kvR m rnd p)
    (hnm : matchKind .block m = false) (hnr : registryMatch m = false)
    (hp : protect c kvW .block m rnd = .ok p) : reMatch p = true := by
  obtain ⟨hs, key, pre, post, hkid, hW, hR, hpre, hek, hpl⟩ := h
  obtain ⟨e, rfl, hne, hlen, hmk, _⟩ := c01_protect_block_facts c hs kvW kvR key m rnd p pre post hkid hW hR
    (fun k' hk' ek h1 h2 => Or.inl (hpre k' hk' ek h1 h2)) hek hpl hnm hnr hp
  unfold reMatch
  have hd := c01_deserialize_ser (e := e) (id := Kind.block.id) (k := .block) [] hne (c01_kindOfId_id .block) (by omega)
  rw [List.append_nil] at hd
  rw [hd]
  simp [hmk]

/-- for a value that is not already protected the chain of `proxyFactory.New` computes exactly `protect` -/
theorem writeChain_eq_protect (c : CryptoOps) (kvW kvR : KeyView) (s : ColSetting) (m rnd p : Bytes)
    (h : RoundTripHyps c s.kind kvW kvR m rnd p)
    (hnm : matchKind s.kind m = false) (hnr : registryMatch m = false)
    (hp : protect c kvW s.kind m rnd = .ok p) : writeChain c kvW s m rnd = .ok p := by
  unfold writeChain encryptHandler
  rw [hp]
  simp only [Out.bind, reEncryptHandler]
  cases hk : s.kind with
  | struct => simp
  | block =>
    rw [hk] at h hnm hp
    have := reMatch_protect_block c kvW kvR m rnd p h hnm hnr hp
    simp [this]

/-- the compatibility wrapper around the envelope detector, on exactly one protected value -/
theorem compat_protected (c : CryptoOps) (k : Kind) (kvW kvR : KeyView) (m rnd p : Bytes)
    (h : RoundTripHyps c k kvW kvR m rnd p)
    (hnm : matchKind k m = false) (hnr : registryMatch m = false)
    (hp : protect c kvW k m rnd = .ok p) (hne : m ≠ p) :
    onColumnCompat [decryptCallback c kvR] p = .ok m true := by
  have hcol := AcraModel.Props.C01.onColumn_protect_embedded c k kvW kvR m rnd p [] [] [fun _ => Cb.same] []
    h hnm hnr hp (by simpa using hne)
    (by intro cb hcb; simp only [List.mem_singleton] at hcb; subst hcb; left; rfl)
    (by intro i hi; simp at hi)
  simp only [List.nil_append, List.append_nil, List.singleton_append, c01_scan_nil, ScanOut.prepend, Bool.or_true] at hcol
  unfold onColumnCompat
  rw [hcol]
  simp

/-! ### the bytea text decoder on a serialized container (binary result format, column without data type) -/

theorem isControl_of_octDigit (x : UInt8) (h : isOctDigit x = true) : isControl x = false := by
  unfold isOctDigit at h
  unfold isControl
  simp only [Bool.and_eq_true, decide_eq_true_eq] at h
  simp only [Bool.or_eq_false_iff, decide_eq_false_iff_not, beq_eq_false_iff_ne, ne_eq]
  omega

/-- `DecodeOctal` fails on every input that contains a control byte (`unicode.IsControl`): the loop never
skips a byte without looking at it – after a backslash only another backslash or three octal digits are
accepted. -/
theorem decodeOctal_none_of_control : ∀ (n : Nat) (d : Bytes), d.length ≤ n → d.any isControl = true → decodeOctal d = none
  | 0, [], _, h => by simp at h
  | 0, _ :: _, hl, _ => by simp at hl
  | n+1, [], _, h => by simp at h
  | n+1, b :: r, hl, h => by
    have ih := decodeOctal_none_of_control n
    simp only [List.length_cons, Nat.add_le_add_iff_right] at hl
    unfold decodeOctal
    by_cases hc : isControl b = true
    · simp [hc]
    · have hr : r.any isControl = true := by simpa [hc] using h
      simp only [hc, Bool.false_eq_true, if_false]
      by_cases hb : b = backslash
      · simp only [hb, ne_eq, not_true_eq_false, if_false]
        cases r with
        | nil => rfl
        | cons c r1 =>
          simp only
          by_cases hcb : c = backslash
          · have hcc : isControl c = false := by subst hcb; decide
            have hr1 : r1.any isControl = true := by simpa [hcc] using hr
            simp only [hcb, if_true]
            rw [ih r1 (by simp at hl; omega) hr1]; rfl
          · simp only [hcb, if_false]
            match r1, hl, hr with
            | [], _, _ => rfl
            | [_], _, _ => rfl
            | d2 :: d3 :: r3, hl, hr =>
              simp only
              by_cases hd : (isOctDigit c && isOctDigit d2 && isOctDigit d3) = true
              · simp only [hd, if_true]
                simp only [Bool.and_eq_true] at hd
                have h1 := isControl_of_octDigit c hd.1.1
                have h2 := isControl_of_octDigit d2 hd.1.2
                have h3 := isControl_of_octDigit d3 hd.2
                have hr3 : r3.any isControl = true := by simpa [h1, h2, h3] using hr
                rw [ih r3 (by simp at hl; omega) hr3]; rfl
              · simp [hd]
      · simp only [ne_eq, hb, not_false_eq_true, if_true]
        rw [ih r hl hr]; rfl

theorem leBytes8_control (n : Nat) (h : n < 2^61) : (leBytes 8 n).any isControl = true := by
  have : isControl (UInt8.ofNat (n / 256 / 256 / 256 / 256 / 256 / 256 / 256 % 256)) = true := by
    unfold isControl
    have hx : n / 256 / 256 / 256 / 256 / 256 / 256 / 256 % 256 < 32 := by omega
    simp only [UInt8.toNat_ofNat', Bool.or_eq_true, decide_eq_true_eq, beq_iff_eq]
    left
    omega
  simp [leBytes, this]

/-- **the missing lemma of the binary path**: the bytea text decoder fails with `ErrDecodeOctalString` on
every serialized container shorter than 2^61 bytes – the `%%%` tag is not the `\x` prefix and the top byte
of the 8-byte little-endian length is a control character. -/
theorem decodeEscaped_serBytes (e : Bytes) (id : UInt8) (h : 12 + e.length < 2^61) :
    decodeEscaped (serBytes e id) = .octalErr := by
  unfold decodeEscaped
  have ht : (serBytes e id).take 2 ≠ pgHexPrefix := by
    simp [serBytes, containerTag, pgHexPrefix, Generated.Layout.containerTag, toBytes]
  rw [if_neg ht]
  have hany : (serBytes e id).any isControl = true := by
    have hcm : containerMin = 12 := rfl
    have := leBytes8_control (containerMin + e.length) (by rw [hcm]; exact h)
    simp only [serBytes, List.any_append, this, Bool.or_true, Bool.true_or]
  rw [decodeOctal_none_of_control _ _ (Nat.le_refl _) hany]


/-- what `protect` builds for a value that is not already protected is never decodable as bytea text -/
theorem decodeEscaped_protect (c : CryptoOps) (kv : KeyView) (k : Kind) (m rnd p : Bytes)
    (hnm : matchKind k m = false) (hnr : registryMatch m = false)
    (hp : protect c kv k m rnd = .ok p) (hl : p.length < 2^61) : decodeEscaped p = .octalErr := by
  obtain ⟨e, _, _, rfl⟩ := c01_protect_ok hp hnm hnr
  rw [c01_serBytes_length] at hl
  exact decodeEscaped_serBytes e k.id hl

end AcraModel.Proxy
