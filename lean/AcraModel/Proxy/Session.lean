import AcraModel.Proxy.Pipeline
import AcraModel.Proxy.Pending
/-
Session: what the proxy does with whole protocol messages, composed from Placement (which cells),
Pipeline (what happens to a value) and Pending (which statement a result row belongs to):

* `forwardStmt`  (in Pipeline) – a Query / Parse statement on its way to the database;
* `forwardBind`  – the parameters of a Bind (`handleBindPacket` → `OnBind` → `encryptValuesWithPlaceholders`);
* `deliverRow`   – a DataRow on its way to the client (`handleQueryDataPacket`).
-/
namespace AcraModel.Proxy
open AcraModel AcraModel.Envelope

/-- a bound parameter: format and value (`none` = NULL) -/
abbrev Param := Fmt × Option Bytes

inductive BindOut where
  /-- the Bind packet is forwarded exactly as received -/
  | same
  /-- the packet is rebuilt with these parameter values -/
  | changed (ps : List (Option Bytes))
deriving DecidableEq, Repr

def setAt {α} (l : List α) (i : Nat) (x : α) : List α := l.set i x

/-- `encryptValuesWithPlaceholders` over the planned parameters in the given order (the Go code
iterates a map, so the order in which the parameters draw randomness is not fixed).
`none` = an error: the Bind is forwarded as received. -/
def bindLoop (c : CryptoOps) (kv : KeyView) (plan : List (Nat × ColSetting)) (params : List Param) :
    List Nat → List (Option Bytes) → Bytes → Option (List (Option Bytes))
  | [], acc, _ => some acc
  | i :: rest, acc, rnd =>
    match plan.find? (·.1 == i), params[i]? with
    | some (_, s), some (fmt, some data) =>
      match getData fmt data with
      | none => none
      | some raw =>
        if raw.isEmpty then bindLoop c kv plan params rest acc rnd else
        match writeChain c kv s raw rnd with
        | .ok nd => bindLoop c kv plan params rest (setAt acc i (some (setData s fmt nd))) (rnd.drop (chainUsed s raw))
        | _ => none
    | some _, some (_, none) => bindLoop c kv plan params rest acc rnd
    | _, _ => none

/-- `PgProxy.handleBindPacket` for the statement the Bind refers to -/
def forwardBind (c : CryptoOps) (kv : KeyView) (sch : Schema) (s : Stmt) (params : List Param) (order : List Nat) (rnd : Bytes) : BindOut :=
  match bindPlan sch s params.length with
  | .untouched | .error => .same
  | .plan m =>
    if m.isEmpty then .same else
    match bindLoop c kv m params order (params.map (·.2)) rnd with
    | some ps => .changed ps
    | none => .same

/-- setting applied to result column `i` (`encryptionSettings[i]` if present) -/
def settingAt (settings : List (Option ColSetting)) (i : Nat) : Option ColSetting := (settings[i]?).join

/-- `handleQueryDataPacket` over the columns of a DataRow: NULL columns are skipped; an error in one
column aborts the packet (the connection is closed) -/
def deliverCols (c : CryptoOps) (kv : KeyView) (settings : List (Option ColSetting)) (fmt : Nat → Fmt) :
    Nat → List (Option Bytes) → Out (List (Option Bytes))
  | _, [] => .ok []
  | i, none :: r => (deliverCols c kv settings fmt (i + 1) r).bind fun o => .ok (none :: o)
  | i, some d :: r =>
    (readChain c kv (settingAt settings i) (fmt i) d).bind fun x =>
      (deliverCols c kv settings fmt (i + 1) r).bind fun o => .ok (some x :: o)

/-- a DataRow of the result of statement `s` (the pending entry); `none` pending = forwarded unprocessed -/
def deliverRow (c : CryptoOps) (kv : KeyView) (sch : Schema) (pending : Option Stmt) (fmt : Nat → Fmt) (cols : List (Option Bytes)) :
    Out (List (Option Bytes)) :=
  match pending with
  | none => .ok cols
  | some s => deliverCols c kv (resultSettings sch s) fmt 0 cols

/-- result format of column `i` from the Bind's result-format codes (`GetParameterFormatByIndex`);
simple protocol: text -/
def fmtOf (codes : List Fmt) (i : Nat) : Fmt :=
  match codes with
  | [] => .text
  | [f] => f
  | _ => (codes[i]?).getD .text

end AcraModel.Proxy

/-! ### MySQL front end, query-encryptor level (`encryptor/mysql/queryDataEncryptor.go`)

The column transformations are the same chain; the differences are in the statement handling:
VALUES rows are processed cell by cell whatever their arity (`if j >= len(columnsName) continue`), and the
literal coder (`mysql.DBDataCoder`) takes string / integer literals as they are and writes the result back
as a hex literal `X'…'` unless it is valid UTF-8 – so at value level the forwarded cell simply denotes the
bytes the chain returned. -/
namespace AcraModel.Proxy
open AcraModel AcraModel.Envelope

/-- `encryptExpression` + `UpdateExpressionValue` with `mysql.DBDataCoder`; the forwarded literal is given
by the bytes it denotes -/
def encCellMy (c : CryptoOps) (kv : KeyView) : Xf Bytes := fun s cell rnd =>
  let run (raw : Bytes) : Option (Cell × Bytes) :=
    if raw.isEmpty then some (cell, rnd) else
    match writeChain c kv s raw rnd with
    | .ok nd => if nd == raw then some (cell, rnd) else some (.lit nd, rnd.drop (chainUsed s raw))
    | _ => none
  match cell with
  | .lit b => run b
  | .num b => run b
  | _ => some (cell, rnd)

/-- VALUES rows of a MySQL INSERT: no arity test -/
def xfRowsMy {σ} (f : Xf σ) (t : Table) (cols : List Name) : List (List Cell) → σ → Option (List (List Cell) × σ)
  | [], st => some ([], st)
  | r :: rs, st =>
    match xfRow f t cols r st with
    | none => none
    | some (r', st') => (xfRowsMy f t cols rs st').map fun (o, st'') => (r' :: o, st'')

/-- `encryptInsertQuery` (MySQL): the VALUES rows when a column list is known and the source is a VALUES
list (`switch rows := insert.Rows.(type) { case sqlparser.Values: … }` – an `INSERT … SELECT` is not looked
at, known finding `insert-select-plaintext`), then the `ON DUPLICATE KEY UPDATE` assignments through
`encryptUpdateExpressions` (all targets resolve to the statement's table). -/
def xfInsertMy {σ} (f : Xf σ) (sch : Schema) (i : Insert) (st : σ) : Option (Insert × σ) :=
  match sch.table i.table with
  | none => some (i, st)
  | some t =>
    let cols := insertColumns t i
    let rowsR := if cols.isEmpty || i.fromSelect then some (i.rows, st) else xfRowsMy f t cols i.rows st
    match rowsR with
    | none => none
    | some (rows, st') =>
      (xfSets f t i.onDup st').map fun (od, st'') => ({ i with rows := rows, onDup := od }, st'')

/-- the statement as the MySQL query encryptor hands it on -/
def forwardStmtMy (c : CryptoOps) (kv : KeyView) (sch : Schema) (s : Stmt) (rnd : Bytes) : Stmt :=
  match s with
  | .insert i => match xfInsertMy (encCellMy c kv) sch i rnd with | some (i', _) => .insert i' | none => s
  | .update u => match xfUpdate (encCellMy c kv) sch u rnd with | some (u', _) => .update u' | none => s
  | _ => s

end AcraModel.Proxy
