import AcraModel.Proxy.Placement
import AcraModel.Proxy.LitCoder
import AcraModel.Envelope.Detector
/-
Pipeline: what happens to ONE value on the way to the database (write chain) and on the way back
(read chain), for columns configured with transparent encryption only (`OnlyEncryption()`), as
compositions of the envelope models `protect` / `process` / `onColumnCompat`.

Write side (PostgreSQL front end):
  literal   : `PgQueryDBDataCoder.Decode` → `ChainDataEncryptor` (EncryptHandler, ReEncryptHandler) → `PgQueryDBDataCoder.Encode`
  parameter : `pgBoundValue.GetData` → the same chain → `pgBoundValue.SetData`
Read side: `PgSQLDataDecoderProcessor` → `OldContainerDetectorWrapper(EnvelopeDetector[decrypt])` → `PgSQLDataEncoderProcessor`
(the subscriber order is the regenerated fact `Generated.Wiring.pgSubscriberOrder`).

Domain assumptions (stated where used, respected by the generators): text-format bound parameters and result
columns that go through `utils.DecodeOctal` are valid UTF-8 without C1 control characters (the Go code works on
runes; on such input it is the byte-level function below) – string LITERALS go through the rune-level model
(`decodeLit` = `LitCoder.pgDecodeSval`) without any assumption; `response_on_fail` is the default (`ciphertext`);
poison-record callbacks are not configured.
-/
namespace AcraModel.Proxy
open AcraModel AcraModel.Envelope

/-! ### hex and escape codecs (`encoding/hex`, `utils/dbByteArrayEncoders.go`) -/

def hexNibble (n : Nat) : UInt8 := if n < 10 then UInt8.ofNat (48 + n) else UInt8.ofNat (87 + n)

/-- `hex.Encode` (lower case) -/
def hexEncode : Bytes → Bytes
  | [] => []
  | b :: r => hexNibble (b.toNat / 16) :: hexNibble (b.toNat % 16) :: hexEncode r

/-- `fromHexChar` -/
def nibbleVal (c : UInt8) : Option Nat :=
  if 48 ≤ c.toNat ∧ c.toNat ≤ 57 then some (c.toNat - 48)
  else if 97 ≤ c.toNat ∧ c.toNat ≤ 102 then some (c.toNat - 87)
  else if 65 ≤ c.toNat ∧ c.toNat ≤ 70 then some (c.toNat - 55)
  else none

/-- `hex.Decode`: `none` = `InvalidByteError` or `ErrLength` -/
def hexDecode : Bytes → Option Bytes
  | [] => some []
  | [_] => none
  | a :: b :: r =>
    match nibbleVal a, nibbleVal b, hexDecode r with
    | some x, some y, some rest => some (UInt8.ofNat (16 * x + y) :: rest)
    | _, _, _ => none

def backslash : UInt8 := 92
def pgHexPrefix : Bytes := [92, 120]   -- `\x`

/-- `utils.PgEncodeToHex` / `PgEncodeToHexString` -/
def pgHex (b : Bytes) : Bytes := pgHexPrefix ++ hexEncode b

/-- `unicode.IsControl` on a byte below 0x80 -/
def isControl (b : UInt8) : Bool := b.toNat < 32 || b.toNat == 127

def isOctDigit (b : UInt8) : Bool := 48 ≤ b.toNat && b.toNat ≤ 55

/-- `utils.DecodeOctal` (byte level; see the domain assumption in the header) -/
def decodeOctal : Bytes → Option Bytes
  | [] => some []
  | b :: r =>
    if isControl b then none
    else if b ≠ backslash then (decodeOctal r).map (b :: ·)
    else
      match r with
      | [] => none
      | c :: r1 =>
        if c = backslash then (decodeOctal r1).map (backslash :: ·)
        else
          match r1 with
          | d2 :: d3 :: r3 =>
            if isOctDigit c && isOctDigit d2 && isOctDigit d3 then
              -- byte arithmetic: `b = (b << 3) | digit` wraps at 8 bits
              (decodeOctal r3).map (UInt8.ofNat (((c.toNat - 48) * 64 + (d2.toNat - 48) * 8 + (d3.toNat - 48)) % 256) :: ·)
            else none
          | _ => none

inductive Esc where
  | ok (b : Bytes)
  | hexErr
  | octalErr
deriving DecidableEq, Repr

/-- `utils.DecodeEscaped` -/
def decodeEscaped (data : Bytes) : Esc :=
  if data.take 2 = pgHexPrefix then
    match hexDecode (data.drop 2) with
    | some b => .ok b
    | none => .hexErr
  else
    match decodeOctal data with
    | some b => .ok b
    | none => .octalErr

/-- `utf8.Valid` -/
def utf8Valid : Bytes → Bool
  | [] => true
  | b :: r =>
    let n := b.toNat
    let cont (x : UInt8) (lo hi : Nat) : Bool := lo ≤ x.toNat && x.toNat ≤ hi
    if n < 0x80 then utf8Valid r
    else if 0xC2 ≤ n ∧ n ≤ 0xDF then
      match r with
      | c1 :: r1 => cont c1 0x80 0xBF && utf8Valid r1
      | _ => false
    else if 0xE0 ≤ n ∧ n ≤ 0xEF then
      match r with
      | c1 :: c2 :: r2 =>
        let lo := if n = 0xE0 then 0xA0 else 0x80
        let hi := if n = 0xED then 0x9F else 0xBF
        cont c1 lo hi && cont c2 0x80 0xBF && utf8Valid r2
      | _ => false
    else if 0xF0 ≤ n ∧ n ≤ 0xF4 then
      match r with
      | c1 :: c2 :: c3 :: r3 =>
        let lo := if n = 0xF0 then 0x90 else 0x80
        let hi := if n = 0xF4 then 0x8F else 0xBF
        cont c1 lo hi && cont c2 0x80 0xBF && cont c3 0x80 0xBF && utf8Valid r3
      | _ => false
    else false

/-! ### the write chain -/

/-- already protected input is passed through by `RegistryHandler.EncryptWithClientID` -/
def passthrough (k : Kind) (data : Bytes) : Bool := matchKind k data || registryMatch data

/-- `EncryptHandler.EncryptWithClientID` for an `OnlyEncryption` setting -/
def encryptHandler (c : CryptoOps) (kv : KeyView) (s : ColSetting) (data rnd : Bytes) : Out Bytes :=
  protect c kv s.kind data rnd

/-- `ReEncryptHandler.MatchDataSignature` -/
def reMatch (data : Bytes) : Bool :=
  matchKind .block data ||
  (match deserialize data with
   | .ok (internal, _) => matchKind .block internal
   | _ => false)

/-- `ReEncryptHandler.EncryptWithClientID` -/
def reEncryptHandler (c : CryptoOps) (kv : KeyView) (s : ColSetting) (data rnd : Bytes) : Out Bytes :=
  if s.kind ≠ .block then .ok data
  else if reMatch data then .ok data
  else
    let d : Out Bytes :=
      if s.reenc then
        match extractContainer data with
        | .ok (_, ser) => process c kv ser
        | .err => .ok data
        | .panic => .panic
      else .ok data
    d.bind fun d => protect c kv .block d rnd

/-- `ChainDataEncryptor.EncryptWithClientID` with the chain `proxyFactory.New` builds; the handlers for
tokenisation, searchable encryption and masking (present when some column uses them) return the data
unchanged for an `OnlyEncryption` setting. At most one of the two handlers draws randomness, so both
see the same stream. -/
def writeChain (c : CryptoOps) (kv : KeyView) (s : ColSetting) (data rnd : Bytes) : Out Bytes :=
  (encryptHandler c kv s data rnd).bind fun d => reEncryptHandler c kv s d rnd

/-- bytes `CreateAcraBlock` / `CreateAcrastruct` read from `crypto/rand` -/
def rndUsed : Kind → Nat
  | .block => 56
  | .struct => 88

/-- randomness consumed by a successful `writeChain` (values that pass through consume none; the
re-encryption of a client-side AcraStruct container into an AcraBlock is outside this count) -/
def chainUsed (s : ColSetting) (data : Bytes) : Nat := if passthrough s.kind data then 0 else rndUsed s.kind

/-- OID class of the setting: `GetDBDataTypeID() != 0 && != ByteaOID` -/
def ColSetting.textTyped (s : ColSetting) : Bool := s.dtype == .str

/-- `PgQueryDBDataCoder.Decode` of a string literal: `none` = error (hex). The faithful model
(`LitCoder.pgDecodeSval`: rune-level `DecodeOctal`, the slice `DecodeEscaped` returns next to its error read from
the source) – EVERY byte string is in its domain. -/
def decodeLit (s : ColSetting) (lit : Bytes) : Option Bytes := pgDecodeSval s.textTyped lit

/-- `PgQueryDBDataCoder.Encode` / `setEncryptedData` (text format): printable strings of text-typed
columns stay as they are, everything else becomes a hex bytea literal -/
def encodeText (s : ColSetting) (data : Bytes) : Bytes :=
  if s.textTyped && utf8Valid data then data else pgHex data

/-- the transformer plugged into `Placement`: `encryptExpression` + `UpdateExpressionValue`.
State = the `crypto/rand` stream. -/
def encCell (c : CryptoOps) (kv : KeyView) : Xf Bytes := fun s cell rnd =>
  let run (raw : Bytes) : Option (Cell × Bytes) :=
    if raw.isEmpty then some (cell, rnd) else
    match writeChain c kv s raw rnd with
    | .ok nd => if nd == raw then some (cell, rnd) else some (.lit (encodeText s nd), rnd.drop (chainUsed s raw))
    | _ => none
  match cell with
  | .lit b =>
    match decodeLit s b with
    | none => none
    | some raw => run raw
  | .num b => run b
  | _ => some (cell, rnd)

/-- the statement as forwarded to the database (simple protocol `Query` and `Parse`) -/
def forwardStmt (c : CryptoOps) (kv : KeyView) (sch : Schema) (s : Stmt) (rnd : Bytes) : Stmt :=
  (xfStmt (encCell c kv) sch s rnd).1

/-! ### bound parameters -/

inductive Fmt | text | binary
deriving DecidableEq, Repr

/-- `pgBoundValue.GetData` for an `OnlyEncryption` setting without integer data type: text that is not escaped
bytea (`ErrDecodeOctalString`) is processed as it is (the `fix:` commit 8c178a7 – `GetData` returns its OWN copy
`p.data` there, whatever `DecodeEscaped` hands back next to the error); a hex error is returned -/
def getData (fmt : Fmt) (data : Bytes) : Option Bytes :=
  match fmt with
  | .binary => some data
  | .text =>
    match decodeEscaped data with
    | .ok b => some b
    | .octalErr => some data
    | .hexErr => none

/-- `pgBoundValue.SetData` → `setEncryptedData` -/
def setData (s : ColSetting) (fmt : Fmt) (nd : Bytes) : Bytes :=
  match fmt with
  | .binary => nd
  | .text => encodeText s nd

/-- one parameter through `encryptValuesWithPlaceholders`: `none` = error (Bind forwarded as received) -/
def encParam (c : CryptoOps) (kv : KeyView) (s : ColSetting) (fmt : Fmt) (data rnd : Bytes) : Option Bytes :=
  match getData fmt data with
  | none => none
  | some raw =>
    if raw.isEmpty then some data else
    match writeChain c kv s raw rnd with
    | .ok nd => some (setData s fmt nd)
    | _ => none

/-! ### the read chain -/

/-- `PgSQLDataDecoderProcessor.OnColumn`: (decoded data, remembered encoded value); `none` = fatal error
(a value that starts with `\x` but is not valid hex fails the whole response – known finding
`pg-uncovered-hex-lookalike`, kept because Acra's own test suite asserts this error) -/
def decodeCol (s : Option ColSetting) (fmt : Fmt) (data : Bytes) : Option (Bytes × Option Bytes) :=
  let typed := match s with | some s => s.dtype != .none | none => false
  if typed && fmt == .binary then some (data, none) else
  match decodeEscaped data with
  | .ok d => some (d, some data)
  | .octalErr => some (data, none)
  | .hexErr => none

/-- `PgSQLDataEncoderProcessor.OnColumn` (default `response_on_fail`) -/
def encodeCol (s : Option ColSetting) (fmt : Fmt) (decrypted : Bool) (encoded : Option Bytes) (data : Bytes) : Bytes :=
  let dt := match s with | some s => s.dtype | none => .none
  -- empty after decoding (the bytea text form `\x`): columns without a data type get back what the database sent
  if data.isEmpty then (if dt == .none then encoded.getD data else data) else
  match dt with
  | .str => data
  | .bytes => if fmt == .binary then data else pgHex data
  | .none =>
    if decrypted then (if fmt == .binary then data else pgHex data)
    else encoded.getD data

/-- one non-NULL result column through the subscriber chain of `proxyFactory.New`
(decoder → compat wrapper around the envelope detector with the decrypt callback → encoder).
`decrypted` is modelled as "the detector changed the bytes". -/
def readChain (c : CryptoOps) (kv : KeyView) (s : Option ColSetting) (fmt : Fmt) (data : Bytes) : Out Bytes :=
  match decodeCol s fmt data with
  | none => .err
  | some (d, enc) =>
    match onColumnCompat [decryptCallback c kv] d with
    | .fatal => .err
    | .panic => .panic
    | .ok out _ => .ok (encodeCol s fmt (out != d) enc out)

/-! ### the database and the client, as far as the statements of the theorems need them -/

/-- PostgreSQL's `byteaout` (hex) for text results, identity for binary ones -/
def dbOut (fmt : Fmt) (stored : Bytes) : Bytes :=
  match fmt with
  | .text => pgHex stored
  | .binary => stored

/-- what a client that reads a result column does with the bytes: text-typed columns (and all
binary results) are taken as they are, bytea in text format goes through `byteain` -/
def clientValue (s : ColSetting) (fmt : Fmt) (data : Bytes) : Option Bytes :=
  if s.dtype == .str || fmt == .binary then some data else
  match decodeEscaped data with
  | .ok b => some b
  | _ => none

end AcraModel.Proxy
