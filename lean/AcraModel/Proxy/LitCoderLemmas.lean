import AcraModel.Proxy.LitCoder
/-!
What the literal coders return, for EVERY literal text – given the regenerated fact about which slice
`DecodeEscaped` returns in each branch (hypothesis `hf`; discharged in `Props/C04.lean` by
`fact_decodeEscaped_returns`, so that a source in which another variable is returned breaks that one theorem
and nothing in the model library).
-/
namespace AcraModel.Proxy
open AcraModel

/-- the returns of `utils.DecodeEscaped` the model's theorems need: the INPUT travels next to both errors -/
def escReturnsExpected : List (String × String × String) :=
  [("hex.err", "data", "err"), ("hex", "output", "err"), ("octal.err", "data", "ErrDecodeOctalString"), ("octal", "result", "nil")]

theorem escSliceTag_of (hf : Generated.PgCoder.decodeEscapedReturns = escReturnsExpected) :
    escSliceTag "hex" = "output" ∧ escSliceTag "hex.err" = "data" ∧ escSliceTag "octal" = "result" ∧ escSliceTag "octal.err" = "data" := by
  unfold escSliceTag
  rw [hf]
  decide

/-- `DecodeEscaped` in Go terms: the decoded bytes without error, or THE INPUT next to the error -/
theorem decodeEscapedGo_eq (hf : Generated.PgCoder.decodeEscapedReturns = escReturnsExpected) (data : Bytes) :
    decodeEscapedGo data =
      match Wire.Bytea.decodeEscaped data with
      | .ok b => (b, none)
      | .error e => (data, some e) := by
  obtain ⟨h1, h2, h3, h4⟩ := escSliceTag_of hf
  unfold decodeEscapedGo Wire.Bytea.decodeEscaped
  rw [h1, h2, h3, h4]
  split
  · next h =>
    cases hd : Wire.Bytea.hexDecode h <;> simp [retSlice, hd]
  · next hne =>
    cases hd : Wire.Bytea.decodeOctal data <;> simp [retSlice]

/-- `PgQueryDBDataCoder.Decode` of a string literal in terms of the codec's outcome -/
theorem pgDecodeSval_eq (hf : Generated.PgCoder.decodeEscapedReturns = escReturnsExpected) (typed : Bool) (lit : Bytes) :
    pgDecodeSval typed lit =
      if typed then some lit else
      match Wire.Bytea.decodeEscaped lit with
      | .ok b => some b
      | .error .octal => some lit
      | .error .hex => none := by
  unfold pgDecodeSval
  rw [decodeEscapedGo_eq hf]
  cases typed with
  | true => rfl
  | false =>
    simp only [Bool.false_eq_true, if_false]
    cases hd : Wire.Bytea.decodeEscaped lit with
    | ok b => rfl
    | error e => cases e <;> rfl

theorem decodeEscaped_hex_error (lit : Bytes) :
    Wire.Bytea.decodeEscaped lit = .error .hex ↔ ∃ h, lit = 92 :: 120 :: h ∧ Wire.Bytea.hexDecode h = none := by
  unfold Wire.Bytea.decodeEscaped
  split
  · next h =>
    cases hd : Wire.Bytea.hexDecode h with
    | none => simp [hd]
    | some b => simp [hd]
  · next hne =>
    constructor
    · intro h
      cases hd : Wire.Bytea.decodeOctal lit <;> simp [hd] at h
    · rintro ⟨h, rfl, _⟩
      exact absurd rfl (hne h)

/-- the decoded value is empty only when the literal denotes the empty byte string -/
theorem decodeEscaped_ok_nil (lit : Bytes) (h : Wire.Bytea.decodeEscaped lit = .ok []) : lit = [] ∨ lit = [92, 120] := by
  unfold Wire.Bytea.decodeEscaped at h
  split at h
  · next hx =>
    cases hd : Wire.Bytea.hexDecode hx with
    | none => simp [hd] at h
    | some b =>
      simp only [hd, Except.ok.injEq] at h
      subst h
      right
      rw [hexDecode_nil hx hd]
  · cases hd : Wire.Bytea.decodeOctal lit with
    | none => simp [hd] at h
    | some b =>
      simp only [hd, Except.ok.injEq] at h
      subst h
      left
      exact decodeOctal_nil lit hd

/-- **the coder is total except for broken hex**: an error is returned exactly for `\x` followed by invalid hex -/
theorem pgDecodeSval_none_iff (hf : Generated.PgCoder.decodeEscapedReturns = escReturnsExpected) (typed : Bool) (lit : Bytes) :
    pgDecodeSval typed lit = none ↔ typed = false ∧ ∃ h, lit = 92 :: 120 :: h ∧ Wire.Bytea.hexDecode h = none := by
  rw [pgDecodeSval_eq hf, ← decodeEscaped_hex_error]
  cases typed with
  | true => simp
  | false =>
    simp only [Bool.false_eq_true, if_false, true_and]
    cases hd : Wire.Bytea.decodeEscaped lit with
    | ok b => simp
    | error e => cases e <;> simp

/-- **what the chain receives**: the decoded bytes or the literal's text itself – and nothing empty unless the
literal denotes the empty byte string (`''`, or `'\x'` for a column without text type) -/
theorem pgDecodeSval_some (hf : Generated.PgCoder.decodeEscapedReturns = escReturnsExpected) (typed : Bool) (lit raw : Bytes)
    (h : pgDecodeSval typed lit = some raw) :
    (raw = lit ∨ Wire.Bytea.decodeEscaped lit = .ok raw) ∧ (raw = [] → lit = [] ∨ (typed = false ∧ lit = [92, 120])) := by
  rw [pgDecodeSval_eq hf] at h
  cases typed with
  | true =>
    simp only [if_true, Option.some.injEq] at h
    subst h
    exact ⟨Or.inl rfl, fun h => Or.inl h⟩
  | false =>
    simp only [Bool.false_eq_true, if_false] at h
    cases hd : Wire.Bytea.decodeEscaped lit with
    | ok b =>
      simp only [hd, Option.some.injEq] at h
      subst h
      refine ⟨Or.inr rfl, ?_⟩
      intro hb
      subst hb
      cases decodeEscaped_ok_nil lit hd with
      | inl h => exact Or.inl h
      | inr h => exact Or.inr ⟨rfl, h⟩
    | error e =>
      cases e with
      | hex => simp [hd] at h
      | octal =>
        simp only [hd, Option.some.injEq] at h
        subst h
        exact ⟨Or.inl rfl, fun h => Or.inl h⟩

/-- MySQL: string and integer literals reach the chain as they are; hex literals decoded, an error only for
invalid hex digits / odd length -/
theorem myDecode_spec (k : MyLit) (v : Bytes) :
    (k = .str ∨ k = .int → myDecode k v = some v) ∧
    (k = .hexVal → myDecode k v = Wire.Bytea.hexDecode v) ∧
    (∀ raw, myDecode k v = some raw → raw = [] → v = [] ∨ (k = .hexNum ∧ v = hexNumPrefix)) := by
  refine ⟨?_, ?_, ?_⟩
  · rintro (rfl | rfl) <;> rfl
  · rintro rfl; rfl
  · intro raw h hr
    subst hr
    cases k with
    | str => simp [myDecode] at h; exact Or.inl h
    | int => simp [myDecode] at h; exact Or.inl h
    | hexVal => exact Or.inl (hexDecode_nil v h)
    | hexNum =>
      simp only [myDecode] at h
      split at h
      · next hp =>
        right
        refine ⟨rfl, ?_⟩
        have hd := hexDecode_nil _ h
        have : v = v.take 2 ++ v.drop 2 := (List.take_append_drop 2 v).symm
        rw [this, hp, hd, List.append_nil]
      · simp only [Option.some.injEq] at h
        exact Or.inl h

end AcraModel.Proxy
