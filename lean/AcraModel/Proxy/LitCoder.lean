import AcraModel.Proxy.Placement
import AcraModel.Wire.ByteaLemmas
import AcraModel.Generated.PgCoder
/-
LitCoder: what the two query encryptors hand to the encryption chain for a LITERAL of a protected column –
`encryptor/postgresql/dbDataCoder.go` (`PgQueryDBDataCoder.Decode`, string-literal branch),
`encryptor/mysql/dbDataCoder.go` (`DBDataCoder.Decode`) and, underneath the PostgreSQL coder,
`utils.DecodeEscaped` AS GO RETURNS IT: a slice AND an error. The PostgreSQL coder deliberately lets
`ErrDecodeOctalString` fall through and uses the slice returned next to it ("not an escaped bytea: take the
string as it is"), so WHICH slice `DecodeEscaped` returns next to an error decides whether a literal that is
not valid bytea escape text (line break, tab, `C:\keys\master.pem`) is encrypted or skipped as "empty".

The codecs are the rune-level models of `Wire/Bytea.lean` (`[]rune(string)`, `unicode.IsControl`,
`utf8.EncodeRune`): no assumption about the literal's bytes.

Which variable travels next to the error is READ FROM THE SOURCE (`Generated.PgCoder.decodeEscapedReturns`).
-/
namespace AcraModel.Proxy
open AcraModel

/-- the slice a `return <tag>, err` of `DecodeEscaped` hands back: its input (`data`), nothing (`nil`), or the
buffer it decoded into -/
def retSlice (tag : String) (input decoded : Bytes) : Bytes :=
  if tag = "data" then input else if tag = "nil" then [] else decoded

/-- name of the slice returned in a branch of `DecodeEscaped` (regenerated fact) -/
def escSliceTag (branch : String) : String :=
  ((Generated.PgCoder.decodeEscapedReturns.find? (·.1 == branch)).map (·.2.1)).getD "nil"

/-- `utils.DecodeEscaped` with both results. On a hex error the buffer `output` is not modelled (the source
returns `data` there, pinned by `fact_decodeEscaped_returns`). -/
def decodeEscapedGo (data : Bytes) : Bytes × Option Wire.Bytea.EscErr :=
  match data with
  | 92 :: 120 :: h =>
    match Wire.Bytea.hexDecode h with
    | some b => (retSlice (escSliceTag "hex") data b, none)
    | none => (retSlice (escSliceTag "hex.err") data [], some .hex)
  | _ =>
    match Wire.Bytea.decodeOctal data with
    | some b => (retSlice (escSliceTag "octal") data b, none)
    | none => (retSlice (escSliceTag "octal.err") data [], some .octal)

/-- `PgQueryDBDataCoder.Decode` of a string literal (`aConst.GetSval() != nil`); `typed` = the setting's
`GetDBDataTypeID()` is neither 0 nor bytea. `none` = an error is returned (only for invalid hex after `\x`):
`UpdateExpressionValue` passes it on and the whole statement is forwarded as received. -/
def pgDecodeSval (typed : Bool) (lit : Bytes) : Option Bytes :=
  if typed then some lit else
  match decodeEscapedGo lit with
  | (_, some .hex) => none       -- `err != nil && err != ErrDecodeOctalString` → InvalidByteError / ErrLength → `return nil, err`
  | (bin, _) => some bin         -- no error, or ErrDecodeOctalString: `return binValue, nil`

/-! ### MySQL -/

/-- literal kinds of Acra's MySQL grammar that `UpdateExpressionValue` transforms -/
inductive MyLit | str | int | hexVal | hexNum
deriving DecidableEq, Repr

def hexNumPrefix : Bytes := [48, 120]   -- `0x`

/-- `mysql.DBDataCoder.Decode`: `none` = hex error (the statement is forwarded as received) -/
def myDecode (k : MyLit) (v : Bytes) : Option Bytes :=
  match k with
  | .str | .int => some v
  | .hexVal => Wire.Bytea.hexDecode v
  | .hexNum => if v.take 2 = hexNumPrefix then Wire.Bytea.hexDecode (v.drop 2) else some v

/-! ### lemmas -/

theorem encodeRune_ne_nil (c : Nat) : Wire.Bytea.encodeRune c ≠ [] := by
  unfold Wire.Bytea.encodeRune
  repeat' split
  all_goals simp

/-- the loop of `DecodeOctal` produces at least one byte per rune -/
theorem decodeOctalRunes_nil : ∀ (n : Nat) (l : List Nat), l.length ≤ n → Wire.Bytea.decodeOctalRunes l = some [] → l = []
  | _, [], _, _ => rfl
  | 0, _ :: _, hl, _ => by simp at hl
  | n+1, ch :: rest, hl, h => by
    exfalso
    unfold Wire.Bytea.decodeOctalRunes at h
    split at h
    · cases h
    · split at h
      · cases hr : Wire.Bytea.decodeOctalRunes rest with
        | none => simp [hr] at h
        | some x =>
          simp only [hr, Option.map_some, Option.some.injEq] at h
          have := encodeRune_ne_nil ch
          cases he : Wire.Bytea.encodeRune ch with
          | nil => exact this he
          | cons a b => simp [he] at h
      · split at h
        · cases h
        · next r' =>
          cases hr : Wire.Bytea.decodeOctalRunes r' with
          | none => simp [hr] at h
          | some x => simp [hr] at h
        · next d1 d2 d3 r' _ =>
          split at h
          · cases hr : Wire.Bytea.decodeOctalRunes r' with
            | none => simp [hr] at h
            | some x => simp [hr] at h
          · cases h
        · cases h

theorem toRunes_nil (s : Bytes) (h : Wire.Bytea.toRunes s = []) : s = [] := by
  cases s with
  | nil => rfl
  | cons b r => rw [Wire.Bytea.toRunes] at h; simp at h

/-- `DecodeOctal` returns the empty slice only for the empty input -/
theorem decodeOctal_nil (s : Bytes) (h : Wire.Bytea.decodeOctal s = some []) : s = [] :=
  toRunes_nil s (decodeOctalRunes_nil _ _ (Nat.le_refl _) h)

theorem hexDecode_nil (h : Bytes) (hd : Wire.Bytea.hexDecode h = some []) : h = [] := by
  have := Wire.Bytea.hexDecode_length h [] hd
  cases h with
  | nil => rfl
  | cons a r => simp at this

end AcraModel.Proxy
